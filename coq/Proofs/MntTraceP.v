(* C01 support: what `layercake mount` does to the kernel, as a trace.

   For every layer of the chain the command works through a list of [item]s (the overlay, if
   the layer is derived, then the imports in configuration order).  An item is skipped when
   the mount table (a probe of the rendered kernel table) shows its target mounted; otherwise
   fs.Mount is called.  The table is re-read after every mount (overlay and imports) and at the
   end of a layer, so every decision is taken on a fresh probe.  [itrace]/[ltrace] describe
   exactly that, and [run_mount_trace] shows that the model of a whole `mount` invocation
   produces such a trace from the layer definitions read from disk.  Everything the
   properties say about the calls is then derived from the trace by list reasoning
   (Proofs/MntPropsP.v), without looking at the monadic program again. *)
From LC Require Import Lib.Bytes Lib.Lex Lib.Fields Lib.PathM Gen.Consts
  Model.MountInfo Model.FsTree Model.Kernel Model.Layers Cases.Verdict Cases.LC
  Proofs.MntSimP Proofs.MntWpP.
Open Scope N_scope.

(* ------------------------------------------------------------------ items and traces *)
Record item := MkItem { it_src : bytes; it_tgt : bytes; it_ty : bytes; it_data : bytes; it_imp : bool }.

Definition cmounted (ksc : kstate) (t : bytes) : bool :=
  match get_mount (pr_mounts (probe_of ksc)) t with Some _ => true | None => false end.

Definition op1 (it : item) : op :=
  OMount (it_src it) (it_tgt it) (it_ty it) (mount_flags (it_ty it)) (it_data it).
Definition op2 (it : item) : op := OMount [] (it_tgt it) [] (MS_SLAVE + MS_REC) (it_data it).
(* the calls fs.Mount makes for an item; [ok]: the first one succeeded *)
Definition mops (it : item) (ok : bool) : list op :=
  op1 it :: (if ok && memb (it_src it) propagation_sources then [op2 it] else []).

Definition kmount_it (f : fsT) (ks : kstate) (it : item) : kres :=
  kmount f ks (it_src it) (it_tgt it) (it_ty it) (mount_flags (it_ty it)) (it_data it).

(* TDone: all items handled; TStop: stopped early for some reason, after complete fs.Mount
   calls; TFailed: stopped because the first call of an fs.Mount failed (it is the last call) *)
Inductive tstat := TDone | TStop | TFailed.

Inductive itrace : kstate -> list item -> list op -> kstate -> tstat -> Prop :=
| IT_nil ks : itrace ks [] [] ks TDone
| IT_stop ks its : itrace ks its [] ks TStop
| IT_skip ks it its ops ks' st :
    cmounted ks (it_tgt it) = true ->
    itrace ks its ops ks' st ->
    itrace ks (it :: its) ops ks' st
| IT_mount ks it its f ks1 ops ks' st :
    cmounted ks (it_tgt it) = false ->
    kmount_it f ks it = KOk ks1 ->
    itrace ks1 its ops ks' st ->
    itrace ks (it :: its) (mops it true ++ ops) ks' st
| IT_fail ks it its f :
    cmounted ks (it_tgt it) = false ->
    kmount_it f ks it = KErr ->
    itrace ks (it :: its) (mops it false) ks TFailed.

Inductive ltrace : kstate -> list (list item) -> list op -> kstate -> tstat -> Prop :=
| LT_nil ks : ltrace ks [] [] ks TDone
| LT_stop ks ls : ltrace ks ls [] ks TStop
| LT_layer ks its ls ops1 ks1 ops2 ks2 st :
    itrace ks its ops1 ks1 TDone ->
    ltrace ks1 ls ops2 ks2 st ->
    ltrace ks (its :: ls) (ops1 ++ ops2) ks2 st
| LT_layer_stop ks its ls ops1 ks1 st :
    st <> TDone ->
    itrace ks its ops1 ks1 st ->
    ltrace ks (its :: ls) ops1 ks1 st.

Lemma ltrace_done_stop ks ls ops ks' st :
  ltrace ks ls ops ks' st -> st = TDone -> ltrace ks ls ops ks' TStop.
Proof.
  induction 1 as [ks|ks ls|ks its ls ops1 ks1 ops2 ks2 st Hi Hl IH|ks its ls ops1 ks1 st Hst Hi];
    intros Hd; subst.
  - constructor.
  - discriminate.
  - eapply LT_layer; [exact Hi|now apply IH].
  - congruence.
Qed.

(* ------------------------------------------------------------------ the items of a layer *)
Definition xitem (x : xmount) : item := MkItem (x_source x) (x_mount x) (x_fstype x) [] true.

Definition ovl_data (c : cfgT) (bl l : layer) : bytes :=
  bs "lowerdir=" ++ build_path c bl ++ bs ",upperdir=" ++ upper_path c l
  ++ bs ",workdir=" ++ work_path c l.

Definition ovl_items (c : cfgT) (m : lmap) (l : layer) : list item :=
  match l_base l with
  | [] => []
  | b0 => [MkItem overlay (build_path c l) overlay
                  (match lm_get m b0 with Some bl => ovl_data c bl l | None => [] end) false]
  end.
Definition imp_items (c : cfgT) (m : lmap) (l : layer) : list item :=
  match expand_config_mounts c m l with Some xs => map xitem xs | None => [] end.
Definition layer_items (c : cfgT) (m : lmap) (l : layer) : list item :=
  ovl_items c m l ++ imp_items c m l.

Definition chain_items (c : cfgT) (f : fsT) (n : bytes) : list (list item) :=
  map (layer_items c (LCS.layers_on_disk c f)) (LCS.chain c f n).

(* the import loop of mount_one, named (convertible to the local fix of the model) *)
Definition mount_loop e (c : cfgT) : list xmount -> ldefs -> M ldefs :=
  fix go (xs : list xmount) (ld : ldefs) : M ldefs :=
    match xs with
    | [] => ret ld
    | x :: r =>
      match get_mount (pr_mounts (ld_probe ld)) (x_mount x) with
      | Some mnt =>
        if source_is_expected (pr_devs (ld_probe ld)) mnt (x_source x) then go r ld else fail
      | None =>
        f <- get_fs ;;
        (if exists_ f (x_source x) then ret tt
         else if in_any_layer_dir 64 (c_layers c) (x_source x) then fs_mkdir e (x_source x)
         else fail) ;;;
        fs_mount e (x_source x) (x_mount x) (x_fstype x) [] ;;;
        ld' <- refresh_mounts c ld ;;
        go r ld'
      end
    end.

(* ------------------------------------------------------------------ fs.Mount *)
Section Plain.
Variable e : env.
Hypothesis He : plain e.

Lemma do_op_mount s t ty fl d st :
  do_op e (OMount s t ty fl d) st =
  match kmount (w_fs (s_w st)) (w_ks (s_w st)) s t ty fl d with
  | KOk k' => (Ret tt, MkSt (MkW (w_fs (s_w st)) k') (S (s_n st)) (OMount s t ty fl d :: s_log st))
  | KErr => (Fail, MkSt (s_w st) (S (s_n st)) (OMount s t ty fl d :: s_log st))
  end.
Proof.
  unfold do_op. rewrite mutate_plain by exact He.
  unfold apply_op, bind, get_fs, get_ks. cbn [s_w s_n s_log].
  destruct (kmount (w_fs (s_w st)) (w_ks (s_w st)) s t ty fl d); reflexivity.
Qed.

Lemma slave_keeps f ks t d ks' :
  kmount f ks [] t [] (MS_SLAVE + MS_REC) d = KOk ks' -> ks' = ks.
Proof.
  unfold kmount.
  change (has_flag (MS_SLAVE + MS_REC) MS_REMOUNT) with false.
  change (has_flag (MS_SLAVE + MS_REC) MS_SLAVE) with true. cbv iota.
  destruct (top_at (ks_tab ks) t); [|discriminate]. intros H. now injection H.
Qed.

Lemma K_step ks' L s o : sys s = L -> is_sys o = true ->
  K ks' (L ++ [o]) (MkSt (MkW (w_fs (s_w s)) ks') (S (s_n s)) (o :: s_log s)).
Proof.
  intros Hl Ho. split; [reflexivity|]. rewrite sys_cons, Ho. f_equal. rewrite <- Hl. reflexivity.
Qed.
Lemma K_step_fail ks L s o : kst s = ks -> sys s = L -> is_sys o = true ->
  K ks (L ++ [o]) (MkSt (s_w s) (S (s_n s)) (o :: s_log s)).
Proof.
  intros Hk Hl Ho. split; [exact Hk|]. rewrite sys_cons, Ho. f_equal. rewrite <- Hl. reflexivity.
Qed.

(* the outcome of fs.Mount on an item, as a wp *)
Lemma fs_mount_wp it ks L s (Q : unit -> mst -> Prop) (E : rclass -> mst -> Prop) :
  K ks L s ->
  (forall f ks1 s', kmount_it f ks it = KOk ks1 -> K ks1 (L ++ mops it true) s' -> Q tt s') ->
  (forall f ks1 s', kmount_it f ks it = KOk ks1 -> K ks1 (L ++ mops it true) s' -> E RFail s') ->
  (forall f s', kmount_it f ks it = KErr -> K ks (L ++ mops it false) s' -> E RFail s') ->
  wp (fs_mount e (it_src it) (it_tgt it) (it_ty it) (it_data it)) Q E s.
Proof.
  intros [Hk Hl] HQ HE2 HE1. unfold fs_mount. apply wp_bind. unfold wp at 1. rewrite do_op_mount.
  pose proof Hk as Hk'. unfold kst in Hk'. rewrite Hk'. fold (kmount_it (w_fs (s_w s)) ks it). fold (op1 it).
  destruct (kmount_it (w_fs (s_w s)) ks it) as [ks1|] eqn:Ek.
  - pose proof (K_step ks1 L s (op1 it) Hl eq_refl) as HK1.
    revert HK1. generalize (MkSt (MkW (w_fs (s_w s)) ks1) (S (s_n s)) (op1 it :: s_log s)).
    intros s1 HK1. unfold mops in HQ, HE2. cbn [andb] in HQ, HE2.
    destruct (memb (it_src it) propagation_sources) eqn:Em.
    + unfold wp. rewrite do_op_mount. destruct HK1 as [Hk1 Hl1]. unfold kst in Hk1. rewrite Hk1.
      fold (op2 it).
      destruct (kmount (w_fs (s_w s1)) ks1 [] (it_tgt it) [] (MS_SLAVE + MS_REC) (it_data it)) as [ks2|] eqn:Ek2.
      * apply slave_keeps in Ek2. subst ks2. eapply HQ; [exact Ek|].
        pose proof (K_step ks1 _ s1 (op2 it) Hl1 eq_refl) as HK2. rewrite <- app_assoc in HK2. exact HK2.
      * eapply HE2; [exact Ek|].
        pose proof (K_step_fail ks1 _ s1 (op2 it) Hk1 Hl1 eq_refl) as HK2. rewrite <- app_assoc in HK2. exact HK2.
    + apply wp_ret. eapply HQ; [exact Ek|exact HK1].
  - eapply HE1; [exact Ek|]. unfold mops. cbn [andb]. now apply K_step_fail.
Qed.

(* ------------------------------------------------------------------ read-only programs and their values *)
Definition ldok (m : lmap) (ks : kstate) (ld : ldefs) : Prop :=
  msim m (ld_map ld) /\ ld_probe ld = probe_of ks.

Lemma refresh_wp c ld s (Q : ldefs -> mst -> Prop) (E : rclass -> mst -> Prop) :
  (forall ld', msim (ld_map ld) (ld_map ld') -> ld_probe ld' = probe_of (kst s) -> Q ld' s) ->
  E RPanic s ->
  wp (refresh_mounts c ld) Q E s.
Proof.
  intros HQ HE. unfold refresh_mounts, wp, bind, get_ks. fold (kst s).
  destruct (probe_of (kst s)) as [|ms ds] eqn:Ep; [exact HE|].
  cbn. apply HQ; [apply msim_map_overlain|reflexivity].
Qed.

Lemma probe_layer_ok c f um m ld n : msim m (ld_map ld) ->
  msim m (ld_map (probe_layer c f um ld n)) /\ ld_probe (probe_layer c f um ld n) = ld_probe ld.
Proof.
  intros Hm. unfold probe_layer. destruct (lm_get (ld_map ld) n) as [l|] eqn:El; [|auto].
  cbv zeta. cbn [ld_map ld_probe]. split; [|reflexivity].
  match goal with |- msim m (lm_set _ ?l') => set (lnew := l') end.
  assert (Hc : core lnew = core l).
  { unfold lnew.
    repeat match goal with |- context [if ?b then _ else _] => destruct b end;
      rewrite ?fls_core, ?core_set_state, ?core_set_kmounts; reflexivity. }
  apply msim_set; [exact Hm|]. exists l. split.
  - assert (Hn : l_name lnew = l_name l) by (unfold core in Hc; congruence).
    rewrite Hn, (lm_get_name _ _ _ El). exact El.
  - unfold lsame. now rewrite Hc.
Qed.

Lemma probe_fold_ok c f um m order : forall ld, msim m (ld_map ld) ->
  msim m (ld_map (fold_left (probe_layer c f um) order ld))
  /\ ld_probe (fold_left (probe_layer c f um) order ld) = ld_probe ld.
Proof.
  induction order as [|n r IH]; intros ld Hm; cbn [fold_left]; [auto|].
  destruct (probe_layer_ok c f um m ld n Hm) as [H1 H2].
  destruct (IH _ H1) as [H3 H4]. split; congruence.
Qed.

Lemma get_layers_wp c um s (Q : ldefs -> mst -> Prop) (E : rclass -> mst -> Prop) :
  (forall ld, ldok (read_layer_files c (w_fs (s_w s))) (kst s) ld -> Q ld s) ->
  (forall rc, E rc s) ->
  wp (get_layers c um) Q E s.
Proof.
  intros HQ HE. unfold get_layers. apply wp_bind. unfold find_layers.
  apply wp_bind, wp_get_fs.
  destruct (negb (is_dir (w_fs (s_w s)) (c_layers c))); [apply wp_fail, HE|].
  destruct (negb (check_inheritance (read_layer_files c (w_fs (s_w s))))); [apply wp_fail, HE|].
  destruct (normalize_order (read_layer_files c (w_fs (s_w s)))) as [o|]; [|apply wp_diverge, HE].
  apply wp_ret. unfold probe_all. apply wp_bind. apply refresh_wp; [|apply HE].
  intros ld1 Hs Hp. cbn [ld_map] in Hs.
  apply wp_bind, wp_get_fs. apply wp_ret. apply HQ.
  destruct (probe_fold_ok c (w_fs (s_w s)) um (read_layer_files c (w_fs (s_w s))) (ld_order ld1) ld1 Hs)
    as [H1 H2].
  split; [exact H1|congruence].
Qed.

(* makedirs keeps the probe and the structure; it is kq, so only the value matters *)
Lemma makedirs_val c ld n s0 :
  wp (makedirs e c ld n)
     (fun ld' _ => msim (ld_map ld) (ld_map ld') /\ ld_probe ld' = ld_probe ld)
     (fun _ _ => True) s0.
Proof.
  unfold makedirs. apply wp_bind. apply wp_guard; [intros _|exact (fun _ => I)].
  destruct (lm_get (ld_map ld) n) as [l|] eqn:El; [|exact I].
  apply wp_bind. apply wp_guard; [intros _|exact (fun _ => I)].
  destruct (l_state l <? st_complete); [|apply wp_ret; split; [apply msim_refl|reflexivity]].
  apply wp_bind, wp_get_fs. apply wp_bind.
  match goal with |- wp ?m _ _ _ => generalize m end. intros m0.
  unfold wp at 1. destruct (m0 s0) as [[[]| | | |] s1]; try exact I.
  apply wp_bind, wp_get_fs. apply wp_ret. cbn [set_layer ld_map ld_probe]. split; [|reflexivity].
  match goal with |- msim _ (lm_set _ (find_layerstate _ _ _ ?l1)) => set (lx := l1) end.
  assert (Hcx : core lx = core l) by (unfold lx; destruct (_ && _); reflexivity).
  assert (Hc : core (find_layerstate c (w_fs (s_w s1)) ld lx) = core l) by (rewrite fls_core; exact Hcx).
  apply msim_set; [apply msim_refl|]. exists l. split.
  - assert (Hn : l_name (find_layerstate c (w_fs (s_w s1)) ld lx) = l_name l) by (unfold core in Hc; congruence).
    rewrite Hn, (lm_get_name _ _ _ El). exact El.
  - unfold lsame. now rewrite Hc.
Qed.

Lemma makedirs_fold_wp c (names : list layer) : forall ld m ks ksc L s
    (Q : ldefs -> mst -> Prop) (E : rclass -> mst -> Prop),
  K ks L s -> msim m (ld_map ld) -> ld_probe ld = probe_of ksc ->
  (forall ld' s', K ks L s' -> msim m (ld_map ld') -> ld_probe ld' = probe_of ksc -> Q ld' s') ->
  (forall rc s', K ks L s' -> E rc s') ->
  wp (foldM (fun ld x => makedirs e c ld (l_name x)) names ld) Q E s.
Proof.
  induction names as [|x r IH]; intros ld m ks ksc L s Q E HK Hm Hp HQ HE; cbn [foldM].
  - apply wp_ret. now apply HQ.
  - apply wp_bind.
    eapply (wp_kq _ (fun ld' => msim (ld_map ld) (ld_map ld') /\ ld_probe ld' = ld_probe ld));
      [apply kq_makedirs|exact HK|intros s0; apply makedirs_val| |exact HE].
    intros ld1 s1 [H1 H2] HK1. eapply IH; [exact HK1| | |exact HQ|exact HE].
    + eapply msim_trans; eassumption.
    + congruence.
Qed.

(* ------------------------------------------------------------------ the import loop *)
Lemma mount_loop_wp c m xs : forall ld ks L s (Q : ldefs -> mst -> Prop) (E : rclass -> mst -> Prop),
  K ks L s -> msim m (ld_map ld) -> ld_probe ld = probe_of ks ->
  (forall ld' ops ks1 s',
     itrace ks (map xitem xs) ops ks1 TDone -> K ks1 (L ++ ops) s' ->
     msim m (ld_map ld') -> ld_probe ld' = probe_of ks1 -> Q ld' s') ->
  (forall rc ops ks1 st s',
     st <> TDone -> itrace ks (map xitem xs) ops ks1 st -> K ks1 (L ++ ops) s' ->
     (st = TFailed -> rc = RFail) -> E rc s') ->
  wp (mount_loop e c xs ld) Q E s.
Proof.
  induction xs as [|x r IH]; intros ld ks L s Q E HK Hm Hp HQ HE; cbn [mount_loop map].
  - apply wp_ret. eapply HQ; [constructor| |exact Hm|exact Hp]. now rewrite app_nil_r.
  - assert (Hc : cmounted ks (it_tgt (xitem x))
                 = match get_mount (pr_mounts (ld_probe ld)) (x_mount x) with Some _ => true | None => false end).
    { unfold cmounted. rewrite Hp. reflexivity. }
    assert (Hstop : forall rc, E rc s).
    { intros rc. eapply (HE rc [] ks TStop); [discriminate|constructor| |discriminate].
      now rewrite app_nil_r. }
    destruct (get_mount (pr_mounts (ld_probe ld)) (x_mount x)) as [mnt|] eqn:Eg.
    + destruct (source_is_expected (pr_devs (ld_probe ld)) mnt (x_source x)); [|apply wp_fail, Hstop].
      eapply IH; [exact HK|exact Hm|exact Hp| |].
      * intros ld' ops ks1 s' Ht. apply (HQ ld' ops ks1 s'). now apply IT_skip.
      * intros rc ops ks1 st s' Hst Ht. apply (HE rc ops ks1 st s'); [exact Hst|]. now apply IT_skip.
    + apply wp_bind, wp_get_fs. apply wp_bind.
      assert (Hpre : forall (m0 : M unit), kq m0 ->
                wp m0 (fun _ s1 => K ks L s1) (fun _ s1 => K ks L s1) s).
      { intros m0 Hq. eapply (wp_kq m0 (fun _ => True)); [exact Hq|exact HK|intros s0|auto|auto].
        unfold wp. destruct (m0 s0) as [[[]| | | |] ?]; exact I. }
      eapply wp_conseq.
      { apply Hpre. destruct (exists_ (w_fs (s_w s)) (x_source x)); [apply kq_ret|].
        destruct (in_any_layer_dir 64 (c_layers c) (x_source x)); [apply kq_fs_mkdir|apply kq_fail]. }
      2:{ intros rc s1 HK1. eapply (HE rc [] ks TStop); [discriminate|constructor| |discriminate].
          now rewrite app_nil_r. }
      intros u1 s1 HK1. cbv beta in HK1 |- *.
      apply wp_bind.
      apply (fs_mount_wp (xitem x) ks L s1); [exact HK1| | |].
      * (* mounted *)
        intros f ks1 s2 Ek HK2. apply wp_bind.
        assert (Hk2 : kst s2 = ks1) by apply HK2.
        apply refresh_wp.
        -- intros ld' Hs' Hp'. rewrite Hk2 in Hp'.
           eapply IH; [exact HK2|eapply msim_trans; eassumption|exact Hp'| |].
           ++ intros ld'' ops ks2 s3 Ht HK3.
              apply (HQ ld'' (mops (xitem x) true ++ ops) ks2 s3).
              ** eapply IT_mount; [exact Hc|exact Ek|exact Ht].
              ** now rewrite app_assoc.
           ++ intros rc ops ks2 st s3 Hst Ht HK3.
              apply (HE rc (mops (xitem x) true ++ ops) ks2 st s3); [exact Hst| |].
              ** eapply IT_mount; [exact Hc|exact Ek|exact Ht].
              ** now rewrite app_assoc.
        -- eapply (HE RPanic (mops (xitem x) true ++ []) ks1 TStop); [discriminate| | |discriminate].
           ++ eapply IT_mount; [exact Hc|exact Ek|constructor].
           ++ now rewrite app_nil_r.
      * (* the propagation call failed *)
        intros f ks1 s2 Ek HK2.
        eapply (HE RFail (mops (xitem x) true ++ []) ks1 TStop); [discriminate| | |discriminate].
        -- eapply IT_mount; [exact Hc|exact Ek|constructor].
        -- now rewrite app_nil_r.
      * (* the mount call failed *)
        intros f s2 Ek HK2.
        eapply (HE RFail (mops (xitem x) false) ks TFailed); [discriminate| |exact HK2|reflexivity].
        eapply IT_fail; [exact Hc|exact Ek].
Qed.

(* ------------------------------------------------------------------ one layer *)
Lemma mount_one_wp c m x ld ks L s (Q : ldefs -> mst -> Prop) (E : rclass -> mst -> Prop) :
  K ks L s -> ldok m ks ld -> lm_get m (l_name x) = Some x ->
  (forall ld' ops ks1 s',
     itrace ks (layer_items c m x) ops ks1 TDone -> K ks1 (L ++ ops) s' ->
     ldok m ks1 ld' -> expand_config_mounts c m x <> None -> Q ld' s') ->
  (forall rc ops ks1 st s',
     st <> TDone -> (forall rest, ltrace ks (layer_items c m x :: rest) ops ks1 st) ->
     K ks1 (L ++ ops) s' -> (st = TFailed -> rc = RFail) -> E rc s') ->
  wp (mount_one e c ld (l_name x)) Q E s.
Proof.
  intros HK [Hm Hp] Hx HQ HE.
  assert (HE' : forall rc ops ks1 st s',
            itrace ks (layer_items c m x) ops ks1 st -> K ks1 (L ++ ops) s' ->
            (st = TFailed -> rc = RFail) -> E rc s').
  { intros rc ops ks1 st s' Ht HK1 Hf.
    destruct st.
    - eapply (HE rc ops ks1 TStop); [discriminate| |exact HK1|discriminate].
      intros rest. rewrite <- (app_nil_r ops). eapply LT_layer; [exact Ht|constructor].
    - eapply (HE rc ops ks1 TStop); [discriminate| |exact HK1|discriminate].
      intros rest. eapply LT_layer_stop; [discriminate|exact Ht].
    - eapply (HE rc ops ks1 TFailed); [discriminate| |exact HK1|exact Hf].
      intros rest. eapply LT_layer_stop; [discriminate|exact Ht]. }
  assert (Hstop : forall rc, E rc s).
  { intros rc. eapply (HE' rc [] ks TStop); [constructor| |discriminate]. now rewrite app_nil_r. }
  change (mount_one e c ld (l_name x)) with
    (match lm_get (ld_map ld) (l_name x) with
     | None => panic
     | Some l =>
       guard (negb (l_state l <? st_mountable)) ;;;
       ld <- (match l_base l with
              | [] => ret ld
              | b0 =>
                match get_mount (pr_mounts (ld_probe ld)) (build_path c l) with
                | Some _ => ret ld
                | None =>
                  match lm_get (ld_map ld) b0 with
                  | None => panic
                  | Some bl => fs_mount e overlay (build_path c l) overlay (ovl_data c bl l) ;;;
                               refresh_mounts c ld
                  end
                end
              end) ;;
       match expand_config_mounts c (ld_map ld) l with
       | None => fail
       | Some xs =>
         ld0 <- mount_loop e c xs ld ;;
         ld1 <- refresh_mounts c ld0 ;;
         f <- get_fs ;;
         match lm_get (ld_map ld1) (l_name x) with
         | None => panic
         | Some l1 =>
           let l2 := find_layerstate c f ld1 l1 in
           guard (negb (l_state l2 =? st_error)) ;;;
           ret (set_layer ld1 l2)
         end
       end
     end).
  destruct (msim_get_some _ _ _ _ Hm Hx) as (l & El & Sl). rewrite El.
  pose proof (lsame_proj _ _ Sl) as (Hn & Hb & Hmo & _ & Hpa).
  apply wp_bind. apply wp_guard; [intros _|intros _; apply Hstop].
  rewrite <- (lsame_build c _ _ Sl), <- Hb.
  (* the continuation after the overlay step, for any ldefs / kernel *)
  assert (Hrest : forall ldx ks0 L0 s0,
            K ks0 L0 s0 -> msim m (ld_map ldx) -> ld_probe ldx = probe_of ks0 ->
            (forall ld' ops ks1 s',
               itrace ks0 (imp_items c m x) ops ks1 TDone -> K ks1 (L0 ++ ops) s' ->
               ldok m ks1 ld' -> expand_config_mounts c m x <> None -> Q ld' s') ->
            (forall rc ops ks1 st s',
               itrace ks0 (imp_items c m x) ops ks1 st -> K ks1 (L0 ++ ops) s' ->
               (st = TFailed -> rc = RFail) -> E rc s') ->
            wp (match expand_config_mounts c (ld_map ldx) l with
                | None => fail
                | Some xs =>
                  ld0 <- mount_loop e c xs ldx ;;
                  ld1 <- refresh_mounts c ld0 ;;
                  f <- get_fs ;;
                  match lm_get (ld_map ld1) (l_name x) with
                  | None => panic
                  | Some l1 =>
                    let l2 := find_layerstate c f ld1 l1 in
                    guard (negb (l_state l2 =? st_error)) ;;;
                    ret (set_layer ld1 l2)
                  end
                end) Q E s0).
  { intros ldx ks0 L0 s0 HK0 Hmx Hpx HQ0 HE0. unfold imp_items in HQ0, HE0.
    rewrite <- (sim_expand_mounts c m (ld_map ldx) x l Hmx Sl).
    destruct (expand_config_mounts c m x) as [xs|].
    2:{ apply wp_fail. eapply (HE0 RFail [] ks0 TStop); [constructor| |discriminate].
        now rewrite app_nil_r. }
    apply wp_bind. eapply (mount_loop_wp c m xs); [exact HK0|exact Hmx|exact Hpx| |].
    2:{ intros rc ops ks1 st s' _ Ht HK1 Hf. eapply HE0; eassumption. }
    intros ld0 ops ks1 s1 Ht HK1 Hm0 Hp0.
    assert (Hk1 : kst s1 = ks1) by apply HK1.
    assert (Hst1 : forall rc, E rc s1).
    { intros rc. eapply (HE0 rc ops ks1 TDone); [exact Ht|exact HK1|discriminate]. }
    apply wp_bind. apply refresh_wp; [|apply Hst1].
    intros ld1 Hs1 Hp1. rewrite Hk1 in Hp1.
    assert (Hm1 : msim m (ld_map ld1)) by (eapply msim_trans; eassumption).
    apply wp_bind, wp_get_fs.
    destruct (msim_get_some _ _ _ _ Hm1 Hx) as (l1 & El1 & Sl1). rewrite El1. cbv zeta.
    apply wp_bind. apply wp_guard; [intros _|intros _; apply Hst1].
    apply wp_ret. eapply HQ0; [exact Ht|exact HK1| |discriminate].
    split; [|exact Hp1]. cbn [set_layer ld_map].
    apply msim_set; [exact Hm1|]. exists l1. split.
    - assert (Hn1 : l_name (find_layerstate c (w_fs (s_w s1)) ld1 l1) = l_name l1).
      { pose proof (fls_core c (w_fs (s_w s1)) ld1 l1) as Hc. unfold core in Hc. congruence. }
      rewrite Hn1, (lm_get_name _ _ _ El1). exact El1.
    - apply fls_same. }
  unfold layer_items, ovl_items in HQ, HE'.
  destruct (l_base x) as [|b0c b0r] eqn:Ebase.
  - (* not derived: no overlay item *)
    apply wp_bind, wp_ret. cbn [app] in HQ, HE'.
    apply (Hrest ld ks L s HK Hm Hp).
    + intros ld' ops ks1 s' Ht HK1 Hok Hex. eapply HQ; eassumption.
    + intros rc ops ks1 st s' Ht HK1 Hf. eapply HE'; eauto.
  - set (ovl := MkItem overlay (build_path c x) overlay
                  (match lm_get m (b0c :: b0r) with Some bl => ovl_data c bl x | None => [] end) false) in *.
    cbn [app] in HQ, HE'.
    assert (Hc : cmounted ks (it_tgt ovl)
                 = match get_mount (pr_mounts (ld_probe ld)) (build_path c x) with Some _ => true | None => false end).
    { unfold cmounted. rewrite Hp. reflexivity. }
    apply wp_bind.
    destruct (get_mount (pr_mounts (ld_probe ld)) (build_path c x)) as [mnt|] eqn:Eg.
    + apply wp_ret. apply (Hrest ld ks L s HK Hm Hp).
      * intros ld' ops ks1 s' Ht HK1 Hok Hex. eapply HQ; [|exact HK1|exact Hok|exact Hex].
        apply IT_skip; [exact Hc|exact Ht].
      * intros rc ops ks1 st s' Ht HK1 Hf. eapply HE'; [|exact HK1|exact Hf].
        apply IT_skip; [exact Hc|exact Ht].
    + pose proof (msim_get m (ld_map ld) (b0c :: b0r) Hm) as Gb.
      destruct (lm_get (ld_map ld) (b0c :: b0r)) as [bl'|] eqn:Ebl'; [|apply wp_panic, Hstop].
      destruct (lm_get m (b0c :: b0r)) as [bl|] eqn:Ebl; [|contradiction].
      assert (Hdata : ovl_data c bl' l = it_data ovl).
      { unfold ovl. cbn [it_data]. unfold ovl_data.
        now rewrite (lsame_build c _ _ Gb), (lsame_upper c _ _ Sl), (lsame_work c _ _ Sl). }
      rewrite Hdata. apply wp_bind.
      apply (fs_mount_wp ovl ks L s); [exact HK| | |].
      * intros f ks1 s1 Ek HK1.
        assert (Hk1 : kst s1 = ks1) by apply HK1.
        apply refresh_wp.
        -- intros ldx Hsx Hpx. rewrite Hk1 in Hpx.
           apply (Hrest ldx ks1 (L ++ mops ovl true) s1 HK1); [eapply msim_trans; eassumption|exact Hpx| |].
           ++ intros ld' ops ks2 s' Ht HK2 Hok Hex.
              eapply HQ; [|rewrite app_assoc; exact HK2|exact Hok|exact Hex].
              eapply IT_mount; [exact Hc|exact Ek|exact Ht].
           ++ intros rc ops ks2 st s' Ht HK2 Hf.
              eapply HE'; [|rewrite app_assoc; exact HK2|exact Hf].
              eapply IT_mount; [exact Hc|exact Ek|exact Ht].
        -- eapply (HE' RPanic (mops ovl true ++ []) ks1 TStop); [| |discriminate].
           ++ eapply IT_mount; [exact Hc|exact Ek|constructor].
           ++ now rewrite app_nil_r.
      * intros f ks1 s1 Ek HK1.
        eapply (HE' RFail (mops ovl true ++ []) ks1 TStop); [| |discriminate].
        -- eapply IT_mount; [exact Hc|exact Ek|constructor].
        -- now rewrite app_nil_r.
      * intros f s1 Ek HK1.
        eapply (HE' RFail (mops ovl false) ks TFailed); [|exact HK1|reflexivity].
        eapply IT_fail; [exact Hc|exact Ek].
Qed.

(* ------------------------------------------------------------------ the chain *)
Lemma mount_fold_wp c m (xs : list layer) : forall (names : list layer) ld ks L s
    (Q : ldefs -> mst -> Prop) (E : rclass -> mst -> Prop),
  map l_name names = map l_name xs ->
  Forall (fun x => lm_get m (l_name x) = Some x) xs ->
  K ks L s -> ldok m ks ld ->
  (forall ld' ops ks1 s',
     ltrace ks (map (layer_items c m) xs) ops ks1 TDone -> K ks1 (L ++ ops) s' ->
     ldok m ks1 ld' -> Forall (fun x => expand_config_mounts c m x <> None) xs -> Q ld' s') ->
  (forall rc ops ks1 st s',
     st <> TDone -> ltrace ks (map (layer_items c m) xs) ops ks1 st ->
     K ks1 (L ++ ops) s' -> (st = TFailed -> rc = RFail) -> E rc s') ->
  wp (foldM (fun ld x => mount_one e c ld (l_name x)) names ld) Q E s.
Proof.
  induction xs as [|x r IH]; intros names ld ks L s Q E Hn Hx HK Hok HQ HE;
    destruct names as [|y names]; try discriminate Hn; cbn [foldM map].
  - apply wp_ret. eapply HQ; [constructor| |exact Hok|constructor]. now rewrite app_nil_r.
  - cbn [map] in Hn. injection Hn as Hy Hn. rewrite Hy.
    inversion Hx as [|? ? Hx1 Hx2]; subst.
    apply wp_bind. eapply (mount_one_wp c m x); [exact HK|exact Hok|exact Hx1| |].
    + intros ld1 ops ks1 s1 Ht HK1 Hok1 Hex1.
      eapply (IH names); [exact Hn|exact Hx2|exact HK1|exact Hok1| |].
      * intros ld' ops2 ks2 s' Hl HK2 Hok2 Hex2.
        eapply HQ; [|rewrite app_assoc; exact HK2|exact Hok2|constructor; assumption].
        eapply LT_layer; eassumption.
      * intros rc ops2 ks2 st s' Hst Hl HK2 Hf.
        eapply HE; [exact Hst| |rewrite app_assoc; exact HK2|exact Hf].
        eapply LT_layer; eassumption.
    + intros rc ops ks1 st s' Hst Hl HK1 Hf. eapply HE; [exact Hst|apply Hl|exact HK1|exact Hf].
Qed.

Lemma ancestors_get fuel : forall m n acc ch,
  Forall (fun x => lm_get m (l_name x) = Some x) acc ->
  ancestors_and_self fuel m n acc = Some ch ->
  Forall (fun x => lm_get m (l_name x) = Some x) ch.
Proof.
  induction fuel as [|fuel IH]; intros m n acc ch Ha; cbn [ancestors_and_self].
  - destruct n; [|discriminate]. intros H. now injection H as <-.
  - destruct n as [|a r]; [intros H; now injection H as <-|].
    destruct (lm_get m (a :: r)) as [l|] eqn:El; [|discriminate].
    apply IH. constructor; [|exact Ha]. now rewrite (lm_get_name _ _ _ El).
Qed.

(* ------------------------------------------------------------------ the whole invocation *)
Theorem run_mount_trace c um n (w : LC.wobs) :
  let '(o, st) := run e c um (CMount n) (LC.world_of w) in
  exists stat,
    ltrace (LC.wo_ks w) (chain_items c (LC.wo_fs w) n) (LCS.syscalls (rev (s_log st))) (w_ks (s_w st)) stat
    /\ (rclass_of o = ROk ->
        stat = TDone
        /\ Forall (fun x => expand_config_mounts c (LCS.layers_on_disk c (LC.wo_fs w)) x <> None)
                  (LCS.chain c (LC.wo_fs w) n))
    /\ (stat = TFailed -> rclass_of o = RFail).
Proof.
  set (s0 := MkSt (LC.world_of w) 0 []).
  set (m := LCS.layers_on_disk c (LC.wo_fs w)).
  assert (G : wp (run_command e c um (CMount n))
                 (fun _ st => ltrace (LC.wo_ks w) (chain_items c (LC.wo_fs w) n) (sys st) (kst st) TDone
                    /\ Forall (fun x => expand_config_mounts c m x <> None) (LCS.chain c (LC.wo_fs w) n))
                 (fun rc st => exists stat, stat <> TDone
                    /\ ltrace (LC.wo_ks w) (chain_items c (LC.wo_fs w) n) (sys st) (kst st) stat
                    /\ (stat = TFailed -> rc = RFail)) s0).
  { assert (HK0 : K (LC.wo_ks w) [] s0) by (split; reflexivity).
    assert (Hstop : forall rc s', K (LC.wo_ks w) [] s' ->
              exists stat, stat <> TDone
                /\ ltrace (LC.wo_ks w) (chain_items c (LC.wo_fs w) n) (sys s') (kst s') stat
                /\ (stat = TFailed -> rc = RFail)).
    { intros rc s' [H1 H2]. exists TStop. rewrite H1, H2. repeat split; [discriminate|constructor|discriminate]. }
    cbn [run_command]. apply wp_bind, wp_get_fs. apply wp_bind.
    apply wp_guard; [intros _|intros _; now apply Hstop].
    apply wp_bind. apply get_layers_wp; [|intros rc; now apply Hstop].
    intros ld Hok. change (read_layer_files c (w_fs (s_w s0))) with m in Hok.
    change (kst s0) with (LC.wo_ks w) in Hok.
    apply wp_bind. unfold mount_layer.
    apply wp_bind. apply wp_guard; [intros _|intros _; now apply Hstop].
    destruct (lm_get (ld_map ld) n) as [l|]; [|apply wp_panic; now apply Hstop].
    apply wp_bind. apply wp_guard; [intros _|intros _; now apply Hstop].
    destruct Hok as [Hm Hp].
    pose proof (sim_ancestors (S (length (ld_map ld))) m (ld_map ld) n [] [] Hm (Forall2_nil _)) as Ga.
    assert (Hci : chain_items c (LC.wo_fs w) n
                  = map (layer_items c m)
                        (match ancestors_and_self (S (length (ld_map ld))) m n [] with
                         | Some l0 => l0 | None => [] end)).
    { unfold chain_items, LCS.chain. fold m. now rewrite (msim_length _ _ Hm). }
    assert (Hcc : LCS.chain c (LC.wo_fs w) n
                  = match ancestors_and_self (S (length (ld_map ld))) m n [] with
                    | Some l0 => l0 | None => [] end).
    { unfold LCS.chain. fold m. now rewrite (msim_length _ _ Hm). }
    destruct (ancestors_and_self (S (length (ld_map ld))) (ld_map ld) n []) as [chain|] eqn:Ech.
    2:{ apply wp_diverge. destruct (ancestors_and_self (S (length (ld_map ld))) m n []); [contradiction|].
        now apply Hstop. }
    destruct (ancestors_and_self (S (length (ld_map ld))) m n []) as [ch|] eqn:Ech0; [|contradiction].
    rewrite Hci in Hstop |- *. rewrite Hcc. clear Hci Hcc.
    assert (Hget : Forall (fun x => lm_get m (l_name x) = Some x) ch).
    { eapply ancestors_get; [|exact Ech0]. constructor. }
    assert (Hnames : map l_name chain = map l_name ch).
    { symmetry. now apply Forall2_lsame_names. }
    apply wp_bind.
    eapply (makedirs_fold_wp c chain ld m); [exact HK0|exact Hm|exact Hp| |].
    2:{ intros rc s' HK1. destruct (Hstop rc s' HK1) as (stat & H1 & H2 & H3).
        exists stat. auto. }
    intros ld1 s1 HK1 Hm1 Hp1.
    apply wp_bind.
    eapply (mount_fold_wp c m ch chain); [exact Hnames|exact Hget|exact HK1|split; assumption| |].
    2:{ intros rc ops ks1 st s' Hst Hl [H1 H2] Hf. exists st. rewrite H1, H2. auto. }
    intros ld2 ops ks2 s2 Hl HK2 Hok2 Hex2. cbn [app] in HK2.
    apply wp_bind.
    assert (Hfin : forall s', K ks2 ops s' ->
               ltrace (LC.wo_ks w) (map (layer_items c m) ch) (sys s') (kst s') TDone).
    { intros s' [H1 H2]. now rewrite H1, H2. }
    eapply (wp_kq _ (fun _ => True)).
    - apply kq_mapM_. intros x. apply kq_make_export_symlinks.
    - exact HK2.
    - intros s3. unfold wp. destruct (mapM_ _ chain s3) as [[[]| | | |] ?]; exact I.
    - intros _ s3 _ HK3. apply wp_ret, wp_ret. split; [now apply Hfin|exact Hex2].
    - intros rc s3 [H1 H2]. exists TStop. rewrite H1, H2. repeat split; [discriminate| |discriminate].
      eapply ltrace_done_stop; [exact Hl|reflexivity]. }
  unfold run. fold s0.
  destruct (run_command e c um (CMount n) s0) as [o st] eqn:Er.
  pose proof (wp_elim _ _ _ _ _ _ G Er) as H.
  destruct o as [a| | | |]; cbn [rclass_of].
  - destruct H as [H Hex]. exists TDone. split; [exact H|]. split; [intros _; split; [reflexivity|exact Hex]|discriminate].
  - destruct H as (stat & H1 & H2 & H3). exists stat. split; [exact H2|]. split; [discriminate|exact H3].
  - destruct H as (stat & H1 & H2 & H3). exists stat. split; [exact H2|]. split; [discriminate|exact H3].
  - destruct H as (stat & H1 & H2 & H3). exists stat. split; [exact H2|]. split; [discriminate|exact H3].
  - destruct H as (stat & H1 & H2 & H3). exists stat. split; [exact H2|]. split; [discriminate|exact H3].
Qed.

End Plain.
