(* C01 support: a weakest-precondition calculus for the command monad under a plain
   environment (no -p, no fault plan), the two observations of a state that the mount
   properties need ([kst]: the kernel state, [sys]: the mount/umount calls logged so far) and
   the class of programs that leave both alone ([kq]). *)
From LC Require Import Lib.Bytes Lib.Lex Lib.Fields Lib.PathM Gen.Consts
  Model.MountInfo Model.FsTree Model.Kernel Model.Layers Cases.Verdict Cases.LC
  Proofs.MntSimP.
Open Scope N_scope.

(* ------------------------------------------------------------------ plain environment *)
Definition plain (e : env) : Prop := e_pretend e = false /\ e_fault e = NoFault.

Lemma plain_env_plain e : LCS.plain_env e = true -> plain e.
Proof.
  unfold LCS.plain_env, plain. destruct (e_pretend e), (e_fault e); cbn; intros H;
    try discriminate H; auto.
Qed.

Lemma mutate_plain e o act s : plain e ->
  mutate e o act s = act (MkSt (s_w s) (S (s_n s)) (o :: s_log s)).
Proof. intros [Hp Hf]. unfold mutate. rewrite Hp, Hf. reflexivity. Qed.

(* ------------------------------------------------------------------ wp *)
Definition wp {A} (m : M A) (Q : A -> mst -> Prop) (E : rclass -> mst -> Prop) (s : mst) : Prop :=
  match m s with
  | (Ret a, s') => Q a s'
  | (o, s') => E (rclass_of o) s'
  end.

Lemma wp_bind {A B} (m : M A) (f : A -> M B) (Q : B -> mst -> Prop) (E : rclass -> mst -> Prop) s :
  wp m (fun a s' => wp (f a) Q E s') E s -> wp (bind m f) Q E s.
Proof.
  unfold wp, bind. destruct (m s) as [[a| | | |] s1]; auto.
Qed.

Lemma wp_conseq {A} (m : M A) (Q Q' : A -> mst -> Prop) (E E' : rclass -> mst -> Prop) s :
  wp m Q' E' s -> (forall a s', Q' a s' -> Q a s') -> (forall rc s', E' rc s' -> E rc s') ->
  wp m Q E s.
Proof.
  unfold wp. destruct (m s) as [[a| | | |] s1]; auto.
Qed.

Lemma wp_ret {A} (a : A) (Q : A -> mst -> Prop) (E : rclass -> mst -> Prop) s : Q a s -> wp (ret a) Q E s.
Proof. exact (fun H => H). Qed.
Lemma wp_fail {A} (Q : A -> mst -> Prop) (E : rclass -> mst -> Prop) s : E RFail s -> wp fail Q E s.
Proof. exact (fun H => H). Qed.
Lemma wp_panic {A} (Q : A -> mst -> Prop) (E : rclass -> mst -> Prop) s : E RPanic s -> wp panic Q E s.
Proof. exact (fun H => H). Qed.
Lemma wp_diverge {A} (Q : A -> mst -> Prop) (E : rclass -> mst -> Prop) s : E RDiverge s -> wp diverge Q E s.
Proof. exact (fun H => H). Qed.
Lemma wp_get_fs (Q : fsT -> mst -> Prop) (E : rclass -> mst -> Prop) s : Q (w_fs (s_w s)) s -> wp get_fs Q E s.
Proof. exact (fun H => H). Qed.
Lemma wp_get_ks (Q : kstate -> mst -> Prop) (E : rclass -> mst -> Prop) s : Q (w_ks (s_w s)) s -> wp get_ks Q E s.
Proof. exact (fun H => H). Qed.
Lemma wp_guard b (Q : unit -> mst -> Prop) (E : rclass -> mst -> Prop) s : (b = true -> Q tt s) -> (b = false -> E RFail s) -> wp (guard b) Q E s.
Proof. destruct b; cbn; auto. Qed.

Lemma wp_elim {A} (m : M A) (Q : A -> mst -> Prop) (E : rclass -> mst -> Prop) s o s' : wp m Q E s -> m s = (o, s') ->
  match o with Ret a => Q a s' | _ => E (rclass_of o) s' end.
Proof. unfold wp. intros H Em. rewrite Em in H. destruct o; exact H. Qed.

(* ------------------------------------------------------------------ observations *)
Definition kst (s : mst) : kstate := w_ks (s_w s).
Definition sys (s : mst) : list op := LCS.syscalls (rev (s_log s)).
Definition is_sys (o : op) : bool :=
  match o with OMount _ _ _ _ _ | OUmount _ _ => true | _ => false end.

Lemma syscalls_app a b : LCS.syscalls (a ++ b) = LCS.syscalls a ++ LCS.syscalls b.
Proof. unfold LCS.syscalls. apply filter_app. Qed.

Lemma sys_cons w n o l :
  sys (MkSt w n (o :: l)) = sys (MkSt w n l) ++ (if is_sys o then [o] else []).
Proof.
  unfold sys. cbn [s_log rev]. rewrite syscalls_app. reflexivity.
Qed.

(* K ks L s: the kernel state is ks and the system calls so far are L *)
Definition K (ks : kstate) (L : list op) (s : mst) : Prop := kst s = ks /\ sys s = L.

(* ------------------------------------------------------------------ programs that leave kernel and call log alone *)
Definition kq {A} (m : M A) : Prop := forall s, kst (snd (m s)) = kst s /\ sys (snd (m s)) = sys s.

Lemma kq_ret {A} (a : A) : kq (ret a).
Proof. intros s. split; reflexivity. Qed.
Lemma kq_fail {A} : kq (@fail A).
Proof. intros s. split; reflexivity. Qed.
Lemma kq_diverge {A} : kq (@diverge A).
Proof. intros s. split; reflexivity. Qed.
Lemma kq_panic {A} : kq (@panic A).
Proof. intros s. split; reflexivity. Qed.
Lemma kq_get_fs : kq get_fs.
Proof. intros s. split; reflexivity. Qed.
Lemma kq_get_ks : kq get_ks.
Proof. intros s. split; reflexivity. Qed.
Lemma kq_put_fs f : kq (put_fs f).
Proof. intros s. split; reflexivity. Qed.
Lemma kq_guard b : kq (guard b).
Proof. destruct b; [apply kq_ret|apply kq_fail]. Qed.

Lemma kq_bind {A B} (m : M A) (f : A -> M B) : kq m -> (forall a, kq (f a)) -> kq (bind m f).
Proof.
  intros Hm Hf s. unfold bind. specialize (Hm s).
  destruct (m s) as [o s1]. cbn [snd] in Hm. destruct Hm as [Hk Hl].
  destruct o as [a| | | |]; cbn [snd]; try (split; assumption).
  destruct (Hf a s1) as [Hk2 Hl2]. split; congruence.
Qed.

Lemma kq_on_f (r : fres) : kq (match r with FOk f' => put_fs f' | FErr => fail end).
Proof. destruct r; [apply kq_put_fs|apply kq_fail]. Qed.

Lemma kq_apply_op o : is_sys o = false -> kq (apply_op o).
Proof.
  intros Ho. unfold apply_op. apply kq_bind; [apply kq_get_fs|intros f].
  apply kq_bind; [apply kq_get_ks|intros k].
  destruct o; try discriminate Ho; try apply kq_on_f; apply kq_ret.
Qed.

Lemma kq_mutate e o act : is_sys o = false -> kq act -> kq (mutate e o act).
Proof.
  intros Ho Ha s. unfold mutate.
  assert (Hs : forall s0 : mst, sys (MkSt (s_w s0) (S (s_n s0)) (o :: s_log s0)) = sys s0).
  { intros s0. rewrite sys_cons, Ho, app_nil_r. destruct s0; reflexivity. }
  assert (Hact : kst (snd (act (MkSt (s_w s) (S (s_n s)) (o :: s_log s)))) = kst s
                 /\ sys (snd (act (MkSt (s_w s) (S (s_n s)) (o :: s_log s)))) = sys s).
  { destruct (Ha (MkSt (s_w s) (S (s_n s)) (o :: s_log s))) as [H1 H2]. rewrite H1, H2, Hs.
    split; reflexivity. }
  destruct (e_pretend e); [split; reflexivity|].
  destruct (e_fault e) as [|k|k]; [exact Hact| |].
  - destruct (Nat.eqb (s_n s) k); [|exact Hact]. cbn [snd]. rewrite Hs. split; reflexivity.
  - destruct (Nat.eqb (s_n s) k); [|exact Hact]. split; reflexivity.
Qed.

Lemma kq_do_op e o : is_sys o = false -> kq (do_op e o).
Proof. intros Ho. apply kq_mutate; [exact Ho|now apply kq_apply_op]. Qed.
Lemma kq_fs_mkdir e p : kq (fs_mkdir e p).
Proof. now apply kq_do_op. Qed.
Lemma kq_fs_remove e p : kq (fs_remove e p).
Proof. now apply kq_do_op. Qed.
Lemma kq_fs_symlink e a b : kq (fs_symlink e a b).
Proof. now apply kq_do_op. Qed.

Lemma kq_mapM_ {X} (f : X -> M unit) l : (forall x, kq (f x)) -> kq (mapM_ f l).
Proof.
  intros Hf. induction l as [|x r IH]; cbn [mapM_]; [apply kq_ret|].
  apply kq_bind; [apply Hf|intros _; exact IH].
Qed.
Lemma kq_foldM {X} (f : ldefs -> X -> M ldefs) l : (forall ld x, kq (f ld x)) -> forall ld, kq (foldM f l ld).
Proof.
  intros Hf. induction l as [|x r IH]; intros ld; cbn [foldM]; [apply kq_ret|].
  apply kq_bind; [apply Hf|intros ld'; apply IH].
Qed.

Ltac kqstep :=
  cbv beta iota zeta;
  lazymatch goal with
  | |- kq (bind _ _) => apply kq_bind; [ | intros ? ]
  | |- kq (ret _) => apply kq_ret
  | |- kq fail => apply kq_fail
  | |- kq diverge => apply kq_diverge
  | |- kq panic => apply kq_panic
  | |- kq get_fs => apply kq_get_fs
  | |- kq get_ks => apply kq_get_ks
  | |- kq (guard _) => apply kq_guard
  | |- kq (fs_mkdir _ _) => apply kq_fs_mkdir
  | |- kq (fs_remove _ _) => apply kq_fs_remove
  | |- kq (fs_symlink _ _ _) => apply kq_fs_symlink
  | |- kq (mapM_ _ _) => apply kq_mapM_; intros ?
  | |- kq (foldM _ _ _) => apply kq_foldM; intros ? ?
  | |- kq (match ?x with _ => _ end) => destruct x
  end.
Ltac kqauto := repeat kqstep.

Lemma kq_refresh_mounts c ld : kq (refresh_mounts c ld).
Proof. unfold refresh_mounts. kqauto. Qed.
Lemma kq_makedirs e c ld a : kq (makedirs e c ld a).
Proof. unfold makedirs. kqauto. Qed.
Lemma kq_make_symlink_in_dir e s t : kq (make_symlink_in_dir e s t).
Proof. unfold make_symlink_in_dir. kqauto. Qed.
Lemma kq_make_export_symlinks e c l : kq (make_export_symlinks e c l).
Proof. unfold make_export_symlinks. kqauto; apply kq_make_symlink_in_dir. Qed.

(* using a kq program inside wp: the frame K survives, the value facts come from a
   state-independent wp *)
Lemma wp_kq {A} (m : M A) (Qv : A -> Prop) ks L s (Q : A -> mst -> Prop) (E : rclass -> mst -> Prop) :
  kq m -> K ks L s ->
  (forall s0, wp m (fun a _ => Qv a) (fun _ _ => True) s0) ->
  (forall a s', Qv a -> K ks L s' -> Q a s') ->
  (forall rc s', K ks L s' -> E rc s') ->
  wp m Q E s.
Proof.
  intros Hq [Hk Hl] Hv HQ HE. specialize (Hv s). unfold wp in *.
  destruct (Hq s) as [H1 H2]. destruct (m s) as [o s1]. cbn [snd] in H1, H2.
  assert (HK : K ks L s1) by (split; congruence).
  destruct o; auto.
Qed.
