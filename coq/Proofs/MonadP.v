(* Reasoning rules for the state monad of Model/Layers.v.
   [hoare I bad P m Q]: started in a state whose world satisfies the invariant I and the
   precondition P, program m ends in a state whose world satisfies I at EVERY exit (return,
   refusal, crash, ...), satisfies Q on return and -- when [bad] is set -- never ends in
   Diverged or Panicked.  Invariants and conditions speak about the world only: the operation
   counter and the log never influence them. *)
From LC Require Import Lib.Bytes Lib.Lex Lib.Fields Lib.PathM Gen.Consts
  Model.MountInfo Model.FsTree Model.Kernel Model.Layers.

Definition wpred := world -> Prop.

Definition hoare {A} (Iv : wpred) (bad : bool) (P : wpred) (m : M A) (Q : A -> wpred) : Prop :=
  forall s, Iv (s_w s) -> P (s_w s) ->
    match m s with
    | (Ret a, s') => Iv (s_w s') /\ Q a (s_w s')
    | (Fail, s') | (Crashed, s') => Iv (s_w s')
    | (Diverged, s') | (Panicked, s') => if bad then False else Iv (s_w s')
    end.

Definition ptrue : wpred := fun _ => True.

Lemma hoare_conseq {A} (Iv : wpred) (bad : bool) (P P' : wpred) (m : M A) (Q Q' : A -> wpred) :
  hoare Iv bad P m Q -> (forall w, Iv w -> P' w -> P w) -> (forall a w, Iv w -> Q a w -> Q' a w) ->
  hoare Iv bad P' m Q'.
Proof.
  intros H HP HQ s HI HP'. specialize (H s HI (HP _ HI HP')).
  destruct (m s) as [[a| | | |] s']; auto. destruct H as [H1 H2]. split; auto.
Qed.

Lemma hoare_pre {A} (Iv : wpred) (bad : bool) (P : wpred) (m : M A) Q :
  (forall w, Iv w -> P w -> hoare Iv bad (fun w' => w' = w) m Q) -> hoare Iv bad P m Q.
Proof. intros H s HI HP. exact (H (s_w s) HI HP s HI eq_refl). Qed.

Lemma hoare_ret {A} (Iv : wpred) (bad : bool) (P : wpred) (a : A) (Q : A -> wpred) :
  (forall w, Iv w -> P w -> Q a w) -> hoare Iv bad P (ret a) Q.
Proof. intros H s HI HP. cbn. auto. Qed.

Lemma hoare_fail {A} (Iv : wpred) (bad : bool) (P : wpred) (Q : A -> wpred) : hoare Iv bad P (@fail A) Q.
Proof. intros s HI HP. cbn. auto. Qed.

Lemma hoare_diverge {A} (Iv : wpred) (P : wpred) (Q : A -> wpred) : hoare Iv false P (@diverge A) Q.
Proof. intros s HI HP. cbn. auto. Qed.

Lemma hoare_panic {A} (Iv : wpred) (P : wpred) (Q : A -> wpred) : hoare Iv false P (@panic A) Q.
Proof. intros s HI HP. cbn. auto. Qed.

Lemma hoare_false {A} (Iv : wpred) (bad : bool) (P : wpred) (m : M A) Q : (forall w, Iv w -> P w -> False) -> hoare Iv bad P m Q.
Proof. intros H s HI HP. destruct (H _ HI HP). Qed.

Lemma hoare_bind {A B} (Iv : wpred) (bad : bool) (P : wpred) (m : M A) (f : A -> M B) Q R :
  hoare Iv bad P m Q -> (forall a, hoare Iv bad (Q a) (f a) R) -> hoare Iv bad P (bind m f) R.
Proof.
  intros Hm Hf s HI HP. unfold bind. specialize (Hm s HI HP).
  destruct (m s) as [[a| | | |] s']; auto.
  destruct Hm as [HI' HQ]. exact (Hf a s' HI' HQ).
Qed.

Lemma hoare_guard (Iv : wpred) (bad : bool) (P : wpred) (b : bool) : hoare Iv bad P (guard b) (fun _ w => P w /\ b = true).
Proof. intros s HI HP. unfold guard. destruct b; cbn; auto. Qed.

Lemma hoare_get_fs (Iv : wpred) (bad : bool) (P : wpred) : hoare Iv bad P get_fs (fun f w => P w /\ f = w_fs w).
Proof. intros s HI HP. cbn. auto. Qed.

Lemma hoare_get_ks (Iv : wpred) (bad : bool) (P : wpred) : hoare Iv bad P get_ks (fun k w => P w /\ k = w_ks w).
Proof. intros s HI HP. cbn. auto. Qed.

(* a pure program: returns without touching the state *)
Lemma hoare_pure {A} (Iv : wpred) (bad : bool) (P : wpred) (m : M A) (Q : A -> wpred) :
  (forall s, Iv (s_w s) -> P (s_w s) ->
     (exists a, m s = (Ret a, s) /\ Q a (s_w s)) \/ m s = (Fail, s)) ->
  hoare Iv bad P m Q.
Proof.
  intros H s HI HP. destruct (H s HI HP) as [(a & E & HQ)|E]; rewrite E; auto.
Qed.

Lemma hoare_mapM_ {A} (Iv : wpred) (bad : bool) (f : A -> M unit) (l : list A) :
  (forall x, In x l -> hoare Iv bad ptrue (f x) (fun _ => ptrue)) ->
  hoare Iv bad ptrue (mapM_ f l) (fun _ => ptrue).
Proof.
  induction l as [|x r IH]; intros H; cbn [mapM_].
  - apply hoare_ret. intros; exact Logic.I.
  - eapply hoare_bind; [apply H; now left|]. intros u. cbv beta. apply IH. intros y Hy. apply H. now right.
Qed.

Lemma hoare_foldM {A} (Iv : wpred) (bad : bool) (J : ldefs -> Prop) (f : ldefs -> A -> M ldefs) (l : list A) :
  (forall ld x, In x l -> J ld -> hoare Iv bad ptrue (f ld x) (fun ld' _ => J ld')) ->
  forall ld, J ld -> hoare Iv bad ptrue (foldM f l ld) (fun ld' _ => J ld').
Proof.
  induction l as [|x r IH]; intros H ld HJ; cbn [foldM].
  - apply hoare_ret. auto.
  - eapply hoare_bind; [apply H; [now left|exact HJ]|]. intros ld'.
    apply hoare_pre. intros w _ HJ'. eapply hoare_conseq; [apply (IH (fun ld0 x0 Hx => H ld0 x0 (or_intror Hx)) ld' HJ')| |]; cbn; auto.
    intros; exact Logic.I.
Qed.

(* ------------------------------------------------------------------ mutating primitives *)
Definition bump (s : mst) (o : op) : mst := MkSt (s_w s) (S (s_n s)) (o :: s_log s).
Lemma bump_w s o : s_w (bump s o) = s_w s.
Proof. reflexivity. Qed.

Lemma hoare_mutate (Iv : wpred) (bad : bool) (P : wpred) e o (act : M unit) :
  hoare Iv bad P act (fun _ => ptrue) -> hoare Iv bad P (mutate e o act) (fun _ => ptrue).
Proof.
  intros H s HI HP. unfold mutate. destruct (e_pretend e); [cbn; auto; split; [exact HI|exact Logic.I]|].
  fold (bump s o).
  pose proof (H (bump s o) HI HP) as H'.
  destruct (e_fault e) as [|k|k].
  - exact H'.
  - destruct (Nat.eqb (s_n s) k); [exact HI|exact H'].
  - destruct (Nat.eqb (s_n s) k); [exact HI|exact H'].
Qed.

(* in a plain environment a mutation is just its action on the bumped state *)
Definition plain_env (e : env) : Prop := e_pretend e = false /\ e_fault e = NoFault.
Lemma mutate_plain e o act s : plain_env e -> mutate e o act s = act (bump s o).
Proof. intros [H1 H2]. unfold mutate. now rewrite H1, H2. Qed.
Lemma mutate_pretend e o act s : e_pretend e = true -> mutate e o act s = (Ret tt, s).
Proof. intros H. unfold mutate. now rewrite H. Qed.

(* the shape of every result of a mutation *)
Lemma mutate_cases e o act s :
  mutate e o act s = (Ret tt, s) \/ mutate e o act s = (Crashed, s)
  \/ mutate e o act s = (Fail, bump s o) \/ mutate e o act s = act (bump s o).
Proof.
  unfold mutate. destruct (e_pretend e); [now left|]. fold (bump s o).
  destruct (e_fault e) as [|k|k]; [now right; right; right| |];
  destruct (Nat.eqb (s_n s) k); auto.
Qed.
