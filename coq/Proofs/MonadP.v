(* Reasoning infrastructure for the command monad of Model/Layers.v.

   1. [quiet m]: m touches neither the operation counter nor the log (everything that is not
      [mutate]).
   2. [try_cleanup] and [wfa_eq]: [write_file_atomically] -- the only place that inspects a
      failure -- is, pointwise, a [bind] followed by a cleanup handler that re-raises.
   3. Section [Generic]: a relational "logic" [R : M A -> M A -> Prop] between the program run
      under environment e1 and the same program run under e2.  If R is closed under the
      primitives (ret, fail, diverge, panic, bind, get_fs, get_ks, mutate with a quiet action,
      write_file_atomically) then R relates [run_command e1 ..] and [run_command e2 ..] for
      every command of layercake, in every state (theorem [R_run_command]).  Every property
      below (pretend changes nothing, counter invariant, fault simulation, crash prefix) is one
      instance of this theorem; unary properties use e1 = e2. *)
From LC Require Import Lib.Bytes Lib.Lex Lib.Fields Lib.PathM Gen.Consts
  Model.MountInfo Model.FsTree Model.Kernel Model.Layers.

(* somebody else mounting by hand: not layercake *)
Definition is_manual (cmd : command) : bool :=
  match cmd with CKMount _ _ _ _ _ | CKUmount _ | CEdit _ _ => true | _ => false end.

(* ------------------------------------------------------------------ quiet programs *)
Definition quiet {A} (m : M A) : Prop :=
  forall s, s_n (snd (m s)) = s_n s /\ s_log (snd (m s)) = s_log s.

Lemma quiet_ret {A} (a : A) : quiet (ret a).
Proof. intros s. split; reflexivity. Qed.
Lemma quiet_fail {A} : quiet (@fail A).
Proof. intros s. split; reflexivity. Qed.
Lemma quiet_diverge {A} : quiet (@diverge A).
Proof. intros s. split; reflexivity. Qed.
Lemma quiet_panic {A} : quiet (@panic A).
Proof. intros s. split; reflexivity. Qed.
Lemma quiet_get_fs : quiet get_fs.
Proof. intros s. split; reflexivity. Qed.
Lemma quiet_get_ks : quiet get_ks.
Proof. intros s. split; reflexivity. Qed.
Lemma quiet_put_fs f : quiet (put_fs f).
Proof. intros s. split; reflexivity. Qed.
Lemma quiet_put_ks k : quiet (put_ks k).
Proof. intros s. split; reflexivity. Qed.

Lemma quiet_bind {A B} (m : M A) (f : A -> M B) :
  quiet m -> (forall a, quiet (f a)) -> quiet (bind m f).
Proof.
  intros Hm Hf s. unfold bind. specialize (Hm s).
  destruct (m s) as [o s1]. cbn [snd] in Hm. destruct Hm as [Hn Hl].
  destruct o as [a| | | |]; cbn [snd]; try (split; assumption).
  destruct (Hf a s1) as [Hn2 Hl2]. split; congruence.
Qed.

Lemma quiet_on_f (r : fres) : quiet (match r with FOk f' => put_fs f' | FErr => fail end).
Proof. destruct r; [apply quiet_put_fs | apply quiet_fail]. Qed.

Lemma quiet_apply_op o : quiet (apply_op o).
Proof.
  unfold apply_op. apply quiet_bind; [apply quiet_get_fs | intros f].
  apply quiet_bind; [apply quiet_get_ks | intros k].
  destruct o; try apply quiet_on_f; try apply quiet_ret.
  - destruct (kmount f k src tgt fstype flags data); [apply quiet_put_ks | apply quiet_fail].
  - destruct (kumount k tgt flags); [apply quiet_put_ks | apply quiet_fail].
Qed.

Lemma quiet_write_text_act p c :
  quiet (f <- get_fs ;; match write_text f p c with FOk f' => put_fs f' | FErr => fail end).
Proof. apply quiet_bind; [apply quiet_get_fs | intros f; apply quiet_on_f]. Qed.

Lemma quiet_append_act tmp c : quiet (f <- get_fs ;; put_fs (append_file f tmp c)).
Proof. apply quiet_bind; [apply quiet_get_fs | intros f; apply quiet_put_fs]. Qed.

Lemma quiet_drop_tmp tmp : quiet (drop_tmp tmp).
Proof. unfold drop_tmp. apply quiet_bind; [apply quiet_get_fs | intros f; apply quiet_put_fs]. Qed.

Lemma quiet_manual e c um cmd : is_manual cmd = true -> quiet (run_command e c um cmd).
Proof.
  destruct cmd; cbn [is_manual]; try discriminate; intros _; cbn [run_command].
  - apply quiet_bind; [apply quiet_apply_op | intros _; apply quiet_ret].
  - apply quiet_bind; [apply quiet_apply_op | intros _; apply quiet_ret].
  - apply quiet_bind; [apply quiet_get_fs | intros f].
    destruct (open_trunc f p); [|apply quiet_fail].
    apply quiet_bind; [apply quiet_put_fs | intros _; apply quiet_ret].
Qed.

(* ------------------------------------------------------------------ the failure handler *)
Definition try_cleanup {A} (m : M A) (h : M unit) : M A := fun s =>
  match m s with
  | (Fail, s') => (Fail, snd (h s'))
  | r => r
  end.

Definition wfa_body e (p : bytes) (chunks : list bytes) : M unit :=
  bind (do_op e (OOpen (p ++ tmp_suffix)))
       (fun _ => try_cleanup
                   (bind (cursor_writes e (p ++ tmp_suffix) chunks)
                         (fun _ => do_op e (ORename (p ++ tmp_suffix) p)))
                   (drop_tmp (p ++ tmp_suffix))).

Lemma wfa_eq e p chunks s : write_file_atomically e p chunks s = wfa_body e p chunks s.
Proof.
  unfold write_file_atomically, wfa_body, bind, try_cleanup.
  destruct (do_op e (OOpen (p ++ tmp_suffix)) s) as [o1 s1].
  destruct o1 as [u1| | | |]; try reflexivity.
  destruct (cursor_writes e (p ++ tmp_suffix) chunks s1) as [o2 s2].
  destruct o2 as [u2| | | |]; try reflexivity.
Qed.

(* the loops written as local [fix] in the model, named (convertible to the originals) *)
Definition mount_loop e (c : cfgT) : list xmount -> ldefs -> M ldefs :=
  fix go (xs : list xmount) (ld : ldefs) : M ldefs :=
    match xs with
    | [] => ret ld
    | x :: r =>
      match get_mount (pr_mounts (ld_probe ld)) (x_mount x) with
      | Some mnt =>
        if source_is_expected (pr_devs (ld_probe ld)) mnt (x_source x) then go r ld else fail
      | None =>
        f <- get_fs ;;
        (if exists_ f (x_source x) then ret tt
         else if in_any_layer_dir 64 (c_layers c) (x_source x) then fs_mkdir e (x_source x)
         else fail) ;;;
        fs_mount e (x_source x) (x_mount x) (x_fstype x) [] ;;;
        ld' <- refresh_mounts c ld ;;
        go r ld'
      end
    end.

Definition unmount_loop e (c : cfgT) : list bytes -> ldefs -> bool -> M (bool * ldefs) :=
  fix go (names : list bytes) (ld : ldefs) (busy : bool) : M (bool * ldefs) :=
    match names with
    | [] => ret (busy, ld)
    | n :: rest =>
      r <- unmount_layer e c ld n ;;
      go rest (snd r) (busy || match fst r with UBusy => true | _ => false end)
    end.

(* ------------------------------------------------------------------ the generic theorem *)
Section Generic.
Variables e1 e2 : env.
Variable R : forall A : Type, M A -> M A -> Prop.
Hypothesis H_order : e_order e1 = e_order e2.
Hypothesis H_force : e_force e1 = e_force e2.
Hypothesis H_pretend : e_pretend e1 = e_pretend e2.   (* makedirs looks at -p when it sets the state *)
Hypothesis R_ret : forall A (a : A), R A (ret a) (ret a).
Hypothesis R_fail : forall A, R A fail fail.
Hypothesis R_diverge : forall A, R A diverge diverge.
Hypothesis R_panic : forall A, R A panic panic.
Hypothesis R_bind : forall A B (m1 m2 : M A) (f1 f2 : A -> M B),
  R A m1 m2 -> (forall a, R B (f1 a) (f2 a)) -> R B (bind m1 f1) (bind m2 f2).
Hypothesis R_get_fs : R _ get_fs get_fs.
Hypothesis R_get_ks : R _ get_ks get_ks.
Hypothesis R_mutate : forall o act, quiet act -> R _ (mutate e1 o act) (mutate e2 o act).
Hypothesis R_wfa : forall p chunks,
  R _ (write_file_atomically e1 p chunks) (write_file_atomically e2 p chunks).

Lemma R_guard b : R _ (guard b) (guard b).
Proof. destruct b; [apply R_ret | apply R_fail]. Qed.

Lemma R_do_op o : R _ (do_op e1 o) (do_op e2 o).
Proof. apply R_mutate, quiet_apply_op. Qed.
Lemma R_fs_mkdir p : R _ (fs_mkdir e1 p) (fs_mkdir e2 p).
Proof. apply R_do_op. Qed.
Lemma R_fs_rename a b : R _ (fs_rename e1 a b) (fs_rename e2 a b).
Proof. apply R_do_op. Qed.
Lemma R_fs_remove p : R _ (fs_remove e1 p) (fs_remove e2 p).
Proof. apply R_do_op. Qed.
Lemma R_fs_symlink a b : R _ (fs_symlink e1 a b) (fs_symlink e2 a b).
Proof. apply R_do_op. Qed.
Lemma R_fs_write_text p c : R _ (fs_write_text e1 p c) (fs_write_text e2 p c).
Proof. apply R_mutate, quiet_write_text_act. Qed.
Lemma R_fs_mount s t ty d : R _ (fs_mount e1 s t ty d) (fs_mount e2 s t ty d).
Proof.
  unfold fs_mount. apply R_bind; [apply R_do_op | intros _].
  destruct (memb s propagation_sources); [apply R_do_op | apply R_ret].
Qed.
Lemma R_fs_unmount t : R _ (fs_unmount e1 t) (fs_unmount e2 t).
Proof. unfold fs_unmount. rewrite H_force. apply R_do_op. Qed.
Lemma R_write_layerfile l : R _ (write_layerfile e1 l) (write_layerfile e2 l).
Proof. apply R_wfa. Qed.

Lemma R_mapM_ {X} (f1 f2 : X -> M unit) l :
  (forall x, R _ (f1 x) (f2 x)) -> R _ (mapM_ f1 l) (mapM_ f2 l).
Proof.
  intros Hf. induction l as [|x r IH]; cbn [mapM_]; [apply R_ret|].
  apply R_bind; [apply Hf | intros _; exact IH].
Qed.

Lemma R_foldM {X} (f1 f2 : ldefs -> X -> M ldefs) l : forall ld,
  (forall ld x, R _ (f1 ld x) (f2 ld x)) -> R _ (foldM f1 l ld) (foldM f2 l ld).
Proof.
  intros ld Hf. revert ld. induction l as [|x r IH]; intros ld; cbn [foldM]; [apply R_ret|].
  apply R_bind; [apply Hf | intros ld'; apply IH].
Qed.

Lemma children_in_order_eq m n : children_in_order e1 m n = children_in_order e2 m n.
Proof. unfold children_in_order. rewrite H_order. reflexivity. Qed.

(* one structural step on a goal [R _ prog1 prog2] whose two sides have the same shape *)
Ltac rstep :=
  cbv beta iota zeta;
  lazymatch goal with
  | |- R _ (bind _ _) (bind _ _) => apply R_bind; [ | intros ? ]
  | |- R _ (ret _) (ret _) => apply R_ret
  | |- R _ fail fail => apply R_fail
  | |- R _ diverge diverge => apply R_diverge
  | |- R _ panic panic => apply R_panic
  | |- R _ get_fs get_fs => apply R_get_fs
  | |- R _ get_ks get_ks => apply R_get_ks
  | |- R _ (guard _) (guard _) => apply R_guard
  | |- R _ (fs_mkdir _ _) (fs_mkdir _ _) => apply R_fs_mkdir
  | |- R _ (fs_rename _ _ _) (fs_rename _ _ _) => apply R_fs_rename
  | |- R _ (fs_remove _ _) (fs_remove _ _) => apply R_fs_remove
  | |- R _ (fs_symlink _ _ _) (fs_symlink _ _ _) => apply R_fs_symlink
  | |- R _ (fs_write_text _ _ _) (fs_write_text _ _ _) => apply R_fs_write_text
  | |- R _ (fs_mount _ _ _ _ _) (fs_mount _ _ _ _ _) => apply R_fs_mount
  | |- R _ (fs_unmount _ _) (fs_unmount _ _) => apply R_fs_unmount
  | |- R _ (write_layerfile _ _) (write_layerfile _ _) => apply R_write_layerfile
  | |- R _ (mapM_ _ _) (mapM_ _ _) => apply R_mapM_; intros ?
  | |- R _ (foldM _ _ _) (foldM _ _ _) => apply R_foldM; intros ? ?
  | |- R _ (match ?x with _ => _ end) (match ?x with _ => _ end) => destruct x
  end.
Ltac rauto := repeat rstep.

Lemma R_refresh_mounts c ld : R _ (refresh_mounts c ld) (refresh_mounts c ld).
Proof. unfold refresh_mounts. rauto. Qed.

Lemma R_probe_all c um ld : R _ (probe_all c um ld) (probe_all c um ld).
Proof. unfold probe_all. rauto. apply R_refresh_mounts. Qed.

Lemma R_find_layers c : R _ (find_layers c) (find_layers c).
Proof. unfold find_layers. rauto. Qed.

Lemma R_get_layers c um : R _ (get_layers c um) (get_layers c um).
Proof. unfold get_layers. rauto; [apply R_find_layers | apply R_probe_all]. Qed.

Lemma R_renormalize ld : R _ (renormalize ld) (renormalize ld).
Proof. unfold renormalize. rauto. Qed.

Ltac rstep2 :=
  first [ rstep
        | lazymatch goal with
          | |- R _ (refresh_mounts _ _) (refresh_mounts _ _) => apply R_refresh_mounts
          | |- R _ (renormalize _) (renormalize _) => apply R_renormalize
          end ].
Ltac rauto2 := repeat rstep2.

Lemma R_make_symlink_in_dir s t :
  R _ (make_symlink_in_dir e1 s t) (make_symlink_in_dir e2 s t).
Proof. unfold make_symlink_in_dir. rauto2. Qed.

Lemma R_make_export_symlinks c l :
  R _ (make_export_symlinks e1 c l) (make_export_symlinks e2 c l).
Proof. unfold make_export_symlinks. rauto2; apply R_make_symlink_in_dir. Qed.

Lemma R_remove_export_links c l :
  R _ (remove_export_links e1 c l) (remove_export_links e2 c l).
Proof. unfold remove_export_links. rauto2. Qed.

Lemma R_add_layer c ld n b cf : R _ (add_layer e1 c ld n b cf) (add_layer e2 c ld n b cf).
Proof. unfold add_layer. rauto2. Qed.

Lemma R_remove_layer c ld n fl : R _ (remove_layer e1 c ld n fl) (remove_layer e2 c ld n fl).
Proof. unfold remove_layer. rauto2; apply R_remove_export_links. Qed.

Lemma R_rename_layer c ld a b : R _ (rename_layer e1 c ld a b) (rename_layer e2 c ld a b).
Proof.
  unfold rename_layer. rewrite children_in_order_eq. rauto2; apply R_remove_export_links.
Qed.

Lemma R_rebase_layer c ld a b : R _ (rebase_layer e1 c ld a b) (rebase_layer e2 c ld a b).
Proof. unfold rebase_layer. rauto2. Qed.

Lemma R_makedirs c ld a : R _ (makedirs e1 c ld a) (makedirs e2 c ld a).
Proof. unfold makedirs. rewrite H_pretend. rauto2. Qed.

Lemma R_mount_loop c xs : forall ld, R _ (mount_loop e1 c xs ld) (mount_loop e2 c xs ld).
Proof.
  induction xs as [|x r IH]; intros ld; cbn [mount_loop]; [apply R_ret|].
  rauto2; apply IH.
Qed.

Lemma R_mount_one c ld a : R _ (mount_one e1 c ld a) (mount_one e2 c ld a).
Proof.
  unfold mount_one. rauto2.
  all: apply (R_mount_loop c).
Qed.

Lemma R_mount_layer c ld a : R _ (mount_layer e1 c ld a) (mount_layer e2 c ld a).
Proof.
  unfold mount_layer. rauto2;
    first [apply R_makedirs | apply R_mount_one | apply R_make_export_symlinks].
Qed.

Lemma R_unmount_layer c ld a : R _ (unmount_layer e1 c ld a) (unmount_layer e2 c ld a).
Proof. unfold unmount_layer. rauto2. Qed.

Lemma R_unmount_loop c names : forall ld busy,
  R _ (unmount_loop e1 c names ld busy) (unmount_loop e2 c names ld busy).
Proof.
  induction names as [|n r IH]; intros ld busy; cbn [unmount_loop]; [apply R_ret|].
  apply R_bind; [apply R_unmount_layer | intros x; apply IH].
Qed.

Lemma R_unmount c ld a all : R _ (unmount e1 c ld a all) (unmount e2 c ld a all).
Proof.
  unfold unmount. rauto2.
  - apply (R_unmount_loop c).
  - apply R_unmount_layer.
Qed.

Lemma R_shake c ld : R _ (shake e1 c ld) (shake e2 c ld).
Proof. unfold shake. rauto2. Qed.

Lemma R_chroot_prepare c ld a : R _ (chroot_prepare e1 c ld a) (chroot_prepare e2 c ld a).
Proof. unfold chroot_prepare. rauto2. apply R_mount_layer. Qed.

Lemma R_init_base c : R _ (init_base e1 c) (init_base e2 c).
Proof. unfold init_base. rauto2. Qed.

Theorem R_run_command c um cmd :
  is_manual cmd = false -> R _ (run_command e1 c um cmd) (run_command e2 c um cmd).
Proof.
  intros Hm. destruct cmd; cbn [is_manual] in Hm; try discriminate Hm; cbn [run_command].
  1: { apply R_bind; [apply R_init_base | intros _; apply R_ret]. }
  all: apply R_bind; [apply R_get_fs | intros f];
       apply R_bind; [apply R_guard | intros _];
       apply R_bind; [apply R_get_layers | intros ld];
       apply R_bind; [ | intros ld'; apply R_ret].
  - apply R_add_layer.
  - apply R_remove_layer.
  - apply R_rename_layer.
  - apply R_rebase_layer.
  - apply R_makedirs.
  - apply R_mount_layer.
  - apply R_unmount.
  - apply R_shake.
  - apply R_chroot_prepare.
  - apply R_ret.
Qed.

End Generic.
