(* Proofs about Model/MountInfo.v (C12). *)
From LC Require Import Lib.Bytes Lib.Lex Lib.Fields Lib.PathM Gen.Consts Model.MountInfo.
Open Scope N_scope.

(* ---------- unescape . mangle = id ---------- *)
Lemma quad_ok c :
  isoct (octdig (bn c / 64)) && isoct (octdig ((bn c / 8) mod 8)) && isoct (octdig (bn c mod 8)) = true
  /\ nb ((octv (octdig (bn c / 64)) * 64 + octv (octdig ((bn c / 8) mod 8)) * 8
          + octv (octdig (bn c mod 8))) mod 256) = c.
Proof. destruct c as [[] [] [] [] [] [] [] []]; vm_compute; split; reflexivity. Qed.

Lemma unescape_cons_plain c r : Ascii.eqb c bsl = false -> unescape (c :: r) = c :: unescape r.
Proof. intros H. cbn [unescape]. now rewrite H. Qed.

Theorem unescape_mangle esc s : esc bsl = true -> unescape (mangle esc s) = s.
Proof.
  intros Hb. induction s as [|c s IH]; [reflexivity|].
  unfold mangle in *. cbn [flat_map]. unfold mangle1 at 1.
  destruct (esc c) eqn:E.
  - cbn [app unescape]. rewrite Ascii.eqb_refl.
    destruct (quad_ok c) as [Q1 Q2]. rewrite Q1, Q2. now rewrite IH.
  - cbn [app]. rewrite unescape_cons_plain; [now rewrite IH|].
    apply Ascii.eqb_neq. intro; subst. congruence.
Qed.

(* a mangled string contains no byte x of the escape set other than the backslash *)
Lemma mangle_notin esc x s : esc x = true -> x <> bsl ->
  (forall n, n < 8 -> x <> octdig n) -> ~ In x (mangle esc s).
Proof.
  intros Hx Hb Hd. induction s as [|c s IH]; cbn; [tauto|].
  unfold mangle in IH. intros H. apply in_app_or in H as [H|H]; [|contradiction].
  unfold mangle1 in H. destruct (esc c) eqn:E.
  - assert (D1 : bn c / 64 < 8) by (pose proof (bn_lt_256 c); apply N.div_lt_upper_bound; lia).
    assert (D2 : (bn c / 8) mod 8 < 8) by (apply N.mod_lt; lia).
    assert (D3 : bn c mod 8 < 8) by (apply N.mod_lt; lia).
    destruct H as [H|[H|[H|[H|[]]]]].
    + apply Hb. symmetry. exact H.
    + eapply Hd; [|symmetry; exact H]; assumption.
    + eapply Hd; [|symmetry; exact H]; assumption.
    + eapply Hd; [|symmetry; exact H]; assumption.
  - destruct H as [H|[]]. subst. congruence.
Qed.

Lemma octdig_bn n : n < 8 -> bn (octdig n) = 48 + n.
Proof. intros H. unfold octdig. apply bn_nb. lia. Qed.

Lemma not_octdig x : (bn x < 48 \/ 55 < bn x) -> forall n, n < 8 -> x <> octdig n.
Proof. intros H n Hn E. subst. rewrite octdig_bn in H by assumption. lia. Qed.

Lemma mangle_path_nospace s : nosep sp (mangle esc_path s).
Proof. apply mangle_notin; [reflexivity|discriminate|apply not_octdig; vm_compute; left; reflexivity]. Qed.
Lemma mangle_opt_nospace s : nosep sp (mangle esc_opt s).
Proof. apply mangle_notin; [reflexivity|discriminate|apply not_octdig; vm_compute; left; reflexivity]. Qed.
Lemma mangle_opt_nocomma s : nosep comma (mangle esc_opt s).
Proof. apply mangle_notin; [reflexivity|discriminate|apply not_octdig; vm_compute; left; reflexivity]. Qed.

Lemma mangle_plain esc s : existsb esc s = false -> mangle esc s = s.
Proof.
  induction s as [|c s IH]; cbn; [reflexivity|]. intros H. apply orb_false_iff in H as [H1 H2].
  unfold mangle1. rewrite H1. cbn. f_equal. now apply IH.
Qed.

(* ---------- one line: parse (render k) = view k ---------- *)
Lemma after_dash_app opt rest :
  forallb (fun f => nospace f && negb (beq f dash)) opt = true ->
  after_dash (opt ++ dash :: rest) = Some rest.
Proof.
  induction opt as [|f opt IH]; cbn [app after_dash forallb]; intros H.
  - now rewrite beq_refl.
  - apply andb_true_iff in H as [H1 H2]. apply andb_true_iff in H1 as [_ H1].
    apply negb_true_iff in H1. rewrite H1. now apply IH.
Qed.

Lemma split2_end sep a : nosep sep a -> forall cur, split2_acc sep cur a = (rev (rev a ++ cur), None).
Proof.
  induction a as [|c a IH]; intros Hn cur; cbn; [reflexivity|].
  assert (c <> sep) by (intro; subst; apply Hn; now left).
  destruct (Ascii.eqb c sep) eqn:E; [apply Ascii.eqb_eq in E; congruence|].
  rewrite IH by (intro; apply Hn; now right). now rewrite <- app_assoc.
Qed.

Lemma plainopt_spec k : plainopt k = true -> existsb esc_opt k = false /\ nosep eqc k.
Proof.
  unfold plainopt. rewrite negb_true_iff. intros H. split.
  - destruct (existsb esc_opt k) eqn:E; auto. apply existsb_exists in E as (x & Hx & Ex).
    assert (existsb (fun c => esc_opt c || Ascii.eqb c eqc) k = true).
    { apply existsb_exists. exists x. split; auto. now rewrite Ex. }
    congruence.
  - intros Hin. assert (existsb (fun c => esc_opt c || Ascii.eqb c eqc) k = true).
    { apply existsb_exists. exists eqc. split; [exact Hin|reflexivity]. }
    congruence.
Qed.

Lemma ovl_step_some st k v : plainopt k = true ->
  ovl_step st (render_sopt (k, Some v)) =
  let '(lo, up, wk) := st in
  if beq k (bs "lowerdir") then (v, up, wk)
  else if beq k (bs "upperdir") then (lo, v, wk)
  else if beq k (bs "workdir") then (lo, up, v) else st.
Proof.
  intros Hk. destruct (plainopt_spec k Hk) as [H1 H2]. destruct st as [[lo up] wk].
  unfold ovl_step, render_sopt. rewrite (mangle_plain _ _ H1).
  unfold split2. rewrite split2_acc_app by assumption. rewrite app_nil_r, rev_involutive.
  rewrite unescape_mangle by reflexivity. reflexivity.
Qed.
Lemma ovl_step_none st k : plainopt k = true -> ovl_step st (render_sopt (k, None)) = st.
Proof.
  intros Hk. destruct (plainopt_spec k Hk) as [H1 H2]. destruct st as [[lo up] wk].
  unfold ovl_step, render_sopt. rewrite (mangle_plain _ _ H1).
  unfold split2. rewrite split2_end by assumption. reflexivity.
Qed.

Lemma ovl_fold l : forallb (fun kv => plainopt (fst kv)) l = true -> forall lo up wk,
  fold_left ovl_step (map render_sopt l) (lo, up, wk) =
  (last_opt (bs "lowerdir") l lo, last_opt (bs "upperdir") l up, last_opt (bs "workdir") l wk).
Proof.
  induction l as [|[k [v|]] l IH]; cbn [forallb map fold_left last_opt fst]; intros H lo up wk.
  - reflexivity.
  - apply andb_true_iff in H as [Hk Hl]. rewrite ovl_step_some by assumption.
    destruct (beq k (bs "lowerdir")) eqn:E1.
    { apply beq_true in E1. subst k. rewrite IH by assumption. reflexivity. }
    destruct (beq k (bs "upperdir")) eqn:E2.
    { apply beq_true in E2. subst k. rewrite IH by assumption. reflexivity. }
    destruct (beq k (bs "workdir")) eqn:E3.
    { apply beq_true in E3. subst k. rewrite IH by assumption. reflexivity. }
    now rewrite IH.
  - apply andb_true_iff in H as [Hk Hl]. rewrite ovl_step_none by assumption. now apply IH.
Qed.

Lemma nosep_join x c l : x <> c -> Forall (nosep x) l -> nosep x (join c l).
Proof.
  intros Hxc. induction 1 as [|a l Ha Hl IH]; cbn; [intros []|].
  destruct l as [|b l']; [exact Ha|].
  intros Hin. apply in_app_or in Hin as [Hin|[Hin|Hin]]; [now apply Ha|congruence|now apply IH].
Qed.

Lemma render_sopt_nocomma kv : plainopt (fst kv) = true -> nosep comma (render_sopt kv).
Proof.
  destruct kv as [k [v|]]; cbn [fst render_sopt]; intros Hk.
  - intros Hin. apply in_app_or in Hin as [Hin|[Hin|Hin]].
    + now apply mangle_opt_nocomma in Hin.
    + discriminate.
    + now apply mangle_opt_nocomma in Hin.
  - apply mangle_opt_nocomma.
Qed.
Lemma render_sopt_nospace kv : nosep sp (render_sopt kv).
Proof.
  destruct kv as [k [v|]]; cbn [render_sopt].
  - intros Hin. apply in_app_or in Hin as [Hin|[Hin|Hin]].
    + now apply mangle_opt_nospace in Hin.
    + discriminate.
    + now apply mangle_opt_nospace in Hin.
  - apply mangle_opt_nospace.
Qed.

Lemma nospace_spec s : nospace s = true -> nosep sp s.
Proof. apply nosepb_spec. Qed.

Theorem parse_render_line k : wf_kline k = true -> parse_line (render_line k) = LOk (view_line k).
Proof.
  unfold wf_kline. rewrite !andb_true_iff.
  intros [[[[[[[Hid Hpar] Hdev] Hopts] Hopt] Hfs] Hso] Hne].
  apply nospace_spec in Hid, Hpar, Hdev, Hopts, Hfs.
  set (sopts_s := join comma (map render_sopt (k_sopts k))).
  assert (Hs_sp : nosep sp sopts_s).
  { apply nosep_join; [discriminate|]. apply Forall_forall. intros x Hx. apply in_map_iff in Hx as (kv & <- & _).
    apply render_sopt_nospace. }
  unfold parse_line, render_line. fold sopts_s.
  rewrite split_join.
  2:{ discriminate. }
  2:{ repeat (apply Forall_cons; [first [assumption|apply mangle_path_nospace]|]).
      apply Forall_app. split.
      - apply Forall_forall. intros f Hf. rewrite forallb_forall in Hopt. specialize (Hopt f Hf).
        apply andb_true_iff in Hopt as [Hopt _]. now apply nospace_spec.
      - apply Forall_cons. { intros [H|[]]. discriminate. }
        apply Forall_cons; [assumption|]. apply Forall_cons; [apply mangle_path_nospace|].
        apply Forall_cons; [assumption|constructor]. }
  assert (Hlen : (length ([k_id k; k_parent k; k_dev k; mangle esc_path (k_root k);
                  mangle esc_path (k_mp k); k_opts k] ++ k_optional k ++
                  [dash; k_fstype k; mangle esc_path (k_source k); sopts_s]) <? 10)%nat = false).
  { apply Nat.ltb_ge. rewrite !app_length. cbn. lia. }
  rewrite Hlen. cbn [app]. rewrite after_dash_app by assumption.
  rewrite !unescape_mangle by reflexivity.
  unfold view_line. destruct (beq (k_fstype k) overlay) eqn:Eov.
  - unfold ovl_parse, sopts_s. rewrite split_join.
    + rewrite ovl_fold by assumption. reflexivity.
    + destruct (k_sopts k); [cbn in Hne; discriminate|discriminate].
    + apply Forall_forall. intros x Hx. apply in_map_iff in Hx as (kv & <- & Hkv).
      apply render_sopt_nocomma. rewrite forallb_forall in Hso. now apply Hso.
  - reflexivity.
Qed.

(* ---------- the whole table ---------- *)
Lemma probe_lines_render T : wf_table T = true -> forall st,
  probe_lines st (render T) =
  let st' := fold_left pstep (map view_line T) st in POk (rev (p_mounts st')) (p_devs st').
Proof.
  induction T as [|k T IH]; cbn [wf_table forallb render map probe_lines fold_left]; intros H st.
  - reflexivity.
  - apply andb_true_iff in H as [Hk HT]. rewrite parse_render_line by assumption.
    apply IH. exact HT.
Qed.

Theorem probe_render T : wf_table T = true -> probe (render T) = view T.
Proof. intros H. unfold probe, view. now rewrite probe_lines_render. Qed.
