(* The installed AtomSet does not depend on the enumeration order: a set built by AtomSet.Add is
   sorted by name with slices in strictly descending key order, and such a representation of a
   given set of packages is unique. *)
From LC Require Import Lib.Bytes Lib.Lex Lib.Fields Model.Resolve Cases.C05
  Proofs.ResolveBasics Proofs.AtomSetP Proofs.ResolveInv Proofs.StageP.
From Coq Require Import Sorting.Sorted.
Import C05.

Lemma sorted_ext {A} (R : A -> A -> Prop) :
  (forall x, ~ R x x) -> (forall x y z, R x y -> R y z -> R x z) ->
  forall l1 l2, StronglySorted R l1 -> StronglySorted R l2 -> (forall x, In x l1 <-> In x l2) -> l1 = l2.
Proof.
  intros Hirr Htr. induction l1 as [|a l1 IH]; intros [|b l2] S1 S2 H.
  - reflexivity.
  - exfalso. apply (H b). now left.
  - exfalso. apply (H a). now left.
  - inversion S1 as [|? ? S1' F1]; inversion S2 as [|? ? S2' F2]; subst.
    rewrite Forall_forall in F1, F2.
    assert (E : a = b).
    { destruct (proj1 (H a) (or_introl eq_refl)) as [E|Ha]; auto.
      destruct (proj2 (H b) (or_introl eq_refl)) as [E|Hb]; auto.
      exfalso. apply (Hirr a). eapply Htr; [apply F1; exact Hb|apply F2; exact Ha]. }
    subst b. f_equal. apply IH; auto. intros x. split; intros Hx.
    + destruct (proj1 (H x) (or_intror Hx)) as [E|Hx']; auto. subst x. exfalso. apply (Hirr a). auto.
    + destruct (proj2 (H x) (or_intror Hx)) as [E|Hx']; auto. subst x. exfalso. apply (Hirr a). auto.
Qed.

Section Order.
Variable vdb : list pkg.
Hypothesis keys_nodup : forall i j p q, pkg_at vdb i = Some p -> pkg_at vdb j = Some q ->
  p_pn p = p_pn q -> p_slot p = p_slot q -> i = j.

Lemma key_desc_irr x : ~ key_desc x x.
Proof. unfold key_desc. now rewrite ltb_irrefl. Qed.
Lemma key_desc_trans x y z : key_desc x y -> key_desc y z -> key_desc x z.
Proof. unfold key_desc. intros H1 H2. eapply ltb_trans; eauto. Qed.
Lemma name_asc_irr x : ~ name_asc x x.
Proof. unfold name_asc. now rewrite ltb_irrefl. Qed.
Lemma name_asc_trans x y z : name_asc x y -> name_asc y z -> name_asc x z.
Proof. unfold name_asc. intros H1 H2. eapply ltb_trans; eauto. Qed.

(* two representations of the same set of packages coincide *)
Lemma aset_unique s1 s2 :
  aset_ok vdb s1 -> aset_nonempty s1 -> aset_ok vdb s2 -> aset_nonempty s2 ->
  (forall i, aset_mem s1 i <-> aset_mem s2 i) -> s1 = s2.
Proof.
  assert (Half : forall s1 s2, aset_ok vdb s1 -> aset_nonempty s1 -> aset_ok vdb s2 ->
            (forall i, aset_mem s1 i -> aset_mem s2 i) ->
            forall nm sl k i, In (nm, sl) s1 -> In (k, i) sl -> In (k, i) (get_by_name s2 nm) /\ In (nm, get_by_name s2 nm) s2).
  { intros t1 t2 [S1 O1] N1 [S2 O2] Hm nm sl k i Hin Hi.
    destruct (O1 nm sl Hin) as [_ SO]. destruct (SO k i Hi) as (p & Hp & Hn & Hk).
    assert (M : aset_mem t2 i) by (apply Hm; now exists nm, sl, k).
    destruct M as (nm' & sl' & k' & Hin' & Hi'). destruct (O2 nm' sl' Hin') as [_ SO'].
    destruct (SO' k' i Hi') as (q & Hq & Hn' & Hk'). rewrite Hp in Hq. injection Hq as <-.
    subst nm' k' nm k. rewrite (get_in t2 (p_pn p) sl' S2 Hin'). auto. }
  intros K1 N1 K2 N2 Hm.
  assert (Hsl : forall s1 s2, aset_ok vdb s1 -> aset_nonempty s1 -> aset_ok vdb s2 -> aset_nonempty s2 ->
            (forall i, aset_mem s1 i <-> aset_mem s2 i) ->
            forall nm sl, In (nm, sl) s1 -> In (nm, sl) s2).
  { intros t1 t2 A1 B1 A2 B2 Hmm nm sl Hin.
    pose proof (B1 nm sl Hin) as Hne. destruct sl as [|[k i] r] eqn:Esl; [congruence|]. rewrite <- Esl in *.
    assert (Hi : In (k, i) sl) by (rewrite Esl; now left).
    destruct (Half t1 t2 A1 B1 A2 (fun j => proj1 (Hmm j)) nm sl k i Hin Hi) as [H1 H2].
    assert (E : sl = get_by_name t2 nm); [|now rewrite E].
    apply (sorted_ext key_desc key_desc_irr key_desc_trans).
    - destruct A1 as [_ O1]. apply (O1 nm sl Hin).
    - destruct A2 as [_ O2]. apply (O2 nm _ H2).
    - intros [k' i']. split; intros Hx.
      + apply (Half t1 t2 A1 B1 A2 (fun j => proj1 (Hmm j)) nm sl k' i' Hin Hx).
      + destruct (Half t2 t1 A2 B2 A1 (fun j => proj2 (Hmm j)) nm (get_by_name t2 nm) k' i' H2 Hx) as [H3 H4].
        destruct A1 as [S1 _]. now rewrite (get_in t1 nm sl S1 Hin) in H3. }
  apply (sorted_ext name_asc name_asc_irr name_asc_trans); [apply K1|apply K2|].
  intros [nm sl]. split; intros Hx.
  - apply (Hsl s1 s2 K1 N1 K2 N2 Hm nm sl Hx).
  - apply (Hsl s2 s1 K2 N2 K1 N1 (fun i => iff_sym (Hm i)) nm sl Hx).
Qed.

Theorem installed_order_independent enum1 enum2 :
  is_perm_ids (length vdb) enum1 = true -> is_perm_ids (length vdb) enum2 = true ->
  installed vdb enum1 = installed vdb enum2.
Proof.
  intros H1 H2. destruct (installed_ok vdb keys_nodup enum1 H1) as (A1 & B1 & C1).
  destruct (installed_ok vdb keys_nodup enum2 H2) as (A2 & B2 & C2).
  apply aset_unique; auto. intros i. now rewrite C1, C2.
Qed.

Theorem stage_order_independent enum1 enum2 bdeps us :
  is_perm_ids (length vdb) enum1 = true -> is_perm_ids (length vdb) enum2 = true ->
  stage_set vdb enum1 bdeps us = stage_set vdb enum2 bdeps us.
Proof. intros H1 H2. unfold stage_set. now rewrite (installed_order_independent enum1 enum2 H1 H2). Qed.
End Order.
