(* Proofs about Model/OutFile.v: the file named by -o after a run is exactly what the run
   wrote, whatever the path held before -- and that this is what O_TRUNC buys. *)
From LC Require Import Lib.Bytes Model.OutFile.
From Coq Require Import List NArith Arith Lia.
Import ListNotations.

Lemma skipn_add {A} (b a : nat) : forall l : list A, skipn a (skipn b l) = skipn (b + a) l.
Proof.
  induction b as [|b IH]; intros l; [reflexivity|].
  destruct l as [|x l]; cbn [skipn Nat.add]; [now destruct a|apply IH].
Qed.

(* invariant of sequential writing from offset 0 into a file that held [f0] at open time:
   after the bytes [w] the file is [w] followed by what [f0] had beyond them *)
Lemma pwrite_append w f0 c :
  pwrite (w ++ skipn (length w) f0) (length w) c = (w ++ c) ++ skipn (length (w ++ c)) f0.
Proof.
  unfold pwrite.
  rewrite firstn_app, firstn_all, Nat.sub_diag. cbn [firstn]. rewrite app_nil_r.
  replace (length w - length (w ++ skipn (length w) f0))%nat with 0%nat
    by (rewrite app_length; lia).
  cbn [repeat app].
  rewrite skipn_app.
  rewrite (skipn_all2 w) by lia. cbn [app].
  replace (length w + length c - length w)%nat with (length c) by lia.
  rewrite skipn_add. rewrite app_length.
  now rewrite <- app_assoc.
Qed.

Lemma write_seq_from chunks : forall w f0,
  write_seq (w ++ skipn (length w) f0) (length w) chunks
  = (w ++ concat chunks) ++ skipn (length (w ++ concat chunks)) f0.
Proof.
  induction chunks as [|c r IH]; intros w f0; cbn [write_seq concat].
  - now rewrite app_nil_r.
  - rewrite pwrite_append. rewrite <- (app_length w c). rewrite IH.
    now rewrite <- !app_assoc.
Qed.

(* every way of opening: the written bytes, then whatever the opened file had beyond them *)
Lemma write_out_spec fl p chunks :
  write_out fl p chunks = concat chunks ++ skipn (length (concat chunks)) (open_out fl p).
Proof.
  unfold write_out. exact (write_seq_from chunks [] (open_out fl p)).
Qed.

(* os.Create: the file is exactly what was written *)
Lemma out_file_exact p chunks : out_file p chunks = concat chunks.
Proof.
  unfold out_file. rewrite write_out_spec. cbn [open_out].
  rewrite skipn_nil. apply app_nil_r.
Qed.

Lemma out_file_independent p p' chunks : out_file p chunks = out_file p' chunks.
Proof. now rewrite !out_file_exact. Qed.

(* how the output is cut into write(2) calls does not matter either *)
Lemma out_file_chunking p p' chunks chunks' :
  concat chunks = concat chunks' -> out_file p chunks = out_file p' chunks'.
Proof. intros H. now rewrite !out_file_exact. Qed.

(* without O_TRUNC an existing file keeps its tail beyond the new output ... *)
Lemma keep_stale_tail old chunks :
  write_out OCreateKeep (Some old) chunks = concat chunks ++ skipn (length (concat chunks)) old.
Proof. now rewrite write_out_spec. Qed.

(* ... so the result is the new output iff the old file was not longer *)
Lemma keep_exact_iff old chunks :
  write_out OCreateKeep (Some old) chunks = concat chunks
  <-> (length old <= length (concat chunks))%nat.
Proof.
  rewrite keep_stale_tail. split.
  - intros H. apply (f_equal (@length _)) in H. rewrite app_length, skipn_length in H. lia.
  - intros H. rewrite skipn_all2 by exact H. apply app_nil_r.
Qed.

Example keep_stale_example :
  write_out OCreateKeep (Some (bs "OLD-STAGE-WAS-LONGER")) [bs "new"; bs "-stage"]
  = bs "new-stage-WAS-LONGER"
  /\ out_file (Some (bs "OLD-STAGE-WAS-LONGER")) [bs "new"; bs "-stage"] = bs "new-stage".
Proof. split; reflexivity. Qed.

(* the length abstraction carried by the cases *)
Definition plen (p : prior) : option N := option_map (fun b => N.of_nat (length b)) p.

Lemma write_len_spec fl p chunks :
  N.of_nat (length (write_out fl p chunks))
  = write_len fl (plen p) (N.of_nat (length (concat chunks))).
Proof.
  rewrite write_out_spec, app_length, skipn_length. unfold write_len.
  assert (E : open_len fl (plen p) = N.of_nat (length (open_out fl p))).
  { destruct fl, p; reflexivity. }
  rewrite E. lia.
Qed.

Lemma out_len_spec p chunks :
  N.of_nat (length (out_file p chunks)) = out_len (plen p) (N.of_nat (length (concat chunks))).
Proof. exact (write_len_spec OCreateTrunc p chunks). Qed.

Lemma out_len_exact p n : out_len p n = n.
Proof. unfold out_len, write_len. destruct p; cbn [open_len]; lia. Qed.
