(* path.Base of a path whose last element is a plain name; shape of Clean / Join results
   whose last element is a plain name; legal layer names are plain, dot-free tokens. *)
From Coq Require Import ZifyBool ZifyNat ZifyN.
From LC Require Import Lib.Bytes Lib.Lex Lib.Fields Lib.PathM Gen.Consts Model.MountInfo Model.FsTree Model.Kernel Model.Layers Proofs.PathP Proofs.LegalNameP.
Close Scope string_scope. Open Scope list_scope.

(* a path that does not end in a slash (and is not empty) *)
Definition ends_ok (q : bytes) : bool := match rev q with c :: _ => negb (Ascii.eqb c sl) | [] => false end.
(* "pre" is empty or ends with a slash: what may precede the last path element *)
Definition dirpre (pre : bytes) : Prop := pre = [] \/ exists pre', pre = pre' ++ [sl].

(* ---- last_slash_split *)
Lemma lss_noslash n : noslash n -> forall cur acc found,
  last_slash_split n cur acc found = (found, acc, rev cur ++ n).
Proof.
  induction n as [|c n IH]; intros Hn cur acc found; cbn [last_slash_split].
  - now rewrite app_nil_r.
  - assert (Hc : c <> sl) by (intros ->; apply Hn; now left).
    destruct (Ascii.eqb c sl) eqn:E; [apply Ascii.eqb_eq in E; congruence|].
    rewrite IH by (intros Hin; apply Hn; now right). cbn [rev]. now rewrite <- app_assoc.
Qed.
Lemma lss_snd_indep s : forall cur acc found acc' found',
  snd (last_slash_split s cur acc found) = snd (last_slash_split s cur acc' found').
Proof.
  induction s as [|c s IH]; intros cur acc found acc' found'; cbn [last_slash_split].
  - reflexivity.
  - destruct (Ascii.eqb c sl); apply IH.
Qed.
Lemma lss_app_sl r a : forall cur acc found,
  snd (last_slash_split (a ++ sl :: r) cur acc found) = snd (last_slash_split r [] [] false).
Proof.
  induction a as [|c a IH]; intros cur acc found; cbn [app last_slash_split].
  - rewrite Ascii.eqb_refl. apply lss_snd_indep.
  - destruct (Ascii.eqb c sl); apply IH.
Qed.
Lemma pathsplit_snd p : snd (pathsplit p) = snd (last_slash_split p [] [] false).
Proof. unfold pathsplit. destruct (last_slash_split p [] [] false) as [[fd d] f]. reflexivity. Qed.

Lemma pathbase_ok p : ends_ok p = true -> pathbase p = snd (last_slash_split p [] [] false).
Proof.
  unfold ends_ok. intros H. destruct (rev p) as [|c r] eqn:E; [discriminate|].
  assert (Hp : p <> []) by (intros ->; discriminate).
  assert (HS : strip_trailing_slashes_rev (rev p) = rev p).
  { rewrite E. cbn [strip_trailing_slashes_rev]. apply negb_true_iff in H. now rewrite H. }
  rewrite <- pathsplit_snd.
  destruct p as [|a p']; [congruence|]. unfold pathbase. rewrite HS, rev_involutive. reflexivity.
Qed.

Lemma ends_ok_comp pre n : n <> [] -> noslash n -> ends_ok (pre ++ n) = true.
Proof.
  intros Hn Hs. destruct (exists_last Hn) as (n' & c & ->).
  unfold ends_ok. rewrite app_assoc, rev_app_distr. cbn [rev app].
  apply negb_true_iff. destruct (Ascii.eqb c sl) eqn:E; [|reflexivity].
  apply Ascii.eqb_eq in E. subst c. exfalso. apply Hs. apply in_or_app. right. now left.
Qed.

Lemma pathbase_comp pre n : n <> [] -> noslash n -> dirpre pre -> pathbase (pre ++ n) = n.
Proof.
  intros Hn Hs Hd. rewrite pathbase_ok by now apply ends_ok_comp.
  assert (E0 : snd (last_slash_split n [] [] false) = n) by now rewrite lss_noslash.
  destruct Hd as [->|(pre' & ->)].
  - exact E0.
  - rewrite <- app_assoc. cbn [app]. now rewrite lss_app_sl.
Qed.

Lemma ends_ok_under b r : ends_ok r = true -> ends_ok (b ++ sl :: r) = true.
Proof.
  unfold ends_ok. intros H. change (b ++ sl :: r) with (b ++ [sl] ++ r).
  rewrite app_assoc, rev_app_distr. destruct (rev r) as [|c t]; [discriminate|]. exact H.
Qed.
Lemma pathbase_under b b' r : ends_ok r = true -> pathbase (b ++ sl :: r) = pathbase (b' ++ sl :: r).
Proof.
  intros H. rewrite !pathbase_ok by now apply ends_ok_under. now rewrite !lss_app_sl.
Qed.

(* ---- Clean of a path whose last component is plain *)
Lemma dirpre_app a b : dirpre b -> dirpre (a ++ sl :: b).
Proof.
  intros [->|(q & ->)]; right.
  - now exists a.
  - exists (a ++ sl :: q). now rewrite <- app_assoc.
Qed.
Lemma pjoin_snoc n xs : exists pre, pjoin (xs ++ [n]) = pre ++ n /\ dirpre pre.
Proof.
  induction xs as [|x xs IH].
  - exists []. split; [reflexivity|now left].
  - destruct IH as (pre & E & Hd). exists (x ++ sl :: pre). split.
    + cbn [app]. destruct (xs ++ [n]) as [|y ys] eqn:Exs; [destruct xs; discriminate|].
      change (pjoin (x :: y :: ys)) with (x ++ sl :: pjoin (y :: ys)). rewrite E.
      rewrite <- app_assoc. reflexivity.
    + now apply dirpre_app.
Qed.
Lemma clean_psplit_last p xs n : psplit p = xs ++ [n] -> p <> [] -> plain n ->
  exists pre, clean p = pre ++ n /\ dirpre pre.
Proof.
  intros E Hp Hn. rewrite clean_unfold by assumption. unfold cstack. rewrite E, fold_left_app.
  cbn [fold_left]. rewrite stepc_plain by assumption. cbn [rev].
  destruct (pjoin_snoc n (rev (fold_left (stepc (is_rooted p)) xs []))) as (pre & Ej & Hd).
  unfold assemble. rewrite Ej. destruct (is_rooted p).
  - exists (sl :: pre). split; [reflexivity|]. now apply (dirpre_app []).
  - exists pre. split; [|assumption]. destruct (pre ++ n) as [|c t] eqn:Epn; [|reflexivity].
    apply app_eq_nil in Epn as [_ ->]. now destruct Hn as (Hn & _).
Qed.
Lemma psplit_plain n : noslash n -> psplit n = [n].
Proof. intros Hn. unfold psplit, split. rewrite split_acc_end by assumption. now rewrite app_nil_r, rev_involutive. Qed.

Lemma clean_last d n : plain n -> exists pre, clean (d ++ sl :: n) = pre ++ n /\ dirpre pre.
Proof.
  intros Hn. apply (clean_psplit_last _ (psplit d)); [|destruct d; discriminate|assumption].
  unfold psplit. rewrite split_app_sep. f_equal. apply psplit_plain. now destruct Hn as (_ & _ & _ & Hs).
Qed.
Lemma clean_plain n : plain n -> exists pre, clean n = pre ++ n /\ dirpre pre.
Proof.
  intros Hn. apply (clean_psplit_last _ []); [|now destruct Hn|assumption].
  apply psplit_plain. now destruct Hn as (_ & _ & _ & Hs).
Qed.

Lemma pathjoin2_shape d n : plain n -> exists pre, pathjoin [d; n] = pre ++ n /\ dirpre pre.
Proof.
  intros Hn. assert (En : beq n [] = false) by (apply beq_false; now destruct Hn).
  unfold pathjoin. cbn [filter]. rewrite En. cbn [negb].
  destruct (beq d []); cbn [negb pjoin join].
  - now apply clean_plain.
  - now apply clean_last.
Qed.
Lemma pathjoin3_shape a b n : plain n -> exists pre, pathjoin [a; b; n] = pre ++ n /\ dirpre pre.
Proof.
  intros Hn. assert (En : beq n [] = false) by (apply beq_false; now destruct Hn).
  unfold pathjoin. cbn [filter]. rewrite En. cbn [negb].
  destruct (beq a []); destruct (beq b []); cbn [negb pjoin join].
  - now apply clean_plain.
  - now apply clean_last.
  - now apply clean_last.
  - replace (a ++ sl :: b ++ sl :: n) with ((a ++ sl :: b) ++ sl :: n) by now rewrite <- app_assoc.
    now apply clean_last.
Qed.

(* ---- legal layer names *)
Definition okch (c : ascii) : Prop := bn c <> 47%N /\ bn c <> 46%N /\ is_sp c = false.
Lemma char_ok c : name_byte c = true -> okch c.
Proof. intros H. destruct (name_byte_facts c H) as (H47 & H46 & _ & Hsp). repeat split; assumption. Qed.
Lemma legal_rest_ok n : legal_rest n = true -> Forall okch n.
Proof.
  intros H. apply legal_rest_bytes in H. eapply Forall_impl; [|exact H]. intros c Hc. now apply char_ok.
Qed.
Lemma legal_name_ok n : legal_name n = true -> Forall okch n.
Proof. intros H. apply legal_rest_ok, legal_name_rest, H. Qed.
Lemma bn_sl : bn sl = 47%N.
Proof. reflexivity. Qed.
Lemma bn_46 : bn (nb 46) = 46%N.
Proof. reflexivity. Qed.

Lemma legal_nodot n : legal_name n = true -> ~ In (nb 46) n.
Proof.
  intros H Hin. apply legal_name_ok in H. rewrite Forall_forall in H.
  destruct (H _ Hin) as (_ & H46 & _). apply H46. exact bn_46.
Qed.
Lemma legal_plain n : legal_name n = true -> n <> [] -> plain n.
Proof.
  intros H Hn. pose proof (legal_nodot n H) as Hd. repeat split.
  - exact Hn.
  - intros ->. apply Hd. now left.
  - intros ->. apply Hd. now left.
  - intros Hin. apply legal_name_ok in H. rewrite Forall_forall in H.
    destruct (H _ Hin) as (H47 & _ & _). apply H47. exact bn_sl.
Qed.
Lemma legal_tok n : legal_name n = true -> n <> [] -> tok_ok n.
Proof.
  intros H Hn. split; [exact Hn|]. apply legal_name_ok in H. rewrite Forall_forall in H.
  apply forallb_forall. intros c Hc. destruct (H _ Hc) as (_ & _ & Hsp). now rewrite Hsp.
Qed.

Print Assumptions pathbase_comp.
Print Assumptions pathbase_under.
Print Assumptions clean_last.
Print Assumptions pathjoin2_shape.
Print Assumptions pathjoin3_shape.
Print Assumptions ends_ok_comp.
Print Assumptions legal_plain.
Print Assumptions legal_tok.
Print Assumptions legal_nodot.
