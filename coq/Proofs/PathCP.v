(* Clean absolute paths as lists of plain components: [pa cs] = "/" ++ c1 ++ "/" ++ ... ++ cn.
   under / at_or_under / rel_suffix / pathdir / pathbase / pathjoin / prefixes on such paths
   are prefix, last, append on the component lists. *)
From LC Require Import Lib.Bytes Lib.Lex Lib.Fields Lib.PathM Model.Config Model.FsTree Proofs.PathP.
Local Open Scope nat_scope.

(* "/c1/c2/.../cn" ; rel [] = "" *)
Fixpoint rel (cs : list bytes) : bytes :=
  match cs with [] => [] | c :: r => sl :: c ++ rel r end.
Definition pa (cs : list bytes) : bytes := match cs with [] => [sl] | _ => rel cs end.

Lemma rel_app cs ds : rel (cs ++ ds) = rel cs ++ rel ds.
Proof. induction cs as [|c r IH]; cbn; [reflexivity|]. now rewrite IH, <- app_assoc. Qed.
Lemma rel_pjoin cs : cs <> [] -> rel cs = sl :: pjoin cs.
Proof.
  induction cs as [|c r IH]; [congruence|]. intros _. destruct r as [|d r'].
  - cbn. now rewrite app_nil_r.
  - change (rel (c :: d :: r')) with (sl :: c ++ rel (d :: r')). rewrite IH by discriminate. reflexivity.
Qed.
Lemma pa_pjoin cs : pa cs = sl :: pjoin cs.
Proof. destruct cs as [|c r]; [reflexivity|]. unfold pa. apply rel_pjoin. discriminate. Qed.
Lemma pa_cons c r : pa (c :: r) = rel (c :: r).
Proof. reflexivity. Qed.
Lemma pa_snoc cs x : pa (cs ++ [x]) = rel cs ++ sl :: x.
Proof.
  unfold pa. destruct (cs ++ [x]) eqn:E; [destruct cs; discriminate|]. rewrite <- E, rel_app. cbn.
  now rewrite app_nil_r.
Qed.
Lemma pa_app_ne cs ds : ds <> [] -> pa (cs ++ ds) = rel cs ++ rel ds.
Proof.
  intros H. unfold pa. destruct (cs ++ ds) eqn:E; [destruct cs, ds; try discriminate; congruence|].
  rewrite <- E. apply rel_app.
Qed.
Lemma pa_rel cs : cs <> [] -> pa cs = rel cs.
Proof. destruct cs; [congruence|reflexivity]. Qed.
Lemma pa_nonempty cs : pa cs <> [].
Proof. destruct cs; discriminate. Qed.
Lemma pa_is_abs cs : is_abs (pa cs) = true.
Proof. destruct cs; reflexivity. Qed.

Definition plains (cs : list bytes) : Prop := Forall plain cs.
Lemma plain_noslash c : plain c -> noslash c.
Proof. intros (_ & _ & _ & H). exact H. Qed.
Lemma plains_noslash cs : plains cs -> Forall noslash cs.
Proof. intros H. eapply Forall_impl; [|exact H]. intros a. apply plain_noslash. Qed.
Lemma plains_app cs ds : plains (cs ++ ds) <-> plains cs /\ plains ds.
Proof. apply Forall_app. Qed.

(* ------------------------------------------------------------------ unique reading *)
Lemma noslash_split_eq a b x y : noslash a -> noslash b ->
  (x = [] \/ exists x', x = sl :: x') -> (y = [] \/ exists y', y = sl :: y') ->
  a ++ x = b ++ y -> a = b /\ x = y.
Proof.
  revert b. induction a as [|c a IH]; intros b Ha Hb Hx Hy E.
  - destruct b as [|d b]; [now split|]. cbn in E. destruct Hx as [->|(x' & ->)]; [discriminate|].
    injection E as <- _. exfalso. apply Hb. now left.
  - destruct b as [|d b].
    + cbn in E. destruct Hy as [->|(y' & ->)]; [discriminate|]. injection E as -> _. exfalso. apply Ha. now left.
    + cbn in E. injection E as -> E. destruct (IH b) as [-> ->]; auto.
      * intros H. apply Ha. now right.
      * intros H. apply Hb. now right.
Qed.
Lemma rel_shape r : rel r = [] \/ exists t, rel r = sl :: t.
Proof. destruct r; [now left|right; cbn; eauto]. Qed.

Lemma rel_inj_prefix : forall ds qs t, Forall noslash ds -> Forall noslash qs ->
  (t = [] \/ exists t', t = sl :: t') ->
  rel qs = rel ds ++ t -> exists r, qs = ds ++ r /\ t = rel r.
Proof.
  induction ds as [|d ds IH]; intros qs t Hd Hq Ht E.
  - cbn in E. exists qs. split; [reflexivity|now symmetry].
  - inversion Hd as [|? ? Hd1 Hd2]; subst. destruct qs as [|q qs].
    + cbn in E. discriminate.
    + inversion Hq as [|? ? Hq1 Hq2]; subst. cbn in E. injection E as E. rewrite <- app_assoc in E.
      destruct (noslash_split_eq q d (rel qs) (rel ds ++ t) Hq1 Hd1) as [-> E2]; auto.
      * apply rel_shape.
      * destruct (rel_shape ds) as [->|(u & ->)]; [exact Ht|right; cbn; eauto].
      * destruct (IH qs t Hd2 Hq2 Ht E2) as (r & -> & ->). exists r. split; reflexivity.
Qed.
Lemma rel_inj cs ds : Forall noslash cs -> Forall noslash ds -> rel cs = rel ds -> cs = ds.
Proof.
  intros Hc Hd E. destruct (rel_inj_prefix ds cs [] Hd Hc) as (r & -> & Er); [now left|now rewrite app_nil_r|].
  destruct r; [now rewrite app_nil_r|discriminate].
Qed.
Lemma pa_inj cs ds : plains cs -> plains ds -> pa cs = pa ds -> cs = ds.
Proof.
  intros Hc Hd E. destruct cs as [|c cs], ds as [|d ds]; try reflexivity.
  - cbn in E. injection E as E. inversion Hd as [|? ? (H1 & _) _]; subst. destruct d; [congruence|discriminate].
  - cbn in E. injection E as E. inversion Hc as [|? ? (H1 & _) _]; subst. destruct c; [congruence|discriminate].
  - apply rel_inj; auto using plains_noslash.
Qed.

(* ------------------------------------------------------------------ under / at_or_under *)
Lemma pa_root_iff cs : plains cs -> (pa cs = root <-> cs = []).
Proof.
  intros H. split; [|intros ->; reflexivity]. intros E. apply (pa_inj cs []); auto. constructor.
Qed.
Lemma beq_pa cs ds : plains cs -> plains ds -> beq (pa cs) (pa ds) = true <-> cs = ds.
Proof. intros Hc Hd. rewrite beq_true. split; [now apply pa_inj|now intros ->]. Qed.

Lemma under_pa ds qs : plains ds -> plains qs ->
  (under (pa ds) (pa qs) = true <-> exists r, r <> [] /\ qs = ds ++ r).
Proof.
  intros Hd Hq. unfold under. destruct (beq (pa ds) root) eqn:Er.
  - apply beq_true, (pa_root_iff _ Hd) in Er. subst ds. rewrite pa_is_abs. cbn [andb app].
    rewrite negb_true_iff, beq_false. rewrite (pa_root_iff _ Hq). split.
    + intros H. exists qs. split; [exact H|reflexivity].
    + intros (r & H & ->). exact H.
  - apply beq_false in Er. rewrite (pa_root_iff _ Hd) in Er. rewrite (pa_rel ds Er). rewrite prefixb_spec. split.
    + intros (t & E). destruct qs as [|q qs'].
      { cbn in E. destruct ds as [|d ds']; [congruence|]. cbn in E. injection E as E.
        inversion Hd as [|? ? (H1 & _) _]; subst. destruct d; [congruence|discriminate]. }
      rewrite pa_cons in E. rewrite <- app_assoc in E. cbn [app] in E.
      destruct (rel_inj_prefix ds (q :: qs') (sl :: t)) as (r & E1 & E2); auto using plains_noslash.
      { right. eauto. }
      exists r. split; [|exact E1]. intros ->. discriminate.
    + intros (r & Hr & ->). rewrite (pa_app_ne ds r Hr). destruct r as [|c r']; [congruence|].
      cbn [rel]. exists (c ++ rel r'). now rewrite <- app_assoc.
Qed.
Lemma at_or_under_pa ds qs : plains ds -> plains qs ->
  (at_or_under (pa ds) (pa qs) = true <-> exists r, qs = ds ++ r).
Proof.
  intros Hd Hq. unfold at_or_under. rewrite orb_true_iff, (beq_pa qs ds Hq Hd), (under_pa ds qs Hd Hq). split.
  - intros [->|(r & _ & ->)]; [exists []; now rewrite app_nil_r|eauto].
  - intros (r & ->). destruct r as [|c r']; [left; now rewrite app_nil_r|right; exists (c :: r'); split; [discriminate|reflexivity]].
Qed.

Lemma rel_suffix_pa ds r : plains ds -> plains r -> rel_suffix (pa ds) (pa (ds ++ r)) = rel r.
Proof.
  intros Hd Hr. unfold rel_suffix. destruct (beq (pa ds) root) eqn:Er.
  - apply beq_true, (pa_root_iff _ Hd) in Er. subst ds. cbn [app].
    destruct (beq (pa r) root) eqn:E2.
    + apply beq_true, (pa_root_iff _ Hr) in E2. now subst r.
    + apply beq_false in E2. rewrite (pa_root_iff _ Hr) in E2. now apply pa_rel.
  - apply beq_false in Er. rewrite (pa_root_iff _ Hd) in Er. destruct r as [|c r'].
    + rewrite app_nil_r. cbn. now rewrite skipn_all.
    + rewrite pa_app_ne by discriminate. rewrite (pa_rel ds Er).
      rewrite skipn_app, skipn_all, Nat.sub_diag. reflexivity.
Qed.
Lemma pa_move bs r : r <> [] \/ bs <> [] -> pa bs ++ rel r = pa (bs ++ r) \/ (bs = [] /\ r <> []).
Proof.
  intros _. destruct bs as [|b bs']; [destruct r; [left; reflexivity|right; split; [reflexivity|discriminate]]|].
  left. destruct r as [|c r']; [cbn [rel]; now rewrite !app_nil_r|].
  rewrite pa_app_ne by discriminate. reflexivity.
Qed.

(* ------------------------------------------------------------------ psplit / clean *)
Lemma join_split_acc sep s : forall cur, join sep (split_acc sep cur s) = rev cur ++ s.
Proof.
  induction s as [|c r IH]; intros cur; cbn [split_acc].
  - cbn. now rewrite app_nil_r.
  - destruct (Ascii.eqb c sep) eqn:E.
    + apply Ascii.eqb_eq in E. subst c.
      assert (N : split_acc sep [] r <> []) by apply split_acc_nonempty.
      destruct (split_acc sep [] r) as [|x xs] eqn:E2; [congruence|].
      change (join sep (rev cur :: x :: xs)) with (rev cur ++ sep :: join sep (x :: xs)).
      rewrite <- E2, IH. reflexivity.
    + rewrite IH. cbn. now rewrite <- app_assoc.
Qed.
Lemma join_split sep s : join sep (split sep s) = s.
Proof. unfold split. now rewrite join_split_acc. Qed.

Lemma psplit_cons_sl s : psplit (sl :: s) = [] :: psplit s.
Proof. unfold psplit, split. cbn [split_acc]. now rewrite Ascii.eqb_refl. Qed.
Lemma psplit_pjoin cs : cs <> [] -> Forall noslash cs -> psplit (pjoin cs) = cs.
Proof. apply split_join. Qed.

Lemma clean_abs_repr p : is_clean_abs p = true <-> exists cs, plains cs /\ p = pa cs.
Proof.
  split.
  - destruct p as [|c r]; [discriminate|]. cbn [is_clean_abs]. intros H. apply andb_true_iff in H as [H1 H2].
    apply Ascii.eqb_eq in H1. subst c. apply orb_true_iff in H2 as [H2|H2].
    + destruct r; [|discriminate]. exists []. split; [constructor|reflexivity].
    + exists (psplit r). split.
      * apply Forall_forall. intros x Hx. apply plainb_spec. rewrite forallb_forall in H2. auto.
      * rewrite pa_pjoin. unfold pjoin, psplit. now rewrite join_split.
  - intros (cs & Hc & ->). rewrite pa_pjoin. cbn [is_clean_abs]. rewrite Ascii.eqb_refl. cbn [andb].
    destruct cs as [|c cs']; [reflexivity|]. apply orb_true_iff. right.
    rewrite psplit_pjoin; [|discriminate|now apply plains_noslash].
    apply forallb_forall. intros x Hx. apply plainb_spec. unfold plains in Hc. rewrite Forall_forall in Hc. auto.
Qed.

(* components that are empty or plain are what Clean of a rooted path keeps *)
Definition eplain (c : bytes) : Prop := c = [] \/ plain c.
Lemma fold_eplain ws : Forall eplain ws -> forall st,
  fold_left (stepc true) ws st = rev (filter (fun c => negb (beq c [])) ws) ++ st.
Proof.
  induction 1 as [|w ws Hw _ IH]; intros st; cbn [fold_left filter]; [reflexivity|].
  destruct Hw as [->|Hw].
  - cbn. apply IH.
  - rewrite stepc_plain by exact Hw. destruct Hw as (H1 & Hw). assert (beq w [] = false) as -> by now apply beq_false.
    cbn [negb rev]. rewrite IH, <- app_assoc. reflexivity.
Qed.
Lemma clean_rooted_eplain ws : Forall eplain ws ->
  clean (sl :: pjoin ws) = pa (filter (fun c => negb (beq c [])) ws).
Proof.
  intros H. unfold clean. cbn [is_rooted]. rewrite Ascii.eqb_refl.
  rewrite psplit_cons_sl. cbn [fold_left]. unfold stepc at 2. cbn [beq orb].
  assert (S : psplit (pjoin ws) = ws \/ (ws = [] /\ psplit (pjoin ws) = [[]])).
  { destruct ws as [|w ws']; [right; split; reflexivity|left].
    apply psplit_pjoin; [discriminate|]. eapply Forall_impl; [|exact H].
    intros a [->|Ha]; [intros []|now apply plain_noslash]. }
  destruct S as [S|[-> S]]; rewrite S.
  - rewrite fold_eplain by exact H. rewrite app_nil_r, rev_involutive. unfold assemble. now rewrite pa_pjoin.
  - reflexivity.
Qed.
Lemma filter_nonempty_plains cs : plains cs -> filter (fun c => negb (beq c [])) cs = cs.
Proof.
  induction 1 as [|c cs (Hc & _) _ IH]; [reflexivity|]. cbn [filter].
  assert (beq c [] = false) as -> by now apply beq_false. cbn [negb]. now rewrite IH.
Qed.
Lemma clean_pa cs : plains cs -> clean (pa cs) = pa cs.
Proof.
  intros H. rewrite pa_pjoin, clean_rooted_eplain.
  - rewrite filter_nonempty_plains by exact H. now rewrite pa_pjoin.
  - eapply Forall_impl; [|exact H]. intros a Ha. now right.
Qed.

Lemma pjoin_cons c r : r <> [] -> pjoin (c :: r) = c ++ sl :: pjoin r.
Proof. destruct r; [congruence|reflexivity]. Qed.
Lemma pjoin_app cs ds : cs <> [] -> ds <> [] -> pjoin (cs ++ ds) = pjoin cs ++ sl :: pjoin ds.
Proof.
  intros Hc Hd. induction cs as [|c r IH]; [congruence|]. destruct r as [|c2 r'].
  - cbn [app]. now rewrite pjoin_cons.
  - cbn [app]. rewrite pjoin_cons by discriminate. rewrite (pjoin_cons c (c2 :: r')) by discriminate.
    change (c2 :: r' ++ ds) with ((c2 :: r') ++ ds). rewrite IH by discriminate. now rewrite <- app_assoc.
Qed.

(* path.Join of a clean absolute path with a relative path made of plain components *)
Lemma pathjoin_pa cs rs : plains cs -> plains rs -> rs <> [] ->
  pathjoin [pa cs; pjoin rs] = pa (cs ++ rs).
Proof.
  intros Hc Hr Hne. unfold pathjoin. cbn [filter].
  assert (beq (pa cs) [] = false) as -> by (apply beq_false, pa_nonempty).
  assert (beq (pjoin rs) [] = false) as ->.
  { apply beq_false. destruct rs as [|r rs']; [congruence|]. inversion Hr as [|? ? (H1 & _) _]; subst.
    destruct rs'; cbn; [exact H1|]. destruct r; [congruence|discriminate]. }
  cbn [negb]. change (pjoin [pa cs; pjoin rs]) with (pa cs ++ sl :: pjoin rs).
  rewrite pa_pjoin. cbn [app].
  assert (E : pjoin cs ++ sl :: pjoin rs = pjoin (match cs with [] => [[]] | _ => cs end ++ rs)).
  { destruct cs as [|c cs']; [cbn [app]; destruct rs; [congruence|reflexivity]|]. rewrite pjoin_app; [reflexivity|discriminate|exact Hne]. }
  rewrite E, clean_rooted_eplain.
  - f_equal. rewrite filter_app. destruct cs as [|c cs'].
    + cbn. now rewrite filter_nonempty_plains.
    + now rewrite !filter_nonempty_plains.
  - apply Forall_app. split.
    + destruct cs; [constructor; [now left|constructor]|]. eapply Forall_impl; [|exact Hc]. intros a Ha; now right.
    + eapply Forall_impl; [|exact Hr]. intros a Ha; now right.
Qed.
Lemma pathjoin_pa1 cs x : plains cs -> plain x -> pathjoin [pa cs; x] = pa (cs ++ [x]).
Proof. intros Hc Hx. apply (pathjoin_pa cs [x]); [exact Hc|constructor; [exact Hx|constructor]|discriminate]. Qed.

(* ------------------------------------------------------------------ pathdir / pathbase *)
Lemma lss_nosl x : forall cur acc fnd, noslash x ->
  last_slash_split x cur acc fnd = (fnd, acc, rev (rev x ++ cur)).
Proof.
  induction x as [|c x IH]; intros cur acc fnd H; cbn [last_slash_split]; [reflexivity|].
  destruct (Ascii.eqb c sl) eqn:E.
  - apply Ascii.eqb_eq in E. subst c. exfalso. apply H. now left.
  - rewrite IH by (intros Hin; apply H; now right). cbn [rev]. now rewrite <- app_assoc.
Qed.
Lemma lss_app x : forall s1 cur acc fnd,
  last_slash_split (s1 ++ sl :: x) cur acc fnd = last_slash_split x [] (sl :: rev s1 ++ cur ++ acc) true.
Proof.
  induction s1 as [|c s1 IH]; intros cur acc fnd; cbn [app last_slash_split].
  - now rewrite Ascii.eqb_refl.
  - destruct (Ascii.eqb c sl) eqn:E.
    + apply Ascii.eqb_eq in E. subst c. rewrite IH. cbn [rev app]. now rewrite <- !app_assoc.
    + rewrite IH. cbn [rev app]. now rewrite <- !app_assoc.
Qed.
Lemma pathsplit_snoc s1 x : noslash x -> pathsplit (s1 ++ sl :: x) = (s1 ++ [sl], x).
Proof.
  intros H. unfold pathsplit. rewrite lss_app, lss_nosl by exact H. rewrite !app_nil_r.
  cbn [rev]. now rewrite !rev_involutive.
Qed.
Lemma clean_rel_slash cs : plains cs -> clean (rel cs ++ [sl]) = pa cs.
Proof.
  intros H. destruct cs as [|c cs'].
  - reflexivity.
  - rewrite rel_pjoin by discriminate. cbn [app].
    assert (E : pjoin (c :: cs') ++ [sl] = pjoin ((c :: cs') ++ [[]])).
    { rewrite pjoin_app by discriminate. reflexivity. }
    rewrite E, clean_rooted_eplain.
    + rewrite filter_app, filter_nonempty_plains by exact H. cbn [filter beq negb]. now rewrite app_nil_r.
    + apply Forall_app. split; [eapply Forall_impl; [|exact H]; intros a Ha; now right|].
      constructor; [now left|constructor].
Qed.
Lemma pathdir_pa cs x : plains cs -> plain x -> pathdir (pa (cs ++ [x])) = pa cs.
Proof.
  intros Hc Hx. rewrite pa_snoc. unfold pathdir. rewrite pathsplit_snoc by now apply plain_noslash.
  cbn [fst]. now apply clean_rel_slash.
Qed.
Lemma plain_last_nosl x : plain x -> exists y c, x = y ++ [c] /\ c <> sl.
Proof.
  intros (H1 & _ & _ & H4). destruct x as [|a x'] using rev_ind; [congruence|].
  exists x', a. split; [reflexivity|]. intros ->. apply H4. apply in_or_app. right. now left.
Qed.
Lemma pathbase_pa cs x : plain x -> pathbase (pa (cs ++ [x])) = x.
Proof.
  intros Hx. rewrite pa_snoc. unfold pathbase.
  destruct (rel cs ++ sl :: x) eqn:E0; [destruct (rel cs); discriminate|]. rewrite <- E0. clear E0.
  destruct (plain_last_nosl x Hx) as (y & c & Ex & Hc).
  assert (S : strip_trailing_slashes_rev (rev (rel cs ++ sl :: x)) = rev (rel cs ++ sl :: x)).
  { rewrite Ex. rewrite app_comm_cons, app_assoc, rev_app_distr. cbn [rev app strip_trailing_slashes_rev].
    destruct (Ascii.eqb c sl) eqn:E; [apply Ascii.eqb_eq in E; congruence|reflexivity]. }
  rewrite S, rev_involutive.
  destruct (rel cs ++ sl :: x) eqn:E0; [destruct (rel cs); discriminate|]. rewrite <- E0.
  rewrite pathsplit_snoc by now apply plain_noslash. reflexivity.
Qed.

(* a clean absolute path other than "/" is parent ++ [last] *)
Lemma plains_snoc_inv cs : plains cs -> cs <> [] -> exists ds x, cs = ds ++ [x] /\ plains ds /\ plain x.
Proof.
  intros H Hne. destruct cs as [|a cs'] using rev_ind; [congruence|]. apply Forall_app in H as [H1 H2].
  inversion H2; subst. eauto.
Qed.

(* ------------------------------------------------------------------ prefixes *)
Fixpoint inits1 (cs : list bytes) : list (list bytes) :=
  match cs with [] => [] | c :: r => [c] :: map (cons c) (inits1 r) end.
Lemma prefixes_acc_rel ds : forall cs ws, rel ws = ds ->
  prefixes_acc ds cs = map (fun i => rel (ws ++ i)) (inits1 cs).
Proof.
  intros cs. revert ds. induction cs as [|c r IH]; intros ds ws E; cbn [prefixes_acc inits1 map]; [reflexivity|].
  f_equal.
  - rewrite rel_app, E. cbn. now rewrite app_nil_r.
  - rewrite (IH (ds ++ sl :: c) (ws ++ [c])).
    + rewrite map_map. apply map_ext. intros i. now rewrite <- app_assoc.
    + rewrite rel_app, E. cbn. now rewrite app_nil_r.
Qed.
Lemma psplit_pa cs : plains cs -> filter (fun c => negb (beq c [])) (psplit (pa cs)) = cs.
Proof.
  intros H. destruct cs as [|c cs'].
  - reflexivity.
  - rewrite pa_pjoin, psplit_cons_sl, psplit_pjoin; [|discriminate|now apply plains_noslash].
    change ([] :: c :: cs') with ([[]] ++ (c :: cs')). rewrite filter_app, (filter_nonempty_plains _ H). reflexivity.
Qed.
Lemma prefixes_pa cs : plains cs -> prefixes (pa cs) = map rel (inits1 cs).
Proof.
  intros H. unfold prefixes. rewrite psplit_pa by exact H.
  rewrite (prefixes_acc_rel [] cs []) by reflexivity. reflexivity.
Qed.
Lemma inits1_spec cs i : In i (inits1 cs) <-> exists r, i <> [] /\ cs = i ++ r.
Proof.
  revert i. induction cs as [|c cs IH]; intros i; cbn [inits1].
  - split; [intros []|]. intros (r & H1 & H2). destruct i; [congruence|discriminate].
  - split.
    + intros [<-|H]; [exists cs; split; [discriminate|reflexivity]|].
      apply in_map_iff in H as (j & <- & Hj). apply IH in Hj as (r & H1 & ->). exists r. split; [discriminate|reflexivity].
    + intros (r & H1 & H2). destruct i as [|a i']; [congruence|]. cbn in H2. injection H2 as <- ->.
      destruct i' as [|b i'']; [now left|]. right. apply in_map_iff. exists (b :: i''). split; [reflexivity|].
      apply IH. exists r. split; [discriminate|reflexivity].
Qed.
Lemma prefixes_pa_in cs q : plains cs -> In q (prefixes (pa cs)) <-> exists i r, i <> [] /\ cs = i ++ r /\ q = pa i.
Proof.
  intros H. rewrite prefixes_pa by exact H. rewrite in_map_iff. split.
  - intros (i & <- & Hi). apply inits1_spec in Hi as (r & H1 & H2). exists i, r. repeat split; auto. now rewrite pa_rel.
  - intros (i & r & H1 & H2 & ->). exists i. split; [now rewrite pa_rel|]. apply inits1_spec. eauto.
Qed.

(* ------------------------------------------------------------------ legal layer names are plain *)
Lemma list_prefix_comparable {A} (a b c d : list A) : a ++ b = c ++ d ->
  (exists r, c = a ++ r) \/ (exists r, a = c ++ r).
Proof.
  revert c. induction a as [|x a IH]; intros c E; [left; exists c; reflexivity|].
  destruct c as [|y c]; [right; exists (x :: a); reflexivity|]. cbn in E. injection E as <- E.
  destruct (IH c E) as [(r & ->)|(r & ->)]; [left|right]; exists r; reflexivity.
Qed.
