(* path.Base is never empty; path.Join of a plain name onto a clean absolute path is plain
   concatenation; path.Dir of a path whose last element is a name; a clean absolute path other
   than "/" does not end in a slash. *)
From LC Require Import Lib.Bytes Lib.Lex Lib.Fields Lib.PathM Gen.Consts Model.MountInfo Model.FsTree Model.Kernel Model.Layers Proofs.PathP Proofs.CleanP Proofs.PathBaseP.
Close Scope string_scope. Open Scope list_scope.

(* ---- path.Base never returns the empty string *)
Lemma strip_shape r : strip_trailing_slashes_rev r = [] \/
  exists c r', strip_trailing_slashes_rev r = c :: r' /\ c <> sl.
Proof.
  induction r as [|c r IH]; [now left|]. cbn [strip_trailing_slashes_rev].
  destruct (Ascii.eqb c sl) eqn:E; [exact IH|].
  right. exists c, r. split; [reflexivity|]. intros ->. rewrite Ascii.eqb_refl in E. discriminate.
Qed.

Lemma lss_snd_nil s : forall cur acc found, snd (last_slash_split s cur acc found) = [] ->
  (s = [] /\ cur = []) \/ exists s', s = s' ++ [sl].
Proof.
  induction s as [|c s IH]; intros cur acc found H; cbn [last_slash_split] in H.
  - left. split; [reflexivity|]. cbn [snd] in H. apply (f_equal (@rev _)) in H.
    rewrite rev_involutive in H. exact H.
  - right. destruct (Ascii.eqb c sl) eqn:E.
    + apply Ascii.eqb_eq in E. subst c. destruct (IH _ _ _ H) as [[-> _]|(s' & ->)].
      * now exists [].
      * now exists (sl :: s').
    + destruct (IH _ _ _ H) as [[_ Hc]|(s' & ->)]; [discriminate|]. now exists (c :: s').
Qed.

Lemma pathbase_nonempty p : pathbase p <> [].
Proof.
  destruct p as [|a p']; [discriminate|].
  unfold pathbase. cbv zeta.
  destruct (strip_shape (rev (a :: p'))) as [E|(c & r' & E & Hc)]; rewrite E.
  - discriminate.
  - cbn [rev]. destruct (rev r' ++ [c]) as [|y q] eqn:Eq; [discriminate|]. rewrite <- Eq.
    rewrite pathsplit_snd. intros H. apply lss_snd_nil in H as [[H _]|(s' & H)].
    + destruct (rev r'); discriminate.
    + apply app_inj_tail in H as [_ H]. congruence.
Qed.

(* ---- joining a plain name to a clean absolute path *)
Lemma rooted_nonempty X : is_rooted X = true -> X <> [].
Proof. intros H ->. discriminate. Qed.

Lemma pathjoin2_unfold X n : X <> [] -> n <> [] -> pathjoin [X; n] = clean (X ++ sl :: n).
Proof.
  intros HX Hn. apply beq_false in HX, Hn. unfold pathjoin. cbn [filter]. rewrite HX, Hn. reflexivity.
Qed.

Lemma is_rooted_app X t : is_rooted X = true -> is_rooted (X ++ t) = true.
Proof. destruct X as [|x X']; [discriminate|]. intros H. exact H. Qed.

Lemma cstack_snoc X n : is_rooted X = true -> plain n -> cstack (X ++ sl :: n) = cstack X ++ [n].
Proof.
  intros Hr Hn. unfold cstack. rewrite (is_rooted_app _ (sl :: n) Hr), Hr.
  unfold psplit. rewrite split_app_sep. change (split sl n) with (psplit n).
  rewrite (psplit_plain n) by (now destruct Hn as (_ & _ & _ & Hs)).
  rewrite fold_left_app. cbn [fold_left]. rewrite stepc_plain by assumption. reflexivity.
Qed.

Lemma clean_snoc X n : is_rooted X = true -> plain n ->
  clean (X ++ sl :: n) = sl :: pjoin (cstack X ++ [n]).
Proof.
  intros Hr Hn. rewrite clean_unfold by (destruct X; discriminate).
  rewrite (is_rooted_app _ (sl :: n) Hr), cstack_snoc by assumption. reflexivity.
Qed.

Lemma clean_abs_shape X : is_rooted X = true -> clean X = X ->
  X = sl :: pjoin (cstack X) /\ Forall plain (cstack X).
Proof.
  intros Hr Hc. split.
  - transitivity (clean X); [now symmetry|].
    rewrite clean_unfold by now apply rooted_nonempty. rewrite Hr. reflexivity.
  - apply nf_rooted_plain. rewrite <- Hr. apply cstack_nf.
Qed.

Lemma pjoin_snoc_ne cs n : cs <> [] -> pjoin (cs ++ [n]) = pjoin cs ++ sl :: n.
Proof.
  induction cs as [|c cs IH]; intros H; [congruence|]. destruct cs as [|d cs'].
  - reflexivity.
  - change (pjoin ((c :: d :: cs') ++ [n])) with (c ++ sl :: pjoin ((d :: cs') ++ [n])).
    rewrite IH by discriminate. change (pjoin (c :: d :: cs')) with (c ++ sl :: pjoin (d :: cs')).
    now rewrite <- app_assoc.
Qed.

Lemma pjoin_cons_nonempty c cs : plain c -> pjoin (c :: cs) <> [].
Proof.
  intros (Hc & _). destruct (pjoin_head c cs) as (t & ->).
  destruct c as [|x c']; [congruence|discriminate].
Qed.

Lemma pathjoin_abs X n : is_rooted X = true -> clean X = X -> plain n ->
  pathjoin [X; n] = (if beq X root then [] else X) ++ sl :: n.
Proof.
  intros Hr Hc Hn.
  rewrite pathjoin2_unfold by (first [now apply rooted_nonempty | now destruct Hn as (Hn1 & _)]).
  rewrite clean_snoc by assumption.
  destruct (clean_abs_shape X Hr Hc) as [E HP].
  remember (cstack X) as cs eqn:Ecs. clear Ecs Hr Hc. subst X.
  destruct cs as [|c cs'].
  - cbn [pjoin join app]. unfold root. rewrite beq_refl. reflexivity.
  - rewrite pjoin_snoc_ne by discriminate.
    assert (Hb : beq (sl :: pjoin (c :: cs')) root = false).
    { apply beq_false. unfold root. intros H. injection H as H. apply Forall_inv in HP.
      now apply (pjoin_cons_nonempty c cs'). }
    rewrite Hb. reflexivity.
Qed.

Lemma pathjoin_abs_clean X n : is_rooted X = true -> plain n ->
  is_rooted (pathjoin [X; n]) = true /\ clean (pathjoin [X; n]) = pathjoin [X; n].
Proof.
  intros Hr Hn.
  rewrite pathjoin2_unfold by (first [now apply rooted_nonempty | now destruct Hn as (Hn1 & _)]).
  split; [apply clean_rooted; now apply is_rooted_app|apply clean_idem].
Qed.

(* ---- path.Dir of a path whose last element is a name *)
Lemma lss_app_sl_full r a : forall cur acc found,
  last_slash_split (a ++ sl :: r) cur acc found = last_slash_split r [] (sl :: rev a ++ cur ++ acc) true.
Proof.
  induction a as [|c a IH]; intros cur acc found; cbn [app last_slash_split].
  - rewrite Ascii.eqb_refl. reflexivity.
  - destruct (Ascii.eqb c sl) eqn:E.
    + apply Ascii.eqb_eq in E. subst c. rewrite IH. cbn [rev app]. now rewrite <- app_assoc.
    + rewrite IH. cbn [rev]. now rewrite <- app_assoc.
Qed.

Lemma pathsplit_comp a n : noslash n -> pathsplit (a ++ sl :: n) = (a ++ [sl], n).
Proof.
  intros Hn. unfold pathsplit. rewrite lss_app_sl_full, lss_noslash by assumption.
  cbn [rev app]. rewrite app_nil_r, rev_involutive. reflexivity.
Qed.

Lemma clean_app_sl a : a <> [] -> clean (a ++ [sl]) = clean a.
Proof.
  intros Ha.
  assert (Hr : is_rooted (a ++ [sl]) = is_rooted a) by (destruct a; [congruence|reflexivity]).
  rewrite !clean_unfold by (destruct a; [congruence|discriminate]).
  unfold cstack. rewrite Hr. unfold psplit. rewrite split_app_sep, fold_left_app. reflexivity.
Qed.

Lemma pathdir_comp a n : a <> [] -> n <> [] -> noslash n -> pathdir (a ++ sl :: n) = clean a.
Proof.
  intros Ha _ Hn. unfold pathdir. rewrite pathsplit_comp by assumption. cbn [fst].
  now apply clean_app_sl.
Qed.

Lemma pathdir_top n : n <> [] -> noslash n -> pathdir (sl :: n) = root.
Proof.
  intros _ Hn. unfold pathdir. change (sl :: n) with ([] ++ sl :: n).
  rewrite (pathsplit_comp [] n Hn). cbn [fst]. vm_compute. reflexivity.
Qed.

(* ---- a clean absolute path other than "/" does not end in a slash *)
Lemma clean_abs_ends_ok X : is_rooted X = true -> clean X = X -> beq X root = false -> ends_ok X = true.
Proof.
  intros Hr Hc Hb. destruct (clean_abs_shape X Hr Hc) as [E HP].
  remember (cstack X) as cs eqn:Ecs. clear Ecs Hr Hc. subst X.
  destruct cs as [|c cs'].
  { unfold root in Hb. cbn [pjoin join] in Hb. rewrite beq_refl in Hb. discriminate. }
  assert (Hne : c :: cs' <> []) by discriminate.
  destruct (exists_last Hne) as (xs & n & E). rewrite E in *.
  apply Forall_app in HP as [_ HP]. apply Forall_inv in HP. destruct HP as (Hn & _ & _ & Hs).
  destruct (pjoin_snoc n xs) as (pre & Ej & _). rewrite Ej.
  change (sl :: pre ++ n) with ((sl :: pre) ++ n). now apply ends_ok_comp.
Qed.

Print Assumptions pathbase_nonempty.
Print Assumptions pathjoin_abs.
Print Assumptions pathjoin_abs_clean.
Print Assumptions pathdir_comp.
Print Assumptions pathdir_top.
Print Assumptions clean_abs_ends_ok.
