(* Facts about the component-level path.Clean of Lib/PathM.v used by C18:
   a rooted Clean result is "/" followed by plain components; Clean keeps rootedness;
   joining a cleaned relative path gives the same result as joining the raw one. *)
From LC Require Import Lib.Bytes Lib.Fields Lib.PathM Model.Config.

(* ---- split *)
Lemma split_acc_nosep sep s : forall cur, nosep sep (rev cur) -> Forall (nosep sep) (split_acc sep cur s).
Proof.
  induction s as [|c r IH]; intros cur Hc; cbn.
  - constructor; [exact Hc|constructor].
  - destruct (Ascii.eqb c sep) eqn:E.
    + constructor; [exact Hc|]. apply IH. cbn. intros [].
    + apply IH. cbn. intros Hin. apply in_app_or in Hin as [Hin|[Hin|[]]]; [now apply Hc|].
      subst. rewrite Ascii.eqb_refl in E. discriminate.
Qed.
Lemma split_nosep sep s : Forall (nosep sep) (split sep s).
Proof. apply split_acc_nosep. cbn. intros []. Qed.

Lemma split_acc_app_sep sep a : forall cur b,
  split_acc sep cur (a ++ sep :: b) = split_acc sep cur a ++ split sep b.
Proof.
  induction a as [|c a IH]; intros cur b; cbn.
  - now rewrite Ascii.eqb_refl.
  - destruct (Ascii.eqb c sep); [cbn; f_equal; apply IH|apply IH].
Qed.
Lemma split_app_sep sep a b : split sep (a ++ sep :: b) = split sep a ++ split sep b.
Proof. apply split_acc_app_sep. Qed.

(* ---- shape of Clean *)
Lemma psplit_noslash p : Forall noslash (psplit p).
Proof. apply split_nosep. Qed.

Definition cstack (p : bytes) : list bytes := rev (fold_left (stepc (is_rooted p)) (psplit p) []).
Lemma clean_unfold p : p <> [] -> clean p = assemble (is_rooted p) (cstack p).
Proof. destruct p; [congruence|reflexivity]. Qed.
Lemma cstack_nf p : nf (is_rooted p) (cstack p).
Proof.
  unfold cstack. apply nf_fold; [apply psplit_noslash|].
  exists 0%nat, []. cbn. repeat split; auto.
Qed.

Lemma plain_nonempty_noslash c : plain c -> exists x c', c = x :: c' /\ x <> sl.
Proof.
  intros (H1 & _ & _ & H4). destruct c as [|x c']; [congruence|]. exists x, c'. split; auto.
  intros ->. apply H4. now left.
Qed.
Lemma dotdot_head : exists c', dotdot = nb 46 :: c' /\ nb 46 <> sl.
Proof. exists [nb 46]. split; [reflexivity|]. intros H. apply (f_equal bn) in H. vm_compute in H. discriminate. Qed.

Lemma nf_head r c cs : nf r (c :: cs) -> exists x c', c = x :: c' /\ x <> sl.
Proof.
  intros (k & ps & E & HP & _). destruct k as [|k]; cbn in E.
  - destruct ps as [|p ps]; [discriminate|]. injection E as -> _. inversion HP; subst. now apply plain_nonempty_noslash.
  - injection E as -> _. destruct dotdot_head as (c' & E1 & E2). now exists (nb 46), c'.
Qed.

Lemma pjoin_head c cs : exists t, pjoin (c :: cs) = c ++ t.
Proof. destruct cs as [|d cs]; cbn; [exists []; now rewrite app_nil_r|eexists; reflexivity]. Qed.

Lemma is_rooted_sl_false x t : x <> sl -> is_rooted (x :: t) = false.
Proof. intros H. cbn. destruct (Ascii.eqb x sl) eqn:E; auto. apply Ascii.eqb_eq in E. congruence. Qed.

Lemma clean_unrooted p : is_rooted p = false -> is_rooted (clean p) = false.
Proof.
  intros Hr. destruct p as [|a p']; [reflexivity|].
  rewrite clean_unfold by discriminate. pose proof (cstack_nf (a :: p')) as Hnf. rewrite Hr in *.
  unfold assemble. destruct (cstack (a :: p')) as [|c cs] eqn:E.
  - reflexivity.
  - destruct (nf_head _ _ _ Hnf) as (x & c' & -> & Hx). destruct (pjoin_head (x :: c') cs) as (t & ->).
    cbn [app]. now apply is_rooted_sl_false.
Qed.
Lemma clean_rooted p : is_rooted p = true -> is_rooted (clean p) = true.
Proof.
  intros Hr. destruct p as [|a p']; [discriminate|]. rewrite clean_unfold by discriminate. rewrite Hr. reflexivity.
Qed.
Lemma is_rooted_clean p : p <> [] -> is_rooted (clean p) = is_rooted p.
Proof. intros _. destruct (is_rooted p) eqn:E; [now apply clean_rooted|now apply clean_unrooted]. Qed.

Lemma clean_nonempty p : clean p <> [].
Proof.
  destruct p as [|a p']; [discriminate|]. rewrite clean_unfold by discriminate.
  unfold assemble. destruct (is_rooted (a :: p')); [discriminate|]. destruct (pjoin _); discriminate.
Qed.

Lemma nf_rooted_plain cs : nf true cs -> Forall plain cs.
Proof. intros (k & ps & -> & HP & Hk). rewrite (Hk eq_refl). exact HP. Qed.

Lemma clean_abs_of_rooted p : is_rooted p = true -> is_clean_abs (clean p) = true.
Proof.
  intros Hr. destruct p as [|a p']; [discriminate|]. rewrite clean_unfold by discriminate.
  pose proof (cstack_nf (a :: p')) as Hnf. rewrite Hr in *. cbn [assemble is_clean_abs]. rewrite Ascii.eqb_refl. cbn [andb].
  destruct (cstack (a :: p')) as [|c cs] eqn:E; [reflexivity|].
  pose proof (nf_rooted_plain _ Hnf) as HP.
  assert (HS : psplit (pjoin (c :: cs)) = c :: cs).
  { apply split_join; [discriminate|]. eapply Forall_impl; [|exact HP]. intros x (_ & _ & _ & H). exact H. }
  rewrite HS. apply orb_true_iff. right.
  apply forallb_forall. intros x Hx. apply plainb_spec. rewrite Forall_forall in HP. now apply HP.
Qed.
Lemma clean_abs_of_clean p : is_rooted (clean p) = true -> is_clean_abs (clean p) = true.
Proof.
  intros H. destruct (is_rooted p) eqn:E; [now apply clean_abs_of_rooted|].
  rewrite clean_unrooted in H by assumption. discriminate.
Qed.
Lemma is_clean_abs_rooted p : is_clean_abs p = true -> is_rooted p = true.
Proof. destruct p; cbn; [discriminate|]. intros H. now apply andb_true_iff in H as [H _]. Qed.

(* ---- Clean of a cleaned relative tail *)
Definition okc (c : bytes) : Prop := c = dotdot \/ (beq c [] = false /\ beq c dot = false /\ beq c dotdot = false).
Lemma stepc_okc r st c : Forall okc st -> Forall okc (stepc r st c).
Proof.
  intros H. unfold stepc. destruct (beq c [] || beq c dot) eqn:E0; [exact H|].
  apply orb_false_iff in E0 as [E1 E2].
  destruct (beq c dotdot) eqn:E3.
  - destruct st as [|top rest].
    + destruct r; constructor; auto. now left.
    + destruct (beq top dotdot); [constructor; [now left|exact H]|now inversion H].
  - constructor; [right; auto|exact H].
Qed.
Lemma fold_okc r cs : forall st, Forall okc st -> Forall okc (fold_left (stepc r) cs st).
Proof. induction cs as [|c cs IH]; intros st H; cbn; [exact H|]. apply IH. now apply stepc_okc. Qed.

Lemma stepc_push r X c : beq c [] = false -> beq c dot = false -> beq c dotdot = false -> stepc r X c = c :: X.
Proof. intros H1 H2 H3. unfold stepc. now rewrite H1, H2, H3. Qed.

(* replaying, on any stack, the components that Clean kept of a relative path has the same
   effect as replaying all of its components *)
Lemma replay_clean r cs : forall S,
  fold_left (stepc r) (rev (fold_left (stepc false) cs [])) S = fold_left (stepc r) cs S.
Proof.
  induction cs as [|c cs IH] using rev_ind; intros S; [reflexivity|].
  rewrite !fold_left_app. cbn [fold_left]. rewrite <- IH.
  set (st := fold_left (stepc false) cs []).
  assert (Hst : Forall okc st) by (apply fold_okc; constructor).
  set (G := fun xs => fold_left (stepc r) xs S).
  change (G (rev (stepc false st c)) = stepc r (G (rev st)) c).
  assert (Gsnoc : forall xs x, G (xs ++ [x]) = stepc r (G xs) x).
  { intros xs x. unfold G. now rewrite fold_left_app. }
  unfold stepc at 1. destruct (beq c [] || beq c dot) eqn:E0.
  - unfold stepc. now rewrite E0.
  - destruct (beq c dotdot) eqn:E3.
    + apply beq_true in E3. subst c. destruct st as [|top rest].
      * reflexivity.
      * destruct (beq top dotdot) eqn:E4.
        -- cbn [rev]. now rewrite Gsnoc.
        -- cbn [rev]. rewrite Gsnoc. inversion Hst as [|? ? Ht _]; subst.
           destruct Ht as [->|(T1 & T2 & T3)]; [rewrite beq_refl in E4; discriminate|].
           rewrite (stepc_push r _ top T1 T2 T3). unfold stepc. cbn [beq orb]. rewrite E4. reflexivity.
    + cbn [rev]. now rewrite Gsnoc.
Qed.

Lemma psplit_clean_rel v : v <> [] -> is_rooted v = false ->
  psplit (clean v) = cstack v \/ (cstack v = [] /\ psplit (clean v) = [dot]).
Proof.
  intros Hv Hr. rewrite clean_unfold by assumption. pose proof (cstack_nf v) as Hnf. rewrite Hr in *.
  unfold assemble. destruct (cstack v) as [|c cs] eqn:E.
  - right. split; reflexivity.
  - left. destruct (nf_head _ _ _ Hnf) as (x & c' & -> & Hx). destruct (pjoin_head (x :: c') cs) as (t & Et).
    assert (HS : psplit (pjoin ((x :: c') :: cs)) = (x :: c') :: cs).
    { apply split_join; [discriminate|]. now apply nf_noslash in Hnf. }
    destruct (pjoin ((x :: c') :: cs)) eqn:EJ; [discriminate|]. exact HS.
Qed.

Lemma clean_join_clean b v : b <> [] -> is_rooted b = true -> v <> [] -> is_rooted v = false ->
  clean (b ++ sl :: clean v) = clean (b ++ sl :: v).
Proof.
  intros Hb Hbr Hv Hvr.
  assert (N1 : b ++ sl :: clean v <> []) by (destruct b; [congruence|discriminate]).
  assert (N2 : b ++ sl :: v <> []) by (destruct b; [congruence|discriminate]).
  assert (R1 : is_rooted (b ++ sl :: clean v) = true) by (destruct b; [congruence|exact Hbr]).
  assert (R2 : is_rooted (b ++ sl :: v) = true) by (destruct b; [congruence|exact Hbr]).
  rewrite (clean_unfold _ N1), (clean_unfold _ N2), R1, R2. f_equal. unfold cstack. rewrite R1, R2. f_equal.
  unfold psplit. rewrite !split_app_sep, !fold_left_app. fold psplit.
  set (S := fold_left (stepc true) (psplit b) []).
  destruct (psplit_clean_rel v Hv Hvr) as [E|[E0 E]]; rewrite E.
  - unfold cstack. rewrite Hvr. apply replay_clean.
  - unfold cstack in E0. rewrite Hvr in E0. rewrite <- (replay_clean true (psplit v) S). rewrite E0. reflexivity.
Qed.
