(* Running the command monad of Model/Layers.v in a plain environment (no -p, no fault plan):
   inversion lemmas for bind / guard / the mutating primitives, and the fact that reading the
   layers (FindLayers + ProbeAllLayerstate) is a pure function of the world. *)
From LC Require Import Lib.Bytes Lib.Lex Lib.Fields Lib.PathM Gen.Consts
  Model.MountInfo Model.FsTree Model.Kernel Model.Layers Cases.Verdict Cases.LC .

Definition plain_e (e : env) : Prop := e_pretend e = false /\ e_fault e = NoFault.

Lemma plain_env_spec e : LCS.plain_env e = true -> plain_e e.
Proof.
  unfold LCS.plain_env, plain_e. intros H. apply andb_true_iff in H as [H1 H2].
  apply negb_true_iff in H1. split; [exact H1|]. destruct (e_fault e); [reflexivity|discriminate|discriminate].
Qed.

(* ------------------------------------------------------------------ inversion *)
Lemma bind_inv {A B} (m : M A) (f : A -> M B) s b s' :
  bind m f s = (Ret b, s') -> exists a s1, m s = (Ret a, s1) /\ f a s1 = (Ret b, s').
Proof. unfold bind. destruct (m s) as [[a| | | |] s1]; try discriminate. eauto. Qed.

Lemma ret_inv {A} (a b : A) s s' : ret a s = (Ret b, s') -> b = a /\ s' = s.
Proof. unfold ret. intros H. injection H as -> ->. auto. Qed.

Lemma guard_inv b s u s' : guard b s = (Ret u, s') -> b = true /\ s' = s.
Proof. destruct b; cbn; intros H; [injection H as _ <-; auto|discriminate]. Qed.

Lemma get_fs_inv s f s' : get_fs s = (Ret f, s') -> f = w_fs (s_w s) /\ s' = s.
Proof. unfold get_fs. intros H. injection H as <- <-. auto. Qed.
Lemma get_ks_inv s k s' : get_ks s = (Ret k, s') -> k = w_ks (s_w s) /\ s' = s.
Proof. unfold get_ks. intros H. injection H as <- <-. auto. Qed.

Lemma mutate_plain e o act s : plain_e e ->
  mutate e o act s = act (MkSt (s_w s) (S (s_n s)) (o :: s_log s)).
Proof. intros [Hp Hf]. unfold mutate. now rewrite Hp, Hf. Qed.

Lemma fs_mkdir_inv e p s u s' : plain_e e -> fs_mkdir e p s = (Ret u, s') ->
  exists f', mkdir_all (w_fs (s_w s)) p = FOk f' /\ s_w s' = MkW f' (w_ks (s_w s)).
Proof.
  intros He. unfold fs_mkdir, do_op. rewrite mutate_plain by assumption.
  unfold apply_op, bind, get_fs, get_ks, put_fs, fail. cbn [s_w s_n s_log].
  destruct (mkdir_all (w_fs (s_w s)) p) as [f'|]; [|discriminate].
  intros H. injection H as _ <-. exists f'. split; reflexivity.
Qed.

Lemma kmount_op_inv e src tgt ty fl d s u s' : plain_e e ->
  do_op e (OMount src tgt ty fl d) s = (Ret u, s') ->
  exists k', kmount (w_fs (s_w s)) (w_ks (s_w s)) src tgt ty fl d = KOk k'
             /\ s_w s' = MkW (w_fs (s_w s)) k'.
Proof.
  intros He. unfold do_op. rewrite mutate_plain by assumption.
  unfold apply_op, bind, get_fs, get_ks, put_ks, fail. cbn [s_w s_n s_log].
  destruct (kmount _ _ src tgt ty fl d) as [k'|]; [|discriminate].
  intros H. injection H as _ <-. exists k'. split; reflexivity.
Qed.

(* ------------------------------------------------------------------ reading the layers is pure *)
Lemma refresh_mounts_inv c ld s ld' s' : refresh_mounts c ld s = (Ret ld', s') ->
  s' = s /\ exists ms ds, probe_of (w_ks (s_w s)) = POk ms ds
  /\ ld' = MkLD (map (fun l => set_overlain l
                     (memb (build_path c l) (map m_source (filter (fun m => beq (m_fstype m) overlay) ms))))
                     (ld_map ld)) (ld_order ld) (POk ms ds).
Proof.
  unfold refresh_mounts, bind, get_ks. destruct (probe_of (w_ks (s_w s))) as [|ms ds] eqn:E; [discriminate|].
  unfold ret. intros H. injection H as <- <-. split; [reflexivity|]. exists ms, ds. auto.
Qed.

Lemma find_layers_inv c s ld s' : find_layers c s = (Ret ld, s') ->
  s' = s /\ is_dir (w_fs (s_w s)) (c_layers c) = true
  /\ check_inheritance (read_layer_files c (w_fs (s_w s))) = true
  /\ exists o, normalize_order (read_layer_files c (w_fs (s_w s))) = Some o
     /\ ld = MkLD (read_layer_files c (w_fs (s_w s))) o (POk [] []).
Proof.
  unfold find_layers, bind, get_fs. destruct (is_dir _ (c_layers c)); cbn [negb]; [|discriminate].
  destruct (check_inheritance _); cbn [negb]; [|discriminate].
  destruct (normalize_order _) as [o|]; [|discriminate].
  unfold ret. intros H. injection H as <- <-. repeat split. exists o. auto.
Qed.

Lemma probe_all_inv c um ld s ld' s' : probe_all c um ld s = (Ret ld', s') ->
  s' = s /\ exists ld1, refresh_mounts c ld s = (Ret ld1, s)
  /\ ld' = fold_left (probe_layer c (w_fs (s_w s)) um) (ld_order ld1) ld1.
Proof.
  unfold probe_all. intros H. apply bind_inv in H as (ld1 & s1 & H1 & H).
  pose proof (refresh_mounts_inv _ _ _ _ _ H1) as [-> _].
  apply bind_inv in H as (f & s2 & H2 & H). apply get_fs_inv in H2 as [-> ->].
  apply ret_inv in H as [-> ->]. split; [reflexivity|]. exists ld1. auto.
Qed.

Lemma get_layers_inv c um s ld s' : get_layers c um s = (Ret ld, s') ->
  s' = s /\ exists ld0 ld1, find_layers c s = (Ret ld0, s) /\ refresh_mounts c ld0 s = (Ret ld1, s)
  /\ ld = fold_left (probe_layer c (w_fs (s_w s)) um) (ld_order ld1) ld1.
Proof.
  unfold get_layers. intros H. apply bind_inv in H as (ld0 & s1 & H0 & H).
  pose proof (find_layers_inv _ _ _ _ H0) as [-> _].
  apply probe_all_inv in H as [-> (ld1 & H1 & ->)]. split; [reflexivity|]. exists ld0, ld1. auto.
Qed.
