(* From the kernel table to what the command model knows about each layer: the probed table
   (through text, Proofs/MountInfoP.probe_render), l_kmounts / l_overlain / busy flags as
   computed by probe_all, and get_layers as a pure function of the world. *)
From Coq Require Import Sorting.Permutation.
From LC Require Import Lib.Bytes Lib.Lex Lib.Fields Lib.PathM Gen.Consts
  Model.MountInfo Model.FsTree Model.Kernel Model.Layers
  Proofs.MountInfoP Proofs.KernelP Proofs.KrnMonadP.
Notation sort := Lex.sort.
Open Scope N_scope.

(* ------------------------------------------------------------------ the probed table *)
Definition mcore (m : mount) : bytes * bytes * bytes := (m_mp m, m_fstype m, m_source m).
Definition rcore (r : rawline) : bytes * bytes * bytes := (r_mp r, r_fstype r, r_lower r).

Lemma pstep_fold rs : forall st,
  map mcore (rev (p_mounts (fold_left pstep rs st))) = map mcore (rev (p_mounts st)) ++ map rcore rs.
Proof.
  induction rs as [|r rs IH]; intros st; cbn [fold_left map]; [now rewrite app_nil_r|].
  rewrite IH. cbn [pstep p_mounts rev]. rewrite map_app. cbn [map]. rewrite <- app_assoc. reflexivity.
Qed.

Definition lower_of (k : kline) : bytes := last_opt (bs "lowerdir") (k_sopts k) [].
Definition kcore (k : kline) : bytes * bytes * bytes :=
  (k_mp k, k_fstype k, if beq (k_fstype k) overlay then lower_of k else []).

Lemma view_mcore tab : map mcore (pr_mounts (view tab)) = map kcore tab.
Proof.
  unfold view. cbn [pr_mounts]. rewrite pstep_fold. cbn. rewrite map_map. reflexivity.
Qed.

Lemma view_mps tab : map m_mp (pr_mounts (view tab)) = map k_mp tab.
Proof.
  pose proof (view_mcore tab) as H. apply (f_equal (map (fun x => fst (fst x)))) in H.
  rewrite !map_map in H. exact H.
Qed.

Definition kmounts0 (tab : list kline) (d : bytes) : list bytes :=
  sort (filter (at_or_below d) (map k_mp tab)).

Lemma mounts_view tab d : mounts_at_or_below (view tab) d = kmounts0 tab d.
Proof. unfold mounts_at_or_below, kmounts0. now rewrite view_mps. Qed.

Definition lows_of (ms : list mount) : list bytes :=
  map m_source (filter (fun m => beq (m_fstype m) overlay) ms).
Definition overlain0 (tab : list kline) (d : bytes) : bool :=
  existsb (fun k => beq (k_fstype k) overlay && beq (lower_of k) d) tab.

Lemma memb_lows_core ms d :
  memb d (lows_of ms) = existsb (fun x => beq (snd (fst x)) overlay && beq (snd x) d) (map mcore ms).
Proof.
  unfold lows_of, memb. induction ms as [|m ms IH]; cbn [filter map existsb]; [reflexivity|].
  unfold mcore at 1. cbn [fst snd]. destruct (beq (m_fstype m) overlay); cbn [map existsb andb].
  - rewrite IH. now rewrite (beq_sym d).
  - exact IH.
Qed.

Lemma overlain_view tab d : memb d (lows_of (pr_mounts (view tab))) = overlain0 tab d.
Proof.
  rewrite memb_lows_core, view_mcore. unfold overlain0. induction tab as [|k tab IH]; cbn [map existsb]; [reflexivity|].
  rewrite IH. f_equal. unfold kcore. cbn [fst snd]. destruct (beq (k_fstype k) overlay); reflexivity.
Qed.

(* ------------------------------------------------------------------ layer maps *)
Lemma lm_get_name m n l : lm_get m n = Some l -> l_name l = n /\ In l m.
Proof.
  induction m as [|x m IH]; cbn; [discriminate|]. destruct (beq (l_name x) n) eqn:E.
  - intros H. injection H as <-. split; [now apply beq_true|now left].
  - intros H. destruct (IH H). split; auto.
Qed.
Lemma lm_get_none m n : lm_get m n = None -> forall x, In x m -> l_name x <> n.
Proof.
  induction m as [|x m IH]; cbn; [intros _ y []|]. destruct (beq (l_name x) n) eqn:E; [discriminate|].
  intros H y [<-|Hy]; [now apply beq_false|auto].
Qed.
Lemma lm_get_in m x : NoDup (map l_name m) -> In x m -> lm_get m (l_name x) = Some x.
Proof.
  induction m as [|y m IH]; cbn; [intros _ []|]. intros ND [->|Hx].
  - now rewrite beq_refl.
  - inversion ND as [|? ? Hn ND']; subst. destruct (beq (l_name y) (l_name x)) eqn:E; [|auto].
    apply beq_true in E. exfalso. apply Hn. rewrite E. now apply in_map.
Qed.

(* pointwise relation between the layers on disk and the layer map after an update of one name *)
Lemma forall2_lm_set (R R' : layer -> layer -> Prop) m M n l l' :
  Forall2 R m M -> (forall x y, R x y -> l_name y = l_name x) ->
  NoDup (map l_name m) -> lm_get M n = Some l -> l_name l' = n ->
  (forall x, l_name x = n -> R x l -> R' x l') ->
  (forall x y, l_name x <> n -> R x y -> R' x y) ->
  Forall2 R' m (lm_set M l').
Proof.
  intros HF Hn ND Hg Hl' Hnew Hold. revert ND Hg. induction HF as [|x y m M Hxy HF IH]; intros ND Hg.
  - discriminate.
  - cbn in Hg |- *. rewrite Hl'. inversion ND as [|? ? Hnot ND']; subst.
    destruct (beq (l_name y) (l_name l')) eqn:E.
    + injection Hg as ->. apply beq_true in E. constructor.
      * apply Hnew; [rewrite <- (Hn _ _ Hxy); exact E|exact Hxy].
      * clear IH. assert (Hall : forall z, In z m -> l_name z <> l_name l').
        { intros z Hz Ez. apply Hnot. rewrite <- (Hn _ _ Hxy), E, <- Ez. now apply in_map. }
        clear -HF Hall Hold. induction HF as [|a b0 m M Hab HF IH]; constructor.
        -- apply Hold; [apply Hall; now left|exact Hab].
        -- apply IH. intros z Hz. apply Hall. now right.
    + constructor.
      * apply Hold; [|exact Hxy]. apply beq_false in E. rewrite <- (Hn _ _ Hxy). exact E.
      * apply IH; assumption.
Qed.

Lemma forall2_get (R : layer -> layer -> Prop) m M n x :
  Forall2 R m M -> (forall a b0, R a b0 -> l_name b0 = l_name a) ->
  lm_get m n = Some x -> exists l, lm_get M n = Some l /\ R x l.
Proof.
  intros HF Hn. induction HF as [|a b0 m M Hab HF IH]; cbn; [discriminate|].
  rewrite (Hn _ _ Hab). destruct (beq (l_name a) n); [|exact IH].
  intros H. injection H as <-. eauto.
Qed.
Lemma forall2_get_none (R : layer -> layer -> Prop) m M n :
  Forall2 R m M -> (forall a b0, R a b0 -> l_name b0 = l_name a) ->
  lm_get m n = None -> lm_get M n = None.
Proof.
  intros HF Hn. induction HF as [|a b0 m M Hab HF IH]; cbn; [reflexivity|].
  rewrite (Hn _ _ Hab). destruct (beq (l_name a) n); [discriminate|exact IH].
Qed.

(* ------------------------------------------------------------------ find_layerstate only sets the state *)
Definition lfields (l : layer) :=
  (l_name l, l_base l, l_mounts l, l_exports l, l_path l, l_mbusy l, l_nmbusy l, l_overlain l, l_chroot l, l_kmounts l).

Lemma find_layerstate_fields c f ld l :
  lfields (find_layerstate c f ld l)
  = lfields (set_kmounts l (mounts_at_or_below (ld_probe ld) (build_path c l))).
Proof.
  unfold find_layerstate. cbv zeta.
  repeat match goal with
  | |- context [match ?X with _ => _ end] =>
    lazymatch X with
    | fold_left _ _ _ => destruct X
    | context [match _ with _ => _ end] => fail
    | _ => destruct X
    end
  end; reflexivity.
Qed.

(* ------------------------------------------------------------------ layers as loaded from disk *)
Definition fresh (c : cfgT) (x : layer) : Prop :=
  l_kmounts x = [] /\ l_mbusy x = false /\ l_nmbusy x = false
  /\ (l_state x = st_empty \/ l_state x = st_error)
  /\ legal_name (l_name x) = true /\ l_path x = layer_path c (l_name x).

Lemma read_layer_files_fresh c f : Forall (fresh c) (read_layer_files c f).
Proof.
  unfold read_layer_files. induction (sort (children f (c_layers c))) as [|n ns IH]; cbn [fold_right]; [constructor|].
  destruct (legal_name n) eqn:En; [|exact IH].
  destruct (load_layer c f n) as [l|] eqn:El; [|exact IH].
  constructor; [|exact IH]. unfold load_layer in El.
  destruct (if is_file f _ then _ else None) as [content|]; [|discriminate].
  injection El as <-. unfold fresh. cbn. repeat split; auto.
  destruct (lf_errors (read_layerfile content)); auto.
Qed.

(* ------------------------------------------------------------------ normalizeOrder *)
Lemma keyed_insert_perm x l : Permutation (keyed_insert x l) (x :: l).
Proof.
  induction l as [|y r IH]; cbn; [reflexivity|]. destruct (ltb (fst y) (fst x)); [|reflexivity].
  rewrite IH. apply perm_swap.
Qed.
Lemma keyed_sort_perm l : Permutation (fold_right keyed_insert [] l) l.
Proof. induction l as [|x l IH]; cbn; [constructor|]. rewrite keyed_insert_perm. now constructor. Qed.

Definition key_of (m : lmap) (l : layer) : option (bytes * bytes) :=
  match sort_key (S (length m)) m l (l_name l) with Some k => Some (k, l_name l) | None => None end.

Lemma normalize_order_unfold m :
  normalize_order m =
  if forallb (fun x => match x with Some _ => true | None => false end) (map (key_of m) m)
  then Some (map snd (fold_right keyed_insert []
               (flat_map (fun x => match x with Some kv => [kv] | None => [] end) (map (key_of m) m))))
  else None.
Proof. reflexivity. Qed.

Lemma keyed_names (g : layer -> option (bytes * bytes)) (m : lmap) :
  (forall l kv, g l = Some kv -> snd kv = l_name l) ->
  forallb (fun x => match x with Some _ => true | None => false end) (map g m) = true ->
  map snd (flat_map (fun x => match x with Some kv => [kv] | None => [] end) (map g m)) = map l_name m.
Proof.
  intros Hg. induction m as [|l m IH]; cbn; [reflexivity|]. destruct (g l) as [kv|] eqn:E; [|discriminate].
  intros H. cbn. rewrite (Hg _ _ E). f_equal. now apply IH.
Qed.

Lemma normalize_perm m o : normalize_order m = Some o -> Permutation o (map l_name m).
Proof.
  rewrite normalize_order_unfold. destruct (forallb _ _) eqn:E; [|discriminate]. intros H. injection H as <-.
  rewrite (Permutation_map snd (keyed_sort_perm _)). rewrite (keyed_names (key_of m)); [reflexivity| |exact E].
  intros l kv. unfold key_of. destruct (sort_key _ _ _ _); [|discriminate]. intros H. injection H as <-. reflexivity.
Qed.

Lemma chain_sort_key m : forall f vis l g s,
  chain_ok f m vis (l_base l) = true -> NoDup vis -> incl vis (map l_name m) ->
  (length m < g + length vis)%nat -> sort_key g m l s <> None.
Proof.
  induction f as [|f IH]; intros vis l g s Hc ND Hin Hlen.
  - assert (Hg : (0 < g)%nat).
    { pose proof (NoDup_incl_length ND Hin) as L. rewrite map_length in L. lia. }
    destruct g as [|g]; [lia|]. cbn [chain_ok] in Hc. cbn [sort_key].
    destruct (l_base l); [discriminate|discriminate].
  - assert (Hg : (0 < g)%nat).
    { pose proof (NoDup_incl_length ND Hin) as L. rewrite map_length in L. lia. }
    destruct g as [|g]; [lia|]. cbn [chain_ok] in Hc. cbn [sort_key].
    destruct (l_base l) as [|a r] eqn:Eb; [discriminate|].
    destruct (lm_get m (a :: r)) as [p|] eqn:Ep; [|discriminate].
    destruct (memb (l_name p) vis) eqn:Ev; [discriminate|].
    apply (IH (l_name p :: vis)).
    + exact Hc.
    + constructor; [now apply memb_false|exact ND].
    + intros z [<-|Hz]; [|now apply Hin]. apply in_map. now apply (lm_get_name _ _ _ Ep).
    + cbn [length]. lia.
Qed.

Lemma normalize_total m : check_inheritance m = true -> normalize_order m <> None.
Proof.
  intros Hc. rewrite normalize_order_unfold.
  assert (E : forallb (fun x => match x with Some _ => true | None => false end) (map (key_of m) m) = true).
  { apply forallb_forall. intros x Hx. apply in_map_iff in Hx as (l & <- & Hl).
    unfold check_inheritance in Hc. rewrite forallb_forall in Hc. specialize (Hc l Hl).
    unfold key_of. destruct (sort_key (S (length m)) m l (l_name l)) eqn:Ek; [reflexivity|]. exfalso.
    revert Ek. apply (chain_sort_key m (S (length m)) [l_name l]).
    - exact Hc.
    - constructor; [intros []|constructor].
    - intros z [<-|[]]. now apply in_map.
    - cbn. lia. }
  rewrite E. discriminate.
Qed.

(* ------------------------------------------------------------------ refresh_mounts, probe_all *)
Definition refresh_pure (c : cfgT) (tab : list kline) (ld : ldefs) : ldefs :=
  MkLD (map (fun l => set_overlain l (overlain0 tab (build_path c l))) (ld_map ld)) (ld_order ld) (view tab).

Lemma refresh_mounts_spec c ld s : wf_table (ks_tab (w_ks (s_w s))) = true ->
  refresh_mounts c ld s = (Ret (refresh_pure c (ks_tab (w_ks (s_w s))) ld), s).
Proof.
  intros Hwf. unfold refresh_mounts, bind, get_ks, probe_of. rewrite probe_render by assumption.
  set (tab := ks_tab (w_ks (s_w s))).
  change (view tab) with (POk (pr_mounts (view tab)) (pr_devs (view tab))). cbv iota. unfold ret. f_equal. f_equal.
  unfold refresh_pure. f_equal. apply map_ext. intros l. f_equal.
  exact (overlain_view tab (build_path c l)).
Qed.

Definition probe_pure (c : cfgT) (um : users_map) (f : fsT) (tab : list kline) (m : lmap) (o : list bytes) : ldefs :=
  fold_left (probe_layer c f um) o (refresh_pure c tab (MkLD m o (POk [] []))).

Lemma get_layers_spec c um s : wf_table (ks_tab (w_ks (s_w s))) = true ->
  get_layers c um s =
  let f := w_fs (s_w s) in
  let m := read_layer_files c f in
  if negb (is_dir f (c_layers c)) then (Fail, s)
  else if negb (check_inheritance m) then (Fail, s)
  else match normalize_order m with
       | None => (Diverged, s)
       | Some o => (Ret (probe_pure c um f (ks_tab (w_ks (s_w s))) m o), s)
       end.
Proof.
  intros Hwf. unfold get_layers, find_layers, bind at 1 2, get_fs. cbv zeta.
  destruct (negb (is_dir (w_fs (s_w s)) (c_layers c))); [reflexivity|].
  destruct (negb (check_inheritance _)); [reflexivity|].
  destruct (normalize_order _) as [o|]; [|reflexivity].
  unfold ret at 1. unfold probe_all, bind. rewrite refresh_mounts_spec by assumption.
  unfold get_fs, ret. reflexivity.
Qed.

Definition dirs3 (c : cfgT) : list bytes := [c_buildroot c; c_work c; c_upper c].
Definition mb0 (c : cfgT) (us : list user) : bool :=
  existsb (fun u => existsb (fun d => same_dir_or_desc (u_file u) d) (dirs3 c)) us.
Definition nb0 (c : cfgT) (us : list user) : bool :=
  existsb (fun u => existsb (fun d => negb (same_dir_or_desc (u_file u) d)) (dirs3 c)) us.

Definition same_static (x l : layer) : Prop :=
  l_name l = l_name x /\ l_base l = l_base x /\ l_path l = l_path x
  /\ l_mounts l = l_mounts x /\ l_exports l = l_exports x.

Definition flags_known (c : cfgT) (tab : list kline) (um : users_map) (x l : layer) : Prop :=
  l_kmounts l = kmounts0 tab (build_path c x)
  /\ l_mbusy l = mb0 c (users_of um (l_name x)) /\ l_nmbusy l = nb0 c (users_of um (l_name x)).
Definition probed (c : cfgT) (tab : list kline) (um : users_map) (S : list bytes) (x l : layer) : Prop :=
  same_static x l /\ l_overlain l = overlain0 tab (build_path c x)
  /\ (In (l_name x) S -> flags_known c tab um x l).

Lemma probed_name c tab um S x l : probed c tab um S x l -> l_name l = l_name x.
Proof. intros [[H _] _]. exact H. Qed.

Lemma build_path_static c x l : l_path l = l_path x -> build_path c l = build_path c x.
Proof. intros H. unfold build_path. now rewrite H. Qed.

Lemma lm_set_same M l : lm_get M (l_name l) = Some l -> lm_set M l = M.
Proof.
  induction M as [|y M IH]; cbn; [discriminate|]. destruct (beq (l_name y) (l_name l)).
  - intros H. now injection H as ->.
  - intros H. now rewrite IH.
Qed.

Lemma probed_add_other c tab um S n x l : l_name x <> n -> probed c tab um S x l -> probed c tab um (n :: S) x l.
Proof.
  intros Hn (Hs & Ho & Hk). split; [exact Hs|]. split; [exact Ho|].
  intros [E|Hin]; [congruence|auto].
Qed.

(* every layer, in error state or not, gets its users classified and its mounts collected *)
Lemma probe_layer_inv c f um tab S m M o n :
  NoDup (map l_name m) -> Forall2 (probed c tab um S) m M ->
  let ld' := probe_layer c f um (MkLD M o (view tab)) n in
  Forall2 (probed c tab um (n :: S)) m (ld_map ld') /\ ld_order ld' = o /\ ld_probe ld' = view tab.
Proof.
  intros ND HF. unfold probe_layer. cbn [ld_map ld_order ld_probe].
  destruct (lm_get M n) as [l|] eqn:Eg.
  2:{ cbn. split; [|auto].
      assert (Hall : forall x, In x m -> l_name x <> n).
      { clear -HF Eg. induction HF as [|x y m M Hxy HF IH]; [intros x []|].
        cbn in Eg. rewrite (probed_name _ _ _ _ _ _ Hxy) in Eg.
        destruct (beq (l_name x) n) eqn:E; [discriminate|]. intros z [<-|Hz]; [now apply beq_false|auto]. }
      clear -HF Hall. induction HF as [|x y m M Hxy HF IH]; constructor.
      - apply probed_add_other; [apply Hall; now left|exact Hxy].
      - apply IH. intros z Hz. apply Hall. now right. }
  destruct (lm_get_name _ _ _ Eg) as [Hln _].
  set (l1 := classify_users c l (users_of um n)).
  set (l2 := set_kmounts l1 (mounts_at_or_below (view tab) (build_path c l1))).
  match goal with |- context [lm_set M ?L] => set (l' := L) end.
  assert (Hf : lfields l' = lfields l2).
  { unfold l'. destruct (l_state l2 =? st_error); [reflexivity|].
    destruct (negb (is_dir f (build_path c l2))); [reflexivity|].
    destruct (_ && _); [reflexivity|]. rewrite find_layerstate_fields. reflexivity. }
  unfold lfields in Hf.
  injection Hf as F1 F2 F3 F4 F5 F6 F7 F8 F9 F10.
  change (l_name l2) with (l_name l) in F1. change (l_base l2) with (l_base l) in F2.
  change (l_mounts l2) with (l_mounts l) in F3. change (l_exports l2) with (l_exports l) in F4.
  change (l_path l2) with (l_path l) in F5.
  change (l_mbusy l2) with (mb0 c (users_of um n)) in F6.
  change (l_nmbusy l2) with (nb0 c (users_of um n)) in F7.
  change (l_overlain l2) with (l_overlain l) in F8.
  change (l_kmounts l2) with (mounts_at_or_below (view tab) (build_path c l)) in F10.
  cbn [ld_map ld_order ld_probe]. split; [|auto].
  eapply forall2_lm_set; eauto using probed_name, probed_add_other.
  { now rewrite F1. }
  intros x Hx ((S1 & S2 & S3 & S4 & S5) & Ho & Hk).
  split. { unfold same_static. rewrite F1, F2, F5, F3, F4. auto. }
  split. { now rewrite F8. }
  intros _. unfold flags_known. rewrite F10, F6, F7. rewrite mounts_view.
  change (build_path c l1) with (build_path c l).
  rewrite (build_path_static c x l S3). rewrite Hx. unfold mb0, nb0, dirs3. cbn [existsb]. auto.
Qed.

Lemma probe_fold_inv c f um tab m : NoDup (map l_name m) -> forall o S M o0,
  Forall2 (probed c tab um S) m M ->
  let ld' := fold_left (probe_layer c f um) o (MkLD M o0 (view tab)) in
  Forall2 (probed c tab um (rev o ++ S)) m (ld_map ld') /\ ld_order ld' = o0 /\ ld_probe ld' = view tab.
Proof.
  intros ND. induction o as [|n o IH]; intros S M o0 HF.
  - cbn. auto.
  - cbn [fold_left].
    destruct (probe_layer_inv c f um tab S m M o0 n ND HF) as (H1 & H2 & H3).
    destruct (probe_layer c f um (MkLD M o0 (view tab)) n) as [M1 o1 p1]. cbn in H1, H2, H3. subst o1 p1.
    destruct (IH (n :: S) M1 o0 H1) as (K1 & K2 & K3). split; [|auto].
    cbn [rev]. rewrite <- app_assoc. exact K1.
Qed.

(* what get_layers knows about a layer on disk *)
Definition known (c : cfgT) (tab : list kline) (um : users_map) (x l : layer) : Prop :=
  same_static x l /\ l_overlain l = overlain0 tab (build_path c x) /\ flags_known c tab um x l.

Lemma known_name c tab um x l : known c tab um x l -> l_name l = l_name x.
Proof. intros [[H _] _]. exact H. Qed.

Lemma forall2_impl_in {A B} (R R' : A -> B -> Prop) l1 l2 :
  Forall2 R l1 l2 -> (forall x y, In x l1 -> R x y -> R' x y) -> Forall2 R' l1 l2.
Proof.
  induction 1 as [|x y l1 l2 Hxy HF IH]; intros H; constructor.
  - apply H; [now left|exact Hxy].
  - apply IH. intros a b0 Ha. apply H. now right.
Qed.

Lemma probe_pure_inv c um f tab m o : NoDup (map l_name m) -> Forall (fresh c) m ->
  (forall x, In x m -> In (l_name x) o) ->
  Forall2 (known c tab um) m (ld_map (probe_pure c um f tab m o))
  /\ ld_order (probe_pure c um f tab m o) = o /\ ld_probe (probe_pure c um f tab m o) = view tab.
Proof.
  intros ND Hfresh Hall. unfold probe_pure, refresh_pure. cbn [ld_map ld_order].
  assert (H0 : Forall2 (probed c tab um []) m (map (fun l => set_overlain l (overlain0 tab (build_path c l))) m)).
  { clear -Hfresh. induction Hfresh as [|x m Hx _ IH]; cbn [map]; constructor; [|exact IH].
    split; [repeat split|]. split; [reflexivity|]. intros []. }
  destruct (probe_fold_inv c f um tab m ND o [] _ o H0) as (K1 & K2 & K3). split; [|auto].
  eapply forall2_impl_in; [exact K1|]. intros x l Hx (Hs & Ho & Hk).
  split; [exact Hs|]. split; [exact Ho|].
  apply Hk. apply in_or_app. left. rewrite <- in_rev. now apply Hall.
Qed.

(* ------------------------------------------------------------------ layer names are not empty *)
Lemma lss_last s c : c <> sl -> forall cur acc found,
  snd (last_slash_split (s ++ [c]) cur acc found) <> [].
Proof.
  intros Hc. induction s as [|x s IH]; intros cur acc found; cbn [app last_slash_split].
  - destruct (Ascii.eqb c sl) eqn:E; [apply Ascii.eqb_eq in E; contradiction|].
    cbn. intros H. apply (f_equal (@length _)) in H. rewrite app_length in H. cbn in H. lia.
  - destruct (Ascii.eqb x sl); apply IH.
Qed.

Lemma strip_head r : match strip_trailing_slashes_rev r with [] => True | ch :: _ => ch <> sl end.
Proof.
  induction r as [|ch r IH]; cbn [strip_trailing_slashes_rev]; [exact I|]. destruct (Ascii.eqb ch sl) eqn:E; [exact IH|].
  now apply Ascii.eqb_neq.
Qed.

Lemma pathbase_nonempty p : pathbase p <> [].
Proof.
  unfold pathbase. destruct p as [|a p]; [discriminate|].
  pose proof (strip_head (rev (a :: p))) as H.
  destruct (strip_trailing_slashes_rev (rev (a :: p))) as [|ch r]; [discriminate|]. cbn [rev].
  destruct (rev r ++ [ch]) eqn:E; [destruct (rev r); discriminate|]. rewrite <- E.
  unfold pathsplit. pose proof (lss_last (rev r) ch H [] [] false) as L.
  destruct (last_slash_split (rev r ++ [ch]) [] [] false) as [[fd d] fl]. exact L.
Qed.

Lemma read_layer_files_names c f x : In x (read_layer_files c f) -> In (l_name x) (children f (c_layers c)).
Proof.
  unfold read_layer_files. intros H. apply (proj1 (sort_in _ _)).
  induction (sort (children f (c_layers c))) as [|n ns IH]; cbn [fold_right] in H; [destruct H|].
  destruct (legal_name n); [|right; auto].
  destruct (load_layer c f n) as [l|] eqn:El; [|right; auto].
  destruct H as [<-|H]; [|right; auto]. left. unfold load_layer in El.
  destruct (if is_file f _ then _ else None); [|discriminate]. injection El as <-. reflexivity.
Qed.

Lemma layer_name_nonempty c f x : In x (read_layer_files c f) -> l_name x <> [].
Proof.
  intros H. apply read_layer_files_names in H. unfold children in H. apply in_map_iff in H as (e & <- & _).
  apply pathbase_nonempty.
Qed.
