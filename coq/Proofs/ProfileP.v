(* The @system set: the model of ReadSystemSet computes the reference stacking of the profile
   chain (parents first, "*atom" adds, "-*atom" removes, repeated atoms harmless). *)
From LC Require Import Lib.Bytes Lib.Lex Lib.Fields Lib.PathM Model.Resolve Model.Profile Cases.C05
  Proofs.ResolveBasics.
Import C05.

Section Sys.
Variable fs : pfs.
Variable d : dict.

Lemma read_packages_app a : forall b u,
  read_packages d (a ++ b) u = match read_packages d a u with ROk u' => read_packages d b u' | e => e end.
Proof.
  induction a as [|l r IH]; intros b u; cbn [app read_packages]; [reflexivity|].
  destruct l as [|c t]; [apply IH|].
  destruct (Nat.ltb 2 (length (c :: t)) && Ascii.eqb c (nb 42)).
  - destruct (ued_add d t u); auto.
  - destruct t as [|c2 t2]; [apply IH|].
    destruct (Nat.ltb 3 (length (c :: c2 :: t2)) && Ascii.eqb c (nb 45) && Ascii.eqb c2 (nb 42)); apply IH.
Qed.
Lemma read_packages_total ls : forall u, read_packages d ls u = RFailed \/ exists u', read_packages d ls u = ROk u'.
Proof.
  induction ls as [|l r IH]; intros u; cbn [read_packages]; [right; eauto|].
  destruct l as [|c t]; [apply IH|].
  destruct (Nat.ltb 2 (length (c :: t)) && Ascii.eqb c (nb 42)).
  - unfold ued_add. destruct (memb t (map fst u)); [apply IH|].
    destruct (dict_get d t) as [[a|]|]; auto.
  - destruct t as [|c2 t2]; [apply IH|].
    destruct (Nat.ltb 3 (length (c :: c2 :: t2)) && Ascii.eqb c (nb 45) && Ascii.eqb c2 (nb 42)); apply IH.
Qed.

(* the traversal of the model is the traversal of the reference *)
Lemma read_dir_lines f : forall dir,
  match prof_lines fs f dir with
  | Some ls => forall u, read_dir fs d f dir u = read_packages d ls u
  | None => forall u, read_dir fs d f dir u = RFailed \/ read_dir fs d f dir u = RDiverge
  end.
Proof.
  induction f as [|f IH]; intros dir; cbn [prof_lines read_dir]; [auto|].
  destruct (is_dir fs dir); cbn [negb]; [|auto].
  destruct (parent_of fs dir) as [ps|].
  - destruct (realpath fs dir) as [q|]; [|auto].
    set (go := fix go (ps : list bytes) : option (list bytes) :=
                 match ps with
                 | [] => Some []
                 | l :: r => if isnil l then go r
                             else match prof_lines fs f (pathjoin2 q l), go r with
                                  | Some a, Some b => Some (a ++ b)
                                  | _, _ => None
                                  end
                 end).
    set (parents := fix parents (ls : list bytes) (u : ued) {struct ls} : res ued :=
                      match ls with
                      | [] => ROk u
                      | l :: r => if isnil l then parents r u
                                  else match read_dir fs d f (pathjoin2 q l) u with
                                       | ROk u' => parents r u'
                                       | e => e
                                       end
                      end).
    assert (P : match go ps with
                | Some ls => forall u, parents ps u = read_packages d ls u
                | None => forall u, parents ps u = RFailed \/ parents ps u = RDiverge
                end).
    { induction ps as [|l r IHr]; cbn; [reflexivity|]. destruct (isnil l); [exact IHr|].
      specialize (IH (pathjoin2 q l)). destruct (prof_lines fs f (pathjoin2 q l)) as [a|].
      - destruct (go r) as [b|].
        + intros u. rewrite IH, read_packages_app. destruct (read_packages d a u); auto.
        + intros u. rewrite IH. destruct (read_packages_total a u) as [->|[u' ->]]; auto.
      - intros u. destruct (IH u) as [->| ->]; auto. }
    destruct (go ps) as [inh|].
    + intros u. rewrite P. destruct (packages_of fs dir) as [own|].
      * rewrite read_packages_app. destruct (read_packages d inh u); auto.
      * rewrite app_nil_r. destruct (read_packages d inh u); auto.
    + intros u. destruct (P u) as [->| ->]; auto.
  - intros u. destruct (packages_of fs dir); reflexivity.
Qed.

(* ---- stacking: the model's list of entered atoms follows the reference fold *)
Definition parses (s : bytes) : bool := match dict_get d s with Some (Some _) => true | _ => false end.
Definition ued_ok (u : ued) : Prop := forall s a, In (s, a) u -> dict_get d s = Some (Some a).

Lemma ued_ok_parses u s : ued_ok u -> memb s (map fst u) = true -> parses s = true.
Proof.
  intros Hu H. apply memb_in in H. apply in_map_iff in H as ([s' a] & E & Hin). cbn in E. subst s'.
  unfold parses. now rewrite (Hu s a Hin).
Qed.

Lemma ued_add_ok s u : ued_ok u ->
  match ued_add d s u with
  | ROk u' => ued_ok u' /\ map fst u' = (if memb s (map fst u) then map fst u else map fst u ++ [s])
              /\ parses s = true
  | RFailed => parses s = false
  | _ => False
  end.
Proof.
  intros Hu. unfold ued_add. destruct (memb s (map fst u)) eqn:E.
  - split; auto. split; auto. now apply ued_ok_parses with (u := u).
  - unfold parses. destruct (dict_get d s) as [[a|]|] eqn:G; auto. split; [|split; auto].
    + intros s' a' Hin. apply in_app_iff in Hin as [Hin|[Hin|[]]]; auto. now injection Hin as <- <-.
    + rewrite map_app. reflexivity.
Qed.

Lemma remove_map s u : map fst (ued_remove s u) = filter (fun x => negb (beq x s)) (map fst u).
Proof.
  unfold ued_remove. induction u as [|[k v] r IH]; cbn [filter map fst]; auto.
  destruct (beq k s); cbn [negb map fst]; now rewrite IH.
Qed.

Lemma star_atoms_cons l r :
  star_atoms (l :: r) = (match l with c :: a => if Ascii.eqb c (nb 42) then [a] else [] | [] => [] end) ++ star_atoms r.
Proof. reflexivity. Qed.

Lemma read_packages_stack ls : Forall (fun l => wf_line l = true) ls -> forall u, ued_ok u ->
  match read_packages d ls u with
  | ROk u' => ued_ok u' /\ map fst u' = fold_left stack_line ls (map fst u)
              /\ forallb parses (star_atoms ls) = true
  | RFailed => forallb parses (star_atoms ls) = false
  | _ => False
  end.
Proof.
  induction 1 as [|l r Hl _ IH]; intros u Hu; [cbn; auto|].
  rewrite star_atoms_cons. cbn [read_packages fold_left].
  - destruct l as [|c t]; [apply IH; auto|].
    unfold wf_line in Hl. cbn [stack_line]. destruct (Ascii.eqb c (nb 42)) eqn:E1.
    + apply andb_true_iff in Hl as [_ Hl]. rewrite Hl. cbn [andb app].
      pose proof (ued_add_ok t u Hu) as A. destruct (ued_add d t u) as [u1| | |]; try contradiction.
      * destruct A as (A1 & A2 & A3). specialize (IH u1 A1).
        destruct (read_packages d r u1) as [u'| | |]; try contradiction.
        -- destruct IH as (I1 & I2 & I3). split; auto. rewrite I2, A2. split; [reflexivity|].
           cbn [forallb]. now rewrite A3, I3.
        -- cbn [forallb]. rewrite IH. apply andb_false_r.
      * cbn [forallb]. now rewrite A.
    + rewrite andb_false_r. cbn [app]. destruct t as [|c2 t2].
      * destruct (Ascii.eqb c (nb 45)); apply IH; auto.
      * destruct (Ascii.eqb c (nb 45)) eqn:E2.
        -- destruct (Ascii.eqb c2 (nb 42)) eqn:E3.
           ++ apply andb_true_iff in Hl as [_ Hl]. cbn [negb orb] in Hl. rewrite Hl. cbn [andb].
              specialize (IH (ued_remove t2 u)). rewrite remove_map in IH.
              assert (Hr : ued_ok (ued_remove t2 u)).
              { intros s a Hin. apply filter_In in Hin as [Hin _]. auto. }
              exact (IH Hr).
           ++ rewrite andb_false_r. apply IH; auto.
        -- rewrite andb_false_r. cbn [andb]. apply IH; auto.
Qed.

Lemma add_atoms_stack ws : forall u, ued_ok u ->
  match add_atoms d ws u with
  | ROk u' => ued_ok u' /\ map fst u' = fold_left add_new ws (map fst u) /\ forallb parses ws = true
  | RFailed => forallb parses ws = false
  | _ => False
  end.
Proof.
  induction ws as [|w r IH]; intros u Hu; cbn [add_atoms fold_left forallb]; [auto|].
  pose proof (ued_add_ok w u Hu) as A. destruct (ued_add d w u) as [u1| | |]; try contradiction.
  - destruct A as (A1 & A2 & A3). specialize (IH u1 A1).
    destruct (add_atoms d r u1) as [u'| | |]; try contradiction.
    + destruct IH as (I1 & I2 & I3). split; auto. unfold add_new at 2. rewrite I2, A2, A3, I3. auto.
    + rewrite IH. apply andb_false_r.
  - now rewrite A.
Qed.

Lemma parse_all_ok u : ued_ok u -> parse_all d (map fst u) = Some (map snd u).
Proof.
  intros Hu. induction u as [|[s a] r IH]; cbn; [reflexivity|].
  rewrite (Hu s a (or_introl eq_refl)), IH; auto. intros s' a' H. apply Hu. now right.
Qed.
Lemma parse_all_app a b : parse_all d (a ++ b) =
  match parse_all d a, parse_all d b with Some x, Some y => Some (x ++ y) | _, _ => None end.
Proof.
  induction a as [|s r IH]; cbn.
  - destruct (parse_all d b); reflexivity.
  - rewrite IH. destruct (dict_get d s) as [[u|]|]; auto. destruct (parse_all d r), (parse_all d b); auto.
Qed.
Lemma parse_all_parses l : (exists us, parse_all d l = Some us) <-> forallb parses l = true.
Proof.
  induction l as [|s r IH]; cbn.
  - split; eauto.
  - unfold parses at 1. destruct (dict_get d s) as [[u|]|]; cbn.
    + rewrite <- IH. split; intros [us H].
      * destruct (parse_all d r); [eauto|discriminate].
      * rewrite H. eauto.
    + split; [intros [us H]; discriminate|discriminate].
    + split; [intros [us H]; discriminate|discriminate].
Qed.
End Sys.
