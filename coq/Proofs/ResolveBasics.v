(* Basic facts for the resolver proofs: membership tests, the induction principle for
   dependency expressions, unfolding equations of the resolver, AtomSet representation. *)
From LC Require Import Lib.Bytes Lib.Lex Lib.Fields Model.Resolve.
From Coq Require Import Sorting.Sorted Permutation.

(* ---- membership tests *)
Lemma memN_in i l : memN i l = true <-> In i l.
Proof.
  unfold memN. rewrite existsb_exists. split.
  - intros (y & H & E). apply N.eqb_eq in E. now subst.
  - intros H. exists i. split; auto. apply N.eqb_refl.
Qed.
Lemma memN_false i l : memN i l = false <-> ~ In i l.
Proof.
  split.
  - intros H Hin. apply memN_in in Hin. congruence.
  - intros H. destruct (memN i l) eqn:E; auto. apply memN_in in E. contradiction.
Qed.
Lemma memb_in x l : memb x l = true <-> In x l.
Proof.
  unfold memb. rewrite existsb_exists. split.
  - intros (y & H & E). apply beq_true in E. now subst.
  - intros H. exists x. split; auto. apply beq_refl.
Qed.
Lemma memb_false x l : memb x l = false <-> ~ In x l.
Proof.
  split.
  - intros H Hin. apply memb_in in Hin. congruence.
  - intros H. destruct (memb x l) eqn:E; auto. apply memb_in in E. contradiction.
Qed.
Lemma isnil_true {A} (l : list A) : isnil l = true <-> l = [].
Proof. destruct l; cbn; split; congruence. Qed.
Lemma isnil_false {A} (l : list A) : isnil l = false <-> l <> [].
Proof. destruct l; cbn; split; congruence. Qed.

Lemma in_firstn {A} (x : A) n : forall l, In x (firstn n l) -> In x l.
Proof. induction n as [|n IH]; intros [|y l]; cbn; try tauto. intros [->|H]; auto. Qed.

Lemma filter_len {A} (f : A -> bool) (l : list A) : (length (filter f l) <= length l)%nat.
Proof. induction l as [|a l IH]; cbn; auto. destruct (f a); cbn; lia. Qed.

Lemma nodup_app {A} (a b : list A) :
  NoDup a -> NoDup b -> (forall x, In x a -> In x b -> False) -> NoDup (a ++ b).
Proof.
  induction a as [|x a IH]; cbn; intros Ha Hb Hd; auto.
  inversion Ha as [|? ? Hx Ha']; subst. constructor.
  - rewrite in_app_iff. intros [H|H]; [contradiction|]. eapply Hd; eauto.
  - apply IH; auto. intros y Hy1 Hy2. eapply Hd; eauto.
Qed.

(* ---- induction over dependency expressions (nested through lists) *)
Section DepInd.
Variable P : dep -> Prop.
Hypothesis Hatom : forall a, P (DAtom a).
Hypothesis Hgrp : forall k l, Forall P l -> P (DGrp k l).
Fixpoint dep_ind' (d : dep) : P d :=
  match d with
  | DAtom a => Hatom a
  | DGrp k l => Hgrp k l ((fix go (l : list dep) : Forall P l :=
                             match l with
                             | [] => Forall_nil P
                             | c :: r => Forall_cons c (dep_ind' c) (go r)
                             end) l)
  end.
End DepInd.

(* ---- the resolver, with the list loop named *)
Section Unfold.
Variable vdb : list pkg.
Variable inst : aset.
Variable visit : N -> gstate -> res gstate.

Fixpoint resolve_children (use : bytes -> bool) (cnd : bool) (l : list dep) (st : rstate) : res rstate :=
  match l with
  | [] => ROk st
  | c :: r => match resolve_dep inst visit use cnd c st with
              | ROk st' => resolve_children use cnd r st'
              | e => e
              end
  end.

Definition some_of (use : bytes -> bool) (l : list dep) (st : rstate) (minN maxN : nat) : res rstate :=
  match resolve_children use true l (fst st, []) with
  | ROk (g', sub) => if Nat.ltb (length sub) minN then RFailed
                     else ROk (g', snd st ++ firstn maxN sub)
  | e => e
  end.

Lemma resolve_dep_atom use cond a st :
  resolve_dep inst visit use cond (DAtom a) st = resolve_atom inst cond a st.
Proof. reflexivity. Qed.

Lemma children_fix use cnd l s :
  (fix go (cnd : bool) (l : list dep) (st : rstate) {struct l} : res rstate :=
     match l with
     | [] => ROk st
     | c :: r => match resolve_dep inst visit use cnd c st with ROk st' => go cnd r st' | e => e end
     end) cnd l s = resolve_children use cnd l s.
Proof.
  revert s. induction l as [|c r IH]; intros s; cbn; [reflexivity|].
  destruct (resolve_dep inst visit use cnd c s); auto.
Qed.

Lemma resolve_dep_grp use cond k l st :
  resolve_dep inst visit use cond (DGrp k l) st =
  match k with
  | GAll => match resolve_children use cond l st with
            | ROk (g, rs) => match each_loop visit cond rs g with
                             | ROk g' => ROk (g', rs)
                             | RFailed => RFailed | RPanic => RPanic | RDiverge => RDiverge
                             end
            | e => e
            end
  | GAny => some_of use l st 1%nat (length l)
  | GOne => some_of use l st 1%nat 1%nat
  | GMost => some_of use l st 0%nat 1%nat
  | GUse f => if use f then resolve_children use cond l st else ROk st
  | GNuse f => if use f then ROk st else resolve_children use cond l st
  end.
Proof.
  destruct k; cbn [resolve_dep]; unfold some_of; rewrite ?children_fix; reflexivity.
Qed.
End Unfold.
