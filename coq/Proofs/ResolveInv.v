(* Invariants of the resolver and their basic lemmas. *)
From LC Require Import Lib.Bytes Lib.Lex Lib.Fields Lib.PathM Model.Resolve Model.Profile Cases.Verdict Cases.C05
  Proofs.ResolveBasics Proofs.AtomSetP.
From Coq Require Import Sorting.Sorted Permutation.
Import C05.

Section Inv.
Variable vdb : list pkg.
Variable bdeps : bool.

Definition valid_id (i : N) : Prop := exists p, pkg_at vdb i = Some p.

Lemma pkg_at_lt i p : pkg_at vdb i = Some p -> (N.to_nat i < length vdb)%nat.
Proof. unfold pkg_at. intros H. apply nth_error_Some. congruence. Qed.

Lemma ids_in i : In i (ids vdb) <-> valid_id i.
Proof.
  unfold ids, valid_id, pkg_at. rewrite in_map_iff. split.
  - intros (k & <- & Hk). apply in_seq in Hk. rewrite Nat2N.id.
    destruct (nth_error vdb k) eqn:E; [eauto|]. apply nth_error_None in E. lia.
  - intros (p & Hp). exists (N.to_nat i). split; [apply N2Nat.id|].
    apply in_seq. split; [lia|]. cbn. apply nth_error_Some. congruence.
Qed.

Lemma amatch_in a i :
  In i (amatch vdb a) <-> exists p, pkg_at vdb i = Some p /\ p_pn p = a_pn a /\ In i (a_match a).
Proof.
  unfold amatch. rewrite filter_In, ids_in. split.
  - intros [(p & Hp) H]. rewrite Hp in H. apply andb_true_iff in H as [H1 H2].
    apply beq_true in H1. apply memN_in in H2. eauto.
  - intros (p & Hp & H1 & H2). split; [now exists p|]. rewrite Hp. apply andb_true_iff. split.
    + now apply beq_true.
    + now apply memN_in.
Qed.
Lemma amatch_valid a i : In i (amatch vdb a) -> valid_id i.
Proof. intros H. apply amatch_in in H as (p & Hp & _). now exists p. Qed.

(* ---- representation of AtomSets over this VDB *)
Definition slice_ok (nm : bytes) (sl : list entry) : Prop :=
  StronglySorted key_desc sl /\
  forall k i, In (k, i) sl -> exists p, pkg_at vdb i = Some p /\ p_pn p = nm /\ p_slot p = k.
Definition aset_ok (s : aset) : Prop :=
  StronglySorted name_asc s /\ forall nm sl, In (nm, sl) s -> slice_ok nm sl.
Definition aset_mem (s : aset) (i : N) : Prop := exists nm sl k, In (nm, sl) s /\ In (k, i) sl.

Hypothesis keys_nodup : forall i j p q, pkg_at vdb i = Some p -> pkg_at vdb j = Some q ->
  p_pn p = p_pn q -> p_slot p = p_slot q -> i = j.

Lemma aset_ok_nil : aset_ok [].
Proof. split; [constructor|intros ? ? []]. Qed.

Lemma slice_ok_get s nm : aset_ok s -> slice_ok nm (get_by_name s nm).
Proof.
  intros [HS HO]. destruct (get_by_name s nm) eqn:E.
  - split; [constructor|intros ? ? []].
  - rewrite <- E. apply HO. apply get_in_inv. congruence.
Qed.

Lemma aset_add_ok s j p :
  aset_ok s -> pkg_at vdb j = Some p -> ~ aset_mem s j ->
  aset_ok (aset_add s (p_pn p) (p_slot p) j) /\
  forall i, aset_mem (aset_add s (p_pn p) (p_slot p) j) i <-> i = j \/ aset_mem s i.
Proof.
  intros Hok Hp Hnm. pose proof Hok as [HS HO].
  pose proof (slice_ok_get s (p_pn p) Hok) as [SS SO].
  assert (Hfresh : ~ In (p_slot p) (map fst (get_by_name s (p_pn p)))).
  { intros Hin. apply in_map_iff in Hin as ([k i] & Ek & Hi). cbn in Ek. subst k.
    destruct (SO _ _ Hi) as (q & Hq & Hq1 & Hq2).
    assert (i = j) by (eapply keys_nodup; eauto). subst i. apply Hnm.
    exists (p_pn p), (get_by_name s (p_pn p)), (p_slot p). split; auto.
    apply get_in_inv. intro C. rewrite C in Hi. contradiction. }
  unfold aset_add. split.
  - split; [now apply upd_sorted|].
    intros nm sl Hin. apply upd_entries in Hin as [E|[Hin Hne]]; auto.
    injection E as -> ->. split.
    + now apply slice_add_keeps_sorted.
    + intros k i Hi. apply slice_add_in in Hi as [E|Hi]; auto.
      injection E as -> ->. eauto.
  - intros i. split.
    + intros (nm & sl & k & Hin & Hi). apply upd_entries in Hin as [E|[Hin Hne]]; auto.
      * injection E as -> ->. apply slice_add_in in Hi as [E|Hi]; auto.
        -- injection E as -> ->. now left.
        -- right. exists (p_pn p), (get_by_name s (p_pn p)), k. split; auto.
           apply get_in_inv. intro C. rewrite C in Hi. contradiction.
      * right. now exists nm, sl, k.
    + intros [->|(nm & sl & k & Hin & Hi)].
      * exists (p_pn p), (slice_add (p_slot p) j (get_by_name s (p_pn p))), (p_slot p). split.
        -- now apply upd_new_in.
        -- apply slice_add_in; auto.
      * destruct (list_eq_dec ascii_dec nm (p_pn p)) as [->|Hne].
        -- exists (p_pn p), (slice_add (p_slot p) j (get_by_name s (p_pn p))), k. split.
           ++ now apply upd_new_in.
           ++ apply slice_add_in; auto. right. rewrite (get_in s (p_pn p) sl); auto.
        -- exists nm, sl, k. split; auto. now apply upd_old_kept.
Qed.

Lemma aset_ids_spec s nm i : aset_ok s ->
  (In i (map snd (get_by_name s nm)) <-> aset_mem s i /\ exists p, pkg_at vdb i = Some p /\ p_pn p = nm).
Proof.
  intros Hok. pose proof Hok as [HS HO]. split.
  - intros Hin. apply in_map_iff in Hin as ([k i'] & E & Hi). cbn in E. subst i'.
    pose proof (slice_ok_get s nm Hok) as [_ SO]. destruct (SO _ _ Hi) as (p & Hp & Hp1 & _).
    split; [|eauto]. exists nm, (get_by_name s nm), k. split; auto.
    apply get_in_inv. intro C. rewrite C in Hi. contradiction.
  - intros [(nm' & sl & k & Hin & Hi) (p & Hp & Hpn)].
    destruct (HO _ _ Hin) as [_ SO]. destruct (SO _ _ Hi) as (q & Hq & Hq1 & _).
    assert (E : nm' = nm). { rewrite Hq in Hp. injection Hp as <-. congruence. }
    rewrite E in Hin. rewrite (get_in s nm sl); auto. apply in_map_iff. now exists (k, i).
Qed.

(* every name of the set has a package *)
Definition aset_nonempty (s : aset) : Prop := forall nm sl, In (nm, sl) s -> sl <> [].
Lemma slice_add_nonempty key id sl : slice_add key id sl <> [].
Proof.
  unfold slice_add. destruct (scan_slice key sl 0 None) as [[p|]|] eqn:E.
  - intro C. apply (f_equal (@length _)) in C. rewrite app_length in C. cbn in C. lia.
  - intro C. apply (f_equal (@length _)) in C. rewrite app_length in C. cbn in C. lia.
  - intro C. subst sl. cbn in E. discriminate.
Qed.
Lemma aset_add_nonempty s nm key id :
  StronglySorted name_asc s -> aset_nonempty s -> aset_nonempty (aset_add s nm key id).
Proof.
  intros HS HN nm' sl Hin. unfold aset_add in Hin. apply upd_entries in Hin as [E|[Hin _]]; auto.
  - injection E as -> ->. apply slice_add_nonempty.
  - eapply HN; eauto.
Qed.

(* ---- the sorted listing *)
Lemma sorted_atoms_in s i : aset_ok s -> (In i (sorted_atoms s) <-> aset_mem s i).
Proof.
  intros _. unfold sorted_atoms. rewrite in_flat_map. split.
  - intros ([nm sl] & Hin & Hi). cbn in Hi. apply in_rev in Hi. apply in_map_iff in Hi as ([k i'] & E & Hi).
    cbn in E. subst. now exists nm, sl, k.
  - intros (nm & sl & k & Hin & Hi). exists (nm, sl). split; auto. cbn. apply -> in_rev.
    apply in_map_iff. now exists (k, i).
Qed.

Definition klt (i j : N) : Prop := key_lt vdb i j = true.

Lemma sorted_by_spec (lt : N -> N -> bool) l :
  StronglySorted (fun a b => lt a b = true) l -> sorted_by lt l = true.
Proof.
  induction 1 as [|a l HS IH HF]; [reflexivity|]. destruct l as [|b r]; [reflexivity|].
  change (sorted_by lt (a :: b :: r)) with (lt a b && sorted_by lt (b :: r)).
  rewrite IH. inversion HF as [|? ? H1 H2]; subst. now rewrite H1.
Qed.

Lemma slice_listing_sorted nm sl : slice_ok nm sl ->
  StronglySorted klt (rev (map snd sl)) /\
  forall i, In i (rev (map snd sl)) -> exists p, pkg_at vdb i = Some p /\ p_pn p = nm.
Proof.
  intros [SS SO]. split.
  - induction sl as [|[k i] r IH]; cbn; [constructor|].
    inversion SS as [|? ? SS' HF]; subst.
    apply sorted_app.
    + apply IH; auto. intros k' i' H. apply SO. now right.
    + repeat constructor.
    + intros x y Hx [<-|[]]. apply in_rev in Hx. apply in_map_iff in Hx as ([k' x'] & E & Hx). cbn in E. subst x'.
      rewrite Forall_forall in HF. specialize (HF _ Hx). unfold key_desc in HF. cbn in HF.
      destruct (SO k i (or_introl eq_refl)) as (p & Hp & Hp1 & Hp2).
      destruct (SO k' x (or_intror Hx)) as (q & Hq & Hq1 & Hq2).
      unfold klt, key_lt. rewrite Hq, Hp. rewrite Hq1, Hp1, Hq2, Hp2. rewrite beq_refl, HF. cbn.
      apply orb_true_r.
  - intros i Hi. apply in_rev in Hi. apply in_map_iff in Hi as ([k i'] & E & Hi). cbn in E. subst.
    destruct (SO _ _ Hi) as (p & Hp & Hp1 & _). eauto.
Qed.

Lemma sorted_atoms_sorted s : aset_ok s -> StronglySorted klt (sorted_atoms s).
Proof.
  intros [HS HO]. unfold sorted_atoms. induction s as [|[nm sl] r IH]; cbn; [constructor|].
  inversion HS as [|? ? HS' HF]; subst.
  destruct (slice_listing_sorted nm sl (HO _ _ (or_introl eq_refl))) as [L1 L2].
  apply sorted_app; auto.
  - apply IH; auto. intros nm' sl' H. apply HO. now right.
  - intros x y Hx Hy. apply in_flat_map in Hy as ([nm' sl'] & Hin & Hy). cbn in Hy.
    destruct (L2 _ Hx) as (p & Hp & Hp1).
    destruct (slice_listing_sorted nm' sl' (HO _ _ (or_intror Hin))) as [_ L3].
    destruct (L3 _ Hy) as (q & Hq & Hq1).
    rewrite Forall_forall in HF. specialize (HF _ Hin). unfold name_asc in HF. cbn in HF.
    unfold klt, key_lt. rewrite Hp, Hq, Hp1, Hq1, HF. reflexivity.
Qed.

(* ---- unvisited packages: the termination measure *)
Definition unvis (A : list N) : list N := filter (fun i => negb (memN i A)) (ids vdb).
Lemma unvis_mono A A' : incl A A' -> (length (unvis A') <= length (unvis A))%nat.
Proof.
  intros H. unfold unvis. induction (ids vdb) as [|u r IH]; cbn; auto.
  destruct (memN u A') eqn:E1, (memN u A) eqn:E2; cbn; try lia.
  apply memN_in in E2. apply H in E2. apply memN_in in E2. congruence.
Qed.
Lemma ids_nodup : NoDup (ids vdb).
Proof.
  unfold ids. apply FinFun.Injective_map_NoDup; [|apply seq_NoDup].
  intros a b H. now apply Nat2N.inj.
Qed.
Lemma filter_le {A} (f g : A -> bool) (l : list A) :
  (forall x, f x = true -> g x = true) -> (length (filter f l) <= length (filter g l))%nat.
Proof.
  intros H. induction l as [|a l IH]; cbn; auto.
  destruct (f a) eqn:E; [rewrite (H _ E); cbn; lia|destruct (g a); cbn; lia].
Qed.
Lemma unvis_shrink A i : valid_id i -> ~ In i A -> (length (unvis (i :: A)) < length (unvis A))%nat.
Proof.
  intros Hv Hn. apply ids_in in Hv. unfold unvis. pose proof ids_nodup as ND.
  induction (ids vdb) as [|u r IH]; [contradiction|].
  inversion ND as [|? ? Hur NDr]; subst. cbn [filter].
  destruct Hv as [->|Hv].
  - assert (memN i (i :: A) = true) as -> by (apply memN_in; now left).
    assert (memN i A = false) as -> by now apply memN_false.
    cbn [negb length].
    assert ((length (filter (fun i0 => negb (memN i0 (i :: A))) r) <= length (filter (fun i0 => negb (memN i0 A)) r))%nat).
    { apply filter_le. intros x Hx. apply negb_true_iff in Hx. apply negb_true_iff.
      apply memN_false. apply memN_false in Hx. intro. apply Hx. now right. }
    lia.
  - specialize (IH Hv NDr).
    assert (u <> i) by (intro; subst; contradiction).
    assert (memN u (i :: A) = memN u A) as ->.
    { unfold memN. cbn. assert ((u =? i)%N = false) as -> by now apply N.eqb_neq. reflexivity. }
    destruct (memN u A); cbn [negb length]; lia.
Qed.

End Inv.
