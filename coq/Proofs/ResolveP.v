(* The resolver theorems: a successful resolution is a valid selection (Roots, Closed,
   Justified, Unblocked), a failure has a stated reason in the full closure, fuel = number of
   packages + 1 suffices (no Diverge), no Panic. *)
From LC Require Import Lib.Bytes Lib.Lex Lib.Fields Lib.PathM Model.Resolve Model.Profile Cases.Verdict Cases.C05
  Proofs.ResolveBasics Proofs.AtomSetP Proofs.ResolveInv.
From Coq Require Import Sorting.Sorted Permutation.
Import C05.

(* ---- functions of [use] only look at its values *)
Lemma active_ext use use' d : (forall f, use f = use' f) -> active use d = active use' d.
Proof.
  intros E. induction d as [a|k l IH] using dep_ind'; [reflexivity|].
  assert (F : flat_map (active use) l = flat_map (active use') l).
  { induction IH as [|c r Hc _ IHr]; cbn; [reflexivity|]. now rewrite Hc, IHr. }
  cbn. rewrite F. destruct k; try reflexivity; now rewrite E.
Qed.
Lemma compound_ext use use' d : (forall f, use f = use' f) -> compound_alt use d = compound_alt use' d.
Proof.
  intros E. induction d as [a|k l IH] using dep_ind'; [reflexivity|].
  assert (F : existsb (compound_alt use) l = existsb (compound_alt use') l).
  { induction IH as [|c r Hc _ IHr]; cbn; [reflexivity|]. now rewrite Hc, IHr. }
  cbn. rewrite F. destruct k; try reflexivity; now rewrite E.
Qed.

Lemma forallb_false_ex {X} (f : X -> bool) l : forallb f l = false -> exists x, In x l /\ f x = false.
Proof.
  induction l as [|a l IH]; cbn; [discriminate|]. destruct (f a) eqn:E; cbn.
  - intros H. destruct (IH H) as (x & H1 & H2). exists x. auto.
  - intros _. exists a. auto.
Qed.
Lemma forallb_ext_in {X} (f g : X -> bool) l : Forall (fun x => f x = g x) l -> forallb f l = forallb g l.
Proof. induction 1 as [|c r Hc _ IH]; cbn; [reflexivity|]. now rewrite Hc, IH. Qed.
Lemma existsb_ext_in {X} (f g : X -> bool) l : Forall (fun x => f x = g x) l -> existsb f l = existsb g l.
Proof. induction 1 as [|c r Hc _ IH]; cbn; [reflexivity|]. now rewrite Hc, IH. Qed.

Lemma provides_ext vdb X use use' d : (forall f, use f = use' f) -> provides vdb X use d = provides vdb X use' d.
Proof.
  intros E. induction d as [a|k l IH] using dep_ind'; [reflexivity|].
  cbn. rewrite (existsb_ext_in _ _ l IH). destruct k; try reflexivity; now rewrite E.
Qed.
Lemma ok_in_ext vdb X use use' d : (forall f, use f = use' f) -> ok_in vdb X use d = ok_in vdb X use' d.
Proof.
  intros E. induction d as [a|k l IH] using dep_ind'; [reflexivity|].
  assert (G : existsb (fun c => ok_in vdb X use c && provides vdb X use c) l =
              existsb (fun c => ok_in vdb X use' c && provides vdb X use' c) l).
  { apply existsb_ext_in. eapply Forall_impl; [|exact IH]. intros c Hc. cbn. rewrite Hc.
    now rewrite (provides_ext vdb X use use' c E). }
  cbn. rewrite (forallb_ext_in _ _ l IH). destruct k; try reflexivity; try exact G; now rewrite E.
Qed.
Lemma sat_mand_ext vdb X use use' d : (forall f, use f = use' f) -> sat_mand vdb X use d = sat_mand vdb X use' d.
Proof.
  intros E. induction d as [a|k l IH] using dep_ind'; [reflexivity|].
  assert (G : existsb (sat_alt vdb X use) l = existsb (sat_alt vdb X use') l).
  { apply existsb_ext_in. apply Forall_forall. intros c _. unfold sat_alt.
    now rewrite (ok_in_ext vdb X use use' c E), (provides_ext vdb X use use' c E). }
  cbn. rewrite (forallb_ext_in _ _ l IH). destruct k; try reflexivity; try exact G; now rewrite E.
Qed.

Section Proc.
Variable vdb : list pkg.
Notation am := (amatch vdb).

(* what the resolver has established for an expression in mandatory position:
   [A] the packages selected so far (Added or queued), [Bk] the Blocked marks *)
Definition alt_sel (A : list N) (c : dep) : bool :=
  match c with DAtom a => negb (a_blk a) && sel vdb A a | DGrp _ _ => false end.
Definition blk_done (Bk : list N) (c : dep) : bool :=
  match c with
  | DAtom a => if a_blk a then forallb (fun q => memN q Bk) (am a) else true
  | DGrp _ _ => true
  end.
Fixpoint proc (A Bk : list N) (use : bytes -> bool) (d : dep) : bool :=
  match d with
  | DAtom a => if a_blk a then forallb (fun q => memN q Bk) (am a) else all_sel vdb A a
  | DGrp k l =>
    match k with
    | GAll => forallb (proc A Bk use) l
    | GUse f => if use f then forallb (proc A Bk use) l else true
    | GNuse f => if use f then true else forallb (proc A Bk use) l
    | GAny | GOne => existsb (alt_sel A) l && forallb (blk_done Bk) l
    | GMost => forallb (blk_done Bk) l
    end
  end.

Lemma forallb_mem_incl l A : forallb (fun q => memN q A) l = true <-> incl l A.
Proof.
  rewrite forallb_forall. unfold incl. split; intros H x Hx.
  - apply memN_in. auto.
  - apply memN_in. auto.
Qed.
Lemma sel_spec A a : sel vdb A a = true <-> exists i, In i (am a) /\ In i A.
Proof.
  unfold sel. rewrite existsb_exists. split; intros (i & H1 & H2); exists i; split; auto; now apply memN_in.
Qed.
Lemma all_sel_spec A a : all_sel vdb A a = true <-> am a <> [] /\ incl (am a) A.
Proof.
  unfold all_sel. rewrite andb_true_iff, negb_true_iff, isnil_false, forallb_mem_incl. tauto.
Qed.
Lemma sel_mono A A' a : incl A A' -> sel vdb A a = true -> sel vdb A' a = true.
Proof. intros H. rewrite !sel_spec. intros (i & H1 & H2). exists i. auto. Qed.
Lemma all_sel_mono A A' a : incl A A' -> all_sel vdb A a = true -> all_sel vdb A' a = true.
Proof. intros H. rewrite !all_sel_spec. intros [H1 H2]. split; auto. eapply incl_tran; eauto. Qed.

Lemma forallb_impl {X} (f g : X -> bool) l :
  (forall x, In x l -> f x = true -> g x = true) -> forallb f l = true -> forallb g l = true.
Proof. rewrite !forallb_forall. intros H H1 x Hx. auto. Qed.
Lemma existsb_impl {X} (f g : X -> bool) l :
  (forall x, In x l -> f x = true -> g x = true) -> existsb f l = true -> existsb g l = true.
Proof. rewrite !existsb_exists. intros H (x & Hx & Hf). exists x. auto. Qed.

Lemma blk_done_mono Bk Bk' c : incl Bk Bk' -> blk_done Bk c = true -> blk_done Bk' c = true.
Proof.
  intros H. destruct c as [a|]; cbn; auto. destruct (a_blk a); auto.
  rewrite !forallb_mem_incl. intros. eapply incl_tran; eauto.
Qed.
Lemma alt_sel_mono A A' c : incl A A' -> alt_sel A c = true -> alt_sel A' c = true.
Proof.
  intros H. destruct c as [a|]; cbn; auto. rewrite !andb_true_iff. intros [H1 H2]. split; auto.
  eapply sel_mono; eauto.
Qed.

Lemma proc_mono A A' Bk Bk' use d :
  incl A A' -> incl Bk Bk' -> proc A Bk use d = true -> proc A' Bk' use d = true.
Proof.
  intros HA HB. induction d as [a|k l IH] using dep_ind'.
  - cbn. destruct (a_blk a).
    + rewrite !forallb_mem_incl. intros. eapply incl_tran; eauto.
    + now apply all_sel_mono.
  - assert (F : forallb (proc A Bk use) l = true -> forallb (proc A' Bk' use) l = true).
    { apply forallb_impl. intros x Hx. rewrite Forall_forall in IH. now apply IH. }
    cbn. destruct k; auto.
    + rewrite !andb_true_iff. intros [H1 H2]. split.
      * eapply existsb_impl; [|exact H1]. intros; eapply alt_sel_mono; eauto.
      * eapply forallb_impl; [|exact H2]. intros; eapply blk_done_mono; eauto.
    + rewrite !andb_true_iff. intros [H1 H2]. split.
      * eapply existsb_impl; [|exact H1]. intros; eapply alt_sel_mono; eauto.
      * eapply forallb_impl; [|exact H2]. intros; eapply blk_done_mono; eauto.
    + apply forallb_impl. intros; eapply blk_done_mono; eauto.
    + destruct (use f); auto.
    + destruct (use f); auto.
Qed.

Lemma proc_ext A Bk use use' d : (forall f, use f = use' f) -> proc A Bk use d = proc A Bk use' d.
Proof.
  intros E. induction d as [a|k l IH] using dep_ind'; [reflexivity|].
  assert (F : forallb (proc A Bk use) l = forallb (proc A Bk use') l).
  { induction IH as [|c r Hc _ IHr]; cbn; [reflexivity|]. now rewrite Hc, IHr. }
  cbn. rewrite F. destruct k; try reflexivity; now rewrite E.
Qed.

Lemma no_grp_atoms l : existsb is_grp l = false -> forall c, In c l -> exists a, c = DAtom a.
Proof.
  intros H c Hc. destruct c as [a|k l']; [eauto|].
  assert (existsb is_grp l = true) by (apply existsb_exists; exists (DGrp k l'); auto). congruence.
Qed.

(* the established facts give the specification's satisfaction, once no selected package is blocked *)
Lemma proc_sat A Bk use d :
  (forall i, In i A -> In i Bk -> False) -> compound_alt use d = false ->
  proc A Bk use d = true -> sat_mand vdb A use d = true.
Proof.
  intros Hd. induction d as [a|k l IH] using dep_ind'.
  - cbn. intros _. destruct (a_blk a); auto.
    rewrite forallb_mem_incl. intros H. apply negb_true_iff.
    destruct (sel vdb A a) eqn:E; auto. apply sel_spec in E as (i & H1 & H2). exfalso. eauto.
  - assert (F : existsb (compound_alt use) l = false -> forallb (proc A Bk use) l = true ->
                forallb (sat_mand vdb A use) l = true).
    { intros HC. rewrite !forallb_forall. intros H x Hx. rewrite Forall_forall in IH. apply IH; auto.
      destruct (compound_alt use x) eqn:E; auto.
      assert (existsb (compound_alt use) l = true) by (apply existsb_exists; eauto). congruence. }
    assert (G : existsb is_grp l = false -> existsb (alt_sel A) l = true -> existsb (sat_alt vdb A use) l = true).
    { intros HG. apply existsb_impl. intros c Hc. destruct (no_grp_atoms l HG c Hc) as [a ->].
      cbn. unfold sat_alt. cbn. destruct (a_blk a); cbn; [discriminate|]. intros ->. reflexivity. }
    cbn. destruct k; auto.
    + intros HC. rewrite andb_true_iff. intros [H1 _]. auto.
    + intros HC. rewrite andb_true_iff. intros [H1 _]. auto.
    + destruct (use f); cbn; auto.
    + destruct (use f); cbn; auto.
Qed.

(* every active blocker has had all its matches marked *)
Lemma proc_blockers A Bk use d :
  compound_alt use d = false -> proc A Bk use d = true ->
  forall b, In b (active use d) -> a_blk b = true -> incl (am b) Bk.
Proof.
  induction d as [a|k l IH] using dep_ind'.
  - cbn. intros _ H b [<-|[]] Hb. rewrite Hb in H. now apply forallb_mem_incl.
  - assert (F : existsb (compound_alt use) l = false -> forallb (proc A Bk use) l = true ->
                forall b, In b (flat_map (active use) l) -> a_blk b = true -> incl (am b) Bk).
    { intros HC HP b Hb Hblk. apply in_flat_map in Hb as (c & Hc & Hb). rewrite Forall_forall in IH.
      rewrite forallb_forall in HP. eapply IH; eauto.
      destruct (compound_alt use c) eqn:E; auto.
      assert (existsb (compound_alt use) l = true) by (apply existsb_exists; eauto). congruence. }
    assert (G : existsb is_grp l = false -> forallb (blk_done Bk) l = true ->
                forall b, In b (flat_map (active use) l) -> a_blk b = true -> incl (am b) Bk).
    { intros HG HP b Hb Hblk. apply in_flat_map in Hb as (c & Hc & Hb).
      destruct (no_grp_atoms l HG c Hc) as [a ->]. cbn in Hb. destruct Hb as [<-|[]].
      rewrite forallb_forall in HP. specialize (HP _ Hc). cbn in HP. rewrite Hblk in HP.
      now apply forallb_mem_incl. }
    cbn. destruct k; auto.
    + intros HC. rewrite andb_true_iff. intros [_ H2]. auto.
    + intros HC. rewrite andb_true_iff. intros [_ H2]. auto.
    + destruct (use f); cbn; auto. intros _ _ b [].
    + destruct (use f); cbn; auto. intros _ _ b [].
Qed.
End Proc.

Section Main.
Variable vdb : list pkg.
Variable bdeps : bool.
Hypothesis keys_nodup : forall i j p q, pkg_at vdb i = Some p -> pkg_at vdb j = Some q ->
  p_pn p = p_pn q -> p_slot p = p_slot q -> i = j.
Hypothesis use_eq : forall i p, pkg_at vdb i = Some p -> forall f, use_on p f = spec_use p f.
Hypothesis no_fpanic : forall i p, pkg_at vdb i = Some p ->
  forallb (fun f => match f with FPanic => false | _ => true end) (rel_files bdeps p) = true.
Variable inst : aset.
Hypothesis inst_ok : aset_ok vdb inst.
Hypothesis inst_all : forall i, aset_mem inst i <-> valid_id vdb i.
Variable rq : list atomr.
(* a set closed under the root matches and the successors: the full closure *)
Variable M : list N.
Hypothesis M_root : forall a, In a rq -> a_blk a = false -> incl (amatch vdb a) M.
Hypothesis M_step : forall j p a, In j M -> pkg_at vdb j = Some p ->
  In a (active_of bdeps p) -> a_blk a = false -> incl (amatch vdb a) M.
(* no compound alternatives in the packages that can be selected (known finding 1 otherwise) *)
Hypothesis NC : forall j p d, In j M -> pkg_at vdb j = Some p -> In d (top_deps bdeps p) ->
  compound_alt (spec_use p) d = false.

Notation am := (amatch vdb).
Notation act := (active_of bdeps).
Notation tops := (top_deps bdeps).
Notation added := g_added.
Notation blocked := g_blocked.

Lemma candidates_in a i : In i (candidates inst a) <-> In i (am a).
Proof.
  unfold candidates. rewrite filter_In, (aset_ids_spec vdb inst (a_pn a) i inst_ok), amatch_in, memN_in.
  split.
  - intros [[_ (p & Hp & Hn)] Hm]. eauto.
  - intros (p & Hp & Hn & Hm). split; auto. split; [apply inst_all; now exists p|eauto].
Qed.
Lemma candidates_nil a : candidates inst a = [] <-> am a = [].
Proof.
  split; intros H.
  - destruct (am a) as [|i r] eqn:E; auto. assert (In i (candidates inst a)) by (apply candidates_in; rewrite E; now left).
    rewrite H in H0. contradiction.
  - destruct (candidates inst a) as [|i r] eqn:E; auto. assert (In i (am a)) by (apply candidates_in; rewrite E; now left).
    rewrite H in H0. contradiction.
Qed.

(* ---- justification: reachable from the roots through active atoms, inside a set *)
Inductive ReachIn (inS : N -> bool) : N -> Prop :=
| RI_root a i : In a rq -> a_blk a = false -> In i (am a) -> inS i = true -> ReachIn inS i
| RI_step j p a i : ReachIn inS j -> pkg_at vdb j = Some p -> In a (act p) -> a_blk a = false ->
    In i (am a) -> inS i = true -> ReachIn inS i.

Lemma reach_mono (inS inS' : N -> bool) i :
  (forall q, inS q = true -> inS' q = true) -> ReachIn inS i -> ReachIn inS' i.
Proof.
  intros H. induction 1.
  - eapply RI_root; eauto.
  - eapply RI_step; eauto.
Qed.
Lemma reach_mono_l A A' i : incl A A' -> ReachIn (fun q => memN q A) i -> ReachIn (fun q => memN q A') i.
Proof. intros H. apply reach_mono. intros q Hq. apply memN_in. apply memN_in in Hq. auto. Qed.
Lemma reach_M inS i : ReachIn inS i -> In i M.
Proof.
  induction 1.
  - eapply M_root; eauto.
  - eapply M_step; eauto.
Qed.

(* where a Blocked mark comes from *)
Definition Prov (A : list N) (i : N) : Prop :=
  (exists b, In b rq /\ a_blk b = true /\ In i (am b)) \/
  (exists j p b, In j A /\ pkg_at vdb j = Some p /\ In b (act p) /\ a_blk b = true /\ In i (am b)).
Lemma prov_mono A A' i : incl A A' -> Prov A i -> Prov A' i.
Proof. intros H [H1|(j & p & b & H1 & H2)]; [now left|right; exists j, p, b; split; auto]. Qed.

Record Inv (g : gstate) : Prop := {
  inv_valid : forall i, In i (added g) -> valid_id vdb i;
  inv_res : aset_ok vdb (g_res g) /\ forall i, aset_mem (g_res g) i <-> In i (added g);
  inv_disj : forall i, In i (added g) -> In i (blocked g) -> False;
  inv_reach : forall i, In i (added g) -> ReachIn (fun q => memN q (added g)) i;
  inv_prov : forall i, In i (blocked g) -> Prov (added g) i }.

Definition ext (g g' : gstate) : Prop := incl (added g) (added g') /\ incl (blocked g) (blocked g').
Lemma ext_refl g : ext g g. Proof. split; apply incl_refl. Qed.
Lemma ext_trans g1 g2 g3 : ext g1 g2 -> ext g2 g3 -> ext g1 g3.
Proof. intros [A1 B1] [A2 B2]. split; eapply incl_tran; eauto. Qed.

(* a package is done when all its dependencies have been processed *)
Definition Done (g : gstate) (p : pkg) : Prop :=
  files_ok bdeps p = true /\ forallb (proc vdb (added g) (blocked g) (spec_use p)) (tops p) = true.
Definition NewDone (g g' : gstate) : Prop :=
  forall j p, In j (added g') -> ~ In j (added g) -> pkg_at vdb j = Some p -> Done g' p.
Lemma done_mono g g' p : ext g g' -> Done g p -> Done g' p.
Proof.
  intros [HA HB] [H1 H2]. split; auto. eapply forallb_impl; [|exact H2].
  intros d _. now apply proc_mono.
Qed.
Lemma newdone_refl g : NewDone g g. Proof. intros j p H1 H2. contradiction. Qed.
Lemma newdone_trans g1 g2 g3 : ext g2 g3 -> NewDone g1 g2 -> NewDone g2 g3 -> NewDone g1 g3.
Proof.
  intros E H12 H23 j p H3 H1 Hp. destruct (in_dec N.eq_dec j (added g2)) as [H2|H2].
  - eapply done_mono; eauto.
  - eauto.
Qed.

(* the reasons a run may fail for, located in the full closure *)
Definition Reason : Prop :=
  (exists a, In a rq /\ a_blk a = false /\ all_sel vdb M a = false) \/
  (exists i p, In i M /\ pkg_at vdb i = Some p /\
               (files_ok bdeps p = false \/ exists d, In d (tops p) /\ sat_mand vdb M (spec_use p) d = false)) \/
  (exists b, In b rq /\ a_blk b = true /\ sel vdb M b = true) \/
  (exists i p b, In i M /\ pkg_at vdb i = Some p /\ In b (act p) /\ a_blk b = true /\ sel vdb M b = true).

(* the context a list of dependencies is resolved in: the requested atoms, or the active atoms of
   a selected package *)
Record Ctx (ctxA : list atomr) (g : gstate) : Prop := {
  ctx_j : forall a i A', In a ctxA -> a_blk a = false -> In i (am a) -> incl (added g) A' -> In i A' ->
          ReachIn (fun q => memN q A') i;
  ctx_p : forall b i, In b ctxA -> a_blk b = true -> In i (am b) -> Prov (added g) i;
  ctx_m : forall a, In a ctxA -> a_blk a = false -> incl (am a) M;
  ctx_r : forall b, In b ctxA -> a_blk b = true -> sel vdb M b = true -> Reason }.
Lemma ctx_mono ctxA g g' : ext g g' -> Ctx ctxA g -> Ctx ctxA g'.
Proof.
  intros [HA HB] [C1 C2 C3 C4]. split; auto.
  - intros a i A' H1 H2 H3 H4 H5. eapply C1; eauto. eapply incl_tran; eauto.
  - intros b i H1 H2 H3. eapply prov_mono; eauto.
Qed.
Definition RsOK (ctxA : list atomr) (rs : list N) : Prop :=
  forall i, In i rs -> exists a, In a ctxA /\ a_blk a = false /\ In i (am a).

Lemma inv_added_M g : Inv g -> incl (added g) M.
Proof. intros I i Hi. eapply reach_M. eapply inv_reach; eauto. Qed.

(* ---- block_loop *)
Lemma block_loop_spec cs : forall g,
  Inv g -> (forall c, In c cs -> Prov (added g) c) ->
  match block_loop cs g with
  | ROk g' => Inv g' /\ ext g g' /\ added g' = added g /\ g_res g' = g_res g /\ incl cs (blocked g')
  | RFailed => exists c, In c cs /\ In c (added g)
  | _ => False
  end.
Proof.
  induction cs as [|c r IH]; intros g I HP; cbn.
  - split; [exact I|]. split; [apply ext_refl|]. split; [reflexivity|]. split; [reflexivity|]. intros ? [].
  - destruct (memN c (added g)) eqn:E.
    + apply memN_in in E. exists c. split; [now left|exact E].
    + apply memN_false in E.
      set (g1 := MkG (added g) (c :: blocked g) (g_res g)).
      assert (I1 : Inv g1).
      { destruct I as [I1 I2 I3 I4 I5]. split; cbn; auto.
        - intros i Hi [<-|Hb]; eauto.
        - intros i [<-|Hb]; auto. apply HP. now left. }
      specialize (IH g1 I1). cbn in IH.
      assert (HP1 : forall c0, In c0 r -> Prov (added g) c0) by (intros; apply HP; now right).
      specialize (IH HP1). destruct (block_loop r g1) as [g'| | |]; auto.
      * destruct IH as (J1 & [J2a J2b] & J3 & J4 & J5).
        split; [exact J1|]. split; [split; [exact J2a|intros x Hx; apply J2b; now right]|].
        split; [exact J3|]. split; [exact J4|]. intros x [<-|Hx]; [apply J2b; now left|auto].
      * destruct IH as (c0 & H1 & H2). exists c0. split; [now right|exact H2].
Qed.

(* ---- what a visit (mark Added, add to the Resolution, findDependencies) has to guarantee *)
Definition VH (visit : N -> gstate -> res gstate) (bound : nat) : Prop :=
  forall i g, Inv g -> valid_id vdb i -> ~ In i (added g) -> ~ In i (blocked g) ->
    ReachIn (fun q => memN q (i :: added g)) i -> (length (unvis vdb (added g)) <= bound)%nat ->
    match visit i g with
    | ROk g' => Inv g' /\ ext g g' /\ In i (added g') /\ NewDone g g'
    | RFailed => Reason
    | _ => False
    end.

Section WithVisit.
Variable visit : N -> gstate -> res gstate.
Variable bound : nat.
Hypothesis vh : VH visit bound.

Lemma unvis_ext g g' : ext g g' -> (length (unvis vdb (added g)) <= bound)%nat ->
  (length (unvis vdb (added g')) <= bound)%nat.
Proof. intros [H _] Hb. pose proof (unvis_mono vdb _ _ H). lia. Qed.

(* the loop at the end of ResolveEach, outside conditional mode *)
Lemma each_loop_spec ctxA rs : forall g,
  Inv g -> RsOK ctxA rs -> Ctx ctxA g -> (length (unvis vdb (added g)) <= bound)%nat ->
  match each_loop visit false rs g with
  | ROk g' => Inv g' /\ ext g g' /\ NewDone g g' /\ incl rs (added g')
  | RFailed => Reason
  | _ => False
  end.
Proof.
  induction rs as [|i r IH]; intros g I HR C Hb; cbn.
  - split; [exact I|]. split; [apply ext_refl|]. split; [apply newdone_refl|]. intros ? [].
  - assert (HRr : RsOK ctxA r) by (intros x Hx; apply HR; now right).
    destruct (HR i (or_introl eq_refl)) as (a & Ha & Hnb & Hi).
    destruct (memN i (blocked g)) eqn:EB.
    + (* a queued package carries a Blocked mark *)
      apply memN_in in EB. pose proof (inv_prov g I i EB) as P.
      assert (HiM : In i M) by (eapply (ctx_m ctxA g C); eauto).
      destruct P as [(b & B1 & B2 & B3)|(j & p & b & B0 & B1 & B2 & B3 & B4)].
      * right. right. left. exists b. repeat split; auto. apply sel_spec. eauto.
      * right. right. right. exists j, p, b. repeat split; auto.
        -- eapply inv_added_M; eauto.
        -- apply sel_spec. eauto.
    + apply memN_false in EB. cbn [orb]. rewrite orb_false_r. destruct (memN i (added g)) eqn:EA.
      * apply memN_in in EA. specialize (IH g I HRr C Hb).
        destruct (each_loop visit false r g) as [g'| | |]; auto.
        destruct IH as (J1 & J2 & J3 & J4). split; [exact J1|]. split; [exact J2|]. split; [exact J3|].
        intros x [<-|Hx]; auto. destruct J2 as [J2 _]. auto.
      * apply memN_false in EA.
        assert (Hv : valid_id vdb i) by (eapply amatch_valid; eauto).
        assert (HRe : ReachIn (fun q => memN q (i :: added g)) i).
        { eapply (ctx_j ctxA g C); eauto; [apply incl_tl, incl_refl|now left]. }
        pose proof (vh i g I Hv EA EB HRe Hb) as V.
        destruct (visit i g) as [g1| | |]; auto.
        destruct V as (V1 & V2 & V3 & V4).
        specialize (IH g1 V1 HRr (ctx_mono _ _ _ V2 C) (unvis_ext _ _ V2 Hb)).
        destruct (each_loop visit false r g1) as [g'| | |]; auto.
        destruct IH as (J1 & J2 & J3 & J4). split; [exact J1|]. split; [eapply ext_trans; eauto|].
        split; [eapply newdone_trans; eauto|].
        intros x [<-|Hx]; auto. destruct J2 as [J2 _]. auto.
Qed.

(* conditional mode over plain atoms: blockers are marked, candidates collected, nothing is visited *)
Definition cond_cands (c : dep) : list N :=
  match c with DAtom a => if a_blk a then [] else candidates inst a | DGrp _ _ => [] end.
Lemma cond_atoms_spec use ctxA l : forall g sub0,
  existsb is_grp l = false -> (forall a, In (DAtom a) l -> In a ctxA) ->
  Inv g -> Ctx ctxA g ->
  match resolve_children inst visit use true l (g, sub0) with
  | ROk (g', sub) => Inv g' /\ ext g g' /\ added g' = added g /\ sub = sub0 ++ flat_map cond_cands l
                     /\ forallb (blk_done vdb (blocked g')) l = true
  | RFailed => Reason
  | _ => False
  end.
Proof.
  induction l as [|c r IH]; intros g sub0 HG HA I C; cbn [resolve_children].
  - split; [exact I|]. split; [apply ext_refl|]. split; [reflexivity|]. split; [cbn; now rewrite app_nil_r|reflexivity].
  - cbn in HG. apply orb_false_iff in HG as [HG1 HG2]. destruct c as [a|k l']; [|discriminate].
    assert (Ha : In a ctxA) by (apply HA; now left).
    assert (HAr : forall a0, In (DAtom a0) r -> In a0 ctxA) by (intros; apply HA; now right).
    rewrite resolve_dep_atom. unfold resolve_atom. destruct (a_blk a) eqn:Eb.
    + assert (HP : forall c, In c (candidates inst a) -> Prov (added g) c).
      { intros c Hc. apply candidates_in in Hc. eapply (ctx_p ctxA g C); eauto. }
      pose proof (block_loop_spec (candidates inst a) g I HP) as B.
      destruct (block_loop (candidates inst a) g) as [g1| | |]; auto.
      * destruct B as (B1 & B2 & B3 & B4 & B5).
        specialize (IH g1 sub0 HG2 HAr B1 (ctx_mono _ _ _ B2 C)).
        destruct (resolve_children inst visit use true r (g1, sub0)) as [[g' sub]| | |]; auto.
        destruct IH as (J1 & J2 & J3 & J4 & J5). split; [exact J1|]. split; [eapply ext_trans; eauto|].
        split; [congruence|]. split.
        -- cbn [flat_map cond_cands]. rewrite Eb. exact J4.
        -- cbn [forallb blk_done]. rewrite Eb, J5, andb_true_r. apply forallb_mem_incl.
           intros x Hx. destruct J2 as [_ J2]. apply J2, B5. now apply candidates_in.
      * destruct B as (c & Hc1 & Hc2). apply candidates_in in Hc1.
        eapply (ctx_r ctxA g C); eauto. apply sel_spec. exists c. split; auto. eapply inv_added_M; eauto.
    + destruct (candidates inst a) as [|c0 cs0] eqn:EC.
      * specialize (IH g sub0 HG2 HAr I C).
        destruct (resolve_children inst visit use true r (g, sub0)) as [[g' sub]| | |]; auto.
        destruct IH as (J1 & J2 & J3 & J4 & J5). split; [exact J1|]. split; [exact J2|]. split; [exact J3|]. split.
        -- cbn [flat_map cond_cands]. rewrite Eb, EC. exact J4.
        -- cbn [forallb blk_done]. now rewrite Eb, J5.
      * specialize (IH g (sub0 ++ c0 :: cs0) HG2 HAr I C).
        destruct (resolve_children inst visit use true r (g, sub0 ++ c0 :: cs0)) as [[g' sub]| | |]; auto.
        destruct IH as (J1 & J2 & J3 & J4 & J5). split; [exact J1|]. split; [exact J2|]. split; [exact J3|]. split.
        -- cbn [flat_map cond_cands]. rewrite Eb, EC, J4. now rewrite app_assoc.
        -- cbn [forallb blk_done]. now rewrite Eb, J5.
Qed.

Lemma cond_cands_in l x : In x (flat_map cond_cands l) ->
  exists a, In (DAtom a) l /\ a_blk a = false /\ In x (am a).
Proof.
  intros H. apply in_flat_map in H as (c & Hc & Hx). destruct c as [a|]; [|contradiction].
  cbn in Hx. destruct (a_blk a) eqn:E; [contradiction|]. exists a. repeat split; auto. now apply candidates_in.
Qed.

(* ResolveSomeOf over plain atoms *)
Lemma some_of_spec use ctxA l st minN maxN :
  existsb is_grp l = false -> (forall a, In (DAtom a) l -> In a ctxA) ->
  Inv (fst st) -> RsOK ctxA (snd st) -> Ctx ctxA (fst st) ->
  (l <> [] -> 1 <= maxN)%nat -> (minN <= 1)%nat ->
  match some_of inst visit use l st minN maxN with
  | ROk st' => Inv (fst st') /\ ext (fst st) (fst st') /\ added (fst st') = added (fst st) /\
               incl (snd st) (snd st') /\ RsOK ctxA (snd st') /\
               forallb (blk_done vdb (blocked (fst st'))) l = true /\
               (minN = 1%nat -> existsb (alt_sel vdb (added (fst st') ++ snd st')) l = true)
  | RFailed => (minN = 1%nat /\ existsb (sat_alt vdb M use) l = false) \/ Reason
  | _ => False
  end.
Proof.
  intros HG HA I HR C Hmax Hmin. destruct st as [g rs]. cbn [fst snd] in *. unfold some_of. cbn [fst snd].
  pose proof (cond_atoms_spec use ctxA l g [] HG HA I C) as S.
  destruct (resolve_children inst visit use true l (g, [])) as [[g' sub]| | |]; auto.
  destruct S as (J1 & J2 & J3 & J4 & J5). cbn [app] in J4.
  destruct (Nat.ltb (length sub) minN) eqn:EL.
  - apply Nat.ltb_lt in EL. left. assert (minN = 1%nat) by lia. split; auto.
    assert (sub = []) by (destruct sub; auto; cbn in EL; lia). subst sub.
    destruct (existsb (sat_alt vdb M use) l) eqn:EX; auto. exfalso.
    apply existsb_exists in EX as (c & Hc & Hs). destruct (no_grp_atoms l HG c Hc) as [a ->].
    unfold sat_alt in Hs. cbn in Hs. destruct (a_blk a) eqn:Eb; cbn in Hs; [rewrite andb_false_r in Hs; discriminate|].
    rewrite andb_true_iff in Hs. destruct Hs as [Hs _]. apply sel_spec in Hs as (i & Hi & _).
    assert (In i (flat_map cond_cands l)).
    { apply in_flat_map. exists (DAtom a). split; auto. cbn. rewrite Eb. now apply candidates_in. }
    rewrite H0 in H1. contradiction.
  - apply Nat.ltb_ge in EL. cbn [fst snd].
    split; [exact J1|]. split; [exact J2|]. split; [exact J3|]. split; [apply incl_appl, incl_refl|].
    split; [|split; [exact J5|]].
    + intros x Hx. apply in_app_iff in Hx as [Hx|Hx]; auto.
      apply in_firstn in Hx. rewrite J4 in Hx. apply cond_cands_in in Hx as (a & H1 & H2 & H3). exists a. auto.
    + intros ->. destruct sub as [|x sub']; [cbn in EL; lia|].
      assert (Hl : l <> []) by (intro; subst l; discriminate).
      specialize (Hmax Hl). destruct maxN as [|m]; [lia|].
      assert (Hx : In x (flat_map cond_cands l)) by (rewrite <- J4; now left).
      apply cond_cands_in in Hx as (a & H1 & H2 & H3).
      apply existsb_exists. exists (DAtom a). split; auto. cbn. rewrite H2. cbn.
      apply sel_spec. exists x. split; auto. apply in_app_iff. right. apply in_app_iff. right. cbn. now left.
Qed.

Definition Post (ctxA : list atomr) (st st' : rstate) : Prop :=
  Inv (fst st') /\ ext (fst st) (fst st') /\ NewDone (fst st) (fst st') /\ incl (snd st) (snd st') /\
  RsOK ctxA (snd st').
Definition RD (d : dep) : Prop := forall use ctxA st,
  compound_alt use d = false -> incl (active use d) ctxA ->
  Inv (fst st) -> RsOK ctxA (snd st) -> Ctx ctxA (fst st) -> (length (unvis vdb (added (fst st))) <= bound)%nat ->
  match resolve_dep inst visit use false d st with
  | ROk st' => Post ctxA st st' /\ proc vdb (added (fst st') ++ snd st') (blocked (fst st')) use d = true
               /\ match d with DGrp GAll _ => incl (snd st') (added (fst st')) | _ => True end
  | RFailed => sat_mand vdb M use d = false \/ Reason
  | _ => False
  end.

Lemma post_trans ctxA st1 st2 st3 : Post ctxA st1 st2 -> Post ctxA st2 st3 -> Post ctxA st1 st3.
Proof.
  intros (A1 & A2 & A3 & A4 & A5) (B1 & B2 & B3 & B4 & B5).
  split; [exact B1|]. split; [eapply ext_trans; eauto|]. split; [eapply newdone_trans; eauto|].
  split; [eapply incl_tran; eauto|exact B5].
Qed.
Lemma post_incl ctxA st st' : Post ctxA st st' ->
  incl (added (fst st) ++ snd st) (added (fst st') ++ snd st') /\ incl (blocked (fst st)) (blocked (fst st')).
Proof.
  intros (_ & [E1 E2] & _ & E3 & _). split; auto. apply incl_app; [apply incl_appl|apply incl_appr]; auto.
Qed.

Lemma rc_spec l : Forall RD l -> forall use ctxA st,
  existsb (compound_alt use) l = false -> incl (flat_map (active use) l) ctxA ->
  Inv (fst st) -> RsOK ctxA (snd st) -> Ctx ctxA (fst st) -> (length (unvis vdb (added (fst st))) <= bound)%nat ->
  match resolve_children inst visit use false l st with
  | ROk st' => Post ctxA st st' /\
               forallb (proc vdb (added (fst st') ++ snd st') (blocked (fst st')) use) l = true
  | RFailed => forallb (sat_mand vdb M use) l = false \/ Reason
  | _ => False
  end.
Proof.
  induction 1 as [|c r Hc _ IH]; intros use ctxA st HC HA I HR C Hb; cbn [resolve_children].
  - split; [|reflexivity]. split; [exact I|]. split; [apply ext_refl|]. split; [apply newdone_refl|].
    split; [apply incl_refl|exact HR].
  - cbn in HC. apply orb_false_iff in HC as [HC1 HC2]. cbn in HA.
    assert (HA1 : incl (active use c) ctxA) by (intros x Hx; apply HA, in_app_iff; now left).
    assert (HA2 : incl (flat_map (active use) r) ctxA) by (intros x Hx; apply HA, in_app_iff; now right).
    pose proof (Hc use ctxA st HC1 HA1 I HR C Hb) as S1.
    destruct (resolve_dep inst visit use false c st) as [st1| | |]; auto.
    + destruct S1 as [P1 [Q1 _]]. pose proof P1 as (A1 & A2 & A3 & A4 & A5).
      specialize (IH use ctxA st1 HC2 HA2 A1 A5 (ctx_mono _ _ _ A2 C) (unvis_ext _ _ A2 Hb)).
      destruct (resolve_children inst visit use false r st1) as [st2| | |]; auto.
      * destruct IH as [P2 Q2]. split; [eapply post_trans; eauto|].
        cbn [forallb]. rewrite Q2, andb_true_r. destruct (post_incl _ _ _ P2) as [E1 E2].
        eapply proc_mono; eauto.
      * destruct IH as [IH|IH]; [left|now right]. cbn [forallb]. rewrite IH. apply andb_false_r.
    + destruct S1 as [S1|S1]; [left|now right]. cbn [forallb]. now rewrite S1.
Qed.

Lemma rd_spec d : RD d.
Proof.
  induction d as [a|k l IH] using dep_ind'; intros use ctxA st HC HA I HR C Hb.
  - (* an atom outside conditional mode *)
    rewrite resolve_dep_atom. destruct st as [g rs]. cbn [fst snd] in *. unfold resolve_atom.
    assert (Ha : In a ctxA) by (apply HA; cbn; now left).
    destruct (a_blk a) eqn:Eb.
    + assert (HP : forall c, In c (candidates inst a) -> Prov (added g) c).
      { intros c Hc. apply candidates_in in Hc. eapply (ctx_p ctxA g C); eauto. }
      pose proof (block_loop_spec (candidates inst a) g I HP) as B.
      destruct (block_loop (candidates inst a) g) as [g1| | |]; auto.
      * destruct B as (B1 & B2 & B3 & B4 & B5). cbn [fst snd]. split.
        -- split; [exact B1|]. split; [exact B2|]. split; [|split; [apply incl_refl|exact HR]].
           intros j p H1 H2. cbn [fst] in H1, H2. rewrite B3 in H1. contradiction.
        -- split; [|exact Logic.I]. cbn. rewrite Eb. apply forallb_mem_incl. intros x Hx. apply B5. now apply candidates_in.
      * right. destruct B as (c & Hc1 & Hc2). apply candidates_in in Hc1.
        eapply (ctx_r ctxA g C); eauto. apply sel_spec. exists c. split; auto. eapply inv_added_M; eauto.
    + destruct (candidates inst a) as [|c0 cs0] eqn:EC.
      * left. cbn. rewrite Eb. unfold all_sel. apply candidates_nil in EC. now rewrite EC.
      * cbn [fst snd]. split.
        -- split; [exact I|]. split; [apply ext_refl|]. split; [apply newdone_refl|]. split; [apply incl_appl, incl_refl|].
           intros x Hx. apply in_app_iff in Hx as [Hx|Hx]; auto. exists a. repeat split; auto.
           apply candidates_in. now rewrite EC.
        -- split; [|exact Logic.I]. cbn. rewrite Eb. apply all_sel_spec. split.
           ++ intro E. apply candidates_nil in E. congruence.
           ++ intros x Hx. apply candidates_in in Hx. rewrite EC in Hx. apply in_app_iff. right. apply in_app_iff. now right.
  - rewrite resolve_dep_grp. cbn [compound_alt] in HC. cbn [active] in HA.
    assert (HAtoms : existsb is_grp l = false -> incl (flat_map (active use) l) ctxA ->
                     forall a, In (DAtom a) l -> In a ctxA).
    { intros _ HA' a Hin. apply HA'. apply in_flat_map. exists (DAtom a). split; auto. cbn. now left. }
    assert (Grp : forall minN maxN, existsb is_grp l = false -> incl (flat_map (active use) l) ctxA ->
              (l <> [] -> 1 <= maxN)%nat -> (minN <= 1)%nat ->
              forall kk, (kk = GAny \/ kk = GOne \/ kk = GMost) -> (minN = 1%nat <-> kk <> GMost) ->
              match some_of inst visit use l st minN maxN with
              | ROk st' => Post ctxA st st' /\ proc vdb (added (fst st') ++ snd st') (blocked (fst st')) use (DGrp kk l) = true
                           /\ match DGrp kk l with DGrp GAll _ => incl (snd st') (added (fst st')) | _ => True end
              | RFailed => sat_mand vdb M use (DGrp kk l) = false \/ Reason
              | _ => False
              end).
    { intros minN maxN HG HA' Hmax Hmin kk Hkk Hm.
      pose proof (some_of_spec use ctxA l st minN maxN HG (HAtoms HG HA') I HR C Hmax Hmin) as S.
      destruct (some_of inst visit use l st minN maxN) as [st'| | |]; auto.
      - destruct S as (S1 & S2 & S3 & S4 & S5 & S6 & S7). split.
        + split; [exact S1|]. split; [exact S2|]. split; [|split; [exact S4|exact S5]].
          intros j p H1 H2. rewrite S3 in H1. contradiction.
        + destruct Hkk as [->|[->| ->]]; cbn [proc]; (split; [|exact Logic.I]).
          * rewrite S6, S7; auto. apply Hm. discriminate.
          * rewrite S6, S7; auto. apply Hm. discriminate.
          * exact S6.
      - destruct S as [[S1 S2]|S]; [left|now right].
        destruct Hkk as [->|[->| ->]]; cbn [sat_mand]; auto. exfalso. apply Hm in S1. now apply S1. }
    destruct k.
    + (* all-of: ResolveEach *)
      pose proof (rc_spec l IH use ctxA st HC HA I HR C Hb) as S.
      destruct (resolve_children inst visit use false l st) as [[g1 rs1]| | |]; auto.
      * destruct S as [P1 Q1]. pose proof P1 as (A1 & A2 & A3 & A4 & A5). cbn [fst snd] in *.
        pose proof (each_loop_spec ctxA rs1 g1 A1 A5 (ctx_mono _ _ _ A2 C) (unvis_ext _ _ A2 Hb)) as E.
        destruct (each_loop visit false rs1 g1) as [g2| | |]; auto.
        destruct E as (E1 & E2 & E3 & E4). cbn [fst snd]. split.
        -- split; [exact E1|]. split; [eapply ext_trans; eauto|]. split; [eapply newdone_trans; eauto|].
           split; [exact A4|exact A5].
        -- split; [|exact E4]. cbn [proc]. eapply forallb_impl; [|exact Q1]. intros d _. destruct E2 as [E2a E2b].
           apply proc_mono; auto. apply incl_app; [apply incl_appl; exact E2a|apply incl_appr, incl_refl].
    + assert (Hmax : (l <> [] -> 1 <= length l)%nat) by (intros Hl; destruct l; [congruence|cbn; lia]).
      apply (Grp 1%nat (length l) HC HA Hmax (le_n 1) GAny (or_introl eq_refl)). split; [discriminate|reflexivity].
    + apply (Grp 1%nat 1%nat HC HA (fun _ => le_n 1) (le_n 1) GOne (or_intror (or_introl eq_refl))).
      split; [discriminate|reflexivity].
    + apply (Grp 0%nat 1%nat HC HA (fun _ => le_n 1) (le_S 0 0 (le_n 0)) GMost (or_intror (or_intror eq_refl))).
      split; [discriminate|intros H; now contradiction H].
    + (* flag? ( ... ) *)
      destruct (use f) eqn:Ef.
      * cbn [andb] in HC. pose proof (rc_spec l IH use ctxA st HC HA I HR C Hb) as S.
        destruct (resolve_children inst visit use false l st) as [st'| | |]; auto.
        -- destruct S as [P1 Q1]. split; auto. split; [|exact Logic.I]. cbn [proc]. now rewrite Ef.
        -- cbn [sat_mand]. now rewrite Ef.
      * split; [|split; [cbn [proc]; now rewrite Ef|exact Logic.I]]. split; [exact I|]. split; [apply ext_refl|].
        split; [apply newdone_refl|]. split; [apply incl_refl|exact HR].
    + destruct (use f) eqn:Ef.
      * split; [|split; [cbn [proc]; now rewrite Ef|exact Logic.I]]. split; [exact I|]. split; [apply ext_refl|].
        split; [apply newdone_refl|]. split; [apply incl_refl|exact HR].
      * cbn [negb andb] in HC. pose proof (rc_spec l IH use ctxA st HC HA I HR C Hb) as S.
        destruct (resolve_children inst visit use false l st) as [st'| | |]; auto.
        -- destruct S as [P1 Q1]. split; auto. split; [|exact Logic.I]. cbn [proc]. now rewrite Ef.
        -- cbn [sat_mand]. now rewrite Ef.
Qed.
End WithVisit.

(* ---- findDependencies: reading the dependency files *)
Lemma collect_spec fs : forall acc,
  forallb (fun f => match f with FPanic => false | _ => true end) fs = true ->
  match collect fs acc with
  | ROk deps => forallb (fun f => match f with FBad | FPanic => false | _ => true end) fs = true /\
                deps = acc ++ flat_map (fun f => match f with FDeps l => l | _ => [] end) fs
  | RFailed => forallb (fun f => match f with FBad | FPanic => false | _ => true end) fs = false
  | _ => False
  end.
Proof.
  induction fs as [|f r IH]; intros acc HP; cbn.
  - split; auto. now rewrite app_nil_r.
  - cbn in HP. destruct f as [| | |l0]; cbn in HP; try discriminate; cbn.
    + now apply IH.
    + reflexivity.
    + specialize (IH (acc ++ l0) HP). destruct (collect r (acc ++ l0)); auto.
      destruct IH as [I1 I2]. split; auto. now rewrite I2, app_assoc.
Qed.

Lemma unvis_pos A i : valid_id vdb i -> ~ In i A -> (0 < length (unvis vdb A))%nat.
Proof.
  intros Hv Hn. assert (In i (unvis vdb A)).
  { unfold unvis. apply filter_In. split; [now apply ids_in|]. apply negb_true_iff. now apply memN_false. }
  destruct (unvis vdb A); [contradiction|cbn; lia].
Qed.

Lemma active_of_use p : forall i, pkg_at vdb i = Some p ->
  flat_map (active (use_on p)) (tops p) = act p.
Proof.
  intros i Hp. unfold active_of. induction (tops p) as [|d r IH]; cbn; [reflexivity|].
  rewrite IH. f_equal. apply active_ext. intros f. eapply use_eq; eauto.
Qed.

Theorem visit_pkg_VH n : VH (visit_pkg vdb inst bdeps n) n.
Proof.
  induction n as [|n IH]; intros i g I Hv Hna Hnb HR Hb.
  - pose proof (unvis_pos (added g) i Hv Hna). lia.
  - cbn [visit_pkg]. destruct Hv as [p Hp]. rewrite Hp.
    set (g1 := MkG (i :: added g) (blocked g) (aset_add (g_res g) (p_pn p) (p_slot p) i)).
    assert (I1 : Inv g1).
    { destruct I as [J1 [J2a J2b] J3 J4 J5].
      assert (Hnm : ~ aset_mem (g_res g) i) by (intro C; apply J2b in C; contradiction).
      destruct (aset_add_ok vdb keys_nodup (g_res g) i p J2a Hp Hnm) as [K1 K2].
      split; unfold g1; cbn [g_added g_blocked g_res].
      - intros x [<-|Hx]; [now exists p|auto].
      - split; [exact K1|]. intros x. rewrite K2, J2b. cbn. intuition congruence.
      - intros x [<-|Hx] Hbx; eauto.
      - intros x [<-|Hx]; [exact HR|]. eapply reach_mono_l; [|apply J4; exact Hx]. apply incl_tl, incl_refl.
      - intros x Hx. eapply prov_mono; [|apply J5; exact Hx]. apply incl_tl, incl_refl. }
    assert (E1 : ext g g1) by (split; cbn; [apply incl_tl, incl_refl|apply incl_refl]).
    assert (Hb1 : (length (unvis vdb (added g1)) <= n)%nat).
    { pose proof (unvis_shrink vdb (added g) i (ex_intro _ p Hp) Hna). cbn. lia. }
    pose proof (collect_spec (dep_files bdeps p) [] (no_fpanic i p Hp)) as CS.
    destruct (collect (dep_files bdeps p) []) as [deps| | |]; auto.
    + destruct CS as [CS1 CS2]. cbn [app] in CS2.
      assert (Hdeps : deps = tops p) by exact CS2.
      assert (Hfiles : files_ok bdeps p = true) by exact CS1.
      assert (HiM : In i M) by (eapply reach_M; exact HR).
      (* the dependencies of this package, resolved in its own context *)
      assert (Body :
        match resolve_dep inst (visit_pkg vdb inst bdeps n) (use_on p) false (DGrp GAll deps) (g1, []) with
        | ROk (g', _) => Inv g' /\ ext g g' /\ In i (added g') /\ NewDone g g'
        | RFailed => Reason
        | _ => False
        end).
      { assert (HCd : compound_alt (use_on p) (DGrp GAll deps) = false).
        { cbn. rewrite Hdeps. destruct (existsb (compound_alt (use_on p)) (tops p)) eqn:EX; auto.
          apply existsb_exists in EX as (d & Hd & Hc).
          rewrite (compound_ext (use_on p) (spec_use p) d (use_eq i p Hp)) in Hc.
          rewrite (NC i p d HiM Hp Hd) in Hc. discriminate. }
        assert (HAd : incl (active (use_on p) (DGrp GAll deps)) (act p)).
        { cbn. rewrite Hdeps, (active_of_use p i Hp). apply incl_refl. }
        assert (C1 : Ctx (act p) g1).
        { split.
          - intros a x A' Ha Hnbk Hx HA' HxA'. eapply RI_step with (j := i); eauto.
            + eapply reach_mono_l; [|exact HR]. exact HA'.
            + now apply memN_in.
          - intros b x Hb0 Hblk Hx. right. exists i, p, b. repeat split; auto. cbn. now left.
          - intros a Ha Hnbk. eapply M_step; eauto.
          - intros b Hb0 Hblk Hs. right. right. right. exists i, p, b. repeat split; auto. }
        pose proof (rd_spec (visit_pkg vdb inst bdeps n) n IH (DGrp GAll deps) (use_on p) (act p) (g1, [])
                      HCd HAd I1 (fun x (H : In x []) => match H with end) C1 Hb1) as S.
        destruct (resolve_dep inst (visit_pkg vdb inst bdeps n) (use_on p) false (DGrp GAll deps) (g1, [])) as [[g' rs']| | |]; auto.
        - destruct S as [(S1 & S2 & S3 & S4 & S5) [S6 RsIn]]. cbn [fst snd] in *.
          split; [exact S1|]. split; [eapply ext_trans; eauto|]. split; [destruct S2 as [S2 _]; apply S2; now left|].
          intros j q Hj Hnj Hq. destruct (N.eq_dec j i) as [->|Hne].
          + rewrite Hp in Hq. injection Hq as <-. split; [exact Hfiles|].
            cbn [proc] in S6. rewrite Hdeps in S6.
            eapply forallb_impl; [|exact S6]. intros d _ Hd.
            rewrite <- (proc_ext vdb _ _ (use_on p) (spec_use p) d (use_eq i p Hp)).
            eapply proc_mono; [| |exact Hd]; [|apply incl_refl].
            apply incl_app; [apply incl_refl|exact RsIn].
          + apply (S3 j q Hj); auto. cbn. intros [C|C]; [congruence|contradiction].
        - destruct S as [S|S]; auto.
          (* a dependency of this package is unsatisfied in the full closure *)
          right. left. exists i, p. split; [exact HiM|]. split; [exact Hp|]. right.
          cbn [sat_mand] in S. rewrite Hdeps in S.
          apply forallb_false_ex in S as (d & Hd & Hs). exists d. split; auto.
          now rewrite <- (sat_mand_ext vdb M (use_on p) (spec_use p) d (use_eq i p Hp)). }
      destruct deps as [|d0 deps'].
      * split; [exact I1|]. split; [exact E1|]. split; [cbn; now left|].
        intros j q Hj Hnj Hq. cbn in Hj. destruct Hj as [<-|Hj]; [|contradiction].
        rewrite Hp in Hq. injection Hq as <-. split; [exact Hfiles|]. now rewrite <- Hdeps.
      * destruct (resolve_dep inst (visit_pkg vdb inst bdeps n) (use_on p) false (DGrp GAll (d0 :: deps')) (g1, [])) as [[g' rs']| | |]; auto.
    + (* an undecodable dependency file *)
      right. left. exists i, p. split; [eapply reach_M; exact HR|]. split; [exact Hp|]. left. exact CS.
Qed.

(* ---- the whole resolution: ResolveUserDeps after the atoms have been classified *)
Definition ValidSel (X : list N) : Prop :=
  (forall a, In a rq -> a_blk a = false -> all_sel vdb X a = true) /\
  (forall i, In i X -> exists p, pkg_at vdb i = Some p /\ files_ok bdeps p = true /\
                                 forallb (sat_mand vdb X (spec_use p)) (tops p) = true) /\
  (forall i, In i X -> ReachIn (fun q => memN q X) i) /\
  (forall b, In b rq -> a_blk b = true -> sel vdb X b = false) /\
  (forall i p b, In i X -> pkg_at vdb i = Some p -> In b (act p) -> a_blk b = true -> sel vdb X b = false).

Lemma atoms_no_compound use l : existsb (compound_alt use) (map DAtom l) = false.
Proof. induction l; cbn; auto. Qed.
Lemma atoms_active use l : flat_map (active use) (map DAtom l) = l.
Proof. induction l; cbn; auto. now rewrite IHl. Qed.

Definition top_run (fuel : nat) : res rstate :=
  resolve_dep inst (visit_pkg vdb inst bdeps fuel) (fun _ => false) false (DGrp GAll (map DAtom rq)) (g0, []).

Lemma inv_g0 : Inv g0.
Proof.
  split; cbn; try (intros ? []).
  split; [apply aset_ok_nil|]. intros i. split; [|intros []].
  intros (nm & sl & k & [] & _).
Qed.

Theorem top_spec fuel : (length vdb <= fuel)%nat ->
  match top_run fuel with
  | ROk (g, _) => Inv g /\ forall X, (forall i, In i X <-> In i (added g)) -> ValidSel X
  | RFailed => Reason
  | _ => False
  end.
Proof.
  intros Hf. unfold top_run.
  assert (C0 : Ctx rq g0).
  { split.
    - intros a x A' Ha Hnb Hx _ HxA. eapply RI_root; eauto. now apply memN_in.
    - intros b x Hb Hblk Hx. left. eauto.
    - intros a Ha Hnb. now apply M_root.
    - intros b Hb Hblk Hs. right. right. left. eauto. }
  assert (Hb0 : (length (unvis vdb (added g0)) <= fuel)%nat).
  { unfold unvis. cbn. pose proof (filter_len (fun i => negb (memN i [])) (ids vdb)) as L.
    unfold ids in L at 2. rewrite map_length, seq_length in L. cbn in L. lia. }
  pose proof (rd_spec (visit_pkg vdb inst bdeps fuel) fuel (visit_pkg_VH fuel) (DGrp GAll (map DAtom rq))
                (fun _ => false) rq (g0, [])) as S.
  cbn [compound_alt active fst snd] in S. rewrite atoms_no_compound, atoms_active in S.
  specialize (S eq_refl (incl_refl _) inv_g0 (fun x (H : In x []) => match H with end) C0 Hb0).
  destruct (resolve_dep inst (visit_pkg vdb inst bdeps fuel) (fun _ => false) false (DGrp GAll (map DAtom rq)) (g0, []))
    as [[g rs]| | |]; auto.
  - destruct S as [(S1 & S2 & S3 & S4 & S5) [S6 S7]]. cbn [fst snd] in *. split; [exact S1|].
    intros X HX.
    assert (XA : incl X (added g)) by (intros i Hi; now apply HX).
    assert (AX : incl (added g) X) by (intros i Hi; now apply HX).
    assert (Hdisj : forall i, In i X -> In i (blocked g) -> False).
    { intros i Hi Hbk. eapply (inv_disj g S1); eauto. }
    cbn [proc] in S6. rewrite forallb_forall in S6.
    assert (Roots : forall a, In a rq -> proc vdb X (blocked g) (fun _ => false) (DAtom a) = true).
    { intros a Ha. eapply proc_mono; [| |apply S6; apply in_map; exact Ha]; [|apply incl_refl].
      apply incl_app; [exact AX|]. eapply incl_tran; eauto. }
    assert (AllDone : forall i p, In i X -> pkg_at vdb i = Some p ->
              files_ok bdeps p = true /\ forallb (proc vdb X (blocked g) (spec_use p)) (tops p) = true).
    { intros i p Hi Hp. destruct (S3 i p (XA _ Hi) (fun H : In i [] => match H with end) Hp) as [D1 D2].
      split; auto. eapply forallb_impl; [|exact D2]. intros d _. apply proc_mono; auto. apply incl_refl. }
    split; [|split; [|split; [|split]]].
    + intros a Ha Hnb. specialize (Roots a Ha). cbn in Roots. now rewrite Hnb in Roots.
    + intros i Hi. destruct (inv_valid g S1 i (XA _ Hi)) as [p Hp]. exists p. split; auto.
      destruct (AllDone i p Hi Hp) as [D1 D2]. split; auto.
      rewrite forallb_forall in D2 |- *. intros d Hd. eapply proc_sat; eauto.
      eapply NC; eauto. eapply inv_added_M; eauto.
    + intros i Hi. eapply reach_mono_l; [exact AX|]. eapply inv_reach; eauto.
    + intros b Hb Hblk. specialize (Roots b Hb). cbn in Roots. rewrite Hblk in Roots.
      apply forallb_mem_incl in Roots. destruct (sel vdb X b) eqn:E; auto.
      apply sel_spec in E as (i & E1 & E2). exfalso. eauto.
    + intros i p b Hi Hp Hb Hblk. destruct (AllDone i p Hi Hp) as [_ D2].
      destruct (sel vdb X b) eqn:E; auto. apply sel_spec in E as (x & E1 & E2). exfalso.
      unfold active_of in Hb. apply in_flat_map in Hb as (d & Hd & Hb).
      rewrite forallb_forall in D2.
      assert (NCd : compound_alt (spec_use p) d = false).
      { eapply NC; eauto. eapply inv_added_M; eauto. }
      pose proof (proc_blockers vdb X (blocked g) (spec_use p) d NCd (D2 d Hd) b Hb Hblk) as PB. eauto.
  - destruct S as [S|S]; auto. cbn [sat_mand] in S. apply forallb_false_ex in S as (d & Hd & Hs).
    apply in_map_iff in Hd as (a & <- & Ha). cbn in Hs. destruct (a_blk a) eqn:Eb.
    + right. right. left. exists a. repeat split; auto. now apply negb_false_iff in Hs.
    + left. exists a. auto.
Qed.
End Main.
