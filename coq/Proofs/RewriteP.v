(* Tools for C11 (c): which layer a name resolves to in a tree, and the exact effect of the
   temporary-file protocol when nothing goes wrong. *)
From LC Require Import Lib.Bytes Lib.Lex Lib.Fields Lib.PathM Gen.Consts
  Model.MountInfo Model.FsTree Model.Kernel Model.Layers Cases.Verdict Cases.LC
  Proofs.PathP Proofs.PathBaseP Proofs.FsxMonadP Proofs.FsP Proofs.LayersP.
Import LC LCS.
Close Scope string_scope.
Open Scope list_scope.

(* ------------------------------------------------------------------ resolving a layer name *)
Lemma existsb_beq_in x l : existsb (beq x) l = true <-> In x l.
Proof.
  rewrite existsb_exists. split.
  - intros (y & Hy & E). apply beq_true in E. now subst.
  - intros H. exists x. split; [exact H|apply beq_refl].
Qed.

Lemma load_layer_name c g n l : load_layer c g n = Some l -> l_name l = n.
Proof.
  unfold load_layer. match goal with |- match ?t with _ => _ end = _ -> _ => destruct t end; [|discriminate].
  intros H. injection H as <-. reflexivity.
Qed.

Definition load_all (c : cfgT) (g : fsT) (names : list bytes) : lmap :=
  fold_right (fun n acc => if legal_name n then
                             match load_layer c g n with Some l => l :: acc | None => acc end
                           else acc) [] names.

Lemma lm_get_load_all c g names nn :
  lm_get (load_all c g names) nn =
  if existsb (beq nn) names && legal_name nn then load_layer c g nn else None.
Proof.
  induction names as [|n r IH]; [reflexivity|]. unfold load_all. cbn [fold_right existsb]. fold (load_all c g r).
  destruct (beq nn n) eqn:E.
  - apply beq_true in E. subst n. cbn [orb andb].
    destruct (legal_name nn) eqn:El.
    + destruct (load_layer c g nn) as [l|] eqn:Eld.
      * cbn [lm_get]. rewrite (load_layer_name _ _ _ _ Eld), beq_refl. reflexivity.
      * rewrite IH. now destruct (existsb (beq nn) r).
    + rewrite IH. now rewrite andb_false_r.
  - cbn [orb]. destruct (legal_name n); [|exact IH]. destruct (load_layer c g n) as [l|] eqn:Eld; [|exact IH].
    cbn [lm_get]. rewrite (load_layer_name _ _ _ _ Eld). rewrite beq_sym, E. exact IH.
Qed.

Lemma read_layer_files_load_all c g : read_layer_files c g = load_all c g (Lex.sort (children g (c_layers c))).
Proof. reflexivity. Qed.

Lemma layer_named_some c g nn y : layer_named c g nn = Some y <->
  In nn (children g (c_layers c)) /\ legal_name nn = true /\ load_layer c g nn = Some y.
Proof.
  unfold layer_named, layers_on_disk. rewrite read_layer_files_load_all, lm_get_load_all.
  destruct (existsb (beq nn) (Lex.sort (children g (c_layers c)))) eqn:E.
  - apply existsb_beq_in in E. apply (proj1 (sort_in _ _)) in E. destruct (legal_name nn); cbn [andb]; [tauto|].
    split; [discriminate|]. intros (_ & H & _). discriminate.
  - cbn [andb]. split; [discriminate|]. intros (H & _). exfalso.
    assert (existsb (beq nn) (Lex.sort (children g (c_layers c))) = true); [|congruence].
    apply existsb_beq_in. now apply (proj2 (sort_in _ _)).
Qed.

Lemma load_all_in c g names x : In x (load_all c g names) ->
  exists n, In n names /\ legal_name n = true /\ load_layer c g n = Some x.
Proof.
  induction names as [|n r IH]; [intros []|]. unfold load_all. cbn [fold_right]. fold (load_all c g r).
  destruct (legal_name n) eqn:El.
  - destruct (load_layer c g n) as [l|] eqn:Eld.
    + intros [<-|H]; [exists n; repeat split; auto; now left|].
      destruct (IH H) as (m & Hm & H1 & H2). exists m. repeat split; auto. now right.
    + intros H. destruct (IH H) as (m & Hm & H1 & H2). exists m. repeat split; auto. now right.
  - intros H. destruct (IH H) as (m & Hm & H1 & H2). exists m. repeat split; auto. now right.
Qed.

Lemma loaded_named c g x : In x (layers_on_disk c g) ->
  In (l_name x) (children g (c_layers c)) /\ legal_name (l_name x) = true /\ load_layer c g (l_name x) = Some x.
Proof.
  unfold layers_on_disk. rewrite read_layer_files_load_all. intros H.
  destruct (load_all_in _ _ _ _ H) as (n & Hn & Hl & Hld). rewrite (load_layer_name _ _ _ _ Hld).
  repeat split; auto. now apply (proj1 (sort_in _ _)) in Hn.
Qed.

Lemma children_in g L nn : In nn (children g L) <->
  exists q node, In (q, node) g /\ under L q = true /\ pathdir q = L /\ pathbase q = nn.
Proof.
  unfold children. rewrite in_map_iff. split.
  - intros ([q node] & E & H). apply filter_In in H as [H1 H2]. cbn [fst] in *.
    apply andb_true_iff in H2 as [H2 H3]. apply beq_true in H3. exists q, node. auto.
  - intros (q & node & H1 & H2 & H3 & H4). exists (q, node). split; [exact H4|]. apply filter_In.
    split; [exact H1|]. cbn [fst]. rewrite H2, H3, beq_refl. reflexivity.
Qed.

(* ------------------------------------------------------------------ reading one file of a tree *)
Lemma filter_key_other (g : fsT) p k : k <> p ->
  fs_get (filter (fun en => negb (beq (fst en) p)) g) k = fs_get g k.
Proof.
  intros Hk. induction g as [|[q m] r IH]; cbn [filter fs_get fst]; [reflexivity|].
  destruct (beq q p) eqn:E; cbn [negb].
  - apply beq_true in E. subst q. destruct (beq p k) eqn:E2; [apply beq_true in E2; congruence|exact IH].
  - cbn [fs_get]. destruct (beq q k); [reflexivity|exact IH].
Qed.
Lemma filter_key_self (g : fsT) p : fs_get (filter (fun en => negb (beq (fst en) p)) g) p = None.
Proof.
  induction g as [|[q m] r IH]; cbn [filter fs_get fst]; [reflexivity|].
  destruct (beq q p) eqn:E; cbn [negb]; [exact IH|]. cbn [fs_get]. now rewrite E.
Qed.
Lemma filter_key_absent (g : fsT) p : fs_get g p = None -> filter (fun en => negb (beq (fst en) p)) g = g.
Proof.
  induction g as [|[q m] r IH]; cbn [filter fs_get fst]; [reflexivity|].
  destruct (beq q p); [discriminate|]. cbn [negb]. intros H. now rewrite IH.
Qed.

(* the tree after a successful atomic rewrite of file p with content x *)
Definition rewritten (f : fsT) (p x : bytes) : fsT :=
  filter (fun en => negb (beq (fst en) p)) f ++ [(p, File x)].

Lemma rewritten_get_self f p x : fs_get (rewritten f p x) p = Some (File x).
Proof. unfold rewritten. rewrite fs_get_app_none by apply filter_key_self. cbn. now rewrite beq_refl. Qed.
Lemma rewritten_get_other f p x k : k <> p -> fs_get (rewritten f p x) k = fs_get f k.
Proof.
  intros Hk. unfold rewritten. destruct (fs_get f k) as [m|] eqn:E.
  - apply fs_get_app_some. now rewrite filter_key_other.
  - rewrite fs_get_app_none by now rewrite filter_key_other. cbn.
    destruct (beq p k) eqn:E2; [apply beq_true in E2; congruence|reflexivity].
Qed.
Lemma rewritten_in f p x en : In en f -> fst en <> p -> In en (rewritten f p x).
Proof.
  intros H Hp. unfold rewritten. apply in_or_app. left. apply filter_In. split; [exact H|].
  apply negb_true_iff. now apply beq_false.
Qed.

(* ------------------------------------------------------------------ the protocol, exactly *)
Section Exact.
Variable e : env.
Hypothesis Hreal : e_pretend e = false.
Variable f : fsT.
Variable p : bytes.
Let t := p ++ tmp_suffix.
Hypothesis Hfree : forall en, In en f -> at_or_under t (fst en) = false.

Lemma t_neq_p : t <> p.
Proof. unfold t. intros H. apply (f_equal (@length _)) in H. rewrite app_length in H. cbn in H. lia. Qed.
Lemma t_absent : fs_get f t = None.
Proof.
  destruct (fs_get f t) as [m|] eqn:E; [|reflexivity]. apply fs_get_in in E. apply Hfree in E.
  cbn [fst] in E. rewrite at_or_under_refl in E. discriminate.
Qed.

Lemma open_exact : hoare (fun g => g = f) (do_op e (OOpen t)) (fun _ g => g = f ++ [(t, File [])]) (fun _ => True).
Proof.
  unfold do_op. apply h_mutate_real; [exact Hreal|auto|]. unfold apply_op.
  eapply h_bind; [apply h_get_fs|]. intros f1. eapply h_bind; [apply h_get_ks|]. intros k.
  apply h_on_fres; [auto|]. intros g f' [-> ->] Hr. unfold open_trunc, lstat in Hr. rewrite t_absent in Hr.
  destruct (is_dir f (pathdir t) && names_fit t); [|discriminate]. now injection Hr as <-.
Qed.

Lemma cursor_exact chunks : forall x,
  hoare (fun g => g = f ++ [(t, File x)]) (cursor_writes e t chunks)
        (fun _ g => g = f ++ [(t, File (x ++ concat chunks))]) (fun _ => True).
Proof.
  induction chunks as [|c0 r IH]; intros x; cbn [cursor_writes concat].
  - apply h_ret. intros g ->. now rewrite app_nil_r.
  - apply h_bind with (Q := fun _ g => g = f ++ [(t, File (x ++ c0))]).
    + apply h_mutate_real; [exact Hreal|auto|].
      eapply h_bind; [apply h_get_fs|]. intros f1. apply h_put_fs. intros g [-> ->].
      unfold append_file, lstat. rewrite (fs_get_app_none _ _ _ t_absent). cbn [fs_get]. rewrite beq_refl.
      now rewrite (fs_set_app_none _ _ _ _ _ t_absent).
    + intros u. rewrite app_assoc. apply IH.
Qed.

Lemma move_id_free : map (move_entry t p) (filter (fun en => negb (beq (fst en) p)) f)
                     = filter (fun en => negb (beq (fst en) p)) f.
Proof.
  rewrite <- (map_id (filter _ f)) at 2. apply map_ext_in. intros en Hen. apply filter_In in Hen as [Hen _].
  unfold move_entry. now rewrite (Hfree en Hen).
Qed.

Lemma rename_exact x g' : rename (f ++ [(t, File x)]) t p = FOk g' -> g' = rewritten f p x.
Proof.
  unfold rename, lstat. rewrite (fs_get_app_none _ _ _ t_absent). cbn [fs_get]. rewrite beq_refl.
  destruct (negb (is_dir (f ++ [(t, File x)]) (pathdir p)) || negb (names_fit p)); [discriminate|].
  destruct (at_or_under t p).
  { destruct (beq t p) eqn:E; [apply beq_true in E; now apply t_neq_p in E|discriminate]. }
  assert (M : map (move_entry t p) (filter (fun en => negb (beq (fst en) p)) (f ++ [(t, File x)])) = rewritten f p x).
  { rewrite filter_app, map_app, move_id_free. unfold rewritten. f_equal. cbn [filter fst].
    assert (E : beq t p = false) by (apply beq_false; apply t_neq_p). rewrite E. cbn [negb map].
    unfold move_entry. cbn [fst snd]. now rewrite at_or_under_refl, rel_suffix_self, app_nil_r. }
  destruct (fs_get (f ++ [(t, File x)]) p) as [[|y|lt]|] eqn:Ep.
  - discriminate.
  - intros H. injection H as <-. exact M.
  - intros H. injection H as <-. exact M.
  - intros H. injection H as <-. rewrite <- M. now rewrite (filter_key_absent _ _ Ep).
Qed.

Lemma rename_op_exact x :
  hoare (fun g => g = f ++ [(t, File x)]) (do_op e (ORename t p)) (fun _ g => g = rewritten f p x) (fun _ => True).
Proof.
  unfold do_op. apply h_mutate_real; [exact Hreal|auto|]. unfold apply_op.
  eapply h_bind; [apply h_get_fs|]. intros f1. eapply h_bind; [apply h_get_ks|]. intros k.
  apply h_on_fres; [auto|]. intros g f' [-> ->] Hr. now apply rename_exact.
Qed.

Lemma wfa_exact chunks :
  hoare (fun g => g = f) (write_file_atomically e p chunks)
        (fun _ g => g = rewritten f p (concat chunks)) (fun _ => True).
Proof.
  intros s Hs. unfold write_file_atomically. fold t.
  pose proof (open_exact s Hs) as H1.
  destruct (do_op e (OOpen t) s) as [[[]| | | |] s1]; auto.
  pose proof (cursor_exact chunks [] s1 H1) as H2. cbn [app] in H2.
  destruct (cursor_writes e t chunks s1) as [[[]| | | |] s2]; auto.
  pose proof (rename_op_exact (concat chunks) s2 H2) as H3.
  destruct (do_op e (ORename t p) s2) as [[[]| | | |] s3]; auto.
Qed.
End Exact.
