(* WriteLayerfile followed by ReadLayerfile gives back the definition, for definitions that
   were themselves read from a layerconfig (canonical: tokens without white space, cleaned paths). *)
From LC Require Import Lib.Bytes Lib.Lex Lib.Fields Lib.PathM Model.Config Gen.Consts
  Model.MountInfo Model.FsTree Model.Kernel Model.Layers Proofs.PathP Proofs.PathCP.
Local Open Scope nat_scope.

(* ------------------------------------------------------------------ characters of a cleaned path *)
Definition pchar (p : bytes) (x : ascii) : Prop := In x p \/ x = sl \/ x = nb 46.

Lemma split_acc_chars sep s : forall cur piece x, In piece (split_acc sep cur s) -> In x piece ->
  In x cur \/ In x s.
Proof.
  induction s as [|c r IH]; intros cur piece x Hp Hx; cbn [split_acc] in Hp.
  - destruct Hp as [<-|[]]. left. now apply in_rev.
  - destruct (Ascii.eqb c sep).
    + destruct Hp as [<-|Hp]; [left; now apply in_rev|].
      destruct (IH [] piece x Hp Hx) as [[]|H]. right. now right.
    + destruct (IH (c :: cur) piece x Hp Hx) as [[<-|H]|H]; [right; now left|now left|right; now right].
Qed.
Lemma psplit_chars p piece x : In piece (psplit p) -> In x piece -> In x p.
Proof. intros Hp Hx. destruct (split_acc_chars sl p [] piece x Hp Hx) as [[]|H]. exact H. Qed.
Lemma stepc_chars (P : ascii -> Prop) r st c : P (nb 46) -> (forall d, In d st -> forall x, In x d -> P x) ->
  (forall x, In x c -> P x) -> forall d, In d (stepc r st c) -> forall x, In x d -> P x.
Proof.
  intros Pd Hst Hc d Hd x Hx. unfold stepc in Hd.
  assert (Hdd : forall y, In y dotdot -> P y) by (intros y [<-|[<-|[]]]; exact Pd).
  destruct (beq c [] || beq c dot); [eapply Hst; eauto|].
  destruct (beq c dotdot).
  - destruct st as [|top rest].
    + destruct r; [destruct Hd|]. destruct Hd as [<-|[]]. now apply Hdd.
    + destruct (beq top dotdot).
      * destruct Hd as [<-|Hd]; [now apply Hdd|eapply Hst; eauto].
      * eapply Hst; [right; exact Hd|exact Hx].
  - destruct Hd as [<-|Hd]; [now apply Hc|eapply Hst; eauto].
Qed.
Lemma fold_stepc_chars (P : ascii -> Prop) r : P (nb 46) -> forall cs st,
  (forall d, In d st -> forall x, In x d -> P x) -> (forall c, In c cs -> forall x, In x c -> P x) ->
  forall d, In d (fold_left (stepc r) cs st) -> forall x, In x d -> P x.
Proof.
  intros Pd. induction cs as [|c cs IH]; intros st Hst Hcs; cbn [fold_left]; [exact Hst|].
  apply IH.
  - apply stepc_chars; auto. apply Hcs. now left.
  - intros c' Hc'. apply Hcs. now right.
Qed.
Lemma join_chars sep cs x : In x (join sep cs) -> x = sep \/ exists c, In c cs /\ In x c.
Proof.
  induction cs as [|c r IH]; cbn [join]; [intros []|]. destruct r as [|c2 r'].
  - intros H. right. exists c. split; [now left|exact H].
  - intros H. apply in_app_or in H as [H|[<-|H]].
    + right. exists c. split; [now left|exact H].
    + now left.
    + destruct (IH H) as [->|(d & Hd & Hx)]; [now left|]. right. exists d. split; [now right|exact Hx].
Qed.
Lemma clean_chars p x : In x (clean p) -> pchar p x.
Proof.
  unfold clean, pchar. destruct p as [|a p'].
  - intros [<-|[]]. right; now right.
  - set (q := a :: p'). intros H. unfold assemble in H.
    assert (G : forall d, In d (rev (fold_left (stepc (is_rooted q)) (psplit q) [])) -> forall y, In y d -> pchar q y).
    { intros d Hd. apply in_rev in Hd. revert d Hd.
      apply (fold_stepc_chars (pchar q)); [right; now right|intros ? []|].
      intros c Hc y Hy. left. eapply psplit_chars; eauto. }
    assert (J : forall y, In y (pjoin (rev (fold_left (stepc (is_rooted q)) (psplit q) []))) -> pchar q y).
    { intros y Hy. apply join_chars in Hy as [->|(d & Hd & Hy)]; [right; now left|eapply G; eauto]. }
    destruct (is_rooted q).
    + destruct H as [<-|H]; [right; now left|now apply J].
    + destruct (pjoin _) eqn:E; [destruct H as [<-|[]]; right; now right|]. now apply J.
Qed.

Definition nsp (t : bytes) : Prop := forallb (fun c => negb (is_sp c)) t = true.
Lemma nsp_in t x : nsp t -> In x t -> is_sp x = false.
Proof. unfold nsp. rewrite forallb_forall. intros H Hx. apply negb_true_iff. now apply H. Qed.
Lemma nsp_intro t : (forall x, In x t -> is_sp x = false) -> nsp t.
Proof. intros H. apply forallb_forall. intros x Hx. apply negb_true_iff. now apply H. Qed.
Lemma clean_nsp p : nsp p -> nsp (clean p).
Proof.
  intros H. apply nsp_intro. intros x Hx. apply clean_chars in Hx as [Hx|[ -> | -> ]]; [eapply nsp_in; eauto|reflexivity|reflexivity].
Qed.
Lemma clean_tok p : tok_ok p -> tok_ok (clean p).
Proof. intros [_ H]. split; [apply clean_nonempty|now apply clean_nsp]. Qed.

(* ------------------------------------------------------------------ Clean is idempotent *)
Lemma clean_idem p : clean (clean p) = clean p.
Proof.
  destruct p as [|a p']; [reflexivity|]. set (p := a :: p').
  destruct (is_rooted p) eqn:Er.
  - pose proof (clean_abs_of_rooted p Er) as H. apply clean_abs_repr in H as (cs & Pc & E). rewrite E.
    now apply clean_pa.
  - rewrite (clean_unfold p) by discriminate. rewrite Er. pose proof (cstack_nf p) as Hnf. rewrite Er in Hnf.
    destruct (cstack p) as [|c cs] eqn:Ec; [reflexivity|].
    destruct (nf_head _ _ _ Hnf) as (x & c' & -> & Hx). destruct (pjoin_head (x :: c') cs) as (t & Et).
    assert (EA : assemble false ((x :: c') :: cs) = pjoin ((x :: c') :: cs)).
    { unfold assemble. rewrite Et. reflexivity. }
    rewrite EA.
    assert (N : pjoin ((x :: c') :: cs) <> []) by (rewrite Et; discriminate).
    rewrite (clean_unfold _ N).
    assert (R : is_rooted (pjoin ((x :: c') :: cs)) = false) by (rewrite Et; now apply is_rooted_sl_false).
    rewrite R. unfold cstack. rewrite R.
    assert (S : psplit (pjoin ((x :: c') :: cs)) = (x :: c') :: cs).
    { apply split_join; [discriminate|now apply nf_noslash in Hnf]. }
    rewrite S, fold_nf by exact Hnf. rewrite rev_involutive. exact EA.
Qed.
Lemma clean_sl_clean_sl m : clean (sl :: clean (sl :: m)) = clean (sl :: m).
Proof.
  assert (Er : is_rooted (sl :: m) = true) by reflexivity.
  pose proof (clean_abs_of_rooted _ Er) as H. apply clean_abs_repr in H as (cs & Pc & E). rewrite E.
  assert (E2 : sl :: pa cs = sl :: pjoin ([] :: match cs with [] => [[]] | _ => cs end)).
  { rewrite pa_pjoin. destruct cs; reflexivity. }
  rewrite E2, clean_rooted_eplain.
  - cbn [filter beq negb]. destruct cs as [|c cs']; [reflexivity|]. now rewrite filter_nonempty_plains.
  - constructor; [now left|]. destruct cs; [constructor; [now left|constructor]|].
    eapply Forall_impl; [|exact Pc]. intros a Ha; now right.
Qed.

(* ------------------------------------------------------------------ strings.Fields yields proper tokens *)
Lemma nsp_rev t : nsp (rev t) <-> nsp t.
Proof.
  unfold nsp. rewrite !forallb_forall. split; intros H x Hx; apply H.
  - now apply in_rev in Hx.
  - now apply in_rev.
Qed.
Definition finv (st : fst_) : Prop := nsp (fst st) /\ forall t, In t (snd st) -> tok_ok t.
Lemma fstep_finv st c : finv st -> finv (fstep st c).
Proof.
  destruct st as [cur out]. unfold fstep, finv. cbn [fst snd]. intros [H1 H2]. destruct (is_sp c) eqn:E.
  - destruct cur as [|a cur']; cbn [fst snd]; split; auto; try reflexivity.
    intros t [<-|Ht]; [|auto]. split; [|now apply nsp_rev].
    intros E0. apply (f_equal (@rev _)) in E0. rewrite rev_involutive in E0. discriminate.
  - cbn [fst snd]. split; [|exact H2]. unfold nsp. cbn [forallb]. rewrite E. exact H1.
Qed.
Lemma fold_finv s : forall st, finv st -> finv (fold_left fstep s st).
Proof. induction s as [|c s IH]; intros st H; cbn [fold_left]; [exact H|]. apply IH. now apply fstep_finv. Qed.
Lemma fields_tok s t : In t (fields s) -> tok_ok t.
Proof.
  unfold fields. pose proof (fold_finv s ([], [])) as H.
  destruct (fold_left fstep s ([], [])) as [cur out]. unfold finv in H. cbn [fst snd] in H.
  destruct H as [H1 H2]; [split; [reflexivity|intros ? []]|].
  unfold ffinish. destruct cur as [|a cur'].
  - intros Hin. apply in_rev in Hin. auto.
  - intros Hin. apply in_rev in Hin. destruct Hin as [<-|Hin]; [|auto]. split; [|now apply nsp_rev].
    intros E0. apply (f_equal (@rev _)) in E0. rewrite rev_involutive in E0. discriminate.
Qed.

(* ------------------------------------------------------------------ canonical definitions *)
Definition canon_m (nm : nmount) : Prop :=
  tok_ok (nm_fstype nm) /\ (exists s, tok_ok s /\ nm_source nm = clean s)
  /\ (exists m, tok_ok m /\ nm_mount nm = clean (sl :: m)).
Definition canon_e (nm : nmount) : Prop :=
  tok_ok (nm_fstype nm) /\ (exists s, tok_ok s /\ nm_source nm = clean s)
  /\ (exists m, tok_ok m /\ nm_mount nm = clean m).
Definition canon_lf (lf : lfile) : Prop :=
  (lf_base lf = [] \/ tok_ok (lf_base lf)) /\ Forall canon_m (lf_mounts lf) /\ Forall canon_e (lf_exports lf).

Lemma Forall_snoc {A} (P : A -> Prop) l x : Forall P l -> P x -> Forall P (l ++ [x]).
Proof. intros H Hx. apply Forall_app. split; [exact H|constructor; [exact Hx|constructor]]. Qed.

Lemma lf_step_canon st line : canon_lf st -> canon_lf (lf_step st line).
Proof.
  intros (Hb & Hm & He). unfold lf_step. cbv zeta. destruct (is_comment _); [now repeat split|].
  destruct (fields (trim line)) as [|kw args] eqn:Ef; [now repeat split|].
  assert (Hargs : forall t, In t args -> tok_ok t).
  { intros t Ht. apply (fields_tok (trim line)). rewrite Ef. now right. }
  destruct (beq kw (bs "base")).
  { destruct args as [|b0 r]; [now repeat split|]. destruct (lf_base st) eqn:Eb.
    - split; [right; apply Hargs; now left|now split].
    - destruct (beq _ b0); repeat split; auto; rewrite Eb; exact Hb. }
  destruct (beq kw (bs "import")).
  { destruct args as [|ty [|src [|mnt r]]]; try (now repeat split).
    split; [exact Hb|]. split; [|exact He]. cbn [lf_mounts]. apply Forall_snoc; [exact Hm|].
    repeat split; cbn [nm_fstype nm_source nm_mount]; try (apply Hargs; cbn; tauto).
    - exists src. split; [apply Hargs; cbn; tauto|reflexivity].
    - exists mnt. split; [apply Hargs; cbn; tauto|reflexivity]. }
  destruct (beq kw (bs "export")).
  { destruct args as [|ty [|src [|mnt r]]]; try (now repeat split).
    split; [exact Hb|]. split; [exact Hm|]. cbn [lf_exports]. apply Forall_snoc; [exact He|].
    repeat split; cbn [nm_fstype nm_source nm_mount]; try (apply Hargs; cbn; tauto).
    - exists src. split; [apply Hargs; cbn; tauto|reflexivity].
    - exists mnt. split; [apply Hargs; cbn; tauto|reflexivity]. }
  now repeat split.
Qed.
Lemma read_layerfile_canon content : canon_lf (read_layerfile content).
Proof.
  unfold read_layerfile.
  assert (G : forall ls st, canon_lf st -> canon_lf (fold_left lf_step ls st)).
  { induction ls as [|l ls IH]; intros st H; cbn [fold_left]; [exact H|]. apply IH. now apply lf_step_canon. }
  apply G. split; [now left|split; constructor].
Qed.

(* ------------------------------------------------------------------ bufio.ScanLines on whole lines *)
Definition nonl (l : bytes) : Prop := ~ In nl l.
Definition lines_text (ls : list bytes) : bytes := concat (map (fun l => l ++ [nl]) ls).
Definition dle (ls : list bytes) : list bytes := match rev ls with [] :: r => rev r | _ => ls end.
Lemma dle_cons a X : X <> [] -> dle (a :: X) = a :: dle X.
Proof.
  intros HX. unfold dle. cbn [rev]. destruct (rev X) as [|y r'] eqn:E.
  - apply (f_equal (@rev _)) in E. rewrite rev_involutive in E. cbn in E. congruence.
  - cbn [app]. destruct y; [|reflexivity]. rewrite rev_app_distr. reflexivity.
Qed.
Lemma scan_lines_eq s : s <> [] -> scan_lines s = map strip_cr (dle (split nl s)).
Proof. destruct s; [congruence|reflexivity]. Qed.
Lemma scan_lines_cons l rest : nonl l -> scan_lines (l ++ nl :: rest) = strip_cr l :: scan_lines rest.
Proof.
  intros Hl. rewrite scan_lines_eq by (destruct l; discriminate).
  unfold split. rewrite split_acc_app by exact Hl. rewrite app_nil_r, rev_involutive. fold (split nl rest).
  destruct rest as [|c rest'].
  - reflexivity.
  - rewrite dle_cons by apply split_acc_nonempty. reflexivity.
Qed.
Lemma scan_lines_text ls : Forall nonl ls -> scan_lines (lines_text ls) = map strip_cr ls.
Proof.
  induction 1 as [|l ls Hl _ IH]; [reflexivity|]. unfold lines_text. cbn [map concat].
  rewrite <- app_assoc. cbn [app]. rewrite scan_lines_cons by exact Hl. cbn [map]. f_equal. exact IH.
Qed.

(* ------------------------------------------------------------------ a line of tokens *)
Definition sp1 : bytes := [spc].
Lemma is_sp_spc : is_sp spc = true.
Proof. reflexivity. Qed.
Lemma tok_first t : tok_ok t -> exists c r, t = c :: r /\ is_sp c = false.
Proof.
  intros [H1 H2]. destruct t as [|c r]; [congruence|]. exists c, r. split; [reflexivity|].
  cbn in H2. apply andb_true_iff in H2 as [H2 _]. now apply negb_true_iff.
Qed.
Lemma tok_last t : tok_ok t -> exists c r, rev t = c :: r /\ is_sp c = false.
Proof.
  intros [H1 H2]. apply tok_first. split.
  - intros E. apply (f_equal (@rev _)) in E. rewrite rev_involutive in E. cbn in E. congruence.
  - now apply nsp_rev.
Qed.
Lemma unwords_first ts : ts <> [] -> Forall tok_ok ts -> exists c r, unwords sp1 ts = c :: r /\ is_sp c = false.
Proof.
  intros Hne H. destruct ts as [|t ts']; [congruence|]. inversion H as [|? ? Ht _]; subst.
  destruct (tok_first t Ht) as (c & r & -> & Hc). destruct ts'; cbn; eauto.
Qed.
Lemma unwords_last ts : ts <> [] -> Forall tok_ok ts -> exists c r, rev (unwords sp1 ts) = c :: r /\ is_sp c = false.
Proof.
  induction ts as [|t ts' IH]; [congruence|]. intros _ H. inversion H as [|? ? Ht Hts]; subst.
  destruct ts' as [|t2 ts''].
  - cbn [unwords]. now apply tok_last.
  - change (unwords sp1 (t :: t2 :: ts'')) with (t ++ sp1 ++ unwords sp1 (t2 :: ts'')).
    destruct (IH ltac:(discriminate) Hts) as (c & r & E & Hc). rewrite !rev_app_distr, E. cbn. eauto.
Qed.
Lemma drop_sp_id s : (exists c r, s = c :: r /\ is_sp c = false) -> drop_sp s = s.
Proof. intros (c & r & -> & Hc). cbn. now rewrite Hc. Qed.
Lemma trim_tokens ts : ts <> [] -> Forall tok_ok ts -> trim (unwords sp1 ts) = unwords sp1 ts.
Proof.
  intros Hne H. unfold trim. rewrite (drop_sp_id (unwords sp1 ts)) by now apply unwords_first.
  rewrite drop_sp_id by now apply unwords_last. apply rev_involutive.
Qed.
Lemma strip_cr_tokens ts : ts <> [] -> Forall tok_ok ts -> strip_cr (unwords sp1 ts) = unwords sp1 ts.
Proof.
  intros Hne H. unfold strip_cr. destruct (unwords_last ts Hne H) as (c & r & -> & Hc).
  destruct (Ascii.eqb c cr) eqn:E; [|reflexivity]. apply Ascii.eqb_eq in E. subst c. discriminate.
Qed.
Lemma fields_tokens ts : Forall tok_ok ts -> fields (unwords sp1 ts) = ts.
Proof. intros H. apply fields_unwords; [discriminate|reflexivity|exact H]. Qed.
Lemma tok_nonl t : tok_ok t -> nonl t.
Proof. intros [_ H] Hin. pose proof (nsp_in _ _ H Hin). discriminate. Qed.
Lemma unwords_nonl ts : Forall tok_ok ts -> nonl (unwords sp1 ts).
Proof.
  induction 1 as [|t ts' Ht _ IH]; [intros []|]. destruct ts' as [|t2 ts''].
  - now apply tok_nonl.
  - change (unwords sp1 (t :: t2 :: ts'')) with (t ++ sp1 ++ unwords sp1 (t2 :: ts'')).
    intros Hin. apply in_app_or in Hin as [Hin|Hin]; [now apply (tok_nonl t Ht)|].
    apply in_app_or in Hin as [[Hin|[]]|Hin]; [discriminate|now apply IH].
Qed.

(* the text of one import / export line without its newline *)
Definition line_of (kw : bytes) (m : nmount) : bytes :=
  unwords sp1 [kw; nm_fstype m; nm_source m; nm_mount m].
Lemma lf_line_eq kw m : lf_line kw m = line_of kw m ++ [nl].
Proof.
  unfold lf_line, line_of, sp1. cbn [unwords]. repeat (rewrite <- app_assoc; cbn [app]). reflexivity.
Qed.

Lemma canon_m_toks m : canon_m m -> tok_ok (nm_fstype m) /\ tok_ok (nm_source m) /\ tok_ok (nm_mount m).
Proof.
  intros (H1 & (s & Hs & ->) & (x & Hx & ->)). repeat split; try apply H1; try apply clean_nonempty.
  - now apply clean_nsp, Hs.
  - apply clean_nsp. destruct Hx as [_ Hx]. unfold nsp in *. cbn [forallb]. now rewrite Hx.
Qed.
Lemma canon_e_toks m : canon_e m -> tok_ok (nm_fstype m) /\ tok_ok (nm_source m) /\ tok_ok (nm_mount m).
Proof.
  intros (H1 & (s & Hs & ->) & (x & Hx & ->)). repeat split; try apply H1; try apply clean_nonempty.
  - now apply clean_nsp, Hs.
  - now apply clean_nsp, Hx.
Qed.

Lemma tok_import : tok_ok (bs "import").
Proof. split; [discriminate|reflexivity]. Qed.
Lemma tok_export : tok_ok (bs "export").
Proof. split; [discriminate|reflexivity]. Qed.
Lemma tok_base : tok_ok (bs "base").
Proof. split; [discriminate|reflexivity]. Qed.

Lemma is_comment_tokens kw ts : tok_ok kw -> (bn (hd spc kw) =? 35)%N = false -> (bn (hd spc kw) =? 47)%N = false ->
  is_comment (unwords sp1 (kw :: ts)) = false.
Proof.
  intros [Hk _] H1 H2. destruct kw as [|c k']; [congruence|]. cbn [hd] in *.
  destruct ts; cbn [unwords app is_comment]; rewrite H1, H2; cbn [orb andb]; destruct k'; try reflexivity; destruct (k' ++ _); reflexivity.
Qed.

Lemma lf_step_import st m : canon_m m ->
  lf_step st (strip_cr (line_of (bs "import") m)) =
  MkLF (lf_base st) (lf_mounts st ++ [m]) (lf_exports st) (lf_errors st).
Proof.
  intros Hm. destruct (canon_m_toks m Hm) as (T1 & T2 & T3).
  assert (HT : Forall tok_ok [bs "import"; nm_fstype m; nm_source m; nm_mount m]).
  { constructor; [apply tok_import|]. constructor; [exact T1|]. constructor; [exact T2|]. constructor; [exact T3|constructor]. }
  unfold line_of. rewrite strip_cr_tokens by (try discriminate; exact HT).
  unfold lf_step. cbv zeta. rewrite trim_tokens by (try discriminate; exact HT).
  rewrite is_comment_tokens by (try apply tok_import; reflexivity).
  rewrite fields_tokens by exact HT.
  change (beq (bs "import") (bs "base")) with false. change (beq (bs "import") (bs "import")) with true. cbv iota.
  f_equal. f_equal. destruct Hm as (_ & (s & _ & Es) & (x & _ & Ex)). destruct m as [mm ms mt]. cbn [nm_mount nm_source nm_fstype] in *. subst.
  now rewrite clean_sl_clean_sl, clean_idem.
Qed.
Lemma lf_step_export st m : canon_e m ->
  lf_step st (strip_cr (line_of (bs "export") m)) =
  MkLF (lf_base st) (lf_mounts st) (lf_exports st ++ [m]) (lf_errors st).
Proof.
  intros Hm. destruct (canon_e_toks m Hm) as (T1 & T2 & T3).
  assert (HT : Forall tok_ok [bs "export"; nm_fstype m; nm_source m; nm_mount m]).
  { constructor; [apply tok_export|]. constructor; [exact T1|]. constructor; [exact T2|]. constructor; [exact T3|constructor]. }
  unfold line_of. rewrite strip_cr_tokens by (try discriminate; exact HT).
  unfold lf_step. cbv zeta. rewrite trim_tokens by (try discriminate; exact HT).
  rewrite is_comment_tokens by (try apply tok_export; reflexivity).
  rewrite fields_tokens by exact HT.
  change (beq (bs "export") (bs "base")) with false. change (beq (bs "export") (bs "import")) with false.
  change (beq (bs "export") (bs "export")) with true. cbv iota.
  f_equal. f_equal. destruct Hm as (_ & (s & _ & Es) & (x & _ & Ex)). destruct m as [mm ms mt]. cbn [nm_mount nm_source nm_fstype] in *. subst.
  now rewrite !clean_idem.
Qed.
Lemma lf_step_empty st : lf_step st (strip_cr []) = st.
Proof. reflexivity. Qed.
Lemma lf_step_base b : tok_ok b ->
  lf_step (MkLF [] [] [] 0) (strip_cr (unwords sp1 [bs "base"; b])) = MkLF b [] [] 0.
Proof.
  intros Hb. assert (HT : Forall tok_ok [bs "base"; b]).
  { constructor; [apply tok_base|]. constructor; [exact Hb|constructor]. }
  rewrite strip_cr_tokens by (try discriminate; exact HT).
  unfold lf_step. cbv zeta. rewrite trim_tokens by (try discriminate; exact HT).
  rewrite is_comment_tokens by (try apply tok_base; reflexivity).
  rewrite fields_tokens by exact HT. reflexivity.
Qed.

Lemma fold_imports ms : Forall canon_m ms -> forall st,
  fold_left lf_step (map strip_cr (map (line_of (bs "import")) ms)) st =
  MkLF (lf_base st) (lf_mounts st ++ ms) (lf_exports st) (lf_errors st).
Proof.
  induction 1 as [|m ms Hm _ IH]; intros st; cbn [map fold_left].
  - rewrite app_nil_r. now destruct st.
  - rewrite lf_step_import by exact Hm. rewrite IH. cbn [lf_base lf_mounts lf_exports lf_errors].
    now rewrite <- app_assoc.
Qed.
Lemma fold_exports es : Forall canon_e es -> forall st,
  fold_left lf_step (map strip_cr (map (line_of (bs "export")) es)) st =
  MkLF (lf_base st) (lf_mounts st) (lf_exports st ++ es) (lf_errors st).
Proof.
  induction 1 as [|m ms Hm _ IH]; intros st; cbn [map fold_left].
  - rewrite app_nil_r. now destruct st.
  - rewrite lf_step_export by exact Hm. rewrite IH. cbn [lf_base lf_mounts lf_exports lf_errors].
    now rewrite <- app_assoc.
Qed.

Definition all_lines (b : bytes) (ms es : list nmount) : list bytes :=
  (match b with [] => [] | _ => [unwords sp1 [bs "base"; b]; []] end)
  ++ map (line_of (bs "import")) ms
  ++ (match es with [] => [] | _ => [[]] end)
  ++ map (line_of (bs "export")) es.
Lemma lines_text_app a b : lines_text (a ++ b) = lines_text a ++ lines_text b.
Proof. unfold lines_text. now rewrite map_app, concat_app. Qed.
Lemma chunks_text b ms es : concat (layerfile_chunks b ms es) = lines_text (all_lines b ms es).
Proof.
  unfold layerfile_chunks, all_lines. rewrite !concat_app, !lines_text_app. f_equal; [|f_equal; [|f_equal]].
  - destruct b as [|c b']; [reflexivity|]. unfold lines_text, sp1. cbn [map concat unwords].
    rewrite app_nil_r. repeat (rewrite <- app_assoc; cbn [app]). reflexivity.
  - unfold lines_text. rewrite map_map. f_equal. apply map_ext. intros m. apply lf_line_eq.
  - destruct es; reflexivity.
  - unfold lines_text. rewrite map_map. f_equal. apply map_ext. intros m. apply lf_line_eq.
Qed.

Theorem layerfile_roundtrip b ms es : (b = [] \/ tok_ok b) -> Forall canon_m ms -> Forall canon_e es ->
  read_layerfile (concat (layerfile_chunks b ms es)) = MkLF b ms es 0.
Proof.
  intros Hb Hm He. unfold read_layerfile. rewrite chunks_text, scan_lines_text.
  2:{ unfold all_lines. repeat (apply Forall_app; split).
      - destruct b as [|c b']; [constructor|]. destruct Hb as [Hb|Hb]; [discriminate|].
        constructor; [apply unwords_nonl; constructor; [apply tok_base|constructor; [exact Hb|constructor]]|constructor; [intros []|constructor]].
      - apply Forall_forall. intros l Hl. apply in_map_iff in Hl as (m & <- & Hin).
        rewrite Forall_forall in Hm. destruct (canon_m_toks m (Hm m Hin)) as (T1 & T2 & T3).
        apply unwords_nonl. constructor; [apply tok_import|]. constructor; [exact T1|]. constructor; [exact T2|]. constructor; [exact T3|constructor].
      - destruct es; [constructor|constructor; [intros []|constructor]].
      - apply Forall_forall. intros l Hl. apply in_map_iff in Hl as (m & <- & Hin).
        rewrite Forall_forall in He. destruct (canon_e_toks m (He m Hin)) as (T1 & T2 & T3).
        apply unwords_nonl. constructor; [apply tok_export|]. constructor; [exact T1|]. constructor; [exact T2|]. constructor; [exact T3|constructor]. }
  unfold all_lines. rewrite !map_app, !fold_left_app.
  assert (B : fold_left lf_step (map strip_cr (match b with [] => [] | _ => [unwords sp1 [bs "base"; b]; []] end))
                (MkLF [] [] [] 0) = MkLF b [] [] 0).
  { destruct b as [|c b']; [reflexivity|]. destruct Hb as [Hb|Hb]; [discriminate|].
    cbn [map fold_left]. rewrite lf_step_base by exact Hb. reflexivity. }
  rewrite B, fold_imports by exact Hm. cbn [lf_base lf_mounts lf_exports lf_errors app].
  assert (S : forall st, fold_left lf_step (map strip_cr (match es with [] => [] | _ => [[]] end)) st = st).
  { intros st. destruct es; reflexivity. }
  rewrite S, fold_exports by exact He. reflexivity.
Qed.
