(* One whole invocation under a plain environment: the prefix common to all layer commands
   (base check, FindLayers, ProbeAllLayerstate) leaves the state untouched and either fails or
   hands the command the pure [probe_pure] layer definitions. *)
From Coq Require Import Sorting.Permutation.
From LC Require Import Lib.Bytes Lib.Lex Lib.Fields Lib.PathM Gen.Consts
  Model.MountInfo Model.FsTree Model.Kernel Model.Layers
  Proofs.MountInfoP Proofs.KernelP Proofs.KrnMonadP Proofs.ProbeP Cases.LC.
Import LC LCS.
Open Scope N_scope.

Lemma plain_env_plain e : plain_env e = true -> plain e.
Proof.
  unfold plain_env, plain. rewrite andb_true_iff, negb_true_iff. intros [H1 H2]. split; [exact H1|].
  destruct (e_fault e); [reflexivity|discriminate|discriminate].
Qed.

Definition omap {A B} (g : A -> B) (r : outcome A * mst) : outcome B * mst :=
  match r with
  | (Ret a, s) => (Ret (g a), s)
  | (Fail, s) => (Fail, s)
  | (Crashed, s) => (Crashed, s)
  | (Diverged, s) => (Diverged, s)
  | (Panicked, s) => (Panicked, s)
  end.
Lemma bind_ret_map {A B} (m : M A) (g : A -> B) s : bind m (fun a => ret (g a)) s = omap g (m s).
Proof. unfold bind, omap, ret. destruct (m s) as [[a| | | |] s']; reflexivity. Qed.

Definition cmd_body (e : env) (c : cfgT) (ld : ldefs) (cmd : command) : M ldefs :=
  match cmd with
  | CAdd n b0 cf => add_layer e c ld n b0 cf
  | CRemove n fl => remove_layer e c ld n fl
  | CRename a b0 => rename_layer e c ld a b0
  | CRebase a b0 => rebase_layer e c ld a b0
  | CMkdirs a => makedirs e c ld a
  | CMount a => mount_layer e c ld a
  | CUmount a all => unmount e c ld a all
  | CShake => shake e c ld
  | CChroot a => chroot_prepare e c ld a
  | CProbe => ret ld
  | _ => ret ld
  end.

Definition layer_cmd (cmd : command) : bool :=
  match cmd with CInit | CKMount _ _ _ _ _ | CKUmount _ | CEdit _ _ => false | _ => true end.

Lemma run_unfold e c um cmd w : layer_cmd cmd = true ->
  run e c um cmd w =
  let s0 := MkSt w 0 [] in
  if base_set_up c (w_fs w) then
    match get_layers c um s0 with
    | (Ret ld, s1) => omap Some (cmd_body e c ld cmd s1)
    | (Fail, s1) => (Fail, s1)
    | (Crashed, s1) => (Crashed, s1)
    | (Diverged, s1) => (Diverged, s1)
    | (Panicked, s1) => (Panicked, s1)
    end
  else (Fail, s0).
Proof.
  intros Hc. unfold run.
  assert (E : run_command e c um cmd =
              (f <- get_fs ;; guard (base_set_up c f) ;;; ld <- get_layers c um ;;
               ld' <- cmd_body e c ld cmd ;; ret (Some ld'))).
  { destruct cmd; try discriminate; reflexivity. }
  rewrite E. cbv zeta. unfold bind at 1. unfold get_fs. cbn [s_w].
  unfold bind at 1. unfold guard. destruct (base_set_up c (w_fs w)); [|reflexivity].
  unfold ret at 1. unfold bind at 1.
  destruct (get_layers c um _) as [[ld| | | |] s1]; try reflexivity.
  all: apply bind_ret_map.
Qed.

(* the world-level hypotheses *)
Definition s0_of (w : world) : mst := MkSt w 0 [].

Inductive run_shape (e : env) (c : cfgT) (um : users_map) (cmd : command) (w : world) : Prop :=
| RS_fail : run e c um cmd w = (Fail, s0_of w) -> run_shape e c um cmd w
| RS_go o :
    base_set_up c (w_fs w) = true -> check_inheritance (read_layer_files c (w_fs w)) = true ->
    normalize_order (read_layer_files c (w_fs w)) = Some o ->
    run e c um cmd w
    = omap Some (cmd_body e c (probe_pure c um (w_fs w) (ks_tab (w_ks w)) (read_layer_files c (w_fs w)) o) cmd (s0_of w)) ->
    run_shape e c um cmd w.

Lemma run_cases e c um cmd w : layer_cmd cmd = true -> wf_table (ks_tab (w_ks w)) = true ->
  run_shape e c um cmd w.
Proof.
  intros Hc Hwf. pose proof (run_unfold e c um cmd w Hc) as R. cbv zeta in R.
  destruct (base_set_up c (w_fs w)) eqn:Eb; [|now apply RS_fail].
  rewrite get_layers_spec in R by exact Hwf. cbv zeta in R. cbn [s_w w_fs w_ks] in R.
  destruct (negb (is_dir (w_fs w) (c_layers c))); [now apply RS_fail|].
  destruct (check_inheritance (read_layer_files c (w_fs w))) eqn:Ec; cbn [negb] in R; [|now apply RS_fail].
  destruct (normalize_order (read_layer_files c (w_fs w))) as [o|] eqn:En.
  - eapply RS_go; eauto.
  - exfalso. now apply (normalize_total _ Ec).
Qed.

(* the view of the model's step *)
Lemma view_of_run c w e cmd um o st : run e c um cmd (world_of w) = (o, st) ->
  view_of_model c w e cmd um =
  MkV e cmd um (rclass_of o) (rev (s_log st)) (MkWO (w_fs (s_w st)) (w_ks (s_w st)))
      (match o with Ret (Some ld) => Some (sort_lobs (map lobs_of (ld_map ld))) | _ => None end).
Proof. intros H. unfold view_of_model. now rewrite H. Qed.

Lemma unchanged_refl w v : wo_fs (v_after v) = wo_fs w -> ks_tab (wo_ks (v_after v)) = ks_tab (wo_ks w) ->
  unchanged w v = true.
Proof. intros H1 H2. unfold unchanged. rewrite H1, H2, fs_beq_refl, ktab_beq_refl. reflexivity. Qed.

(* decidable uniqueness *)
Lemma nodup_paths_spec l : nodup_paths l = true -> NoDup l.
Proof.
  induction l as [|x l IH]; cbn; [constructor|]. rewrite andb_true_iff, negb_true_iff.
  intros [H1 H2]. constructor; [now apply memb_false|auto].
Qed.

(* with the base directory set up and the hierarchy a forest, the command body always runs *)
Lemma base_set_up_layers c f : base_set_up c f = true -> is_dir f (c_layers c) = true.
Proof.
  unfold base_set_up. intros Hb. apply andb_true_iff in Hb as [Hb _]. apply andb_true_iff in Hb as [Hb _].
  apply andb_true_iff in Hb as [_ Hb]. exact Hb.
Qed.

Lemma run_go e c um cmd w : layer_cmd cmd = true -> wf_table (ks_tab (w_ks w)) = true ->
  base_set_up c (w_fs w) = true -> check_inheritance (read_layer_files c (w_fs w)) = true ->
  exists o, normalize_order (read_layer_files c (w_fs w)) = Some o /\
    run e c um cmd w
    = omap Some (cmd_body e c (probe_pure c um (w_fs w) (ks_tab (w_ks w)) (read_layer_files c (w_fs w)) o) cmd (s0_of w)).
Proof.
  intros Hc Hwf Hb Hci. pose proof (base_set_up_layers _ _ Hb) as Hd.
  pose proof (run_unfold e c um cmd w Hc) as R. cbv zeta in R.
  destruct (base_set_up c (w_fs w)); [|discriminate].
  rewrite get_layers_spec in R by exact Hwf. cbv zeta in R. cbn [s_w w_fs w_ks] in R.
  destruct (is_dir (w_fs w) (c_layers c)); [|discriminate].
  destruct (check_inheritance (read_layer_files c (w_fs w))) eqn:Ec; [|discriminate]. cbn [negb] in R.
  destruct (normalize_order (read_layer_files c (w_fs w))) as [o|] eqn:En.
  - exists o. split; [reflexivity|exact R].
  - exfalso. now apply (normalize_total _ Ec).
Qed.

(* without an installation (base directories / skeleton missing, or the layers do not form a
   forest) every layer command fails at once and leaves the machine state alone *)
Lemma run_not_set_up e c um cmd w : layer_cmd cmd = true ->
  base_set_up c (w_fs w) && check_inheritance (read_layer_files c (w_fs w)) = false ->
  run e c um cmd w = (Fail, s0_of w).
Proof.
  intros Hc Hn. pose proof (run_unfold e c um cmd w Hc) as R. cbv zeta in R.
  destruct (base_set_up c (w_fs w)) eqn:Eb; [|exact R]. cbn [andb] in Hn.
  rewrite R. unfold get_layers, find_layers, bind at 1 2, get_fs. cbv zeta. cbn [s_w w_fs].
  destruct (negb (is_dir (w_fs w) (c_layers c))); [reflexivity|]. rewrite Hn. reflexivity.
Qed.
