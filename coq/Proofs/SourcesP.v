(* GetMountSources / MountSourceIsExpected (fs/mounts.go) against the kernel identity of a bind
   mount: whenever the kernel table shows that mount k is a bind of [src] (device and root of the
   mount that contained src when k was attached), GetMountSources reconstructs [src] from the
   probed table -- through the device's root mounts or, since the bind-of-bind repair, through
   its mounts of subtrees. *)
From LC Require Import Lib.Bytes Lib.Lex Lib.Fields Lib.PathM Gen.Consts
  Model.MountInfo Model.FsTree Model.Kernel Model.Layers Cases.Verdict Cases.LC
  Proofs.PathP Proofs.StageWildP Proofs.ViewP Proofs.C08DocP.
Open Scope N_scope.
Import LC LCS.

(* ------------------------------------------------------------------ the device list *)
Lemma dev_add_other devs dev name root mp dev' : beq dev dev' = false ->
  find_dev (dev_add devs dev name root mp) dev' = find_dev devs dev'.
Proof.
  intros Hne. induction devs as [|d r IH]; cbn [dev_add find_dev].
  - cbn [d_dev]. now rewrite Hne.
  - destruct (beq (d_dev d) dev) eqn:E; cbn [find_dev d_dev].
    + apply beq_true in E. rewrite E, Hne. reflexivity.
    + destruct (beq (d_dev d) dev'); [reflexivity|exact IH].
Qed.

(* the entry of [dev] after dev_add: the mount is recorded, nothing is lost, the name stays *)
Lemma dev_add_same devs dev name root mp :
  exists d1, find_dev (dev_add devs dev name root mp) dev = Some d1
  /\ (if beq root [slash] then In mp (d_roots d1) else In (root, mp) (d_subroots d1))
  /\ match find_dev devs dev with
     | Some d => d_name d1 = d_name d /\ incl (d_roots d) (d_roots d1) /\ incl (d_subroots d) (d_subroots d1)
     | None => d_name d1 = name
     end.
Proof.
  induction devs as [|d r IH]; cbn [dev_add find_dev].
  - cbn [d_dev]. rewrite beq_refl. eexists. split; [reflexivity|]. cbn [d_roots d_subroots d_name].
    split; [|reflexivity]. destruct (beq root [slash]); now left.
  - destruct (beq (d_dev d) dev) eqn:E; cbn [find_dev d_dev]; rewrite E.
    + eexists. split; [reflexivity|]. cbn [d_roots d_subroots d_name]. split.
      * destruct (beq root [slash]); apply in_or_app; right; now left.
      * split; [reflexivity|]. split; destruct (beq root [slash]);
          first [apply incl_refl | apply incl_appl, incl_refl].
    + exact IH.
Qed.

Lemma devs_of_keep T : forall d0 dev d, find_dev d0 dev = Some d ->
  exists d', find_dev (devs_of T d0) dev = Some d' /\ d_name d' = d_name d
             /\ incl (d_roots d) (d_roots d') /\ incl (d_subroots d) (d_subroots d').
Proof.
  induction T as [|k T IH]; intros d0 dev d H; cbn [devs_of fold_left].
  - exists d. repeat split; auto using incl_refl.
  - fold (devs_of T (dev_add d0 (k_dev k) (k_source k) (k_root k) (k_mp k))).
    destruct (beq (k_dev k) dev) eqn:E.
    + apply beq_true in E. subst dev.
      destruct (dev_add_same d0 (k_dev k) (k_source k) (k_root k) (k_mp k)) as (d1 & H1 & _ & H3).
      rewrite H in H3. destruct H3 as (N & R & S).
      destruct (IH _ _ _ H1) as (d' & H' & N' & R' & S'). exists d'. split; [exact H'|].
      split; [congruence|]. split; eapply incl_tran; eassumption.
    + apply IH. now rewrite dev_add_other.
Qed.

Lemma devs_of_in T : forall d0 m, In m T ->
  exists d, find_dev (devs_of T d0) (k_dev m) = Some d
  /\ (if beq (k_root m) [slash] then In (k_mp m) (d_roots d) else In (k_root m, k_mp m) (d_subroots d)).
Proof.
  induction T as [|k T IH]; intros d0 m Hin; [destruct Hin|]. cbn [devs_of fold_left].
  fold (devs_of T (dev_add d0 (k_dev k) (k_source k) (k_root k) (k_mp k))).
  destruct Hin as [->|Hin]; [|now apply IH].
  destruct (dev_add_same d0 (k_dev m) (k_source m) (k_root m) (k_mp m)) as (d1 & H1 & H2 & _).
  destruct (devs_of_keep T _ _ _ H1) as (d' & H' & _ & R' & S'). exists d'. split; [exact H'|].
  destruct (beq (k_root m) [slash]); [now apply R'|now apply S'].
Qed.

(* the name of a device is the source string of its first line *)
Fixpoint first_with_dev (T : list kline) (dev : bytes) : option kline :=
  match T with [] => None | k :: r => if beq (k_dev k) dev then Some k else first_with_dev r dev end.

Lemma devs_of_name T : forall d0 dev, find_dev d0 dev = None ->
  match first_with_dev T dev with
  | Some k0 => exists d, find_dev (devs_of T d0) dev = Some d /\ d_name d = k_source k0
  | None => find_dev (devs_of T d0) dev = None
  end.
Proof.
  induction T as [|k T IH]; intros d0 dev H; cbn [first_with_dev devs_of fold_left]; [exact H|].
  fold (devs_of T (dev_add d0 (k_dev k) (k_source k) (k_root k) (k_mp k))).
  destruct (beq (k_dev k) dev) eqn:E.
  - apply beq_true in E. subst dev.
    destruct (dev_add_same d0 (k_dev k) (k_source k) (k_root k) (k_mp k)) as (d1 & H1 & _ & H3).
    rewrite H in H3. destruct (devs_of_keep T _ _ _ H1) as (d' & H' & N' & _). exists d'. split; [exact H'|congruence].
  - apply IH. now rewrite dev_add_other.
Qed.

(* ------------------------------------------------------------------ the covering mount *)
Lemma covering_ind (Q : kline -> Prop) T p :
  (forall k, In k T -> at_or_under (k_mp k) p = true -> Q k) ->
  forall c, covering T p = Some c -> Q c.
Proof.
  unfold covering. intros HQ.
  assert (G : forall best, (forall b, best = Some b -> Q b) -> forall c,
    fold_left (fun best k =>
      if at_or_under (k_mp k) p then
        match best with
        | Some b0 => if (length (k_mp b0) <=? length (k_mp k))%nat then Some k else best
        | None => Some k
        end
      else best) T best = Some c -> Q c).
  { induction T as [|k T IH]; intros best Hb c; cbn [fold_left]; [apply Hb|].
    apply IH.
    - intros k' Hk'. apply HQ. now right.
    - intros b. destruct (at_or_under (k_mp k) p) eqn:E; [|apply Hb].
      assert (Qk : Q k) by (apply HQ; [now left|exact E]).
      destruct best as [b0|]; [destruct (_ <=? _)%nat|]; intros H; first [injection H as <-; exact Qk | now apply Hb]. }
  intros c. apply G. intros b H. discriminate.
Qed.

Lemma covering_in T p c : covering T p = Some c -> In c T /\ at_or_under (k_mp c) p = true.
Proof. apply (covering_ind (fun c => In c T /\ at_or_under (k_mp c) p = true)). auto. Qed.

Lemma before_line_incl T k x : In x (before_line T k) -> In x T.
Proof.
  induction T as [|m r IH]; cbn [before_line]; [intros []|].
  destruct (beq (k_id m) (k_id k)); [intros []|]. intros [<-|H]; [now left|right; auto].
Qed.

(* ------------------------------------------------------------------ path.Join(mountpoint, relative part) *)
Lemma stepc_empty r st : stepc r st [] = st.
Proof. reflexivity. Qed.

Lemma fold_skip_empty r a b st :
  fold_left (stepc r) (a ++ [] :: b) st = fold_left (stepc r) (a ++ b) st.
Proof. rewrite !fold_left_app. cbn [fold_left]. now rewrite stepc_empty. Qed.

Lemma clean_eq_fold p1 p2 : p1 <> [] -> p2 <> [] -> is_rooted p1 = is_rooted p2 ->
  fold_left (stepc (is_rooted p1)) (psplit p1) [] = fold_left (stepc (is_rooted p1)) (psplit p2) [] ->
  clean p1 = clean p2.
Proof.
  intros H1 H2 Hr Hf. rewrite (clean_unfold _ H1), (clean_unfold _ H2). unfold cstack.
  rewrite <- Hr, Hf. reflexivity.
Qed.

Lemma psplit_cons_sl r : psplit (sl :: r) = [] :: psplit r.
Proof. unfold psplit, split. cbn [split_acc]. now rewrite Ascii.eqb_refl. Qed.

Lemma skipn_app_exact {A} (a b : list A) : skipn (length a) (a ++ b) = b.
Proof. induction a; cbn; auto. Qed.

Lemma pathjoin2_rel mp src :
  beq (clean mp) mp = true -> is_abs mp = true -> beq (clean src) src = true -> is_abs src = true ->
  at_or_under mp src = true ->
  pathjoin2 mp (rel_suffix mp src) = src
  /\ (rel_suffix mp src = [] \/ exists r, rel_suffix mp src = sl :: r).
Proof.
  intros Cmp Amp Csrc Asrc Hau. apply beq_true in Cmp, Csrc.
  assert (Nmp : mp <> []) by (destruct mp; [discriminate|discriminate]).
  assert (Nsrc : src <> []) by (destruct src; [discriminate|discriminate]).
  unfold at_or_under in Hau. apply orb_true_iff in Hau as [Heq|Hun].
  - apply beq_true in Heq. subst src.
    assert (E : rel_suffix mp mp = []).
    { unfold rel_suffix. destruct (beq mp root); [reflexivity|].
      rewrite <- (app_nil_r mp) at 2. apply skipn_app_exact. }
    rewrite E. split; [|now left]. unfold pathjoin2, pathjoin.
    destruct mp as [|a m']; [congruence|]. cbn [filter beq negb pjoin join]. exact Cmp.
  - unfold under in Hun. unfold rel_suffix. destruct (beq mp root) eqn:Er.
    + apply beq_true in Er. subst mp. apply andb_true_iff in Hun as [_ Hne]. apply negb_true_iff in Hne.
      rewrite Hne. split.
      2:{ right. destruct src as [|ch r]; [congruence|]. cbn in Asrc. apply Ascii.eqb_eq in Asrc. subst ch. eauto. }
      unfold pathjoin2, pathjoin. destruct src as [|ch r]; [congruence|]. unfold root. cbn [filter beq negb].
      change (pjoin [[sl]; ch :: r]) with ([sl] ++ sl :: ch :: r).
      transitivity (clean (ch :: r)); [|exact Csrc]. apply clean_eq_fold; [discriminate|discriminate| |].
      * symmetry. exact Asrc.
      * unfold psplit at 1. rewrite split_app_sep. fold psplit.
        change (psplit [sl]) with ([[]; @nil ascii]). cbn [app fold_left]. rewrite !stepc_empty. reflexivity.
    + apply prefixb_spec in Hun as (r & ->). rewrite <- app_assoc. cbn [app].
      rewrite skipn_app_exact. split; [|right; eauto].
      unfold pathjoin2, pathjoin. destruct mp as [|a m']; [congruence|]. cbn [filter beq negb].
      change (pjoin [a :: m'; sl :: r]) with ((a :: m') ++ sl :: sl :: r).
      rewrite <- app_assoc in Csrc. cbn [app] in Csrc.
      transitivity (clean ((a :: m') ++ sl :: r)); [|exact Csrc].
      apply clean_eq_fold; [discriminate|discriminate|reflexivity|].
      unfold psplit. rewrite !split_app_sep. fold psplit. rewrite psplit_cons_sl.
      apply fold_skip_empty.
Qed.

Lemma pathjoin2_slash mp : mp <> [] -> pathjoin2 mp [sl] = pathjoin2 mp [].
Proof.
  intros H. unfold pathjoin2, pathjoin. destruct mp as [|a m']; [congruence|]. cbn [filter beq negb].
  change (pjoin [a :: m'; [sl]]) with ((a :: m') ++ sl :: [sl]). change (pjoin [a :: m']) with (a :: m').
  apply clean_eq_fold; [discriminate|discriminate|reflexivity|].
  unfold psplit. rewrite split_app_sep. fold psplit. change (psplit [sl]) with ([[]; @nil ascii]).
  rewrite fold_left_app. reflexivity.
Qed.

Lemma memb_in x l : In x l -> memb x l = true.
Proof. intros H. unfold memb. apply existsb_exists. exists x. split; [exact H|apply beq_refl]. Qed.

(* mountpoints are clean absolute paths *)
Definition regular_table (T : list kline) : bool :=
  forallb (fun k => is_abs (k_mp k) && beq (clean (k_mp k)) (k_mp k)) T.

(* an overlay mount that shows the root of the overlay: GetMountSources offers its lower
   directory only (a bind of a directory INSIDE an overlay has another root and is resolved
   through the device like any other bind) *)
Definition ovl_root (k : kline) : bool := beq (k_fstype k) overlay && beq (k_root k) [slash].

Lemma source_choice k : ovl_root k = false ->
  (if beq (m_root (mount_of_k k)) [slash] then m_source (mount_of_k k) else []) = [].
Proof.
  unfold ovl_root, mount_of_k. cbn [m_source m_root]. destruct (beq (k_root k) [slash]); [|reflexivity].
  rewrite andb_true_r. now intros ->.
Qed.

(* ------------------------------------------------------------------ shown => expected, bind imports *)
Theorem shown_bind_expected T k src ty :
  regular_table T = true -> In k T -> is_bind_type ty = true ->
  ovl_root k = false ->
  is_abs src = true -> beq (clean src) src = true -> beq src (k_mp k) = false ->
  shows_source T k src ty = true ->
  source_is_expected (devs_of T []) (mount_of_k k) src = true.
Proof.
  intros Hreg Hk Hty Hov Asrc Csrc Hnk Hs. unfold shows_source in Hs. rewrite Hty in Hs.
  destruct (covering (before_line T k) src) as [cv|] eqn:Ecv; [|discriminate].
  apply andb_true_iff in Hs as [Hdev Hroot]. apply beq_true in Hdev, Hroot.
  apply covering_in in Ecv as [Hin Hau]. apply before_line_incl in Hin.
  unfold regular_table in Hreg. rewrite forallb_forall in Hreg. specialize (Hreg cv Hin).
  apply andb_true_iff in Hreg as [Amp Cmp].
  destruct (pathjoin2_rel (k_mp cv) src Cmp Amp Csrc Asrc Hau) as [Hpj Hrel].
  assert (Nmp : k_mp cv <> []) by (destruct (k_mp cv); discriminate).
  destruct (devs_of_in T [] cv Hin) as (d & Hfd & Hd). rewrite <- Hdev in Hfd.
  unfold source_is_expected, mount_sources. cbv zeta. rewrite (source_choice k Hov).
  unfold mount_of_k. cbn [m_dev m_source m_root m_mp].
  rewrite Hfd. apply memb_in.
  set (rel := rel_suffix (k_mp cv) src) in *.
  destruct (beq (k_root cv) [slash]) eqn:Ecr.
  - (* cv shows the root of its file system *)
    apply in_or_app. right. apply in_or_app. left. apply filter_In. split.
    2:{ now rewrite Hnk. }
    apply in_map_iff. exists (k_mp cv). split; [|exact Hd].
    apply beq_true in Ecr. rewrite Hroot, Ecr. unfold join_root. change (beq [slash] root) with true. cbv iota.
    destruct Hrel as [Er|(r & Er)]; rewrite Er in *.
    + cbn [beq Ascii.eqb]. rewrite beq_refl. exact Hpj.
    + destruct (beq (sl :: r) [slash]) eqn:E1; [|exact Hpj].
      apply beq_true in E1. rewrite E1 in Hpj. rewrite <- Hpj. symmetry. now apply pathjoin2_slash.
  - (* cv shows a subtree: the repaired part of GetMountSources *)
    apply in_or_app. right. apply in_or_app. right. apply filter_In. split.
    2:{ now rewrite Hnk. }
    apply in_flat_map. exists (k_root cv, k_mp cv). split; [exact Hd|]. cbn [fst snd].
    assert (Hjr : k_root k = k_root cv ++ rel).
    { rewrite Hroot. unfold join_root. change root with [slash]. now rewrite Ecr. }
    rewrite Hjr.
    assert (Ht : beq (k_root cv ++ rel) (k_root cv) || prefixb (k_root cv ++ [slash]) (k_root cv ++ rel) = true).
    { destruct Hrel as [Er|(r & Er)]; rewrite Er.
      - rewrite app_nil_r, beq_refl. reflexivity.
      - apply orb_true_iff. right. apply prefixb_spec. exists r. rewrite <- app_assoc. reflexivity. }
    rewrite Ht. left. rewrite skipn_app_exact. exact Hpj.
Qed.

(* ------------------------------------------------------------------ shown => expected, other file systems *)
Definition dev_named (T : list kline) (k : kline) : bool :=
  match first_with_dev T (k_dev k) with
  | Some k0 => beq (k_source k0) (k_source k)
  | None => false
  end.

Theorem shown_fs_expected T k src ty :
  In k T -> is_bind_type ty = false -> ovl_root k = false ->
  beq (k_root k) [slash] = true -> dev_named T k = true ->
  shows_source T k src ty = true ->
  source_is_expected (devs_of T []) (mount_of_k k) src = true.
Proof.
  intros Hk Hty Hov Hroot Hnm Hs. unfold shows_source in Hs. rewrite Hty in Hs.
  apply andb_true_iff in Hs as [_ Hsrc]. apply beq_true in Hsrc.
  unfold dev_named in Hnm. pose proof (devs_of_name T [] (k_dev k) eq_refl) as Hn.
  destruct (first_with_dev T (k_dev k)) as [k0|]; [|discriminate]. apply beq_true in Hnm.
  destruct Hn as (d & Hfd & Hname).
  unfold source_is_expected, mount_sources. cbv zeta. rewrite (source_choice k Hov).
  unfold mount_of_k. cbn [m_dev m_source m_root m_mp].
  rewrite Hfd, Hroot. apply memb_in. cbn [app]. left. congruence.
Qed.

(* ------------------------------------------------------------------ mount(2) makes binds that are shown *)
Lemma before_line_new T k more : (forall m, In m T -> beq (k_id m) (k_id k) = false) ->
  before_line (T ++ k :: more) k = T.
Proof.
  induction T as [|m r IH]; intros H; cbn [app before_line].
  - now rewrite beq_refl.
  - rewrite (H m (or_introl eq_refl)). f_equal. apply IH. intros m' Hm'. apply H. now right.
Qed.

Lemma rbind_copies_app subs : forall id tab src tgt,
  exists more, fst (rbind_copies id tab subs src tgt) = tab ++ more.
Proof.
  induction subs as [|m r IH]; intros id tab src tgt; cbn [rbind_copies].
  - exists []. now rewrite app_nil_r.
  - destruct (IH (id + 1) (tab ++ [MkK (dec id) (parent_id tab (tgt ++ rel_suffix src (k_mp m))) (k_dev m) (k_root m)
                                    (tgt ++ rel_suffix src (k_mp m)) (k_opts m) [] (k_fstype m) (k_source m) (k_sopts m)])
                 src tgt) as (more & E).
    rewrite E. rewrite <- app_assoc. eexists. reflexivity.
Qed.

Theorem kmount_bind_shown f ks src tgt ty fl d ks' :
  has_flag fl MS_REMOUNT = false -> has_flag fl MS_SLAVE = false -> has_flag fl MS_BIND = true ->
  (forall m, In m (ks_tab ks) -> beq (k_id m) (dec (ks_nextid ks)) = false) ->
  kmount f ks src tgt ty fl d = KOk ks' ->
  exists k more, ks_tab ks' = ks_tab ks ++ k :: more /\ k_mp k = tgt
  /\ forall later ty', is_bind_type ty' = true -> shows_source (ks_tab ks' ++ later) k src ty' = true.
Proof.
  intros Hr Hsl Hb Hfresh. unfold kmount. rewrite Hr, Hsl, Hb.
  destruct (negb (exists_ f tgt)); [discriminate|]. destruct (negb (exists_ f src)); [discriminate|].
  destruct (covering (ks_tab ks) src) as [c|] eqn:Ec; [|discriminate].
  set (k := bind_line (ks_nextid ks) (ks_tab ks) c src tgt).
  assert (Hshown : forall more later ty', is_bind_type ty' = true ->
            shows_source ((ks_tab ks ++ k :: more) ++ later) k src ty' = true).
  { intros more later ty' Hty. unfold shows_source. rewrite Hty. rewrite <- app_assoc. cbn [app].
    rewrite before_line_new by exact Hfresh. rewrite Ec. unfold k, bind_line. cbn [k_dev k_root].
    now rewrite !beq_refl. }
  destruct (has_flag fl MS_REC).
  - destruct (rbind_copies_app (filter (fun m => under src (k_mp m)) (ks_tab ks)) (ks_nextid ks + 1)
                (ks_tab ks ++ [k]) src tgt) as (more & E).
    destruct (rbind_copies _ _ _ src tgt) as [tab2 id2]. cbn [fst] in E. intros H. injection H as <-.
    exists k, more. cbn [ks_tab]. rewrite E, <- app_assoc. split; [reflexivity|]. split; [reflexivity|].
    intros later ty'. apply Hshown.
  - intros H. injection H as <-. exists k, []. cbn [ks_tab]. split; [reflexivity|]. split; [reflexivity|].
    intros later ty'. apply Hshown.
Qed.

(* ------------------------------------------------------------------ agreement when the right thing is mounted *)
(* what sits on the import's mountpoint is shown by the kernel table to be the import's source,
   and is of a kind GetMountSources can reconstruct *)
Definition import_shown (tab : list kline) (em : emount) : bool :=
  match top_at tab (em_target em) with
  | None => true
  | Some k =>
    shows_source tab k (em_source em) (em_fstype em)
    && negb (ovl_root k)
    && (if is_bind_type (em_fstype em)
        then is_abs (em_source em) && beq (clean (em_source em)) (em_source em)
             && negb (beq (em_source em) (k_mp k))
        else beq (k_root k) [slash] && dev_named tab k)
  end.

Lemma import_shown_agrees tab em : regular_table tab = true ->
  import_shown tab em = true -> src_agree_one tab em = true.
Proof.
  intros Hreg. unfold import_shown, src_agree_one.
  destruct (top_at tab (em_target em)) as [k|] eqn:Et; [|reflexivity].
  apply top_at_in in Et as [Hk _]. rewrite !andb_true_iff. intros [[Hs Hov] Hc].
  apply negb_true_iff in Hov. rewrite Hs. unfold model_right.
  destruct (is_bind_type (em_fstype em)) eqn:Ety.
  - rewrite !andb_true_iff in Hc. destruct Hc as [[Ha Hcl] Hne]. apply negb_true_iff in Hne.
    now rewrite (shown_bind_expected tab k _ _ Hreg Hk Ety Hov Ha Hcl Hne Hs).
  - apply andb_true_iff in Hc as [Hr Hn].
    rewrite (shown_fs_expected tab k _ _ Hk Ety Hov Hr Hn Hs).
    unfold shows_source in Hs. rewrite Ety in Hs. apply andb_true_iff in Hs as [Hs _]. now rewrite Hs.
Qed.
