(* What the final member map contains: lower bounds (package files, VDB, standard directories,
   static /dev, user entries), the effect of omit lines, and what it does not contain. *)
From Coq Require Import Sorting.Sorted Sorting.Permutation.
From LC Require Import Lib.Bytes Lib.Lex Lib.Fields Lib.PathM Gen.Consts Model.StageList
  Proofs.StageListP Proofs.StagePathP Proofs.StageFinalP Proofs.StagePipeP.
Open Scope N_scope.
Open Scope list_scope.

(* ---------------------------------------------------------------- helpers *)
Lemma unstaged_spec all m k : memb k (unstaged all m) = true <-> In k all /\ mem k m = false.
Proof.
  unfold unstaged. rewrite memb_In, filter_In. rewrite negb_true_iff. tauto.
Qed.

Definition omits_none (ops : list op) (k : bytes) : Prop :=
  forall nm w, In (OOmit nm w) ops -> omit_hit nm w k = false.
Lemma run_ops_keeps t ops : forall m m', run_ops t ops m = Ok m' ->
  forall k, mem k m = true -> omits_none ops k -> mem k m' = true.
Proof.
  induction ops as [|o r IH]; intros m m' H k Hk Hn; cbn [run_ops] in H; [injection H as <-; exact Hk|].
  destruct (run_op t o m) as [m1| |] eqn:E; [|discriminate|discriminate].
  eapply IH; eauto.
  - destruct o as [li|nm w| |]; cbn [run_op] in E; try discriminate.
    + apply add_files_trans in E. now apply (tr_ext _ _ _ _ E).
    + unfold mem in *. rewrite (remove_files_find _ _ _ _ E). rewrite (Hn nm w (or_introl eq_refl)). exact Hk.
  - intros nm w Hin. apply Hn. now right.
Qed.

Lemma all_contents_In ps : forall ns, all_contents ps = Ok ns ->
  forall p l n, In p ps -> parse_contents (p_contents p) = Ok l -> In n l -> In n ns.
Proof.
  induction ps as [|q r IH]; intros ns H p l n Hp Hl Hn; [destruct Hp|]. cbn [all_contents] in H.
  destruct (parse_contents (p_contents q)) as [l0| |] eqn:E0; [|discriminate|discriminate].
  destruct (all_contents r) as [ms| |] eqn:Er; [|discriminate|discriminate]. injection H as <-.
  apply in_or_app. destruct Hp as [->|Hp].
  - left. rewrite E0 in Hl. injection Hl as ->. exact Hn.
  - right. eapply IH; eauto.
Qed.
Lemma all_contents_origin ps : forall ns, all_contents ps = Ok ns ->
  forall n, In n ns -> exists p l, In p ps /\ parse_contents (p_contents p) = Ok l /\ In n l.
Proof.
  induction ps as [|q r IH]; intros ns H n Hn; cbn [all_contents] in H; [injection H as <-; destruct Hn|].
  destruct (parse_contents (p_contents q)) as [l0| |] eqn:E0; [|discriminate|discriminate].
  destruct (all_contents r) as [ms| |] eqn:Er; [|discriminate|discriminate]. injection H as <-.
  apply in_app_or in Hn as [Hn|Hn].
  - exists q, l0. split; [now left|auto].
  - destruct (IH _ eq_refl n Hn) as (p & l & Hp & Hl & Hin). exists p, l. split; [now right|auto].
Qed.

Lemma run_ops_app t a : forall b m m', run_ops t (a ++ b) m = Ok m' ->
  exists ma, run_ops t a m = Ok ma /\ run_ops t b ma = Ok m'.
Proof.
  induction a as [|o r IH]; intros b m m' H; cbn [app run_ops] in *; [eauto|].
  destruct (run_op t o m) as [m1| |] eqn:E; [|discriminate H|discriminate H].
  apply IH in H as (ma & H1 & H2). eauto.
Qed.

(* user entries: what a line names is a member at the end unless a later line omits it *)
Lemma run_ops_user t ops m m' : run_ops t ops m = Ok m' ->
  forall pre li post, ops = pre ++ OAdd li :: post ->
  forall n, In n (op_targets t li) -> (li_skip li = true -> lstat t n <> None) -> omits_none post n ->
  mem n m' = true.
Proof.
  intros H pre li post -> n Hn Hs Ho. apply run_ops_app in H as (ma & _ & H). cbn [run_ops] in H.
  destruct (run_op t (OAdd li) ma) as [mb| |] eqn:E; [|discriminate H|discriminate H]. cbn [run_op] in E.
  eapply run_ops_keeps; eauto. eapply add_files_adds; eauto.
Qed.

(* omit lines: right after the line no member matches it *)
Lemma run_ops_omit t ops m m' : run_ops t ops m = Ok m' ->
  forall pre nm w post, ops = pre ++ OOmit nm w :: post ->
  forall k, omit_hit nm w k = true -> mem k m' = true -> ops_name t post k.
Proof.
  intros H pre nm w post -> k Hh Hk. apply run_ops_app in H as (ma & _ & H). cbn [run_ops] in H.
  destruct (run_op t (OOmit nm w) ma) as [mb| |] eqn:E; [|discriminate H|discriminate H]. cbn [run_op] in E.
  apply run_ops_keys in H. apply H in Hk as [Hk|Hk]; [|exact Hk].
  unfold mem in Hk. rewrite (remove_files_find _ _ _ _ E) in Hk. rewrite Hh in Hk. discriminate Hk.
Qed.

(* a name no line mentions keeps its entry or loses it *)
Lemma run_ops_frame t ops : forall m m', run_ops t ops m = Ok m' ->
  forall k, ~ ops_name t ops k -> find k m' = find k m \/ find k m' = None.
Proof.
  induction ops as [|o r IH]; intros m m' H k Hn; cbn [run_ops] in H; [injection H as <-; now left|].
  destruct (run_op t o m) as [m1| |] eqn:E; [|discriminate H|discriminate H].
  assert (Hr : ~ ops_name t r k).
  { intros (li & Hin & Hk). apply Hn. exists li. split; [now right|exact Hk]. }
  destruct (IH _ _ H k Hr) as [F|F]; [|now right]. rewrite F.
  destruct o as [li|nm w| |]; cbn [run_op] in E; try discriminate E.
  - left. apply add_files_trans in E. apply (tr_frame _ _ _ _ E). intros Hk. apply Hn. exists li. split; [now left|exact Hk].
  - rewrite (remove_files_find _ _ _ _ E). destruct (omit_hit nm w k); [now right|now left].
Qed.

(* the type flag of a member comes from its entry *)
Definition kind_fits (e : entry) (k : mkind) : Prop :=
  match e with
  | EDir => k = KDir | ESym => k = KSym | EDev => k = KDevice
  | EFile _ => k = KReg \/ k = KLink
  end.
Lemma fix_hardlinks_kinds l : forall seen x, In x (fix_hardlinks l seen) ->
  exists e, In (m_name x, e) l /\ kind_fits e (m_kind x).
Proof.
  induction l as [|[k e] r IH]; intros seen x Hx; cbn [fix_hardlinks] in Hx; [destruct Hx|].
  assert (Rest : forall seen', In x (fix_hardlinks r seen') -> exists e0, In (m_name x, e0) ((k, e) :: r) /\ kind_fits e0 (m_kind x)).
  { intros seen' H. destruct (IH _ _ H) as (e0 & H1 & H2). exists e0. split; [now right|exact H2]. }
  destruct e as [|[g|]| |].
  - destruct Hx as [<-|Hx]; [exists EDir; split; [now left|reflexivity]|eauto].
  - destruct (assocN g seen).
    + destruct Hx as [<-|Hx]; [exists (EFile (Some g)); split; [now left|now right]|eauto].
    + destruct Hx as [<-|Hx]; [exists (EFile (Some g)); split; [now left|now left]|eauto].
  - destruct Hx as [<-|Hx]; [exists (EFile None); split; [now left|now left]|eauto].
  - destruct Hx as [<-|Hx]; [exists ESym; split; [now left|reflexivity]|eauto].
  - destruct Hx as [<-|Hx]; [exists EDev; split; [now left|reflexivity]|eauto].
Qed.
Lemma finalize_kind m x : In x (finalize m) -> exists e, find (m_name x) m = Some e /\ kind_fits e (m_kind x).
Proof.
  intros H. apply fix_hardlinks_kinds in H as (e & H1 & H2). exists e. split; [now apply sorted_entries_find|exact H2].
Qed.

(* lines of the built-in scripts that always yield a member *)
Definition always_adds (o : op) : bool :=
  match o with
  | OAdd li => negb (li_wild li) && negb (li_skip li) &&
               match li_type li with TDir => true | TSym => li_targ li | TDev => li_dev li | _ => false end
  | _ => false
  end.
Definition stddir_op_ok (o : op) : bool :=
  match o with OAdd (MkLI TDir _ false _ _ s) => negb s | _ => true end.
Definition add_names (ops : list op) : list bytes :=
  flat_map (fun o => match o with OAdd li => [li_name li] | _ => [] end) ops.

(* The built-in scripts are section variables here (with the facts needed about them as
   hypotheses); Proofs/C06P.v instantiates them with the constants of Gen/Consts.v, for which
   the hypotheses are checked by computation. *)
Section Content.
Variable i : input.
Let t := i_tree i.
Variables (mops sops dops : list op) (xl : list bytes).
Hypothesis mops_adds : forallb is_add mops = true.
Hypothesis sops_adds : forallb is_add sops = true.
Hypothesis dops_adds : forallb is_add dops = true.
Variables (sel all : list bytes) (m1 m2 m3 m4 m5 m7 m9 : emap).
Hypothesis E_sel : all_contents (selected (i_pkgs i)) = Ok sel.
Hypothesis E1 : add_pkgfiles t sel [] = Ok m1.
Hypothesis E_all : all_contents (i_pkgs i) = Ok all.
Hypothesis E2 : recover_links t m1 = Ok m2.
Hypothesis E3 : (if i_novdb i then Ok m2 else add_vdb t (map p_dir (selected (i_pkgs i))) m2) = Ok m3.
Hypothesis E4 : (if i_emptydev i then Ok m3 else bind (run_ops t dops m3) (extend_dev t xl)) = Ok m4.
Hypothesis E5 : run_ops t mops m4 = Ok m5.
Hypothesis E7 : run_ops t sops (exclude (unstaged all m1) m5) = Ok m7.
Hypothesis E9 : run_ops t (script_ops (i_script i)) (add_missing_dirs m7) = Ok m9.
Let mf := add_missing_dirs m9.
Let uops := script_ops (i_script i).
Let u := unstaged all m1.

Lemma static_trans m m' : bind (run_ops t dops m) (extend_dev t xl) = Ok m' ->
  trans t (fun k => ops_name t dops k \/ In k (ext_names xl)) m m'.
Proof.
  unfold bind. destruct (run_ops t dops m) as [mA| |] eqn:E; [|discriminate 1|discriminate 1].
  intros H. apply (run_ops_add_trans t _ dops_adds) in E. apply extend_dev_trans in H.
  eapply trans_trans; eauto.
Qed.

Lemma ext12 k : mem k m1 = true -> mem k m2 = true.
Proof. apply (tr_ext _ _ _ _ (recover_links_trans _ _ _ E2)). Qed.
Lemma ext23 k : mem k m2 = true -> mem k m3 = true.
Proof.
  destruct (i_novdb i); [injection E3 as <-; auto|]. apply (tr_ext _ _ _ _ (add_vdb_trans _ _ _ _ E3)).
Qed.
Lemma ext34 k : mem k m3 = true -> mem k m4 = true.
Proof.
  destruct (i_emptydev i); [injection E4 as <-; auto|]. apply (tr_ext _ _ _ _ (static_trans _ _ E4)).
Qed.
Lemma ext45 k : mem k m4 = true -> mem k m5 = true.
Proof. apply (tr_ext _ _ _ _ (run_ops_add_trans _ _ mops_adds _ _ E5)). Qed.
Lemma ext57 k : mem k m5 = true -> memb k u = false -> mem k m7 = true.
Proof.
  intros H Hu. apply (tr_ext _ _ _ _ (run_ops_add_trans _ _ sops_adds _ _ E7)).
  rewrite mem_exclude. fold u. now rewrite Hu.
Qed.
Lemma ext7f k : mem k m7 = true -> omits_none uops k -> mem k mf = true.
Proof.
  intros H Hn. unfold mf. eapply da_ext; [apply add_missing_da|].
  eapply run_ops_keeps; eauto. eapply da_ext; [apply add_missing_da|exact H].
Qed.

(* every existing object recorded for a selected package is a member unless the user omits it *)
Lemma pkgfile_member n : In n sel -> lstat t n <> None -> omits_none uops n -> mem n mf = true.
Proof.
  intros Hin Hl Hn. pose proof (add_pkgfiles_adds _ _ _ _ E1 n Hin Hl) as H1.
  apply ext7f; [|exact Hn]. apply ext57; [now apply ext45, ext34, ext23, ext12|].
  destruct (memb n u) eqn:Eu; [|reflexivity]. apply unstaged_spec in Eu as [_ Eu]. congruence.
Qed.

(* the standard stage directories *)
Hypothesis sops_noskip : forallb stddir_op_ok sops = true.
Lemma stddir_member li : In (OAdd li) sops -> li_type li = TDir -> li_wild li = false ->
  omits_none uops (li_name li) -> mem (li_name li) mf = true.
Proof.
  intros Hin Ht Hw Hn. apply ext7f; [|exact Hn].
  apply (run_ops_add_adds _ _ sops_adds _ _ E7 li (li_name li) Hin).
  - unfold op_targets. rewrite Hw. now left.
  - intros Hs. pose proof sops_noskip as C. rewrite forallb_forall in C. specialize (C _ Hin).
    destruct li as [ty nm w tg dv sk]. cbn in Ht, Hw, Hs. subst. cbn in C. discriminate C.
Qed.

(* the static /dev nodes *)
Hypothesis no_dev_recorded : forall n, In n all -> fprefix (bs "/dev/") n = false.
Hypothesis dops_always : forallb always_adds dops = true.
Hypothesis static_under_dev : forallb (fprefix (bs "/dev/")) (add_names dops ++ ext_names xl) = true.

Lemma static_member n : i_emptydev i = false -> In n (add_names dops ++ ext_names xl) ->
  omits_none uops n -> mem n mf = true.
Proof.
  intros He Hin Hn. apply ext7f; [|exact Hn].
  assert (H4 : mem n m4 = true).
  { rewrite He in E4. unfold bind in E4.
    destruct (run_ops t dops m3) as [mA| |] eqn:EA; [|discriminate E4|discriminate E4].
    apply in_app_or in Hin as [Hin|Hin].
    - unfold add_names in Hin. apply in_flat_map in Hin as (o & Ho & Hin).
      destruct o as [li| | |]; try (now destruct Hin). destruct Hin as [<-|[]].
      pose proof dops_always as C. rewrite forallb_forall in C. specialize (C _ Ho). cbn [always_adds] in C.
      apply andb_true_iff in C as [C _]. apply andb_true_iff in C as [Cw Cs].
      apply negb_true_iff in Cw, Cs.
      apply (tr_ext _ _ _ _ (extend_dev_trans _ _ _ _ E4)).
      apply (run_ops_add_adds _ _ dops_adds _ _ EA li (li_name li) Ho).
      + unfold op_targets. rewrite Cw. now left.
      + intros Hs. rewrite Hs in Cs. discriminate Cs.
    - eapply extend_dev_adds; [exact E4|exact Hin]. }
  apply ext57; [now apply ext45|].
  destruct (memb n u) eqn:Eu; [|reflexivity]. apply unstaged_spec in Eu as [Eu _].
  apply no_dev_recorded in Eu. pose proof static_under_dev as C. rewrite forallb_forall in C.
  rewrite (C _ Hin) in Eu. discriminate Eu.
Qed.

(* the user's entries *)
Lemma user_member pre li post n : uops = pre ++ OAdd li :: post -> In n (op_targets t li) ->
  (li_skip li = true -> lstat t n <> None) -> omits_none post n -> mem n mf = true.
Proof.
  intros Eu Hn Hs Ho. unfold mf. eapply da_ext; [apply add_missing_da|].
  eapply (run_ops_user _ _ _ _ E9); eauto.
Qed.

(* omit lines remove the matching members: what matches and is still a member was named by a
   later line or is the parent of a member (or the root, which the final pass restores) *)
Hypothesis G9 : Forall good (keys m9).
Lemma omit_final pre nm w post k : uops = pre ++ OOmit nm w :: post -> omit_hit nm w k = true ->
  mem k mf = true ->
  ops_name t post k \/ (exists k0, mem k0 mf = true /\ In k (nrparents k0)) \/ k = root_path.
Proof.
  intros Eu Hh Hk. destruct (mem k m9) eqn:E9k.
  - left. eapply (run_ops_omit _ _ _ _ E9); eauto.
  - right. destruct (da_new _ _ _ (add_missing_da m9) k E9k Hk) as (_ & k0 & Hk0 & Hin).
    rewrite Forall_forall in G9. destruct (good_pathdir k0 (G9 k0 Hk0)) as (_ & _ & _).
    assert (M0 : mem k0 mf = true) by (unfold mf; eapply da_ext; [apply add_missing_da|now apply mem_In]).
    destruct (G9 k0 Hk0) as [Hc| ->].
    + pose proof (pathdir_chop k0 Hc) as P. destruct (chop k0) as [d|] eqn:Ec.
      * left. exists k0. split; [exact M0|]. rewrite (nrparents_step _ _ Ec). rewrite P in Hin. exact Hin.
      * rewrite P in Hin. destruct Hin as [<-|[]]. now right.
    + destruct Hin as [<-|[]]. now right.
Qed.

(* nothing recorded only for packages outside the selection, except as a directory entry *)
Hypothesis sops_plain : forallb (fun o => match o with OAdd li => negb (li_wild li) | _ => true end) sops = true.
Lemma unselected_final k : In k all -> ~ In k sel -> ~ ops_name t uops k -> ~ In k (add_names sops) ->
  find k mf = None \/ find k mf = Some EDir.
Proof.
  intros Ha Hs Hu Hstd.
  assert (N1 : mem k m1 = false).
  { destruct (mem k m1) eqn:E; [|reflexivity]. exfalso.
    apply (tr_bound _ _ _ _ (add_pkgfiles_trans _ _ _ _ E1)) in E as [E|E]; [discriminate E|contradiction]. }
  assert (F6 : find k (exclude u m5) = None).
  { rewrite find_exclude. assert (memb k u = true) as -> by (apply unstaged_spec; auto). reflexivity. }
  assert (F7 : find k m7 = None).
  { rewrite (tr_frame _ _ _ _ (run_ops_add_trans _ _ sops_adds _ _ E7)); [exact F6|].
    intros (li & Hin & Hk). apply Hstd. unfold add_names. apply in_flat_map. exists (OAdd li). split; [exact Hin|].
    rewrite forallb_forall in sops_plain. specialize (sops_plain _ Hin). cbn in sops_plain.
    unfold op_targets in Hk. apply negb_true_iff in sops_plain. rewrite sops_plain in Hk. exact Hk. }
  assert (D : forall m, find k m = None \/ find k m = Some EDir ->
              find k (add_missing_dirs m) = None \/ find k (add_missing_dirs m) = Some EDir).
  { intros m [F|F].
    - destruct (mem k (add_missing_dirs m)) eqn:E.
      + right. assert (E0 : mem k m = false) by (unfold mem; now rewrite F).
        now destruct (da_new _ _ _ (add_missing_da m) k E0 E).
      + left. unfold mem in E. destruct (find k (add_missing_dirs m)); [discriminate E|reflexivity].
    - right. rewrite (da_old _ _ _ (add_missing_da m)); [exact F|]. unfold mem. now rewrite F. }
  apply D. destruct (run_ops_frame _ _ _ _ E9 k Hu) as [F|F]; [|now left].
  rewrite F. apply D. now left.
Qed.
End Content.
