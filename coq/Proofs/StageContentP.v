(* What the final member map contains: lower bounds (package files, VDB, standard directories,
   static /dev, user entries), the effect of omit lines, and what it does not contain. *)
From Coq Require Import Sorting.Sorted Sorting.Permutation.
From LC Require Import Lib.Bytes Lib.Lex Lib.Fields Lib.PathM Gen.Consts Model.StageList
  Proofs.StageListP Proofs.StagePathP Proofs.StageFinalP Proofs.StagePipeP Proofs.StageGlobP.
Open Scope N_scope.
Open Scope list_scope.

(* ---------------------------------------------------------------- helpers *)
Lemma unstaged_spec all m k : memb k (unstaged all m) = true <-> In k all /\ mem k m = false.
Proof.
  unfold unstaged. rewrite memb_In, filter_In. rewrite negb_true_iff. tauto.
Qed.

Definition omits_none (ops : list op) (k : bytes) : Prop :=
  forall nm w, In (OOmit nm w) ops -> omit_hit nm w k = false.
Lemma run_ops_keeps t ops : forall m m', run_ops t ops m = Ok m' ->
  forall k, mem k m = true -> omits_none ops k -> mem k m' = true.
Proof.
  induction ops as [|o r IH]; intros m m' H k Hk Hn; cbn [run_ops] in H; [injection H as <-; exact Hk|].
  destruct (run_op t o m) as [m1| |] eqn:E; [|discriminate|discriminate].
  eapply IH; eauto.
  - destruct o as [li|nm w| |]; cbn [run_op] in E; try discriminate.
    + apply add_files_trans in E. now apply (tr_ext _ _ _ _ E).
    + unfold mem in *. rewrite (remove_files_find _ _ _ _ E). rewrite (Hn nm w (or_introl eq_refl)). exact Hk.
  - intros nm w Hin. apply Hn. now right.
Qed.

Lemma all_contents_In ps : forall ns, all_contents ps = Ok ns ->
  forall p l n, In p ps -> parse_contents (p_contents p) = Ok l -> In n l -> In n ns.
Proof.
  induction ps as [|q r IH]; intros ns H p l n Hp Hl Hn; [destruct Hp|]. cbn [all_contents] in H.
  destruct (parse_contents (p_contents q)) as [l0| |] eqn:E0; [|discriminate|discriminate].
  destruct (all_contents r) as [ms| |] eqn:Er; [|discriminate|discriminate]. injection H as <-.
  apply in_or_app. destruct Hp as [->|Hp].
  - left. rewrite E0 in Hl. injection Hl as ->. exact Hn.
  - right. eapply IH; eauto.
Qed.
Lemma all_contents_origin ps : forall ns, all_contents ps = Ok ns ->
  forall n, In n ns -> exists p l, In p ps /\ parse_contents (p_contents p) = Ok l /\ In n l.
Proof.
  induction ps as [|q r IH]; intros ns H n Hn; cbn [all_contents] in H; [injection H as <-; destruct Hn|].
  destruct (parse_contents (p_contents q)) as [l0| |] eqn:E0; [|discriminate|discriminate].
  destruct (all_contents r) as [ms| |] eqn:Er; [|discriminate|discriminate]. injection H as <-.
  apply in_app_or in Hn as [Hn|Hn].
  - exists q, l0. split; [now left|auto].
  - destruct (IH _ eq_refl n Hn) as (p & l & Hp & Hl & Hin). exists p, l. split; [now right|auto].
Qed.

Lemma run_ops_app t a : forall b m m', run_ops t (a ++ b) m = Ok m' ->
  exists ma, run_ops t a m = Ok ma /\ run_ops t b ma = Ok m'.
Proof.
  induction a as [|o r IH]; intros b m m' H; cbn [app run_ops] in *; [eauto|].
  destruct (run_op t o m) as [m1| |] eqn:E; [|discriminate H|discriminate H].
  apply IH in H as (ma & H1 & H2). eauto.
Qed.

(* user entries: what a line names is a member at the end unless a later line omits it *)
Lemma run_ops_user t ops m m' : run_ops t ops m = Ok m' ->
  forall pre li post, ops = pre ++ OAdd li :: post ->
  forall n, In n (op_targets t li) -> (li_skip li = true -> lstat t n <> None) -> omits_none post n ->
  mem n m' = true.
Proof.
  intros H pre li post -> n Hn Hs Ho. apply run_ops_app in H as (ma & _ & H). cbn [run_ops] in H.
  destruct (run_op t (OAdd li) ma) as [mb| |] eqn:E; [|discriminate H|discriminate H]. cbn [run_op] in E.
  eapply run_ops_keeps; eauto. eapply add_files_adds; eauto.
Qed.

(* omit lines: right after the line no member matches it *)
Lemma run_ops_omit t ops m m' : run_ops t ops m = Ok m' ->
  forall pre nm w post, ops = pre ++ OOmit nm w :: post ->
  forall k, omit_hit nm w k = true -> mem k m' = true -> ops_name t post k.
Proof.
  intros H pre nm w post -> k Hh Hk. apply run_ops_app in H as (ma & _ & H). cbn [run_ops] in H.
  destruct (run_op t (OOmit nm w) ma) as [mb| |] eqn:E; [|discriminate H|discriminate H]. cbn [run_op] in E.
  apply run_ops_keys in H. apply H in Hk as [Hk|Hk]; [|exact Hk].
  unfold mem in Hk. rewrite (remove_files_find _ _ _ _ E) in Hk. rewrite Hh in Hk. discriminate Hk.
Qed.

(* a name no line mentions keeps its entry or loses it *)
Lemma run_ops_frame t ops : forall m m', run_ops t ops m = Ok m' ->
  forall k, ~ ops_name t ops k -> find k m' = find k m \/ find k m' = None.
Proof.
  induction ops as [|o r IH]; intros m m' H k Hn; cbn [run_ops] in H; [injection H as <-; now left|].
  destruct (run_op t o m) as [m1| |] eqn:E; [|discriminate H|discriminate H].
  assert (Hr : ~ ops_name t r k).
  { intros (li & Hin & Hk). apply Hn. exists li. split; [now right|exact Hk]. }
  destruct (IH _ _ H k Hr) as [F|F]; [|now right]. rewrite F.
  destruct o as [li|nm w| |]; cbn [run_op] in E; try discriminate E.
  - left. apply add_files_trans in E. apply (tr_frame _ _ _ _ E). intros Hk. apply Hn. exists li. split; [now left|exact Hk].
  - rewrite (remove_files_find _ _ _ _ E). destruct (omit_hit nm w k); [now right|now left].
Qed.

(* a src= line: unless a later line names the path again, its entry at the end of the script is
   the regular file without an inode group the line made *)
Lemma run_ops_src t ops m m' : run_ops t ops m = Ok m' ->
  forall pre li s post, ops = pre ++ OAdd li :: post -> li_src li = Some s ->
  omits_none post (li_name li) -> ~ ops_name t post (li_name li) ->
  find (li_name li) m' = Some (EFile None).
Proof.
  intros H pre li s post -> Hs Ho Hn. apply run_ops_app in H as (ma & _ & H). cbn [run_ops] in H.
  destruct (run_op t (OAdd li) ma) as [mb| |] eqn:E; [|discriminate H|discriminate H]. cbn [run_op] in E.
  unfold add_files in E. rewrite Hs in E. destruct (li_wild li); [discriminate E|].
  apply add_src_spec in E. subst mb.
  assert (Hm : mem (li_name li) m' = true).
  { eapply run_ops_keeps; eauto. rewrite mem_add. now rewrite feq_refl. }
  destruct (run_ops_frame _ _ _ _ H _ Hn) as [F|F].
  - rewrite F. apply find_add_eq.
  - unfold mem in Hm. rewrite F in Hm. discriminate Hm.
Qed.

(* the type flag of a member comes from its entry *)
Definition kind_fits (e : entry) (k : mkind) : Prop :=
  match e with
  | EDir => k = KDir | ESym => k = KSym | EDev => k = KDevice
  | EFile _ => k = KReg \/ k = KLink
  end.
Lemma fix_hardlinks_kinds l : forall seen x, In x (fix_hardlinks l seen) ->
  exists e, In (m_name x, e) l /\ kind_fits e (m_kind x).
Proof.
  induction l as [|[k e] r IH]; intros seen x Hx; cbn [fix_hardlinks] in Hx; [destruct Hx|].
  assert (Rest : forall seen', In x (fix_hardlinks r seen') -> exists e0, In (m_name x, e0) ((k, e) :: r) /\ kind_fits e0 (m_kind x)).
  { intros seen' H. destruct (IH _ _ H) as (e0 & H1 & H2). exists e0. split; [now right|exact H2]. }
  destruct e as [|[g|]| |].
  - destruct Hx as [<-|Hx]; [exists EDir; split; [now left|reflexivity]|eauto].
  - destruct (assocN g seen).
    + destruct Hx as [<-|Hx]; [exists (EFile (Some g)); split; [now left|now right]|eauto].
    + destruct Hx as [<-|Hx]; [exists (EFile (Some g)); split; [now left|now left]|eauto].
  - destruct Hx as [<-|Hx]; [exists (EFile None); split; [now left|now left]|eauto].
  - destruct Hx as [<-|Hx]; [exists ESym; split; [now left|reflexivity]|eauto].
  - destruct Hx as [<-|Hx]; [exists EDev; split; [now left|reflexivity]|eauto].
Qed.
Lemma finalize_kind m x : In x (finalize m) -> exists e, find (m_name x) m = Some e /\ kind_fits e (m_kind x).
Proof.
  intros H. apply fix_hardlinks_kinds in H as (e & H1 & H2). exists e. split; [now apply sorted_entries_find|exact H2].
Qed.
(* an entry without an inode group is written as a regular file, and no hard link refers to it *)
Lemma finalize_nogroup m n : find n m = Some (EFile None) ->
  forall x, In x (finalize m) ->
  (m_name x = n -> m_kind x = KReg) /\ (m_kind x = KLink -> m_link x <> n /\ mem (m_link x) m = true).
Proof.
  intros Hf x Hx. destruct (in_split _ _ Hx) as (a & b & E). split.
  - intros Hn. destruct (finalize_kind m x Hx) as (e & Fe & Ke). rewrite Hn, Hf in Fe. injection Fe as <-.
    destruct Ke as [Ke|Ke]; [exact Ke|].
    destruct (finalize_hardlinks m a x b E Ke) as (y & g & _ & _ & _ & F1 & _). rewrite Hn, Hf in F1. discriminate F1.
  - intros Hk. destruct (finalize_hardlinks m a x b E Hk) as (y & g & _ & Hy & _ & _ & F2). rewrite Hy in F2. split.
    + intros Hl. rewrite Hl, Hf in F2. discriminate F2.
    + unfold mem. now rewrite F2.
Qed.

(* lines of the built-in scripts that always yield a member *)
Definition always_adds (o : op) : bool :=
  match o with
  | OAdd li => negb (li_wild li) && negb (li_skip li) &&
               match li_type li with TDir => true | TSym => li_targ li | TDev => li_dev li | _ => false end
  | _ => false
  end.
Definition stddir_op_ok (o : op) : bool :=
  match o with OAdd (MkLI TDir _ false _ _ s _) => negb s | _ => true end.
Definition add_names (ops : list op) : list bytes :=
  flat_map (fun o => match o with OAdd li => [li_name li] | _ => [] end) ops.

(* The built-in scripts are section variables here (with the facts needed about them as
   hypotheses); Proofs/C06P.v instantiates them with the constants of Gen/Consts.v, for which
   the hypotheses are checked by computation. *)
Section Content.
Variable i : input.
Let t := i_tree i.
Variables (mops sops dops : list op) (xl : list bytes).
Hypothesis mops_adds : forallb is_add mops = true.
Hypothesis sops_adds : forallb is_add sops = true.
Hypothesis dops_adds : forallb is_add dops = true.
Variables (sel all : list bytes) (m1 m2 m3 m4 m5 m7 m9 : emap).
Hypothesis E_sel : all_contents (selected (i_pkgs i)) = Ok sel.
Hypothesis E1 : add_pkgfiles t sel [] = Ok m1.
Hypothesis E_all : all_contents (i_pkgs i) = Ok all.
Hypothesis E2 : recover_links t m1 = Ok m2.
Hypothesis E3 : (if i_novdb i then Ok m2 else add_vdb t (map p_dir (selected (i_pkgs i))) m2) = Ok m3.
Hypothesis E4 : (if i_emptydev i then Ok m3 else bind (run_ops t dops m3) (extend_dev t xl)) = Ok m4.
Hypothesis E5 : run_ops t mops m4 = Ok m5.
Hypothesis E7 : run_ops t sops (exclude (unstaged all m1) m5) = Ok m7.
Hypothesis E9 : run_ops t (user_script i) (add_missing_dirs m7) = Ok m9.
Let mf := add_missing_dirs m9.
Let uops := user_script i.
Let u := unstaged all m1.

Lemma static_trans m m' : bind (run_ops t dops m) (extend_dev t xl) = Ok m' ->
  trans t (fun k => ops_name t dops k \/ In k (ext_names xl)) m m'.
Proof.
  unfold bind. destruct (run_ops t dops m) as [mA| |] eqn:E; [|discriminate 1|discriminate 1].
  intros H. apply (run_ops_add_trans t _ dops_adds) in E. apply extend_dev_trans in H.
  eapply trans_trans; eauto.
Qed.

Lemma ext12 k : mem k m1 = true -> mem k m2 = true.
Proof. apply (tr_ext _ _ _ _ (recover_links_trans _ _ _ E2)). Qed.
Lemma ext23 k : mem k m2 = true -> mem k m3 = true.
Proof.
  destruct (i_novdb i); [injection E3 as <-; auto|]. apply (tr_ext _ _ _ _ (add_vdb_trans _ _ _ _ E3)).
Qed.
Lemma ext34 k : mem k m3 = true -> mem k m4 = true.
Proof.
  destruct (i_emptydev i); [injection E4 as <-; auto|]. apply (tr_ext _ _ _ _ (static_trans _ _ E4)).
Qed.
Lemma ext45 k : mem k m4 = true -> mem k m5 = true.
Proof. apply (tr_ext _ _ _ _ (run_ops_add_trans _ _ mops_adds _ _ E5)). Qed.
Lemma ext57 k : mem k m5 = true -> memb k u = false -> mem k m7 = true.
Proof.
  intros H Hu. apply (tr_ext _ _ _ _ (run_ops_add_trans _ _ sops_adds _ _ E7)).
  rewrite mem_exclude. fold u. now rewrite Hu.
Qed.
Lemma ext7f k : mem k m7 = true -> omits_none uops k -> mem k mf = true.
Proof.
  intros H Hn. unfold mf. eapply da_ext; [apply add_missing_da|].
  eapply run_ops_keeps; eauto. eapply da_ext; [apply add_missing_da|exact H].
Qed.

(* every existing object recorded for a selected package is a member unless the user omits it *)
Lemma pkgfile_member n : In n sel -> lstat t n <> None -> omits_none uops n -> mem n mf = true.
Proof.
  intros Hin Hl Hn. pose proof (add_pkgfiles_adds _ _ _ _ E1 n Hin Hl) as H1.
  apply ext7f; [|exact Hn]. apply ext57; [now apply ext45, ext34, ext23, ext12|].
  destruct (memb n u) eqn:Eu; [|reflexivity]. apply unstaged_spec in Eu as [_ Eu]. congruence.
Qed.

(* the standard stage directories *)
Hypothesis sops_noskip : forallb stddir_op_ok sops = true.
Lemma stddir_member li : In (OAdd li) sops -> li_type li = TDir -> li_wild li = false ->
  omits_none uops (li_name li) -> mem (li_name li) mf = true.
Proof.
  intros Hin Ht Hw Hn. apply ext7f; [|exact Hn].
  apply (run_ops_add_adds _ _ sops_adds _ _ E7 li (li_name li) Hin).
  - unfold op_targets. rewrite Hw. now left.
  - intros Hs. pose proof sops_noskip as C. rewrite forallb_forall in C. specialize (C _ Hin).
    destruct li as [ty nm w tg dv sk sr]. cbn in Ht, Hw, Hs. subst. cbn in C. discriminate C.
Qed.

(* the static /dev nodes *)
Hypothesis no_dev_recorded : forall n, In n all -> fprefix (bs "/dev/") n = false.
Hypothesis dops_always : forallb always_adds dops = true.
Hypothesis static_under_dev : forallb (fprefix (bs "/dev/")) (add_names dops ++ ext_names xl) = true.

Lemma static_member n : i_emptydev i = false -> In n (add_names dops ++ ext_names xl) ->
  omits_none uops n -> mem n mf = true.
Proof.
  intros He Hin Hn. apply ext7f; [|exact Hn].
  assert (H4 : mem n m4 = true).
  { rewrite He in E4. unfold bind in E4.
    destruct (run_ops t dops m3) as [mA| |] eqn:EA; [|discriminate E4|discriminate E4].
    apply in_app_or in Hin as [Hin|Hin].
    - unfold add_names in Hin. apply in_flat_map in Hin as (o & Ho & Hin).
      destruct o as [li| | |]; try (now destruct Hin). destruct Hin as [<-|[]].
      pose proof dops_always as C. rewrite forallb_forall in C. specialize (C _ Ho). cbn [always_adds] in C.
      apply andb_true_iff in C as [C _]. apply andb_true_iff in C as [Cw Cs].
      apply negb_true_iff in Cw, Cs.
      apply (tr_ext _ _ _ _ (extend_dev_trans _ _ _ _ E4)).
      apply (run_ops_add_adds _ _ dops_adds _ _ EA li (li_name li) Ho).
      + unfold op_targets. rewrite Cw. now left.
      + intros Hs. rewrite Hs in Cs. discriminate Cs.
    - eapply extend_dev_adds; [exact E4|exact Hin]. }
  apply ext57; [now apply ext45|].
  destruct (memb n u) eqn:Eu; [|reflexivity]. apply unstaged_spec in Eu as [Eu _].
  apply no_dev_recorded in Eu. pose proof static_under_dev as C. rewrite forallb_forall in C.
  rewrite (C _ Hin) in Eu. discriminate Eu.
Qed.

(* the user's entries *)
Lemma user_member pre li post n : uops = pre ++ OAdd li :: post -> In n (op_targets t li) ->
  (li_skip li = true -> lstat t n <> None) -> omits_none post n -> mem n mf = true.
Proof.
  intros Eu Hn Hs Ho. unfold mf. eapply da_ext; [apply add_missing_da|].
  eapply (run_ops_user _ _ _ _ E9); eauto.
Qed.

(* a src= line the script does not name again ends as a regular-file entry without a group *)
Lemma src_final pre li s post : uops = pre ++ OAdd li :: post -> li_src li = Some s ->
  omits_none post (li_name li) -> ~ ops_name t post (li_name li) ->
  find (li_name li) mf = Some (EFile None).
Proof.
  intros Eu Hs Ho Hn. pose proof (run_ops_src _ _ _ _ E9 pre li s post Eu Hs Ho Hn) as H.
  unfold mf. rewrite (da_old _ _ _ (add_missing_da m9)); [exact H|]. unfold mem. now rewrite H.
Qed.

(* omit lines remove the matching members: what matches and is still a member was named by a
   later line or is the parent of a member (or the root, which the final pass restores) *)
Hypothesis G9 : Forall good (keys m9).
Lemma omit_final pre nm w post k : uops = pre ++ OOmit nm w :: post -> omit_hit nm w k = true ->
  mem k mf = true ->
  ops_name t post k \/ (exists k0, mem k0 mf = true /\ In k (nrparents k0)) \/ k = root_path.
Proof.
  intros Eu Hh Hk. destruct (mem k m9) eqn:E9k.
  - left. eapply (run_ops_omit _ _ _ _ E9); eauto.
  - right. destruct (da_new _ _ _ (add_missing_da m9) k E9k Hk) as (_ & k0 & Hk0 & Hin).
    rewrite Forall_forall in G9. destruct (good_pathdir k0 (G9 k0 Hk0)) as (_ & _ & _).
    assert (M0 : mem k0 mf = true) by (unfold mf; eapply da_ext; [apply add_missing_da|now apply mem_In]).
    destruct (G9 k0 Hk0) as [Hc| ->].
    + pose proof (pathdir_chop k0 Hc) as P. destruct (chop k0) as [d|] eqn:Ec.
      * left. exists k0. split; [exact M0|]. rewrite (nrparents_step _ _ Ec). rewrite P in Hin. exact Hin.
      * rewrite P in Hin. destruct Hin as [<-|[]]. now right.
    + destruct Hin as [<-|[]]. now right.
Qed.

(* nothing recorded only for packages outside the selection, except as a directory entry *)
Hypothesis sops_plain : forallb (fun o => match o with OAdd li => negb (li_wild li) | _ => true end) sops = true.
Lemma unselected_final k : In k all -> ~ In k sel -> ~ ops_name t uops k -> ~ In k (add_names sops) ->
  find k mf = None \/ find k mf = Some EDir.
Proof.
  intros Ha Hs Hu Hstd.
  assert (N1 : mem k m1 = false).
  { destruct (mem k m1) eqn:E; [|reflexivity]. exfalso.
    apply (tr_bound _ _ _ _ (add_pkgfiles_trans _ _ _ _ E1)) in E as [E|E]; [discriminate E|contradiction]. }
  assert (F6 : find k (exclude u m5) = None).
  { rewrite find_exclude. assert (memb k u = true) as -> by (apply unstaged_spec; auto). reflexivity. }
  assert (F7 : find k m7 = None).
  { rewrite (tr_frame _ _ _ _ (run_ops_add_trans _ _ sops_adds _ _ E7)); [exact F6|].
    intros (li & Hin & Hk). apply Hstd. unfold add_names. apply in_flat_map. exists (OAdd li). split; [exact Hin|].
    rewrite forallb_forall in sops_plain. specialize (sops_plain _ Hin). cbn in sops_plain.
    unfold op_targets in Hk. apply negb_true_iff in sops_plain. rewrite sops_plain in Hk. exact Hk. }
  assert (D : forall m, find k m = None \/ find k m = Some EDir ->
              find k (add_missing_dirs m) = None \/ find k (add_missing_dirs m) = Some EDir).
  { intros m [F|F].
    - destruct (mem k (add_missing_dirs m)) eqn:E.
      + right. assert (E0 : mem k m = false) by (unfold mem; now rewrite F).
        now destruct (da_new _ _ _ (add_missing_da m) k E0 E).
      + left. unfold mem in E. destruct (find k (add_missing_dirs m)); [discriminate E|reflexivity].
    - right. rewrite (da_old _ _ _ (add_missing_da m)); [exact F|]. unfold mem. now rewrite F. }
  apply D. destruct (run_ops_frame _ _ _ _ E9 k Hu) as [F|F]; [|now left].
  rewrite F. apply D. now left.
Qed.

(* the installed-package database entries of the selected packages *)
Definition vdbp : bytes := bs "/var/db/pkg/".
Hypothesis TC : tree_closed t.
Hypothesis TG : Forall good (keys t).
Hypothesis no_vdb_recorded : forall n, In n all -> fprefix vdbp n = false.
Hypothesis G7 : Forall good (keys m7).

Lemma fprefix_under p d k : fprefix p d = true -> under d k = true -> fprefix p k = true.
Proof.
  intros H1 H2. apply fprefix_spec in H1 as (r1 & ->). apply under_spec in H2 as (r2 & ->).
  apply fprefix_spec. exists (r1 ++ sl :: r2). now rewrite <- app_assoc.
Qed.
Lemma vdb_below_m7 d k : i_novdb i = false -> In d (map p_dir (selected (i_pkgs i))) ->
  abs_cleanb d = true -> ~ In c_star d -> fprefix vdbp d = true ->
  In k (keys t) -> under d k = true -> mem k m7 = true.
Proof.
  intros Hv Hd Hc Hs Hp Hk Hu.
  assert (H3 : mem k m3 = true).
  { rewrite Hv in E3. eapply (add_vdb_adds _ _ _ _ E3 d k Hd).
    change (In k (glob_rec t (star_pat d))). now apply glob_rec_star_under. }
  apply ext57; [now apply ext45, ext34|].
  destruct (memb k u) eqn:Eu; [|reflexivity]. apply unstaged_spec in Eu as [Eu _].
  apply no_vdb_recorded in Eu. rewrite (fprefix_under _ _ _ Hp Hu) in Eu. discriminate Eu.
Qed.
Lemma vdb_member d k : i_novdb i = false -> In d (map p_dir (selected (i_pkgs i))) ->
  abs_cleanb d = true -> ~ In c_star d -> fprefix vdbp d = true ->
  In (d ++ bs "/CONTENTS") (keys t) ->
  In k (keys t) -> (k = d \/ under d k = true) -> omits_none uops k -> mem k mf = true.
Proof.
  intros Hv Hd Hc Hs Hp Hcont Hk [->|Hu] Ho.
  - assert (Hdne : d <> []) by (destruct d; [discriminate Hc|discriminate]).
    assert (Hu : under d (d ++ bs "/CONTENTS") = true) by (apply under_spec; now exists (bs "CONTENTS")).
    pose proof (vdb_below_m7 d _ Hv Hd Hc Hs Hp Hcont Hu) as H7.
    assert (Hpar : In d (nrparents (d ++ bs "/CONTENTS"))).
    { erewrite nrparents_step; [now left|]. change (bs "/CONTENTS") with (sl :: bs "CONTENTS").
      apply chop_app_noslash; [exact Hdne|]. intros H. vm_compute in H. repeat (destruct H as [H|H]; [discriminate H|]). exact H. }
    assert (H8 : mem d (add_missing_dirs m7) = true).
    { eapply add_missing_closed; [exact G7| |exact Hpar]. eapply da_ext; [apply add_missing_da|exact H7]. }
    unfold mf. eapply da_ext; [apply add_missing_da|]. eapply run_ops_keeps; eauto.
  - apply ext7f; [|exact Ho]. eapply vdb_below_m7; eauto.
Qed.

(* ---------------------------------------------------------------- what is NOT in the list *)
Lemma m7_origin k : mem k m7 = true ->
  In k sel \/ In k (link_candidates t)
  \/ (i_novdb i = false /\ vdb_names t (map p_dir (selected (i_pkgs i))) k)
  \/ (i_emptydev i = false /\ (ops_name t dops k \/ In k (ext_names xl)))
  \/ ops_name t mops k \/ ops_name t sops k.
Proof.
  intros H7.
  apply (tr_bound _ _ _ _ (run_ops_add_trans _ _ sops_adds _ _ E7)) in H7 as [H6|H]; [|tauto].
  rewrite mem_exclude in H6. destruct (memb k (unstaged all m1)); [discriminate H6|].
  apply (tr_bound _ _ _ _ (run_ops_add_trans _ _ mops_adds _ _ E5)) in H6 as [H4|H]; [|tauto].
  assert (H3 : mem k m3 = true \/ (i_emptydev i = false /\ (ops_name t dops k \/ In k (ext_names xl)))).
  { destruct (i_emptydev i); [injection E4 as <-; now left|].
    apply (tr_bound _ _ _ _ (static_trans _ _ E4)) in H4 as [H|H]; [now left|now right]. }
  destruct H3 as [H3|H]; [|tauto].
  assert (H2 : mem k m2 = true \/ (i_novdb i = false /\ vdb_names t (map p_dir (selected (i_pkgs i))) k)).
  { destruct (i_novdb i); [injection E3 as <-; now left|].
    apply (tr_bound _ _ _ _ (add_vdb_trans _ _ _ _ E3)) in H3 as [H|H]; [now left|now right]. }
  destruct H2 as [H2|H]; [|tauto].
  apply (tr_bound _ _ _ _ (recover_links_trans _ _ _ E2)) in H2 as [H1|H]; [|tauto].
  apply (tr_bound _ _ _ _ (add_pkgfiles_trans _ _ _ _ E1)) in H1 as [H0|H]; [discriminate H0|tauto].
Qed.

(* a region of names that nothing before the user's lists reaches stays empty, except for what
   the user adds and for the parents of members *)
Section Region.
Variable R : bytes -> Prop.
Hypothesis R_up : forall k k0, R k -> In k (nrparents k0) -> R k0.
Hypothesis R_root : ~ R root_path.
Hypothesis R_m7 : forall k, R k -> mem k m7 = false.
Lemma missing_parent m k : Forall good (keys m) -> mem k m = false -> mem k (add_missing_dirs m) = true ->
  k = root_path \/ exists k0, mem k0 m = true /\ In k (nrparents k0).
Proof.
  intros G E H. destruct (da_new _ _ _ (add_missing_da m) k E H) as (_ & k0 & Hk0 & Hin).
  rewrite Forall_forall in G. destruct (G k0 Hk0) as [Hc|Hc].
  - pose proof (pathdir_chop k0 Hc) as P. destruct (chop k0) as [d|] eqn:Ec.
    + right. exists k0. split; [now apply mem_In|]. rewrite (nrparents_step _ _ Ec). rewrite P in Hin. exact Hin.
    + rewrite P in Hin. destruct Hin as [<-|[]]. now left.
  - subst k0. destruct Hin as [<-|[]]. now left.
Qed.
Lemma region_out k : R k -> mem k mf = true ->
  ops_name t uops k \/ exists k0, mem k0 mf = true /\ In k (nrparents k0).
Proof.
  intros Hr Hk. destruct (mem k m9) eqn:E9k.
  - left. apply (run_ops_keys _ _ _ _ E9) in E9k as [E8|H]; [|exact H]. exfalso.
    destruct (mem k m7) eqn:E7k; [rewrite (R_m7 k Hr) in E7k; discriminate E7k|].
    destruct (missing_parent m7 k G7 E7k E8) as [->|(k0 & Hk0 & Hin)]; [contradiction|].
    rewrite (R_m7 k0 (R_up _ _ Hr Hin)) in Hk0. discriminate Hk0.
  - right. destruct (missing_parent m9 k G9 E9k Hk) as [->|(k0 & Hk0 & Hin)]; [contradiction|].
    exists k0. split; [|exact Hin]. unfold mf. eapply da_ext; [apply add_missing_da|exact Hk0].
Qed.
End Region.

Definition devp : bytes := bs "/dev/".
Lemma dev_nogo : descend_ok (bs "/dev") = false.      Proof. vm_compute. reflexivity. Qed.
Lemma vardb_nogo : descend_ok (bs "/var/db") = false. Proof. vm_compute. reflexivity. Qed.
Lemma dev_vdb_apart : compat devp vdbp = false.       Proof. vm_compute. reflexivity. Qed.

Lemma not_traversed d k : d <> [] -> descend_ok d = false -> under d k = true -> ~ In k (link_candidates t).
Proof.
  intros Hd Hn Hu Hin. unfold link_candidates, keys in Hin. apply in_map_iff in Hin as ([k' nd] & <- & Hin).
  apply filter_In in Hin as [_ Hin]. cbn [fst snd] in *. destruct nd; try discriminate Hin.
  unfold traversed in Hin. apply andb_true_iff in Hin as [_ Hin]. rewrite forallb_forall in Hin.
  rewrite (Hin d (under_parent d Hd _ Hu)) in Hn. discriminate Hn.
Qed.

Hypothesis sel_in_all : forall n, In n sel -> In n all.
Hypothesis seldirs_ok : forall d, In d (map p_dir (selected (i_pkgs i))) ->
  abs_cleanb d = true /\ ~ In c_star d /\ fprefix vdbp d = true.
Hypothesis dops_plain : forallb (fun o => match o with OAdd li => negb (li_wild li) | _ => true end) dops = true.

(* with -emptydev nothing is below /dev but what the user adds (and parents of members) *)
Hypothesis mops_avoid_dev : forallb (op_avoids devp) mops = true.
Hypothesis sops_avoid_dev : forallb (op_avoids devp) sops = true.
Lemma dev_out k : i_emptydev i = true -> fprefix devp k = true -> mem k mf = true ->
  ops_name t uops k \/ exists k0, mem k0 mf = true /\ In k (nrparents k0).
Proof.
  intros He Hp Hk. apply (region_out (fun k => fprefix devp k = true)); auto.
  - intros x x0 Hx Hin. destruct (nrparents_prefix _ _ Hin) as (s' & _ & ->). now apply fprefix_app.
  - intros H. vm_compute in H. discriminate H.
  - intros x Hx. destruct (mem x m7) eqn:E; [|reflexivity]. exfalso.
    assert (Ux : under (bs "/dev") x = true).
    { apply fprefix_spec in Hx as (r & ->). apply under_spec. now exists r. }
    destruct (m7_origin x E) as [H|[H|[[_ H]|[[H _]|[H|H]]]]].
    + apply sel_in_all, no_dev_recorded in H. unfold devp in Hx. rewrite H in Hx. discriminate Hx.
    + revert H. apply (not_traversed (bs "/dev")); [discriminate|exact dev_nogo|exact Ux].
    + destruct H as (d & Hd & Hx'). destruct (seldirs_ok d Hd) as (Hc & Hs & Hv).
      change (In x (glob_rec t (star_pat d))) in Hx'. apply glob_rec_star_inv in Hx'; auto.
      pose proof (fprefix_compat _ _ _ Hx (fprefix_under _ _ _ Hv Hx')) as C. rewrite dev_vdb_apart in C. discriminate C.
    + congruence.
    + rewrite (ops_avoid _ _ _ _ mops_avoid_dev H) in Hx. discriminate Hx.
    + rewrite (ops_avoid _ _ _ _ sops_avoid_dev H) in Hx. discriminate Hx.
Qed.

(* the VDB directory of a package that is not selected (or of any package with -novdb) holds
   nothing but what the user adds (and parents of members) *)
Lemma under_comparable a b k : under a k = true -> under b k = true -> a = b \/ under a b = true \/ under b a = true.
Proof.
  intros Ha Hb. apply under_spec in Ha as (x & ->). apply under_spec in Hb as (y & Hy).
  assert (Hy' : (a ++ [sl]) ++ x = (b ++ [sl]) ++ y) by (now rewrite <- !app_assoc).
  destruct (prefix_comparable _ _ _ _ Hy') as [(z & Hz)|(z & Hz)].
  - destruct z as [|c z] using rev_ind.
    + rewrite app_nil_r in Hz. apply app_inj_tail in Hz as [-> _]. now left.
    + rewrite !app_assoc in Hz. apply app_inj_tail in Hz as [Hz _]. right; right. apply under_spec.
      exists z. rewrite Hz. now rewrite <- app_assoc.
  - destruct z as [|c z] using rev_ind.
    + rewrite app_nil_r in Hz. apply app_inj_tail in Hz as [-> _]. now left.
    + rewrite !app_assoc in Hz. apply app_inj_tail in Hz as [Hz _]. right; left. apply under_spec.
      exists z. rewrite Hz. now rewrite <- app_assoc.
Qed.
Hypothesis mops_avoid_vdb : forallb (op_avoids vdbp) mops = true.
Hypothesis sops_avoid_vdb : forallb (op_avoids vdbp) sops = true.
Lemma vdb_out pd k : abs_cleanb pd = true -> fprefix vdbp pd = true ->
  (i_novdb i = false -> forall d, In d (map p_dir (selected (i_pkgs i))) ->
     d <> pd /\ under d pd = false /\ under pd d = false) ->
  (k = pd \/ under pd k = true) -> mem k mf = true ->
  ops_name t uops k \/ exists k0, mem k0 mf = true /\ In k (nrparents k0).
Proof.
  intros Hc Hv Hsep Hr Hk. apply (region_out (fun k => k = pd \/ under pd k = true)); auto.
  - intros x x0 [->|Hx] Hin; right; [now apply nrparents_under|].
    eapply under_trans; [exact Hx|now apply nrparents_under].
  - intros [H|H]; [subst pd; discriminate Hc|]. apply under_spec in H as (r & H).
    destruct pd as [|c pd']; [discriminate Hc|]. destruct pd'; discriminate H.
  - intros x Hx. destruct (mem x m7) eqn:E; [|reflexivity]. exfalso.
    assert (Px : fprefix vdbp x = true) by (destruct Hx as [->|Hx]; [exact Hv|now apply (fprefix_under _ pd)]).
    assert (Ux : under (bs "/var/db") x = true).
    { apply fprefix_spec in Px as (r & ->). apply under_spec. now exists (bs "pkg/" ++ r). }
    destruct (m7_origin x E) as [H|[H|[[Hn H]|[[_ H]|[H|H]]]]].
    + apply sel_in_all, no_vdb_recorded in H. congruence.
    + revert H. apply (not_traversed (bs "/var/db")); [discriminate|exact vardb_nogo|exact Ux].
    + destruct H as (d & Hd & Hx'). destruct (seldirs_ok d Hd) as (Hdc & Hds & Hdv).
      change (In x (glob_rec t (star_pat d))) in Hx'. apply glob_rec_star_inv in Hx'; auto.
      destruct (Hsep Hn d Hd) as (Hne & U1 & U2).
      destruct Hx as [->|Hx]; [congruence|].
      destruct (under_comparable _ _ _ Hx' Hx) as [H|[H|H]]; congruence.
    + assert (Dx : fprefix devp x = true).
      { pose proof static_under_dev as C. rewrite forallb_forall in C. apply C. apply in_or_app.
        destruct H as [(li & Hin & Hk')|H]; [left|now right].
        unfold add_names. apply in_flat_map. exists (OAdd li). split; [exact Hin|].
        rewrite forallb_forall in dops_plain. specialize (dops_plain _ Hin). cbn in dops_plain.
        apply negb_true_iff in dops_plain. unfold op_targets in Hk'. rewrite dops_plain in Hk'. exact Hk'. }
      pose proof (fprefix_compat _ _ _ Dx Px) as C. rewrite dev_vdb_apart in C. discriminate C.
    + rewrite (ops_avoid _ _ _ _ mops_avoid_vdb H) in Px. discriminate Px.
    + rewrite (ops_avoid _ _ _ _ sops_avoid_vdb H) in Px. discriminate Px.
Qed.

(* where a member can come from ("only if" half of the membership characterisation) *)
Definition sourced (k : bytes) : Prop :=
  In k sel \/ In k (link_candidates t)
  \/ (i_novdb i = false /\ vdb_names t (map p_dir (selected (i_pkgs i))) k)
  \/ (i_emptydev i = false /\ (ops_name t dops k \/ In k (ext_names xl)))
  \/ ops_name t mops k \/ ops_name t sops k \/ ops_name t uops k.
Lemma m7_sourced k : mem k m7 = true -> sourced k.
Proof. intros H. unfold sourced. destruct (m7_origin k H) as [A|[A|[A|[A|[A|A]]]]]; tauto. Qed.
Lemma m9_sourced k : mem k m9 = true -> sourced k \/ k = root_path \/ exists k0, sourced k0 /\ In k (nrparents k0).
Proof.
  intros H. apply (run_ops_keys _ _ _ _ E9) in H as [H|H]; [|left; unfold sourced; tauto].
  destruct (mem k m7) eqn:E7k; [left; now apply m7_sourced|].
  destruct (missing_parent m7 k G7 E7k H) as [->|(k0 & Hk0 & Hin)]; [tauto|].
  right; right. exists k0. split; [now apply m7_sourced|exact Hin].
Qed.
Theorem mf_sourced k : mem k mf = true -> sourced k \/ k = root_path \/ exists k0, sourced k0 /\ In k (nrparents k0).
Proof.
  intros H. destruct (mem k m9) eqn:E9k; [now apply m9_sourced|].
  destruct (missing_parent m9 k G9 E9k H) as [->|(k0 & Hk0 & Hin)]; [tauto|].
  right; right. destruct (m9_sourced k0 Hk0) as [S|[->|(k1 & S & Hin1)]].
  - eauto.
  - destruct Hin.
  - exists k1. split; [exact S|]. eapply nrparents_trans; eauto.
Qed.
End Content.
