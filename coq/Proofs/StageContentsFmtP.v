(* The CONTENTS parser model recovers the names of every well-formed CONTENTS file. *)
From Coq Require Import ZifyBool ZifyNat ZifyN.
From LC Require Import Lib.Bytes Lib.Lex Lib.Fields Lib.PathM Gen.Consts Model.StageList
  Proofs.StageListP Proofs.StagePathP.
Open Scope N_scope.
Open Scope list_scope.

(* ---------------------------------------------------------------- characters *)
Lemma digit_not_sp c : is_digit c = true -> is_sp c = false /\ Ascii.eqb c c_sp = false /\ Ascii.eqb c c_nl = false.
Proof.
  unfold is_digit, is_sp. intros H. split; [lia|].
  split; (destruct (Ascii.eqb c _) eqn:E; [|reflexivity]; apply Ascii.eqb_eq in E; subst c; vm_compute in H; discriminate H).
Qed.
Lemma hex_not_sp c : is_hex c = true -> Ascii.eqb c c_sp = false /\ Ascii.eqb c c_nl = false.
Proof.
  intros H. split; (destruct (Ascii.eqb c _) eqn:E; [|reflexivity]; apply Ascii.eqb_eq in E; subst c; vm_compute in H; discriminate H).
Qed.
Lemma forallb_no (P : ascii -> bool) (ch : ascii) s :
  (forall c, P c = true -> Ascii.eqb c ch = false) -> forallb P s = true -> existsb (fun c => Ascii.eqb c ch) s = false.
Proof.
  intros HP H. induction s as [|c r IH]; [reflexivity|]. cbn in *. apply andb_true_iff in H as [H1 H2].
  rewrite (HP _ H1). now apply IH.
Qed.
Lemma all_digits_props s : all_digits s = true -> s <> [] /\ no_sp s = true /\ no_nl s = true /\ ends_nonspace s = true.
Proof.
  unfold all_digits. destruct s as [|c0 r0] eqn:Es; [discriminate|]. rewrite <- Es. intros H.
  split; [rewrite Es; discriminate|]. split; [|split].
  - unfold no_sp. rewrite (forallb_no is_digit c_sp); [reflexivity| |exact H]. intros c Hc. now destruct (digit_not_sp c Hc) as (_ & A & _).
  - unfold no_nl. rewrite (forallb_no is_digit c_nl); [reflexivity| |exact H]. intros c Hc. now destruct (digit_not_sp c Hc) as (_ & _ & A).
  - unfold ends_nonspace. destruct (rev s) as [|c r] eqn:Er.
    + apply (f_equal (@rev _)) in Er. rewrite rev_involutive in Er. cbn in Er. rewrite Es in Er. discriminate Er.
    + rewrite forallb_forall in H. assert (Hc : In c s) by (apply in_rev; rewrite Er; now left).
      destruct (digit_not_sp c (H c Hc)) as (A & _ & _). now rewrite A.
Qed.
Lemma ends_nonspace_cons c s : ends_nonspace s = true -> ends_nonspace (c :: s) = true.
Proof.
  unfold ends_nonspace. cbn [rev]. destruct (rev s) as [|x r]; [discriminate|]. auto.
Qed.
Lemma no_sp_cons c s : Ascii.eqb c c_sp = false -> no_sp s = true -> no_sp (c :: s) = true.
Proof. unfold no_sp. cbn [existsb]. intros H1 H2. rewrite H1. exact H2. Qed.
Lemma no_nl_cons c s : Ascii.eqb c c_nl = false -> no_nl s = true -> no_nl (c :: s) = true.
Proof. unfold no_nl. cbn [existsb]. intros H1 H2. rewrite H1. exact H2. Qed.
Lemma int64_props s : int64_ok s = true -> s <> [] /\ no_sp s = true /\ no_nl s = true /\ ends_nonspace s = true.
Proof.
  unfold int64_ok. destruct s as [|c r]; [discriminate|].
  destruct (Ascii.eqb c c_minus) eqn:E1; [|destruct (Ascii.eqb c c_plus) eqn:E2].
  - intros H. apply andb_true_iff in H as [H _]. destruct (all_digits_props r H) as (A & B & C & D).
    apply Ascii.eqb_eq in E1. subst c. split; [discriminate|]. split; [|split].
    + now apply no_sp_cons. + now apply no_nl_cons. + now apply ends_nonspace_cons.
  - intros H. apply andb_true_iff in H as [H _]. destruct (all_digits_props r H) as (A & B & C & D).
    apply Ascii.eqb_eq in E2. subst c. split; [discriminate|]. split; [|split].
    + now apply no_sp_cons. + now apply no_nl_cons. + now apply ends_nonspace_cons.
  - intros H. apply andb_true_iff in H as [H _]. exact (all_digits_props _ H).
Qed.
Lemma hex_props s : hex_ok s = true -> no_sp s = true /\ no_nl s = true.
Proof.
  unfold hex_ok. intros H. apply andb_true_iff in H as [H _]. split.
  - unfold no_sp. rewrite (forallb_no is_hex c_sp); [reflexivity| |exact H]. intros c Hc. now destruct (hex_not_sp c Hc).
  - unfold no_nl. rewrite (forallb_no is_hex c_nl); [reflexivity| |exact H]. intros c Hc. now destruct (hex_not_sp c Hc).
Qed.

(* ---------------------------------------------------------------- parseOffNonBlankField *)
Lemma last_blank_nosp b : no_sp b = true -> forall i best, last_blank b i best = best.
Proof.
  unfold no_sp. induction b as [|c r IH]; intros H i best; [reflexivity|]. cbn [existsb] in H. apply negb_true_iff in H.
  apply orb_false_iff in H as [H1 H2]. cbn [last_blank]. rewrite H1. cbn [andb]. apply IH. now apply negb_true_iff.
Qed.
Lemma last_blank_app a : a <> [] -> forall i best b,
  last_blank (a ++ c_sp :: b) i best = last_blank b (i + length a + 1)%nat (Some (i + length a)%nat).
Proof.
  induction a as [|c a IH]; [congruence|]. intros _ i best b. cbn [app last_blank length].
  destruct a as [|c' a'].
  - cbn [app last_blank length]. rewrite Ascii.eqb_refl. cbn [andb].
    assert (Nat.eqb (S i) 0 = false) as -> by reflexivity. cbn [negb].
    replace (i + 1 + 1)%nat with (S (S i)) by lia. replace (i + 1)%nat with (S i) by lia. reflexivity.
  - rewrite IH by discriminate. f_equal; [cbn [length]; lia|f_equal; cbn [length]; lia].
Qed.
Lemma skipn_app_len {A} (a l : list A) k : skipn (length a + k) (a ++ l) = skipn k l.
Proof. induction a as [|x a IH]; [reflexivity|]. cbn. exact IH. Qed.
Lemma firstn_app_len {A} (a l : list A) : firstn (length a) (a ++ l) = a.
Proof. induction a as [|x a IH]; [reflexivity|]. cbn. now rewrite IH. Qed.
Lemma off_field_app a b : a <> [] -> b <> [] -> no_sp b = true -> off_field (a ++ c_sp :: b) = Some (a, b).
Proof.
  intros Ha Hb Hs. unfold off_field. rewrite last_blank_app by exact Ha. rewrite last_blank_nosp by exact Hs.
  cbn [Nat.add]. replace (skipn (S (length a)) (a ++ c_sp :: b)) with b.
  2:{ replace (S (length a)) with (length a + 1)%nat by lia. rewrite skipn_app_len. reflexivity. }
  destruct b; [congruence|]. now rewrite firstn_app_len.
Qed.

(* ---------------------------------------------------------------- strings.Index(s, " -> ") *)
Lemma fprefix_app_len p : forall x y, (length p <= length x)%nat -> fprefix p (x ++ y) = fprefix p x.
Proof.
  induction p as [|c p IH]; intros x y L; [reflexivity|]. destruct x as [|d x]; [cbn in L; lia|].
  cbn [app fprefix]. destruct (Ascii.eqb c d); [|reflexivity]. apply IH. cbn in L. lia.
Qed.
Lemma before_arrow_ext s : forall acc r x, before_arrow (s ++ arrow) acc = Some x ->
  before_arrow (s ++ arrow ++ r) acc = Some x.
Proof.
  induction s as [|c s IH]; intros acc r x H.
  - cbn [app] in *. change (before_arrow arrow acc) with (Some (rev acc)) in H.
    change (before_arrow (arrow ++ r) acc) with (Some (rev acc)). exact H.
  - cbn [app before_arrow] in *.
    replace (fprefix arrow (c :: s ++ arrow ++ r)) with (fprefix arrow (c :: s ++ arrow)).
    + destruct (fprefix arrow (c :: s ++ arrow)); [exact H|]. now apply IH.
    + change (c :: s ++ arrow ++ r) with ((c :: s) ++ arrow ++ r). rewrite app_assoc.
      symmetry. apply fprefix_app_len. cbn [app length]. rewrite app_length. cbn. lia.
Qed.

(* ---------------------------------------------------------------- one line *)
Lemma len4 (p r : bytes) : length p = 4%nat -> (N.of_nat (length (p ++ r)) <? 4) = false.
Proof. intros H. rewrite app_length, H. lia. Qed.
Lemma first4 (p r : bytes) : length p = 4%nat -> firstn 4 (p ++ r) = p /\ skipn 4 (p ++ r) = r.
Proof.
  intros H. split.
  - rewrite <- H. apply firstn_app_len.
  - replace 4%nat with (length p + 0)%nat by lia. now rewrite skipn_app_len.
Qed.
Lemma feq_neq_nil s : feq s [] = false -> s <> [].
Proof. intros H E. subst. discriminate H. Qed.

Lemma contents_line_render e : wf_centry e = true -> contents_line (render_centry e) = Ok (centry_name e).
Proof.
  destruct e as [n|n md5 ts|n tg ts]; cbn [wf_centry render_centry centry_name]; intros W; unfold contents_line.
  - rewrite (len4 (bs "dir ") n eq_refl). destruct (first4 (bs "dir ") n eq_refl) as [-> ->]. reflexivity.
  - repeat (apply andb_true_iff in W as [W ?]).
    rewrite (len4 (bs "obj ") _ eq_refl). destruct (first4 (bs "obj ") (n ++ c_sp :: md5 ++ c_sp :: ts) eq_refl) as [-> ->].
    change (feq (bs "obj ") (bs "dir ")) with false. change (feq (bs "obj ") (bs "obj ")) with true. cbv iota.
    destruct (int64_props ts ltac:(assumption)) as (T1 & T2 & _ & _).
    destruct (hex_props md5 ltac:(assumption)) as (M1 & _).
    assert (Hn : n <> []) by (apply feq_neq_nil; now apply negb_true_iff).
    assert (Hm : md5 <> []) by (apply feq_neq_nil; now apply negb_true_iff).
    replace (n ++ c_sp :: md5 ++ c_sp :: ts) with ((n ++ c_sp :: md5) ++ c_sp :: ts) by (now rewrite <- app_assoc).
    rewrite off_field_app; auto; [|destruct n; discriminate].
    replace (int64_ok ts) with true by (symmetry; assumption). cbn [negb].
    rewrite off_field_app; auto. replace (hex_ok md5) with true by (symmetry; assumption). reflexivity.
  - repeat (apply andb_true_iff in W as [W ?]).
    rewrite (len4 (bs "sym ") _ eq_refl). destruct (first4 (bs "sym ") (n ++ arrow ++ tg ++ c_sp :: ts) eq_refl) as [-> ->].
    change (feq (bs "sym ") (bs "dir ")) with false. change (feq (bs "sym ") (bs "obj ")) with false.
    change (feq (bs "sym ") (bs "sym ")) with true. cbv iota.
    destruct (int64_props ts ltac:(assumption)) as (T1 & T2 & _ & _).
    replace (n ++ arrow ++ tg ++ c_sp :: ts) with ((n ++ arrow ++ tg) ++ c_sp :: ts) by (now rewrite <- !app_assoc).
    rewrite off_field_app; auto; [|destruct n; discriminate].
    replace (int64_ok ts) with true by (symmetry; assumption). cbn [negb].
    destruct (before_arrow (n ++ arrow) []) as [n'|] eqn:B; [|discriminate].
    match goal with H : feq n' n = true |- _ => apply feq_true in H; subst n' end.
    now rewrite (before_arrow_ext n [] tg n B).
Qed.

Lemma contents_lines_render es : forallb wf_centry es = true ->
  contents_lines (map render_centry es) = Ok (map centry_name es).
Proof.
  induction es as [|e r IH]; intros W; [reflexivity|]. cbn [forallb] in W. apply andb_true_iff in W as [W1 W2].
  cbn [map contents_lines]. rewrite (contents_line_render e W1), (IH W2). reflexivity.
Qed.

(* ---------------------------------------------------------------- the whole file *)
Lemma existsb_app {A} (f : A -> bool) a b : existsb f (a ++ b) = existsb f a || existsb f b.
Proof. induction a as [|x a IH]; [reflexivity|]. cbn. now rewrite IH, orb_assoc. Qed.
Lemma no_nl_app a b : no_nl a = true -> no_nl b = true -> no_nl (a ++ b) = true.
Proof. unfold no_nl. rewrite existsb_app. intros H1 H2. apply negb_true_iff in H1, H2. now rewrite H1, H2. Qed.
Lemma ends_nonspace_app a b : ends_nonspace b = true -> ends_nonspace (a ++ b) = true.
Proof. unfold ends_nonspace. rewrite rev_app_distr. destruct (rev b); [discriminate|auto]. Qed.

Lemma render_line_props e : wf_centry e = true ->
  no_nl (render_centry e) = true /\ ends_nonspace (render_centry e) = true
  /\ exists c r, render_centry e = c :: r /\ is_sp c = false.
Proof.
  destruct e as [n|n md5 ts|n tg ts]; cbn [wf_centry render_centry]; intros W.
  - apply andb_true_iff in W as [W1 W2]. split; [apply no_nl_app; [reflexivity|exact W1]|].
    split; [now apply ends_nonspace_app|]. eexists _, _. split; [reflexivity|reflexivity].
  - repeat (apply andb_true_iff in W as [W ?]).
    destruct (int64_props ts ltac:(assumption)) as (_ & _ & T3 & T4).
    destruct (hex_props md5 ltac:(assumption)) as (_ & M2).
    split; [|split].
    + apply no_nl_app; [reflexivity|]. apply no_nl_app; [exact W|]. apply no_nl_cons; [reflexivity|].
      apply no_nl_app; [exact M2|]. now apply no_nl_cons.
    + apply ends_nonspace_app. apply ends_nonspace_app. apply ends_nonspace_cons. apply ends_nonspace_app.
      now apply ends_nonspace_cons.
    + eexists _, _. split; reflexivity.
  - repeat (apply andb_true_iff in W as [W ?]).
    destruct (int64_props ts ltac:(assumption)) as (_ & _ & T3 & T4).
    split; [|split].
    + apply no_nl_app; [reflexivity|]. apply no_nl_app; [exact W|]. apply no_nl_app; [reflexivity|].
      apply no_nl_app; [assumption|]. now apply no_nl_cons.
    + apply ends_nonspace_app. apply ends_nonspace_app. apply ends_nonspace_app. apply ends_nonspace_app.
      now apply ends_nonspace_cons.
    + eexists _, _. split; reflexivity.
Qed.

Lemma drop_sp_nonspace c r : is_sp c = false -> drop_sp (c :: r) = c :: r.
Proof. intros H. cbn [drop_sp]. now rewrite H. Qed.
Lemma trim_lines (J : bytes) : (exists c r, J = c :: r /\ is_sp c = false) -> ends_nonspace J = true ->
  trim (J ++ [c_nl]) = J.
Proof.
  intros (c & r & -> & Hc) He. unfold trim. cbn [app]. rewrite drop_sp_nonspace by exact Hc.
  change (c :: r ++ [c_nl]) with ((c :: r) ++ [c_nl]). rewrite rev_app_distr. cbn [rev app].
  change (drop_sp (c_nl :: (rev r ++ [c]))) with (drop_sp (rev r ++ [c])).
  unfold ends_nonspace in He. cbn [rev] in He. destruct (rev r ++ [c]) as [|x l] eqn:E; [discriminate He|].
  rewrite drop_sp_nonspace by (now apply negb_true_iff). rewrite <- E. rewrite rev_app_distr, rev_involutive. reflexivity.
Qed.
Lemma join_props (ls : list bytes) : ls <> [] ->
  (forall l, In l ls -> ends_nonspace l = true /\ exists c r, l = c :: r /\ is_sp c = false) ->
  ends_nonspace (join c_nl ls) = true /\ exists c r, join c_nl ls = c :: r /\ is_sp c = false.
Proof.
  induction ls as [|l r IH]; [congruence|]. intros _ H. destruct r as [|l2 r'].
  - cbn [join]. apply H. now left.
  - rewrite join_cons2. destruct (IH ltac:(discriminate) ltac:(intros x Hx; apply H; now right)) as (E & _).
    destruct (H l (or_introl eq_refl)) as (_ & c & rr & -> & Hc). split.
    + apply ends_nonspace_app. apply ends_nonspace_cons. exact E.
    + eexists _, _. split; [reflexivity|exact Hc].
Qed.

(* every well-formed CONTENTS file is read back into exactly the recorded names, whatever bytes
   the names contain (blanks, "->", quotes, ...) *)
Theorem contents_roundtrip es : es <> [] -> forallb wf_centry es = true ->
  parse_contents (render_contents es) = Ok (map centry_name es).
Proof.
  intros Hne W. unfold parse_contents, render_contents.
  assert (P : forall l, In l (map render_centry es) ->
              no_nl l = true /\ ends_nonspace l = true /\ exists c r, l = c :: r /\ is_sp c = false).
  { intros l Hl. apply in_map_iff in Hl as (e & <- & He). rewrite forallb_forall in W. now apply render_line_props, W. }
  assert (Lne : map render_centry es <> []) by (destruct es; [congruence|discriminate]).
  destruct (join_props _ Lne ltac:(intros l Hl; destruct (P l Hl) as (_ & A & B); auto)) as (JE & JS).
  rewrite trim_lines by assumption.
  destruct JS as (c & r & EJ & _). rewrite EJ, <- EJ.
  replace (split c_nl (join c_nl (map render_centry es))) with (map render_centry es).
  - now apply contents_lines_render.
  - symmetry. apply split_join; [exact Lne|]. apply Forall_forall. intros l Hl. destruct (P l Hl) as (A & _).
    unfold nosep. intros Hin. unfold no_nl in A. apply negb_true_iff in A.
    assert (X : existsb (fun c0 => Ascii.eqb c0 c_nl) l = true) by (apply existsb_exists; exists c_nl; split; [exact Hin|apply Ascii.eqb_refl]).
    congruence.
Qed.

Lemma contents_example :
  let es := [CDir (bs "/usr/share/odd dir"); CObj (bs "/usr/bin/a b -> c") (bs "d3b07384d113edec49eaa6238ad5ff00") (bs "1600000000");
             CSym (bs "/usr/lib/it's ""x""") (bs "../lib64/x y") (bs "-5")] in
  es <> [] /\ forallb wf_centry es = true.
Proof. split; [discriminate|vm_compute; reflexivity]. Qed.
