(* Proofs about parseFields (Model/StageLine.v) against the documented quoting
   styles (Model/StageDoc.v): totality of parse_fields / parse_line, and
   parse_fields . render_line = the field values (C17). *)
From LC Require Import Lib.Bytes Lib.Fields Gen.Consts Model.StageLine Model.StageDoc.
Open Scope list_scope.

(* ------------------------------------------------------------------ totality *)
Lemma pf_finish_total fields field quote : pf_finish fields field quote <> PFPanic.
Proof.
  unfold pf_finish. destruct field as [|x field]; [discriminate|].
  destruct (Ascii.eqb quote c_nul); discriminate.
Qed.

Lemma pf_loop_total_n : forall n line, (length line <= n)%nat ->
  forall fields field quote inf, pf_loop line fields field quote inf <> PFPanic.
Proof.
  induction n as [|n IH]; intros line Hlen fields field quote inf.
  - destruct line as [|c rest]; [|cbn [length] in Hlen; lia].
    cbn [pf_loop]. apply pf_finish_total.
  - destruct line as [|c rest]; [cbn [pf_loop]; apply pf_finish_total|].
    cbn [length] in Hlen. cbn [pf_loop].
    destruct inf.
    + destruct (is_blank c && Ascii.eqb quote c_nul); [apply IH; lia|].
      destruct (Ascii.eqb c quote); [apply IH; lia|].
      destruct (Ascii.eqb c c_bsl).
      * destruct rest as [|c2 rest']; [discriminate|].
        apply IH. cbn [length] in Hlen. lia.
      * apply IH; lia.
    + destruct (is_blank c); [apply IH; lia|].
      destruct (is_quote c); apply IH; lia.
Qed.

Lemma pf_loop_total line fields field quote inf : pf_loop line fields field quote inf <> PFPanic.
Proof. apply (pf_loop_total_n (length line)). apply le_n. Qed.

Theorem parse_fields_total : forall line, parse_fields line <> PFPanic.
Proof. intros line. unfold parse_fields. apply pf_loop_total. Qed.

Lemma line_of_fields_total fields : line_of_fields fields <> LPanic.
Proof.
  unfold line_of_fields.
  destruct (match type_of (nth 0 fields []) with
            | Some (t, a) => (set_ltype entry0 t, a, false)
            | None => (entry0, true, true)
            end) as [[e1 adding] bad1].
  destruct (name_step e1 (nth 1 fields [])) as [e2 bad2].
  destruct (fold_left (opt_step (nth 0 fields [])) (skipn 2 fields) (e2, bad1 || bad2)) as [e3 bad3].
  discriminate.
Qed.

Theorem parse_line_total : forall line, parse_line line <> LPanic.
Proof.
  intros line. unfold parse_line.
  destruct (parse_fields line) as [|fields u] eqn:E.
  - exfalso. exact (parse_fields_total line E).
  - apply line_of_fields_total.
Qed.

(* ------------------------------------------------------------------ single steps of the loop *)
Lemma step_out_blank c rest acc : is_blank c = true ->
  pf_loop (c :: rest) acc [] c_nul false = pf_loop rest acc [] c_nul false.
Proof. intros H. cbn [pf_loop]. now rewrite H. Qed.

Lemma step_out_quote c rest acc : is_blank c = false -> is_quote c = true ->
  pf_loop (c :: rest) acc [] c_nul false = pf_loop rest acc [] c true.
Proof. intros H1 H2. cbn [pf_loop]. now rewrite H1, H2. Qed.

Lemma step_out_plain c rest acc : is_blank c = false -> is_quote c = false ->
  pf_loop (c :: rest) acc [] c_nul false = pf_loop rest acc [c] c_nul true.
Proof. intros H1 H2. cbn [pf_loop]. now rewrite H1, H2. Qed.

Lemma step_in_plain c rest acc field q :
  is_blank c && Ascii.eqb q c_nul = false -> Ascii.eqb c q = false -> Ascii.eqb c c_bsl = false ->
  pf_loop (c :: rest) acc field q true = pf_loop rest acc (c :: field) q true.
Proof. intros H1 H2 H3. cbn [pf_loop]. now rewrite H1, H2, H3. Qed.

Lemma step_in_esc c2 rest acc field q : Ascii.eqb c_bsl q = false ->
  pf_loop (c_bsl :: c2 :: rest) acc field q true
  = pf_loop rest acc (c2 :: (if Ascii.eqb c2 c_star then c_bsl :: field else field)) q true.
Proof.
  intros H. cbn [pf_loop].
  replace (is_blank c_bsl) with false by reflexivity. cbn [andb].
  rewrite H. rewrite Ascii.eqb_refl. reflexivity.
Qed.

Lemma step_in_close q rest acc field : is_blank q = false ->
  pf_loop (q :: rest) acc field q true = pf_loop rest acc field c_nul true.
Proof. intros H. cbn [pf_loop]. rewrite H. cbn [andb]. now rewrite Ascii.eqb_refl. Qed.

(* ------------------------------------------------------------------ inside a field *)
Lemma tok_ok_lit c : StageDoc.tok_ok (FLit c) = true ->
  Ascii.eqb c c_nul = false /\ Ascii.eqb c c_star = false.
Proof.
  cbn [StageDoc.tok_ok]. intros H. apply andb_true_iff in H as [Hn Hs].
  apply negb_true_iff in Hn, Hs. now split.
Qed.

Lemma fvalue_cons t ts : fvalue (t :: ts) = tok_value t ++ fvalue ts.
Proof. reflexivity. Qed.

Lemma infield_bare ts : forallb StageDoc.tok_ok ts = true -> forall rest acc field,
  pf_loop (flat_map render_tok_bare ts ++ rest) acc field c_nul true
  = pf_loop rest acc (rev (fvalue ts) ++ field) c_nul true.
Proof.
  induction ts as [|t ts IH]; intros Hok rest acc field; [reflexivity|].
  cbn [forallb] in Hok. apply andb_true_iff in Hok as [Ht Hts].
  rewrite fvalue_cons. cbn [flat_map]. rewrite <- app_assoc, rev_app_distr, <- app_assoc.
  destruct t as [c| |]; cbn [render_tok_bare tok_value].
  - apply tok_ok_lit in Ht as [Hn Hs].
    destruct (needs_esc_bare c) eqn:E.
    + cbn [app]. rewrite step_in_esc by reflexivity. rewrite Hs.
      rewrite IH by assumption. reflexivity.
    + unfold needs_esc_bare in E. apply orb_false_iff in E as [E Eb].
      apply orb_false_iff in E as [Ebl Eq].
      cbn [app]. rewrite step_in_plain; [|now rewrite Ebl|assumption|assumption].
      rewrite IH by assumption. reflexivity.
  - cbn [app]. rewrite step_in_esc by reflexivity.
    replace (Ascii.eqb c_star c_star) with true by reflexivity.
    rewrite IH by assumption. reflexivity.
  - cbn [app]. rewrite step_in_plain by reflexivity.
    rewrite IH by assumption. reflexivity.
Qed.

Lemma infield_q q ts : q = c_sq \/ q = c_dq -> forallb StageDoc.tok_ok ts = true ->
  forall rest acc field,
  pf_loop (flat_map (render_tok_q q) ts ++ rest) acc field q true
  = pf_loop rest acc (rev (fvalue ts) ++ field) q true.
Proof.
  intros Hq.
  assert (Hqn : Ascii.eqb q c_nul = false) by (destruct Hq; subst; reflexivity).
  assert (Hqb : Ascii.eqb c_bsl q = false) by (destruct Hq; subst; reflexivity).
  assert (Hqs : Ascii.eqb c_star q = false) by (destruct Hq; subst; reflexivity).
  induction ts as [|t ts IH]; intros Hok rest acc field; [reflexivity|].
  cbn [forallb] in Hok. apply andb_true_iff in Hok as [Ht Hts].
  rewrite fvalue_cons. cbn [flat_map]. rewrite <- app_assoc, rev_app_distr, <- app_assoc.
  destruct t as [c| |]; cbn [render_tok_q tok_value].
  - apply tok_ok_lit in Ht as [Hn Hs].
    destruct (Ascii.eqb c q || Ascii.eqb c c_bsl) eqn:E.
    + cbn [app]. rewrite step_in_esc by assumption. rewrite Hs.
      rewrite IH by assumption. reflexivity.
    + apply orb_false_iff in E as [Ecq Eb].
      cbn [app]. rewrite step_in_plain; [|rewrite Hqn; apply andb_false_r|assumption|assumption].
      rewrite IH by assumption. reflexivity.
  - cbn [app]. rewrite step_in_esc by assumption.
    replace (Ascii.eqb c_star c_star) with true by reflexivity.
    rewrite IH by assumption. reflexivity.
  - cbn [app]. rewrite step_in_plain; [|rewrite Hqn; apply andb_false_r|assumption|reflexivity].
    rewrite IH by assumption. reflexivity.
Qed.

(* ------------------------------------------------------------------ between fields *)
Definition blank_start (s : bytes) : Prop :=
  match s with [] => True | c :: _ => is_blank c = true end.

Lemma skip_blanks s : forallb is_blank s = true -> forall rest acc,
  pf_loop (s ++ rest) acc [] c_nul false = pf_loop rest acc [] c_nul false.
Proof.
  induction s as [|c s IH]; intros H rest acc; [reflexivity|].
  cbn [forallb] in H. apply andb_true_iff in H as [Hc Hs].
  cbn [app]. rewrite step_out_blank by assumption. now apply IH.
Qed.

Lemma after_field rest acc field : field <> [] -> blank_start rest ->
  pf_loop rest acc field c_nul true = pf_loop rest (rev field :: acc) [] c_nul false.
Proof.
  intros Hne Hb. destruct field as [|x field]; [congruence|].
  destruct rest as [|c rest].
  - reflexivity.
  - cbn [blank_start] in Hb. cbn [pf_loop]. rewrite Hb.
    replace (Ascii.eqb c_nul c_nul) with true by reflexivity. cbn [andb pf_flush]. reflexivity.
Qed.

Lemma tok_value_nonempty t : tok_value t <> [].
Proof. destruct t; discriminate. Qed.

Lemma rev_fvalue_nonempty t ts : rev (fvalue (t :: ts)) <> [].
Proof.
  intros H. apply (f_equal (@rev _)) in H. rewrite rev_involutive in H.
  rewrite fvalue_cons in H. cbn [rev] in H. apply app_eq_nil in H as [H _].
  exact (tok_value_nonempty t H).
Qed.

(* the first token of a bare field *)
Lemma first_bare t ts : StageDoc.tok_ok t = true -> first_ok QBare (t :: ts) = true ->
  forall rest acc,
  pf_loop (render_tok_bare t ++ rest) acc [] c_nul false
  = pf_loop rest acc (rev (tok_value t)) c_nul true.
Proof.
  intros Ht Hf rest acc. destruct t as [c| |]; cbn [render_tok_bare tok_value].
  - cbn [first_ok] in Hf. apply negb_true_iff in Hf. rewrite Hf.
    unfold needs_esc_bare in Hf. apply orb_false_iff in Hf as [E Eb].
    apply orb_false_iff in E as [Ebl Eq].
    cbn [app]. rewrite step_out_plain by assumption. reflexivity.
  - cbn [app]. rewrite step_out_plain by reflexivity.
    rewrite step_in_plain by reflexivity. reflexivity.
  - cbn [app]. rewrite step_out_plain by reflexivity. reflexivity.
Qed.

Lemma field_body st ts : forallb StageDoc.tok_ok ts = true -> first_ok st ts = true ->
  forall rest acc, blank_start rest ->
  pf_loop (render_field st ts ++ rest) acc [] c_nul false
  = pf_loop rest (fvalue ts :: acc) [] c_nul false.
Proof.
  intros Hok Hf rest acc Hb.
  destruct ts as [|t ts]; [destruct st; discriminate|].
  destruct st; cbn [render_field].
  - cbn [forallb] in Hok. apply andb_true_iff in Hok as [Ht Hts].
    cbn [flat_map]. rewrite <- app_assoc.
    rewrite (first_bare t ts) by assumption.
    rewrite infield_bare by assumption.
    rewrite <- rev_app_distr. rewrite <- fvalue_cons.
    rewrite after_field; [|apply rev_fvalue_nonempty|assumption].
    now rewrite rev_involutive.
  - cbn [app]. rewrite step_out_quote by reflexivity.
    rewrite <- app_assoc. rewrite (infield_q c_sq) by (auto).
    rewrite app_nil_r. cbn [app]. rewrite step_in_close by reflexivity.
    rewrite after_field; [|apply rev_fvalue_nonempty|assumption].
    now rewrite rev_involutive.
  - cbn [app]. rewrite step_out_quote by reflexivity.
    rewrite <- app_assoc. rewrite (infield_q c_dq) by (auto).
    rewrite app_nil_r. cbn [app]. rewrite step_in_close by reflexivity.
    rewrite after_field; [|apply rev_fvalue_nonempty|assumption].
    now rewrite rev_involutive.
Qed.

Lemma sfield_step first f : sfield_ok first f = true -> forall rest acc, blank_start rest ->
  pf_loop (render_sfield f ++ rest) acc [] c_nul false
  = pf_loop rest (fvalue (f_toks f) :: acc) [] c_nul false.
Proof.
  unfold sfield_ok. intros H rest acc Hb.
  apply andb_true_iff in H as [H Hfirst]. apply andb_true_iff in H as [H Hok].
  apply andb_true_iff in H as [Hsep _].
  unfold render_sfield. rewrite <- app_assoc. rewrite skip_blanks by assumption.
  now apply field_body.
Qed.

Lemma blank_start_blanks s : forallb is_blank s = true -> blank_start s.
Proof.
  destruct s as [|c s]; cbn [blank_start forallb]; [trivial|].
  intros H. apply andb_true_iff in H as [H _]. exact H.
Qed.

Lemma blank_start_rest l trail : sfields_ok false l = true -> forallb is_blank trail = true ->
  blank_start (flat_map render_sfield l ++ trail).
Proof.
  intros Hl Ht. destruct l as [|f r].
  - cbn [flat_map app]. now apply blank_start_blanks.
  - cbn [sfields_ok] in Hl. apply andb_true_iff in Hl as [Hf _].
    unfold sfield_ok in Hf.
    apply andb_true_iff in Hf as [Hf _]. apply andb_true_iff in Hf as [Hf _].
    apply andb_true_iff in Hf as [Hsep Hne]. cbn [orb] in Hne.
    cbn [flat_map]. unfold render_sfield.
    destruct (f_sep f) as [|c s]; [discriminate|].
    cbn [forallb] in Hsep. apply andb_true_iff in Hsep as [Hc _].
    cbn [app blank_start]. exact Hc.
Qed.

Lemma fields_gen l : forall first acc trail,
  sfields_ok first l = true -> forallb is_blank trail = true ->
  pf_loop (flat_map render_sfield l ++ trail) acc [] c_nul false
  = PFOk (rev acc ++ map (fun f => fvalue (f_toks f)) l) false.
Proof.
  induction l as [|f r IH]; intros first acc trail Hl Ht.
  - cbn [flat_map app map]. rewrite <- (app_nil_r trail).
    rewrite skip_blanks by assumption. cbn [pf_loop pf_finish]. now rewrite app_nil_r.
  - cbn [sfields_ok] in Hl. apply andb_true_iff in Hl as [Hf Hr].
    cbn [flat_map map]. rewrite <- app_assoc.
    rewrite (sfield_step first f Hf) by (now apply blank_start_rest).
    rewrite (IH false) by assumption.
    cbn [rev]. now rewrite <- app_assoc.
Qed.

Theorem fields_roundtrip : forall sl, sline_ok sl = true ->
  parse_fields (render_line sl) = PFOk (map (fun f => fvalue (f_toks f)) (sl_fields sl)) false.
Proof.
  intros sl H. unfold sline_ok in H. apply andb_true_iff in H as [Hl Ht].
  unfold parse_fields, render_line. now rewrite (fields_gen _ true [] _ Hl Ht).
Qed.

Print Assumptions parse_fields_total. Print Assumptions parse_line_total. Print Assumptions fields_roundtrip.
