(* Finalize: the sorted member list, unique names, parents first, well-formed hard links. *)
From Coq Require Import Orders Mergesort Sorting.Sorted Sorting.Permutation RelationClasses.
From LC Require Import Lib.Bytes Lib.Lex Lib.Fields Lib.PathM Gen.Consts Model.StageList
  Proofs.StageListP Proofs.StagePathP.
Open Scope N_scope.
Open Scope list_scope.

(* ---------------------------------------------------------------- the order *)
Lemma leb_trans : Transitive (fun x y : bytes => is_true (negb (ltb y x))).
Proof.
  intros a b c Hab Hbc. unfold is_true in *. apply negb_true_iff in Hab, Hbc. apply negb_true_iff.
  destruct (ltb c a) eqn:Hca; [|reflexivity]. exfalso.
  (* c < a, not b < a, not c < b *)
  destruct (ltb a b) eqn:E1.
  - pose proof (ltb_trans _ _ _ Hca E1) as H. congruence.
  - assert (a = b) by (apply ltb_total; assumption). subst. congruence.
Qed.

Lemma sort_strict l : NoDup l -> StronglySorted lt (BSort.sort l).
Proof.
  intros ND. pose proof (BSort.StronglySorted_sort l leb_trans) as SS.
  assert (ND' : NoDup (BSort.sort l)) by (eapply Permutation_NoDup; [apply BSort.Permuted_sort|exact ND]).
  induction SS as [|a r SS IH HF]; [constructor|].
  inversion ND' as [|? ? Hn ND'']; subst. constructor; [now apply IH|].
  rewrite Forall_forall in HF |- *. intros x Hx. specialize (HF x Hx). unfold is_true in HF.
  apply negb_true_iff in HF. unfold lt. destruct (ltb a x) eqn:E; [reflexivity|].
  assert (a = x) by (apply ltb_total; assumption). subst. contradiction.
Qed.
Lemma sort_In l k : In k (BSort.sort l) <-> In k l.
Proof.
  split; intros H.
  - eapply Permutation_in; [apply Permutation_sym, BSort.Permuted_sort|exact H].
  - eapply Permutation_in; [apply BSort.Permuted_sort|exact H].
Qed.

(* ---------------------------------------------------------------- names of the final list *)
Lemma sorted_entries_keys_gen m L : (forall k, In k L -> mem k m = true) ->
  map fst (flat_map (fun k => match find k m with Some e => [(k, e)] | None => [] end) L) = L.
Proof.
  induction L as [|k r IH]; intros H; cbn [flat_map]; [reflexivity|].
  pose proof (H k (or_introl eq_refl)) as Hk. unfold mem in Hk. destruct (find k m) as [e|]; [|discriminate].
  cbn. f_equal. apply IH. intros x Hx. apply H. now right.
Qed.
Lemma sorted_entries_keys m : map fst (sorted_entries m) = BSort.sort (keys m).
Proof.
  unfold sorted_entries. apply sorted_entries_keys_gen. intros k Hk. apply mem_In. now apply sort_In.
Qed.
Lemma sorted_entries_find m k e : In (k, e) (sorted_entries m) -> find k m = Some e.
Proof.
  unfold sorted_entries. intros H. apply in_flat_map in H as (x & _ & Hx).
  destruct (find x m) as [e'|] eqn:E; [|destruct Hx]. destruct Hx as [Hx|[]]. injection Hx as -> ->. exact E.
Qed.
Lemma fix_hardlinks_names l : forall seen, map m_name (fix_hardlinks l seen) = map fst l.
Proof.
  induction l as [|[k e] r IH]; intros seen; cbn [fix_hardlinks map fst]; [reflexivity|].
  destruct e as [|[g|]| |]; try (cbn; now rewrite IH).
  destruct (assocN g seen); cbn; now rewrite IH.
Qed.
Lemma finalize_names m : map m_name (finalize m) = BSort.sort (keys m).
Proof. unfold finalize. now rewrite fix_hardlinks_names, sorted_entries_keys. Qed.

Lemma finalize_nodup m : NoDup (keys m) -> NoDup (map m_name (finalize m)).
Proof.
  intros H. rewrite finalize_names. eapply Permutation_NoDup; [apply BSort.Permuted_sort|exact H].
Qed.
Lemma finalize_mem m x : In x (finalize m) -> mem (m_name x) m = true.
Proof.
  intros H. apply mem_In. apply sort_In. rewrite <- finalize_names. now apply in_map.
Qed.
Lemma finalize_has m k : mem k m = true -> exists x, In x (finalize m) /\ m_name x = k.
Proof.
  intros H. apply mem_In, sort_In in H. rewrite <- finalize_names in H. apply in_map_iff in H as (x & E & Hx). eauto.
Qed.

(* ---------------------------------------------------------------- parents first *)
Lemma nth_error_map_name (ms : list member) i x : nth_error ms i = Some x -> nth_error (map m_name ms) i = Some (m_name x).
Proof. intros H. now apply map_nth_error. Qed.

Lemma finalize_parents_precede m : NoDup (keys m) ->
  (forall k p, mem k m = true -> In p (nrparents k) -> mem p m = true) ->
  forall i x p, nth_error (finalize m) i = Some x -> In p (nrparents (m_name x)) ->
  exists j y, (j < i)%nat /\ nth_error (finalize m) j = Some y /\ m_name y = p.
Proof.
  intros ND Hclosed i x p Hi Hp.
  pose proof (sort_strict (keys m) ND) as SS. rewrite <- finalize_names in SS.
  assert (Hx : mem (m_name x) m = true) by (apply finalize_mem; eapply nth_error_In; eauto).
  pose proof (Hclosed _ _ Hx Hp) as Hpm. apply finalize_has in Hpm as (y & Hy & Ey).
  apply In_nth_error in Hy as (j & Hj). exists j, y. split; [|split; auto].
  destruct (nrparents_prefix _ _ Hp) as (s & Hs & Ek).
  eapply (sorted_parent_first _ SS i j p s Hs).
  - rewrite <- Ek. now apply nth_error_map_name.
  - rewrite <- Ey. now apply nth_error_map_name.
Qed.

(* ---------------------------------------------------------------- hard links *)
Lemma assocN_In {A} k (l : list (N * A)) v : assocN k l = Some v -> In (k, v) l.
Proof.
  induction l as [|[k' v'] r IH]; cbn; [discriminate|]. destruct (k' =? k) eqn:E.
  - apply N.eqb_eq in E. subst. intros H. injection H as ->. now left.
  - intros H. right. now apply IH.
Qed.

(* [seen] maps an inode group to an earlier regular-file member of that group *)
Definition seen_ok (Lall : list (bytes * entry)) (pre : list member) (seen : list (N * bytes)) : Prop :=
  forall g n, In (g, n) seen ->
    exists y, In y pre /\ m_name y = n /\ m_kind y = KReg /\ In (n, EFile (Some g)) Lall.
Lemma fix_hardlinks_wf Lall l : forall seen (pre : list member),
  incl l Lall -> seen_ok Lall pre seen ->
  forall a x b, fix_hardlinks l seen = a ++ x :: b -> m_kind x = KLink ->
  exists y g, In y (pre ++ a) /\ m_name y = m_link x /\ m_kind y = KReg
              /\ In (m_name x, EFile (Some g)) Lall /\ In (m_name y, EFile (Some g)) Lall.
Proof.
  induction l as [|[k e] r IH]; intros seen pre Hincl Hseen a x b E Hk; cbn [fix_hardlinks] in E.
  - destruct a; discriminate.
  - assert (Hr : incl r Lall) by (intros z Hz; apply Hincl; now right).
    assert (Step : forall hd seen', seen_ok Lall (pre ++ [hd]) seen' ->
             hd :: fix_hardlinks r seen' = a ++ x :: b ->
             (hd = x -> exists y g, In y pre /\ m_name y = m_link x /\ m_kind y = KReg
                          /\ In (m_name x, EFile (Some g)) Lall /\ In (m_name y, EFile (Some g)) Lall) ->
             exists y g, In y (pre ++ a) /\ m_name y = m_link x /\ m_kind y = KReg
                          /\ In (m_name x, EFile (Some g)) Lall /\ In (m_name y, EFile (Some g)) Lall).
    { intros hd seen' Hs' E' Hhd. destruct a as [|a0 a'].
      - cbn in E'. injection E' as E1 _. rewrite app_nil_r. now apply Hhd.
      - cbn in E'. injection E' as E1 E'. subst a0.
        destruct (IH seen' (pre ++ [hd]) Hr Hs' a' x b E' Hk) as (y & g & Hy & R).
        exists y, g. split; [|exact R]. rewrite <- app_assoc in Hy. exact Hy. }
    assert (Keep : forall hd, seen_ok Lall (pre ++ [hd]) seen).
    { intros hd g n Hin. destruct (Hseen g n Hin) as (y & Hy & R). exists y. split; [apply in_or_app; now left|exact R]. }
    destruct e as [|[g|]| |].
    + eapply Step; [apply Keep|exact E|]. intros <-. discriminate.
    + destruct (assocN g seen) as [targ|] eqn:Ea.
      * eapply Step; [apply Keep|exact E|]. intros <-. cbn. apply assocN_In in Ea.
        destruct (Hseen g targ Ea) as (y & Hy & Hn & Hkd & Hl). exists y, g.
        repeat split; auto; [apply Hincl; now left|rewrite Hn; exact Hl].
      * eapply Step; [|exact E|intros <-; discriminate].
        intros g' n [Hin|Hin].
        -- injection Hin as <- <-. eexists. split; [apply in_or_app; right; now left|]. cbn.
           repeat split; auto. apply Hincl. now left.
        -- now apply Keep.
    + eapply Step; [apply Keep|exact E|]. intros <-. discriminate.
    + eapply Step; [apply Keep|exact E|]. intros <-. discriminate.
    + eapply Step; [apply Keep|exact E|]. intros <-. discriminate.
Qed.

(* every hard-link member points at an earlier regular-file member of the same inode group *)
Lemma finalize_hardlinks m : forall a x b, finalize m = a ++ x :: b -> m_kind x = KLink ->
  exists y g, In y a /\ m_name y = m_link x /\ m_kind y = KReg
              /\ find (m_name x) m = Some (EFile (Some g)) /\ find (m_name y) m = Some (EFile (Some g)).
Proof.
  intros a x b E Hk. unfold finalize in E.
  destruct (fix_hardlinks_wf (sorted_entries m) (sorted_entries m) [] [] (incl_refl _)
              ltac:(intros g n []) a x b E Hk) as (y & g & Hy & Hn & Hkd & H1 & H2).
  exists y, g. repeat split; auto; now apply sorted_entries_find.
Qed.
