(* Globbing facts: a pattern "dir/*" expanded recursively covers everything below dir. *)
From LC Require Import Lib.Bytes Lib.Lex Lib.Fields Lib.PathM Gen.Consts Model.StageList
  Proofs.StageListP Proofs.StagePathP.
Open Scope N_scope.
Open Scope list_scope.

Lemma abs_clean_intro cs : cs <> [] -> Forall plain cs -> abs_cleanb (sl :: pjoin cs) = true.
Proof.
  intros Hne HF.
  assert (S : psplit (pjoin cs) = cs).
  { unfold psplit, pjoin. apply split_join; [exact Hne|].
    eapply Forall_impl; [|exact HF]. intros x Hx. now apply plain_nosep. }
  change ((Ascii.eqb sl c_sl && forallb plainb (psplit (pjoin cs))) = true). rewrite S.
  change c_sl with sl. rewrite Ascii.eqb_refl. cbn [andb].
  apply forallb_forall. intros x Hx. apply plainb_spec. rewrite Forall_forall in HF. now apply HF.
Qed.

Lemma clean_abs_clean p : abs_cleanb p = true -> clean p = p.
Proof.
  intros H. apply abs_clean_struct in H as (cs & c & HF & ->).
  set (L := cs ++ [c]) in *. assert (Hne : L <> []) by (subst L; destruct cs; discriminate).
  unfold clean. cbn [is_rooted]. rewrite Ascii.eqb_refl.
  assert (E : sl :: pjoin L = pjoin (([] : bytes) :: L)).
  { unfold pjoin. destruct L as [|y l]; [congruence|]. now rewrite join_cons2. }
  replace (psplit (sl :: pjoin L)) with (([] : bytes) :: L).
  2:{ rewrite E. unfold psplit, pjoin. symmetry. apply split_join; [discriminate|].
      constructor; [intros []|]. eapply Forall_impl; [|exact HF]. intros a Ha. now apply plain_nosep. }
  cbn [fold_left]. rewrite stepc_empty. rewrite (fold_plain true L HF). rewrite app_nil_r, rev_involutive.
  reflexivity.
Qed.

(* ---------------------------------------------------------------- pmatch *)
Lemma pmatch_nil s : pmatch [] s = match s with [] => true | _ => false end.
Proof. reflexivity. Qed.
Lemma pmatch_lit_cons c p d s : Ascii.eqb c c_star = false ->
  pmatch (c :: p) (d :: s) = if Ascii.eqb c d then pmatch p s else false.
Proof. intros H. cbn [pmatch]. now rewrite H. Qed.
Lemma pmatch_lit l : ~ In c_star l -> forall p s, pmatch (l ++ p) (l ++ s) = pmatch p s.
Proof.
  induction l as [|c l IH]; intros Hn p s; [reflexivity|]. cbn [app].
  rewrite pmatch_lit_cons.
  - rewrite Ascii.eqb_refl. apply IH. intros H. apply Hn. now right.
  - destruct (Ascii.eqb c c_star) eqn:E; [|reflexivity]. apply Ascii.eqb_eq in E. exfalso. apply Hn. now left.
Qed.
Lemma pmatch_star_cons p s : pmatch (c_star :: p) s =
  if pmatch p s then true else match s with [] => false | d :: s' => if Ascii.eqb d c_sl then false else pmatch (c_star :: p) s' end.
Proof. destruct s; reflexivity. Qed.
Lemma pmatch_star_noslash r : ~ In sl r -> pmatch [c_star] r = true.
Proof.
  induction r as [|d r IH]; intros Hn; rewrite pmatch_star_cons, pmatch_nil; [reflexivity|].
  change c_sl with sl. destruct (Ascii.eqb d sl) eqn:E.
  - apply Ascii.eqb_eq in E. exfalso. apply Hn. now left.
  - apply IH. intros H. apply Hn. now right.
Qed.

(* ---------------------------------------------------------------- below a directory *)
Lemma under_spec d k : under d k = true <-> exists r, k = d ++ sl :: r.
Proof.
  unfold under. rewrite fprefix_spec. change c_sl with sl. split; intros (r & ->); exists r; now rewrite <- app_assoc.
Qed.
Lemma last_slash_cases (r : bytes) : ~ In sl r \/ exists r1 r2, r = r1 ++ sl :: r2 /\ ~ In sl r2.
Proof.
  induction r as [|c r IH]; [left; intros []|].
  destruct IH as [IH|(r1 & r2 & -> & H2)].
  - destruct (Ascii.eqb c sl) eqn:E.
    + apply Ascii.eqb_eq in E. subst. right. exists [], r. auto.
    + left. intros [H|H]; [subst; now rewrite Ascii.eqb_refl in E|contradiction].
  - right. exists (c :: r1), r2. auto.
Qed.
Lemma chop_app_noslash d r : d <> [] -> ~ In sl r -> chop (d ++ sl :: r) = Some d.
Proof.
  intros Hd Hr. unfold chop. rewrite rev_app_distr. change (rev (sl :: r)) with (rev r ++ [sl]).
  rewrite <- app_assoc. change ([sl] ++ rev d) with (sl :: rev d). rewrite drop_to_slash_app by exact Hr.
  destruct (rev d) as [|y l] eqn:E.
  - apply (f_equal (@rev _)) in E. rewrite rev_involutive in E. cbn in E. congruence.
  - rewrite <- E, rev_involutive. reflexivity.
Qed.

(* the entry of d through which k (below d) is reached *)
Lemma under_first d : d <> [] -> forall k, under d k = true ->
  exists c, ~ In sl c /\ (d ++ sl :: c = k \/ (In (d ++ sl :: c) (nrparents k) /\ under (d ++ sl :: c) k = true)).
Proof.
  intros Hd k. remember (length k) as n eqn:En. revert k En. induction n as [n IH] using lt_wf_ind.
  intros k En Hu. apply under_spec in Hu as (r & ->).
  destruct (last_slash_cases r) as [Hr|(r1 & r2 & -> & H2)].
  - exists r. auto.
  - assert (Ek : d ++ sl :: r1 ++ sl :: r2 = (d ++ sl :: r1) ++ sl :: r2) by (now rewrite <- app_assoc).
    assert (Ec : chop (d ++ sl :: r1 ++ sl :: r2) = Some (d ++ sl :: r1)).
    { rewrite Ek. apply chop_app_noslash; [destruct d; discriminate|exact H2]. }
    assert (Hu' : under d (d ++ sl :: r1) = true) by (apply under_spec; eauto).
    destruct (IH (length (d ++ sl :: r1)) ltac:(subst n; rewrite Ek, !app_length; cbn; lia) _ eq_refl Hu')
      as (c & Hc & [Hm|[Hm Hum]]).
    + exists c. split; [exact Hc|]. right. rewrite (nrparents_step _ _ Ec). split; [left; exact (eq_sym Hm)|].
      apply under_spec. exists r2. rewrite Hm. exact Ek.
    + exists c. split; [exact Hc|]. right. rewrite (nrparents_step _ _ Ec). split; [now right|].
      apply under_spec in Hum as (x & Hx). apply under_spec. exists (x ++ sl :: r2).
      rewrite Ek, Hx. now rewrite <- !app_assoc.
Qed.

(* ---------------------------------------------------------------- "dir/*", recursively *)
Definition star_pat (d : bytes) : bytes := d ++ bs "/*".
Lemma star_plain : plain [c_star].
Proof.
  repeat split; try discriminate. intros [H|[]]. apply (f_equal bn) in H. vm_compute in H. discriminate.
Qed.
Lemma star_pat_clean d : abs_cleanb d = true -> clean (star_pat d) = star_pat d.
Proof.
  intros H. apply clean_abs_clean. apply abs_clean_struct in H as (cs & c & HF & ->).
  unfold star_pat. change (bs "/*") with (sl :: [c_star]).
  replace ((sl :: pjoin (cs ++ [c])) ++ sl :: [c_star]) with (sl :: pjoin ((cs ++ [c]) ++ [[c_star]])).
  - apply abs_clean_intro; [intros E; destruct cs; discriminate E|]. apply Forall_app; split; [exact HF|].
    constructor; [exact star_plain|constructor].
  - unfold pjoin. rewrite join_snoc by (intros E; destruct cs; discriminate E). reflexivity.
Qed.

Definition tree_closed (t : tree) : Prop :=
  forall k p, In k (keys t) -> In p (nrparents k) -> assoc p t = Some NDir.

Lemma glob_star_entry t d c : abs_cleanb d = true -> ~ In c_star d -> ~ In sl c ->
  In (d ++ sl :: c) (keys t) -> In (d ++ sl :: c) (glob t (star_pat d)).
Proof.
  intros Hd Hs Hc Hin. unfold glob. rewrite star_pat_clean by exact Hd. apply filter_In. split; [exact Hin|].
  assert (Hr : feq (d ++ sl :: c) root_path = false).
  { apply feq_false. destruct d as [|x [|y d']]; [discriminate Hd| |discriminate].
    cbn in Hd. apply andb_true_iff in Hd as [_ Hd]. discriminate Hd. }
  rewrite Hr. unfold star_pat. change (bs "/*") with (sl :: [c_star]).
  replace (d ++ sl :: [c_star]) with ((d ++ [sl]) ++ [c_star]) by (now rewrite <- app_assoc).
  replace (d ++ sl :: c) with ((d ++ [sl]) ++ c) by (now rewrite <- app_assoc).
  rewrite pmatch_lit; [now apply pmatch_star_noslash|].
  intros H. apply in_app_or in H as [H|[H|[]]]; [contradiction|].
  apply (f_equal bn) in H. vm_compute in H. discriminate H.
Qed.

(* AddDirectoriesByName: everything below the package's directory is named *)
Lemma glob_rec_star_under t d k : tree_closed t -> Forall good (keys t) ->
  abs_cleanb d = true -> ~ In c_star d -> In k (keys t) -> under d k = true ->
  In k (glob_rec t (star_pat d)).
Proof.
  intros HC HG Hd Hs Hk Hu.
  assert (Hdne : d <> []) by (destruct d; [discriminate Hd|discriminate]).
  destruct (under_first d Hdne k Hu) as (c & Hc & [Hm|[Hm Hum]]).
  - unfold glob_rec. apply filter_In. split; [exact Hk|].
    assert (M : memb k (glob t (star_pat d)) = true).
    { apply memb_In. rewrite <- Hm. apply glob_star_entry; auto. now rewrite Hm. }
    now rewrite M.
  - pose proof (HC _ _ Hk Hm) as Hdir. set (m := d ++ sl :: c) in *.
    assert (Hmk : In m (keys t)) by (eapply assoc_Some_key; eauto).
    assert (Hmg : In m (glob t (star_pat d))) by (apply glob_star_entry; auto).
    unfold glob_rec. apply filter_In. split; [exact Hk|].
    destruct (memb k (glob t (star_pat d))); [reflexivity|].
    apply existsb_exists. exists m. split; [|exact Hum].
    apply filter_In. split; [exact Hmg|]. unfold is_realdir, lstat.
    rewrite Forall_forall in HG. rewrite clean_abs_clean by (exact (good_parents k m (HG k Hk) Hm)). now rewrite Hdir.
Qed.

(* ---------------------------------------------------------------- what a pattern can match *)
Fixpoint lit_prefix (p : bytes) : bytes :=
  match p with [] => [] | c :: r => if Ascii.eqb c c_star then [] else c :: lit_prefix r end.
Lemma pmatch_lit_prefix p : forall s, pmatch p s = true -> fprefix (lit_prefix p) s = true.
Proof.
  induction p as [|c p IH]; intros s H; [reflexivity|]. cbn [lit_prefix].
  destruct (Ascii.eqb c c_star) eqn:E; [reflexivity|].
  destruct s as [|d s]; [cbn [pmatch] in H; rewrite E in H; discriminate H|].
  rewrite pmatch_lit_cons in H by exact E. cbn [fprefix].
  destruct (Ascii.eqb c d); [now apply IH|discriminate H].
Qed.
Lemma fprefix_app p s r : fprefix p s = true -> fprefix p (s ++ r) = true.
Proof. intros H. apply fprefix_spec in H as (x & ->). apply fprefix_spec. exists (x ++ r). now rewrite app_assoc. Qed.

(* everything a wildcard line names starts with the literal part of its pattern *)
Lemma targets_wild_prefix t li k : In k (targets_wild t li) ->
  fprefix (lit_prefix (clean (li_name li))) k = true.
Proof.
  assert (G : forall m, In m (glob t (li_name li)) -> fprefix (lit_prefix (clean (li_name li))) m = true).
  { intros m Hm. unfold glob in Hm. apply filter_In in Hm as [_ Hm].
    destruct (feq m root_path); [discriminate Hm|]. now apply pmatch_lit_prefix. }
  unfold targets_wild. destruct (li_type li); try apply G.
  unfold glob_rec. intros H. apply filter_In in H as [_ H].
  destruct (memb k (glob t (li_name li))) eqn:M; [apply G; now apply memb_In|].
  apply existsb_exists in H as (m & Hm & Hu). apply filter_In in Hm as [Hm _].
  apply under_spec in Hu as (r & ->). apply fprefix_app. now apply G.
Qed.

(* two prefixes of one string *)
Lemma prefix_comparable (a b : bytes) : forall x y, a ++ x = b ++ y -> (exists z, a = b ++ z) \/ (exists z, b = a ++ z).
Proof.
  revert b. induction a as [|c a IH]; intros b x y H; [right; now exists b|].
  destruct b as [|d b]; [left; now exists (c :: a)|]. cbn in H. injection H as -> H.
  destruct (IH b x y H) as [(z & ->)|(z & ->)]; [left|right]; now exists z.
Qed.
Definition compat (a b : bytes) : bool := fprefix a b || fprefix b a.
Lemma fprefix_compat a b k : fprefix a k = true -> fprefix b k = true -> compat a b = true.
Proof.
  intros Ha Hb. apply fprefix_spec in Ha as (x & ->). apply fprefix_spec in Hb as (y & Hy).
  unfold compat. apply orb_true_iff. destruct (prefix_comparable a b x y Hy) as [(z & ->)|(z & ->)].
  - right. apply fprefix_spec. now exists z.
  - left. apply fprefix_spec. now exists z.
Qed.

(* lines that cannot name anything with the given prefix *)
Definition op_avoids (pfx : bytes) (o : op) : bool :=
  match o with
  | OAdd li => if li_wild li then negb (compat (lit_prefix (clean (li_name li))) pfx)
               else negb (fprefix pfx (li_name li))
  | _ => true
  end.
Lemma ops_avoid t pfx ops k : forallb (op_avoids pfx) ops = true -> ops_name t ops k -> fprefix pfx k = false.
Proof.
  intros Ha (li & Hin & Hk). rewrite forallb_forall in Ha. specialize (Ha _ Hin). cbn [op_avoids] in Ha.
  unfold op_targets in Hk. destruct (li_wild li).
  - destruct (fprefix pfx k) eqn:E; [|reflexivity]. apply targets_wild_prefix in Hk.
    rewrite (fprefix_compat _ _ _ Hk E) in Ha. discriminate Ha.
  - destruct Hk as [<-|[]]. now apply negb_true_iff.
Qed.

(* ---------------------------------------------------------------- parents *)
Lemma under_parent d : d <> [] -> forall k, under d k = true -> In d (nrparents k).
Proof.
  intros Hd k. remember (length k) as n eqn:En. revert k En. induction n as [n IH] using lt_wf_ind.
  intros k En Hu. apply under_spec in Hu as (r & ->).
  destruct (last_slash_cases r) as [Hr|(r1 & r2 & -> & H2)].
  - rewrite (nrparents_step _ _ (chop_app_noslash d r Hd Hr)). now left.
  - assert (Ek : d ++ sl :: r1 ++ sl :: r2 = (d ++ sl :: r1) ++ sl :: r2) by (now rewrite <- app_assoc).
    assert (Ec : chop (d ++ sl :: r1 ++ sl :: r2) = Some (d ++ sl :: r1)).
    { rewrite Ek. apply chop_app_noslash; [destruct d; discriminate|exact H2]. }
    rewrite (nrparents_step _ _ Ec). right.
    apply (IH (length (d ++ sl :: r1))); [subst n; rewrite Ek, !app_length; cbn; lia|reflexivity|].
    apply under_spec. eauto.
Qed.
(* a (non-root) parent is a prefix up to a slash *)
Lemma chop_under d p : chop d = Some p -> under p d = true.
Proof.
  unfold chop. destruct (drop_to_slash (rev d)) as [[|c r]|] eqn:E; try discriminate.
  intros H. injection H as <-. apply drop_to_slash_prefix in E as (a & E).
  apply (f_equal (@rev _)) in E. rewrite rev_involutive in E. rewrite E.
  apply under_spec. exists (rev a). rewrite rev_app_distr. cbn [rev]. now rewrite <- !app_assoc.
Qed.
Lemma under_trans a b c : under a b = true -> under b c = true -> under a c = true.
Proof.
  intros H1 H2. apply under_spec in H1 as (x & ->). apply under_spec in H2 as (y & ->).
  apply under_spec. exists (x ++ sl :: y). now rewrite <- !app_assoc.
Qed.
Lemma nrparents_under k p : In p (nrparents k) -> under p k = true.
Proof.
  remember (length k) as n eqn:En. revert k En. induction n as [n IH] using lt_wf_ind. intros k En Hin.
  destruct (chop k) as [d|] eqn:E.
  - rewrite (nrparents_step _ _ E) in Hin. pose proof (chop_under _ _ E) as U.
    destruct Hin as [<-|Hin]; [exact U|]. pose proof (chop_shorter _ _ E).
    eapply under_trans; [|exact U]. eapply (IH (length d)); eauto. lia.
  - rewrite (nrparents_none _ E) in Hin. destruct Hin.
Qed.

(* what "dir/*" names lies below dir *)
Lemma pmatch_lit_inv l : ~ In c_star l -> forall p s, pmatch (l ++ p) s = true -> exists s', s = l ++ s' /\ pmatch p s' = true.
Proof.
  induction l as [|c l IH]; intros Hn p s H; [now exists s|]. cbn [app] in H.
  assert (E : Ascii.eqb c c_star = false).
  { destruct (Ascii.eqb c c_star) eqn:E; [|reflexivity]. apply Ascii.eqb_eq in E. exfalso. apply Hn. now left. }
  destruct s as [|d s]; [cbn [pmatch] in H; rewrite E in H; discriminate H|].
  rewrite pmatch_lit_cons in H by exact E. destruct (Ascii.eqb c d) eqn:Ed; [|discriminate H].
  apply Ascii.eqb_eq in Ed. subst d. destruct (IH ltac:(intros X; apply Hn; now right) p s H) as (s' & -> & Hs).
  now exists s'.
Qed.
Lemma glob_rec_star_inv t d k : abs_cleanb d = true -> ~ In c_star d -> In k (glob_rec t (star_pat d)) -> under d k = true.
Proof.
  intros Hd Hs H.
  assert (G : forall m, In m (glob t (star_pat d)) -> under d m = true).
  { intros m Hm. unfold glob in Hm. apply filter_In in Hm as [_ Hm]. rewrite star_pat_clean in Hm by exact Hd.
    destruct (feq m root_path); [discriminate Hm|]. unfold star_pat in Hm. change (bs "/*") with (sl :: [c_star]) in Hm.
    replace (d ++ sl :: [c_star]) with ((d ++ [sl]) ++ [c_star]) in Hm by (now rewrite <- app_assoc).
    apply pmatch_lit_inv in Hm as (s' & -> & _).
    - apply under_spec. exists s'. now rewrite <- app_assoc.
    - intros X. apply in_app_or in X as [X|[X|[]]]; [contradiction|]. apply (f_equal bn) in X. vm_compute in X. discriminate X. }
  unfold glob_rec in H. apply filter_In in H as [_ H].
  destruct (memb k (glob t (star_pat d))) eqn:M; [apply G; now apply memb_In|].
  apply existsb_exists in H as (m & Hm & Hu). apply filter_In in Hm as [Hm _].
  eapply under_trans; [apply G; exact Hm|exact Hu].
Qed.
