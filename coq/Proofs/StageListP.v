(* Lemmas about Model/StageList.v: the member map, monotone and key-bounded pipeline steps,
   parent closure, sorting, hard links. *)
From Coq Require Import Sorting.Sorted Sorting.Permutation Orders Mergesort.
From LC Require Import Lib.Bytes Lib.Lex Lib.Fields Lib.PathM Gen.Consts Model.StageList.
Open Scope N_scope.
Open Scope list_scope.

(* ---------------------------------------------------------------- lazy equality = beq *)
Lemma feq_beq a : forall b, feq a b = beq a b.
Proof. induction a as [|x a IH]; intros [|y b]; cbn; auto; try (rewrite IH; now destruct (Ascii.eqb x y)). Qed.
Lemma feq_true a b : feq a b = true <-> a = b.
Proof. rewrite feq_beq. apply beq_true. Qed.
Lemma feq_refl a : feq a a = true.
Proof. now apply feq_true. Qed.
Lemma feq_false a b : feq a b = false <-> a <> b.
Proof. rewrite feq_beq. apply beq_false. Qed.
Lemma feq_sym a b : feq a b = feq b a.
Proof. rewrite !feq_beq. apply beq_sym. Qed.
Lemma fprefix_prefixb p : forall s, fprefix p s = prefixb p s.
Proof. induction p as [|x p IH]; intros [|y s]; cbn; auto; try (rewrite IH; now destruct (Ascii.eqb x y)). Qed.
Lemma fprefix_spec p s : fprefix p s = true <-> exists r, s = p ++ r.
Proof. rewrite fprefix_prefixb. apply prefixb_spec. Qed.

Lemma memb_In k l : memb k l = true <-> In k l.
Proof.
  induction l as [|x r IH]; cbn; [split; [discriminate|tauto]|].
  destruct (feq k x) eqn:E.
  - apply feq_true in E. subst. tauto.
  - apply feq_false in E. rewrite IH. split; [tauto|]. intros [H|H]; [congruence|exact H].
Qed.
Lemma memb_false k l : memb k l = false <-> ~ In k l.
Proof. rewrite <- memb_In. destruct (memb k l); split; congruence. Qed.

(* ---------------------------------------------------------------- association lists *)
Lemma assoc_In {A} k (l : list (bytes * A)) v : assoc k l = Some v -> In (k, v) l.
Proof.
  induction l as [|[k' v'] r IH]; cbn; [discriminate|].
  destruct (feq k' k) eqn:E; [apply feq_true in E; subst; intros H; injection H as ->; now left|].
  intros H. right. now apply IH.
Qed.
Lemma assoc_None {A} k (l : list (bytes * A)) : assoc k l = None <-> ~ In k (keys l).
Proof.
  induction l as [|[k' v'] r IH]; cbn; [tauto|].
  destruct (feq k' k) eqn:E.
  - apply feq_true in E. subst. split; [discriminate|]. intros H. exfalso. apply H. now left.
  - apply feq_false in E. rewrite IH. tauto.
Qed.
Lemma assoc_Some_key {A} k (l : list (bytes * A)) v : assoc k l = Some v -> In k (keys l).
Proof. intros H. apply assoc_In in H. unfold keys. apply in_map_iff. now exists (k, v). Qed.
Lemma assoc_NoDup {A} k v (l : list (bytes * A)) : NoDup (keys l) -> In (k, v) l -> assoc k l = Some v.
Proof.
  induction l as [|[k' v'] r IH]; cbn; [tauto|]. intros ND [H|H].
  - injection H as -> ->. now rewrite feq_refl.
  - inversion ND as [|? ? Hn ND']; subst. destruct (feq k' k) eqn:E.
    + apply feq_true in E. subst. exfalso. apply Hn. unfold keys. apply in_map_iff. now exists (k, v).
    + now apply IH.
Qed.

(* ---------------------------------------------------------------- the member map *)
Lemma mem_In k m : mem k m = true <-> In k (keys m).
Proof.
  unfold mem, find. destruct (assoc k m) eqn:E.
  - split; auto. intros _. eapply assoc_Some_key; eauto.
  - apply assoc_None in E. split; [discriminate|tauto].
Qed.
Lemma mem_false k m : mem k m = false <-> ~ In k (keys m).
Proof. rewrite <- mem_In. destruct (mem k m); split; congruence. Qed.
Lemma find_del_eq k m : find k (del k m) = None.
Proof.
  unfold find, del. apply assoc_None. unfold keys. rewrite in_map_iff. intros ([k' v] & E & H). cbn in E. subst.
  apply filter_In in H as [_ H]. cbn in H. now rewrite feq_refl in H.
Qed.
Lemma find_del_neq k k' m : k' <> k -> find k' (del k m) = find k' m.
Proof.
  intros Hne. unfold find, del. induction m as [|[k0 v0] r IH]; cbn; [reflexivity|].
  destruct (feq k0 k) eqn:E; cbn.
  - apply feq_true in E. subst. assert (feq k k' = false) as -> by (apply feq_false; congruence). exact IH.
  - destruct (feq k0 k'); auto.
Qed.
Lemma find_add_eq k v m : find k (add k v m) = Some v.
Proof. unfold find, add. cbn. now rewrite feq_refl. Qed.
Lemma find_add_neq k k' v m : k' <> k -> find k' (add k v m) = find k' m.
Proof.
  intros Hne. unfold find, add. cbn. assert (feq k k' = false) as -> by (apply feq_false; congruence).
  now apply find_del_neq.
Qed.
Lemma mem_add k k' v m : mem k' (add k v m) = if feq k' k then true else mem k' m.
Proof.
  unfold mem. destruct (feq k' k) eqn:E.
  - apply feq_true in E. subst. now rewrite find_add_eq.
  - apply feq_false in E. now rewrite find_add_neq.
Qed.
Lemma mem_del k k' m : mem k' (del k m) = if feq k' k then false else mem k' m.
Proof.
  unfold mem. destruct (feq k' k) eqn:E.
  - apply feq_true in E. subst. now rewrite find_del_eq.
  - apply feq_false in E. now rewrite find_del_neq.
Qed.
Lemma keys_del k m : keys (del k m) = filter (fun x => negb (feq x k)) (keys m).
Proof. unfold keys, del. induction m as [|[k0 v0] r IH]; cbn; [reflexivity|]. destruct (feq k0 k); cbn; now rewrite IH. Qed.
Lemma NoDup_filter {A} (f : A -> bool) l : NoDup l -> NoDup (filter f l).
Proof.
  induction 1 as [|x l Hn ND IH]; cbn; [constructor|]. destruct (f x); auto.
  constructor; auto. intros H. apply filter_In in H. tauto.
Qed.
Lemma nodup_del k m : NoDup (keys m) -> NoDup (keys (del k m)).
Proof. intros H. rewrite keys_del. now apply NoDup_filter. Qed.
Lemma keys_add k v m : keys (add k v m) = k :: keys (del k m).
Proof. reflexivity. Qed.
Lemma nodup_add k v m : NoDup (keys m) -> NoDup (keys (add k v m)).
Proof.
  intros H. rewrite keys_add. constructor; [|now apply nodup_del].
  rewrite keys_del. intros Hin. apply filter_In in Hin as [_ Hin]. now rewrite feq_refl in Hin.
Qed.
