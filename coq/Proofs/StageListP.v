(* Lemmas about Model/StageList.v: the member map, monotone and key-bounded pipeline steps,
   parent closure, sorting, hard links. *)
From Coq Require Import Sorting.Sorted Sorting.Permutation Orders Mergesort.
From LC Require Import Lib.Bytes Lib.Lex Lib.Fields Lib.PathM Gen.Consts Model.StageList.
Open Scope N_scope.
Open Scope list_scope.

(* ---------------------------------------------------------------- lazy equality = beq *)
Lemma feq_beq a : forall b, feq a b = beq a b.
Proof. induction a as [|x a IH]; intros [|y b]; cbn; auto; try (rewrite IH; now destruct (Ascii.eqb x y)). Qed.
Lemma feq_true a b : feq a b = true <-> a = b.
Proof. rewrite feq_beq. apply beq_true. Qed.
Lemma feq_refl a : feq a a = true.
Proof. now apply feq_true. Qed.
Lemma feq_false a b : feq a b = false <-> a <> b.
Proof. rewrite feq_beq. apply beq_false. Qed.
Lemma feq_sym a b : feq a b = feq b a.
Proof. rewrite !feq_beq. apply beq_sym. Qed.
Lemma fprefix_prefixb p : forall s, fprefix p s = prefixb p s.
Proof. induction p as [|x p IH]; intros [|y s]; cbn; auto; try (rewrite IH; now destruct (Ascii.eqb x y)). Qed.
Lemma fprefix_spec p s : fprefix p s = true <-> exists r, s = p ++ r.
Proof. rewrite fprefix_prefixb. apply prefixb_spec. Qed.

Lemma memb_In k l : memb k l = true <-> In k l.
Proof.
  induction l as [|x r IH]; cbn; [split; [discriminate|tauto]|].
  destruct (feq k x) eqn:E.
  - apply feq_true in E. subst. tauto.
  - apply feq_false in E. rewrite IH. split; [tauto|]. intros [H|H]; [congruence|exact H].
Qed.
Lemma memb_false k l : memb k l = false <-> ~ In k l.
Proof. rewrite <- memb_In. destruct (memb k l); split; congruence. Qed.

(* ---------------------------------------------------------------- association lists *)
Lemma assoc_In {A} k (l : list (bytes * A)) v : assoc k l = Some v -> In (k, v) l.
Proof.
  induction l as [|[k' v'] r IH]; cbn; [discriminate|].
  destruct (feq k' k) eqn:E; [apply feq_true in E; subst; intros H; injection H as ->; now left|].
  intros H. right. now apply IH.
Qed.
Lemma assoc_None {A} k (l : list (bytes * A)) : assoc k l = None <-> ~ In k (keys l).
Proof.
  induction l as [|[k' v'] r IH]; cbn; [tauto|].
  destruct (feq k' k) eqn:E.
  - apply feq_true in E. subst. split; [discriminate|]. intros H. exfalso. apply H. now left.
  - apply feq_false in E. rewrite IH. tauto.
Qed.
Lemma assoc_Some_key {A} k (l : list (bytes * A)) v : assoc k l = Some v -> In k (keys l).
Proof. intros H. apply assoc_In in H. unfold keys. apply in_map_iff. now exists (k, v). Qed.
Lemma assoc_NoDup {A} k v (l : list (bytes * A)) : NoDup (keys l) -> In (k, v) l -> assoc k l = Some v.
Proof.
  induction l as [|[k' v'] r IH]; cbn; [tauto|]. intros ND [H|H].
  - injection H as -> ->. now rewrite feq_refl.
  - inversion ND as [|? ? Hn ND']; subst. destruct (feq k' k) eqn:E.
    + apply feq_true in E. subst. exfalso. apply Hn. unfold keys. apply in_map_iff. now exists (k, v).
    + now apply IH.
Qed.

(* ---------------------------------------------------------------- the member map *)
Lemma mem_In k m : mem k m = true <-> In k (keys m).
Proof.
  unfold mem, find. destruct (assoc k m) eqn:E.
  - split; auto. intros _. eapply assoc_Some_key; eauto.
  - apply assoc_None in E. split; [discriminate|tauto].
Qed.
Lemma mem_false k m : mem k m = false <-> ~ In k (keys m).
Proof. rewrite <- mem_In. destruct (mem k m); split; congruence. Qed.
Lemma find_del_eq k m : find k (del k m) = None.
Proof.
  unfold find, del. apply assoc_None. unfold keys. rewrite in_map_iff. intros ([k' v] & E & H). cbn in E. subst.
  apply filter_In in H as [_ H]. cbn in H. now rewrite feq_refl in H.
Qed.
Lemma find_del_neq k k' m : k' <> k -> find k' (del k m) = find k' m.
Proof.
  intros Hne. unfold find, del. induction m as [|[k0 v0] r IH]; cbn; [reflexivity|].
  destruct (feq k0 k) eqn:E; cbn.
  - apply feq_true in E. subst. assert (feq k k' = false) as -> by (apply feq_false; congruence). exact IH.
  - destruct (feq k0 k'); auto.
Qed.
Lemma find_add_eq k v m : find k (add k v m) = Some v.
Proof. unfold find, add. cbn. now rewrite feq_refl. Qed.
Lemma find_add_neq k k' v m : k' <> k -> find k' (add k v m) = find k' m.
Proof.
  intros Hne. unfold find, add. cbn. assert (feq k k' = false) as -> by (apply feq_false; congruence).
  now apply find_del_neq.
Qed.
Lemma mem_add k k' v m : mem k' (add k v m) = if feq k' k then true else mem k' m.
Proof.
  unfold mem. destruct (feq k' k) eqn:E.
  - apply feq_true in E. subst. now rewrite find_add_eq.
  - apply feq_false in E. now rewrite find_add_neq.
Qed.
Lemma mem_del k k' m : mem k' (del k m) = if feq k' k then false else mem k' m.
Proof.
  unfold mem. destruct (feq k' k) eqn:E.
  - apply feq_true in E. subst. now rewrite find_del_eq.
  - apply feq_false in E. now rewrite find_del_neq.
Qed.
Lemma keys_del k m : keys (del k m) = filter (fun x => negb (feq x k)) (keys m).
Proof. unfold keys, del. induction m as [|[k0 v0] r IH]; cbn; [reflexivity|]. destruct (feq k0 k); cbn; now rewrite IH. Qed.
Lemma NoDup_filter {A} (f : A -> bool) l : NoDup l -> NoDup (filter f l).
Proof.
  induction 1 as [|x l Hn ND IH]; cbn; [constructor|]. destruct (f x); auto.
  constructor; auto. intros H. apply filter_In in H. tauto.
Qed.
Lemma nodup_del k m : NoDup (keys m) -> NoDup (keys (del k m)).
Proof. intros H. rewrite keys_del. now apply NoDup_filter. Qed.
Lemma keys_add k v m : keys (add k v m) = k :: keys (del k m).
Proof. reflexivity. Qed.
Lemma nodup_add k v m : NoDup (keys m) -> NoDup (keys (add k v m)).
Proof.
  intros H. rewrite keys_add. constructor; [|now apply nodup_del].
  rewrite keys_del. intros Hin. apply filter_In in Hin as [_ Hin]. now rewrite feq_refl in Hin.
Qed.

(* ---------------------------------------------------------------- transitions that only add *)
Ltac break_match :=
  match goal with
  | H : context [match ?x with _ => _ end] |- _ => destruct x eqn:?
  | |- context [match ?x with _ => _ end] => destruct x eqn:?
  end.

(* a regular-file entry with an inode group carries the group lstat reported for its own name
   (entries without a group -- link count 1, or contents from a src= file -- say nothing) *)
Definition ino_ok (t : tree) (m : emap) : Prop :=
  forall k g, find k m = Some (EFile (Some g)) -> lstat t k = Some (NFile (Some g)).

Record trans (t : tree) (S : bytes -> Prop) (m m' : emap) : Prop := MkTrans {
  tr_ext : forall k, mem k m = true -> mem k m' = true;
  tr_bound : forall k, mem k m' = true -> mem k m = true \/ S k;
  tr_frame : forall k, ~ S k -> find k m' = find k m;
  tr_nodup : NoDup (keys m) -> NoDup (keys m');
  tr_ino : ino_ok t m -> ino_ok t m' }.

Lemma trans_refl t S m : trans t S m m.
Proof. constructor; auto. Qed.
Lemma trans_trans t S1 S2 m m1 m2 :
  trans t S1 m m1 -> trans t S2 m1 m2 -> trans t (fun k => S1 k \/ S2 k) m m2.
Proof.
  intros [e1 b1 f1 n1 i1] [e2 b2 f2 n2 i2]. constructor; auto.
  - intros k H. apply b2 in H as [H|H]; [|tauto]. apply b1 in H. tauto.
  - intros k H. rewrite f2 by tauto. apply f1. tauto.
Qed.
Lemma trans_weaken t (S S' : bytes -> Prop) m m' : (forall k, S k -> S' k) -> trans t S m m' -> trans t S' m m'.
Proof.
  intros HS [e b f n i]. constructor; auto.
  intros k H. apply b in H as [H|H]; auto.
Qed.

Lemma trans_add t n e m : (forall g, e = EFile (Some g) -> lstat t n = Some (NFile (Some g))) -> trans t (eq n) m (add n e m).
Proof.
  intros He. constructor.
  - intros k H. rewrite mem_add. now destruct (feq k n).
  - intros k H. rewrite mem_add in H. destruct (feq k n) eqn:E; [right; symmetry; now apply feq_true|now left].
  - intros k H. apply find_add_neq. congruence.
  - apply nodup_add.
  - intros Hi k g Hf. destruct (feq k n) eqn:E.
    + apply feq_true in E. subst. rewrite find_add_eq in Hf. injection Hf as ->. now apply He.
    + apply feq_false in E. rewrite find_add_neq in Hf by exact E. now apply Hi.
Qed.

Lemma add_single_spec t li n m m' : add_single t li n m = Ok m' ->
  (lstat t n = None /\ li_skip li = true /\ m' = m) \/
  (exists e, m' = add n e m /\ forall g, e = EFile g -> lstat t n = Some (NFile g)).
Proof.
  unfold add_single. intros H.
  destruct (lstat t n) as [nd|] eqn:El.
  - right. destruct (li_type li); repeat break_match; try discriminate; injection H as <-;
      eexists; (split; [reflexivity|]); intros g' Hg; try discriminate; injection Hg as <-; reflexivity.
  - destruct (notdir_above t n); [discriminate|]. destruct (li_skip li) eqn:Es.
    + injection H as <-. now left.
    + right. destruct (li_type li); repeat break_match; try discriminate; injection H as <-;
        eexists; (split; [reflexivity|]); intros g' Hg; discriminate.
Qed.
Lemma add_single_trans t li n m m' : add_single t li n m = Ok m' -> trans t (eq n) m m'.
Proof.
  intros H. apply add_single_spec in H as [(_ & _ & ->)|(e & -> & He)]; [apply trans_refl|].
  apply trans_add. intros g Hg. now apply He.
Qed.
(* a src= line: the name becomes a regular-file entry without an inode group *)
Lemma add_src_spec t li s m m' : add_src t li s m = Ok m' -> m' = add (li_name li) (EFile None) m.
Proof. unfold add_src. destruct (src_lstat t s); [|discriminate]. intros H. now injection H as <-. Qed.
Lemma add_src_trans t li s m m' : add_src t li s m = Ok m' -> trans t (eq (li_name li)) m m'.
Proof. intros H. apply add_src_spec in H as ->. apply trans_add. intros g Hg. discriminate Hg. Qed.
(* unless absent=skip excuses an absent object, the name is a member afterwards *)
Lemma add_single_adds t li n m m' : add_single t li n m = Ok m' ->
  (li_skip li = true -> lstat t n <> None) -> mem n m' = true.
Proof.
  intros H Hs. apply add_single_spec in H as [(Hl & Hk & _)|(e & -> & _)].
  - exfalso. now apply Hs.
  - rewrite mem_add. now rewrite feq_refl.
Qed.

Lemma add_all_trans t li names : forall m m', add_all t li names m = Ok m' -> trans t (fun k => In k names) m m'.
Proof.
  induction names as [|n r IH]; intros m m' H; cbn [add_all] in H.
  - injection H as <-. apply trans_refl.
  - destruct (add_single t li n m) as [m1| |] eqn:E; try discriminate.
    apply add_single_trans in E. apply IH in H.
    eapply trans_weaken; [|eapply trans_trans; eauto]. cbn. intros k [<-|Hk]; auto.
Qed.
Lemma add_all_adds t li names : forall m m', add_all t li names m = Ok m' ->
  forall n, In n names -> (li_skip li = true -> lstat t n <> None) -> mem n m' = true.
Proof.
  induction names as [|x r IH]; intros m m' H n Hin Hs; [destruct Hin|]. cbn [add_all] in H.
  destruct (add_single t li x m) as [m1| |] eqn:E; try discriminate.
  destruct Hin as [->|Hin].
  - apply add_single_adds in E; auto. apply add_all_trans in H. now apply (tr_ext _ _ _ _ H).
  - eapply IH; eauto.
Qed.

(* what one add line names *)
Definition op_targets (t : tree) (li : lineinfo) : list bytes :=
  if li_wild li then targets_wild t li else [li_name li].

Lemma add_files_trans t li m m' : add_files t li m = Ok m' -> trans t (fun k => In k (op_targets t li)) m m'.
Proof.
  unfold add_files, op_targets, add_wild. destruct (li_src li) as [s|].
  { destruct (li_wild li); [discriminate|].
    intros H. apply add_src_trans in H. eapply trans_weaken; [|exact H]. intros k <-. now left. }
  destruct (li_wild li).
  - destruct (targets_wild t li) as [|x r] eqn:E; [discriminate|]. apply add_all_trans.
  - intros H. apply add_single_trans in H. eapply trans_weaken; [|exact H]. intros k <-. now left.
Qed.
(* every object a line names is a member afterwards, unless absent=skip excuses its absence *)
Lemma add_files_adds t li m m' : add_files t li m = Ok m' ->
  forall n, In n (op_targets t li) -> (li_skip li = true -> lstat t n <> None) -> mem n m' = true.
Proof.
  unfold add_files, op_targets, add_wild. destruct (li_src li) as [s|].
  { destruct (li_wild li); [discriminate|].
    intros H n [<-|[]] _. apply add_src_spec in H as ->. rewrite mem_add. now rewrite feq_refl. }
  destruct (li_wild li).
  - destruct (targets_wild t li) as [|x r] eqn:E; [discriminate|]. intros H n Hin Hs.
    eapply add_all_adds; eauto.
  - intros H n [<-|[]] Hs. eapply add_single_adds; eauto.
Qed.

(* ---------------------------------------------------------------- scripts *)
Definition is_add (o : op) : bool := match o with OAdd _ => true | _ => false end.
Definition ops_name (t : tree) (ops : list op) (k : bytes) : Prop :=
  exists li, In (OAdd li) ops /\ In k (op_targets t li).

(* scripts without omit lines (the built-in ones) only add *)
Lemma run_ops_add_trans t ops : forallb is_add ops = true ->
  forall m m', run_ops t ops m = Ok m' -> trans t (ops_name t ops) m m'.
Proof.
  induction ops as [|o r IH]; intros Ha m m' H; cbn [run_ops] in H.
  - injection H as <-. apply trans_refl.
  - cbn [forallb] in Ha. apply andb_true_iff in Ha as [Ho Hr].
    destruct o as [li| | |]; try discriminate. cbn [run_op] in H.
    destruct (add_files t li m) as [m1| |] eqn:E; try discriminate.
    apply add_files_trans in E. apply (IH Hr) in H.
    eapply trans_weaken; [|eapply trans_trans; eauto]. cbn. intros k [Hk|(li' & Hin & Hk)].
    + exists li. split; [now left|exact Hk].
    + exists li'. split; [now right|exact Hk].
Qed.
Lemma run_ops_add_adds t ops : forallb is_add ops = true ->
  forall m m', run_ops t ops m = Ok m' ->
  forall li n, In (OAdd li) ops -> In n (op_targets t li) -> (li_skip li = true -> lstat t n <> None) ->
  mem n m' = true.
Proof.
  induction ops as [|o r IH]; intros Ha m m' H li n Hin Hn Hs; [destruct Hin|].
  cbn [forallb] in Ha. apply andb_true_iff in Ha as [Ho Hr]. cbn [run_ops] in H.
  destruct o as [li0| | |]; try discriminate. cbn [run_op] in H.
  destruct (add_files t li0 m) as [m1| |] eqn:E; try discriminate.
  destruct Hin as [Hin|Hin].
  - injection Hin as ->. eapply add_files_adds in E; eauto.
    pose proof (run_ops_add_trans t r Hr _ _ H) as T. now apply (tr_ext _ _ _ _ T).
  - eapply IH; eauto.
Qed.

(* ---------------------------------------------------------------- deleting steps *)
Lemma find_del k k' m : find k' (del k m) = if feq k' k then None else find k' m.
Proof.
  destruct (feq k' k) eqn:E.
  - apply feq_true in E. subst. apply find_del_eq.
  - apply feq_false in E. now apply find_del_neq.
Qed.
Lemma ino_ok_del t k m : ino_ok t m -> ino_ok t (del k m).
Proof. intros Hi k' g Hf. rewrite find_del in Hf. destruct (feq k' k); [discriminate|]. now apply Hi. Qed.
Lemma find_exclude u : forall m k, find k (exclude u m) = if memb k u then None else find k m.
Proof.
  unfold exclude. induction u as [|x r IH]; intros m k; cbn [fold_left memb]; [reflexivity|].
  rewrite IH. rewrite find_del. destruct (feq k x), (memb k r); reflexivity.
Qed.
Lemma mem_exclude u m k : mem k (exclude u m) = if memb k u then false else mem k m.
Proof. unfold mem. rewrite find_exclude. now destruct (memb k u). Qed.
Lemma nodup_exclude u : forall m, NoDup (keys m) -> NoDup (keys (exclude u m)).
Proof. unfold exclude. induction u as [|x r IH]; intros m H; cbn [fold_left]; auto. apply IH. now apply nodup_del. Qed.
Lemma ino_ok_exclude t u m : ino_ok t m -> ino_ok t (exclude u m).
Proof. intros Hi k g Hf. rewrite find_exclude in Hf. destruct (memb k u); [discriminate|]. now apply Hi. Qed.

Lemma assoc_filter_key {A} (f : bytes -> bool) k (l : list (bytes * A)) :
  assoc k (filter (fun kv => f (fst kv)) l) = if f k then assoc k l else None.
Proof.
  induction l as [|[k0 v0] r IH]; cbn [filter assoc fst]; [now destruct (f k)|].
  destruct (f k0) eqn:E0; cbn [assoc].
  - destruct (feq k0 k) eqn:E.
    + apply feq_true in E. subst. now rewrite E0.
    + exact IH.
  - destruct (feq k0 k) eqn:E.
    + apply feq_true in E. subst. rewrite E0 in IH. rewrite IH. now rewrite E0.
    + exact IH.
Qed.
Lemma find_del_matching pat m k : find k (del_matching pat m) = if pmatch_esc pat k then None else find k m.
Proof.
  unfold find, del_matching. rewrite (assoc_filter_key (fun x => negb (pmatch_esc pat x))). now destruct (pmatch_esc pat k).
Qed.
Lemma keys_filter_key {A} (f : bytes -> bool) (l : list (bytes * A)) :
  keys (filter (fun kv => f (fst kv)) l) = filter f (keys l).
Proof. unfold keys. induction l as [|[k v] r IH]; cbn; [reflexivity|]. destruct (f k); cbn; now rewrite IH. Qed.
Lemma nodup_del_matching pat m : NoDup (keys m) -> NoDup (keys (del_matching pat m)).
Proof. intros H. unfold del_matching. rewrite (keys_filter_key (fun x => negb (pmatch_esc pat x))). now apply NoDup_filter. Qed.

(* removeFiles: afterwards no member matches the line; nothing else changes *)
Definition omit_hit (nm : bytes) (w : bool) (k : bytes) : bool := if w then pmatch_esc nm k else feq nm k.
Lemma remove_files_find nm w m m' : remove_files nm w m = Ok m' ->
  forall k, find k m' = if omit_hit nm w k then None else find k m.
Proof.
  unfold remove_files, omit_hit. destruct w.
  - intros H. injection H as <-. apply find_del_matching.
  - destruct (mem nm m); [|discriminate]. intros H. injection H as <-. intros k. rewrite find_del. now rewrite feq_sym.
Qed.
Lemma remove_files_nodup nm w m m' : remove_files nm w m = Ok m' -> NoDup (keys m) -> NoDup (keys m').
Proof.
  unfold remove_files. destruct w.
  - intros H. injection H as <-. apply nodup_del_matching.
  - destruct (mem nm m); [|discriminate]. intros H. injection H as <-. apply nodup_del.
Qed.
Lemma remove_files_ino t nm w m m' : remove_files nm w m = Ok m' -> ino_ok t m -> ino_ok t m'.
Proof.
  intros H Hi k g Hf. rewrite (remove_files_find _ _ _ _ H) in Hf. destruct (omit_hit nm w k); [discriminate|]. now apply Hi.
Qed.

(* ---------------------------------------------------------------- the other adding steps *)
Lemma add_pkgfiles_trans t ns : forall m m', add_pkgfiles t ns m = Ok m' -> trans t (fun k => In k ns) m m'.
Proof.
  induction ns as [|n r IH]; intros m m' H; cbn [add_pkgfiles] in H.
  - injection H as <-. apply trans_refl.
  - destruct (add_single t (li_pkgfile n) n m) as [m1| |] eqn:E; try discriminate.
    apply add_single_trans in E. apply IH in H.
    eapply trans_weaken; [|eapply trans_trans; eauto]. cbn. intros k [<-|Hk]; auto.
Qed.
(* every recorded name that exists in the tree is a member after GenerateFileList *)
Lemma add_pkgfiles_adds t ns : forall m m', add_pkgfiles t ns m = Ok m' ->
  forall n, In n ns -> lstat t n <> None -> mem n m' = true.
Proof.
  induction ns as [|x r IH]; intros m m' H n Hin Hl; [destruct Hin|]. cbn [add_pkgfiles] in H.
  destruct (add_single t (li_pkgfile x) x m) as [m1| |] eqn:E; try discriminate.
  destruct Hin as [->|Hin].
  - apply add_single_adds in E; auto. apply add_pkgfiles_trans in H. now apply (tr_ext _ _ _ _ H).
  - eapply IH; eauto.
Qed.

Lemma recover_each_trans t cands : forall m m', recover_each t cands m = Ok m' -> trans t (fun k => In k cands) m m'.
Proof.
  induction cands as [|c r IH]; intros m m' H; cbn [recover_each] in H.
  - injection H as <-. apply trans_refl.
  - assert (W : forall m1, trans t (fun k => In k r) m1 m' -> trans t (eq c) m m1 -> trans t (fun k => In k (c :: r)) m m').
    { intros m1 T1 T2. eapply trans_weaken; [|eapply trans_trans; eauto]. cbn. intros k [<-|Hk]; auto. }
    destruct (mem c m).
    + apply IH in H. eapply W; [exact H|apply trans_refl].
    + destruct (ultimate t chain_fuel 1 c) as [tg|]; [|discriminate]. destruct (mem tg m).
      * destruct (add_single t (li_link c) c m) as [m1| |] eqn:E; try discriminate.
        apply IH in H. apply add_single_trans in E. eapply W; eauto.
      * apply IH in H. eapply W; [exact H|apply trans_refl].
Qed.
Lemma recover_links_trans t m m' : recover_links t m = Ok m' -> trans t (fun k => In k (link_candidates t)) m m'.
Proof. apply recover_each_trans. Qed.

Definition vdb_names (t : tree) (dirs : list bytes) (k : bytes) : Prop :=
  exists d, In d dirs /\ In k (op_targets t (li_vdb d)).
Lemma add_vdb_trans t dirs : forall m m', add_vdb t dirs m = Ok m' -> trans t (vdb_names t dirs) m m'.
Proof.
  induction dirs as [|d r IH]; intros m m' H; cbn [add_vdb] in H.
  - injection H as <-. apply trans_refl.
  - destruct (add_wild t (li_vdb d) m) as [m1| |] eqn:E; try discriminate.
    assert (E' : add_files t (li_vdb d) m = Ok m1) by exact E.
    apply add_files_trans in E'. apply IH in H.
    eapply trans_weaken; [|eapply trans_trans; eauto]. cbn. intros k [Hk|(d' & Hin & Hk)].
    + exists d. split; [now left|exact Hk].
    + exists d'. split; [now right|exact Hk].
Qed.
Lemma add_vdb_adds t dirs : forall m m', add_vdb t dirs m = Ok m' ->
  forall d n, In d dirs -> In n (op_targets t (li_vdb d)) -> mem n m' = true.
Proof.
  induction dirs as [|x r IH]; intros m m' H d n Hin Hn; [destruct Hin|]. cbn [add_vdb] in H.
  destruct (add_wild t (li_vdb x) m) as [m1| |] eqn:E; try discriminate.
  assert (E' : add_files t (li_vdb x) m = Ok m1) by exact E.
  destruct Hin as [->|Hin].
  - eapply add_files_adds in E'; eauto; [|discriminate].
    apply add_vdb_trans in H. now apply (tr_ext _ _ _ _ H).
  - eapply IH; eauto.
Qed.

(* InsertStaticDev *)
Definition ext_names (lines : list bytes) : list bytes :=
  flat_map (fun l => match ext_line l with XExt _ ns => ns | _ => [] end) lines.
Lemma extend_dev_trans t lines : forall m m', extend_dev t lines m = Ok m' -> trans t (fun k => In k (ext_names lines)) m m'.
Proof.
  induction lines as [|l r IH]; intros m m' H; cbn [extend_dev] in H.
  - injection H as <-. apply trans_refl.
  - unfold ext_names. cbn [flat_map]. destruct (ext_line l) as [| |tpl ns] eqn:El; try discriminate.
    + apply IH in H. eapply trans_weaken; [|exact H]. intros k Hk. exact Hk.
    + destruct (find tpl m) as [[]|]; try discriminate.
      destruct (add_all t (li_devcopy tpl) ns m) as [m1| |] eqn:E; try discriminate.
      apply add_all_trans in E. apply IH in H.
      eapply trans_weaken; [|eapply trans_trans; eauto]. cbn. intros k [Hk|Hk]; apply in_or_app; auto.
Qed.
Lemma extend_dev_adds t lines : forall m m', extend_dev t lines m = Ok m' ->
  forall n, In n (ext_names lines) -> mem n m' = true.
Proof.
  induction lines as [|l r IH]; intros m m' H n Hin; [destruct Hin|]. cbn [extend_dev] in H.
  unfold ext_names in Hin. cbn [flat_map] in Hin.
  destruct (ext_line l) as [| |tpl ns] eqn:El; try discriminate.
  - eapply IH; eauto.
  - destruct (find tpl m) as [[]|]; try discriminate.
    destruct (add_all t (li_devcopy tpl) ns m) as [m1| |] eqn:E; try discriminate.
    apply in_app_or in Hin as [Hin|Hin].
    + eapply add_all_adds in E; eauto; [|discriminate].
      apply extend_dev_trans in H. now apply (tr_ext _ _ _ _ H).
    + eapply IH; eauto.
Qed.
