From LC Require Import Lib.Bytes Lib.Fields Gen.Consts Model.StageLine Model.StageDoc.
From Coq Require Import ZifyBool ZifyNat ZifyN.
Open Scope N_scope.
(* Proofs about the mod= / uid= / gid= / dev= value parsers of Model/StageLine.v against the
   documented reference of Model/StageDoc.v (C17). *)

(* ------------------------------------------------------------------ bit-level lemmas *)
Lemma land_4095 x : x < 4096 -> N.land x 4095 = x.
Proof.
  intros H. change 4095 with (N.ones 12). rewrite N.land_ones.
  apply N.mod_small. exact H.
Qed.

Lemma land_le_l p w : N.land p w <= p.
Proof.
  destruct (N.eq_dec (N.land p w) 0) as [E|E]; [rewrite E; apply N.le_0_l|].
  apply N.ldiff_le. apply N.bits_inj. intros n.
  rewrite N.ldiff_spec, N.land_spec, N.bits_0.
  destruct (N.testbit p n), (N.testbit w n); reflexivity.
Qed.

Lemma sub_bits_gen m a o s :
  N.ldiff (N.lor (N.land (N.land m 4095) a) o) (N.land s 4095) =
  N.lor (N.land (N.land m 4095) (N.land a (N.lxor 4095 (N.land s 4095)))) (N.ldiff o (N.land s 4095)).
Proof.
  apply N.bits_inj. intros n.
  repeat rewrite ?N.lor_spec, ?N.land_spec, ?N.ldiff_spec, ?N.lxor_spec.
  destruct (N.testbit m n), (N.testbit a n), (N.testbit o n), (N.testbit s n), (N.testbit 4095 n);
    reflexivity.
Qed.

Lemma sub_bits m a o s : m < 4096 -> s <= 4095 ->
  N.ldiff (N.lor (N.land m a) o) s =
  N.lor (N.land m (N.land a (N.lxor 4095 s))) (N.ldiff o s).
Proof.
  intros Hm Hs. rewrite <- (land_4095 m Hm). rewrite <- (land_4095 s) by lia.
  apply sub_bits_gen.
Qed.

Lemma apply_perm_eq a o m : apply_perm a o m = N.lor (N.land m a) o.
Proof.
  unfold apply_perm. destruct (0 <? a) eqn:E; [reflexivity|].
  assert (a = 0) by lia. subst. now rewrite N.land_0_r, N.lor_0_l.
Qed.

(* ------------------------------------------------------------------ character classes *)
Inductive cclass (c : ascii) : Prop :=
  | CWho w : group_mask c = Some w -> who_mask c = Some w -> cclass c
  | COp : group_mask c = None -> Ascii.eqb c c_plus || Ascii.eqb c c_minus = true ->
          who_mask c = None -> is_op c = true -> Ascii.eqb c c_eq = false -> cclass c
  | CPerm p : group_mask c = None -> Ascii.eqb c c_plus || Ascii.eqb c c_minus = false ->
              setting_mask c = Some p -> who_mask c = None -> is_op c = false ->
              Ascii.eqb c c_comma = false -> (forall b, perm_mask c b = Some p) ->
              (p <=? 4095) = true -> cclass c
  | CComma : c = c_comma -> cclass c
  | COther : group_mask c = None -> Ascii.eqb c c_plus || Ascii.eqb c c_minus = false ->
             setting_mask c = None -> Ascii.eqb c c_comma = false -> cclass c.

Lemma cclass_all c : cclass c.
Proof.
  destruct c as [[] [] [] [] [] [] [] []];
    first [ solve [apply CComma; reflexivity]
          | solve [eapply CWho; vm_compute; reflexivity]
          | solve [apply COp; vm_compute; reflexivity]
          | solve [eapply CPerm; try intros b; vm_compute; reflexivity]
          | solve [apply COther; vm_compute; reflexivity] ].
Qed.

(* ------------------------------------------------------------------ one step, equationally *)
Definition geff (g : N) : N := if g =? 0 then 4095 else g.

Lemma geff_nz g : geff g <> 0.
Proof. unfold geff. destruct (g =? 0) eqn:E; lia. Qed.
Lemma geff_id g : g <> 0 -> geff g = g.
Proof. unfold geff. intros H. destruct (g =? 0) eqn:E; [lia|reflexivity]. Qed.

Lemma ms_who c w a an o g s : group_mask c = Some w ->
  mod_step (MkM a an o g s) c =
  if (0 <? g) || (0 <? s) || negb (aor_is_none a) then None else Some (MkM a an o w s).
Proof. intros H. unfold mod_step. now rewrite H. Qed.

Lemma ms_op c a an o g s :
  group_mask c = None -> Ascii.eqb c c_plus || Ascii.eqb c c_minus = true ->
  mod_step (MkM a an o g s) c =
  if (0 <? s) || negb (aor_is_none a) then None
  else Some (MkM (if Ascii.eqb c c_minus then AorSub else AorAdd) an o (geff g) s).
Proof. intros H1 H2. unfold mod_step. rewrite H1, H2. reflexivity. Qed.

Lemma ms_perm c p a an o g s :
  group_mask c = None -> Ascii.eqb c c_plus || Ascii.eqb c c_minus = false ->
  setting_mask c = Some p ->
  mod_step (MkM a an o g s) c =
  if 0 <? s then None
  else match (if aor_is_none a then AorAdd else a) with
       | AorSub => Some (MkM AorSub (N.land an (N.lxor 4095 (N.land p (geff g))))
                             (N.ldiff o (N.land p (geff g))) (geff g) (N.land p (geff g)))
       | a' => Some (MkM a' an (N.lor o (N.land p (geff g))) (geff g) (N.land p (geff g)))
       end.
Proof.
  intros H1 H2 H3. unfold mod_step. rewrite H1, H2, H3.
  destruct a; reflexivity.
Qed.

Lemma ms_other c a an o g s :
  group_mask c = None -> Ascii.eqb c c_plus || Ascii.eqb c c_minus = false ->
  setting_mask c = None ->
  mod_step (MkM a an o g s) c =
  if Ascii.eqb c c_comma then Some (MkM AorNone an o 0 0) else None.
Proof. intros H1 H2 H3. unfold mod_step. rewrite H1, H2, H3. reflexivity. Qed.

Lemma ms_comma a an o g s : mod_step (MkM a an o g s) c_comma = Some (MkM AorNone an o 0 0).
Proof. rewrite ms_other; reflexivity. Qed.

Lemma rs_who_who c wm m b w l : who_mask c = Some wm ->
  ref_step (MkR m b (RWho w) l) c = Some (MkR m b (RWho (N.lor w wm)) l).
Proof. intros H. unfold ref_step. now rewrite H. Qed.

Lemma rs_who_op c m b w l : who_mask c = None -> is_op c = true -> Ascii.eqb c c_eq = false ->
  ref_step (MkR m b (RWho w) l) c =
  Some (MkR m m (ROp (Ascii.eqb c c_minus) (geff w) KFresh) l).
Proof. intros H1 H2 H3. unfold ref_step. rewrite H1, H2, H3. reflexivity. Qed.

Lemma rs_who_perm c pm m b w l : who_mask c = None -> is_op c = false -> perm_mask c m = Some pm ->
  ref_step (MkR m b (RWho w) l) c =
  Some (MkR (N.lor m (N.land pm (geff w))) m (ROp false (geff w) KPerms) true).
Proof. intros H1 H2 H3. unfold ref_step. rewrite H1, H2, H3. reflexivity. Qed.

Lemma rs_who_comma m b w l :
  ref_step (MkR m b (RWho w) l) c_comma = Some (MkR m b (RWho 0) true).
Proof. reflexivity. Qed.

Lemma rs_op_op c m b sub we k l : is_op c = true -> Ascii.eqb c c_eq = false ->
  ref_step (MkR m b (ROp sub we k) l) c =
  Some (MkR m m (ROp (Ascii.eqb c c_minus) we KFresh) l).
Proof. intros H2 H3. unfold ref_step. rewrite H2, H3. reflexivity. Qed.

Lemma rs_op_comma m b sub we k l :
  ref_step (MkR m b (ROp sub we k) l) c_comma = Some (MkR m b (RWho 0) l).
Proof. reflexivity. Qed.

Lemma rs_op_perm c pm m b sub we k l :
  is_op c = false -> Ascii.eqb c c_comma = false -> perm_mask c b = Some pm ->
  rkind_copied k = false ->
  ref_step (MkR m b (ROp sub we k) l) c =
  Some (MkR (ref_apply sub m (N.land pm we)) b (ROp sub we KPerms) l).
Proof. intros H1 H2 H3 H4. unfold ref_step. rewrite H1, H2, H3, H4. reflexivity. Qed.

(* ------------------------------------------------------------------ the simulation *)
Definition R (m0 : N) (i : mstate) (r : rstate) : Prop :=
  r_mode r = N.lor (N.land m0 (m_and i)) (m_or i) /\
  match m_aor i with
  | AorNone => m_setting i = 0 /\ r_phase r = RWho (m_group i)
  | AorAdd => m_group i <> 0 /\ exists k, rkind_copied k = false /\ r_phase r = ROp false (m_group i) k
  | AorSub => m_group i <> 0 /\ exists k, rkind_copied k = false /\ r_phase r = ROp true (m_group i) k
  end.

Lemma sim_step m0 i r c i' : m0 < 4096 -> R m0 i r -> mod_step i c = Some i' ->
  exists r', ref_step r c = Some r' /\ R m0 i' r'.
Proof.
  intros Hm0 HR Hs.
  destruct i as [a an o g s], r as [md b ph l].
  destruct HR as [Hmd Hph]. cbn [r_mode m_and m_or m_aor m_group m_setting r_phase] in Hmd, Hph.
  destruct (cclass_all c) as [w Hg Hw|Hg Hpm Hw Hop Heq|p Hg Hpm Hsm Hw Hop Hco Hperm Hp|Hc|Hg Hpm Hsm Hco].
  - (* who letter *)
    rewrite (ms_who _ _ _ _ _ _ _ Hg) in Hs.
    destruct a; cbn [aor_is_none negb] in Hs; rewrite ?orb_true_r in Hs; try discriminate Hs.
    destruct Hph as [-> ->].
    destruct (0 <? g) eqn:E; cbn in Hs; [discriminate Hs|].
    assert (g = 0) by lia. subst g. injection Hs as <-.
    eexists. split; [apply rs_who_who; exact Hw|].
    split; cbn [r_mode m_and m_or m_aor m_group m_setting r_phase]; [exact Hmd|].
    split; [reflexivity|]. now rewrite N.lor_0_l.
  - (* + or - *)
    rewrite (ms_op _ _ _ _ _ _ Hg Hpm) in Hs.
    destruct a; cbn [aor_is_none negb] in Hs; rewrite ?orb_true_r in Hs; try discriminate Hs.
    destruct Hph as [-> ->]. change (0 <? 0) with false in Hs. cbn [orb] in Hs. injection Hs as <-.
    eexists. split; [apply rs_who_op; assumption|].
    destruct (Ascii.eqb c c_minus);
      (split; cbn [r_mode m_and m_or m_aor m_group m_setting r_phase]; [exact Hmd|];
       split; [apply geff_nz|]; exists KFresh; split; reflexivity).
  - (* permission letter *)
    rewrite (ms_perm _ _ _ _ _ _ _ Hg Hpm Hsm) in Hs.
    assert (Hs' : N.land p (geff g) <= 4095).
    { pose proof (land_le_l p (geff g)). lia. }
    destruct (0 <? s) eqn:E; [discriminate Hs|].
    destruct a; cbn [aor_is_none] in Hs; injection Hs as <-.
    + destruct Hph as [-> ->].
      eexists. split; [apply rs_who_perm; [assumption|assumption|apply Hperm]|].
      split; cbn [r_mode m_and m_or m_aor m_group m_setting r_phase].
      * rewrite Hmd. now rewrite N.lor_assoc.
      * split; [apply geff_nz|]. exists KPerms. split; reflexivity.
    + destruct Hph as [Hgn (k & Hk & ->)].
      eexists. split; [apply rs_op_perm; [assumption|assumption|apply Hperm|exact Hk]|].
      rewrite (geff_id g Hgn).
      split; cbn [r_mode m_and m_or m_aor m_group m_setting r_phase ref_apply].
      * rewrite Hmd. now rewrite N.lor_assoc.
      * split; [exact Hgn|]. exists KPerms. split; reflexivity.
    + destruct Hph as [Hgn (k & Hk & ->)].
      eexists. split; [apply rs_op_perm; [assumption|assumption|apply Hperm|exact Hk]|].
      rewrite (geff_id g Hgn) in *.
      split; cbn [r_mode m_and m_or m_aor m_group m_setting r_phase ref_apply].
      * rewrite Hmd. apply sub_bits; assumption.
      * split; [exact Hgn|]. exists KPerms. split; reflexivity.
  - (* comma *)
    subst c. rewrite ms_comma in Hs. injection Hs as <-.
    destruct a.
    + destruct Hph as [-> ->]. eexists. split; [apply rs_who_comma|].
      split; cbn [r_mode m_and m_or m_aor m_group m_setting r_phase]; [exact Hmd|split; reflexivity].
    + destruct Hph as [Hgn (k & Hk & ->)]. eexists. split; [apply rs_op_comma|].
      split; cbn [r_mode m_and m_or m_aor m_group m_setting r_phase]; [exact Hmd|split; reflexivity].
    + destruct Hph as [Hgn (k & Hk & ->)]. eexists. split; [apply rs_op_comma|].
      split; cbn [r_mode m_and m_or m_aor m_group m_setting r_phase]; [exact Hmd|split; reflexivity].
  - (* anything else is refused *)
    rewrite (ms_other _ _ _ _ _ _ Hg Hpm Hsm), Hco in Hs. discriminate Hs.
Qed.

Lemma sim_loop m0 : m0 < 4096 -> forall s i r i', R m0 i r -> mod_loop s i = Some i' ->
  exists r', ref_loop s r = Some r' /\ R m0 i' r'.
Proof.
  intros Hm0. induction s as [|c s IH]; intros i r i' HR Hl; cbn [mod_loop ref_loop] in *.
  - injection Hl as <-. exists r. split; [reflexivity|exact HR].
  - destruct (mod_step i c) as [i1|] eqn:E; [|discriminate Hl].
    destruct (sim_step m0 i r c i1 Hm0 HR E) as (r1 & Hr1 & HR1).
    rewrite Hr1. eapply IH; eassumption.
Qed.

(* the parsed and-mask/or-mask pair acts on every permission-bit mode exactly as chmod(1) would *)
Theorem mode_is_chmod : forall s a o, parse_mod s = Some (a, o) ->
  forall m, m < 4096 -> chmod_ref s m = Some (apply_perm a o m).
Proof.
  intros s a o Hp m Hm. unfold parse_mod in Hp. unfold chmod_ref.
  destruct (forallb is_oct s).
  - unfold ref_octal. destruct s as [|c s]; [discriminate Hp|].
    cbv zeta in *. change perm_bits with 4095 in Hp.
    destruct (num_val 8 (c :: s) <=? 4095); [|discriminate Hp].
    injection Hp as <- <-. reflexivity.
  - destruct (mod_loop s (MkM AorNone perm_bits 0 0 0)) as [st|] eqn:E; [|discriminate Hp].
    injection Hp as <- <-.
    assert (HR0 : R m (MkM AorNone perm_bits 0 0 0) (MkR m m (RWho 0) false)).
    { split; cbn [r_mode m_and m_or m_aor m_group m_setting r_phase].
      - change perm_bits with 4095. rewrite (land_4095 m Hm). now rewrite N.lor_0_r.
      - split; reflexivity. }
    destruct (sim_loop m Hm s _ _ st HR0 E) as (r' & Hr' & HR').
    rewrite Hr'. rewrite apply_perm_eq. f_equal. apply HR'.
Qed.

Theorem perm_is_chmod_ok : forall s a o, parse_mod s = Some (a, o) -> perm_is_chmod s a o = true.
Proof.
  intros s a o Hp. unfold perm_is_chmod. apply forallb_forall. intros m Hin.
  unfold all_modes in Hin. apply in_map_iff in Hin as (x & <- & Hx).
  apply in_seq in Hx.
  rewrite (mode_is_chmod s a o Hp) by lia.
  cbn [optN_beq]. apply N.eqb_refl.
Qed.

(* ------------------------------------------------------------------ the documented subset *)
Lemma is_oct_dval c : is_oct c = true -> dval c <= 7.
Proof. unfold is_oct, dval. lia. Qed.

Lemma oct4_bound s : forallb is_oct s = true -> (1 <= length s <= 4)%nat -> num_val 8 s <= 4095.
Proof.
  intros Ho Hl. unfold num_val.
  destruct s as [|c1 [|c2 [|c3 [|c4 [|c5 r]]]]]; cbn [length] in Hl; try lia;
    cbn [forallb] in Ho; cbn [fold_left];
    repeat (apply andb_true_iff in Ho as [?%is_oct_dval Ho]); lia.
Qed.

Lemma simple_who w : match who_mask w with Some _ => true | None => false end = true ->
  exists q, group_mask w = Some q.
Proof.
  destruct w as [[] [] [] [] [] [] [] []]; vm_compute; intros H; try discriminate H;
    eexists; reflexivity.
Qed.

Lemma simple_op o : Ascii.eqb o c_plus || Ascii.eqb o c_minus = true -> group_mask o = None.
Proof.
  intros H. apply orb_true_iff in H as [H|H]; apply Ascii.eqb_eq in H; subst; reflexivity.
Qed.

Lemma simple_perm p :
  match perm_mask p 0 with Some _ => negb (bn p =? 88) | None => false end = true ->
  exists q, setting_mask p = Some q /\ group_mask p = None
            /\ Ascii.eqb p c_plus || Ascii.eqb p c_minus = false.
Proof.
  destruct p as [[] [] [] [] [] [] [] []]; vm_compute; intros H; try discriminate H;
    eexists; repeat split.
Qed.

Definition clause_start (st : mstate) : Prop :=
  m_aor st = AorNone /\ m_group st = 0 /\ m_setting st = 0.

(* after the operator and one permission letter the machine is still running *)
Lemma run_op_perm o p an orm g : Ascii.eqb o c_plus || Ascii.eqb o c_minus = true ->
  match perm_mask p 0 with Some _ => negb (bn p =? 88) | None => false end = true ->
  exists st', mod_loop [o; p] (MkM AorNone an orm g 0) = Some st'.
Proof.
  intros Ho Hp. pose proof (simple_op o Ho) as Hgo.
  destruct (simple_perm p Hp) as (q & Hq & Hgp & Hpp).
  cbn [mod_loop]. rewrite (ms_op _ _ _ _ _ _ Hgo Ho).
  change (0 <? 0) with false. cbn [orb aor_is_none negb].
  rewrite (ms_perm _ _ _ _ _ _ _ Hgp Hpp Hq).
  change (0 <? 0) with false. cbv iota.
  destruct (Ascii.eqb o c_minus); cbn [aor_is_none]; eexists; reflexivity.
Qed.

Lemma run_clause cl st : clause_start st -> simple_clause cl = true ->
  exists st', mod_loop cl st = Some st'.
Proof.
  intros Hcs Hc. destruct st as [a an orm g s]. destruct Hcs as (Ha & Hg & Hs).
  cbn [m_aor m_group m_setting] in *. subst a g s.
  destruct cl as [|c1 [|c2 [|c3 [|c4 r]]]]; cbn [simple_clause] in Hc; try discriminate Hc.
  - apply andb_true_iff in Hc as [Ho Hp]. now apply run_op_perm.
  - apply andb_true_iff in Hc as [Hc Hp]. apply andb_true_iff in Hc as [Hw Ho].
    destruct (simple_who c1 Hw) as (q & Hq).
    cbn [mod_loop]. rewrite (ms_who _ _ _ _ _ _ _ Hq).
    change (0 <? 0) with false. cbn [orb aor_is_none negb].
    now apply (run_op_perm c2 c3).
Qed.

Lemma mod_loop_app a : forall b st, mod_loop (a ++ b) st =
  match mod_loop a st with Some st' => mod_loop b st' | None => None end.
Proof.
  induction a as [|c a IH]; intros b st; cbn [app mod_loop]; [reflexivity|].
  destruct (mod_step st c); [apply IH|reflexivity].
Qed.

Lemma mod_loop_comma st r : mod_loop (c_comma :: r) st =
  mod_loop r (MkM AorNone (m_and st) (m_or st) 0 0).
Proof. destruct st as [a an o g s]. cbn [mod_loop]. now rewrite ms_comma. Qed.

(* [split] cuts [rev cur ++ s] into clauses; running them one after the other *)
Lemma run_split : forall s cur st, clause_start st ->
  forallb simple_clause (split_acc c_comma cur s) = true ->
  exists st', mod_loop (rev cur ++ s) st = Some st'.
Proof.
  induction s as [|c s IH]; intros cur st Hcs Hf; cbn [split_acc] in Hf.
  - cbn [forallb] in Hf. apply andb_true_iff in Hf as [Hf _].
    rewrite app_nil_r. now apply run_clause.
  - destruct (Ascii.eqb c c_comma) eqn:E.
    + apply Ascii.eqb_eq in E. subst c. cbn [forallb] in Hf. apply andb_true_iff in Hf as [Hc Hf].
      destruct (run_clause _ st Hcs Hc) as (st1 & H1).
      rewrite mod_loop_app, H1, mod_loop_comma.
      apply (IH [] _); [repeat split|exact Hf].
    + specialize (IH (c :: cur) st Hcs Hf). cbn [rev] in IH. now rewrite <- app_assoc in IH.
Qed.

(* the minimal documented subset is always accepted *)
Theorem simple_mode_accepted : forall s, simple_mode s = true -> parse_mod s <> None.
Proof.
  intros s H. unfold simple_mode in H. unfold parse_mod.
  destruct (forallb is_oct s) eqn:Eo.
  - apply andb_true_iff in H as [H1 H2].
    assert (Hb : num_val 8 s <= 4095) by (apply oct4_bound; [exact Eo|lia]).
    destruct s as [|c r]; [cbn in H1; discriminate H1|].
    cbv zeta. change perm_bits with 4095.
    destruct (num_val 8 (c :: r) <=? 4095) eqn:E; [discriminate|lia].
  - destruct (run_split s [] (MkM AorNone perm_bits 0 0 0)) as (st' & Hst).
    + repeat split.
    + exact H.
    + cbn [rev app] in Hst. rewrite Hst. discriminate.
Qed.

(* ------------------------------------------------------------------ decimal value parsers *)
(* decimal value parsers: exactly the decimal reading, range-checked *)
Theorem parse_uint_spec : forall max s v, parse_uint max s = Some v <-> (dec_of s = Some v /\ v <= max).
Proof.
  intros max s v. unfold parse_uint, dec_of.
  destruct s as [|c r]; [split; [discriminate|intros [H _]; discriminate H]|].
  destruct (forallb is_dec (c :: r)); [|split; [discriminate|intros [H _]; discriminate H]].
  cbv zeta. destruct (num_val 10 (c :: r) <=? max) eqn:E; split.
  - intros H. injection H as <-. split; [reflexivity|lia].
  - intros [H _]. exact H.
  - discriminate.
  - intros [H H2]. injection H as <-. lia.
Qed.

Lemma parse_int31_range s v : parse_int31_nonneg s = Some v -> v <= 2147483647.
Proof.
  unfold parse_int31_nonneg. destruct s as [|c r]; [discriminate|].
  destruct (Ascii.eqb c c_plus).
  - intros H. now apply parse_uint_spec in H.
  - destruct (Ascii.eqb c c_minus).
    + destruct (parse_uint 2147483648 r) as [[|q]|]; try discriminate.
      intros H. injection H as <-. lia.
    + intros H. now apply parse_uint_spec in H.
Qed.

Theorem parse_uid_single_range : forall s v, parse_uid s = Some (v, None) -> v <= 2147483647.
Proof.
  intros s v. unfold parse_uid. destruct (split2 c_colon s) as [a [b|]].
  - destruct (parse_int31_nonneg a), (parse_int31_nonneg b); discriminate.
  - destruct (parse_int31_nonneg a) as [v'|] eqn:E; [|discriminate].
    intros H. injection H as <-. now apply parse_int31_range in E.
Qed.

Theorem parse_uid_pair_range : forall s v1 v2, parse_uid s = Some (v1, Some v2) ->
  v1 <= 2147483647 /\ v2 <= 2147483647.
Proof.
  intros s v1 v2. unfold parse_uid. destruct (split2 c_colon s) as [a [b|]].
  - destruct (parse_int31_nonneg a) as [w1|] eqn:E1; [|discriminate].
    destruct (parse_int31_nonneg b) as [w2|] eqn:E2; [|discriminate].
    intros H. injection H as <- <-.
    split; [now apply parse_int31_range in E1|now apply parse_int31_range in E2].
  - destruct (parse_int31_nonneg a); discriminate.
Qed.

Lemma is_dec_plain c : is_dec c = true ->
  Ascii.eqb c c_colon = false /\ Ascii.eqb c c_plus = false /\ Ascii.eqb c c_minus = false.
Proof.
  intros H. repeat split; apply Ascii.eqb_neq; intro; subst c; vm_compute in H; discriminate H.
Qed.

Lemma split2_digits : forall s cur, forallb is_dec s = true ->
  split2_acc c_colon cur s = ((rev cur ++ s)%list, None).
Proof.
  induction s as [|c s IH]; intros cur H; cbn [split2_acc].
  - now rewrite app_nil_r.
  - cbn [forallb] in H. apply andb_true_iff in H as [Hc Hs].
    destruct (is_dec_plain c Hc) as (-> & _ & _).
    rewrite IH by exact Hs. cbn [rev]. now rewrite <- app_assoc.
Qed.

Theorem parse_uid_digits : forall s v, dec_of s = Some v ->
  parse_uid s = (if v <=? 2147483647 then Some (v, None) else None).
Proof.
  intros s v Hd. unfold parse_uid, split2.
  assert (Hf : forallb is_dec s = true).
  { unfold dec_of in Hd. destruct s; [discriminate Hd|]. destruct (forallb is_dec (a :: s)); [reflexivity|discriminate Hd]. }
  rewrite (split2_digits s [] Hf). cbn [rev app].
  destruct s as [|c r]; [discriminate Hd|].
  assert (Hc : is_dec c = true) by (cbn [forallb] in Hf; now apply andb_true_iff in Hf as [Hc _]).
  destruct (is_dec_plain c Hc) as (_ & Hp & Hm).
  unfold parse_int31_nonneg. rewrite Hp, Hm.
  destruct (v <=? 2147483647) eqn:E.
  - assert (H : parse_uint 2147483647 (c :: r) = Some v) by (apply parse_uint_spec; split; [exact Hd|lia]).
    now rewrite H.
  - destruct (parse_uint 2147483647 (c :: r)) as [v'|] eqn:E'; [|reflexivity].
    apply parse_uint_spec in E' as [E1 E2]. rewrite Hd in E1. injection E1 as <-. lia.
Qed.

Theorem parse_dev_range : forall s t mj mn, parse_dev s = Some (t, mj, mn) ->
  (t = 98 \/ t = 99) /\ mj <= 4294967295 /\ mn <= 4294967295.
Proof.
  intros s t mj mn. unfold parse_dev. destruct s as [|t0 r]; [discriminate|].
  destruct (Ascii.eqb t0 (nb 99) || Ascii.eqb t0 (nb 98)) eqn:Et; [|discriminate].
  destruct (split c_colon r) as [|a [|b [|x y]]]; try discriminate.
  destruct (parse_uint 4294967295 a) as [v1|] eqn:E1; [|discriminate].
  destruct (parse_uint 4294967295 b) as [v2|] eqn:E2; [|discriminate].
  intros H. injection H as <- <- <-.
  apply parse_uint_spec in E1 as [_ E1]. apply parse_uint_spec in E2 as [_ E2].
  split; [|split; assumption].
  apply orb_true_iff in Et as [Et|Et]; apply Ascii.eqb_eq in Et; subst t0; [right|left]; reflexivity.
Qed.

Print Assumptions mode_is_chmod.
Print Assumptions perm_is_chmod_ok.
Print Assumptions simple_mode_accepted.
Print Assumptions parse_uint_spec.
Print Assumptions parse_uid_single_range.
Print Assumptions parse_uid_pair_range.
Print Assumptions parse_uid_digits.
Print Assumptions parse_dev_range.
