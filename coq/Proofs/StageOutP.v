(* C10, stagemaker half: a failing write at any byte offset, or a failing compressor, is reported. *)
From LC Require Import Lib.Bytes Model.StageOut.
From Coq Require Import ZifyBool ZifyNat ZifyN.
Open Scope N_scope.

Lemma total_cons c r : total (c :: r) = N.of_nat (length c) + total r.
Proof. unfold total. cbn [concat]. rewrite app_length. lia. Qed.

Lemma write_all_limit k : forall chunks w, w <= k ->
  write_all (SLimit k) w chunks = if w + total chunks <=? k then Some (w + total chunks) else None.
Proof.
  induction chunks as [|c r IH]; intros w Hw.
  - unfold total. cbn. rewrite N.add_0_r.
    destruct (w <=? k) eqn:E; [reflexivity|lia].
  - rewrite total_cons. cbn [write_all write_chunk].
    destruct (w + N.of_nat (length c) <=? k) eqn:E1.
    + rewrite IH by lia. rewrite N.add_assoc. reflexivity.
    + destruct (w + (N.of_nat (length c) + total r) <=? k) eqn:E2; [lia|reflexivity].
Qed.

Lemma write_all_none_sink : forall chunks w, write_all SNone w chunks = Some (w + total chunks).
Proof.
  induction chunks as [|c r IH]; intros w.
  - unfold total. cbn. now rewrite N.add_0_r.
  - rewrite total_cons. cbn [write_all write_chunk]. rewrite IH. f_equal. lia.
Qed.
Lemma write_all_badcomp : forall chunks w, write_all SBadCompressor w chunks = Some (w + total chunks).
Proof.
  induction chunks as [|c r IH]; intros w.
  - unfold total. cbn. now rewrite N.add_0_r.
  - rewrite total_cons. cbn [write_all write_chunk]. rewrite IH. f_equal. lia.
Qed.

Lemma write_all_fail : forall chunks w,
  write_all SAlwaysFail w chunks = if total chunks =? 0 then Some w else None.
Proof.
  induction chunks as [|c r IH]; intros w.
  - reflexivity.
  - rewrite total_cons. cbn [write_all write_chunk]. destruct c as [|x c'].
    + rewrite IH. cbn [length]. reflexivity.
    + cbn [length]. destruct (N.of_nat (S (length c')) + total r =? 0) eqn:E; [lia|reflexivity].
Qed.

(* the command's exit status depends on the chunks only through the size of the complete output *)
Theorem exit_ok_is_by_size s chunks : exit_ok s chunks = exit_ok_by_size s (total chunks).
Proof.
  unfold exit_ok, exit_ok_by_size. destruct s as [| |k|].
  - now rewrite write_all_none_sink.
  - rewrite write_all_fail. destruct (total chunks =? 0); reflexivity.
  - rewrite write_all_limit by lia. cbn. destruct (total chunks <=? k); reflexivity.
  - now rewrite write_all_badcomp.
Qed.

(* a write that fails at byte offset k < size of the output yields a non-zero exit *)
Theorem stage_fault_reported k chunks : k < total chunks -> exit_ok (SLimit k) chunks = false.
Proof.
  intros H. rewrite exit_ok_is_by_size. cbn. destruct (total chunks <=? k) eqn:E; [lia|reflexivity].
Qed.
Theorem stage_always_failing_reported chunks : 0 < total chunks -> exit_ok SAlwaysFail chunks = false.
Proof.
  intros H. rewrite exit_ok_is_by_size. cbn. destruct (total chunks =? 0) eqn:E; [lia|reflexivity].
Qed.
Theorem stage_compressor_failure_reported chunks : exit_ok SBadCompressor chunks = false.
Proof. now rewrite exit_ok_is_by_size. Qed.
Theorem stage_ok_means_all_written s chunks :
  exit_ok s chunks = true -> write_all s 0 chunks = Some (total chunks).
Proof.
  unfold exit_ok. destruct s as [| |k|].
  - now rewrite write_all_none_sink.
  - rewrite write_all_fail. destruct (total chunks =? 0) eqn:E; [|discriminate]. intros _. f_equal. lia.
  - rewrite write_all_limit by lia. cbn. destruct (total chunks <=? k); [reflexivity|discriminate].
  - rewrite write_all_badcomp. discriminate.
Qed.

(* ---------- the file named by -o after a successful run (Cases/C10.v: s_file_ok) ---------- *)
From LC Require Import Model.OutFile Proofs.OutFileP Cases.C10.

(* the model of the stagemaker half satisfies the predicate for every mode, sink, size and
   previous content of the output path *)
Lemma stage_model_holds : forall c : C10.scase,
  C10.s_spec c (C10.s_model c) (C10.s_model_len c) = true.
Proof.
  intros c. unfold C10.s_spec, C10.s_file_ok, C10.s_model_len, C10.s_model, C10.s_fault_reached.
  destruct (C10.sc_sink c) as [| |k|] eqn:Es; cbn [exit_ok_by_size negb orb andb].
  - destruct (C10.sc_len c); [|reflexivity]. now rewrite out_len_exact, N.eqb_refl.
  - destruct (C10.sc_size c =? 0) eqn:E; cbn [negb orb andb].
    + destruct (C10.sc_len c); [|reflexivity]. now rewrite out_len_exact, N.eqb_refl.
    + now destruct (C10.sc_len c).
  - destruct (C10.sc_size c <=? k) eqn:E.
    + assert (H : (k <? C10.sc_size c) = false) by lia. rewrite H. cbn [negb orb andb].
      destruct (C10.sc_len c); [|reflexivity]. now rewrite out_len_exact, N.eqb_refl.
    + rewrite Bool.orb_true_r. cbn [andb negb orb]. now destruct (C10.sc_len c).
  - now destruct (C10.sc_len c).
Qed.

(* exit status 0 of the model run to a file: the file is the concatenation of the chunks, for
   every previous content of the path *)
Lemma stage_ok_file_is_output : forall s chunks (p : prior),
  exit_ok s chunks = true -> out_file p chunks = concat chunks
  /\ N.of_nat (length (out_file p chunks)) = total chunks.
Proof.
  intros s chunks p _. split; [apply out_file_exact|]. now rewrite out_file_exact.
Qed.
