(* From the resolver theorems to the stage set of one case: the installed AtomSet, the
   classification of the requested atoms, the listing. *)
From LC Require Import Lib.Bytes Lib.Lex Lib.Fields Model.Resolve Cases.C05
  Proofs.ResolveBasics Proofs.AtomSetP Proofs.ResolveInv Proofs.ResolveP Proofs.ClosureP.
From Coq Require Import Sorting.Sorted.
Import C05.

Section Stage.
Variable vdb : list pkg.
Variable bdeps : bool.
Hypothesis keys_nodup : forall i j p q, pkg_at vdb i = Some p -> pkg_at vdb j = Some q ->
  p_pn p = p_pn q -> p_slot p = p_slot q -> i = j.

(* ---- GetInstalledPackageList *)
Lemma installed_fold enum : forall s L,
  aset_ok vdb s -> aset_nonempty s -> (forall i, aset_mem s i <-> In i L) -> NoDup (L ++ enum) ->
  (forall i, In i enum -> valid_id vdb i) ->
  let s' := fold_left (fun s i => match pkg_at vdb i with
                                  | Some p => aset_add s (p_pn p) (p_slot p) i
                                  | None => s end) enum s in
  aset_ok vdb s' /\ aset_nonempty s' /\ forall i, aset_mem s' i <-> In i (L ++ enum).
Proof.
  induction enum as [|j r IH]; intros s L Hok Hne Hm ND HV; cbn.
  - rewrite app_nil_r. auto.
  - destruct (HV j (or_introl eq_refl)) as [p Hp]. rewrite Hp.
    assert (Hnm : ~ aset_mem s j).
    { intros C. apply Hm in C. apply NoDup_remove_2 in ND. apply ND. apply in_app_iff. now left. }
    destruct (aset_add_ok vdb keys_nodup s j p Hok Hp Hnm) as [K1 K2].
    specialize (IH (aset_add s (p_pn p) (p_slot p) j) (L ++ [j]) K1).
    rewrite <- app_assoc in IH. cbn in IH. apply IH; auto.
    + apply aset_add_nonempty; auto. apply Hok.
    + intros i. rewrite K2, Hm, in_app_iff. cbn. intuition congruence.
    + intros i Hi. apply HV. now right.
Qed.

Lemma perm_ids_spec enum : is_perm_ids (length vdb) enum = true ->
  NoDup enum /\ forall i, In i enum <-> valid_id vdb i.
Proof.
  unfold is_perm_ids. rewrite andb_true_iff, Nat.eqb_eq, forallb_forall. intros [HL HA].
  assert (Hincl : incl (ids vdb) enum).
  { intros i Hi. unfold ids in Hi. apply in_map_iff in Hi as (k & <- & Hk). apply memN_in. auto. }
  assert (Hlen : (length enum <= length (ids vdb))%nat).
  { unfold ids. rewrite map_length, seq_length. lia. }
  split.
  - eapply NoDup_incl_NoDup; eauto. apply ids_nodup.
  - intros i. rewrite <- ids_in. split; [|apply Hincl].
    apply (NoDup_length_incl (ids_nodup vdb) Hlen Hincl).
Qed.

Lemma installed_ok enum : is_perm_ids (length vdb) enum = true ->
  aset_ok vdb (installed vdb enum) /\ aset_nonempty (installed vdb enum) /\
  forall i, aset_mem (installed vdb enum) i <-> valid_id vdb i.
Proof.
  intros HP. destruct (perm_ids_spec enum HP) as [ND HI].
  destruct (installed_fold enum [] [] (aset_ok_nil vdb)) as (K1 & K3 & K2); auto.
  - intros ? ? [].
  - intros i. split; [|intros []]. intros (nm & sl & k & [] & _).
  - intros i Hi. now apply HI.
  - split; [exact K1|]. split; [exact K3|]. intros i. rewrite <- HI. apply K2.
Qed.

(* ---- findPackageCategory and the classification of the requested atoms *)
Hypothesis names_ok : forall i p, pkg_at vdb i = Some p ->
  p_pn p = p_cat p ++ c_sl :: base_name p /\ nosep c_sl (p_cat p) /\ nosep c_sl (base_name p).

Lemma split_name p i : pkg_at vdb i = Some p -> split c_sl (p_pn p) = [p_cat p; base_name p].
Proof.
  intros Hp. destruct (names_ok i p Hp) as (E & N1 & N2). rewrite E.
  change (p_cat p ++ c_sl :: base_name p) with (join c_sl [p_cat p; base_name p]).
  apply split_join; [discriminate|]. repeat constructor; auto.
Qed.

Variable inst : aset.
Hypothesis inst_ok : aset_ok vdb inst.
Hypothesis inst_ne : aset_nonempty inst.
Hypothesis inst_all : forall i, aset_mem inst i <-> valid_id vdb i.

(* every name of the installed set is the name of an installed package, and conversely *)
Lemma inst_key_pkg x : In x inst -> exists i p, pkg_at vdb i = Some p /\ p_pn p = fst x.
Proof.
  destruct x as [nm sl]. intros Hin. pose proof (inst_ne nm sl Hin) as Hne.
  destruct inst_ok as [_ HO]. destruct (HO nm sl Hin) as [_ SO].
  destruct sl as [|[k i] r]; [congruence|]. destruct (SO k i (or_introl eq_refl)) as (p & Hp & Hn & _).
  exists i, p. auto.
Qed.
Lemma pkg_inst_key i p : pkg_at vdb i = Some p -> exists sl, In (p_pn p, sl) inst.
Proof.
  intros Hp. assert (aset_mem inst i) by (apply inst_all; now exists p).
  destruct H as (nm & sl & k & Hin & Hi). destruct inst_ok as [_ HO]. destruct (HO nm sl Hin) as [_ SO].
  destruct (SO k i Hi) as (q & Hq & Hn & _). rewrite Hp in Hq. injection Hq as <-. subst nm. eauto.
Qed.

Lemma find_cats_gen (s : aset) nm :
  (forall x, In x s -> exists i p, pkg_at vdb i = Some p /\ p_pn p = fst x) ->
  exists cs, find_cats s nm = Some cs /\
    (forall c, In c cs <-> exists x i p, In x s /\ pkg_at vdb i = Some p /\ p_pn p = fst x /\ p_cat p = c /\ base_name p = nm) /\
    (NoDup (map fst s) -> NoDup cs).
Proof.
  induction s as [|[fq sl] r IH]; intros HK.
  - exists []. cbn. split; auto. split; [|constructor]. intros c. split; [intros []|intros (x & _ & _ & [] & _)].
  - destruct IH as (cs & E & HC & HN). { intros x Hx. apply HK. now right. }
    destruct (HK (fq, sl) (or_introl eq_refl)) as (i & p & Hp & Hn). cbn [fst] in Hn. subst fq.
    cbn [find_cats]. rewrite (split_name p i Hp). cbn [nth_error hd]. rewrite E.
    destruct (beq (base_name p) nm) eqn:EB.
    + apply beq_true in EB. exists (p_cat p :: cs). split; auto. split.
      * intros c. cbn. rewrite HC. split.
        -- intros [<-|(x & j & q & H1 & H2)].
           ++ exists (p_pn p, sl), i, p. cbn [fst]. repeat split; auto.
           ++ exists x, j, q. split; [now right|exact H2].
        -- intros (x & j & q & [<-|H1] & H2 & H3 & H4 & H5).
           ++ cbn [fst] in H3. left. rewrite <- H4.
              assert (Hs : split c_sl (p_pn p) = split c_sl (p_pn q)) by congruence.
              rewrite (split_name p i Hp), (split_name q j H2) in Hs. congruence.
           ++ right. exists x, j, q. auto.
      * intros ND. cbn in ND. inversion ND as [|? ? Hnot ND']; subst. constructor; auto.
        intros Hin. apply HC in Hin as (x & j & q & H1 & H2 & H3 & H4 & H5). apply Hnot.
        apply in_map_iff. exists x. split; auto. rewrite <- H3.
        destruct (names_ok i p Hp) as (E1 & _). destruct (names_ok j q H2) as (E2 & _).
        rewrite E1, E2. congruence.
    + exists cs. split; auto. split.
      * intros c. rewrite HC. split.
        -- intros (x & j & q & H1 & H2). exists x, j, q. split; [now right|exact H2].
        -- intros (x & j & q & [<-|H1] & H2 & H3 & H4 & H5).
           ++ cbn [fst] in H3. exfalso. apply beq_false in EB. apply EB.
              destruct (names_ok i p Hp) as (E1 & N1 & N1'). destruct (names_ok j q H2) as (E2 & N2 & N2').
              assert (Hs : split c_sl (p_pn p) = split c_sl (p_pn q)) by congruence.
              rewrite (split_name p i Hp), (split_name q j H2) in Hs. congruence.
           ++ exists x, j, q. auto.
      * intros ND. cbn in ND. inversion ND; auto.
Qed.

Lemma sorted_nodup_names (s : aset) : StronglySorted name_asc s -> NoDup (map fst s).
Proof.
  induction 1 as [|x s HS IH HF]; cbn; constructor; auto.
  intros Hin. apply in_map_iff in Hin as (y & E & Hy). rewrite Forall_forall in HF. specialize (HF y Hy).
  unfold name_asc in HF. rewrite E in HF. now rewrite ltb_irrefl in HF.
Qed.

Lemma dedup_spec l : forall seen x, In x (dedup l seen) <-> In x l /\ ~ In x seen.
Proof.
  induction l as [|y r IH]; intros seen x; cbn; [tauto|].
  destruct (memb y seen) eqn:E.
  - apply memb_in in E. rewrite IH. split; [tauto|]. intros [[<-|H] Hn]; [contradiction|tauto].
  - apply memb_false in E. cbn. rewrite IH. cbn. split.
    + intros [<-|[H1 H2]]; [tauto|]. split; [tauto|]. intro. apply H2. now right.
    + intros [[<-|H1] H2]; [now left|]. destruct (list_eq_dec ascii_dec y x) as [->|Hne]; [now left|].
      right. split; auto. intros [C|C]; [congruence|contradiction].
Qed.
Lemma dedup_nodup l : forall seen, NoDup (dedup l seen).
Proof.
  induction l as [|y r IH]; intros seen; cbn; [constructor|].
  destruct (memb y seen); auto. constructor; auto. rewrite dedup_spec. intros [_ H]. apply H. now left.
Qed.

Lemma in_vdb_iff p : In p vdb <-> exists i, pkg_at vdb i = Some p.
Proof.
  unfold pkg_at. split.
  - intros H. apply In_nth_error in H as [k Hk]. exists (N.of_nat k). now rewrite Nat2N.id.
  - intros [i H]. eapply nth_error_In; eauto.
Qed.

Lemma cats_agree nm : exists cs, find_cats inst nm = Some cs /\ NoDup cs /\
  forall c, In c cs <-> In c (cats_of vdb nm).
Proof.
  destruct (find_cats_gen inst nm) as (cs & E & HC & HN). { intros x Hx. now apply inst_key_pkg. }
  exists cs. split; auto. split; [apply HN, sorted_nodup_names, inst_ok|].
  intros c. rewrite HC. unfold cats_of. rewrite dedup_spec, in_map_iff. split.
  - intros (x & i & p & H1 & H2 & H3 & H4 & H5). split; [|tauto]. exists p. split; auto.
    apply filter_In. split; [apply in_vdb_iff; eauto|]. now apply beq_true.
  - intros [(p & H1 & H2) _]. apply filter_In in H2 as [H2 H3]. apply beq_true in H3.
    apply in_vdb_iff in H2 as [i Hp]. destruct (pkg_inst_key i p Hp) as [sl Hin].
    exists (p_pn p, sl), i, p. auto.
Qed.

Lemma same_shape (l1 l2 : list bytes) : NoDup l1 -> NoDup l2 -> (forall c, In c l1 <-> In c l2) ->
  match l1, l2 with
  | [], [] => True
  | [a], [b] => a = b
  | _ :: _ :: _, _ :: _ :: _ => True
  | _, _ => False
  end.
Proof.
  intros N1 N2 H.
  assert (L : length l1 = length l2).
  { apply Nat.le_antisymm; apply NoDup_incl_length; auto; intros x Hx; now apply H. }
  destruct l1 as [|a [|a' r1]], l2 as [|b [|b' r2]]; cbn in L; try discriminate; auto.
  assert (In a [b]) by (apply H; now left). destruct H0 as [->|[]]. reflexivity.
Qed.

(* classify agrees with the specification's [requested] *)
Lemma classify_spec us : forall w b,
  match classify inst us w b with
  | ROk (w', b') => exists rq, requested vdb us = Some rq /\
                      forall a, In a (b' ++ w') <-> In a (b ++ w) \/ In a rq
  | RFailed => requested vdb us = None
  | _ => False
  end.
Proof.
  induction us as [|u r IH]; intros w b.
  - cbn [classify requested]. exists []. split; auto. intros a. cbn [In]. tauto.
  - cbn [classify requested].
    assert (Push : forall a,
      match (if u_blk u then classify inst r w (b ++ [a]) else classify inst r (w ++ [a]) b) with
      | ROk (w', b') => exists rq, match requested vdb r with Some rq0 => Some (a :: rq0) | None => None end = Some rq /\
                          forall x, In x (b' ++ w') <-> In x (b ++ w) \/ In x rq
      | RFailed => match requested vdb r with Some rq0 => Some (a :: rq0) | None => None end = None
      | _ => False
      end).
    { intros a. destruct (u_blk u).
      - specialize (IH w (b ++ [a])). destruct (classify inst r w (b ++ [a])) as [[w' b']| | |]; auto.
        + destruct IH as (rq & E & H). rewrite E. exists (a :: rq). split; auto.
          intros x. rewrite H, !in_app_iff. cbn. tauto.
        + now rewrite IH.
      - specialize (IH (w ++ [a]) b). destruct (classify inst r (w ++ [a]) b) as [[w' b']| | |]; auto.
        + destruct IH as (rq & E & H). rewrite E. exists (a :: rq). split; auto.
          intros x. rewrite H, !in_app_iff. cbn. tauto.
        + now rewrite IH. }
    destruct (isnil (u_nm u)) eqn:En.
    + destruct (requested vdb r); reflexivity.
    + destruct (isnil (u_cat u)) eqn:Ec.
      * destruct (cats_agree (u_nm u)) as (cs & E & ND & HC). rewrite E.
        pose proof (same_shape cs (cats_of vdb (u_nm u)) ND (dedup_nodup _ _) HC) as SH.
        destruct cs as [|c [|c' cs']], (cats_of vdb (u_nm u)) as [|d [|d' ds']]; try contradiction.
        -- destruct (u_blk u).
           ++ specialize (IH w b). destruct (classify inst r w b) as [[w' b']| | |]; auto.
              ** destruct IH as (rq & E' & H). rewrite E'. eauto.
              ** now rewrite IH.
           ++ destruct (requested vdb r); reflexivity.
        -- subst d. specialize (Push (mk_atom c u)).
           destruct (requested vdb r); exact Push.
        -- destruct (requested vdb r); reflexivity.
      * specialize (Push (mk_atom (u_cat u) u)). destruct (requested vdb r); exact Push.
Qed.
End Stage.
