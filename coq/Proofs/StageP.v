(* From the resolver theorems to the stage set of one case: the installed AtomSet, the
   classification of the requested atoms, the listing. *)
From LC Require Import Lib.Bytes Lib.Lex Lib.Fields Model.Resolve Cases.C05
  Proofs.ResolveBasics Proofs.AtomSetP Proofs.ResolveInv Proofs.ResolveP Proofs.ClosureP.
From Coq Require Import Sorting.Sorted.
Import C05.

Section Stage.
Variable vdb : list pkg.
Variable bdeps : bool.
Hypothesis keys_nodup : forall i j p q, pkg_at vdb i = Some p -> pkg_at vdb j = Some q ->
  p_pn p = p_pn q -> p_slot p = p_slot q -> i = j.

(* ---- GetInstalledPackageList *)
Lemma installed_fold enum : forall s L,
  aset_ok vdb s -> aset_nonempty s -> (forall i, aset_mem s i <-> In i L) -> NoDup (L ++ enum) ->
  (forall i, In i enum -> valid_id vdb i) ->
  let s' := fold_left (fun s i => match pkg_at vdb i with
                                  | Some p => aset_add s (p_pn p) (p_slot p) i
                                  | None => s end) enum s in
  aset_ok vdb s' /\ aset_nonempty s' /\ forall i, aset_mem s' i <-> In i (L ++ enum).
Proof.
  induction enum as [|j r IH]; intros s L Hok Hne Hm ND HV; cbn.
  - rewrite app_nil_r. auto.
  - destruct (HV j (or_introl eq_refl)) as [p Hp]. rewrite Hp.
    assert (Hnm : ~ aset_mem s j).
    { intros C. apply Hm in C. apply NoDup_remove_2 in ND. apply ND. apply in_app_iff. now left. }
    destruct (aset_add_ok vdb keys_nodup s j p Hok Hp Hnm) as [K1 K2].
    specialize (IH (aset_add s (p_pn p) (p_slot p) j) (L ++ [j]) K1).
    rewrite <- app_assoc in IH. cbn in IH. apply IH; auto.
    + apply aset_add_nonempty; auto. apply Hok.
    + intros i. rewrite K2, Hm, in_app_iff. cbn. intuition congruence.
    + intros i Hi. apply HV. now right.
Qed.

Lemma perm_ids_spec enum : is_perm_ids (length vdb) enum = true ->
  NoDup enum /\ forall i, In i enum <-> valid_id vdb i.
Proof.
  unfold is_perm_ids. rewrite andb_true_iff, Nat.eqb_eq, forallb_forall. intros [HL HA].
  assert (Hincl : incl (ids vdb) enum).
  { intros i Hi. unfold ids in Hi. apply in_map_iff in Hi as (k & <- & Hk). apply memN_in. auto. }
  assert (Hlen : (length enum <= length (ids vdb))%nat).
  { unfold ids. rewrite map_length, seq_length. lia. }
  split.
  - eapply NoDup_incl_NoDup; eauto. apply ids_nodup.
  - intros i. rewrite <- ids_in. split; [|apply Hincl].
    apply (NoDup_length_incl (ids_nodup vdb) Hlen Hincl).
Qed.

Lemma installed_ok enum : is_perm_ids (length vdb) enum = true ->
  aset_ok vdb (installed vdb enum) /\ aset_nonempty (installed vdb enum) /\
  forall i, aset_mem (installed vdb enum) i <-> valid_id vdb i.
Proof.
  intros HP. destruct (perm_ids_spec enum HP) as [ND HI].
  destruct (installed_fold enum [] [] (aset_ok_nil vdb)) as (K1 & K3 & K2); auto.
  - intros ? ? [].
  - intros i. split; [|intros []]. intros (nm & sl & k & [] & _).
  - intros i Hi. now apply HI.
  - split; [exact K1|]. split; [exact K3|]. intros i. rewrite <- HI. apply K2.
Qed.

(* ---- findPackageCategory and the classification of the requested atoms *)
Hypothesis names_ok : forall i p, pkg_at vdb i = Some p ->
  p_pn p = p_cat p ++ c_sl :: base_name p /\ nosep c_sl (p_cat p) /\ nosep c_sl (base_name p).

Lemma split_name p i : pkg_at vdb i = Some p -> split c_sl (p_pn p) = [p_cat p; base_name p].
Proof.
  intros Hp. destruct (names_ok i p Hp) as (E & N1 & N2). rewrite E.
  change (p_cat p ++ c_sl :: base_name p) with (join c_sl [p_cat p; base_name p]).
  apply split_join; [discriminate|]. repeat constructor; auto.
Qed.

Variable inst : aset.
Hypothesis inst_ok : aset_ok vdb inst.
Hypothesis inst_ne : aset_nonempty inst.
Hypothesis inst_all : forall i, aset_mem inst i <-> valid_id vdb i.

(* every name of the installed set is the name of an installed package, and conversely *)
Lemma inst_key_pkg x : In x inst -> exists i p, pkg_at vdb i = Some p /\ p_pn p = fst x.
Proof.
  destruct x as [nm sl]. intros Hin. pose proof (inst_ne nm sl Hin) as Hne.
  destruct inst_ok as [_ HO]. destruct (HO nm sl Hin) as [_ SO].
  destruct sl as [|[k i] r]; [congruence|]. destruct (SO k i (or_introl eq_refl)) as (p & Hp & Hn & _).
  exists i, p. auto.
Qed.
Lemma pkg_inst_key i p : pkg_at vdb i = Some p -> exists sl, In (p_pn p, sl) inst.
Proof.
  intros Hp. assert (aset_mem inst i) by (apply inst_all; now exists p).
  destruct H as (nm & sl & k & Hin & Hi). destruct inst_ok as [_ HO]. destruct (HO nm sl Hin) as [_ SO].
  destruct (SO k i Hi) as (q & Hq & Hn & _). rewrite Hp in Hq. injection Hq as <-. subst nm. eauto.
Qed.

Lemma find_cats_gen (s : aset) nm :
  (forall x, In x s -> exists i p, pkg_at vdb i = Some p /\ p_pn p = fst x) ->
  exists cs, find_cats s nm = Some cs /\
    (forall c, In c cs <-> exists x i p, In x s /\ pkg_at vdb i = Some p /\ p_pn p = fst x /\ p_cat p = c /\ base_name p = nm) /\
    (NoDup (map fst s) -> NoDup cs).
Proof.
  induction s as [|[fq sl] r IH]; intros HK.
  - exists []. cbn. split; auto. split; [|constructor]. intros c. split; [intros []|intros (x & _ & _ & [] & _)].
  - destruct IH as (cs & E & HC & HN). { intros x Hx. apply HK. now right. }
    destruct (HK (fq, sl) (or_introl eq_refl)) as (i & p & Hp & Hn). cbn [fst] in Hn. subst fq.
    cbn [find_cats]. rewrite (split_name p i Hp). cbn [nth_error hd]. rewrite E.
    destruct (beq (base_name p) nm) eqn:EB.
    + apply beq_true in EB. exists (p_cat p :: cs). split; auto. split.
      * intros c. cbn. rewrite HC. split.
        -- intros [<-|(x & j & q & H1 & H2)].
           ++ exists (p_pn p, sl), i, p. cbn [fst]. repeat split; auto.
           ++ exists x, j, q. split; [now right|exact H2].
        -- intros (x & j & q & [<-|H1] & H2 & H3 & H4 & H5).
           ++ cbn [fst] in H3. left. rewrite <- H4.
              assert (Hs : split c_sl (p_pn p) = split c_sl (p_pn q)) by congruence.
              rewrite (split_name p i Hp), (split_name q j H2) in Hs. congruence.
           ++ right. exists x, j, q. auto.
      * intros ND. cbn in ND. inversion ND as [|? ? Hnot ND']; subst. constructor; auto.
        intros Hin. apply HC in Hin as (x & j & q & H1 & H2 & H3 & H4 & H5). apply Hnot.
        apply in_map_iff. exists x. split; auto. rewrite <- H3.
        destruct (names_ok i p Hp) as (E1 & _). destruct (names_ok j q H2) as (E2 & _).
        rewrite E1, E2. congruence.
    + exists cs. split; auto. split.
      * intros c. rewrite HC. split.
        -- intros (x & j & q & H1 & H2). exists x, j, q. split; [now right|exact H2].
        -- intros (x & j & q & [<-|H1] & H2 & H3 & H4 & H5).
           ++ cbn [fst] in H3. exfalso. apply beq_false in EB. apply EB.
              destruct (names_ok i p Hp) as (E1 & N1 & N1'). destruct (names_ok j q H2) as (E2 & N2 & N2').
              assert (Hs : split c_sl (p_pn p) = split c_sl (p_pn q)) by congruence.
              rewrite (split_name p i Hp), (split_name q j H2) in Hs. congruence.
           ++ exists x, j, q. auto.
      * intros ND. cbn in ND. inversion ND; auto.
Qed.

Lemma sorted_nodup_names (s : aset) : StronglySorted name_asc s -> NoDup (map fst s).
Proof.
  induction 1 as [|x s HS IH HF]; cbn; constructor; auto.
  intros Hin. apply in_map_iff in Hin as (y & E & Hy). rewrite Forall_forall in HF. specialize (HF y Hy).
  unfold name_asc in HF. rewrite E in HF. now rewrite ltb_irrefl in HF.
Qed.

Lemma dedup_spec l : forall seen x, In x (dedup l seen) <-> In x l /\ ~ In x seen.
Proof.
  induction l as [|y r IH]; intros seen x; cbn; [tauto|].
  destruct (memb y seen) eqn:E.
  - apply memb_in in E. rewrite IH. split; [tauto|]. intros [[<-|H] Hn]; [contradiction|tauto].
  - apply memb_false in E. cbn. rewrite IH. cbn. split.
    + intros [<-|[H1 H2]]; [tauto|]. split; [tauto|]. intro. apply H2. now right.
    + intros [[<-|H1] H2]; [now left|]. destruct (list_eq_dec ascii_dec y x) as [->|Hne]; [now left|].
      right. split; auto. intros [C|C]; [congruence|contradiction].
Qed.
Lemma dedup_nodup l : forall seen, NoDup (dedup l seen).
Proof.
  induction l as [|y r IH]; intros seen; cbn; [constructor|].
  destruct (memb y seen); auto. constructor; auto. rewrite dedup_spec. intros [_ H]. apply H. now left.
Qed.

Lemma in_vdb_iff p : In p vdb <-> exists i, pkg_at vdb i = Some p.
Proof.
  unfold pkg_at. split.
  - intros H. apply In_nth_error in H as [k Hk]. exists (N.of_nat k). now rewrite Nat2N.id.
  - intros [i H]. eapply nth_error_In; eauto.
Qed.

Lemma cats_agree nm : exists cs, find_cats inst nm = Some cs /\ NoDup cs /\
  forall c, In c cs <-> In c (cats_of vdb nm).
Proof.
  destruct (find_cats_gen inst nm) as (cs & E & HC & HN). { intros x Hx. now apply inst_key_pkg. }
  exists cs. split; auto. split; [apply HN, sorted_nodup_names, inst_ok|].
  intros c. rewrite HC. unfold cats_of. rewrite dedup_spec, in_map_iff. split.
  - intros (x & i & p & H1 & H2 & H3 & H4 & H5). split; [|tauto]. exists p. split; auto.
    apply filter_In. split; [apply in_vdb_iff; eauto|]. now apply beq_true.
  - intros [(p & H1 & H2) _]. apply filter_In in H2 as [H2 H3]. apply beq_true in H3.
    apply in_vdb_iff in H2 as [i Hp]. destruct (pkg_inst_key i p Hp) as [sl Hin].
    exists (p_pn p, sl), i, p. auto.
Qed.

Lemma same_shape (l1 l2 : list bytes) : NoDup l1 -> NoDup l2 -> (forall c, In c l1 <-> In c l2) ->
  match l1, l2 with
  | [], [] => True
  | [a], [b] => a = b
  | _ :: _ :: _, _ :: _ :: _ => True
  | _, _ => False
  end.
Proof.
  intros N1 N2 H.
  assert (L : length l1 = length l2).
  { apply Nat.le_antisymm; apply NoDup_incl_length; auto; intros x Hx; now apply H. }
  destruct l1 as [|a [|a' r1]], l2 as [|b [|b' r2]]; cbn in L; try discriminate; auto.
  assert (In a [b]) by (apply H; now left). destruct H0 as [->|[]]. reflexivity.
Qed.

(* classify agrees with the specification's [requested] *)
Lemma classify_spec us : forall w b,
  match classify inst us w b with
  | ROk (w', b') => exists rq, requested vdb us = Some rq /\
                      forall a, In a (b' ++ w') <-> In a (b ++ w) \/ In a rq
  | RFailed => requested vdb us = None
  | _ => False
  end.
Proof.
  induction us as [|u r IH]; intros w b.
  - cbn [classify requested]. exists []. split; auto. intros a. cbn [In]. tauto.
  - cbn [classify requested].
    assert (Push : forall a,
      match (if u_blk u then classify inst r w (b ++ [a]) else classify inst r (w ++ [a]) b) with
      | ROk (w', b') => exists rq, match requested vdb r with Some rq0 => Some (a :: rq0) | None => None end = Some rq /\
                          forall x, In x (b' ++ w') <-> In x (b ++ w) \/ In x rq
      | RFailed => match requested vdb r with Some rq0 => Some (a :: rq0) | None => None end = None
      | _ => False
      end).
    { intros a. destruct (u_blk u).
      - specialize (IH w (b ++ [a])). destruct (classify inst r w (b ++ [a])) as [[w' b']| | |]; auto.
        + destruct IH as (rq & E & H). rewrite E. exists (a :: rq). split; auto.
          intros x. rewrite H, !in_app_iff. cbn. tauto.
        + now rewrite IH.
      - specialize (IH (w ++ [a]) b). destruct (classify inst r (w ++ [a]) b) as [[w' b']| | |]; auto.
        + destruct IH as (rq & E & H). rewrite E. exists (a :: rq). split; auto.
          intros x. rewrite H, !in_app_iff. cbn. tauto.
        + now rewrite IH. }
    destruct (isnil (u_nm u)) eqn:En.
    + destruct (requested vdb r); reflexivity.
    + destruct (isnil (u_cat u)) eqn:Ec.
      * destruct (cats_agree (u_nm u)) as (cs & E & ND & HC). rewrite E.
        pose proof (same_shape cs (cats_of vdb (u_nm u)) ND (dedup_nodup _ _) HC) as SH.
        destruct cs as [|c [|c' cs']], (cats_of vdb (u_nm u)) as [|d [|d' ds']]; try contradiction.
        -- destruct (u_blk u).
           ++ specialize (IH w b). destruct (classify inst r w b) as [[w' b']| | |]; auto.
              ** destruct IH as (rq & E' & H). rewrite E'. eauto.
              ** now rewrite IH.
           ++ destruct (requested vdb r); reflexivity.
        -- subst d. specialize (Push (mk_atom c u)).
           destruct (requested vdb r); exact Push.
        -- destruct (requested vdb r); reflexivity.
      * specialize (Push (mk_atom (u_cat u) u)). destruct (requested vdb r); exact Push.
Qed.
End Stage.

(* ---- from the relational statements to the boolean specification *)
Section Bool.
Variable vdb : list pkg.
Variable bdeps : bool.

Lemma forallb_false_in {X} (f : X -> bool) l x : In x l -> f x = false -> forallb f l = false.
Proof.
  intros Hin Hf. destruct (forallb f l) eqn:E; auto. rewrite forallb_forall in E. rewrite E in Hf; auto.
Qed.

Lemma reach_rq_ext rq rq' inS i : (forall a, In a rq' <-> In a rq) ->
  ReachIn vdb bdeps rq' inS i -> ReachIn vdb bdeps rq inS i.
Proof.
  intros H. induction 1.
  - eapply RI_root; eauto. now apply H.
  - eapply RI_step; eauto.
Qed.

Lemma validsel_valid rq rq' X : (forall a, In a rq' <-> In a rq) ->
  ValidSel vdb bdeps rq' X -> valid vdb bdeps rq X = true.
Proof.
  intros HE (V1 & V2 & V3 & V4 & V5). unfold valid. rewrite !andb_true_iff. split; [split; [split|]|].
  - unfold v_roots. apply forallb_forall. intros a Ha. destruct (a_blk a) eqn:Eb; auto. cbn.
    apply V1; auto. now apply HE.
  - unfold v_closed. apply forallb_forall. intros i Hi. destruct (V2 i Hi) as (p & Hp & F1 & F2).
    rewrite Hp, F1, F2. reflexivity.
  - unfold v_justified. apply forallb_forall. intros i Hi. apply memN_in. unfold reach.
    apply closure_complete. eapply reach_rq_ext; eauto.
  - unfold v_unblocked. apply andb_true_iff. split.
    + apply forallb_forall. intros b Hb. destruct (a_blk b) eqn:Eb; auto. cbn.
      rewrite V4; auto. now apply HE.
    + apply forallb_forall. intros i Hi. destruct (V2 i Hi) as (p & Hp & _). rewrite Hp.
      apply forallb_forall. intros b Hb. destruct (a_blk b) eqn:Eb; auto. cbn. erewrite V5; eauto.
Qed.

Lemma reason_invalid rq rq' M : (forall a, In a rq' <-> In a rq) ->
  Reason vdb bdeps rq' M -> valid vdb bdeps rq M = false.
Proof.
  intros HE [R|[R|[R|R]]]; unfold valid.
  - destruct R as (a & Ha & Hb & Hs).
    assert (v_roots vdb rq M = false) as ->; [|reflexivity].
    unfold v_roots. eapply forallb_false_in; [apply HE; exact Ha|]. now rewrite Hb, Hs.
  - destruct R as (i & p & Hi & Hp & Hr).
    assert (v_closed vdb bdeps M = false) as ->; [|now rewrite andb_false_r].
    unfold v_closed. eapply forallb_false_in; [exact Hi|]. rewrite Hp.
    destruct Hr as [Hr|(d & Hd & Hs)]; [now rewrite Hr|].
    rewrite (forallb_false_in _ _ d Hd Hs). apply andb_false_r.
  - destruct R as (b & Hb & Hblk & Hs).
    assert (v_unblocked vdb bdeps rq M = false) as ->; [|now rewrite andb_false_r].
    unfold v_unblocked. rewrite (forallb_false_in _ rq b); auto; [apply HE; exact Hb|]. now rewrite Hblk, Hs.
  - destruct R as (i & p & b & Hi & Hp & Hb & Hblk & Hs).
    assert (v_unblocked vdb bdeps rq M = false) as ->; [|now rewrite andb_false_r].
    unfold v_unblocked. apply andb_false_iff. right. eapply forallb_false_in; [exact Hi|]. rewrite Hp.
    eapply forallb_false_in; [exact Hb|]. now rewrite Hblk, Hs.
Qed.

(* the printed listing maps back to the selected packages *)
Hypothesis strs_nodup : forall i j p q, pkg_at vdb i = Some p -> pkg_at vdb j = Some q ->
  pkg_str p = pkg_str q -> i = j.

Lemma id_of_str i p : pkg_at vdb i = Some p -> id_of vdb (pkg_str p) = Some i.
Proof.
  intros Hp. unfold id_of.
  destruct (find _ (ids vdb)) as [j|] eqn:E.
  - apply find_some in E as [_ E]. destruct (pkg_at vdb j) as [q|] eqn:Hq; [|discriminate].
    apply beq_true in E. f_equal. eapply strs_nodup; eauto.
  - exfalso. assert (Hi : In i (ids vdb)) by (apply ids_in; now exists p).
    pose proof (find_none _ _ E i Hi) as C. cbn in C. rewrite Hp, beq_refl in C. discriminate.
Qed.
Lemma ids_of_listing X : (forall i, In i X -> valid_id vdb i) -> ids_of vdb (listing vdb X) = Some X.
Proof.
  induction X as [|i r IH]; intros HV; [reflexivity|].
  destruct (HV i (or_introl eq_refl)) as [p Hp].
  change (listing vdb (i :: r)) with ((match pkg_at vdb i with Some p0 => pkg_str p0 | None => [] end) :: listing vdb r).
  rewrite Hp. cbn [ids_of]. rewrite (id_of_str i p Hp).
  rewrite IH; auto. intros j Hj. apply HV. now right.
Qed.
End Bool.

(* ---- the stage set of a case *)
Section StageSet.
Variable vdb : list pkg.
Variable bdeps : bool.
Variable enum : list N.
Hypothesis keys_nodup : forall i j p q, pkg_at vdb i = Some p -> pkg_at vdb j = Some q ->
  p_pn p = p_pn q -> p_slot p = p_slot q -> i = j.
Hypothesis strs_nodup : forall i j p q, pkg_at vdb i = Some p -> pkg_at vdb j = Some q ->
  pkg_str p = pkg_str q -> i = j.
Hypothesis use_eq : forall i p, pkg_at vdb i = Some p -> forall f, use_on p f = spec_use p f.
Hypothesis no_fpanic : forall i p, pkg_at vdb i = Some p ->
  forallb (fun f => match f with FPanic => false | _ => true end) (rel_files bdeps p) = true.
Hypothesis names_ok : forall i p, pkg_at vdb i = Some p ->
  p_pn p = p_cat p ++ c_sl :: base_name p /\ nosep c_sl (p_cat p) /\ nosep c_sl (base_name p).
Hypothesis enum_perm : is_perm_ids (length vdb) enum = true.

(* no compound alternative in the packages that can be selected *)
Definition no_compound (rq : list atomr) : Prop :=
  forall j p d, In j (maxclosure vdb bdeps rq) -> pkg_at vdb j = Some p -> In d (top_deps bdeps p) ->
    compound_alt (spec_use p) d = false.

Theorem stage_holds us :
  (forall rq, requested vdb us = Some rq -> no_compound rq) ->
  spec_stage vdb bdeps (requested vdb us) (stage_set vdb enum bdeps us) = true.
Proof.
  intros HNC. destruct (installed_ok vdb keys_nodup enum enum_perm) as (I1 & I2 & I3).
  unfold stage_set, resolve_user.
  pose proof (classify_spec vdb names_ok (installed vdb enum) I1 I2 I3 us [] []) as CS.
  destruct (classify (installed vdb enum) us [] []) as [[w b]| | |]; try contradiction.
  - destruct CS as (rq & Erq & Hrq). rewrite Erq.
    assert (HE : forall a, In a (b ++ w) <-> In a rq) by (intros a; rewrite Hrq; cbn; tauto).
    specialize (HNC rq Erq).
    pose proof (top_spec vdb bdeps keys_nodup use_eq no_fpanic (installed vdb enum) I1 I3 (b ++ w)
                  (maxclosure vdb bdeps rq)) as TS.
    assert (MR : forall a, In a (b ++ w) -> a_blk a = false -> incl (amatch vdb a) (maxclosure vdb bdeps rq)).
    { intros a Ha. apply maxclosure_root. now apply HE. }
    specialize (TS MR (maxclosure_step vdb bdeps rq) HNC (S (length vdb)) (Nat.le_succ_diag_r _)).
    unfold top_run in TS.
    destruct (resolve_dep (installed vdb enum) (visit_pkg vdb (installed vdb enum) bdeps (S (length vdb)))
                (fun _ => false) false (DGrp GAll (map DAtom (b ++ w))) (g0, [])) as [[g rs]| | |]; try contradiction.
    + destruct TS as [Ig HV]. cbn [spec_stage].
      set (X := sorted_atoms (g_res g)).
      assert (HX : forall i, In i X <-> In i (g_added g)).
      { intros i. unfold X. destruct (inv_res _ _ _ _ Ig) as [K1 K2]. rewrite (sorted_atoms_in vdb _ i K1). apply K2. }
      rewrite (ids_of_listing vdb strs_nodup X).
      * rewrite (validsel_valid vdb bdeps rq (b ++ w) X HE (HV X HX)). cbn.
        apply sorted_by_spec. apply sorted_atoms_sorted. apply (inv_res _ _ _ _ Ig).
      * intros i Hi. apply HX in Hi. eapply inv_valid; eauto.
    + cbn [spec_stage]. apply negb_true_iff. eapply reason_invalid; eauto.
  - now rewrite CS.
Qed.
End StageSet.
