(* Path facts used by the C06 proofs: clean absolute names, chop / nrparents, path.Dir. *)
From LC Require Import Lib.Bytes Lib.Lex Lib.Fields Lib.PathM Gen.Consts Model.StageList Proofs.StageListP.
Open Scope N_scope.
Open Scope list_scope.

(* ---------------------------------------------------------------- join / split *)
Lemma join_cons2 sep (a : bytes) b r : join sep (a :: b :: r) = a ++ sep :: join sep (b :: r).
Proof. reflexivity. Qed.
Lemma join_split_acc sep s : forall cur, join sep (split_acc sep cur s) = rev cur ++ s.
Proof.
  induction s as [|c r IH]; intros cur; cbn [split_acc].
  - cbn. now rewrite app_nil_r.
  - destruct (Ascii.eqb c sep) eqn:E.
    + apply Ascii.eqb_eq in E. subst c.
      destruct (split_acc sep [] r) as [|x l] eqn:S; [now apply split_acc_nonempty in S|].
      rewrite join_cons2, <- S, IH. reflexivity.
    + rewrite IH. cbn [rev]. now rewrite <- app_assoc.
Qed.
Lemma join_split sep s : join sep (split sep s) = s.
Proof. unfold split. now rewrite join_split_acc. Qed.
Lemma join_snoc sep cs (c : bytes) : cs <> [] -> join sep (cs ++ [c]) = join sep cs ++ sep :: c.
Proof.
  induction cs as [|a r IH]; [congruence|]. intros _. destruct r as [|b r'].
  - reflexivity.
  - change ((a :: b :: r') ++ [c]) with (a :: (b :: r') ++ [c]).
    change ((b :: r') ++ [c]) with (b :: (r' ++ [c])) at 1.
    rewrite join_cons2. change (b :: r' ++ [c]) with ((b :: r') ++ [c]). rewrite IH by discriminate.
    rewrite join_cons2. now rewrite <- app_assoc.
Qed.

(* ---------------------------------------------------------------- clean absolute names *)
Definition c_slP : c_sl = sl := eq_refl.

Lemma abs_clean_struct k : abs_cleanb k = true ->
  exists cs c, Forall plain (cs ++ [c]) /\ k = sl :: pjoin (cs ++ [c]).
Proof.
  destruct k as [|x r]; [discriminate|]. cbn [abs_cleanb]. intros H.
  apply andb_true_iff in H as [Hx Hr]. apply Ascii.eqb_eq in Hx. subst x.
  assert (HF : Forall plain (psplit r)).
  { apply Forall_forall. intros c Hc. rewrite forallb_forall in Hr. apply plainb_spec. now apply Hr. }
  assert (Hne : psplit r <> []) by (unfold psplit, split; apply split_acc_nonempty).
  destruct (exists_last Hne) as (cs & c & E).
  exists cs, c. rewrite <- E. split; [exact HF|]. unfold pjoin, psplit. now rewrite join_split.
Qed.

Lemma plain_noslash c : plain c -> ~ In sl c.
Proof. intros (_ & _ & _ & H). exact H. Qed.

Lemma drop_to_slash_app (a : bytes) r : ~ In sl a -> drop_to_slash (rev a ++ sl :: r) = Some r.
Proof.
  intros Hn. assert (Hr : ~ In sl (rev a)) by (rewrite <- in_rev; exact Hn).
  induction (rev a) as [|x l IH]; cbn [app drop_to_slash].
  - change c_sl with sl. now rewrite Ascii.eqb_refl.
  - change c_sl with sl. destruct (Ascii.eqb x sl) eqn:E.
    + apply Ascii.eqb_eq in E. subst. exfalso. apply Hr. now left.
    + apply IH. intros H. apply Hr. now right.
Qed.
Lemma drop_to_slash_none (a : bytes) : ~ In sl a -> drop_to_slash (rev a) = None.
Proof.
  intros Hn. assert (Hr : ~ In sl (rev a)) by (rewrite <- in_rev; exact Hn).
  induction (rev a) as [|x l IH]; cbn [drop_to_slash]; [reflexivity|].
  change c_sl with sl. destruct (Ascii.eqb x sl) eqn:E.
  - apply Ascii.eqb_eq in E. subst. exfalso. apply Hr. now left.
  - apply IH. intros H. apply Hr. now right.
Qed.

Lemma chop_top c : ~ In sl c -> chop (sl :: c) = None.
Proof.
  intros Hn. unfold chop. cbn [rev]. rewrite drop_to_slash_app by exact Hn. reflexivity.
Qed.
Lemma chop_deep cs c : cs <> [] -> ~ In sl c -> chop (sl :: pjoin (cs ++ [c])) = Some (sl :: pjoin cs).
Proof.
  intros Hne Hn. unfold chop, pjoin. rewrite join_snoc by exact Hne.
  set (A := sl :: join sl cs).
  change (sl :: join sl cs ++ sl :: c) with (A ++ sl :: c).
  rewrite rev_app_distr. change (rev (sl :: c)) with (rev c ++ [sl]). rewrite <- app_assoc.
  change ([sl] ++ rev A) with (sl :: rev A).
  rewrite drop_to_slash_app by exact Hn.
  destruct (rev A) as [|y l] eqn:E.
  - subst A. apply (f_equal (@rev _)) in E. rewrite rev_involutive in E. discriminate.
  - rewrite <- E, rev_involutive. reflexivity.
Qed.

(* chop gives a proper prefix *)
Lemma drop_to_slash_prefix r : forall r', drop_to_slash r = Some r' -> exists a, r = a ++ sl :: r'.
Proof.
  induction r as [|x l IH]; cbn [drop_to_slash]; [discriminate|]. intros r'. change c_sl with sl.
  destruct (Ascii.eqb x sl) eqn:E.
  - apply Ascii.eqb_eq in E. subst. intros H. injection H as <-. now exists [].
  - intros H. apply IH in H as (a & ->). now exists (x :: a).
Qed.
Lemma chop_prefix d p : chop d = Some p -> exists s, s <> [] /\ d = p ++ s.
Proof.
  unfold chop. destruct (drop_to_slash (rev d)) as [[|c r]|] eqn:E; try discriminate.
  intros H. injection H as <-. apply drop_to_slash_prefix in E as (a & E).
  apply (f_equal (@rev _)) in E. rewrite rev_involutive in E. rewrite E.
  rewrite rev_app_distr. cbn [rev]. exists ([sl] ++ rev a). split; [discriminate|].
  now rewrite <- !app_assoc.
Qed.
Lemma chop_shorter d p : chop d = Some p -> (length p < length d)%nat.
Proof.
  intros H. apply chop_prefix in H as (s & Hs & ->). rewrite app_length. destruct s; [congruence|cbn; lia].
Qed.

(* chop_chain with enough fuel does not depend on the fuel *)
Lemma chop_chain_fuel f1 : forall f2 d, (length d < f1)%nat -> (length d < f2)%nat -> chop_chain f1 d = chop_chain f2 d.
Proof.
  induction f1 as [|f1 IH]; intros f2 d H1 H2; [lia|]. destruct f2 as [|f2]; [lia|].
  cbn [chop_chain]. f_equal. destruct (chop d) as [p|] eqn:E; [|reflexivity].
  apply chop_shorter in E. apply IH; lia.
Qed.
Lemma nrparents_step k d : chop k = Some d -> nrparents k = d :: nrparents d.
Proof.
  intros E. unfold nrparents at 1. rewrite E. pose proof (chop_shorter _ _ E) as L.
  destruct (length k) as [|n] eqn:Ek; [lia|]. cbn [chop_chain]. f_equal.
  unfold nrparents. destruct (chop d) as [p|] eqn:E2; [|reflexivity].
  pose proof (chop_shorter _ _ E2). destruct (length d) as [|n'] eqn:Ed; [lia|].
  apply chop_chain_fuel; lia.
Qed.
Lemma nrparents_none k : chop k = None -> nrparents k = [].
Proof. intros E. unfold nrparents. now rewrite E. Qed.

Lemma nrparents_prefix k p : In p (nrparents k) -> exists s, s <> [] /\ k = p ++ s.
Proof.
  remember (length k) as n eqn:En. revert k En. induction n as [n IH] using lt_wf_ind. intros k En Hin.
  destruct (chop k) as [d|] eqn:E.
  - rewrite (nrparents_step _ _ E) in Hin. destruct (chop_prefix _ _ E) as (s & Hs & Ek).
    destruct Hin as [<-|Hin]; [now exists s|].
    pose proof (chop_shorter _ _ E) as L.
    destruct (IH (length d) ltac:(lia) d eq_refl Hin) as (s' & Hs' & Ed).
    exists (s' ++ s). split; [destruct s'; [congruence|discriminate]|]. rewrite Ek, Ed. now rewrite app_assoc.
  - rewrite (nrparents_none _ E) in Hin. destruct Hin.
Qed.
(* the parents of a parent are parents *)
Lemma nrparents_trans k p q : In p (nrparents k) -> In q (nrparents p) -> In q (nrparents k).
Proof.
  remember (length k) as n eqn:En. revert k En. induction n as [n IH] using lt_wf_ind. intros k En Hp Hq.
  destruct (chop k) as [d|] eqn:E.
  - rewrite (nrparents_step _ _ E) in Hp |- *. destruct Hp as [<-|Hp]; [now right|].
    right. pose proof (chop_shorter _ _ E). eapply (IH (length d)); eauto. lia.
  - rewrite (nrparents_none _ E) in Hp. destruct Hp.
Qed.

(* ---------------------------------------------------------------- path.Dir on clean names *)
Lemma lss_noslash s : ~ In sl s -> forall cur acc f, last_slash_split s cur acc f = (f, acc, rev cur ++ s).
Proof.
  induction s as [|c r IH]; intros Hn cur acc f; cbn [last_slash_split].
  - now rewrite app_nil_r.
  - destruct (Ascii.eqb c sl) eqn:E.
    + apply Ascii.eqb_eq in E. subst. exfalso. apply Hn. now left.
    + rewrite IH by (intros H; apply Hn; now right). cbn [rev]. now rewrite <- app_assoc.
Qed.
Lemma lss_app a : forall b cur acc f, ~ In sl b ->
  last_slash_split (a ++ sl :: b) cur acc f = (true, sl :: rev a ++ cur ++ acc, b).
Proof.
  induction a as [|x a IH]; intros b cur acc f Hb; cbn [app last_slash_split].
  - rewrite Ascii.eqb_refl. rewrite lss_noslash by exact Hb. reflexivity.
  - destruct (Ascii.eqb x sl) eqn:E.
    + apply Ascii.eqb_eq in E. subst. rewrite IH by exact Hb. cbn [rev app]. now rewrite <- !app_assoc.
    + rewrite IH by exact Hb. cbn [rev app]. now rewrite <- !app_assoc.
Qed.
Lemma pathsplit_app a b : ~ In sl b -> pathsplit (a ++ sl :: b) = (a ++ [sl], b).
Proof.
  intros Hb. unfold pathsplit. rewrite lss_app by exact Hb. rewrite !app_nil_r. cbn [rev]. now rewrite rev_involutive.
Qed.

Lemma clean_root : clean [sl] = [sl].
Proof. reflexivity. Qed.
Lemma plain_nosep c : plain c -> nosep sl c.
Proof. intros (_ & _ & _ & H). exact H. Qed.
Lemma stepc_empty r st : stepc r st [] = st.
Proof. reflexivity. Qed.
Lemma clean_dir cs : cs <> [] -> Forall plain cs -> clean (sl :: pjoin cs ++ [sl]) = sl :: pjoin cs.
Proof.
  intros Hne HF. unfold clean.
  assert (E : sl :: pjoin cs ++ [sl] = pjoin (([] : bytes) :: cs ++ [[]])).
  { unfold pjoin. destruct cs as [|c cs']; [congruence|].
    change (([] : bytes) :: (c :: cs') ++ [[]]) with (([] : bytes) :: ((c :: cs') ++ [[]])).
    destruct ((c :: cs') ++ [[]]) as [|y l] eqn:Ey; [destruct cs'; discriminate|].
    rewrite join_cons2, <- Ey. rewrite join_snoc by discriminate. reflexivity. }
  cbn [is_rooted]. rewrite Ascii.eqb_refl.
  replace (psplit (sl :: pjoin cs ++ [sl])) with (([] : bytes) :: cs ++ [[]]).
  2:{ rewrite E. unfold psplit, pjoin. symmetry. apply split_join; [discriminate|].
      constructor; [intros []|]. apply Forall_app; split.
      - eapply Forall_impl; [|exact HF]. intros a Ha. now apply plain_nosep.
      - constructor; [intros []|constructor]. }
  cbn [fold_left]. rewrite stepc_empty. rewrite fold_left_app. rewrite (fold_plain true cs HF).
  cbn [fold_left]. rewrite stepc_empty. rewrite app_nil_r, rev_involutive. reflexivity.
Qed.

Lemma pathdir_top c : ~ In sl c -> pathdir (sl :: c) = [sl].
Proof.
  intros Hn. unfold pathdir. change (sl :: c) with ([] ++ sl :: c). rewrite pathsplit_app by exact Hn. reflexivity.
Qed.
Lemma pathdir_deep cs c : cs <> [] -> Forall plain cs -> ~ In sl c ->
  pathdir (sl :: pjoin (cs ++ [c])) = sl :: pjoin cs.
Proof.
  intros Hne HF Hn. unfold pathdir, pjoin. rewrite join_snoc by exact Hne.
  change (sl :: join sl cs ++ sl :: c) with ((sl :: join sl cs) ++ sl :: c).
  rewrite pathsplit_app by exact Hn. cbn [fst]. now apply clean_dir.
Qed.

(* what AddMissingStageDirs relies on: for a clean absolute name path.Dir is "strip the last
   component" *)
Lemma pathdir_chop k : abs_cleanb k = true ->
  match chop k with Some d => pathdir k = d | None => pathdir k = root_path end.
Proof.
  intros H. apply abs_clean_struct in H as (cs & c & HF & ->).
  apply Forall_app in HF as [HF Hc]. inversion Hc as [|? ? Hc' _]; subst.
  apply plain_noslash in Hc'. destruct cs as [|a cs'].
  - cbn [app pjoin join]. rewrite chop_top by exact Hc'. now apply pathdir_top.
  - rewrite chop_deep by (auto; discriminate). apply pathdir_deep; auto. discriminate.
Qed.
Lemma chop_abs_clean k d : abs_cleanb k = true -> chop k = Some d -> abs_cleanb d = true.
Proof.
  intros H. apply abs_clean_struct in H as (cs & c & HF & ->).
  apply Forall_app in HF as [HF Hc]. inversion Hc as [|? ? Hc' _]; subst.
  apply plain_noslash in Hc'. destruct cs as [|a cs'].
  - cbn [app pjoin join]. rewrite chop_top by exact Hc'. discriminate.
  - rewrite chop_deep by (auto; discriminate). intros E. injection E as <-.
    assert (S : psplit (pjoin (a :: cs')) = a :: cs').
    { unfold psplit, pjoin. apply split_join; [discriminate|].
      eapply Forall_impl; [|exact HF]. intros x Hx. now apply plain_nosep. }
    change ((Ascii.eqb sl c_sl && forallb plainb (psplit (pjoin (a :: cs')))) = true). rewrite S. change c_sl with sl. rewrite Ascii.eqb_refl. cbn [andb].
    apply forallb_forall. intros x Hx. apply plainb_spec. rewrite Forall_forall in HF. now apply HF.
Qed.

(* ---------------------------------------------------------------- AddMissingStageDirs *)
Definition anc (d : bytes) : list bytes := d :: nrparents d.

(* old entries stay as they are; what is new is a directory entry for an ancestor *)
Record dirs_added (S : bytes -> Prop) (m m' : emap) : Prop := MkDA {
  da_old : forall k, mem k m = true -> find k m' = find k m;
  da_new : forall k, mem k m = false -> mem k m' = true -> find k m' = Some EDir /\ S k;
  da_nodup : NoDup (keys m) -> NoDup (keys m') }.
Lemma da_refl S m : dirs_added S m m.
Proof. constructor; auto. intros k H1 H2. congruence. Qed.
Lemma da_ext S m m' : dirs_added S m m' -> forall k, mem k m = true -> mem k m' = true.
Proof. intros D k H. unfold mem in *. rewrite (da_old _ _ _ D k H). exact H. Qed.
Lemma da_trans (S1 S2 : bytes -> Prop) m m1 m2 :
  dirs_added S1 m m1 -> dirs_added S2 m1 m2 -> dirs_added (fun k => S1 k \/ S2 k) m m2.
Proof.
  intros D1 D2. constructor.
  - intros k H. rewrite (da_old _ _ _ D2) by (eapply da_ext; eauto). now apply (da_old _ _ _ D1).
  - intros k H1 H2. destruct (mem k m1) eqn:E.
    + rewrite (da_old _ _ _ D2 k E). destruct (da_new _ _ _ D1 k H1 E). tauto.
    + destruct (da_new _ _ _ D2 k E H2). tauto.
  - intros H. apply (da_nodup _ _ _ D2), (da_nodup _ _ _ D1), H.
Qed.
Lemma da_weaken (S S' : bytes -> Prop) m m' : (forall k, S k -> S' k) -> dirs_added S m m' -> dirs_added S' m m'.
Proof. intros HS [o n d]. constructor; auto. intros k H1 H2. destruct (n k H1 H2). auto. Qed.
Lemma da_add_dir d m : dirs_added (eq d) m (if mem d m then m else add d EDir m).
Proof.
  destruct (mem d m) eqn:E; [apply da_refl|]. constructor.
  - intros k H. apply find_add_neq. intros ->. congruence.
  - intros k H1 H2. rewrite mem_add in H2. destruct (feq k d) eqn:Ek; [|congruence].
    apply feq_true in Ek. subst. now rewrite find_add_eq.
  - apply nodup_add.
Qed.

Lemma add_chain_da fuel : forall d m, dirs_added (fun k => In k (anc d)) m (add_chain fuel d m).
Proof.
  induction fuel as [|f IH]; intros d m; cbn [add_chain]; [apply da_refl|].
  pose proof (da_add_dir d m) as D0. set (m0 := if mem d m then m else add d EDir m) in *.
  destruct (chop d) as [d'|] eqn:E.
  - eapply da_weaken; [|eapply da_trans; [exact D0|apply IH]]. cbn. unfold anc.
    rewrite (nrparents_step _ _ E). intros k [<-|Hk]; [now left|now right].
  - eapply da_weaken; [|exact D0]. intros k <-. now left.
Qed.
Lemma add_chain_covers fuel : forall d m, (length d < fuel)%nat -> forall k, In k (anc d) -> mem k (add_chain fuel d m) = true.
Proof.
  induction fuel as [|f IH]; intros d m L k Hk; [lia|]. cbn [add_chain].
  set (m0 := if mem d m then m else add d EDir m).
  assert (Hd : mem d m0 = true).
  { subst m0. destruct (mem d m) eqn:E; [exact E|]. rewrite mem_add. now rewrite feq_refl. }
  destruct (chop d) as [d'|] eqn:E.
  - unfold anc in Hk. rewrite (nrparents_step _ _ E) in Hk. destruct Hk as [<-|Hk].
    + eapply da_ext; [apply add_chain_da|exact Hd].
    + apply IH; [pose proof (chop_shorter _ _ E); lia|exact Hk].
  - unfold anc in Hk. rewrite (nrparents_none _ E) in Hk. destruct Hk as [<-|[]]. exact Hd.
Qed.

Definition missing_dirs (m : emap) (k : bytes) : Prop := exists k0, In k0 (keys m) /\ In k (anc (pathdir k0)).
Lemma add_missing_fold ks : forall m0 m,
  (forall k, In k ks -> In k (keys m0)) ->
  dirs_added (missing_dirs m0) m
    (fold_left (fun m' k => add_chain (S (length k)) (pathdir k) m') ks m).
Proof.
  induction ks as [|k r IH]; intros m0 m Hin; cbn [fold_left]; [apply da_refl|].
  eapply da_weaken; [|eapply da_trans; [apply add_chain_da|apply (IH m0)]].
  - cbn. intros x [Hx|Hx]; [|exact Hx]. exists k. split; [apply Hin; now left|exact Hx].
  - intros x Hx. apply Hin. now right.
Qed.
Lemma add_missing_da m : dirs_added (missing_dirs m) m (add_missing_dirs m).
Proof. unfold add_missing_dirs. apply add_missing_fold. auto. Qed.

Lemma add_missing_fold_ext ks : forall m k, mem k m = true ->
  mem k (fold_left (fun m' k => add_chain (S (length k)) (pathdir k) m') ks m) = true.
Proof.
  induction ks as [|x r IH]; intros m k H; cbn [fold_left]; [exact H|].
  apply IH. eapply da_ext; [apply add_chain_da|exact H].
Qed.
Lemma add_missing_fold_covers ks : forall m k0 k, In k0 ks -> (length (pathdir k0) <= length k0)%nat ->
  In k (anc (pathdir k0)) ->
  mem k (fold_left (fun m' k => add_chain (S (length k)) (pathdir k) m') ks m) = true.
Proof.
  induction ks as [|x r IH]; intros m k0 k Hin L Hk; [destruct Hin|]. cbn [fold_left].
  destruct Hin as [->|Hin].
  - apply add_missing_fold_ext. apply add_chain_covers; [lia|exact Hk].
  - eapply IH; eauto.
Qed.
Lemma add_missing_covers m k0 k : In k0 (keys m) -> (length (pathdir k0) <= length k0)%nat ->
  In k (anc (pathdir k0)) -> mem k (add_missing_dirs m) = true.
Proof. unfold add_missing_dirs. apply add_missing_fold_covers. Qed.

(* names that are clean and absolute, or the root *)
Definition good (k : bytes) : Prop := abs_cleanb k = true \/ k = root_path.
Lemma nrparents_root : nrparents root_path = [].
Proof. reflexivity. Qed.
Lemma good_parents k p : good k -> In p (nrparents k) -> abs_cleanb p = true.
Proof.
  remember (length k) as n eqn:En. revert k En. induction n as [n IH] using lt_wf_ind. intros k En [Hk|Hk] Hin; [|subst k].
  - destruct (chop k) as [d|] eqn:E.
    + rewrite (nrparents_step _ _ E) in Hin. pose proof (chop_abs_clean _ _ Hk E) as Hd.
      destruct Hin as [<-|Hin]; [exact Hd|].
      pose proof (chop_shorter _ _ E). eapply (IH (length d)); eauto; [lia|now left].
    + rewrite (nrparents_none _ E) in Hin. destruct Hin.
  - destruct Hin.
Qed.
Lemma good_pathdir k : good k -> good (pathdir k) /\ (length (pathdir k) <= length k)%nat /\
  forall p, In p (nrparents k) -> In p (anc (pathdir k)).
Proof.
  intros [Hk|Hk]; [|subst k].
  - pose proof (pathdir_chop k Hk) as P. destruct (chop k) as [d|] eqn:E.
    + rewrite P. split; [left; eapply chop_abs_clean; eauto|]. split; [pose proof (chop_shorter _ _ E); lia|].
      intros p Hp. rewrite (nrparents_step _ _ E) in Hp. exact Hp.
    + rewrite P. split; [now right|]. split.
      * destruct k; [discriminate|]. cbn. lia.
      * intros p Hp. rewrite (nrparents_none _ E) in Hp. destruct Hp.
  - split; [now right|]. split; [cbn; lia|]. intros p [].
Qed.

(* after AddMissingStageDirs every (non-root) parent of a member is a member *)
Lemma add_missing_closed m : Forall good (keys m) ->
  forall k p, mem k (add_missing_dirs m) = true -> In p (nrparents k) -> mem p (add_missing_dirs m) = true.
Proof.
  intros HG k p Hk Hp. rewrite Forall_forall in HG.
  destruct (mem k m) eqn:E.
  - apply mem_In in E. destruct (good_pathdir k (HG k E)) as (_ & L & Hanc).
    eapply add_missing_covers; eauto.
  - destruct (da_new _ _ _ (add_missing_da m) k E Hk) as (_ & k0 & Hk0 & Hin).
    destruct (good_pathdir k0 (HG k0 Hk0)) as (Gd & L & _).
    eapply add_missing_covers; eauto. unfold anc in *. destruct Hin as [<-|Hin]; [now right|].
    right. eapply nrparents_trans; eauto.
Qed.
Lemma add_missing_good m : Forall good (keys m) -> Forall good (keys (add_missing_dirs m)).
Proof.
  intros HG. apply Forall_forall. intros k Hk. apply mem_In in Hk. rewrite Forall_forall in HG.
  destruct (mem k m) eqn:E; [apply HG; now apply mem_In|].
  destruct (da_new _ _ _ (add_missing_da m) k E Hk) as (_ & k0 & Hk0 & Hin).
  destruct (good_pathdir k0 (HG k0 Hk0)) as (Gd & _ & _).
  unfold anc in Hin. destruct Hin as [<-|Hin]; [exact Gd|]. left. eapply good_parents; eauto.
Qed.
