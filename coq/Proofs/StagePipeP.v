(* The pipeline of getStageFileList as a whole: invariants of every intermediate member map. *)
From Coq Require Import Sorting.Sorted Sorting.Permutation.
From LC Require Import Lib.Bytes Lib.Lex Lib.Fields Lib.PathM Gen.Consts Model.StageList
  Proofs.StageListP Proofs.StagePathP Proofs.StageFinalP.
Open Scope N_scope.
Open Scope list_scope.

(* ---------------------------------------------------------------- general scripts (with omit lines) *)
Definition keys_from (S : bytes -> Prop) (m m' : emap) : Prop :=
  forall k, mem k m' = true -> mem k m = true \/ S k.
Lemma keys_from_trans (S1 S2 : bytes -> Prop) m m1 m2 :
  keys_from S1 m m1 -> keys_from S2 m1 m2 -> keys_from (fun k => S1 k \/ S2 k) m m2.
Proof. intros H1 H2 k H. apply H2 in H as [H|H]; [|tauto]. apply H1 in H. tauto. Qed.
Lemma keys_from_weaken (S S' : bytes -> Prop) m m' : (forall k, S k -> S' k) -> keys_from S m m' -> keys_from S' m m'.
Proof. intros HS H k Hk. apply H in Hk as [Hk|Hk]; auto. Qed.

Record inv (t : tree) (m : emap) : Prop := MkInv { inv_nodup : NoDup (keys m); inv_ino : ino_ok t m }.
Lemma inv_empty t : inv t [].
Proof. constructor; [constructor|]. intros k g H. cbn in H. discriminate. Qed.
Lemma inv_trans t S m m' : trans t S m m' -> inv t m -> inv t m'.
Proof. intros T [n i]. constructor. - apply (tr_nodup _ _ _ _ T). exact n. - apply (tr_ino _ _ _ _ T). exact i. Qed.

Lemma run_op_inv t o m m' : run_op t o m = Ok m' -> inv t m -> inv t m'.
Proof.
  destruct o as [li|nm w| |]; cbn [run_op]; try discriminate.
  - intros H I. apply add_files_trans in H. eapply inv_trans; eauto.
  - intros H [n i]. constructor; [eapply remove_files_nodup; eauto|eapply remove_files_ino; eauto].
Qed.
Lemma run_op_keys t o m m' : run_op t o m = Ok m' ->
  keys_from (fun k => exists li, o = OAdd li /\ In k (op_targets t li)) m m'.
Proof.
  destruct o as [li|nm w| |]; cbn [run_op]; try discriminate.
  - intros H. apply add_files_trans in H. intros k Hk. apply (tr_bound _ _ _ _ H) in Hk as [Hk|Hk]; eauto.
  - intros H k Hk. left. unfold mem in *. rewrite (remove_files_find _ _ _ _ H) in Hk.
    destruct (omit_hit nm w k); [discriminate|exact Hk].
Qed.
Lemma run_ops_inv t ops : forall m m', run_ops t ops m = Ok m' -> inv t m -> inv t m'.
Proof.
  induction ops as [|o r IH]; intros m m' H I; cbn [run_ops] in H; [injection H as <-; exact I|].
  destruct (run_op t o m) as [m1| |] eqn:E; try discriminate. eapply IH; eauto. eapply run_op_inv; eauto.
Qed.
Lemma run_ops_keys t ops : forall m m', run_ops t ops m = Ok m' -> keys_from (ops_name t ops) m m'.
Proof.
  induction ops as [|o r IH]; intros m m' H; cbn [run_ops] in H.
  - injection H as <-. intros k Hk. now left.
  - destruct (run_op t o m) as [m1| |] eqn:E; try discriminate.
    apply run_op_keys in E. apply IH in H.
    eapply keys_from_weaken; [|eapply keys_from_trans; eauto]. cbn.
    intros k [(li & -> & Hk)|(li & Hin & Hk)]; exists li; (split; [|exact Hk]); [now left|now right].
Qed.

Lemma inv_exclude t u m : inv t m -> inv t (exclude u m).
Proof. intros [n i]. constructor; [now apply nodup_exclude|now apply ino_ok_exclude]. Qed.
Lemma inv_missing t m : inv t m -> inv t (add_missing_dirs m).
Proof.
  intros [n i]. pose proof (add_missing_da m) as D. constructor; [now apply (da_nodup _ _ _ D)|].
  intros k g Hf. destruct (mem k m) eqn:E.
  - rewrite (da_old _ _ _ D k E) in Hf. now apply i.
  - assert (Hm : mem k (add_missing_dirs m) = true) by (unfold mem; now rewrite Hf).
    destruct (da_new _ _ _ D k E Hm) as (Hd & _). congruence.
Qed.

(* ---------------------------------------------------------------- the stages *)
Inductive stages (i : input) (mf : emap) : Prop :=
| Stages (sel all : list bytes) (m1 m2 m3 m4 m5 m7 m9 : emap)
  (E_sel : all_contents (selected (i_pkgs i)) = Ok sel)
  (E1 : add_pkgfiles (i_tree i) sel [] = Ok m1)
  (E_all : all_contents (i_pkgs i) = Ok all)
  (E2 : recover_links (i_tree i) m1 = Ok m2)
  (E3 : (if i_novdb i then Ok m2 else add_vdb (i_tree i) (map p_dir (selected (i_pkgs i))) m2) = Ok m3)
  (E4 : (if i_emptydev i then Ok m3 else static_dev (i_tree i) m3) = Ok m4)
  (E5 : run_ops (i_tree i) magic_ops m4 = Ok m5)
  (E7 : run_ops (i_tree i) stddir_ops (exclude (unstaged all m1) m5) = Ok m7)
  (E9 : run_ops (i_tree i) (user_script i) (add_missing_dirs m7) = Ok m9)
  (Ef : mf = add_missing_dirs m9).

Lemma stage_map_stages i mf : stage_map i = Ok mf -> stages i mf.
Proof.
  unfold stage_map, bind. intros H.
  destruct (all_contents (selected (i_pkgs i))) as [sel| |] eqn:E0; [|discriminate|discriminate].
  destruct (add_pkgfiles (i_tree i) sel []) as [m1| |] eqn:E1; [|discriminate|discriminate].
  destruct (all_contents (i_pkgs i)) as [all| |] eqn:Ea; [|discriminate|discriminate].
  destruct (recover_links (i_tree i) m1) as [m2| |] eqn:E2; [|discriminate|discriminate].
  destruct (if i_novdb i then Ok m2 else add_vdb (i_tree i) (map p_dir (selected (i_pkgs i))) m2) as [m3| |] eqn:E3; [|discriminate|discriminate].
  destruct (if i_emptydev i then Ok m3 else static_dev (i_tree i) m3) as [m4| |] eqn:E4; [|discriminate|discriminate].
  destruct (run_ops (i_tree i) magic_ops m4) as [m5| |] eqn:E5; [|discriminate|discriminate].
  destruct (run_ops (i_tree i) stddir_ops (exclude (unstaged all m1) m5)) as [m7| |] eqn:E7; [|discriminate|discriminate].
  destruct (run_ops (i_tree i) (user_script i) (add_missing_dirs m7)) as [m9| |] eqn:E9; [|discriminate|discriminate].
  injection H as <-. exact (Stages i _ sel all m1 m2 m3 m4 m5 m7 m9 E0 E1 Ea E2 E3 E4 E5 E7 E9 eq_refl).
Qed.

(* ---------------------------------------------------------------- facts about the built-in scripts
   (re-checked whenever Gen/Consts.v changes) *)
Definition devsetup_ops : list op := script_ops (text_lines D_DevDirSetup).
Definition ext_lines : list bytes := text_lines D_DevDirExtend.
Definition op_good (o : op) : bool :=
  match o with OAdd li => li_wild li || abs_cleanb (li_name li) | _ => true end.
Lemma magic_adds : forallb is_add magic_ops = true.       Proof. vm_compute. reflexivity. Qed.
Lemma stddir_adds : forallb is_add stddir_ops = true.     Proof. vm_compute. reflexivity. Qed.
Lemma devsetup_adds : forallb is_add devsetup_ops = true. Proof. vm_compute. reflexivity. Qed.
Lemma magic_good : forallb op_good magic_ops = true.      Proof. vm_compute. reflexivity. Qed.
Lemma stddir_good : forallb op_good stddir_ops = true.    Proof. vm_compute. reflexivity. Qed.
Lemma devsetup_good : forallb op_good devsetup_ops = true. Proof. vm_compute. reflexivity. Qed.
Lemma ext_good : forallb abs_cleanb (ext_names ext_lines) = true. Proof. vm_compute. reflexivity. Qed.
Lemma static_dev_eq t m : static_dev t m = bind (run_ops t devsetup_ops m) (extend_dev t ext_lines).
Proof. unfold static_dev, devsetup_ops, ext_lines. reflexivity. Qed.
#[global] Opaque magic_ops stddir_ops devsetup_ops ext_lines static_dev.

(* ---------------------------------------------------------------- all member names are clean and absolute *)
Record good_input (i : input) : Prop := MkGI {
  gi_tree : Forall good (keys (i_tree i));
  gi_contents : forall ns, all_contents (selected (i_pkgs i)) = Ok ns -> Forall good ns;
  gi_script : forall li, In (OAdd li) (user_script i) -> li_wild li = false -> good (li_name li) }.

Lemma targets_wild_in_tree t li k : In k (targets_wild t li) -> In k (keys t).
Proof.
  unfold targets_wild, glob_rec, glob. destruct (li_type li); intros H; apply filter_In in H; tauto.
Qed.
Lemma op_targets_good t li : Forall good (keys t) -> (li_wild li = false -> good (li_name li)) ->
  forall k, In k (op_targets t li) -> good k.
Proof.
  intros HT Hn k. unfold op_targets. destruct (li_wild li).
  - intros H. apply targets_wild_in_tree in H. rewrite Forall_forall in HT. now apply HT.
  - intros [<-|[]]. now apply Hn.
Qed.
Lemma ops_good_names t ops : Forall good (keys t) -> forallb op_good ops = true -> forall k, ops_name t ops k -> good k.
Proof.
  intros HT Hg k (li & Hin & Hk). rewrite forallb_forall in Hg. specialize (Hg _ Hin). cbn in Hg.
  eapply op_targets_good; eauto. intros Hw. rewrite Hw in Hg. cbn in Hg. now left.
Qed.
Lemma good_step (S : bytes -> Prop) m m' : keys_from S m m' -> Forall good (keys m) -> (forall k, S k -> good k) ->
  Forall good (keys m').
Proof.
  intros K HG HS. apply Forall_forall. intros k Hk. apply mem_In in Hk. apply K in Hk as [Hk|Hk]; auto.
  rewrite Forall_forall in HG. apply HG. now apply mem_In.
Qed.
Lemma trans_keys_from t S m m' : trans t S m m' -> keys_from S m m'.
Proof. intros T. exact (tr_bound _ _ _ _ T). Qed.
Lemma link_candidates_in_tree t k : In k (link_candidates t) -> In k (keys t).
Proof.
  unfold link_candidates, keys. intros H. apply in_map_iff in H as (kv & <- & H). apply filter_In in H as [H _].
  now apply in_map.
Qed.
Lemma exclude_keys_from u m : keys_from (fun _ => False) m (exclude u m).
Proof. intros k H. left. rewrite mem_exclude in H. destruct (memb k u); [discriminate|exact H]. Qed.

Lemma static_dev_trans t m m' : static_dev t m = Ok m' ->
  trans t (fun k => ops_name t devsetup_ops k \/ In k (ext_names ext_lines)) m m'.
Proof.
  rewrite static_dev_eq. unfold bind. destruct (run_ops t devsetup_ops m) as [m1| |] eqn:E; [|discriminate|discriminate].
  intros H. apply (run_ops_add_trans t _ devsetup_adds) in E. apply extend_dev_trans in H.
  eapply trans_trans; eauto.
Qed.

Section Pipeline.
Variable i : input.
Variable mf : emap.
Hypothesis ST : stages i mf.
Let t := i_tree i.

Lemma stages_inv : inv t mf.
Proof.
  destruct ST. subst mf t.
  assert (I1 : inv (i_tree i) m1) by (eapply inv_trans; [eapply add_pkgfiles_trans; eauto|apply inv_empty]).
  assert (I2 : inv (i_tree i) m2) by (eapply inv_trans; [eapply recover_links_trans; eauto|exact I1]).
  assert (I3 : inv (i_tree i) m3).
  { destruct (i_novdb i); [injection E3 as <-; exact I2|]. eapply inv_trans; [eapply add_vdb_trans; eauto|exact I2]. }
  assert (I4 : inv (i_tree i) m4).
  { destruct (i_emptydev i); [injection E4 as <-; exact I3|]. eapply inv_trans; [eapply static_dev_trans; eauto|exact I3]. }
  assert (I5 : inv (i_tree i) m5) by (eapply run_ops_inv; eauto).
  assert (I7 : inv (i_tree i) m7) by (eapply run_ops_inv; [eauto|now apply inv_exclude]).
  assert (I9 : inv (i_tree i) m9) by (eapply run_ops_inv; [eauto|now apply inv_missing]).
  now apply inv_missing.
Qed.

Hypothesis GI : good_input i.

Lemma stages_good9 : forall sel all m1 m2 m3 m4 m5 m7 m9,
  all_contents (selected (i_pkgs i)) = Ok sel -> add_pkgfiles t sel [] = Ok m1 ->
  recover_links t m1 = Ok m2 ->
  (if i_novdb i then Ok m2 else add_vdb t (map p_dir (selected (i_pkgs i))) m2) = Ok m3 ->
  (if i_emptydev i then Ok m3 else static_dev t m3) = Ok m4 ->
  run_ops t magic_ops m4 = Ok m5 ->
  run_ops t stddir_ops (exclude (unstaged all m1) m5) = Ok m7 ->
  run_ops t (user_script i) (add_missing_dirs m7) = Ok m9 ->
  Forall good (keys m7) /\ Forall good (keys m9).
Proof.
  intros sel all m1 m2 m3 m4 m5 m7 m9 E_sel E1 E2 E3 E4 E5 E7 E9.
  pose proof (gi_tree _ GI) as HT. fold t in HT.
  assert (G1 : Forall good (keys m1)).
  { eapply good_step; [eapply trans_keys_from; eapply add_pkgfiles_trans; eauto|constructor|].
    pose proof (gi_contents _ GI _ E_sel) as Hc. rewrite Forall_forall in Hc. exact Hc. }
  assert (G2 : Forall good (keys m2)).
  { eapply good_step; [eapply trans_keys_from; eapply recover_links_trans; eauto|exact G1|].
    intros k Hk. apply link_candidates_in_tree in Hk. rewrite Forall_forall in HT. now apply HT. }
  assert (G3 : Forall good (keys m3)).
  { destruct (i_novdb i); [injection E3 as <-; exact G2|].
    eapply good_step; [eapply trans_keys_from; eapply add_vdb_trans; eauto|exact G2|].
    intros k (d & _ & Hk). change (In k (targets_wild t (li_vdb d))) in Hk. apply targets_wild_in_tree in Hk.
    rewrite Forall_forall in HT. now apply HT. }
  assert (G4 : Forall good (keys m4)).
  { destruct (i_emptydev i); [injection E4 as <-; exact G3|].
    eapply good_step; [eapply trans_keys_from; eapply static_dev_trans; eauto|exact G3|].
    intros k [Hk|Hk]; [exact (ops_good_names _ _ HT devsetup_good k Hk)|].
    left. pose proof ext_good as Hg. rewrite forallb_forall in Hg. now apply Hg. }
  assert (G5 : Forall good (keys m5)).
  { eapply good_step; [apply run_ops_keys; eauto|exact G4|]. intros k Hk. exact (ops_good_names _ _ HT magic_good k Hk). }
  assert (G6 : Forall good (keys (exclude (unstaged all m1) m5))).
  { eapply good_step; [apply exclude_keys_from|exact G5|]. intros k []. }
  assert (G7 : Forall good (keys m7)).
  { eapply good_step; [apply run_ops_keys; eauto|exact G6|]. intros k Hk. exact (ops_good_names _ _ HT stddir_good k Hk). }
  split; [exact G7|].
  eapply good_step; [apply run_ops_keys; eauto|now apply add_missing_good|].
  intros k (li & Hin & Hk). eapply op_targets_good; eauto. intros Hw. eapply gi_script; eauto.
Qed.
Lemma stages_good : Forall good (keys mf) /\ (forall k p, mem k mf = true -> In p (nrparents k) -> mem p mf = true).
Proof.
  destruct ST. subst mf. destruct (stages_good9 _ _ _ _ _ _ _ _ _ E_sel E1 E2 E3 E4 E5 E7 E9) as [_ G9].
  split; [now apply add_missing_good|]. intros k p. now apply add_missing_closed.
Qed.
End Pipeline.

(* ---------------------------------------------------------------- the structural theorems *)
Lemma stage_list_inv i ms : stage_list i = Ok ms -> exists mf, stage_map i = Ok mf /\ ms = finalize mf.
Proof. unfold stage_list. destruct (stage_map i) as [mf| |]; try discriminate. intros H. injection H as <-. eauto. Qed.

(* every member name is a clean absolute path (so "." ++ name is relative under ./) and appears once *)
Theorem names_relative_unique i ms : good_input i -> stage_list i = Ok ms ->
  NoDup (map m_name ms) /\ forall x, In x ms -> good (m_name x).
Proof.
  intros GI H. apply stage_list_inv in H as (mf & Hm & ->). apply stage_map_stages in Hm.
  split.
  - apply finalize_nodup. apply (inv_nodup _ _ (stages_inv i mf Hm)).
  - intros x Hx. apply finalize_mem in Hx. destruct (stages_good i mf Hm GI) as [G _].
    rewrite Forall_forall in G. apply G. now apply mem_In.
Qed.

(* every member is preceded by all of its parent directories *)
Theorem parents_precede i ms : good_input i -> stage_list i = Ok ms ->
  forall n x p, nth_error ms n = Some x -> In p (nrparents (m_name x)) ->
  exists j y, (j < n)%nat /\ nth_error ms j = Some y /\ m_name y = p.
Proof.
  intros GI H. apply stage_list_inv in H as (mf & Hm & ->). apply stage_map_stages in Hm.
  destruct (stages_good i mf Hm GI) as [_ C].
  apply finalize_parents_precede; [apply (inv_nodup _ _ (stages_inv i mf Hm))|exact C].
Qed.

(* every hard-link member refers to an earlier regular-file member of the same inode *)
Theorem hardlink_wellformed i ms : stage_list i = Ok ms ->
  forall a x b, ms = a ++ x :: b -> m_kind x = KLink ->
  exists y g, In y a /\ m_name y = m_link x /\ m_kind y = KReg
              /\ lstat (i_tree i) (m_name x) = Some (NFile (Some g))
              /\ lstat (i_tree i) (m_name y) = Some (NFile (Some g)).
Proof.
  intros H a x b E Hk. apply stage_list_inv in H as (mf & Hm & ->). apply stage_map_stages in Hm.
  destruct (finalize_hardlinks mf a x b E Hk) as (y & g & Hy & Hn & Hkd & F1 & F2).
  pose proof (inv_ino _ _ (stages_inv i mf Hm)) as I.
  exists y, g. repeat split; auto.
Qed.
