From LC Require Import Lib.Bytes Lib.Lex Lib.Fields Lib.PathM Gen.Consts Model.StageLine Model.StageWild.
From Coq Require Import ZifyBool ZifyNat ZifyN.
Open Scope N_scope.
Open Scope list_scope.

(* Proofs about the list level of stagemaker's add-files handling (Model/StageWild.v):
   the glob matcher against its relational specification, the name sets of the list
   operations, lstat on a well-formed tree listing, and what a wildcard line adds to /
   removes from the list. *)

Definition names (l : flist) : list bytes := map l_name l.

(* ------------------------------------------------------------------ gmatch *)
(* the matching relation of a pattern with "*" as only wildcard *)
Inductive gm : list gtok -> bytes -> Prop :=
| gm_nil : gm [] []
| gm_lit : forall c p s, gm p s -> gm (GLit c :: p) (c :: s)
| gm_star : forall p s1 s2, gm p s2 -> gm (GStar :: p) (s1 ++ s2).

Lemma gmatch_star_eq p s :
  gmatch (GStar :: p) s = gmatch p s || match s with _ :: s' => gmatch (GStar :: p) s' | [] => false end.
Proof. destruct s; reflexivity. Qed.

Lemma gmatch_star_spec p s :
  gmatch (GStar :: p) s = true <-> exists s1 s2, s = s1 ++ s2 /\ gmatch p s2 = true.
Proof.
  induction s as [|a s IH]; rewrite gmatch_star_eq.
  - rewrite orb_false_r. split.
    + intros H. exists [], []. auto.
    + intros (s1 & s2 & E & H). symmetry in E. apply app_eq_nil in E as [-> ->]. exact H.
  - rewrite orb_true_iff, IH. split.
    + intros [H|(s1 & s2 & -> & H)].
      * exists [], (a :: s). auto.
      * exists (a :: s1), s2. auto.
    + intros (s1 & s2 & E & H). destruct s1 as [|b s1].
      * cbn [app] in E. subst s2. now left.
      * cbn [app] in E. injection E as -> ->. right. eauto.
Qed.

Theorem gmatch_spec : forall p s, gmatch p s = true <-> gm p s.
Proof.
  induction p as [|[|c] p IH]; intros s.
  - destruct s; cbn [gmatch]; split; intros H; try discriminate; try constructor. inversion H.
  - rewrite gmatch_star_spec. split.
    + intros (s1 & s2 & -> & H). constructor. now apply IH.
    + intros H. inversion H; subst. exists s1, s2. split; auto. now apply IH.
  - destruct s as [|x s]; cbn [gmatch].
    + split; [discriminate|]. intros H; inversion H.
    + rewrite andb_true_iff, Ascii.eqb_eq, IH. split.
      * intros [-> H]. now constructor.
      * intros H. inversion H; subst. auto.
Qed.

(* ------------------------------------------------------------------ the list *)
Theorem fl_del_names : forall l n x, In x (names (fl_del l n)) <-> (In x (names l) /\ x <> n).
Proof.
  intros l n x. induction l as [|e r IH]; cbn [names map fl_del In].
  - tauto.
  - fold (names r). destruct (beq (l_name e) n) eqn:E.
    + apply beq_true in E. rewrite IH. intuition congruence.
    + apply beq_false in E. cbn [names map In]. fold (names (fl_del r n)). rewrite IH. intuition congruence.
Qed.

Theorem fl_set_names : forall l e x, In x (names (fl_set l e)) <-> (x = l_name e \/ In x (names l)).
Proof.
  intros l e x. unfold fl_set. cbn [names map In]. fold (names (fl_del l (l_name e))).
  rewrite fl_del_names. destruct (beq x (l_name e)) eqn:E.
  - apply beq_true in E. intuition congruence.
  - apply beq_false in E. intuition congruence.
Qed.

(* ------------------------------------------------------------------ tfind *)
Lemma tfind_some t p e : tfind t p = Some e -> In e t /\ te_path e = p.
Proof.
  induction t as [|a r IH]; cbn [tfind]; [discriminate|].
  destruct (beq (te_path a) p) eqn:E.
  - intros H. injection H as <-. split; [now left|now apply beq_true].
  - intros H. apply IH in H as [H1 H2]. split; [now right|exact H2].
Qed.

Lemma path_count_in t e : In e t -> (1 <= path_count t (te_path e))%nat.
Proof.
  induction t as [|a r IH]; intros H; [destruct H|]. cbn [path_count]. destruct H as [->|H].
  - rewrite beq_refl. lia.
  - specialize (IH H). lia.
Qed.

Lemma tfind_unique t e : In e t -> path_count t (te_path e) = 1%nat -> tfind t (te_path e) = Some e.
Proof.
  induction t as [|a r IH]; intros Hin Hc; [destruct Hin|]. cbn [tfind path_count] in *.
  destruct (beq (te_path a) (te_path e)) eqn:E.
  - destruct Hin as [->|Hin]; [reflexivity|]. apply path_count_in in Hin. lia.
  - destruct Hin as [->|Hin]; [rewrite beq_refl in E; discriminate|]. apply IH; auto.
Qed.

(* ------------------------------------------------------------------ paths as component lists *)
Lemma split_acc_nosep sep s : forall cur, nosep sep cur -> Forall (nosep sep) (split_acc sep cur s).
Proof.
  induction s as [|c r IH]; intros cur Hc; cbn [split_acc].
  - constructor; [|constructor]. intros H. rewrite <- in_rev in H. auto.
  - destruct (Ascii.eqb c sep) eqn:E.
    + constructor.
      * intros H. rewrite <- in_rev in H. auto.
      * apply IH. intros [].
    + apply IH. intros [H|H]; [subst; rewrite Ascii.eqb_refl in E; discriminate|auto].
Qed.

(* "/c1/c2/.../cn" *)
Definition pth (cs : list bytes) : bytes := flat_map (fun c => sl :: c) cs.

Lemma pth_app a b : pth (a ++ b) = pth a ++ pth b.
Proof. apply flat_map_app. Qed.
Lemma pth_cons c r : pth (c :: r) = sl :: c ++ pth r.
Proof. reflexivity. Qed.
Lemma pth_snoc cs b : pth (cs ++ [b]) = pth cs ++ sl :: b.
Proof. rewrite pth_app. rewrite (pth_cons b []). cbn [pth flat_map]. now rewrite app_nil_r. Qed.

Lemma join_pth cs : cs <> [] -> sl :: join sl cs = pth cs.
Proof.
  induction cs as [|c r IH]; intros H; [congruence|]. destruct r as [|c2 r'].
  - rewrite pth_cons. cbn. now rewrite app_nil_r.
  - change (join sl (c :: c2 :: r')) with (c ++ sl :: join sl (c2 :: r')).
    rewrite pth_cons, <- IH by discriminate. reflexivity.
Qed.

Lemma plain_noslash cs : Forall plain cs -> Forall noslash cs.
Proof. intros H. eapply Forall_impl; [|exact H]. intros a (_ & _ & _ & Hn). exact Hn. Qed.

Lemma psplit_pth cs : cs <> [] -> Forall noslash cs -> psplit (pth cs) = [] :: cs.
Proof.
  intros Hne HF. rewrite <- join_pth by assumption. destruct cs as [|c r]; [congruence|].
  change (sl :: join sl (c :: r)) with (join sl ([] :: c :: r)).
  unfold psplit. apply split_join; [discriminate|]. constructor; [intros []|exact HF].
Qed.

Lemma filter_plain cs : Forall plain cs -> filter (fun c => negb (beq c [])) cs = cs.
Proof.
  induction 1 as [|c cs (H1 & _) _ IH]; cbn [filter]; [reflexivity|].
  apply beq_false in H1. rewrite H1. cbn [negb]. now rewrite IH.
Qed.

Lemma comps_of_pth cs : cs <> [] -> Forall plain cs -> comps_of (pth cs) = cs.
Proof.
  intros Hne HP. unfold comps_of. rewrite psplit_pth by auto using plain_noslash.
  cbn [filter beq negb]. now apply filter_plain.
Qed.

Lemma clean_rooted s :
  clean (sl :: s) = sl :: pjoin (rev (fold_left (stepc true) (psplit (sl :: s)) [])).
Proof. unfold clean, assemble, is_rooted. rewrite Ascii.eqb_refl. reflexivity. Qed.

Lemma clean_abs_shape p : clean p = p -> is_abs p = true -> p <> [sl] ->
  exists cs, cs <> [] /\ Forall plain cs /\ p = pth cs.
Proof.
  intros Hc Ha Hne. destruct p as [|c s]; [discriminate|].
  cbn [is_abs is_rooted] in Ha. apply Ascii.eqb_eq in Ha. subst c.
  rewrite clean_rooted in Hc.
  remember (rev (fold_left (stepc true) (psplit (sl :: s)) [])) as cs eqn:Ecs.
  assert (N : nf true cs).
  { subst cs. apply nf_fold.
    - apply split_acc_nosep. intros [].
    - exists 0%nat, []. cbn. auto. }
  destruct N as (k & ps & E & HP & Hk). rewrite (Hk eq_refl) in E. cbn [repeat app] in E. subst ps.
  exists cs. split; [|split; [exact HP|]].
  - intros ->. apply Hne. rewrite <- Hc. reflexivity.
  - rewrite <- Hc at 1. unfold pjoin. now apply join_pth; intros ->; apply Hne; rewrite <- Hc.
Qed.

(* ------------------------------------------------------------------ pathsplit / pathdir *)
Lemma lss_noslash b : nosep sl b -> forall cur acc f,
  last_slash_split b cur acc f = (f, acc, rev cur ++ b).
Proof.
  induction b as [|c r IH]; intros Hn cur acc f; cbn [last_slash_split].
  - now rewrite app_nil_r.
  - destruct (Ascii.eqb c sl) eqn:E.
    + apply Ascii.eqb_eq in E. subst. exfalso. apply Hn. now left.
    + rewrite IH by (intro; apply Hn; now right). cbn [rev]. now rewrite <- app_assoc.
Qed.

Lemma lss_app b a : forall cur acc f, exists acc',
  last_slash_split (a ++ sl :: b) cur acc f = last_slash_split b [] acc' true
  /\ rev acc' = rev acc ++ rev cur ++ a ++ [sl].
Proof.
  induction a as [|c a IH]; intros cur acc f.
  - cbn [app last_slash_split]. rewrite Ascii.eqb_refl. eexists; split; [reflexivity|].
    cbn [rev]. rewrite rev_app_distr. now rewrite <- app_assoc.
  - cbn [app last_slash_split]. destruct (Ascii.eqb c sl) eqn:E.
    + destruct (IH [] (c :: cur ++ acc) true) as (acc' & E1 & E2). exists acc'. split; [exact E1|].
      rewrite E2. cbn [rev app]. rewrite rev_app_distr. rewrite <- !app_assoc. reflexivity.
    + destruct (IH (c :: cur) acc f) as (acc' & E1 & E2). exists acc'. split; [exact E1|].
      rewrite E2. cbn [rev app]. rewrite <- !app_assoc. reflexivity.
Qed.

Lemma pathsplit_snoc a b : nosep sl b -> pathsplit (a ++ sl :: b) = (a ++ [sl], b).
Proof.
  intros Hn. unfold pathsplit. destruct (lss_app b a [] [] false) as (acc' & E1 & E2).
  rewrite E1, lss_noslash by assumption. rewrite E2. reflexivity.
Qed.

Lemma clean_pth_slash cs : cs <> [] -> Forall plain cs -> clean (pth cs ++ [sl]) = pth cs.
Proof.
  intros Hne HP.
  assert (E : pth cs ++ [sl] = pth (cs ++ [[]])) by now rewrite pth_snoc.
  rewrite E. assert (Hne2 : cs ++ [[]] <> []) by (destruct cs; discriminate).
  rewrite <- (join_pth (cs ++ [[]])) by assumption. rewrite clean_rooted.
  rewrite (join_pth (cs ++ [[]])) by assumption.
  rewrite psplit_pth; [|assumption|].
  2:{ apply Forall_app; split; [now apply plain_noslash|]. constructor; [intros []|constructor]. }
  cbn [fold_left]. change (stepc true [] []) with (@nil bytes).
  rewrite fold_left_app, (fold_plain true cs HP). cbn [fold_left].
  change (stepc true (rev cs ++ []) []) with (rev cs ++ []).
  rewrite app_nil_r, rev_involutive. unfold pjoin. now apply join_pth.
Qed.

Lemma pathdir_pth_snoc cs b : cs <> [] -> Forall plain cs -> plain b ->
  pathdir (pth (cs ++ [b])) = pth cs.
Proof.
  intros Hne HP (_ & _ & _ & Hb). unfold pathdir. rewrite pth_snoc, pathsplit_snoc by exact Hb.
  cbn [fst]. now apply clean_pth_slash.
Qed.

Lemma pathdir_pth_one b : plain b -> pathdir (pth [b]) = [sl].
Proof.
  intros (_ & _ & _ & Hb). unfold pathdir. change (pth [b]) with ([] ++ sl :: b ++ []).
  rewrite app_nil_r, pathsplit_snoc by exact Hb. reflexivity.
Qed.

Lemma pth_not_root cs : cs <> [] -> Forall plain cs -> pth cs <> [sl].
Proof.
  intros Hne HP. destruct cs as [|c r]; [congruence|]. inversion HP as [|? ? (Hc & _) _]; subst.
  destruct c as [|x c]; [congruence|]. rewrite pth_cons. discriminate.
Qed.

(* ------------------------------------------------------------------ walk *)
Lemma walk_one t cur c :
  walk t cur [c] = match tfind t (cur ++ sl :: c) with Some e => LFound e | None => LAbsent end.
Proof. reflexivity. Qed.
Lemma walk_cons t cur c c2 r :
  walk t cur (c :: c2 :: r) =
  match tfind t (cur ++ sl :: c) with
  | None => LAbsent
  | Some e => if te_kind e =? 1 then walk t (cur ++ sl :: c) (c2 :: r)
              else if te_kind e =? 2 then LNotDir else LOod
  end.
Proof. reflexivity. Qed.

Lemma walk_snoc t b : forall cs cur d, cs <> [] -> walk t cur cs = LFound d -> te_kind d = 1 ->
  walk t cur (cs ++ [b]) =
  match tfind t (cur ++ pth cs ++ sl :: b) with Some e => LFound e | None => LAbsent end.
Proof.
  induction cs as [|c r IH]; intros cur d Hne Hw Hk; [congruence|].
  destruct r as [|c2 r'].
  - rewrite walk_one in Hw. cbn [app]. rewrite walk_cons.
    destruct (tfind t (cur ++ sl :: c)) as [e|]; [|discriminate]. injection Hw as ->.
    rewrite Hk, N.eqb_refl, walk_one.
    replace (cur ++ pth [c] ++ sl :: b) with ((cur ++ sl :: c) ++ sl :: b); [reflexivity|].
    rewrite pth_cons. cbn [pth flat_map]. rewrite app_nil_r, <- app_assoc. reflexivity.
  - change ((c :: c2 :: r') ++ [b]) with (c :: c2 :: (r' ++ [b])).
    rewrite walk_cons in Hw |- *.
    destruct (tfind t (cur ++ sl :: c)) as [e|]; [|discriminate].
    destruct (te_kind e =? 1); [|destruct (te_kind e =? 2); discriminate].
    change (c2 :: r' ++ [b]) with ((c2 :: r') ++ [b]).
    rewrite (IH (cur ++ sl :: c) d) by (auto; discriminate).
    replace ((cur ++ sl :: c) ++ pth (c2 :: r') ++ sl :: b) with (cur ++ pth (c :: c2 :: r') ++ sl :: b);
      [reflexivity|].
    rewrite (pth_cons c). change (sl :: c ++ pth (c2 :: r')) with ((sl :: c) ++ pth (c2 :: r')). rewrite <- !app_assoc. reflexivity.
Qed.

Lemma tentry_ok_parts t e : tentry_ok t e = true ->
  clean (te_path e) = te_path e /\ is_abs (te_path e) = true /\ te_path e <> [sl]
  /\ has_dotdot (te_path e) = false /\ path_count t (te_path e) = 1%nat
  /\ (pathdir (te_path e) = [sl]
      \/ exists pe, tfind t (pathdir (te_path e)) = Some pe /\ te_kind pe = 1).
Proof.
  unfold tentry_ok. change c_slash with sl. rewrite !andb_true_iff, !negb_true_iff.
  intros ((((((H1 & H2) & H3) & H4) & H5) & _) & H7).
  apply beq_true in H1. apply beq_false in H3. apply Nat.eqb_eq in H5.
  repeat split; auto.
  apply orb_true_iff in H7 as [H7|H7]; [left; now apply beq_true|right].
  destruct (tfind t (pathdir (te_path e))) as [pe|]; [|discriminate].
  exists pe. split; [reflexivity|]. now apply N.eqb_eq.
Qed.

Lemma walk_found t : tree_ok t = true -> forall n cs e, (length cs <= n)%nat -> cs <> [] ->
  Forall plain cs -> In e t -> te_path e = pth cs -> walk t [] cs = LFound e.
Proof.
  intros Hok. induction n as [|n IH]; intros cs e Hlen Hne HP Hin Hp.
  - destruct cs; [congruence|cbn [length] in Hlen; lia].
  - destruct (exists_last Hne) as (cs' & b & ->).
    apply Forall_app in HP as [HP' Hb]. inversion Hb as [|? ? Hb' _]; subst.
    assert (Hte : tentry_ok t e = true) by (unfold tree_ok in Hok; rewrite forallb_forall in Hok; auto).
    apply tentry_ok_parts in Hte as (_ & _ & _ & _ & Hcnt & Hpar).
    destruct cs' as [|c0 r0].
    + cbn [app] in *. rewrite walk_one. cbn [app].
      replace (sl :: b) with (te_path e); [now rewrite tfind_unique|].
      rewrite Hp, pth_cons. cbn [pth flat_map]. now rewrite app_nil_r.
    + set (cs' := c0 :: r0) in *. assert (Hne' : cs' <> []) by discriminate.
      rewrite Hp, pathdir_pth_snoc in Hpar by assumption.
      destruct Hpar as [Hpar|(pe & Hf & Hk)]; [exfalso; revert Hpar; now apply pth_not_root|].
      apply tfind_some in Hf as Hf'. destruct Hf' as [Hpin Hpp].
      assert (Hw : walk t [] cs' = LFound pe).
      { apply IH; auto. rewrite app_length in Hlen. cbn [length] in Hlen. lia. }
      rewrite (walk_snoc t b cs' [] pe Hne' Hw Hk). cbn [app].
      rewrite <- pth_snoc, <- Hp. now rewrite tfind_unique.
Qed.

(* in a well-formed tree listing every listed path is found, as itself *)
Theorem lstat_found : forall t e, tree_ok t = true -> In e t -> lstat t (te_path e) = LFound e.
Proof.
  intros t e Hok Hin.
  assert (Hte : tentry_ok t e = true) by (unfold tree_ok in Hok; rewrite forallb_forall in Hok; auto).
  apply tentry_ok_parts in Hte as (Hc & Ha & Hne & Hdd & _ & _).
  destruct (clean_abs_shape _ Hc Ha Hne) as (cs & Hcs & HP & Hp).
  unfold lstat. rewrite Hdd, Hc. rewrite Hp at 1. rewrite comps_of_pth by assumption.
  destruct cs as [|c r]; [congruence|]. eapply walk_found; eauto.
Qed.

(* ------------------------------------------------------------------ glob / expand *)
Lemma children_in t dir c : In c (children t dir) -> In c t.
Proof. unfold children. intros H. apply filter_In in H. tauto. Qed.

(* what a glob returns: exactly the children of the (literal) directory whose base name matches *)
Theorem glob_members : forall t name ms, glob t name = GOk ms ->
  forall m, In m ms -> exists e, In e t /\ te_path e = m.
Proof.
  intros t name ms H m Hm. unfold glob in H.
  destruct (has_dotdot name); [discriminate|].
  destruct (pathsplit (clean name)) as [dpart fpart].
  destruct (gtokens dpart) as [| |dp]; destruct (gtokens fpart) as [| |fp]; try discriminate.
  destruct (glit dp) as [dlit|]; [|discriminate].
  destruct (lstat t (clean dlit)) as [| |e|]; try discriminate;
    try (injection H as <-; destruct Hm).
  destruct (te_kind e =? 1).
  - injection H as <-. rewrite sort_in in Hm. apply in_map_iff in Hm as (c & Hc & Hin).
    apply filter_In in Hin as [Hin _]. apply children_in in Hin. eauto.
  - destruct (te_kind e =? 3); [discriminate|]. injection H as <-. destruct Hm.
Qed.

Theorem expand_members : forall t ms, (forall m, In m ms -> exists e, In e t /\ te_path e = m) ->
  forall m, In m (expand t ms) -> exists e, In e t /\ te_path e = m.
Proof.
  intros t ms Hms m Hm. unfold expand in Hm. apply in_flat_map in Hm as (m0 & Hm0 & Hm).
  destruct Hm as [<-|Hm]; [now apply Hms|].
  destruct (tfind t m0) as [e0|]; [|destruct Hm].
  destruct (te_kind e0 =? 1); [|destruct Hm].
  apply in_map_iff in Hm as (c & Hc & Hin). apply filter_In in Hin as [Hin _]. eauto.
Qed.

(* ------------------------------------------------------------------ omit *)
Lemma fold_del_names ms : forall l x,
  In x (names (fold_left fl_del ms l)) <-> (In x (names l) /\ ~ In x ms).
Proof.
  induction ms as [|a ms IH]; intros l x; cbn [fold_left In].
  - tauto.
  - rewrite IH, fl_del_names. intuition congruence.
Qed.

(* omit with a wildcard removes exactly the matches from the list *)
(* path.Match's relation: a star stands for any run of bytes without a slash *)
Inductive gmp : list gtok -> bytes -> Prop :=
| gmp_nil : gmp [] []
| gmp_lit : forall c p s, gmp p s -> gmp (GLit c :: p) (c :: s)
| gmp_star : forall p s1 s2, forallb (fun x => negb (Ascii.eqb x c_slash)) s1 = true -> gmp p s2 ->
             gmp (GStar :: p) (s1 ++ s2).

Lemma pmatch_star_eq p' s :
  pmatch (GStar :: p') s =
  (pmatch p' s || match s with x :: s' => negb (Ascii.eqb x c_slash) && pmatch (GStar :: p') s' | [] => false end).
Proof. destruct s; reflexivity. Qed.

Lemma pmatch_star_spec p' : forall s,
  pmatch (GStar :: p') s = true <->
  exists s1 s2, s = s1 ++ s2 /\ forallb (fun x => negb (Ascii.eqb x c_slash)) s1 = true /\ pmatch p' s2 = true.
Proof.
  induction s as [|x s IH]; rewrite pmatch_star_eq.
  - rewrite orb_false_r. split.
    + intros H. exists [], []. auto.
    + intros (s1 & s2 & E & _ & H). symmetry in E. apply app_eq_nil in E as [-> ->]. exact H.
  - split.
    + intros H. apply orb_true_iff in H as [H|H].
      * exists [], (x :: s). auto.
      * apply andb_true_iff in H as [Hx H]. apply IH in H as (s1 & s2 & -> & H1 & H2).
        exists (x :: s1), s2. cbn [forallb app]. rewrite Hx, H1. auto.
    + intros (s1 & s2 & E & H1 & H2). destruct s1 as [|y s1].
      * cbn in E. subst s2. rewrite H2. reflexivity.
      * cbn [app] in E. injection E as <- ->. cbn [forallb] in H1. apply andb_true_iff in H1 as [Hy H1].
        rewrite Hy. cbn [andb]. apply orb_true_iff. right. apply IH. exists s1, s2. auto.
Qed.

Theorem pmatch_spec : forall p s, pmatch p s = true <-> gmp p s.
Proof.
  induction p as [|g p IH]; intros s.
  - destruct s; cbn [pmatch]; split; intros H.
    + constructor.
    + reflexivity.
    + discriminate.
    + inversion H.
  - destruct g as [|c].
    + rewrite pmatch_star_spec. split.
      * intros (s1 & s2 & -> & H1 & H2). constructor; [exact H1|now apply IH].
      * intros H. inversion H as [| |p0 s1 s2 H1 H2]; subst. exists s1, s2. repeat split; auto. now apply IH.
    + destruct s as [|x s]; cbn [pmatch].
      * split; [discriminate|intros H; inversion H].
      * split.
        -- intros H. apply andb_true_iff in H as [Hc H]. apply Ascii.eqb_eq in Hc. subst x. constructor. now apply IH.
        -- intros H. inversion H; subst. rewrite Ascii.eqb_refl. cbn. now apply IH.
Qed.

(* omit with a wildcard removes exactly the members whose name matches the pattern as written *)
Theorem wildcard_omit : forall t l e p, e_wild e = true -> gtokens (e_name e) = GPat p ->
  exists l', remove_files t l e = AOk l' /\
             forall x, In x (names l') <-> (In x (names l) /\ pmatch p x = false).
Proof.
  intros t l e p Hw Hg. unfold remove_files. rewrite Hw, Hg.
  eexists; split; [reflexivity|]. intros x. unfold names. rewrite !in_map_iff. split.
  - intros (y & <- & Hy). apply filter_In in Hy as [Hy Hm]. apply negb_true_iff in Hm.
    split; [exists y; auto|exact Hm].
  - intros ((y & <- & Hy) & Hm). exists y. split; [reflexivity|]. apply filter_In. split; [exact Hy|].
    now rewrite Hm.
Qed.

(* ------------------------------------------------------------------ add *)
Lemma add_single_found t l e te : lstat t (e_name e) = LFound te -> e_ltype e = V_FileType_none ->
  exists ty tg, add_single t l e = AOk (fl_set l (MkL (e_name e) ty tg)).
Proof.
  intros Hl Ht. unfold add_single. rewrite Hl, Ht, N.eqb_refl. eexists; eexists; reflexivity.
Qed.

Lemma add_each_ok t e : (forall e0, In e0 t -> lstat t (te_path e0) = LFound e0) ->
  forall ns, (forall n, In n ns -> exists e0, In e0 t /\ te_path e0 = n) ->
  forall l, exists l', add_each t l e ns = AOk l' /\
                       forall x, In x (names l') <-> (In x (names l) \/ In x ns).
Proof.
  intros Hls. induction ns as [|n r IH]; intros Hns l.
  - exists l. split; [reflexivity|]. intros x. cbn [In]. tauto.
  - cbn [add_each].
    destruct (Hns n (or_introl eq_refl)) as (e0 & Hin & Hp).
    set (e1 := set_ltype (set_name e n (e_wild e)) V_FileType_none).
    assert (Hl : lstat t (e_name e1) = LFound e0) by (cbn [e1 e_name set_ltype set_name]; rewrite <- Hp; auto).
    destruct (add_single_found t l e1 e0 Hl eq_refl) as (ty & tg & ->).
    change (e_name e1) with n.
    destruct (IH (fun n' Hn' => Hns n' (or_intror Hn')) (fl_set l (MkL n ty tg))) as (l' & -> & Hl').
    exists l'. split; [reflexivity|]. intros x. rewrite Hl', fl_set_names. cbn [l_name In].
    intuition congruence.
Qed.

(* an adding type with a wildcard adds exactly the matches (for type dir: with everything below them) *)
Theorem wildcard_add : forall t l e ms, tree_ok t = true -> e_wild e = true -> e_source e = [] ->
  glob t (e_name e) = GOk ms ->
  let ms' := if e_ltype e =? V_FileType_dir then expand t ms else ms in
  ms' <> [] ->
  exists l', add_files t l e = AOk l' /\
             forall x, In x (names l') <-> (In x (names l) \/ In x ms').
Proof.
  intros t l e ms Hok Hw Hs Hg ms' Hne.
  assert (Hms : forall m, In m ms' -> exists e0, In e0 t /\ te_path e0 = m).
  { subst ms'. destruct (e_ltype e =? V_FileType_dir).
    - apply expand_members. eapply glob_members; eauto.
    - eapply glob_members; eauto. }
  unfold add_files. rewrite Hs, Hw, Hg. fold ms'.
  destruct ms' as [|m0 r0] eqn:E; [congruence|]. rewrite <- E in *.
  apply add_each_ok; [|exact Hms]. intros e0 Hin. now apply lstat_found.
Qed.

(* ------------------------------------------------------------------ round 6: a wildcard src= below the build root *)
Lemma add_each_src_ok t e chop : (forall e0, In e0 t -> lstat t (te_path e0) = LFound e0) ->
  forall ms, (forall m, In m ms -> exists e0, In e0 t /\ te_path e0 = m) ->
  forall l, exists l', add_each_src t l e chop ms = AOk l' /\
    forall x, In x (names l') <->
              (In x (names l) \/ In x (map (fun m => clean (e_name e ++ c_slash :: skipn chop m)) ms)).
Proof.
  intros Hls. induction ms as [|m r IH]; intros Hms l.
  - exists l. split; [reflexivity|]. intros x. cbn [map In]. tauto.
  - cbn [add_each_src].
    destruct (Hms m (or_introl eq_refl)) as (e0 & Hin & Hp).
    assert (Hl : lstat t m = LFound e0) by (rewrite <- Hp; auto).
    unfold add_from_source. rewrite Hl.
    match goal with |- context [fl_set l ?le] => set (le0 := le) end.
    destruct (IH (fun m' Hm' => Hms m' (or_intror Hm')) (fl_set l le0)) as (l' & -> & Hl').
    exists l'. split; [reflexivity|]. intros x. rewrite Hl', fl_set_names. cbn [le0 l_name map In].
    intuition congruence.
Qed.

(* `dir|file|node <name> src=$$stageroot/<dir>/<pattern>`: exactly the matches of the pattern in the
   source directory (for type dir: with everything below them) become members, each under <name> at its
   path RELATIVE to the source directory; nothing else changes *)
Theorem wildcard_src : forall t l e tail ms, tree_ok t = true ->
  stageroot_tail (e_source e) = Some tail ->
  existsb (fun c => Ascii.eqb c c_bsl) (fst (pathsplit (clean tail))) = false ->
  glob t tail = GOk ms ->
  let ms' := if e_ltype e =? V_FileType_dir then expand t ms else ms in
  let d := clean (fst (pathsplit (clean tail))) in
  let chop := if beq d [c_slash] then O else length d in
  ms' <> [] ->
  exists l', add_src_wild t l e = AOk l' /\
    forall x, In x (names l') <->
              (In x (names l) \/ exists m, In m ms' /\ x = clean (e_name e ++ c_slash :: skipn chop m)).
Proof.
  intros t l e tail ms Hok Hs Hb Hg ms' d chop Hne.
  assert (Hms : forall m, In m ms' -> exists e0, In e0 t /\ te_path e0 = m).
  { subst ms'. destruct (e_ltype e =? V_FileType_dir).
    - apply expand_members. eapply glob_members; eauto.
    - eapply glob_members; eauto. }
  unfold add_src_wild. rewrite Hs. cbv zeta. rewrite Hb, Hg. fold ms'. fold d. fold chop.
  destruct ms' as [|m0 r0] eqn:E; [congruence|]. rewrite <- E in *.
  destruct (add_each_src_ok t e chop (fun e0 Hin => lstat_found t e0 Hok Hin) ms' Hms l) as (l' & Hl' & Hn).
  exists l'. split; [exact Hl'|]. intros x. rewrite Hn, in_map_iff.
  split; (intros [H|(m & H1 & H2)]; [now left|right; exists m; split; auto]).
Qed.

Print Assumptions gmatch_spec.
Print Assumptions fl_del_names.
Print Assumptions fl_set_names.
Print Assumptions lstat_found.
Print Assumptions glob_members.
Print Assumptions expand_members.
Print Assumptions pmatch_spec.
Print Assumptions wildcard_omit.
Print Assumptions wildcard_add.
Print Assumptions wildcard_src.
