(* Proofs about the list level of stagemaker's add-files handling (Model/StageWild.v):
   the glob matcher against its relational specification, the name sets of the list
   operations, lstat on a well-formed tree listing, and what a wildcard line adds to /
   removes from the list. *)
From LC Require Import Lib.Bytes Lib.Lex Lib.Fields Lib.PathM Gen.Consts Model.StageLine Model.StageWild.
From Coq Require Import ZifyBool ZifyNat ZifyN.
Open Scope N_scope.
Open Scope list_scope.

Definition names (l : flist) : list bytes := map l_name l.

(* ------------------------------------------------------------------ gmatch *)
(* the matching relation of a pattern with "*" as only wildcard *)
Inductive gm : list gtok -> bytes -> Prop :=
| gm_nil : gm [] []
| gm_lit : forall c p s, gm p s -> gm (GLit c :: p) (c :: s)
| gm_star : forall p s1 s2, gm p s2 -> gm (GStar :: p) (s1 ++ s2).

Lemma gmatch_star_eq p s :
  gmatch (GStar :: p) s = gmatch p s || match s with _ :: s' => gmatch (GStar :: p) s' | [] => false end.
Proof. destruct s; reflexivity. Qed.

Lemma gmatch_star_spec p s :
  gmatch (GStar :: p) s = true <-> exists s1 s2, s = s1 ++ s2 /\ gmatch p s2 = true.
Proof.
  induction s as [|a s IH]; rewrite gmatch_star_eq.
  - rewrite orb_false_r. split.
    + intros H. exists [], []. auto.
    + intros (s1 & s2 & E & H). symmetry in E. apply app_eq_nil in E as [-> ->]. exact H.
  - rewrite orb_true_iff, IH. split.
    + intros [H|(s1 & s2 & -> & H)].
      * exists [], (a :: s). auto.
      * exists (a :: s1), s2. auto.
    + intros (s1 & s2 & E & H). destruct s1 as [|b s1].
      * cbn [app] in E. subst s2. now left.
      * cbn [app] in E. injection E as -> ->. right. eauto.
Qed.

Theorem gmatch_spec : forall p s, gmatch p s = true <-> gm p s.
Proof.
  induction p as [|[|c] p IH]; intros s.
  - destruct s; cbn [gmatch]; split; intros H; try discriminate; try constructor. inversion H.
  - rewrite gmatch_star_spec. split.
    + intros (s1 & s2 & -> & H). constructor. now apply IH.
    + intros H. inversion H; subst. exists s1, s2. split; auto. now apply IH.
  - destruct s as [|x s]; cbn [gmatch].
    + split; [discriminate|]. intros H; inversion H.
    + rewrite andb_true_iff, Ascii.eqb_eq, IH. split.
      * intros [-> H]. now constructor.
      * intros H. inversion H; subst. auto.
Qed.

(* ------------------------------------------------------------------ the list *)
Theorem fl_del_names : forall l n x, In x (names (fl_del l n)) <-> (In x (names l) /\ x <> n).
Proof.
  intros l n x. induction l as [|e r IH]; cbn [names map fl_del In].
  - tauto.
  - fold (names r). destruct (beq (l_name e) n) eqn:E.
    + apply beq_true in E. rewrite IH. intuition congruence.
    + apply beq_false in E. cbn [names map In]. fold (names (fl_del r n)). rewrite IH. intuition congruence.
Qed.

Theorem fl_set_names : forall l e x, In x (names (fl_set l e)) <-> (x = l_name e \/ In x (names l)).
Proof.
  intros l e x. unfold fl_set. cbn [names map In]. fold (names (fl_del l (l_name e))).
  rewrite fl_del_names. destruct (beq x (l_name e)) eqn:E.
  - apply beq_true in E. intuition congruence.
  - apply beq_false in E. intuition congruence.
Qed.

(* ------------------------------------------------------------------ tfind *)
Lemma tfind_some t p e : tfind t p = Some e -> In e t /\ te_path e = p.
Proof.
  induction t as [|a r IH]; cbn [tfind]; [discriminate|].
  destruct (beq (te_path a) p) eqn:E.
  - intros H. injection H as <-. split; [now left|now apply beq_true].
  - intros H. apply IH in H as [H1 H2]. split; [now right|exact H2].
Qed.

Lemma path_count_in t e : In e t -> (1 <= path_count t (te_path e))%nat.
Proof.
  induction t as [|a r IH]; intros H; [destruct H|]. cbn [path_count]. destruct H as [->|H].
  - rewrite beq_refl. lia.
  - specialize (IH H). lia.
Qed.

Lemma tfind_unique t e : In e t -> path_count t (te_path e) = 1%nat -> tfind t (te_path e) = Some e.
Proof.
  induction t as [|a r IH]; intros Hin Hc; [destruct Hin|]. cbn [tfind path_count] in *.
  destruct (beq (te_path a) (te_path e)) eqn:E.
  - destruct Hin as [->|Hin]; [reflexivity|]. apply path_count_in in Hin. lia.
  - destruct Hin as [->|Hin]; [rewrite beq_refl in E; discriminate|]. apply IH; auto.
Qed.

(* ------------------------------------------------------------------ paths as component lists *)
Lemma split_acc_nosep sep s : forall cur, nosep sep cur -> Forall (nosep sep) (split_acc sep cur s).
Proof.
  induction s as [|c r IH]; intros cur Hc; cbn [split_acc].
  - constructor; [|constructor]. intros H. rewrite <- in_rev in H. auto.
  - destruct (Ascii.eqb c sep) eqn:E.
    + constructor.
      * intros H. rewrite <- in_rev in H. auto.
      * apply IH. intros [].
    + apply IH. intros [H|H]; [subst; rewrite Ascii.eqb_refl in E; discriminate|auto].
Qed.

(* "/c1/c2/.../cn" *)
Definition pth (cs : list bytes) : bytes := flat_map (fun c => sl :: c) cs.

Lemma pth_app a b : pth (a ++ b) = pth a ++ pth b.
Proof. apply flat_map_app. Qed.
Lemma pth_cons c r : pth (c :: r) = sl :: c ++ pth r.
Proof. reflexivity. Qed.
Lemma pth_snoc cs b : pth (cs ++ [b]) = pth cs ++ sl :: b.
Proof. rewrite pth_app. rewrite (pth_cons b []). cbn [pth flat_map]. now rewrite app_nil_r. Qed.

Lemma join_pth cs : cs <> [] -> sl :: join sl cs = pth cs.
Proof.
  induction cs as [|c r IH]; intros H; [congruence|]. destruct r as [|c2 r'].
  - rewrite pth_cons. cbn. now rewrite app_nil_r.
  - change (join sl (c :: c2 :: r')) with (c ++ sl :: join sl (c2 :: r')).
    rewrite pth_cons, <- IH by discriminate. reflexivity.
Qed.

Lemma plain_noslash cs : Forall plain cs -> Forall noslash cs.
Proof. intros H. eapply Forall_impl; [|exact H]. intros a (_ & _ & _ & Hn). exact Hn. Qed.

Lemma psplit_pth cs : cs <> [] -> Forall noslash cs -> psplit (pth cs) = [] :: cs.
Proof.
  intros Hne HF. rewrite <- join_pth by assumption. destruct cs as [|c r]; [congruence|].
  change (sl :: join sl (c :: r)) with (join sl ([] :: c :: r)).
  unfold psplit. apply split_join; [discriminate|]. constructor; [intros []|exact HF].
Qed.

Lemma filter_plain cs : Forall plain cs -> filter (fun c => negb (beq c [])) cs = cs.
Proof.
  induction 1 as [|c cs (H1 & _) _ IH]; cbn [filter]; [reflexivity|].
  apply beq_false in H1. rewrite H1. cbn [negb]. now rewrite IH.
Qed.

Lemma comps_of_pth cs : cs <> [] -> Forall plain cs -> comps_of (pth cs) = cs.
Proof.
  intros Hne HP. unfold comps_of. rewrite psplit_pth by auto using plain_noslash.
  cbn [filter beq negb]. now apply filter_plain.
Qed.

Lemma clean_rooted s :
  clean (sl :: s) = sl :: pjoin (rev (fold_left (stepc true) (psplit (sl :: s)) [])).
Proof. unfold clean, assemble, is_rooted. rewrite Ascii.eqb_refl. reflexivity. Qed.

Lemma clean_abs_shape p : clean p = p -> is_abs p = true -> p <> [sl] ->
  exists cs, cs <> [] /\ Forall plain cs /\ p = pth cs.
Proof.
  intros Hc Ha Hne. destruct p as [|c s]; [discriminate|].
  cbn [is_abs is_rooted] in Ha. apply Ascii.eqb_eq in Ha. subst c.
  rewrite clean_rooted in Hc.
  remember (rev (fold_left (stepc true) (psplit (sl :: s)) [])) as cs eqn:Ecs.
  assert (N : nf true cs).
  { subst cs. apply nf_fold.
    - apply split_acc_nosep. intros [].
    - exists 0%nat, []. cbn. auto. }
  destruct N as (k & ps & E & HP & Hk). rewrite (Hk eq_refl) in E. cbn [repeat app] in E. subst ps.
  exists cs. split; [|split; [exact HP|]].
  - intros ->. apply Hne. rewrite <- Hc. reflexivity.
  - rewrite <- Hc at 1. unfold pjoin. now apply join_pth; intros ->; apply Hne; rewrite <- Hc.
Qed.
