(* The base chains of a layer map that passed checkInheritance: the ancestor walk, the root
   base layer (findLayerBase) and the chain used by the specifications are one list. *)
From LC Require Import Lib.Bytes Lib.Lex Lib.Fields Lib.PathM Gen.Consts
  Model.MountInfo Model.FsTree Model.Kernel Model.Layers Proofs.LayerMapP.
Open Scope N_scope.

(* the layers from name b upward: [layer b; its parent; ...; the root base] *)
Fixpoint up (fuel : nat) (m : lmap) (b : bytes) : option (list layer) :=
  match b with
  | [] => Some []
  | _ => match fuel with
         | O => None
         | S f => match lm_get m b with
                  | None => None
                  | Some l => option_map (cons l) (up f m (l_base l))
                  end
         end
  end.

Lemma ancestors_up m : forall fuel n acc,
  ancestors_and_self fuel m n acc = option_map (fun u => rev u ++ acc) (up fuel m n).
Proof.
  induction fuel as [|fuel IH]; intros n acc; cbn [ancestors_and_self up].
  - destruct n; reflexivity.
  - destruct n as [|ch n']; [reflexivity|].
    destruct (lm_get m (ch :: n')) as [l|]; [|reflexivity].
    rewrite IH. destruct (up fuel m (l_base l)) as [u|]; [|reflexivity].
    cbn [option_map rev]. now rewrite <- app_assoc.
Qed.

Lemma last_cons_default {A} (u : list A) : forall x d d', last (x :: u) d = last (x :: u) d'.
Proof. induction u as [|y u IH]; intros x d d'; [reflexivity|]. cbn [last] in *. apply (IH y). Qed.

Lemma find_layer_base_up m : forall fuel l,
  find_layer_base fuel m l = option_map (fun u => last u l) (up fuel m (l_base l)).
Proof.
  induction fuel as [|fuel IH]; intros l; cbn [find_layer_base up].
  - destruct (l_base l); reflexivity.
  - destruct (l_base l) as [|ch b']; [reflexivity|].
    destruct (lm_get m (ch :: b')) as [p|]; [|reflexivity].
    rewrite IH. destruct (up fuel m (l_base p)) as [u|]; [|reflexivity].
    cbn [option_map]. destruct u as [|y u]; [reflexivity|].
    f_equal. change (last (p :: y :: u) l) with (last (y :: u) l). apply last_cons_default.
Qed.

Lemma up_more m : forall fuel b u, up fuel m b = Some u ->
  forall fuel', (length u <= fuel')%nat -> up fuel' m b = Some u.
Proof.
  induction fuel as [|fuel IH]; intros b u H fuel' Hl.
  - cbn [up] in H. destruct b; [|discriminate]. injection H as <-. destruct fuel'; reflexivity.
  - cbn [up] in H. destruct b as [|ch b']. { injection H as <-. destruct fuel'; reflexivity. }
    destruct (lm_get m (ch :: b')) as [l|] eqn:E; [|discriminate].
    destruct (up fuel m (l_base l)) as [u'|] eqn:E2; [|discriminate]. injection H as <-.
    cbn [length] in Hl. destruct fuel' as [|f']; [lia|]. cbn [up]. rewrite E.
    rewrite (IH _ _ E2 f') by lia. reflexivity.
Qed.

Lemma up_length m : forall fuel b u, up fuel m b = Some u -> (length u <= fuel)%nat.
Proof.
  induction fuel as [|fuel IH]; intros b u H; cbn [up] in H.
  - destruct b; [|discriminate]. injection H as <-. cbn. lia.
  - destruct b as [|ch b']. { injection H as <-. cbn. lia. }
    destruct (lm_get m (ch :: b')) as [l|]; [|discriminate].
    destruct (up fuel m (l_base l)) as [u'|] eqn:E; [|discriminate]. injection H as <-.
    cbn [length]. specialize (IH _ _ E). lia.
Qed.

Lemma up_in m : forall fuel b u, up fuel m b = Some u -> forall x, In x u -> lm_get m (l_name x) = Some x.
Proof.
  induction fuel as [|fuel IH]; intros b u H x Hx; cbn [up] in H.
  - destruct b; [|discriminate]. injection H as <-. destruct Hx.
  - destruct b as [|ch b']. { injection H as <-. destruct Hx. }
    destruct (lm_get m (ch :: b')) as [l|] eqn:E; [|discriminate].
    destruct (up fuel m (l_base l)) as [u'|] eqn:E2; [|discriminate]. injection H as <-.
    destruct Hx as [<-|Hx]; [|now apply (IH _ _ E2)]. now rewrite (lm_get_name _ _ _ E).
Qed.

(* checkInheritance's walk succeeds exactly along [up], never meeting a visited name *)
Lemma chain_ok_up m : forall fuel visited b, chain_ok fuel m visited b = true ->
  exists u, up fuel m b = Some u /\ NoDup (map l_name u)
            /\ forall x, In x u -> memb (l_name x) visited = false.
Proof.
  induction fuel as [|fuel IH]; intros visited b H; cbn [chain_ok] in H.
  - destruct b; [|discriminate]. exists []. repeat split; [constructor|intros x []].
  - destruct b as [|ch b']. { exists []. repeat split; [constructor|intros x []]. }
    cbn [up]. destruct (lm_get m (ch :: b')) as [l|] eqn:E; [|discriminate].
    destruct (memb (l_name l) visited) eqn:Ev; [discriminate|].
    destruct (IH _ _ H) as (u & Hu & Hnd & Hvis). exists (l :: u). rewrite Hu. split; [reflexivity|]. split.
    + cbn [map]. constructor; [|exact Hnd]. intros Hin. apply in_map_iff in Hin as (x & Hx1 & Hx2).
      specialize (Hvis x Hx2). unfold memb in Hvis. cbn [existsb] in Hvis. rewrite Hx1, beq_refl in Hvis. discriminate.
    + intros x [<-|Hx]; [exact Ev|]. specialize (Hvis x Hx). unfold memb in *. cbn [existsb] in Hvis.
      apply orb_false_iff in Hvis as [_ Hvis]. exact Hvis.
Qed.

Lemma lm_get_name_in m n l : lm_get m n = Some l -> In n (map l_name m).
Proof. intros H. rewrite <- (lm_get_name _ _ _ H). apply in_map. now apply (lm_get_in _ n). Qed.

(* under checkInheritance: the chain of any layer fits in the fuel the model and the
   specifications use *)
Lemma check_inheritance_up m n l : check_inheritance m = true -> lm_get m n = Some l -> n <> [] ->
  exists u, up (length m) m (l_base l) = Some u /\ up (S (length m)) m n = Some (l :: u).
Proof.
  intros Hc Hg Hn. unfold check_inheritance in Hc. rewrite forallb_forall in Hc.
  specialize (Hc l (lm_get_in _ _ _ Hg)).
  destruct (chain_ok_up _ _ _ _ Hc) as (u & Hu & Hnd & Hvis).
  assert (Hlen : (length (l :: u) <= length m)%nat).
  { rewrite <- (map_length l_name (l :: u)), <- (map_length l_name m).
    apply NoDup_incl_length.
    - cbn [map]. constructor; [|exact Hnd]. intros Hin. apply in_map_iff in Hin as (x & Hx1 & Hx2).
      specialize (Hvis x Hx2). unfold memb in Hvis. cbn [existsb] in Hvis. rewrite Hx1, beq_refl in Hvis. discriminate.
    - intros nm [<-|Hin]; [rewrite (lm_get_name _ _ _ Hg); now apply (lm_get_name_in m n l)|].
      apply in_map_iff in Hin as (x & <- & Hx). apply (lm_get_name_in m (l_name x) x). now apply (up_in _ _ _ _ Hu). }
  cbn [length] in Hlen.
  assert (Hu' : up (length m) m (l_base l) = Some u) by (apply (up_more _ _ _ _ Hu); lia).
  exists u. split; [exact Hu'|]. cbn [up]. destruct n; [congruence|]. now rewrite Hg, Hu'.
Qed.

Lemma hd_rev_last {A} (u : list A) (l d : A) : hd d (rev u ++ [l]) = last u l.
Proof.
  induction u as [|x u IH] using rev_ind; [reflexivity|].
  rewrite rev_app_distr. cbn [rev app hd]. now rewrite last_last.
Qed.

(* [up] over two maps with the same static content *)
Lemma msim_up m m' : msim m m' -> forall fuel b,
  match up fuel m b, up fuel m' b with
  | Some a, Some a' => Forall2 lsim a a'
  | None, None => True
  | _, _ => False
  end.
Proof.
  intros H. induction fuel as [|fuel IH]; intros b; cbn [up].
  - destruct b; [constructor|exact I].
  - destruct b as [|ch b']; [constructor|].
    pose proof (msim_get m m' (ch :: b') H) as G.
    destruct (lm_get m (ch :: b')) as [a|], (lm_get m' (ch :: b')) as [a'|]; try contradiction; [|exact I].
    pose proof G as (_ & G2 & _). rewrite <- G2. specialize (IH (l_base a)).
    destruct (up fuel m (l_base a)), (up fuel m' (l_base a)); try contradiction; [|exact I].
    cbn [option_map]. constructor; assumption.
Qed.

Lemma Forall2_last {A B} (R : A -> B -> Prop) u u' d d' : Forall2 R u u' -> R d d' -> R (last u d) (last u' d').
Proof.
  induction 1 as [|x y r r' Hxy Hr IH]; intros Hd; [exact Hd|].
  destruct Hr; [exact Hxy|]. apply IH, Hd.
Qed.

Lemma find_layer_base_msim m m' l l' : msim m m' -> lsim l l' ->
  option_map l_path (find_layer_base (S (length m)) m l)
  = option_map l_path (find_layer_base (S (length m')) m' l').
Proof.
  intros Hm Hl. rewrite !find_layer_base_up. rewrite <- (msim_length _ _ Hm).
  pose proof Hl as (_ & Hb & _). rewrite <- Hb.
  pose proof (msim_up _ _ Hm (S (length m)) (l_base l)) as G.
  destruct (up (S (length m)) m (l_base l)) as [u|], (up (S (length m)) m' (l_base l)) as [u'|];
    try contradiction; [|reflexivity].
  cbn [option_map]. f_equal. pose proof (Forall2_last _ _ _ _ _ G Hl) as (_ & _ & _ & _ & Hp). exact Hp.
Qed.
