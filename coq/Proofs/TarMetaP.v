(* Proofs about Model/TarMeta.v (C07): device-number bit vectors, the Readlink and
   xattr buffer loops, compression. *)
From LC Require Import Lib.Bytes Lib.Fields Gen.Consts Model.TarMeta.
From Coq Require Import ZArith Lia Bool.
Open Scope N_scope.

Ltac Zify.zify_post_hook ::= Z.div_mod_to_equations.

(* ---------- bit vectors over N ---------- *)
Lemma lor_disjoint x k r : r < 2 ^ k -> N.lor (x * 2 ^ k) r = x * 2 ^ k + r.
Proof.
  intros Hr.
  assert (H0 : N.land (x * 2 ^ k) r = 0).
  { apply N.bits_inj_0. intros i. rewrite N.land_spec.
    destruct (N.lt_ge_cases i k) as [Hi|Hi].
    - rewrite N.mul_pow2_bits_low by assumption. reflexivity.
    - rewrite <- (N.mod_small r (2 ^ k)) by assumption.
      rewrite N.mod_pow2_bits_high by assumption. apply andb_false_r. }
  rewrite N.add_nocarry_lxor by assumption. symmetry. apply N.lxor_lor. assumption.
Qed.

Lemma land_mask y k n : N.land y (N.shiftl (N.ones n) k) = ((y / 2 ^ k) mod 2 ^ n) * 2 ^ k.
Proof.
  rewrite <- N.shiftl_mul_pow2, <- N.land_ones, <- N.shiftr_div_pow2.
  apply N.bits_inj. intros i. rewrite N.land_spec.
  destruct (N.lt_ge_cases i k) as [Hi|Hi].
  - rewrite !N.shiftl_spec_low by assumption. apply andb_false_r.
  - rewrite !N.shiftl_spec_high' by assumption. rewrite N.land_spec, N.shiftr_spec'.
    replace (i - k + k) with i by lia. reflexivity.
Qed.

(* ---------- Linux dev_t ---------- *)
Lemma dev_major_arith d : dev_major d = (d / 256) mod 4096 + ((d / 17592186044416) mod 1048576) * 4096.
Proof.
  unfold dev_major.
  change 4294963200 with (N.shiftl (N.ones 20) 12). change 4095 with (N.ones 12).
  rewrite land_mask, N.land_ones, !N.shiftr_div_pow2.
  rewrite lor_disjoint by (apply N.mod_lt; discriminate).
  rewrite N.div_div by discriminate.
  change (2 ^ 32 * 2 ^ 12) with 17592186044416. change (2 ^ 8) with 256. change (2 ^ 12) with 4096.
  change (2 ^ 20) with 1048576. lia.
Qed.
Lemma dev_minor_arith d : dev_minor d = d mod 256 + ((d / 1048576) mod 16777216) * 256.
Proof.
  unfold dev_minor.
  change 4294967040 with (N.shiftl (N.ones 24) 8). change 255 with (N.ones 8).
  rewrite land_mask, N.land_ones, !N.shiftr_div_pow2.
  rewrite lor_disjoint by (apply N.mod_lt; discriminate).
  rewrite N.div_div by discriminate.
  change (2 ^ 12 * 2 ^ 8) with 1048576. change (2 ^ 8) with 256. change (2 ^ 24) with 16777216. lia.
Qed.

Lemma lor_shuffle a b c d : N.lor (N.lor a b) (N.lor c d) = N.lor (N.lor (N.lor a c) b) d.
Proof.
  apply N.bits_inj. intros i. rewrite !N.lor_spec.
  destruct (N.testbit a i), (N.testbit b i), (N.testbit c i), (N.testbit d i); reflexivity.
Qed.

Lemma makedev_arith ma mi : ma < 4294967296 -> mi < 4294967296 ->
  makedev ma mi = (ma mod 4096) * 256 + (ma / 4096) * 17592186044416 + mi mod 256 + (mi / 256) * 1048576.
Proof.
  intros Hma Hmi. unfold makedev. rewrite lor_shuffle.
  change 4294963200 with (N.shiftl (N.ones 20) 12). change 4294967040 with (N.shiftl (N.ones 24) 8).
  change 4095 with (N.ones 12). change 255 with (N.ones 8).
  rewrite !land_mask, !N.land_ones, !N.shiftl_mul_pow2.
  change (2 ^ 32) with 4294967296. change (2 ^ 12) with 4096. change (2 ^ 8) with 256.
  change (2 ^ 20) with 1048576. change (2 ^ 24) with 16777216.
  assert (E1 : (ma / 4096) mod 1048576 = ma / 4096) by (apply N.mod_small; lia).
  assert (E2 : (mi / 256) mod 16777216 = mi / 256) by (apply N.mod_small; lia).
  rewrite E1, E2.
  pose proof (N.mod_lt ma 4096) as B1. pose proof (N.mod_lt mi 256) as B2.
  replace (ma / 4096 * 4096 * 4294967296) with ((ma / 4096) * 2 ^ 44) by (change (2^44) with 17592186044416; lia).
  rewrite (lor_disjoint (ma / 4096) 44 (mi / 256 * 256 * 4096)) by (change (2^44) with 17592186044416; lia).
  replace (ma / 4096 * 2 ^ 44 + mi / 256 * 256 * 4096) with ((ma / 4096 * 16777216 + mi / 256) * 2 ^ 20)
    by (change (2^44) with 17592186044416; change (2^20) with 1048576; lia).
  rewrite (lor_disjoint _ 20 (ma mod 4096 * 256)) by (change (2^20) with 1048576; lia).
  replace ((ma / 4096 * 16777216 + mi / 256) * 2 ^ 20 + ma mod 4096 * 256)
    with (((ma / 4096 * 16777216 + mi / 256) * 4096 + ma mod 4096) * 2 ^ 8)
    by (change (2^20) with 1048576; change (2^8) with 256; lia).
  rewrite (lor_disjoint _ 8 (mi mod 256)) by (change (2^8) with 256; lia).
  change (2^8) with 256. lia.
Qed.

Theorem dev_roundtrip ma mi : ma < 4294967296 -> mi < 4294967296 ->
  dev_major (makedev ma mi) = ma /\ dev_minor (makedev ma mi) = mi.
Proof.
  intros Hma Hmi. rewrite dev_major_arith, dev_minor_arith, makedev_arith by assumption.
  pose proof (N.div_mod ma 4096 ltac:(discriminate)) as Ema.
  pose proof (N.div_mod mi 256 ltac:(discriminate)) as Emi.
  pose proof (N.mod_lt ma 4096 ltac:(discriminate)) as Ba.
  pose proof (N.mod_lt mi 256 ltac:(discriminate)) as Bc.
  set (a := ma mod 4096) in *. set (b := ma / 4096) in *.
  set (c := mi mod 256) in *. set (e := mi / 256) in *.
  assert (Bb : b < 1048576) by lia. assert (Be : e < 16777216) by lia.
  set (d := a * 256 + b * 17592186044416 + c + e * 1048576).
  assert (D1 : d / 256 = a + 4096 * (e + 16777216 * b)).
  { symmetry. apply (N.div_unique d 256 _ c); [assumption|unfold d; lia]. }
  assert (D2 : (a + 4096 * (e + 16777216 * b)) mod 4096 = a).
  { symmetry. apply (N.mod_unique _ 4096 (e + 16777216 * b)); [assumption|lia]. }
  assert (D3 : d / 17592186044416 = b).
  { symmetry. apply (N.div_unique d _ b (a * 256 + c + e * 1048576)); [lia|unfold d; lia]. }
  assert (D4 : b mod 1048576 = b) by (apply N.mod_small; assumption).
  assert (D5 : d mod 256 = c).
  { symmetry. apply (N.mod_unique d 256 (a + 4096 * (e + 16777216 * b))); [assumption|unfold d; lia]. }
  assert (D6 : d / 1048576 = e + 16777216 * b).
  { symmetry. apply (N.div_unique d _ _ (a * 256 + c)); [lia|unfold d; lia]. }
  assert (D7 : (e + 16777216 * b) mod 16777216 = e).
  { symmetry. apply (N.mod_unique _ 16777216 b); [assumption|lia]. }
  rewrite D1, D2, D3, D4, D5, D6, D7. split; lia.
Qed.

(* ---------- fs.Readlink ---------- *)
Lemma blen_firstn_lt (t : bytes) cap : blen (firstn (N.to_nat cap) t) < cap -> firstn (N.to_nat cap) t = t.
Proof.
  unfold blen. intros H. apply firstn_all2. rewrite firstn_length in H. lia.
Qed.

Lemma readlink_loop_done t : forall fuel cap, 0 < cap -> blen t < cap * 2 ^ N.of_nat fuel ->
  readlink_loop (S fuel) t cap = LDone t.
Proof.
  induction fuel as [|f IH]; intros cap Hc Hb.
  - cbn [readlink_loop]. unfold sys_readlink. cbn in Hb. rewrite N.mul_1_r in Hb.
    rewrite firstn_all2 by (unfold blen in Hb; lia).
    apply N.ltb_lt in Hb. now rewrite Hb.
  - cbn [readlink_loop]. unfold sys_readlink.
    destruct (blen (firstn (N.to_nat cap) t) <? cap) eqn:E.
    + apply N.ltb_lt in E. now rewrite blen_firstn_lt.
    + apply IH; [lia|]. rewrite Nat2N.inj_succ, N.pow_succ_r' in Hb. lia.
Qed.

Theorem readlink_complete t : fs_readlink t = LDone t.
Proof.
  unfold fs_readlink. apply readlink_loop_done; [lia|].
  unfold blen. pose proof (N.pow_gt_lin_r 2 (N.of_nat (length t)) ltac:(lia)). lia.
Qed.

Lemma pow2_gt n : n < 2 ^ n.
Proof. apply N.pow_gt_lin_r. lia. Qed.

(* ---------- getXattrs ---------- *)
Definition xattrs_wf (xs : list xattr) : Prop :=
  Forall (fun x => fst x <> [] /\ nosep NUL (fst x)) xs /\ NoDup (map fst xs).

Lemma assoc_in xs : NoDup (map fst xs) -> forall x, In x xs -> assoc (fst x) xs = Some (snd x).
Proof.
  induction xs as [|[n v] r IH]; intros Hnd x Hin; [contradiction|].
  cbn [map fst] in Hnd. inversion Hnd as [|? ? Hni Hr]; subst.
  cbn [assoc]. destruct Hin as [<-|Hin].
  - cbn. now rewrite beq_refl.
  - destruct (beq n (fst x)) eqn:E.
    + apply beq_true in E. subst. exfalso. apply Hni. now apply in_map.
    + now apply IH.
Qed.

Lemma list_loop_done xs : forall fuel cap, 0 < cap -> blen (name_buf xs) <= cap * 2 ^ N.of_nat fuel ->
  list_loop (S fuel) xs cap = LDone (name_buf xs).
Proof.
  induction fuel as [|f IH]; intros cap Hc Hb; cbn [list_loop]; unfold sys_llistxattr.
  - cbn in Hb. rewrite N.mul_1_r in Hb. apply N.leb_le in Hb. now rewrite Hb.
  - destruct (blen (name_buf xs) <=? cap) eqn:E; [reflexivity|].
    apply IH; [lia|]. rewrite Nat2N.inj_succ, N.pow_succ_r' in Hb. lia.
Qed.

Lemma get_loop_S f xs name cap : get_loop (S f) xs name cap =
  match sys_lgetxattr xs name cap with
  | SysOk v => (LDone (Some v), cap)
  | SysERANGE => get_loop f xs name (2 * cap)
  | SysErr => (LDone None, cap)
  end.
Proof. reflexivity. Qed.

Lemma get_loop_done xs name v : assoc name xs = Some v -> forall fuel cap, 0 < cap ->
  blen v <= cap * 2 ^ N.of_nat fuel ->
  exists cap', get_loop (S fuel) xs name cap = (LDone (Some v), cap') /\ 0 < cap'.
Proof.
  intros Ha. induction fuel as [|f IH]; intros cap Hc Hb; rewrite get_loop_S; unfold sys_lgetxattr; rewrite Ha.
  - cbn in Hb. rewrite N.mul_1_r in Hb. apply N.leb_le in Hb. rewrite Hb. now exists cap.
  - destruct (blen v <=? cap) eqn:E; [now exists cap|].
    apply IH; [lia|]. rewrite Nat2N.inj_succ, N.pow_succ_r' in Hb. lia.
Qed.

Definition vsum (xs : list xattr) : nat := fold_right (fun x a => length (snd x) + a)%nat 0%nat xs.
Lemma vsum_in xs x : In x xs -> (length (snd x) <= vsum xs)%nat.
Proof.
  induction xs as [|y r IH]; [contradiction|]. intros [<-|H]; cbn [vsum fold_right]; [lia|].
  apply IH in H. unfold vsum in H. lia.
Qed.

Lemma values_loop_done xs f : NoDup (map fst xs) -> (vsum xs <= f)%nat ->
  forall l, incl l xs -> Forall (fun x => fst x <> []) l ->
  forall cap, 0 < cap -> values_loop (S f) xs (map fst l ++ [[]]) cap = LDone l.
Proof.
  intros Hnd Hf. induction l as [|x l IH]; intros Hincl Hne cap Hc.
  - reflexivity.
  - cbn [map app values_loop]. inversion Hne as [|? ? Hx Hl]; subst.
    destruct (fst x) as [|c n] eqn:En; [congruence|]. cbn [is_nil]. rewrite <- En.
    assert (Hin : In x xs) by (apply Hincl; now left).
    destruct (get_loop_done xs (fst x) (snd x) (assoc_in xs Hnd x Hin) f cap Hc) as (cap' & Hg & Hc').
    { pose proof (vsum_in xs x Hin). pose proof (pow2_gt (N.of_nat f)). unfold blen. nia. }
    rewrite Hg. rewrite IH; [|intros y Hy; apply Hincl; now right|assumption|assumption].
    now destruct x.
Qed.

Theorem xattrs_complete xs : xattrs_wf xs -> get_xattrs xs = LDone (Some xs).
Proof.
  intros [Hf Hnd]. unfold get_xattrs, xattr_fuel.
  rewrite list_loop_done.
  - unfold name_buf at 2. rewrite split_join.
    + fold (vsum xs). rewrite values_loop_done; auto.
      * lia.
      * apply incl_refl.
      * eapply Forall_impl; [|exact Hf]. now intros a [H _].
      * lia.
    + destruct (map fst xs); discriminate.
    + apply Forall_app. split.
      * apply Forall_map. eapply Forall_impl; [|exact Hf]. now intros a [_ H].
      * constructor; [|constructor]. intros [].
  - lia.
  - fold (vsum xs). unfold blen. pose proof (pow2_gt (N.of_nat (length (name_buf xs) + vsum xs))). lia.
Qed.

(* ---------- writeTarFile / makeTarWriter: compressed output decompresses to the plain archive ---------- *)
Section Compress.
Variable filter : N -> bytes -> bytes.
Variable unfilter : N -> bytes -> bytes.
Hypothesis filter_law : forall m b, unfilter m (filter m b) = b.

Theorem compress_same : forall m archive, m <> 0 ->
  unfilter m (write_tar_file filter m archive) = write_tar_file filter 0 archive.
Proof.
  intros m a Hm. unfold write_tar_file. destruct (m =? 0) eqn:E.
  - apply N.eqb_eq in E. contradiction.
  - cbn. apply filter_law.
Qed.
End Compress.
