(* Proofs about Model/TarMeta.v (C07). *)
From LC Require Import Lib.Bytes Lib.Fields Gen.Consts Model.TarMeta.
From Coq Require Import ZArith Lia.
Open Scope N_scope.

(* ---------- writeTarFile / makeTarWriter: compressed output decompresses to the plain archive ---------- *)
Section Compress.
Variable filter : N -> bytes -> bytes.
Variable unfilter : N -> bytes -> bytes.
Hypothesis filter_law : forall m b, unfilter m (filter m b) = b.

Theorem compress_same : forall m archive, m <> 0 ->
  unfilter m (write_tar_file filter m archive) = write_tar_file filter 0 archive.
Proof.
  intros m a Hm. unfold write_tar_file. destruct (m =? 0) eqn:E.
  - apply N.eqb_eq in E. contradiction.
  - cbn. apply filter_law.
Qed.
End Compress.
