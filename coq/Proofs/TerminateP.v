(* Termination for every input: with fuel = number of packages + 1 the resolver never runs out of
   fuel, dependency cycles included -- the Added mark is the variant.  No well-formedness, no
   known-finding exclusion. *)
From LC Require Import Lib.Bytes Lib.Lex Lib.Fields Model.Resolve Cases.C05
  Proofs.ResolveBasics Proofs.AtomSetP Proofs.ResolveInv.
Import C05.

Lemma in_skipn {A} (x : A) n : forall l, In x (skipn n l) -> In x l.
Proof. induction n as [|n IH]; intros [|y l]; cbn; try tauto. intros H. right. auto. Qed.

Lemma slice_add_sub key id sl e : In e (slice_add key id sl) -> e = (key, id) \/ In e sl.
Proof.
  unfold slice_add. destruct (scan_slice key sl 0 None) as [[p|]|]; auto.
  - rewrite in_app_iff. cbn. intros [H|[H|H]]; auto.
    + right. eapply in_firstn; eauto.
    + right. eapply in_skipn; eauto.
  - rewrite in_app_iff. cbn. intuition.
Qed.

Section T.
Variable vdb : list pkg.
Notation valid := (valid_id vdb).

Definition ids_valid (s : aset) : Prop := forall x e, In x s -> In e (snd x) -> valid (snd e).

Lemma upd_valid nm key j s : ids_valid s -> valid j -> ids_valid (aset_upd nm (slice_add key j) s).
Proof.
  intros HP Hj. induction s as [|[n sl] r IH]; cbn [aset_upd].
  - intros x e [<-|[]] He. cbn [snd] in He. apply slice_add_sub in He as [->|[]]. exact Hj.
  - assert (HPr : ids_valid r) by (intros x e Hx; apply HP; now right).
    destruct (beq n nm).
    + intros x e [<-|Hx] He.
      * cbn [snd] in He. apply slice_add_sub in He as [->|He]; auto. apply (HP (n, sl) e); [now left|exact He].
      * apply (HP x e); [now right|exact He].
    + destruct (ltb nm n).
      * intros x e [<-|Hx] He.
        -- cbn [snd] in He. apply slice_add_sub in He as [->|[]]. exact Hj.
        -- apply (HP x e); auto.
      * intros x e [<-|Hx] He.
        -- apply (HP (n, sl) e); [now left|exact He].
        -- apply (IH HPr x e Hx He).
Qed.

Lemma installed_valid enum : ids_valid (installed vdb enum).
Proof.
  unfold installed.
  assert (G : forall s, ids_valid s -> ids_valid (fold_left (fun s i => match pkg_at vdb i with
             | Some p => aset_add s (p_pn p) (p_slot p) i | None => s end) enum s)).
  { induction enum as [|j r IH]; intros s Hs; cbn; auto. apply IH.
    destruct (pkg_at vdb j) as [p|] eqn:E; auto. apply upd_valid; auto. now exists p. }
  apply G. intros x e [].
Qed.

Variable inst : aset.
Variable bdeps : bool.
Hypothesis inst_valid : ids_valid inst.

Lemma get_valid nm e : In e (get_by_name inst nm) -> valid (snd e).
Proof.
  unfold get_by_name. destruct (find _ inst) as [[n sl]|] eqn:E; [|intros []].
  apply find_some in E as [E _]. intros He. apply (inst_valid (n, sl) e E He).
Qed.
Lemma candidates_valid a i : In i (candidates inst a) -> valid i.
Proof.
  unfold candidates. rewrite filter_In. intros [H _]. apply in_map_iff in H as (e & <- & He).
  eapply get_valid; eauto.
Qed.

Definition Iv (g : gstate) : Prop := forall i, In i (g_added g) -> valid i.
Definition VT (visit : N -> gstate -> res gstate) (bound : nat) : Prop :=
  forall i g, valid i -> ~ In i (g_added g) -> Iv g -> (length (unvis vdb (g_added g)) <= bound)%nat ->
    visit i g <> RDiverge /\ forall g', visit i g = ROk g' -> Iv g' /\ incl (g_added g) (g_added g').

Lemma block_loop_t cs : forall g, block_loop cs g <> RDiverge /\
  forall g', block_loop cs g = ROk g' -> g_added g' = g_added g.
Proof.
  induction cs as [|c r IH]; intros g; cbn.
  - split; [discriminate|]. intros g' H. now injection H as <-.
  - destruct (memN c (g_added g)); [split; discriminate|].
    destruct (IH (MkG (g_added g) (c :: g_blocked g) (g_res g))) as [H1 H2]. split; auto.
Qed.

Section V.
Variable visit : N -> gstate -> res gstate.
Variable bound : nat.
Hypothesis vt : VT visit bound.

Definition Good (st : rstate) : Prop :=
  Iv (fst st) /\ (forall i, In i (snd st) -> valid i) /\ (length (unvis vdb (g_added (fst st))) <= bound)%nat.
Definition Step (st st' : rstate) : Prop := Good st' /\ incl (g_added (fst st)) (g_added (fst st')).

Lemma good_mono st g' rs' : Good st -> Iv g' -> incl (g_added (fst st)) (g_added g') ->
  (forall i, In i rs' -> valid i) -> Good (g', rs').
Proof.
  intros (G1 & G2 & G3) H1 H2 H3. split; [exact H1|]. split; [exact H3|]. cbn.
  pose proof (unvis_mono vdb _ _ H2). lia.
Qed.

Lemma each_loop_t cond rs : forall g, Good (g, rs) ->
  each_loop visit cond rs g <> RDiverge /\
  forall g', each_loop visit cond rs g = ROk g' -> Iv g' /\ incl (g_added g) (g_added g').
Proof.
  induction rs as [|i r IH]; intros g (G1 & G2 & G3); cbn in *.
  - split; [discriminate|]. intros g' H. injection H as <-. split; auto. apply incl_refl.
  - destruct (memN i (g_blocked g)); [split; discriminate|].
    assert (Gr : Good (g, r)) by (split; [exact G1|split; [intros; apply G2; now right|exact G3]]).
    destruct (memN i (g_added g) || cond) eqn:E; [now apply IH|].
    apply orb_false_iff in E as [E _]. apply memN_false in E.
    destruct (vt i g (G2 i (or_introl eq_refl)) E G1 G3) as [V1 V2].
    destruct (visit i g) as [g1| | |] eqn:EV; try (split; [discriminate|discriminate]); [|congruence].
    destruct (V2 g1 eq_refl) as [W1 W2].
    assert (G1' : Good (g1, r)).
    { apply (good_mono (g, r)); auto. }
    destruct (IH g1 G1') as [H1 H2]. split; auto. intros g' Hg. destruct (H2 g' Hg) as [K1 K2].
    split; auto. eapply incl_tran; eauto.
Qed.

Definition RDt (d : dep) : Prop := forall use cond st, Good st ->
  resolve_dep inst visit use cond d st <> RDiverge /\
  forall st', resolve_dep inst visit use cond d st = ROk st' -> Step st st'.

Lemma rc_t l : Forall RDt l -> forall use cond st, Good st ->
  resolve_children inst visit use cond l st <> RDiverge /\
  forall st', resolve_children inst visit use cond l st = ROk st' -> Step st st'.
Proof.
  induction 1 as [|c r Hc _ IH]; intros use cond st G; cbn.
  - split; [discriminate|]. intros st' H. injection H as <-. split; auto. apply incl_refl.
  - destruct (Hc use cond st G) as [H1 H2].
    destruct (resolve_dep inst visit use cond c st) as [st1| | |]; try (split; [discriminate|discriminate]); [|congruence].
    destruct (H2 st1 eq_refl) as [G1 I1]. destruct (IH use cond st1 G1) as [K1 K2]. split; auto.
    intros st' Hs. destruct (K2 st' Hs) as [G2 I2]. split; auto. eapply incl_tran; eauto.
Qed.

Lemma rd_t d : RDt d.
Proof.
  induction d as [a|k l IH] using dep_ind'; intros use cond st G.
  - rewrite resolve_dep_atom. destruct st as [g rs]. unfold resolve_atom. destruct G as (G1 & G2 & G3). cbn [fst snd] in *.
    destruct (a_blk a).
    + destruct (block_loop_t (candidates inst a) g) as [B1 B2].
      destruct (block_loop (candidates inst a) g) as [g'| | |]; try (split; [discriminate|discriminate]); [|congruence].
      split; [discriminate|]. intros st' H. injection H as <-. specialize (B2 g' eq_refl).
      split; [|cbn; rewrite B2; apply incl_refl]. split; [|split]; cbn [fst snd].
      * intros i Hi. rewrite B2 in Hi. auto.
      * exact G2.
      * now rewrite B2.
    + destruct (candidates inst a) as [|c0 cs0] eqn:EC.
      * destruct cond; split; try discriminate. intros st' H. injection H as <-.
        split; [|apply incl_refl]. split; [exact G1|split; [exact G2|exact G3]].
      * split; [discriminate|]. intros st' H. injection H as <-. split; [|apply incl_refl].
        split; [exact G1|split; [|exact G3]]. cbn [snd]. intros i Hi. apply in_app_iff in Hi as [Hi|Hi]; auto.
        apply (candidates_valid a). now rewrite EC.
  - rewrite resolve_dep_grp.
    assert (SO : forall minN maxN, some_of inst visit use l st minN maxN <> RDiverge /\
                 forall st', some_of inst visit use l st minN maxN = ROk st' -> Step st st').
    { intros minN maxN. unfold some_of.
      assert (G0 : Good (fst st, [])).
      { destruct G as (G1 & G2 & G3). split; [exact G1|split; [intros ? []|exact G3]]. }
      destruct (rc_t l IH use true (fst st, []) G0) as [H1 H2].
      destruct (resolve_children inst visit use true l (fst st, [])) as [[g' sub]| | |];
        try (split; [discriminate|discriminate]); [|congruence].
      destruct (H2 (g', sub) eq_refl) as [(K1 & K2 & K3) K4]. cbn [fst snd] in *.
      destruct (Nat.ltb (length sub) minN); [split; discriminate|].
      split; [discriminate|]. intros st' H. injection H as <-. split; [|exact K4].
      split; [exact K1|split; [|exact K3]]. cbn [snd]. intros i Hi. apply in_app_iff in Hi as [Hi|Hi].
      - destruct G as (_ & G2 & _). auto.
      - apply K2. eapply in_firstn; eauto. }
    destruct k; try apply SO.
    + destruct (rc_t l IH use cond st G) as [H1 H2].
      destruct (resolve_children inst visit use cond l st) as [[g1 rs1]| | |];
        try (split; [discriminate|discriminate]); [|congruence].
      destruct (H2 (g1, rs1) eq_refl) as [G1 I1]. cbn [fst snd] in *.
      destruct (each_loop_t cond rs1 g1 G1) as [E1 E2].
      destruct (each_loop visit cond rs1 g1) as [g2| | |]; try (split; [discriminate|discriminate]); [|congruence].
      split; [discriminate|]. intros st' H. injection H as <-. destruct (E2 g2 eq_refl) as [F1 F2].
      split; [|eapply incl_tran; eauto]. apply (good_mono (g1, rs1)); auto. apply G1.
    + destruct (use f); [apply (rc_t l IH use cond st G)|].
      split; [discriminate|]. intros st' H. injection H as <-. split; auto. apply incl_refl.
    + destruct (use f); [|apply (rc_t l IH use cond st G)].
      split; [discriminate|]. intros st' H. injection H as <-. split; auto. apply incl_refl.
Qed.
End V.

Lemma collect_t fs : forall acc, collect fs acc <> RDiverge.
Proof. induction fs as [|f r IH]; intros acc; cbn; [discriminate|]. destruct f; auto; discriminate. Qed.

Theorem visit_pkg_VT n : VT (visit_pkg vdb inst bdeps n) n.
Proof.
  induction n as [|n IH]; intros i g Hv Hna I Hb.
  - exfalso. assert (In i (unvis vdb (g_added g))).
    { unfold unvis. apply filter_In. split; [now apply ids_in|]. apply negb_true_iff. now apply memN_false. }
    destruct (unvis vdb (g_added g)); [contradiction|cbn in Hb; lia].
  - cbn [visit_pkg]. destruct Hv as [p Hp]. rewrite Hp.
    set (g1 := MkG (i :: g_added g) (g_blocked g) (aset_add (g_res g) (p_pn p) (p_slot p) i)).
    assert (I1 : Iv g1) by (intros x [<-|Hx]; [now exists p|auto]).
    assert (Hb1 : (length (unvis vdb (g_added g1)) <= n)%nat).
    { pose proof (unvis_shrink vdb (g_added g) i (ex_intro _ p Hp) Hna). cbn. lia. }
    pose proof (collect_t (dep_files bdeps p) []) as CT.
    destruct (collect (dep_files bdeps p) []) as [deps| | |]; try (split; [discriminate|discriminate]); [|congruence].
    assert (Done0 : forall g', ROk g1 = ROk g' -> Iv g' /\ incl (g_added g) (g_added g')).
    { intros g' H. injection H as <-. split; auto. cbn. apply incl_tl, incl_refl. }
    destruct deps as [|d0 deps']; [split; [discriminate|exact Done0]|].
    assert (G1 : Good n (g1, [])) by (split; [exact I1|split; [intros ? []|exact Hb1]]).
    destruct (rd_t (visit_pkg vdb inst bdeps n) n IH (DGrp GAll (d0 :: deps')) (use_on p) false (g1, []) G1) as [H1 H2].
    destruct (resolve_dep inst (visit_pkg vdb inst bdeps n) (use_on p) false (DGrp GAll (d0 :: deps')) (g1, []))
      as [[g' rs']| | |]; try (split; [discriminate|discriminate]); [|congruence].
    split; [discriminate|]. intros g'' H. injection H as <-.
    destruct (H2 (g', rs') eq_refl) as [(K1 & _) K2]. cbn [fst] in *. split; auto.
    eapply incl_tran; [|exact K2]. cbn. apply incl_tl, incl_refl.
Qed.

Lemma classify_t us : forall w b, classify inst us w b <> RDiverge.
Proof.
  induction us as [|u r IH]; intros w b; cbn; [discriminate|].
  destruct (isnil (u_nm u)); [discriminate|]. destruct (isnil (u_cat u)).
  - destruct (find_cats inst (u_nm u)) as [[|c [|c' cs]]|]; try discriminate.
    + destruct (u_blk u); [apply IH|discriminate].
    + destruct (u_blk u); apply IH.
  - destruct (u_blk u); apply IH.
Qed.

Theorem resolve_user_terminates us : resolve_user vdb inst bdeps (S (length vdb)) us <> RDiverge.
Proof.
  unfold resolve_user. pose proof (classify_t us [] []) as CT.
  destruct (classify inst us [] []) as [[w b]| | |]; try discriminate; [|congruence].
  assert (G0 : Good (S (length vdb)) (g0, [])).
  { split; [intros ? []|]. split; [intros ? []|]. cbn.
    pose proof (filter_len (fun i => negb (memN i [])) (ids vdb)) as L. unfold ids in L at 2.
    rewrite map_length, seq_length in L. unfold unvis. lia. }
  destruct (rd_t (visit_pkg vdb inst bdeps (S (length vdb))) (S (length vdb)) (visit_pkg_VT _)
              (DGrp GAll (map DAtom (b ++ w))) (fun _ => false) false (g0, []) G0) as [H1 _].
  destruct (resolve_dep inst (visit_pkg vdb inst bdeps (S (length vdb))) (fun _ => false) false
              (DGrp GAll (map DAtom (b ++ w))) (g0, [])) as [[g rs]| | |]; try discriminate. congruence.
Qed.
End T.

(* for every VDB, enumeration, flag and request: generateStageSet does not run out of fuel *)
Theorem stage_terminates vdb enum bdeps us : stage_set vdb enum bdeps us <> RDiverge.
Proof.
  unfold stage_set.
  pose proof (resolve_user_terminates vdb (installed vdb enum) bdeps (installed_valid vdb enum) us) as T.
  destruct (resolve_user vdb (installed vdb enum) bdeps (S (length vdb)) us); try discriminate. congruence.
Qed.
