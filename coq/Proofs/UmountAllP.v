(* umount -all: the loop over the reversed normalised order, step equation and the light
   invariant used by C04 (user-blocked layers are never touched). *)
From Coq Require Import Sorting.Permutation.
From LC Require Import Lib.Bytes Lib.Lex Lib.Fields Lib.PathM Gen.Consts
  Model.MountInfo Model.FsTree Model.Kernel Model.Layers
  Proofs.MountInfoP Proofs.KernelP Proofs.KrnMonadP Proofs.ProbeP Proofs.RunP Proofs.UmountP
  Cases.LC.
Import LC LCS.
Open Scope N_scope.

Definition um_go (e : env) (c : cfgT) :=
  fix go (names : list bytes) (ld : ldefs) (busy : bool) : M (bool * ldefs) :=
    match names with
    | [] => ret (busy, ld)
    | n :: rest =>
      r <- unmount_layer e c ld n ;;
      go rest (snd r) (busy || match fst r with UBusy => true | _ => false end)
    end.

Lemma unmount_all_eq e c ld :
  unmount e c ld [] true =
  (r <- um_go e c (rev (ld_order ld)) ld false ;; if fst r then fail else ret (snd r)).
Proof. reflexivity. Qed.

Lemma um_go_nil e c ld busy s : um_go e c [] ld busy s = (Ret (busy, ld), s).
Proof. reflexivity. Qed.

Lemma um_go_cons e c n rest ld busy s l : plain e -> lm_get (ld_map ld) n = Some l ->
  forall ok ks' iss, ku_seq (w_ks (s_w s)) (rev (l_kmounts l)) = (ok, ks', iss) ->
  wf_table (ks_tab (w_ks (s_w s))) = true ->
  um_go e c (n :: rest) ld busy s =
  if error_if_busy l false then um_go e c rest ld true s
  else match l_kmounts l with
       | [] => um_go e c rest ld busy s
       | _ :: _ =>
         if ok then
           match after_unmount c (w_fs (s_w s)) (ks_tab ks') ld n with
           | Some r => um_go e c rest (snd r) busy (st_after e s ks' iss)
           | None => (Panicked, st_after e s ks' iss)
           end
         else (Fail, st_after e s ks' iss)
       end.
Proof.
  intros Hp Hg ok ks' iss Hku Hwf.
  change (um_go e c (n :: rest) ld busy s) with
    ((r <- unmount_layer e c ld n ;;
      um_go e c rest (snd r) (busy || match fst r with UBusy => true | _ => false end)) s).
  unfold bind. rewrite (unmount_layer_eq e c ld n l s Hp Hg ok ks' iss Hku).
  2:{ intros _. eapply ku_seq_wf; eauto. }
  destruct (error_if_busy l false); [cbn [fst snd]; now rewrite orb_true_r|].
  destruct (l_kmounts l) as [|t0 ts0]; [cbn [fst snd]; now rewrite orb_false_r|].
  destruct ok; [|reflexivity].
  destruct (after_unmount c (w_fs (s_w s)) (ks_tab ks') ld n) as [[u ld']|] eqn:Ea; [|reflexivity].
  assert (Hu : u = UOk).
  { unfold after_unmount in Ea. cbv zeta in Ea.
    destruct (lm_get (ld_map (refresh_pure c (ks_tab ks') ld)) n); [|discriminate]. now injection Ea as <- _. }
  subst u. cbn [fst snd]. now rewrite orb_false_r.
Qed.

(* the layer definitions after a successful unmount of n *)
Lemma after_unmount_spec c f tab' ld n r : after_unmount c f tab' ld n = Some r ->
  exists l1, lm_get (ld_map (refresh_pure c tab' ld)) n = Some l1 /\
    r = (UOk, set_layer (refresh_pure c tab' ld) (find_layerstate c f (refresh_pure c tab' ld) l1)).
Proof.
  unfold after_unmount. cbv zeta. destruct (lm_get _ n) as [l1|]; [|discriminate].
  intros H. injection H as <-. eauto.
Qed.

Lemma lm_get_map (g : layer -> layer) M n : (forall l, l_name (g l) = l_name l) ->
  lm_get (map g M) n = option_map g (lm_get M n).
Proof.
  intros Hg. induction M as [|y M IH]; cbn; [reflexivity|]. rewrite Hg. destruct (beq (l_name y) n); [reflexivity|exact IH].
Qed.

Lemma after_unmount_some c f tab' ld n l : lm_get (ld_map ld) n = Some l ->
  exists r, after_unmount c f tab' ld n = Some r.
Proof.
  intros Hg. unfold after_unmount. cbv zeta. unfold refresh_pure at 1. cbn [ld_map].
  rewrite lm_get_map by reflexivity. rewrite Hg. cbn. eauto.
Qed.

(* ------------------------------------------------------------------ build roots apart *)
Definition roots_apart (c : cfgT) (m : lmap) : bool :=
  forallb (fun x => forallb (fun y => beq (l_name x) (l_name y)
                                      || negb (at_or_below (build_path c x) (build_path c y))) m) m.

Lemma common_below a b0 t : at_or_below a t = true -> at_or_below b0 t = true ->
  at_or_below a b0 = true \/ at_or_below b0 a = true.
Proof.
  unfold at_or_below at 1 2. intros Ha Hb.
  apply orb_true_iff in Ha as [Ha|Ha].
  { apply beq_true in Ha. subst t. right. unfold at_or_below. exact Hb. }
  apply orb_true_iff in Hb as [Hb|Hb].
  { apply beq_true in Hb. subst t. left. unfold at_or_below. now rewrite Ha, orb_true_r. }
  apply below_spec in Ha as [r1 E1]. apply below_spec in Hb as [r2 E2]. rewrite E1 in E2.
  apply app_eq_app in E2 as [z [[Ea Er]|[Eb Er]]].
  - destruct z as [|ch z].
    + rewrite app_nil_r in Ea. subst. left. apply at_or_below_refl.
    + cbn in Er. injection Er as <- _. right. unfold at_or_below. apply orb_true_iff. right.
      apply below_spec. exists z. exact Ea.
  - destruct z as [|ch z].
    + rewrite app_nil_r in Eb. subst. left. apply at_or_below_refl.
    + cbn in Er. injection Er as <- _. left. unfold at_or_below. apply orb_true_iff. right.
      apply below_spec. exists z. exact Eb.
Qed.

Lemma roots_apart_spec c m x y t : roots_apart c m = true -> In x m -> In y m -> l_name x <> l_name y ->
  at_or_below (build_path c x) t = true -> at_or_below (build_path c y) t = true -> False.
Proof.
  unfold roots_apart. rewrite forallb_forall. intros H Hx Hy Hn Ha Hb.
  pose proof (H x Hx) as H1. pose proof (H y Hy) as H2. rewrite forallb_forall in H1, H2.
  specialize (H1 y Hy). specialize (H2 x Hx).
  apply orb_true_iff in H1 as [H1|H1]; [apply beq_true in H1; contradiction|].
  apply orb_true_iff in H2 as [H2|H2]; [apply beq_true in H2; congruence|].
  apply negb_true_iff in H1, H2.
  destruct (common_below _ _ _ Ha Hb); congruence.
Qed.

Lemma nodup_names_inj (m : lmap) x y : NoDup (map l_name m) -> In x m -> In y m -> l_name x = l_name y -> x = y.
Proof.
  induction m as [|z m IH]; cbn; [intros _ []|]. intros ND Hx Hy E. inversion ND as [|? ? Hn ND']; subst.
  destruct Hx as [->|Hx], Hy as [->|Hy]; auto.
  - exfalso. apply Hn. rewrite E. now apply in_map.
  - exfalso. apply Hn. rewrite <- E. now apply in_map.
Qed.

(* ------------------------------------------------------------------ the light invariant *)
Lemma overlain0_incl T T' d : incl T' T -> overlain0 T d = false -> overlain0 T' d = false.
Proof.
  unfold overlain0. intros Hi H. apply existsb_false_forall. intros k Hk.
  apply (proj1 (existsb_false_forall _ _) H). now apply Hi.
Qed.

Section Light.
Variables (e : env) (c : cfgT) (um : users_map) (m : lmap).
Hypothesis Hp : plain e.

Definition ublocked (x : layer) : bool := existsb (in_mount_dirs c) (users_of um (l_name x)).

Definition RL4 (T : list kline) (x l : layer) : Prop :=
  same_static x l
  /\ l_overlain l = overlain0 T (build_path c x)
  /\ (forall t, In t (l_kmounts l) -> at_or_below (build_path c x) t = true)
  /\ (ublocked x = true -> l_kmounts l = [] \/ l_mbusy l = true).

(* a call may only hit the build root of a layer without a user in its mount directories and
   without an overlay on it in the table T *)
Definition tgt_ok (T : list kline) (t : bytes) : Prop :=
  exists y, In y m /\ ublocked y = false /\ overlain0 T (build_path c y) = false
            /\ at_or_below (build_path c y) t = true.

Lemma RL4_name T x l : RL4 T x l -> l_name l = l_name x.
Proof. intros [[H _] _]. exact H. Qed.

Lemma kmounts0_below tab d t : In t (kmounts0 tab d) -> at_or_below d t = true.
Proof. unfold kmounts0. intros H. apply (proj1 (sort_in _ _)) in H. now apply filter_In in H. Qed.

Lemma tgt_ok_incl T T' t : incl T' T -> tgt_ok T t -> tgt_ok T' t.
Proof. intros Hi (y & A & B & C & D). exists y. repeat split; auto. eapply overlain0_incl; eauto. Qed.

Lemma light_loop : NoDup (map l_name m) -> forall names ld busy s,
  Forall2 (RL4 (ks_tab (w_ks (s_w s)))) m (ld_map ld) -> wf_table (ks_tab (w_ks (s_w s))) = true ->
  exists o s' iss, um_go e c names ld busy s = (o, s')
    /\ s_log s' = rev (umlog e iss) ++ s_log s
    /\ incl (ks_tab (w_ks (s_w s'))) (ks_tab (w_ks (s_w s)))
    /\ Forall (tgt_ok (ks_tab (w_ks (s_w s')))) iss.
Proof.
  intros NDn. induction names as [|n rest IH]; intros ld busy s HF Hwf.
  - exists (Ret (busy, ld)), s, []. split; [reflexivity|]. split; [reflexivity|]. split; [apply incl_refl|constructor].
  - destruct (lm_get (ld_map ld) n) as [l|] eqn:Hg.
    2:{ exists Panicked, s, []. split; [|split; [reflexivity|split; [apply incl_refl|constructor]]].
        change (um_go e c (n :: rest) ld busy s) with
          ((r <- unmount_layer e c ld n ;;
            um_go e c rest (snd r) (busy || match fst r with UBusy => true | _ => false end)) s).
        unfold bind, unmount_layer. rewrite Hg. reflexivity. }
    destruct (ku_seq (w_ks (s_w s)) (rev (l_kmounts l))) as [[ok ks'] iss] eqn:Eku.
    rewrite (um_go_cons e c n rest ld busy s l Hp Hg ok ks' iss Eku Hwf).
    destruct (error_if_busy l false) eqn:Ebusy; [apply IH; assumption|].
    destruct (l_kmounts l) as [|t0 ts0] eqn:Ekm; [apply IH; assumption|].
    (* the layer on disk this entry belongs to *)
    assert (Hx : exists x, In x m /\ RL4 (ks_tab (w_ks (s_w s))) x l).
    { destruct (lm_get_name _ _ _ Hg) as [_ Hin]. clear -HF Hin. induction HF as [|a b0 m M Hab HF IH]; [destruct Hin|].
      destruct Hin as [<-|Hin]; [exists a; split; [now left|exact Hab]|].
      destruct (IH Hin) as (x & Hx & Hr). exists x. split; [now right|exact Hr]. }
    destruct Hx as (x & Hxin & (Hs & Hov & Hkb & Hub)).
    assert (Hnb : ublocked x = false).
    { destruct (ublocked x) eqn:E; [|reflexivity]. destruct (Hub eq_refl) as [K|K]; [congruence|].
      unfold error_if_busy in Ebusy. rewrite K in Ebusy. discriminate. }
    assert (Hno : overlain0 (ks_tab (w_ks (s_w s))) (build_path c x) = false).
    { unfold error_if_busy in Ebusy. rewrite Hov in Ebusy. now apply orb_false_iff in Ebusy. }
    pose proof (ku_seq_incl _ _ _ _ _ Eku) as Hincl.
    assert (Hiss : Forall (tgt_ok (ks_tab (w_ks (s_w s)))) iss).
    { pose proof (ku_seq_sub _ _ _ _ _ Eku) as Hsub.
      apply Forall_forall. intros t Ht. apply Hsub in Ht. rewrite <- in_rev in Ht.
      exists x. split; [exact Hxin|]. split; [exact Hnb|]. split; [exact Hno|]. apply Hkb. now rewrite Ekm. }
    assert (Hiss' : Forall (tgt_ok (ks_tab ks')) iss).
    { eapply Forall_impl; [|exact Hiss]. intros t. now apply tgt_ok_incl. }
    destruct ok.
    2:{ exists Fail, (st_after e s ks' iss), iss. split; [reflexivity|]. split; [reflexivity|]. split; [exact Hincl|exact Hiss']. }
    destruct (after_unmount c (w_fs (s_w s)) (ks_tab ks') ld n) as [r|] eqn:Ea.
    2:{ exists Panicked, (st_after e s ks' iss), iss. split; [reflexivity|]. split; [reflexivity|]. split; [exact Hincl|exact Hiss']. }
    destruct (after_unmount_spec _ _ _ _ _ _ Ea) as (l1 & Hg1 & ->). cbn [snd].
    set (ld1 := refresh_pure c (ks_tab ks') ld) in *.
    destruct (IH (set_layer ld1 (find_layerstate c (w_fs (s_w s)) ld1 l1)) busy (st_after e s ks' iss))
      as (o & s' & iss2 & R & Hlog & Hincl2 & Htg).
    + (* invariant after the update *)
      unfold set_layer. cbn [ld_map st_after s_w w_ks].
      assert (HF1 : Forall2 (RL4 (ks_tab ks')) m (ld_map ld1)).
      { unfold ld1, refresh_pure. cbn [ld_map]. clear -HF. induction HF as [|a b0 m M Hab HF IH]; cbn [map]; constructor; [|exact IH].
        destruct Hab as ((S1 & S2 & S3 & S4 & S5) & A0 & B & C). split; [repeat split; assumption|].
        split. { cbn [l_overlain set_overlain]. now rewrite (build_path_static c a b0 S3). }
        split; [exact B|exact C]. }
      destruct (lm_get_name _ _ _ Hg1) as [Hn1 _].
      pose proof (find_layerstate_fields c (w_fs (s_w s)) ld1 l1) as Hf. unfold lfields in Hf.
      injection Hf as F1 F2 F3 F4 F5 F6 F7 F8 F9 F10.
      eapply forall2_lm_set; [exact HF1|apply RL4_name|exact NDn|exact Hg1|now rewrite F1| |auto].
      intros y Hy ((S1 & S2 & S3 & S4 & S5) & A0 & Hkb1 & Hub1). split; [|split; [|split]].
      * unfold same_static. rewrite F1, F2, F5, F3, F4. auto.
      * now rewrite F8.
      * intros t. rewrite F10. cbn [l_kmounts set_kmounts].
        rewrite mounts_view, (build_path_static c y l1 S3). apply kmounts0_below.
      * intros Hyb. exfalso.
        assert (Exy : l_name y = l_name x).
        { destruct Hs as (S1' & _). destruct (lm_get_name _ _ _ Hg) as [Hln _]. congruence. }
        unfold ublocked in Hyb, Hnb. rewrite Exy in Hyb. congruence.
    + cbn [st_after s_w w_ks]. eapply ku_seq_wf; eauto.
    + cbn [st_after s_w w_ks] in Hincl2.
      exists o, s', (iss ++ iss2). split; [exact R|]. split; [|split].
      * rewrite Hlog. cbn [st_after s_log]. unfold umlog. rewrite map_app, rev_app_distr, app_assoc. reflexivity.
      * eapply incl_tran; eauto.
      * apply Forall_app. split; [|assumption].
        eapply Forall_impl; [|exact Hiss']. intros t. now apply tgt_ok_incl.
Qed.

End Light.
