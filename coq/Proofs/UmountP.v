(* unmount_layer / unmount under a plain environment, as equations over the kernel-level
   sequence [ku_seq]; the link from the operation log to [legal_seq]. *)
From Coq Require Import Sorting.Permutation.
From LC Require Import Lib.Bytes Lib.Lex Lib.Fields Lib.PathM Gen.Consts
  Model.MountInfo Model.FsTree Model.Kernel Model.Layers
  Proofs.MountInfoP Proofs.KernelP Proofs.KrnMonadP Proofs.ProbeP Proofs.RunP Cases.LC.
Import LC LCS.
Open Scope N_scope.

Definition after_unmount (c : cfgT) (f : fsT) (tab' : list kline) (ld : ldefs) (n : bytes)
  : option (ustatus * ldefs) :=
  let ld1 := refresh_pure c tab' ld in
  match lm_get (ld_map ld1) n with
  | None => None
  | Some l1 => Some (UOk, set_layer ld1 (find_layerstate c f ld1 l1))
  end.

Definition st_after (e : env) (s : mst) (ks' : kstate) (iss : list bytes) : mst :=
  MkSt (MkW (w_fs (s_w s)) ks') (length iss + s_n s) (rev (umlog e iss) ++ s_log s).

Lemma unmount_layer_eq e c ld n l s : plain e -> lm_get (ld_map ld) n = Some l ->
  forall ok ks' iss, ku_seq (w_ks (s_w s)) (rev (l_kmounts l)) = (ok, ks', iss) ->
  (ok = true -> wf_table (ks_tab ks') = true) ->
  unmount_layer e c ld n s =
  if error_if_busy l false then (Ret (UBusy, ld), s)
  else match l_kmounts l with
       | [] => (Ret (UNotMounted, ld), s)
       | _ :: _ =>
         if ok then
           match after_unmount c (w_fs (s_w s)) (ks_tab ks') ld n with
           | Some r => (Ret r, st_after e s ks' iss)
           | None => (Panicked, st_after e s ks' iss)
           end
         else (Fail, st_after e s ks' iss)
       end.
Proof.
  intros Hp Hg ok ks' iss Hku Hwf. unfold unmount_layer. rewrite Hg.
  destruct (error_if_busy l false); [reflexivity|].
  destruct (l_kmounts l) as [|a r] eqn:Ek; [reflexivity|].
  unfold bind at 1. rewrite unmount_seq by assumption. rewrite Hku. fold (st_after e s ks' iss).
  destruct ok; [|reflexivity].
  unfold bind at 1. rewrite refresh_mounts_spec by (cbn; now apply Hwf).
  unfold bind at 1. unfold get_fs. cbn [st_after s_w w_ks w_fs].
  unfold after_unmount. cbv zeta.
  destruct (lm_get (ld_map (refresh_pure c (ks_tab ks') ld)) n); reflexivity.
Qed.

(* ------------------------------------------------------------------ log and replay *)
Lemma syscalls_umlog e iss : syscalls (umlog e iss) = umlog e iss.
Proof. unfold syscalls, umlog. induction iss as [|t r IH]; cbn; [reflexivity|]. now rewrite IH. Qed.
Lemma umount_targets_umlog e iss : umount_targets (umlog e iss) = iss.
Proof. unfold umount_targets, umlog. induction iss as [|t r IH]; cbn; [reflexivity|]. now rewrite IH. Qed.

Definition in_roots (roots : list bytes) (t : bytes) : bool := existsb (fun d => at_or_under d t) roots.

Lemma replay_umlog f e roots iss : forall ks,
  replay_calls f ks (umlog e iss) (fun ks o =>
    match o with
    | OUmount t _ =>
      mounted_at (ks_tab ks) t
      && existsb (fun d => at_or_under d t) roots
      && negb (existsb (fun k => under t (k_mp k)) (ks_tab ks))
    | OMount _ _ _ _ _ => false
    | _ => true
    end) = legal_seq (um_legal (in_roots roots)) ks iss.
Proof.
  induction iss as [|t r IH]; intros ks; cbn [umlog map replay_calls legal_seq]; [reflexivity|].
  change (kumount ks t (umflag e)) with (kumount ks t 0).
  unfold um_legal at 1, mounted_at, in_roots at 1. f_equal.
  destruct (kumount ks t 0); apply IH.
Qed.

Lemma wf_table_dels P a b0 : dels P a b0 -> wf_table a = true -> wf_table b0 = true.
Proof. unfold wf_table. apply dels_forallb. Qed.
