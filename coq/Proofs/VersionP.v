(* The version part of pkgVerRE against PMS 3.2: the hand-written matcher [ver_tail] accepts
   exactly the printed forms of well-formed versions (plus an optional trailing star), and
   cuts them into the pieces they were written with. *)
From LC Require Import Lib.Bytes Lib.Fields Gen.Consts Model.AtomParse Model.DepParse Model.PMSGrammar
  Proofs.AtomParseP.
From Coq Require Import ZifyBool ZifyNat ZifyN.
Open Scope list_scope.
Open Scope N_scope.

Lemma impl_bytes_neg (p q : ascii -> bool) : (forall c, implb (p c) (negb (q c)) = true) -> forall c, p c = true -> q c = false.
Proof. intros H c E. specialize (H c). rewrite E in H. cbn in H. now apply negb_true_iff. Qed.

Definition nd (d : bytes) : Prop := d <> [] /\ forallb is_digit d = true.
Lemma nonempty_digits_nd d : nonempty_digits d = true <-> nd d.
Proof.
  unfold nonempty_digits, nd. split.
  - intros H. apply andb_true_iff in H as [H1 H2]. split; [|exact H2]. destruct d; [discriminate|discriminate].
  - intros [H1 H2]. rewrite H2. destruct d; [congruence|reflexivity].
Qed.

(* what may follow the numbers-and-letter / the suffixes of a version: "-", "*" or the end *)
Definition vstop (r : bytes) : Prop := r = [] \/ is 45 (peek r) = true \/ is 42 (peek r) = true.
Lemma vstop_facts r : vstop r ->
  is_digit (peek r) = false /\ is 46 (peek r) = false /\ is_lower (peek r) = false /\ is 95 (peek r) = false.
Proof.
  assert (H45 : forall c, implb (is 45 c || is 42 c || is 0 c) (negb (is_digit c) && negb (is 46 c) && negb (is_lower c) && negb (is 95 c)) = true) by bytes_check.
  intros [->|H].
  - cbn. repeat split.
  - specialize (H45 (peek r)). assert (E : is 45 (peek r) || is 42 (peek r) || is 0 (peek r) = true) by (destruct H as [-> | ->]; [reflexivity|apply orb_true_iff; left; apply orb_true_r]).
    rewrite E in H45. cbn in H45. repeat (apply andb_true_iff in H45 as [H45 ?]). repeat split; now apply negb_true_iff.
Qed.

(* ---- numbers ---- *)
Lemma scan_nums_digits d : forallb is_digit d = true -> forall r,
  scan_nums (d ++ r) = (d ++ fst (scan_nums r), snd (scan_nums r)).
Proof.
  induction d as [|c d IH]; intros Hd r; cbn [app].
  - now destruct (scan_nums r).
  - cbn in Hd. apply andb_true_iff in Hd as [Hc Hd]. cbn [scan_nums]. rewrite Hc. cbn [orb]. rewrite IH by assumption. reflexivity.
Qed.
Lemma scan_nums_stop r : is_digit (peek r) = false -> is 46 (peek r) = false -> scan_nums r = ([], r).
Proof. destruct r as [|c r]; [reflexivity|]. cbn. intros -> ->. reflexivity. Qed.

Lemma peek_join_digit (nums : list bytes) r : nums <> [] -> Forall nd nums -> is_digit (peek (join (nb 46) nums ++ r)) = true.
Proof.
  intros Hne HF. destruct nums as [|d ns]; [congruence|]. inversion HF as [|? ? [Hd1 Hd2] _]; subst.
  destruct d as [|c d]; [congruence|]. cbn in Hd2. apply andb_true_iff in Hd2 as [Hc _].
  destruct ns; cbn; exact Hc.
Qed.

Lemma scan_nums_join nums : nums <> [] -> Forall nd nums -> forall r,
  is_digit (peek r) = false -> is 46 (peek r) = false ->
  scan_nums (join (nb 46) nums ++ r) = (join (nb 46) nums, r).
Proof.
  induction nums as [|d ns IH]; [congruence|]. intros _ HF r H1 H2. inversion HF as [|? ? [Hd1 Hd2] HF']; subst.
  destruct ns as [|d2 ns].
  - cbn [join]. rewrite scan_nums_digits by assumption. rewrite scan_nums_stop by assumption. cbn. now rewrite app_nil_r.
  - change (join (nb 46) (d :: d2 :: ns)) with (d ++ nb 46 :: join (nb 46) (d2 :: ns)). rewrite <- app_assoc.
    rewrite scan_nums_digits by assumption. cbn [app].
    assert (E : scan_nums (nb 46 :: join (nb 46) (d2 :: ns) ++ r) = (nb 46 :: join (nb 46) (d2 :: ns), r)).
    { cbn [scan_nums]. rewrite (peek_join_digit (d2 :: ns) r) by (auto; discriminate).
      replace (is_digit (nb 46) || is 46 (nb 46) && true) with true by reflexivity.
      rewrite IH by (auto; discriminate). reflexivity. }
    rewrite E. reflexivity.
Qed.

(* ---- suffixes ---- *)
Lemma suf_walk_skip k : k <> [] -> forall ins r,
  suf_walk (length k) ins (k ++ r) = (k ++ fst (suf_walk O true r), snd (suf_walk O true r)).
Proof.
  induction k as [|c k IH]; [congruence|]. intros _ ins r. destruct k as [|c2 k].
  - cbn. now destruct (suf_walk O true r).
  - change (suf_walk (length (c :: c2 :: k)) ins ((c :: c2 :: k) ++ r))
      with (let '(a, b) := suf_walk (length (c2 :: k)) true ((c2 :: k) ++ r) in (c :: a, b)).
    rewrite IH by discriminate. reflexivity.
Qed.
Lemma suf_walk_digits d : forallb is_digit d = true -> forall r,
  suf_walk O true (d ++ r) = (d ++ fst (suf_walk O true r), snd (suf_walk O true r)).
Proof.
  assert (Hd95 : forall c, is_digit c = true -> is 95 c = false) by (apply impl_bytes_neg; bytes_check).
  induction d as [|c d IH]; intros Hd r; cbn [app].
  - now destruct (suf_walk O true r).
  - cbn in Hd. apply andb_true_iff in Hd as [Hc Hd]. cbn [suf_walk]. rewrite (Hd95 c Hc). rewrite Hc. cbn [andb].
    rewrite IH by assumption. reflexivity.
Qed.
Lemma suf_walk_stop ins r : is 95 (peek r) = false -> is_digit (peek r) = false -> suf_walk O ins r = ([], r).
Proof. destruct r as [|c r]; [reflexivity|]. cbn. intros -> ->. now rewrite andb_false_r. Qed.

Definition sufwf (s : N * bytes) : Prop := fst s <= 4 /\ forallb is_digit (snd s) = true.

Lemma kind_len_print k x : k <= 4 -> is_lower (peek x) = false -> kind_len (suf_name k ++ x) = Some (length (suf_name k)).
Proof.
  intros Hk Hx. assert (Hc : k = 0 \/ k = 1 \/ k = 2 \/ k = 3 \/ k = 4) by lia.
  destruct Hc as [ -> | [ -> | [ -> | [ -> | -> ] ] ] ]; try reflexivity.
  change (suf_name 4 ++ x) with (nb 112 :: x). unfold kind_len.
  replace (prefixb (bs "alpha") (nb 112 :: x)) with false by reflexivity.
  replace (prefixb (bs "beta") (nb 112 :: x)) with false by reflexivity.
  replace (prefixb (bs "rc") (nb 112 :: x)) with false by reflexivity.
  replace (prefixb (bs "p") (nb 112 :: x)) with true by reflexivity.
  replace (prefixb (bs "pre") (nb 112 :: x)) with (prefixb (bs "re") x) by reflexivity.
  assert (E : prefixb (bs "re") x = false).
  { destruct x as [|c x]; [reflexivity|]. cbn [peek] in Hx. change (prefixb (bs "re") (c :: x)) with (Ascii.eqb (nb 114) c && prefixb (bs "e") x).
    destruct (Ascii.eqb (nb 114) c) eqn:E; [|reflexivity]. apply Ascii.eqb_eq in E. subst c. discriminate. }
  rewrite E. reflexivity.
Qed.

Lemma suf_name_ne k : suf_name k <> [].
Proof. unfold suf_name. repeat (destruct (_ =? _); [discriminate|]). discriminate. Qed.

Lemma peek_sufs_follow (sufs : list (N * bytes)) r : is_lower (peek r) = false -> forall d, forallb is_digit d = true ->
  is_lower (peek (d ++ flat_map print_suf sufs ++ r)) = false.
Proof.
  assert (Hd : forall c, is_digit c = true -> is_lower c = false) by (apply impl_bytes_neg; bytes_check).
  intros Hr d Hdig. destruct d as [|c d].
  - cbn [app]. destruct sufs as [|s sufs]; [exact Hr|]. reflexivity.
  - cbn in *. apply andb_true_iff in Hdig as [Hc _]. now apply Hd.
Qed.

Lemma suf_walk_print sufs : Forall sufwf sufs -> forall ins r, vstop r ->
  suf_walk O ins (flat_map print_suf sufs ++ r) = (flat_map print_suf sufs, r).
Proof.
  induction sufs as [|[k d] sufs IH]; intros HF ins r Hr; destruct (vstop_facts r Hr) as (H1 & H2 & H3 & H4).
  - cbn [flat_map app]. now apply suf_walk_stop.
  - inversion HF as [|? ? [Hk Hd] HF']; subst. cbn [fst snd] in *.
    cbn [flat_map]. set (F := flat_map print_suf sufs) in *.
    assert (Es : (print_suf (k, d) ++ F) ++ r = nb 95 :: (suf_name k ++ (d ++ F ++ r))).
    { unfold print_suf. cbn [fst snd app]. now rewrite <- !app_assoc. }
    rewrite Es. cbn [suf_walk]. replace (is 95 (nb 95)) with true by reflexivity.
    rewrite kind_len_print; [|assumption|now apply peek_sufs_follow].
    rewrite suf_walk_skip by apply suf_name_ne. rewrite suf_walk_digits by assumption.
    rewrite (IH HF' true r Hr). cbn [fst snd]. unfold print_suf. cbn [fst snd app]. now rewrite <- !app_assoc.
Qed.

(* ---- the matcher on a printed version ---- *)
Definition globtxt (g : bool) : bytes := if g then [nb 42] else [].
Definition revtxt (v : version_ast) : bytes := match v_rev v with Some d => nb 45 :: nb 114 :: d | None => [] end.
Lemma print_version_eq v : print_version v = print_ver_main v ++ print_sufs v ++ revtxt v.
Proof. reflexivity. Qed.

Record wfv (v : version_ast) : Prop := {
  wfv_ne : v_nums v <> [];
  wfv_nums : Forall nd (v_nums v);
  wfv_letter : match v_letter v with Some c => is_lower c = true | None => True end;
  wfv_sufs : Forall sufwf (v_sufs v);
  wfv_rev : match v_rev v with Some d => nd d | None => True end }.
Lemma wf_version_wfv v : wf_version v = true -> wfv v.
Proof.
  unfold wf_version. intros H. apply andb_true_iff in H as [H HE]. apply andb_true_iff in H as [H HD].
  apply andb_true_iff in H as [H HC]. apply andb_true_iff in H as [HA HB]. constructor.
  - destruct (v_nums v); [discriminate|discriminate].
  - apply Forall_forall. intros d Hd. apply nonempty_digits_nd. rewrite forallb_forall in HB. now apply HB.
  - destruct (v_letter v); auto.
  - apply Forall_forall. intros s Hs. rewrite forallb_forall in HD. specialize (HD s Hs).
    apply andb_true_iff in HD as [Ha Hb]. split; [lia|exact Hb].
  - destruct (v_rev v); [now apply nonempty_digits_nd|exact I].
Qed.

Lemma vstop_rev_glob v g : vstop (revtxt v ++ globtxt g).
Proof. unfold vstop, revtxt, globtxt. destruct (v_rev v), g; cbn; auto. Qed.
Lemma take_rev_print v g : wfv v -> take_rev (revtxt v ++ globtxt g) = (print_rev v, globtxt g).
Proof.
  intros W. pose proof (wfv_rev v W) as Hr. unfold revtxt, print_rev. destruct (v_rev v) as [d|].
  - destruct Hr as [Hne Hd]. unfold take_rev. cbn [app peek peek1 peek2 tl].
    destruct d as [|c d]; [congruence|]. cbn [app peek2].
    pose proof Hd as Hd'. cbn in Hd'. apply andb_true_iff in Hd' as [Hc _]. rewrite Hc.
    replace (is 45 (nb 45) && is 114 (nb 114) && true) with true by reflexivity.
    change (c :: d ++ globtxt g) with ((c :: d) ++ globtxt g).
    rewrite (span_exact is_digit (c :: d) Hd); [reflexivity|]. destruct g; [right; reflexivity|now left].
  - unfold take_rev. destruct g; reflexivity.
Qed.
Lemma take_glob_print g : take_glob (globtxt g) = (g, []).
Proof. destruct g; reflexivity. Qed.

Theorem ver_tail_print v g : wfv v ->
  ver_tail (print_version v ++ globtxt g) = Some (MkVT (print_ver_main v) (print_sufs v) (print_rev v) g).
Proof.
  intros W. pose proof W as [Hne Hnums Hlet Hsufs Hrev].
  rewrite print_version_eq. unfold print_ver_main. rewrite <- !app_assoc.
  set (R3 := revtxt v ++ globtxt g). set (R2 := print_sufs v ++ R3). set (R1 := opt_char (v_letter v) ++ R2).
  pose proof (vstop_rev_glob v g) as HR3. fold R3 in HR3.
  assert (HR2 : is_digit (peek R2) = false /\ is 46 (peek R2) = false /\ is_lower (peek R2) = false).
  { unfold R2, print_sufs. destruct (v_sufs v) as [|s sufs]; [|cbn; repeat split].
    cbn [flat_map app]. destruct (vstop_facts R3 HR3) as (A & B & C & _). auto. }
  assert (HR1 : is_digit (peek R1) = false /\ is 46 (peek R1) = false).
  { unfold R1. destruct (v_letter v) as [c|]; [|cbn [opt_char app]; tauto]. cbn [opt_char app peek].
    assert (Hl : forall c, is_lower c = true -> is_digit c = false /\ is 46 c = false).
    { intros c0 Hc0. split; revert c0 Hc0; apply impl_bytes_neg; bytes_check. }
    now apply Hl. }
  unfold ver_tail. rewrite peek_join_digit by assumption. cbn [negb].
  rewrite scan_nums_join by tauto.
  assert (EL : take_letter R1 = (opt_char (v_letter v), R2)).
  { unfold take_letter, R1. destruct (v_letter v) as [c|]; cbn [opt_char app peek tl].
    - now rewrite Hlet. - destruct HR2 as (_ & _ & ->). reflexivity. }
  rewrite EL. unfold R2, print_sufs. rewrite suf_walk_print by assumption.
  unfold R3. rewrite take_rev_print by assumption. rewrite take_glob_print. reflexivity.
Qed.

(* ---- conversely: whatever the matcher accepts is a printed well-formed version ---- *)
Definition numsP (a : bytes) : Prop := exists nums, nums <> [] /\ Forall nd nums /\ a = join (nb 46) nums.

Lemma join_cons_digit c (nums : list bytes) : nums <> [] ->
  c :: join (nb 46) nums = join (nb 46) ((c :: hd [] nums) :: tl nums).
Proof. destruct nums as [|n [|n2 r]]; [congruence| |]; reflexivity. Qed.

Lemma scan_nums_shape s : forall a b, scan_nums s = (a, b) ->
  s = a ++ b /\
  (a = [] \/ (is_digit (peek a) = true /\ numsP a) \/
   (exists a', a = nb 46 :: a' /\ is_digit (peek a') = true /\ numsP a')).
Proof.
  induction s as [|c r IH]; intros a b E.
  - cbn in E. injection E as <- <-. split; [reflexivity|now left].
  - cbn [scan_nums] in E. destruct (is_digit c || is 46 c && is_digit (peek r)) eqn:Ec.
    2:{ injection E as <- <-. split; [reflexivity|now left]. }
    destruct (scan_nums r) as [a' b'] eqn:Er. injection E as <- <-.
    destruct (IH a' b' eq_refl) as [Hs Hsh]. split; [cbn; now f_equal|]. right.
    destruct (is_digit c) eqn:Ed.
    + left. split; [exact Ed|]. destruct Hsh as [->|[[Hp (nums & Hne & HF & ->)]|(a'' & -> & Hp & (nums & Hne & HF & ->))]].
      * exists [[c]]. repeat split; [discriminate|]. constructor; [|constructor]. split; [discriminate|]. cbn. now rewrite Ed.
      * exists ((c :: hd [] nums) :: tl nums). split; [discriminate|]. split; [|now apply join_cons_digit].
        destruct nums as [|n ns]; [congruence|]. inversion HF as [|? ? [Hn1 Hn2] HF']; subst. cbn [hd tl].
        constructor; [|exact HF']. split; [discriminate|]. cbn. now rewrite Ed, Hn2.
      * exists ([c] :: nums). split; [discriminate|]. split.
        -- constructor; [|exact HF]. split; [discriminate|]. cbn. now rewrite Ed.
        -- destruct nums; [congruence|reflexivity].
    + right. cbn [orb] in Ec. apply andb_true_iff in Ec as [E46 Edr]. apply is_eq in E46. subst c.
      exists a'. split; [reflexivity|].
      destruct r as [|d r']; [cbn in Edr; discriminate|]. cbn [peek] in Edr.
      cbn [scan_nums] in Er. rewrite Edr in Er. cbn [orb] in Er. destruct (scan_nums r') as [a2 b2]. injection Er as <- <-.
      cbn [peek]. split; [exact Edr|].
      destruct Hsh as [Hnil|[[_ Hn]|(a'' & Ha & _)]]; [discriminate|exact Hn|].
      injection Ha as -> _. discriminate.
Qed.

Lemma kind_len_some r m : kind_len r = Some m ->
  exists k r', k <= 4 /\ r = suf_name k ++ r' /\ m = length (suf_name k).
Proof.
  unfold kind_len.
  destruct (prefixb (bs "alpha") r) eqn:E0. { intros E. injection E as <-. apply prefixb_spec in E0 as [r' ->]. exists 0, r'. repeat split. lia. }
  destruct (prefixb (bs "beta") r) eqn:E1. { intros E. injection E as <-. apply prefixb_spec in E1 as [r' ->]. exists 1, r'. repeat split. lia. }
  destruct (prefixb (bs "pre") r) eqn:E2. { intros E. injection E as <-. apply prefixb_spec in E2 as [r' ->]. exists 2, r'. repeat split. lia. }
  destruct (prefixb (bs "rc") r) eqn:E3. { intros E. injection E as <-. apply prefixb_spec in E3 as [r' ->]. exists 3, r'. repeat split. lia. }
  destruct (prefixb (bs "p") r) eqn:E4. { intros E. injection E as <-. apply prefixb_spec in E4 as [r' ->]. exists 4, r'. repeat split. lia. }
  discriminate.
Qed.

Lemma suf_walk_shape n : forall s, (length s <= n)%nat -> forall ins a b, suf_walk O ins s = (a, b) ->
  s = a ++ b /\ exists D sufs, forallb is_digit D = true /\ (ins = false -> D = []) /\ Forall sufwf sufs /\
                 a = D ++ flat_map print_suf sufs.
Proof.
  induction n as [|n IH]; intros s Hl ins a b E.
  - destruct s; [|cbn in Hl; lia]. cbn in E. injection E as <- <-. split; [reflexivity|]. exists [], []. repeat split; auto.
  - destruct s as [|c r]. { cbn in E. injection E as <- <-. split; [reflexivity|]. exists [], []. repeat split; auto. }
    cbn [suf_walk] in E. cbn [length] in Hl. destruct (is 95 c) eqn:E95.
    + destruct (kind_len r) as [m|] eqn:Ek.
      2:{ injection E as <- <-. split; [reflexivity|]. exists [], []. repeat split; auto. }
      apply kind_len_some in Ek as (k & r' & Hk & -> & ->).
      rewrite suf_walk_skip in E by apply suf_name_ne. destruct (suf_walk O true r') as [a' b'] eqn:E'.
      cbn [fst snd] in E. injection E as <- <-.
      assert (Hl' : (length r' <= n)%nat) by (rewrite app_length in Hl; lia).
      destruct (IH r' Hl' true a' b' E') as (Hs & D & sufs & HD & _ & HF & ->).
      apply is_eq in E95. subst c. split; [cbn; rewrite Hs, <- !app_assoc; reflexivity|].
      exists [], ((k, D) :: sufs). repeat split; auto.
      * constructor; [split; [exact Hk|exact HD]|exact HF].
      * cbn [flat_map app]. unfold print_suf. cbn [fst snd app]. now rewrite <- !app_assoc.
    + destruct (ins && is_digit c) eqn:Ei.
      2:{ injection E as <- <-. split; [reflexivity|]. exists [], []. repeat split; auto. }
      apply andb_true_iff in Ei as [-> Hc]. destruct (suf_walk O true r) as [a' b'] eqn:E'. injection E as <- <-.
      destruct (IH r ltac:(lia) true a' b' E') as (Hs & D & sufs & HD & _ & HF & ->).
      split; [cbn; now rewrite Hs|]. exists (c :: D), sufs. repeat split; auto.
      * cbn. now rewrite Hc, HD. * discriminate.
Qed.

Lemma take_letter_shape r l r2 : take_letter r = (l, r2) ->
  r = l ++ r2 /\ exists o, l = opt_char o /\ match o with Some c => is_lower c = true | None => True end.
Proof.
  unfold take_letter. destruct (is_lower (peek r)) eqn:E; intros H; injection H as <- <-.
  - destruct r as [|c r]; [cbn in E; discriminate|]. split; [reflexivity|]. exists (Some c). split; [reflexivity|exact E].
  - split; [reflexivity|]. now exists None.
Qed.
Lemma take_rev_shape r rv r4 : take_rev r = (rv, r4) ->
  exists o, r = (match o with Some d => nb 45 :: nb 114 :: d | None => [] end) ++ r4 /\
            rv = (match o with Some d => nb 114 :: d | None => [] end) /\
            match o with Some d => nd d | None => True end.
Proof.
  unfold take_rev. destruct (is 45 (peek r) && is 114 (peek1 r) && is_digit (peek2 r)) eqn:E.
  - apply andb_true_iff in E as [E E3]. apply andb_true_iff in E as [E1 E2].
    destruct r as [|c1 [|c2 [|c3 r']]]; try (cbn in E3; discriminate). cbn [peek peek1 peek2 tl] in *.
    apply is_eq in E1, E2. subst c1 c2. destruct (span is_digit (c3 :: r')) as [d r''] eqn:Es.
    intros H. injection H as <- <-. exists (Some d). pose proof (span_app _ _ _ _ Es) as Ha. pose proof (span_all _ _ _ _ Es) as Hd.
    split; [cbn; now rewrite Ha|]. split; [reflexivity|]. split; [|exact Hd].
    cbn in Es. rewrite E3 in Es. destruct (span is_digit r'). injection Es as <- _. discriminate.
  - intros H. injection H as <- <-. exists None. repeat split.
Qed.
Lemma take_glob_shape r g r5 : take_glob r = (g, r5) -> r = globtxt g ++ r5.
Proof.
  unfold take_glob. destruct (is 42 (peek r)) eqn:E; intros H; injection H as <- <-; [|reflexivity].
  destruct r as [|c r]; [cbn in E; discriminate|]. cbn in *. apply is_eq in E. now subst.
Qed.

Theorem ver_tail_sound x t : ver_tail x = Some t ->
  exists v g, wfv v /\ x = print_version v ++ globtxt g /\
              t = MkVT (print_ver_main v) (print_sufs v) (print_rev v) g.
Proof.
  unfold ver_tail. destruct (is_digit (peek x)) eqn:Ed; cbn [negb]; [|discriminate].
  destruct (scan_nums x) as [nums r1] eqn:E1. destruct (take_letter r1) as [letter r2] eqn:E2.
  destruct (suf_walk O false r2) as [suf r3] eqn:E3. destruct (take_rev r3) as [rv r4] eqn:E4.
  destruct (take_glob r4) as [g r5] eqn:E5. destruct (isnil r5) eqn:E6; [|discriminate].
  intros H. injection H as <-. destruct r5; [|discriminate].
  apply scan_nums_shape in E1 as [Hx Hsh]. apply take_letter_shape in E2 as (Hr1 & o & -> & Ho).
  apply (suf_walk_shape (length r2) r2 (le_n _)) in E3 as (Hr2 & D & sufs & _ & HD & HF & ->). rewrite (HD eq_refl) in *. cbn [app] in *.
  apply take_rev_shape in E4 as (orev & Hr3 & -> & Hrev). apply take_glob_shape in E5. rewrite app_nil_r in E5.
  assert (Hn : numsP nums).
  { destruct Hsh as [->|[[_ Hn]|(a' & -> & _)]]; [|exact Hn|].
    - cbn [app] in Hx. subst x. exfalso.
      assert (Hl : forall c, is_lower c = true -> is_digit c = false) by (apply impl_bytes_neg; bytes_check).
      destruct o as [c|]; cbn [opt_char app] in *.
      + subst r1. cbn in Ed. rewrite (Hl c Ho) in Ed. discriminate.
      + subst r1 r2. destruct sufs as [|s sufs]; cbn [flat_map app] in Ed.
        * subst r3 r4. destruct orev, g; cbn in Ed; discriminate.
        * cbn in Ed. discriminate.
    - subst x. cbn in Ed. discriminate. }
  destruct Hn as (ns & Hne & HFn & ->).
  exists (MkVer ns o sufs orev), g. split; [constructor; cbn; auto|]. split; [|reflexivity].
  rewrite print_version_eq. unfold print_ver_main, print_sufs, revtxt. cbn [v_nums v_letter v_sufs v_rev].
  rewrite Hx, Hr1, Hr2, Hr3, E5. now rewrite <- !app_assoc.
Qed.

(* ---- properties of printed versions ---- *)
(* every hyphen is followed by "r" *)
Fixpoint hy_r (s : bytes) : bool :=
  match s with [] => true | c :: r => (negb (is 45 c) || is 114 (peek r)) && hy_r r end.
Definition nohy (c : ascii) : bool := negb (is 45 c).
Lemma hy_r_nohy a : forallb nohy a = true -> forall b, hy_r (a ++ b) = hy_r b.
Proof.
  induction a as [|c a IH]; intros Ha b; [reflexivity|]. cbn in Ha. apply andb_true_iff in Ha as [Hc Ha].
  cbn [app hy_r]. unfold nohy in Hc. rewrite Hc. cbn [orb andb]. now apply IH.
Qed.
Lemma hy_r_bad y d rest : is_digit d = true -> hy_r (y ++ nb 45 :: d :: rest) = false.
Proof.
  assert (Hd : forall c, is_digit c = true -> is 114 c = false) by (apply impl_bytes_neg; bytes_check).
  intros H. induction y as [|c y IH]; cbn [app hy_r peek].
  - rewrite (Hd d H). reflexivity.
  - rewrite IH. apply andb_false_r.
Qed.

(* characters of the numbers, letter and suffixes *)
Definition vb_char (c : ascii) : bool := is_digit c || is 46 c || is_lower c || is 95 c.
Lemma forallb_app_intro {A} (p : A -> bool) a b : forallb p a = true -> forallb p b = true -> forallb p (a ++ b) = true.
Proof. intros. rewrite forallb_app. now rewrite H, H0. Qed.
Lemma vb_digits d : forallb is_digit d = true -> forallb vb_char d = true.
Proof. apply forallb_impl. apply impl_bytes. bytes_check. Qed.
Lemma vb_join nums : Forall nd nums -> forallb vb_char (join (nb 46) nums) = true.
Proof.
  induction nums as [|d ns IH]; intros HF; [reflexivity|]. inversion HF as [|? ? [_ Hd] HF']; subst.
  destruct ns as [|d2 ns]; [now apply vb_digits|].
  change (join (nb 46) (d :: d2 :: ns)) with (d ++ nb 46 :: join (nb 46) (d2 :: ns)).
  apply forallb_app_intro; [now apply vb_digits|]. cbn [forallb]. rewrite IH by assumption. reflexivity.
Qed.
Lemma vb_suf_name k : forallb vb_char (suf_name k) = true.
Proof. unfold suf_name. repeat (destruct (_ =? _); [reflexivity|]). reflexivity. Qed.
Lemma vb_sufs sufs : Forall sufwf sufs -> forallb vb_char (flat_map print_suf sufs) = true.
Proof.
  induction sufs as [|[k d] sufs IH]; intros HF; [reflexivity|]. inversion HF as [|? ? [_ Hd] HF']; subst. cbn [fst snd] in *.
  cbn [flat_map]. apply forallb_app_intro; [|now apply IH]. unfold print_suf. cbn [fst snd forallb].
  replace (vb_char (nb 95)) with true by reflexivity. cbn [andb]. apply forallb_app_intro; [apply vb_suf_name|now apply vb_digits].
Qed.
Lemma vb_body v : wfv v -> forallb vb_char (print_ver_main v ++ print_sufs v) = true.
Proof.
  intros [Hne Hn Hl Hs Hr]. unfold print_ver_main, print_sufs. repeat apply forallb_app_intro.
  - now apply vb_join. - destruct (v_letter v) as [c|]; [|reflexivity]. cbn. unfold vb_char. rewrite Hl. now rewrite !orb_true_r.
  - now apply vb_sufs.
Qed.
Lemma vb_nohy : forall c, vb_char c = true -> nohy c = true.
Proof. apply impl_bytes. bytes_check. Qed.

Lemma hy_r_version v g : wfv v -> hy_r (print_version v ++ globtxt g) = true.
Proof.
  intros W. rewrite print_version_eq. rewrite app_assoc, <- app_assoc.
  rewrite hy_r_nohy by (eapply forallb_impl; [apply vb_nohy|now apply vb_body]).
  unfold revtxt. pose proof (wfv_rev v W) as Hr. destruct (v_rev v) as [d|].
  - destruct Hr as [_ Hd]. cbn [app].
    change (hy_r (nb 45 :: nb 114 :: d ++ globtxt g)) with ((negb (is 45 (nb 45)) || is 114 (nb 114)) && hy_r (nb 114 :: d ++ globtxt g)).
    replace (negb (is 45 (nb 45)) || is 114 (nb 114)) with true by reflexivity. cbn [andb].
    rewrite <- (app_nil_r (nb 114 :: d ++ globtxt g)). rewrite hy_r_nohy; [reflexivity|].
    cbn [forallb]. replace (nohy (nb 114)) with true by reflexivity. cbn [andb]. apply forallb_app_intro.
    + eapply forallb_impl; [|exact Hd]. apply impl_bytes. bytes_check. + destruct g; reflexivity.
  - cbn [app]. destruct g; reflexivity.
Qed.

(* every character of a printed version (with optional star) *)
Definition ver_char (c : ascii) : bool := vb_char c || is 45 c || is 42 c.
Lemma ver_chars v g : wfv v -> forallb ver_char (print_version v ++ globtxt g) = true.
Proof.
  intros W. rewrite print_version_eq.
  replace (print_ver_main v ++ print_sufs v ++ revtxt v) with ((print_ver_main v ++ print_sufs v) ++ revtxt v) by now rewrite app_assoc.
  apply forallb_app_intro; [apply forallb_app_intro|].
  - eapply forallb_impl; [|now apply vb_body]. intros c Hc. unfold ver_char. now rewrite Hc.
  - unfold revtxt. pose proof (wfv_rev v W) as Hr. destruct (v_rev v) as [d|]; [|reflexivity]. destruct Hr as [_ Hd].
    cbn [forallb]. replace (ver_char (nb 45)) with true by reflexivity. replace (ver_char (nb 114)) with true by reflexivity.
    cbn [andb]. eapply forallb_impl; [|exact Hd]. apply impl_bytes. bytes_check.
  - destruct g; reflexivity.
Qed.

(* ---- the reference recogniser accepts printed versions (sanity of the reference itself) ---- *)
Lemma split2_acc_nosep sep a : nosep sep a -> forall cur, split2_acc sep cur a = (rev (rev a ++ cur), None).
Proof.
  induction a as [|c a IH]; intros Hn cur; cbn; [reflexivity|].
  assert (c <> sep) by (intro; subst; apply Hn; now left).
  destruct (Ascii.eqb c sep) eqn:E; [apply Ascii.eqb_eq in E; congruence|].
  rewrite IH by (intro; apply Hn; now right). now rewrite <- app_assoc.
Qed.
Lemma nosep_forallb sep (p : ascii -> bool) a : (forall c, p c = true -> c <> sep) -> forallb p a = true -> nosep sep a.
Proof. intros Hp Ha Hin. rewrite forallb_forall in Ha. apply (Hp sep); auto. Qed.
Lemma is_neq n m c : n <> m -> is n c = true -> c <> nb m.
Proof. intros Hn H E. subst c. unfold is in H. apply N.eqb_eq in H. vm_compute in H. Abort.

Lemma vb_not_hy : forall c, vb_char c = true -> c <> nb 45.
Proof. intros c H E. subst. discriminate. Qed.
Lemma digit_not : forall c, is_digit c = true -> c <> nb 46 /\ c <> nb 95 /\ c <> nb 45.
Proof. intros c H. repeat split; intros E; subst; discriminate. Qed.
Lemma lower_not : forall c, is_lower c = true -> c <> nb 46 /\ c <> nb 95 /\ c <> nb 45.
Proof. intros c H. repeat split; intros E; subst; discriminate. Qed.

Definition chunk_of (s : N * bytes) : bytes := suf_name (fst s) ++ snd s.
Lemma body_join main sufs : main ++ flat_map print_suf sufs = join (nb 95) (main :: map chunk_of sufs).
Proof.
  revert main. induction sufs as [|[k d] sufs IH]; intros main; [cbn; now rewrite app_nil_r|].
  cbn [flat_map map]. change (join (nb 95) (main :: chunk_of (k, d) :: map chunk_of sufs))
    with (main ++ nb 95 :: join (nb 95) (chunk_of (k, d) :: map chunk_of sufs)).
  rewrite <- IH. unfold print_suf, chunk_of. cbn [fst snd app]. now rewrite <- !app_assoc.
Qed.

Lemma suf_name_in k : k <= 4 -> In (suf_name k) [bs "alpha"; bs "beta"; bs "pre"; bs "rc"; bs "p"].
Proof. intros Hk. assert (Hc : k = 0 \/ k = 1 \/ k = 2 \/ k = 3 \/ k = 4) by lia.
  destruct Hc as [ -> | [ -> | [ -> | [ -> | -> ] ] ] ]; cbn; auto 6. Qed.
Lemma skipn_app_exact {A} (a b : list A) : skipn (length a) (a ++ b) = b.
Proof. induction a; cbn; auto. Qed.
Lemma is_suf_chunk_ok s : sufwf s -> is_suf_chunk (chunk_of s) = true.
Proof.
  intros [Hk Hd]. unfold is_suf_chunk. apply existsb_exists. exists (suf_name (fst s)). split; [now apply suf_name_in|].
  unfold chunk_of. rewrite skipn_app_exact, Hd. rewrite andb_true_r. apply prefixb_spec. now exists (snd s).
Qed.

Lemma suf_name_lower k : forallb is_lower (suf_name k) = true.
Proof. unfold suf_name. repeat (destruct (_ =? _); [reflexivity|]). reflexivity. Qed.

Lemma is_last_num_ok d o : nd d -> match o with Some c => is_lower c = true | None => True end ->
  is_last_num (d ++ opt_char o) = true.
Proof.
  intros [Hne Hd] Ho. unfold is_last_num.
  assert (Hl : forall c, is_lower c = true -> is_digit c = false) by (apply impl_bytes_neg; bytes_check).
  rewrite (span_exact is_digit d Hd).
  - destruct d; [congruence|]. destruct o as [c|]; cbn; auto.
  - destruct o as [c|]; [right; cbn; now apply Hl|now left].
Qed.

Lemma is_nums_main nums o : nums <> [] -> Forall nd nums ->
  match o with Some c => is_lower c = true | None => True end ->
  is_nums (split (nb 46) (join (nb 46) nums ++ opt_char o)) = true.
Proof.
  intros Hne HF Ho. unfold split. induction nums as [|d ns IH]; [congruence|].
  inversion HF as [|? ? Hd HF']; subst. pose proof Hd as [Hd1 Hd2].
  assert (Hnd : nosep (nb 46) d) by (eapply nosep_forallb; [|exact Hd2]; intros c Hc; apply (digit_not c Hc)).
  destruct ns as [|d2 ns].
  - cbn [join]. rewrite split_acc_end.
    + rewrite app_nil_r, rev_involutive. cbn [is_nums]. now apply is_last_num_ok.
    + intros Hin. apply in_app_or in Hin as [Hin|Hin]; [now apply Hnd|]. destruct o as [c|]; [|destruct Hin].
      destruct Hin as [Hc|[]]. subst c. discriminate.
  - change (join (nb 46) (d :: d2 :: ns)) with (d ++ nb 46 :: join (nb 46) (d2 :: ns)). rewrite <- app_assoc. cbn [app].
    rewrite split_acc_app by assumption. rewrite app_nil_r, rev_involutive.
    specialize (IH ltac:(discriminate) HF').
    destruct (split_acc (nb 46) [] (join (nb 46) (d2 :: ns) ++ opt_char o)) as [|x xs] eqn:Es.
    { now apply split_acc_nonempty in Es. }
    change (is_nums (d :: x :: xs)) with (nonempty_digits d && is_nums (x :: xs)). rewrite IH. rewrite (proj2 (nonempty_digits_nd d) Hd). reflexivity.
Qed.

Lemma join_no_us nums : Forall nd nums -> ~ In (nb 95) (join (nb 46) nums).
Proof.
  induction nums as [|d ns IH]; intros HF; [intros []|]. inversion HF as [|? ? [_ Hd] HF']; subst.
  destruct ns as [|d2 ns].
  - cbn [join]. intros Hin. rewrite forallb_forall in Hd. specialize (Hd _ Hin). discriminate.
  - change (join (nb 46) (d :: d2 :: ns)) with (d ++ nb 46 :: join (nb 46) (d2 :: ns)). intros Hin.
    apply in_app_or in Hin as [Hin|[Hin|Hin]].
    + rewrite forallb_forall in Hd. specialize (Hd _ Hin). discriminate.
    + discriminate. + now apply IH in Hin.
Qed.

Theorem pms_version_print v : wfv v -> is_pms_version (print_version v) = true.
Proof.
  intros W. pose proof W as [Hne Hn Hl Hs Hr]. rewrite print_version_eq, app_assoc.
  set (body := print_ver_main v ++ print_sufs v).
  assert (Hb : nosep (nb 45) body) by (eapply nosep_forallb; [apply vb_not_hy|now apply vb_body]).
  unfold is_pms_version, split2.
  assert (E2 : split2_acc (nb 45) [] (body ++ revtxt v) =
               (body, match v_rev v with Some d => Some (nb 114 :: d) | None => None end)).
  { unfold revtxt. destruct (v_rev v) as [d|].
    - rewrite split2_acc_app by assumption. now rewrite app_nil_r, rev_involutive.
    - rewrite app_nil_r. rewrite split2_acc_nosep by assumption. now rewrite app_nil_r, rev_involutive. }
  rewrite E2. apply andb_true_iff. split.
  - destruct (v_rev v) as [d|]; [|reflexivity]. replace (is 114 (nb 114)) with true by reflexivity.
    now apply nonempty_digits_nd.
  - unfold body, print_sufs. rewrite body_join. rewrite split_join.
    + apply andb_true_iff. split; [now apply is_nums_main|].
      rewrite forallb_forall. intros c Hc. apply in_map_iff in Hc as (s & <- & Hs'). apply is_suf_chunk_ok.
      rewrite Forall_forall in Hs. now apply Hs.
    + discriminate.
    + constructor.
      * unfold print_ver_main. intros Hin. apply in_app_or in Hin as [Hin|Hin].
        -- exact (join_no_us _ Hn Hin).
        -- destruct (v_letter v) as [c|]; [|destruct Hin]. destruct Hin as [Hc|[]]. subst c. discriminate.
      * apply Forall_forall. intros c Hc. apply in_map_iff in Hc as (s & <- & Hs').
        rewrite Forall_forall in Hs. destruct (Hs s Hs') as [_ Hd]. unfold chunk_of. intros Hin. apply in_app_or in Hin as [Hin|Hin].
        -- pose proof (suf_name_lower (fst s)) as Hlw. rewrite forallb_forall in Hlw. specialize (Hlw _ Hin). discriminate.
        -- rewrite forallb_forall in Hd. specialize (Hd _ Hin). discriminate.
Qed.
