(* The probed mount table (Model.MountInfo.view) against the structured kernel table:
   GetMount is the topmost mount at a mountpoint, the probed records carry the line's fields,
   the device list is a fold of dev_add. *)
From LC Require Import Lib.Bytes Lib.Lex Lib.Fields Lib.PathM Gen.Consts
  Model.MountInfo Model.FsTree Model.Kernel Proofs.MountInfoP.
Open Scope N_scope.

(* the probed record of line k, up to the shadow flag *)
Definition mrel (k : kline) (m : mount) : Prop :=
  m_mp m = k_mp k /\ m_fstype m = k_fstype k /\ m_dev m = k_dev k /\ m_root m = k_root k
  /\ m_source m = (if beq (k_fstype k) overlay then last_opt (bs "lowerdir") (k_sopts k) [] else [])
  /\ m_source2 m = (if beq (k_fstype k) overlay then last_opt (bs "upperdir") (k_sopts k) [] else [])
  /\ m_workdir m = (if beq (k_fstype k) overlay then last_opt (bs "workdir") (k_sopts k) [] else []).

Definition devs_of (T : list kline) (d0 : list device) : list device :=
  fold_left (fun d k => dev_add d (k_dev k) (k_source k) (k_root k) (k_mp k)) T d0.

Lemma pstep_fold T : forall st,
  exists ms, rev (p_mounts (fold_left pstep (map view_line T) st)) = rev (p_mounts st) ++ ms
  /\ Forall2 mrel T ms
  /\ p_devs (fold_left pstep (map view_line T) st) = devs_of T (p_devs st).
Proof.
  induction T as [|k T IH]; intros st; cbn [map fold_left].
  - exists []. rewrite app_nil_r. repeat split. constructor.
  - destruct (IH (pstep st (view_line k))) as (ms & E1 & E2 & E3).
    set (m := MkMount (r_lower (view_line k)) (r_mp (view_line k)) (r_upper (view_line k))
                (r_work (view_line k)) (r_fstype (view_line k)) (r_opts (view_line k))
                (negb (memb (r_fstype (view_line k)) shadow_types) && memb (r_parent (view_line k)) (p_shadow st))
                (r_dev (view_line k)) (r_root (view_line k))).
    exists (m :: ms). split; [|split].
    + rewrite E1. unfold pstep. cbn [p_mounts rev]. fold m. rewrite <- app_assoc. reflexivity.
    + constructor; [|exact E2]. unfold mrel, m, view_line.
      cbn [m_mp m_fstype m_dev m_root m_source m_source2 m_workdir r_mp r_fstype r_dev r_root r_lower r_upper r_work].
      repeat split.
    + rewrite E3. unfold pstep. cbn [p_devs]. unfold view_line.
      cbn [r_dev r_fsname r_root r_mp]. reflexivity.
Qed.

Lemma view_spec T : exists ms, view T = POk ms (devs_of T []) /\ Forall2 mrel T ms.
Proof.
  unfold view. destruct (pstep_fold T (MkP [] [] [])) as (ms & E1 & E2 & E3).
  cbn [p_mounts p_devs rev app] in E1, E3. exists ms. rewrite E1, E3. auto.
Qed.

(* ------------------------------------------------------------------ top_at / get_mount *)
Lemma top_at_fold T p : forall best,
  fold_left (fun best k => if beq (k_mp k) p then Some k else best) T best =
  match top_at T p with Some x => Some x | None => best end.
Proof.
  unfold top_at. induction T as [|k T IH]; intros best; cbn [fold_left]; [reflexivity|].
  rewrite IH. rewrite (IH (if beq (k_mp k) p then Some k else None)).
  destruct (fold_left _ T None); [reflexivity|]. destruct (beq (k_mp k) p); reflexivity.
Qed.

Lemma top_at_cons k T p :
  top_at (k :: T) p = match top_at T p with Some x => Some x | None => if beq (k_mp k) p then Some k else None end.
Proof. unfold top_at at 1. cbn [fold_left]. now rewrite top_at_fold. Qed.

Lemma top_at_in T p k : top_at T p = Some k -> In k T /\ k_mp k = p.
Proof.
  induction T as [|k0 T IH]; [discriminate|]. rewrite top_at_cons.
  destruct (top_at T p) as [x|].
  - intros H. injection H as ->. destruct (IH eq_refl). split; [now right|assumption].
  - destruct (beq (k_mp k0) p) eqn:E; [|discriminate]. intros H. injection H as ->.
    split; [now left|now apply beq_true].
Qed.

Lemma top_at_none T p : top_at T p = None -> forall k, In k T -> beq (k_mp k) p = false.
Proof.
  induction T as [|k0 T IH]; [intros _ k []|]. rewrite top_at_cons.
  destruct (top_at T p) as [x|]; [discriminate|].
  destruct (beq (k_mp k0) p) eqn:E; [discriminate|]. intros _ k [<-|Hin]; [exact E|now apply IH].
Qed.

Lemma get_mount_top T ms p : Forall2 mrel T ms ->
  match top_at T p, get_mount ms p with
  | Some k, Some m => mrel k m
  | None, None => True
  | _, _ => False
  end.
Proof.
  induction 1 as [|k m T ms Hkm _ IH]; [exact I|]. rewrite top_at_cons. cbn [get_mount].
  destruct (top_at T p) as [x|], (get_mount ms p) as [y|]; try contradiction; [exact IH|].
  destruct Hkm as (H1 & Hrest). rewrite H1. destruct (beq (k_mp k) p); [|exact I].
  split; assumption.
Qed.

(* overlay lower directories *)
Lemma lows_overlain T ms bp : Forall2 mrel T ms ->
  memb bp (map m_source (filter (fun m => beq (m_fstype m) overlay) ms))
  = existsb (fun k => beq (k_fstype k) overlay && beq (last_opt (bs "lowerdir") (k_sopts k) []) bp) T.
Proof.
  unfold memb. induction 1 as [|k m T ms Hkm _ IH]; [reflexivity|]. cbn [filter existsb].
  destruct Hkm as (_ & H2 & _ & _ & H5 & _). rewrite H2.
  destruct (beq (k_fstype k) overlay) eqn:E; cbn [map existsb andb]; [|exact IH].
  rewrite IH, H5. now rewrite (beq_sym bp).
Qed.
