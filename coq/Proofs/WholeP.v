(* Proofs about the model of the whole binary (Model/Whole.v). *)
From Coq Require Import List Bool Arith Lia.
From LC Require Import Lib.Bytes Lib.PathM Model.FsTree Model.Kernel Model.Args Model.Layers Model.Dispatch
  Model.Whole Cases.LC.
From LC Require Model.Config Proofs.ConfigP.
Import ListNotations.
Import LC.
Open Scope N_scope.

Lemma beq_eq a b0 : beq a b0 = true -> a = b0.
Proof. apply beq_true. Qed.

Lemma command_beq_eq a b0 : command_beq a b0 = true -> a = b0.
Proof.
  destruct a, b0; cbn [command_beq]; intros H; try discriminate; try reflexivity;
  repeat match goal with
         | H : _ && _ = true |- _ => apply andb_true_iff in H as [? ?]
         end;
  repeat match goal with
         | H : beq _ _ = true |- _ => apply beq_eq in H
         | H : Bool.eqb _ _ = true |- _ => apply eqb_prop in H
         | H : (_ =? _) = true |- _ => apply N.eqb_eq in H
         end; subst; reflexivity.
Qed.

Lemma cfg_beq_eq a b0 : cfg_beq a b0 = true -> a = b0.
Proof.
  destruct a, b0. unfold cfg_beq. cbn. intros H.
  repeat match goal with
         | H : _ && _ = true |- _ => apply andb_true_iff in H as [? ?]
         end;
  repeat match goal with
         | H : beq _ _ = true |- _ => apply beq_eq in H
         end; subst; reflexivity.
Qed.

(* a process-level step that passes LC.argv_ok is one invocation of the whole-binary model: the
   model step the correspondence compares with (LC.model_step) is [run_binary] on the step's own
   command line, fault plan and iteration oracle *)
Theorem whole_step c w s a argv :
  s_argv s = a :: argv -> argv_ok c w s = true ->
  run_binary (a :: argv) (e_fault (s_env s)) (e_order (s_env s)) (s_users s) (world_of w)
  = Some (c, s_env s, s_cmd s, run (s_env s) c (s_users s) (s_cmd s) (world_of w)).
Proof.
  intros Ha H. unfold argv_ok in H. rewrite Ha in H.
  apply andb_true_iff in H as [Hd Hc].
  unfold dispatch_is in Hd. unfold config_is in Hc. unfold run_binary.
  cbn [w_fs world_of].
  destruct (loaded_cfg (a :: argv) (wo_fs w)) as [c'|]; [|discriminate].
  apply cfg_beq_eq in Hc. subst c'.
  destruct (dispatch (a :: argv)) as [[o cmd]|]; [|discriminate].
  apply andb_true_iff in Hd as [Hd Hv]. apply andb_true_iff in Hd as [Hd Hf].
  apply andb_true_iff in Hd as [Hcmd Hp].
  apply command_beq_eq in Hcmd. apply eqb_prop in Hp, Hf, Hv. subst cmd.
  rewrite Hp, Hf, Hv. destruct (s_env s); reflexivity.
Qed.

(* whatever the configuration files say, the binary works with clean absolute directories
   (C18_paths_clean_abs carried to the command model's configuration) *)
Theorem whole_cfg_clean argv f c : loaded_cfg argv f = Some c ->
  Config.is_clean_abs (c_base c) = true /\ Config.is_clean_abs (c_layers c) = true
  /\ Config.is_clean_abs (c_exports c) = true.
Proof.
  unfold loaded_cfg. destruct (Config.load (load_env argv f)) as [v| | |] eqn:E; try discriminate.
  intros H. injection H as <-. cbn [cfg_of_vals c_base c_layers c_exports].
  exact (ConfigP.load_paths_clean_abs _ _ E).
Qed.
