(* End to end: -p written anywhere on a structured command line makes the whole binary
   (Model/Whole.v) leave the world as it is. *)
From Coq Require Import List Bool Arith Lia.
From LC Require Import Lib.Bytes Model.FsTree Model.Kernel Model.Args Model.Layers Model.Dispatch Model.Whole
  Proofs.MonadP Proofs.ArgsP Proofs.DispatchP Proofs.C15P.
Import ListNotations.
Open Scope N_scope.

Lemma command_of_not_manual cmd args l c : command_of cmd args l = Some c -> is_manual c = false.
Proof.
  unfold command_of. intros H.
  repeat match type of H with
         | (if ?b then _ else _) = _ => destruct b; [injection H as <-; reflexivity|]
         end.
  discriminate.
Qed.

Theorem binary_pretend pre cmd post locals lo hi flt order um w c e k r :
  forallb pre_ok pre = true ->
  command_info cmd = Some (locals, lo, hi) ->
  forallb (local_ok locals) post = true ->
  existsb is_p (pre ++ post) = true ->
  run_binary (render_toks pre ++ [cmd] ++ render_toks post) flt order um w = Some (c, e, k, r) ->
  e_pretend e = true /\ snd r = MkSt w 0 [].
Proof.
  intros Hpre Hc Hpost Hp H. unfold run_binary in H.
  destruct (loaded_cfg _ _) as [c'|]; [|discriminate].
  unfold dispatch in H.
  destruct (parse_main _) as [|o cmd' args l] eqn:E; [discriminate|].
  destruct (command_of cmd' args l) as [k'|] eqn:Ek; [|discriminate].
  injection H as <- <- <- <-.
  pose proof (pretend_installed pre cmd post locals lo hi o cmd' args l Hpre Hc Hpost Hp E) as Hop.
  cbn [e_pretend]. split; [exact Hop|].
  apply pretend_no_effect; [exact Hop|].
  eapply command_of_not_manual; exact Ek.
Qed.
