(* Concrete worlds: the hypothesis sets of the C11 / C09 theorems are satisfiable by
   non-trivial worlds, and what fails without them (closed terms, decided by computation). *)
From LC Require Import Lib.Bytes Lib.Lex Lib.Fields Lib.PathM Gen.Consts
  Model.MountInfo Model.FsTree Model.Kernel Model.Layers Cases.Verdict Cases.LC Cases.C11 Cases.C09
  Proofs.LayerFileP Proofs.C11P Proofs.C09P Proofs.C11cP Proofs.C11rP Proofs.C11sP.
Import LC LCS.
Open Scope string_scope.

Definition nlc : bytes := [nl].
Definition ks0 : kstate := MkKS [] 2 2.
Definition env0 (flt : fault) : env := MkEnv false flt false false [].

(* the default directory names *)
Definition cfg0 : cfgT := MkCfg (bs "/lc") (bs "/lc/layers") (bs "build") (bs "packages") (bs "generated")
  (bs "overlayfs/workdir") (bs "overlayfs/upperdir") (bs "/lc/exports") (bs "packages") (bs "generated").

(* a base layer holding a tarball, a derived layer with a populated upper directory *)
Definition fs0 : fsT :=
  [ (bs "/", Dir); (bs "/lc", Dir); (bs "/lc/layers", Dir); (bs "/lc/exports", Dir);
    (bs "/lc/default_layerconfig.skel", File (bs "import rbind /dev /dev" ++ nlc ++ bs "import proc /proc /proc" ++ nlc));
    (bs "/lc/layers/base1", Dir);
    (bs "/lc/layers/base1/layerconfig",
       File (bs "import rbind /dev /dev" ++ nlc ++ nlc ++ bs "export symlink /var/cache $$package_export" ++ nlc));
    (bs "/lc/layers/base1/build", Dir);
    (bs "/lc/layers/base1/build/stage3.tar.xz", File (bs "tarball"));
    (bs "/lc/layers/dev1", Dir);
    (bs "/lc/layers/dev1/layerconfig", File (bs "base base1" ++ nlc ++ nlc ++ bs "import bind   /usr/src /usr/src" ++ nlc));
    (bs "/lc/layers/dev1/build", Dir);
    (bs "/lc/layers/dev1/overlayfs", Dir);
    (bs "/lc/layers/dev1/overlayfs/workdir", Dir);
    (bs "/lc/layers/dev1/overlayfs/upperdir", Dir);
    (bs "/lc/layers/dev1/overlayfs/upperdir/etc", Dir);
    (bs "/lc/layers/dev1/overlayfs/upperdir/etc/motd", File (bs "hello")) ].
Definition w0 : wobs := MkWO fs0 ks0.

(* ---- C11 (a) *)
Example lf_wf_sat :
  lf_wf (bs "stage3") [MkNM (bs "/dev") (bs "/dev") (bs "rbind"); MkNM (bs "/var/db/repos") (bs "$$base/repos") (bs "bind")]
        [MkNM (bs "$$package_export") (bs "/var/cache/binpkgs") (bs "symlink")] = true.
Proof. vm_compute. reflexivity. Qed.

(* ---- C11 (b): hypotheses hold; the commands really run (three mutating operations, so a
   crash has a choice of k) *)
Example wf_world_sat_rebase : wf_world cfg0 fs0 (CRebase (bs "dev1") []) = true
  /\ v_res (view_of_model cfg0 w0 (env0 NoFault) (CRebase (bs "dev1") []) []) = ROk
  /\ v_res (view_of_model cfg0 w0 (env0 (CrashAt 1)) (CRebase (bs "dev1") []) []) = RCrash
  /\ length (v_log (view_of_model cfg0 w0 (env0 NoFault) (CRebase (bs "dev1") []) [])) = 3%nat.
Proof. vm_compute. repeat split. Qed.
Example wf_world_sat_rename : wf_world cfg0 fs0 (CRename (bs "base1") (bs "b2")) = true
  /\ v_res (view_of_model cfg0 w0 (env0 NoFault) (CRename (bs "base1") (bs "b2")) []) = ROk.
Proof. vm_compute. repeat split. Qed.
Example wf_world_sat_add_parent : wf_world cfg0 fs0 (CAdd (bs "n2") (bs "base1") []) = true
  /\ v_res (view_of_model cfg0 w0 (env0 NoFault) (CAdd (bs "n2") (bs "base1") []) []) = ROk.
Proof. vm_compute. repeat split. Qed.
Example wf_world_sat_add_skeleton : wf_world cfg0 fs0 (CAdd (bs "n3") [] []) = true
  /\ v_res (view_of_model cfg0 w0 (env0 NoFault) (CAdd (bs "n3") [] []) []) = ROk.
Proof. vm_compute. repeat split. Qed.

(* ---- C11 (b) after an earlier crash: the world reached by crashing `rebase dev1` before its
   third operation holds a stale, partial layerconfig.tmp; it fails files_ok (wf_world) but
   satisfies wf_world2, and commands run from it (here a second crash, and a rename that
   moves the stale file along) *)
Definition w0c : wobs := v_after (view_of_model cfg0 w0 (env0 (CrashAt 2)) (CRebase (bs "dev1") []) []).
Example stale_world :
  v_res (view_of_model cfg0 w0 (env0 (CrashAt 2)) (CRebase (bs "dev1") []) []) = RCrash
  /\ exists_ (wo_fs w0c) (bs "/lc/layers/dev1/layerconfig.tmp") = true
  /\ wf_world cfg0 (wo_fs w0c) (CRebase (bs "dev1") (bs "base1")) = false
  /\ wf_world2 cfg0 (wo_fs w0c) (CRebase (bs "dev1") (bs "base1")) = true
  /\ wf_world2 cfg0 (wo_fs w0c) (CRename (bs "dev1") (bs "dev2")) = true
  /\ wf_world2 cfg0 (wo_fs w0c) (CRename (bs "base1") (bs "b2")) = true
  /\ wf_world2 cfg0 (wo_fs w0c) (CAdd (bs "n2") (bs "dev1") []) = true
  /\ v_res (view_of_model cfg0 w0c (env0 (CrashAt 1)) (CRebase (bs "dev1") (bs "base1")) []) = RCrash
  /\ v_res (view_of_model cfg0 w0c (env0 NoFault) (CRebase (bs "dev1") (bs "base1")) []) = ROk
  /\ v_res (view_of_model cfg0 w0c (env0 NoFault) (CRename (bs "dev1") (bs "dev2")) []) = ROk.
Proof. vm_compute. repeat split. Qed.

(* ---- C11 (c) *)
Example wf_rebase_sat : wf_rebase cfg0 fs0 (bs "dev1") = true.
Proof. vm_compute. reflexivity. Qed.

(* rename of a layer that has a child (so two layerconfigs are rewritten) *)
Example wf_rename_sat : wf_rename cfg0 fs0 (bs "base1") (bs "b2") = true
  /\ map (fun l => (l_name l, l_base l))
         (layers_on_disk cfg0 (wo_fs (v_after (view_of_model cfg0 w0 (env0 NoFault) (CRename (bs "base1") (bs "b2")) []))))
     = [(bs "b2", []); (bs "dev1", bs "b2")].
Proof. vm_compute. repeat split. Qed.

(* ---- C09: the derived layer holds user data (it is renamed), the hypotheses hold *)
Example wf_remove_cfg_sat : wf_remove_cfg cfg0 fs0 (bs "dev1") = true /\ wf_remove_cfg cfg0 fs0 (bs "base1") = true.
Proof. vm_compute. split; reflexivity. Qed.
Example wf_remove_sat : wf_remove cfg0 fs0 (bs "dev1") = true
  /\ v_res (view_of_model cfg0 w0 (env0 NoFault) (CRemove (bs "dev1") false) []) = ROk
  /\ exists_ (wo_fs (v_after (view_of_model cfg0 w0 (env0 NoFault) (CRemove (bs "dev1") false) [])))
             (bs "/lc/layers/dev1~removed/overlayfs/upperdir/etc/motd") = true.
Proof. vm_compute. repeat split. Qed.

(* ------------------------------------------------------------------ what fails without the hypotheses *)

(* C09: with a work directory nested three deep, `add` creates <layer>/ov and <layer>/ov/x
   (all of MkdirAll's prefixes).  The first version of the property predicate did not list
   them in created_by_add and failed on this world; the corrected predicate holds on it (and
   the world satisfies the theorem's hypotheses). *)
Definition cfg1 : cfgT := MkCfg (bs "/lc") (bs "/lc/layers") (bs "build") (bs "packages") (bs "generated")
  (bs "ov/x/workdir") (bs "ov/x/upperdir") (bs "/lc/exports") (bs "packages") (bs "generated").
Definition fs1 : fsT :=
  [ (bs "/", Dir); (bs "/lc", Dir); (bs "/lc/layers", Dir); (bs "/lc/exports", Dir);
    (bs "/lc/default_layerconfig.skel", File (bs "import rbind /dev /dev" ++ nlc));
    (bs "/lc/layers/base1", Dir);
    (bs "/lc/layers/base1/layerconfig", File (bs "import rbind /dev /dev" ++ nlc));
    (bs "/lc/layers/base1/build", Dir);
    (bs "/lc/layers/dev1", Dir);
    (bs "/lc/layers/dev1/layerconfig", File (bs "base base1" ++ nlc ++ nlc ++ bs "import rbind /dev /dev" ++ nlc));
    (bs "/lc/layers/dev1/build", Dir);
    (bs "/lc/layers/dev1/ov", Dir);
    (bs "/lc/layers/dev1/ov/x", Dir);
    (bs "/lc/layers/dev1/ov/x/workdir", Dir);
    (bs "/lc/layers/dev1/ov/x/upperdir", Dir) ].
Definition w1 : wobs := MkWO fs1 ks0.
Example C09_deep_workdir_holds :
  v_res (view_of_model cfg1 w1 (env0 NoFault) (CRemove (bs "dev1") false) []) = ROk
  /\ exists_ (wo_fs (v_after (view_of_model cfg1 w1 (env0 NoFault) (CRemove (bs "dev1") false) []))) (bs "/lc/layers/dev1") = false
  /\ C09.step_spec cfg1 w1 (view_of_model cfg1 w1 (env0 NoFault) (CRemove (bs "dev1") false) []) = true.
Proof. vm_compute. repeat split. Qed.
(* fs1 is exactly what `add dev1 base1` makes of the tree before it *)
Example C09_deep_workdir_is_pristine :
  let v := view_of_model cfg1 (MkWO (firstn 8 fs1) ks0) (env0 NoFault) (CAdd (bs "dev1") (bs "base1") []) [] in
  v_res v = ROk /\ fs_beq (wo_fs (v_after v)) fs1 = true.
Proof. vm_compute. split; reflexivity. Qed.
Example C09_deep_workdir_hyp : wf_remove cfg1 fs1 (bs "dev1") = true /\ wf_remove_cfg cfg1 fs1 (bs "dev1") = true.
Proof. vm_compute. split; reflexivity. Qed.

(* C11 (b), hypothesis cmd_ok (add): `add -config /tmp/mine.conf` writes a layerconfig whose
   imports come from a file the property predicate does not count among the old versions *)
Definition fs2 : fsT := (fs0 ++ [(bs "/tmp", Dir); (bs "/tmp/mine.conf", File (bs "import bind /opt /opt" ++ nlc))])%list.
Definition w2 : wobs := MkWO fs2 ks0.
Example C11_refuted_add_outside_config :
  conj1 cfg0 w2 (view_of_model cfg0 w2 (env0 (CrashAt 99)) (CAdd (bs "n4") [] (bs "/tmp/mine.conf")) []) = false.
Proof. vm_compute. reflexivity. Qed.

(* C11 (b), hypothesis lc_regular: a layerconfig that is a symbolic link to a file elsewhere *)
Definition fs3 : fsT :=
  (fs0 ++ [(bs "/tmp", Dir); (bs "/tmp/shared.conf", File (bs "import bind /opt /opt" ++ nlc));
           (bs "/lc/layers/lnk", Dir); (bs "/lc/layers/lnk/layerconfig", Link (bs "/tmp/shared.conf"));
           (bs "/lc/layers/lnk/build", Dir)])%list.
Definition w3 : wobs := MkWO fs3 ks0.
Example C11_refuted_symlinked_layerconfig :
  conj1 cfg0 w3 (view_of_model cfg0 w3 (env0 (CrashAt 99)) (CRebase (bs "lnk") (bs "base1")) []) = false.
Proof. vm_compute. reflexivity. Qed.

(* C11 (b), hypothesis cmd_ok (CEdit): the manual command "somebody overwrites a file by
   hand" can of course put anything into a layerconfig; the theorems cover hand edits of
   other files only *)
Example C11_manual_edit_of_layerconfig :
  conj1 cfg0 w0 (view_of_model cfg0 w0 (env0 NoFault) (CEdit (bs "/lc/layers/dev1/layerconfig") (bs "import bind /x /y" ++ nlc)) []) = false
  /\ cmd_ok cfg0 fs0 (CEdit (bs "/lc/layers/dev1/layerconfig") (bs "x")) = false
  /\ wf_world cfg0 fs0 (CEdit (bs "/lc/layers/dev1/build/notes.txt") (bs "x")) = true.
Proof. vm_compute. repeat split. Qed.

(* C11 (b), the remaining hypotheses only exclude lists that are no file trees: a regular file
   that has children, renamed to the name "layerconfig" (cmd_ok, rename) ... *)
Definition fs4 : fsT :=
  (firstn 5 fs0 ++ [(bs "/lc/layers/foo", File (bs "junk"));
                    (bs "/lc/layers/foo/layerconfig", File (bs "import bind /a /b" ++ nlc))])%list.
Definition w4 : wobs := MkWO fs4 ks0.
Example C11_junk_file_with_children :
  conj1 cfg0 w4 (view_of_model cfg0 w4 (env0 (CrashAt 99)) (CRename (bs "foo") (bs "layerconfig")) []) = false
  /\ files_ok fs4 = true /\ lc_regular cfg0 fs4 = true.
Proof. vm_compute. repeat split. Qed.
(* ... and a path with a trailing slash (files_ok) *)
Definition fs5 : fsT := (fs0 ++ [(bs "/lc/layers/dev1/", File (bs "junk"))])%list.
Definition w5 : wobs := MkWO fs5 ks0.
Example C11_junk_trailing_slash :
  conj1 cfg0 w5 (view_of_model cfg0 w5 (env0 (CrashAt 99)) (CRename (bs "dev1") (bs "layerconfig")) []) = false.
Proof. vm_compute. reflexivity. Qed.
