(* C01 -- mount brings a layer stack to exactly its configured mounts, only as needed.
   Statements only; proofs in Proofs/C01P.v, Proofs/C01HoldsP.v (from the mount trace of
   Proofs/MntTraceP.v).  The model-level theorems are about the MODEL's own `mount n` step, seen
   through the view the property predicate C01.step_spec is evaluated on:
   mview cfg w e n um = LC.view_of_model cfg w e (CMount n) um.  They quantify over every
   configuration, world, layer name, users map and (plain) environment.  `_partial` = holds under
   the extra decidable hypotheses listed; the remaining ones are shown necessary by closed
   witnesses in Proofs/C01ExamplesP.v (see docs/proofs-C01.md). *)
From LC Require Import Lib.Bytes Lib.PathM Model.MountInfo Model.FsTree Model.Kernel Model.Layers
  Cases.LC Cases.C01 Proofs.MntTraceP Proofs.MntOrderP Proofs.MntNeededP Proofs.MntPostP
  Proofs.C01P Proofs.C01HoldsP Proofs.MntClearP Proofs.C01ExamplesP.
Import LC LCS.

(* the model's run IS a mount trace over the items of the chain read from disk: per layer the
   overlay (if derived) then the imports in configuration order, skipped when a fresh probe of
   the kernel table shows the target mounted.  Everything below is derived from this. *)
Theorem C01_trace : forall cfg w e n um, plain_env e = true ->
  exists stat,
    ltrace (wo_ks w) (chain_items cfg (wo_fs w) n) (syscalls (v_log (mview cfg w e n um)))
           (wo_ks (v_after (mview cfg w e n um))) stat
    /\ (v_res (mview cfg w e n um) = ROk ->
        stat = TDone
        /\ Forall (fun x => expand_config_mounts cfg (layers_on_disk cfg (wo_fs w)) x <> None)
                  (chain cfg (wo_fs w) n))
    /\ (stat = TFailed -> v_res (mview cfg w e n um) = RFail).
Proof. exact mview_trace. Qed.
Print Assumptions C01_trace.

(* (a) ancestors first, overlay before imports, imports in configuration order -- full *)
Theorem C01_order : forall cfg w e n um, plain_env e = true ->
  subseq (mount_targets (syscalls (v_log (mview cfg w e n um))))
         (map em_target (expected_chain_mounts cfg (chain cfg (wo_fs w) n))) = true.
Proof. exact C01_order_proof. Qed.
Print Assumptions C01_order.

(* (b) propagation -- full *)
Theorem C01_propagation : forall cfg w e n um, plain_env e = true ->
  C01.propagation_ok (rclass_beq (v_res (mview cfg w e n um)) RFail)
                     (syscalls (v_log (mview cfg w e n um))) = true.
Proof. exact C01_propagation_proof. Qed.
Print Assumptions C01_propagation.

(* (c) nothing stacked, nothing outside the build roots -- full (well-formed table, absolute
   layers directory: parts of LC.wf); the replay may run over ANY file tree *)
Theorem C01_only_needed : forall cfg w e n um, plain_env e = true ->
  wf_table (ks_tab (wo_ks w)) = true ->
  is_abs (c_layers cfg) = true ->
  forall f,
  replay_calls f (wo_ks w)
    (syscalls (v_log (mview cfg w e n um)))
    (fun ks o =>
       match o with
       | OMount _ t _ fl _ =>
         if has_flag fl MS_SLAVE then true
         else negb (mounted_at (ks_tab ks) t)
              && existsb (fun x => at_or_under (build_path cfg x) t) (chain cfg (wo_fs w) n)
       | OUmount _ _ => false
       | _ => true
       end) = true.
Proof. exact C01_only_needed_proof. Qed.
Print Assumptions C01_only_needed.

(* (d) 1: after a successful mount every expected mountpoint of the chain is mounted -- full *)
Theorem C01_post_mounted : forall cfg w e n um, plain_env e = true ->
  wf_table (ks_tab (wo_ks w)) = true ->
  v_res (mview cfg w e n um) = ROk ->
  all_mounted cfg (chain cfg (wo_fs w) n) (ks_tab (wo_ks (v_after (mview cfg w e n um)))) = true.
Proof. exact C01_post_mounted_proof. Qed.
Print Assumptions C01_post_mounted.

(* the kernel table stays well-formed (so the theorems apply again to the resulting world) *)
Theorem C01_keeps_wf : forall cfg w e n um, plain_env e = true ->
  wf_table (ks_tab (wo_ks w)) = true ->
  wf_table (ks_tab (wo_ks (v_after (mview cfg w e n um)))) = true.
Proof. exact mount_keeps_wf. Qed.
Print Assumptions C01_keeps_wf.

(* (d) 2: on every expected mountpoint the count is max 1 (count before) -- partial: needs "no
   expected mountpoint below an rbind import's mountpoint" (witnesses, both of class kf = 1:
   C01_refuted_1, C01_refuted_1_later_import) *)
Theorem C01_post_count_partial : forall cfg w e n um, plain_env e = true ->
  wf_table (ks_tab (wo_ks w)) = true ->
  rbind_clear cfg (chain cfg (wo_fs w) n) = true ->
  v_res (mview cfg w e n um) = ROk ->
  count_post cfg (chain cfg (wo_fs w) n) (ks_tab (wo_ks w))
             (ks_tab (wo_ks (v_after (mview cfg w e n um)))) = true.
Proof. exact C01_post_count_partial_proof. Qed.
Print Assumptions C01_post_count_partial.

(* from known-finding class 1 to rbind_clear: no chain layer in class 1 (an rbind import strictly
   above another import of the same layer) and build directories of different chain layers not
   nested *)
Theorem C01_kf_clear : forall cfg f n, is_abs (c_layers cfg) = true ->
  chain_no_kf1 (chain cfg f n) = true -> builds_apart cfg (chain cfg f n) = true ->
  rbind_clear cfg (chain cfg f n) = true.
Proof. exact kf_clear. Qed.
Print Assumptions C01_kf_clear.

(* (d) 2 stated on the class *)
Theorem C01_post_count_kf_partial : forall cfg w e n um, plain_env e = true ->
  wf_table (ks_tab (wo_ks w)) = true ->
  is_abs (c_layers cfg) = true ->
  chain_no_kf1 (chain cfg (wo_fs w) n) = true ->
  builds_apart cfg (chain cfg (wo_fs w) n) = true ->
  v_res (mview cfg w e n um) = ROk ->
  count_post cfg (chain cfg (wo_fs w) n) (ks_tab (wo_ks w))
             (ks_tab (wo_ks (v_after (mview cfg w e n um)))) = true.
Proof. exact C01_post_count_kf_partial_proof. Qed.
Print Assumptions C01_post_count_kf_partial.

(* kf c = 0 gives the class hypothesis for a mount from the initial world of the case *)
Theorem C01_kf_zero_chain : forall c n, C01.kf c = 0%N -> chain_no_kf1 (chain (c_cfg c) (c_fs0 c) n) = true.
Proof. exact kf_zero_chain. Qed.
Print Assumptions C01_kf_zero_chain.

(* (d) 3: mount_post itself -- partial: additionally what is mounted beforehand must be of the
   right kind/source (for mounts made by this run it is proved), expected mountpoints pairwise
   different, no comma in the overlay directories, decimal ids below 10^24 *)
Theorem C01_post_partial : forall cfg w e n um, plain_env e = true ->
  wf_table (ks_tab (wo_ks w)) = true ->
  rbind_clear cfg (chain cfg (wo_fs w) n) = true ->
  pre_right cfg (wo_fs w) (chain cfg (wo_fs w) n) (ks_tab (wo_ks w)) = true ->
  nodup_targets cfg (chain cfg (wo_fs w) n) = true ->
  nocomma_paths cfg (layers_on_disk cfg (wo_fs w)) (chain cfg (wo_fs w) n) = true ->
  ids_ok (wo_ks w) = true ->
  id_bound (wo_ks (v_after (mview cfg w e n um))) = true ->
  v_res (mview cfg w e n um) = ROk ->
  C01.mount_post cfg (wo_fs w) (layers_on_disk cfg (wo_fs w)) (chain cfg (wo_fs w) n)
    (ks_tab (wo_ks w)) (ks_tab (wo_ks (v_after (mview cfg w e n um)))) = true.
Proof. exact C01_post_partial_proof. Qed.
Print Assumptions C01_post_partial.

(* the same on the class *)
Theorem C01_post_kf_partial : forall cfg w e n um, plain_env e = true ->
  wf_table (ks_tab (wo_ks w)) = true ->
  is_abs (c_layers cfg) = true ->
  chain_no_kf1 (chain cfg (wo_fs w) n) = true ->
  builds_apart cfg (chain cfg (wo_fs w) n) = true ->
  pre_right cfg (wo_fs w) (chain cfg (wo_fs w) n) (ks_tab (wo_ks w)) = true ->
  nodup_targets cfg (chain cfg (wo_fs w) n) = true ->
  nocomma_paths cfg (layers_on_disk cfg (wo_fs w)) (chain cfg (wo_fs w) n) = true ->
  ids_ok (wo_ks w) = true ->
  id_bound (wo_ks (v_after (mview cfg w e n um))) = true ->
  v_res (mview cfg w e n um) = ROk ->
  C01.mount_post cfg (wo_fs w) (layers_on_disk cfg (wo_fs w)) (chain cfg (wo_fs w) n)
    (ks_tab (wo_ks w)) (ks_tab (wo_ks (v_after (mview cfg w e n um)))) = true.
Proof. exact C01_post_kf_partial_proof. Qed.
Print Assumptions C01_post_kf_partial.

(* (e) a second mount from the resulting world issues no mount/umount call and leaves the kernel
   alone -- partial: needs "the first mount did not alter the layer definitions on disk"
   (witness without it: C01_refuted_idempotent_config_rewritten) *)
Theorem C01_idempotent_partial : forall cfg w e n um e2 um2,
  plain_env e = true -> plain_env e2 = true ->
  wf_table (ks_tab (wo_ks w)) = true ->
  v_res (mview cfg w e n um) = ROk ->
  lmap_beq (layers_on_disk cfg (wo_fs (v_after (mview cfg w e n um))))
           (layers_on_disk cfg (wo_fs w)) = true ->
  syscalls (v_log (mview cfg (v_after (mview cfg w e n um)) e2 n um2)) = []
  /\ wo_ks (v_after (mview cfg (v_after (mview cfg w e n um)) e2 n um2))
     = wo_ks (v_after (mview cfg w e n um)).
Proof. exact C01_idempotent_partial_proof. Qed.
Print Assumptions C01_idempotent_partial.

(* the conjunction: whenever the command does not succeed the whole predicate holds -- full *)
Theorem C01_model_not_ok : forall cfg w e n um, plain_env e = true ->
  wf_table (ks_tab (wo_ks w)) = true ->
  is_abs (c_layers cfg) = true ->
  rclass_beq (v_res (LC.view_of_model cfg w e (CMount n) um)) ROk = false ->
  C01.step_spec cfg w (LC.view_of_model cfg w e (CMount n) um) = true.
Proof. exact C01_model_not_ok_proof. Qed.
Print Assumptions C01_model_not_ok.

(* the conjunction with mount_post as a premise *)
Theorem C01_model_given_post : forall cfg w e n um, plain_env e = true ->
  wf_table (ks_tab (wo_ks w)) = true ->
  is_abs (c_layers cfg) = true ->
  (v_res (mview cfg w e n um) = ROk ->
   C01.mount_post cfg (wo_fs w) (layers_on_disk cfg (wo_fs w)) (chain cfg (wo_fs w) n)
     (ks_tab (wo_ks w)) (ks_tab (wo_ks (v_after (mview cfg w e n um)))) = true) ->
  C01.step_spec cfg w (LC.view_of_model cfg w e (CMount n) um) = true.
Proof. exact C01_model_given_post_proof. Qed.
Print Assumptions C01_model_given_post.

(* the conjunction under all the hypotheses *)
Theorem C01_model_partial : forall cfg w e n um, plain_env e = true ->
  wf_table (ks_tab (wo_ks w)) = true ->
  is_abs (c_layers cfg) = true ->
  rbind_clear cfg (chain cfg (wo_fs w) n) = true ->
  pre_right cfg (wo_fs w) (chain cfg (wo_fs w) n) (ks_tab (wo_ks w)) = true ->
  nodup_targets cfg (chain cfg (wo_fs w) n) = true ->
  nocomma_paths cfg (layers_on_disk cfg (wo_fs w)) (chain cfg (wo_fs w) n) = true ->
  ids_ok (wo_ks w) = true ->
  id_bound (wo_ks (v_after (LC.view_of_model cfg w e (CMount n) um))) = true ->
  C01.step_spec cfg w (LC.view_of_model cfg w e (CMount n) um) = true.
Proof. exact C01_model_partial_proof. Qed.
Print Assumptions C01_model_partial.

(* per observed step: a step that corresponds to the model satisfies the predicate, given the
   hypotheses of the partial theorems as one decidable predicate [step_hyps] on the observed
   world before the step (true for every non-mount step, every -p / fault-plan step, and every
   mount step that did not succeed on a well-formed table) *)
Theorem C01_step_holds : forall cfg w s, is_abs (c_layers cfg) = true ->
  step_corr cfg w s = true -> step_hyps cfg w s = true ->
  C01.step_spec cfg w (view_of_obs w s) = true.
Proof. exact step_holds. Qed.
Print Assumptions C01_step_holds.

(* per case -- partial: C01_holds (forall c, wf c -> kf c = 0 -> corr c -> spec c) is FALSE
   (witnesses below); this is what holds instead *)
Theorem C01_holds_partial : forall c,
  C01.wf c = true -> LC.corr c = true ->
  along (step_hyps (c_cfg c)) (w0 c) (c_steps c) = true ->
  C01.spec c = true.
Proof. exact C01_holds_partial_proof. Qed.
Print Assumptions C01_holds_partial.

(* ---- closed witnesses (vm_compute) *)
(* known finding 1: cases of class kf = 1 on which the predicate fails -- an rbind import above an
   EARLIER import, and above a LATER one (host submount stacked twice) *)
Theorem C01_refuted_1 :
  C01.wf c_r = true /\ LC.corr c_r = true /\ C01.kf c_r = 1 /\ C01.spec c_r = false
  /\ rbind_clear ex_cfg (chain ex_cfg (wo_fs w_r) d1) = false
  /\ chain_no_kf1 (chain ex_cfg (wo_fs w_r) d1) = false
  /\ v_res v_r = ROk
  /\ count_at (ks_tab (wo_ks (v_after v_r))) (bs "/b/layers/d1/build/mnt/sub") = 2%nat.
Proof. exact C01_refuted_1_witness. Qed.
Print Assumptions C01_refuted_1.

Theorem C01_refuted_1_later_import :
  C01.wf c_q = true /\ LC.corr c_q = true /\ C01.kf c_q = 1 /\ C01.spec c_q = false
  /\ chain_no_kf1 (chain ex_cfg (wo_fs w_q) d1) = false
  /\ rbind_clear ex_cfg (chain ex_cfg (wo_fs w_q) d1) = false
  /\ v_res v_q = ROk
  /\ count_at (ks_tab (wo_ks w_q)) (bs "/b/layers/d1/build/mnt/sub") = 0%nat
  /\ count_at (ks_tab (wo_ks (v_after v_q))) (bs "/b/layers/d1/build/mnt/sub") = 2%nat.
Proof. exact C01_refuted_1_later_import_witness. Qed.
Print Assumptions C01_refuted_1_later_import.

(* C01_holds refuted with kf = 0: a pre-existing bind whose source path was mounted later *)
Theorem C01_holds_refuted_later_source :
  C01.wf c_s = true /\ LC.corr c_s = true /\ C01.kf c_s = 0 /\ C01.spec c_s = false
  /\ pre_right ex_cfg (wo_fs w_s) (chain ex_cfg (wo_fs w_s) (bs "base0")) (ks_tab (wo_ks w_s)) = false
  /\ v_res v_s = ROk
  /\ syscalls (v_log v_s) = []
  /\ count_at (ks_tab (wo_ks (v_after v_s))) (bs "/b/layers/base0/build/mnt") = 1%nat
  /\ C01.step_spec ex_cfg w_s v_s = false.
Proof. exact C01_post_refuted_later_source. Qed.
Print Assumptions C01_holds_refuted_later_source.

(* (e) refuted without "layer definitions unchanged" *)
Theorem C01_refuted_idempotent_config_rewritten :
  plain_env ex_env = true
  /\ wf_cfg cfg_e = true
  /\ nodup_paths (map fst fs_e) = true
  /\ wf_table (ks_tab (wo_ks w_e)) = true
  /\ v_res v_e = ROk
  /\ length (syscalls (v_log v_e)) = 1%nat
  /\ lmap_beq (layers_on_disk cfg_e (wo_fs (v_after v_e))) (layers_on_disk cfg_e (wo_fs w_e)) = false
  /\ v_res v_e2 = ROk
  /\ mount_targets (syscalls (v_log v_e2)) = [bs "/b/layers/d1/build/mnt"].
Proof. exact C01_idempotent_refuted_config_rewritten. Qed.
Print Assumptions C01_refuted_idempotent_config_rewritten.

(* ---- the regenerated constants this property's predicate / model rest on, against literals.
   Gen/Consts.v is rewritten from the source of /repo on every run, so without this theorem an
   edit of one of these constants would move model, predicate and code together and nothing
   would be reported.  Used by: the predicate C01.spec / C01.kf read layers from disk through Model/Layers.v (layerconfig_path).
   "frozen" = no manual text gives the value; it is the value of the reviewed tree. *)
From LC Require Import Gen.Consts Proofs.C01PinsP.
Local Open Scope string_scope.
Theorem C01_constants_pinned :
  (* doc/layercake_directories.adoc, manual page LAYER DIRECTORY: "layerconfig" *)
  D_LayerconfigFile = bs "layerconfig".
Proof. exact c01_constants_pinned. Qed.
Print Assumptions C01_constants_pinned.
