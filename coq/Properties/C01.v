(* C01 -- mount brings a layer stack to exactly its configured mounts, only as needed.
   Statements only; proofs in Proofs/C01P.v (from the mount trace of Proofs/MntTraceP.v).
   All theorems are about the MODEL's own `mount n` step, seen through the same view the
   property predicate C01.step_spec is evaluated on:  mview cfg w e n um  =
   LC.view_of_model cfg w e (CMount n) um.  They quantify over every configuration, world,
   layer name, users map and (plain) environment.  `_partial` = holds under the extra decidable
   hypotheses listed; each of those is shown necessary by a closed counterexample in
   Proofs/C01ExamplesP.v (see docs/proofs-C01.md). *)
From LC Require Import Lib.Bytes Lib.PathM Model.MountInfo Model.FsTree Model.Kernel Model.Layers
  Cases.LC Cases.C01 Proofs.MntTraceP Proofs.MntOrderP Proofs.MntNeededP Proofs.MntPostP
  Proofs.C01P Proofs.C01ExamplesP.
Import LC LCS.

(* the model's run IS a mount trace over the items of the chain read from disk: per layer the
   overlay (if derived) then the imports in configuration order, skipped when the cached table
   shows the target mounted, the cache refreshed after every import mount and at the end of a
   layer.  Everything below is derived from this by list reasoning. *)
Theorem C01_trace : forall cfg w e n um, plain_env e = true ->
  exists stat,
    ltrace (wo_ks w) (chain_items cfg (wo_fs w) n) (syscalls (v_log (mview cfg w e n um)))
           (wo_ks (v_after (mview cfg w e n um))) stat
    /\ (v_res (mview cfg w e n um) = ROk ->
        stat = TDone
        /\ Forall (fun x => expand_config_mounts cfg (layers_on_disk cfg (wo_fs w)) x <> None)
                  (chain cfg (wo_fs w) n))
    /\ (stat = TFailed -> v_res (mview cfg w e n um) = RFail).
Proof. exact mview_trace. Qed.
Print Assumptions C01_trace.

(* (a) ancestors first, overlay before imports, imports in configuration order -- full *)
Theorem C01_order : forall cfg w e n um, plain_env e = true ->
  subseq (mount_targets (syscalls (v_log (mview cfg w e n um))))
         (map em_target (expected_chain_mounts cfg (chain cfg (wo_fs w) n))) = true.
Proof. exact C01_order_proof. Qed.
Print Assumptions C01_order.

(* (b) propagation -- partial: needs "/dev,/sys,/run are only imported as rbind" and "the run did
   not fail"; refuted otherwise (C01_propagation_refuted_plain_bind / _failed_rbind) *)
Theorem C01_propagation_partial : forall cfg w e n um, plain_env e = true ->
  psources_rbind cfg (chain cfg (wo_fs w) n) = true ->
  rclass_beq (v_res (mview cfg w e n um)) RFail = false ->
  C01.propagation_ok (syscalls (v_log (mview cfg w e n um))) = true.
Proof. exact C01_propagation_partial_proof. Qed.
Print Assumptions C01_propagation_partial.

(* (b') whatever the result: the calls are well paired, or the run failed and they are well paired
   up to the last call (the mount call that failed) *)
Theorem C01_propagation_or_failed_partial : forall cfg w e n um, plain_env e = true ->
  psources_rbind cfg (chain cfg (wo_fs w) n) = true ->
  C01.propagation_ok (syscalls (v_log (mview cfg w e n um))) = true
  \/ (v_res (mview cfg w e n um) = RFail
      /\ C01.propagation_ok (removelast (syscalls (v_log (mview cfg w e n um)))) = true).
Proof. exact C01_propagation_or_failed_partial_proof. Qed.
Print Assumptions C01_propagation_or_failed_partial.

(* (c) nothing stacked, nothing outside the build roots -- partial: needs "no import of a derived
   layer is mounted on its build root"; refuted otherwise (C01_only_needed_refuted_root_import) *)
Theorem C01_only_needed_partial : forall cfg w e n um, plain_env e = true ->
  wf_table (ks_tab (wo_ks w)) = true ->
  is_abs (c_layers cfg) = true ->
  no_root_import cfg (chain cfg (wo_fs w) n) = true ->
  replay_calls (wo_fs (v_after (mview cfg w e n um))) (wo_ks w)
    (syscalls (v_log (mview cfg w e n um)))
    (fun ks o =>
       match o with
       | OMount _ t _ fl _ =>
         if has_flag fl MS_SLAVE then true
         else negb (mounted_at (ks_tab ks) t)
              && existsb (fun x => at_or_under (build_path cfg x) t) (chain cfg (wo_fs w) n)
       | OUmount _ _ => false
       | _ => true
       end) = true.
Proof. exact C01_only_needed_partial_proof. Qed.
Print Assumptions C01_only_needed_partial.

(* (d) 1: after a successful mount every expected mountpoint of the chain is mounted -- full *)
Theorem C01_post_mounted : forall cfg w e n um, plain_env e = true ->
  wf_table (ks_tab (wo_ks w)) = true ->
  v_res (mview cfg w e n um) = ROk ->
  all_mounted cfg (chain cfg (wo_fs w) n) (ks_tab (wo_ks (v_after (mview cfg w e n um)))) = true.
Proof. exact C01_post_mounted_proof. Qed.
Print Assumptions C01_post_mounted.

(* the kernel table stays well-formed (so the theorems apply again to the resulting world) *)
Theorem C01_keeps_wf : forall cfg w e n um, plain_env e = true ->
  wf_table (ks_tab (wo_ks w)) = true ->
  wf_table (ks_tab (wo_ks (v_after (mview cfg w e n um)))) = true.
Proof. exact mount_keeps_wf. Qed.
Print Assumptions C01_keeps_wf.

(* (d) 2: exactly one mount on every expected mountpoint -- partial: needs nothing stacked there
   beforehand and no expected mountpoint below an rbind import's mountpoint; refuted otherwise
   (C01_post_refuted_prestacked, C01_post_refuted_rbind_copy) *)
Theorem C01_post_count_partial : forall cfg w e n um, plain_env e = true ->
  wf_table (ks_tab (wo_ks w)) = true ->
  is_abs (c_layers cfg) = true ->
  no_root_import cfg (chain cfg (wo_fs w) n) = true ->
  rbind_clear cfg (chain cfg (wo_fs w) n) = true ->
  nostack0 cfg (chain cfg (wo_fs w) n) (ks_tab (wo_ks w)) = true ->
  v_res (mview cfg w e n um) = ROk ->
  count_one cfg (chain cfg (wo_fs w) n) (ks_tab (wo_ks (v_after (mview cfg w e n um)))) = true.
Proof. exact C01_post_count_partial_proof. Qed.
Print Assumptions C01_post_count_partial.

(* (d) 3: mount_post itself -- partial: additionally what is mounted beforehand must be of the
   right kind/source (for mounts made by this run it is proved), expected mountpoints pairwise
   different, no comma in the overlay directories, decimal ids below 10^24 *)
Theorem C01_post_partial : forall cfg w e n um, plain_env e = true ->
  wf_table (ks_tab (wo_ks w)) = true ->
  is_abs (c_layers cfg) = true ->
  no_root_import cfg (chain cfg (wo_fs w) n) = true ->
  rbind_clear cfg (chain cfg (wo_fs w) n) = true ->
  nostack0 cfg (chain cfg (wo_fs w) n) (ks_tab (wo_ks w)) = true ->
  pre_right cfg (wo_fs w) (chain cfg (wo_fs w) n) (ks_tab (wo_ks w)) = true ->
  nodup_targets cfg (chain cfg (wo_fs w) n) = true ->
  nocomma_paths cfg (layers_on_disk cfg (wo_fs w)) (chain cfg (wo_fs w) n) = true ->
  ids_ok (wo_ks w) = true ->
  id_bound (wo_ks (v_after (mview cfg w e n um))) = true ->
  v_res (mview cfg w e n um) = ROk ->
  C01.mount_post cfg (wo_fs w) (layers_on_disk cfg (wo_fs w)) (chain cfg (wo_fs w) n)
    (ks_tab (wo_ks (v_after (mview cfg w e n um)))) = true.
Proof. exact C01_post_partial_proof. Qed.
Print Assumptions C01_post_partial.

(* (e) a second mount from the resulting world issues no mount/umount call and leaves the kernel
   alone -- partial: needs "the first mount did not alter the layer definitions on disk" *)
Theorem C01_idempotent_partial : forall cfg w e n um e2 um2,
  plain_env e = true -> plain_env e2 = true ->
  wf_table (ks_tab (wo_ks w)) = true ->
  v_res (mview cfg w e n um) = ROk ->
  lmap_beq (layers_on_disk cfg (wo_fs (v_after (mview cfg w e n um))))
           (layers_on_disk cfg (wo_fs w)) = true ->
  syscalls (v_log (mview cfg (v_after (mview cfg w e n um)) e2 n um2)) = []
  /\ wo_ks (v_after (mview cfg (v_after (mview cfg w e n um)) e2 n um2))
     = wo_ks (v_after (mview cfg w e n um)).
Proof. exact C01_idempotent_partial_proof. Qed.
Print Assumptions C01_idempotent_partial.

(* the conjunction, with mount_post as a premise *)
Theorem C01_model_given_post : forall cfg w e n um, plain_env e = true ->
  wf_table (ks_tab (wo_ks w)) = true ->
  is_abs (c_layers cfg) = true ->
  no_root_import cfg (chain cfg (wo_fs w) n) = true ->
  psources_rbind cfg (chain cfg (wo_fs w) n) = true ->
  rclass_beq (v_res (mview cfg w e n um)) RFail = false ->
  (v_res (mview cfg w e n um) = ROk ->
   C01.mount_post cfg (wo_fs w) (layers_on_disk cfg (wo_fs w)) (chain cfg (wo_fs w) n)
     (ks_tab (wo_ks (v_after (mview cfg w e n um)))) = true) ->
  C01.step_spec cfg w (LC.view_of_model cfg w e (CMount n) um) = true.
Proof. exact C01_model_given_post_proof. Qed.
Print Assumptions C01_model_given_post.

(* the conjunction under all the hypotheses *)
Theorem C01_model_partial : forall cfg w e n um, plain_env e = true ->
  wf_table (ks_tab (wo_ks w)) = true ->
  is_abs (c_layers cfg) = true ->
  no_root_import cfg (chain cfg (wo_fs w) n) = true ->
  psources_rbind cfg (chain cfg (wo_fs w) n) = true ->
  rbind_clear cfg (chain cfg (wo_fs w) n) = true ->
  nostack0 cfg (chain cfg (wo_fs w) n) (ks_tab (wo_ks w)) = true ->
  pre_right cfg (wo_fs w) (chain cfg (wo_fs w) n) (ks_tab (wo_ks w)) = true ->
  nodup_targets cfg (chain cfg (wo_fs w) n) = true ->
  nocomma_paths cfg (layers_on_disk cfg (wo_fs w)) (chain cfg (wo_fs w) n) = true ->
  ids_ok (wo_ks w) = true ->
  id_bound (wo_ks (v_after (LC.view_of_model cfg w e (CMount n) um))) = true ->
  rclass_beq (v_res (LC.view_of_model cfg w e (CMount n) um)) RFail = false ->
  C01.step_spec cfg w (LC.view_of_model cfg w e (CMount n) um) = true.
Proof. exact C01_model_partial_proof. Qed.
Print Assumptions C01_model_partial.

(* refutations of the unconditioned conjuncts (closed witnesses, vm_compute) *)
Theorem C01_refuted_propagation_failed_rbind :
  plain_env ex_env = true
  /\ psources_rbind ex_cfg (chain ex_cfg (wo_fs w_b1) d1) = true
  /\ v_res v_b1 = RFail
  /\ C01.propagation_ok (syscalls (v_log v_b1)) = false
  /\ C01.step_spec ex_cfg w_b1 v_b1 = false.
Proof. exact C01_propagation_refuted_failed_rbind. Qed.
Print Assumptions C01_refuted_propagation_failed_rbind.

Theorem C01_refuted_propagation_plain_bind :
  plain_env ex_env = true
  /\ psources_rbind ex_cfg (chain ex_cfg (wo_fs w_b2) d1) = false
  /\ v_res v_b2 = ROk
  /\ length (syscalls (v_log v_b2)) = 3%nat
  /\ C01.propagation_ok (syscalls (v_log v_b2)) = false
  /\ C01.step_spec ex_cfg w_b2 v_b2 = false.
Proof. exact C01_propagation_refuted_plain_bind. Qed.
Print Assumptions C01_refuted_propagation_plain_bind.

Theorem C01_refuted_only_needed_root_import :
  plain_env ex_env = true
  /\ wf_table (ks_tab (wo_ks w_c)) = true
  /\ is_abs (c_layers ex_cfg) = true
  /\ no_root_import ex_cfg (chain ex_cfg (wo_fs w_c) d1) = false
  /\ mount_targets (syscalls (v_log v_c)) = [bs "/b/layers/d1/build"; bs "/b/layers/d1/build"]
  /\ replay_calls (wo_fs (v_after v_c)) (wo_ks w_c) (syscalls (v_log v_c))
       (Pc ex_cfg (chain ex_cfg (wo_fs w_c) d1)) = false
  /\ C01.step_spec ex_cfg w_c v_c = false.
Proof. exact C01_only_needed_refuted_root_import. Qed.
Print Assumptions C01_refuted_only_needed_root_import.

Theorem C01_refuted_post_prestacked :
  plain_env ex_env = true
  /\ wf_table (ks_tab (wo_ks w_d)) = true
  /\ v_res v_d = ROk
  /\ syscalls (v_log v_d) = []
  /\ count_at (ks_tab (wo_ks (v_after v_d))) (bs "/b/layers/base0/build/mnt") = 2%nat
  /\ all_mounted ex_cfg (chain ex_cfg (wo_fs w_d) (bs "base0")) (ks_tab (wo_ks (v_after v_d))) = true
  /\ C01.mount_post ex_cfg (wo_fs w_d) (layers_on_disk ex_cfg (wo_fs w_d))
       (chain ex_cfg (wo_fs w_d) (bs "base0")) (ks_tab (wo_ks (v_after v_d))) = false
  /\ C01.step_spec ex_cfg w_d v_d = false.
Proof. exact C01_post_refuted_prestacked. Qed.
Print Assumptions C01_refuted_post_prestacked.

Theorem C01_refuted_post_rbind_copy :
  plain_env ex_env = true
  /\ wf_table (ks_tab (wo_ks w_r)) = true
  /\ no_root_import ex_cfg (chain ex_cfg (wo_fs w_r) d1) = true
  /\ nostack0 ex_cfg (chain ex_cfg (wo_fs w_r) d1) (ks_tab (wo_ks w_r)) = true
  /\ all_mounted ex_cfg (chain ex_cfg (wo_fs w_r) d1) (ks_tab (wo_ks w_r)) = false
  /\ rbind_clear ex_cfg (chain ex_cfg (wo_fs w_r) d1) = false
  /\ v_res v_r = ROk
  /\ count_at (ks_tab (wo_ks (v_after v_r))) (bs "/b/layers/d1/build/mnt/sub") = 2%nat
  /\ C01.step_spec ex_cfg w_r v_r = false.
Proof. exact C01_post_refuted_rbind_copy. Qed.
Print Assumptions C01_refuted_post_rbind_copy.

Theorem C01_refuted_post_later_source :
  plain_env ex_env = true
  /\ wf_table (ks_tab (wo_ks w_s)) = true
  /\ nostack0 ex_cfg (chain ex_cfg (wo_fs w_s) (bs "base0")) (ks_tab (wo_ks w_s)) = true
  /\ pre_right ex_cfg (wo_fs w_s) (chain ex_cfg (wo_fs w_s) (bs "base0")) (ks_tab (wo_ks w_s)) = false
  /\ v_res v_s = ROk
  /\ syscalls (v_log v_s) = []
  /\ count_at (ks_tab (wo_ks (v_after v_s))) (bs "/b/layers/base0/build/mnt") = 1%nat
  /\ C01.mount_post ex_cfg (wo_fs w_s) (layers_on_disk ex_cfg (wo_fs w_s))
       (chain ex_cfg (wo_fs w_s) (bs "base0")) (ks_tab (wo_ks (v_after v_s))) = false
  /\ C01.step_spec ex_cfg w_s v_s = false.
Proof. exact C01_post_refuted_later_source. Qed.
Print Assumptions C01_refuted_post_later_source.

Theorem C01_refuted_idempotent_config_rewritten :
  plain_env ex_env = true
  /\ wf_cfg cfg_e = true
  /\ nodup_paths (map fst fs_e) = true
  /\ wf_table (ks_tab (wo_ks w_e)) = true
  /\ v_res v_e = ROk
  /\ length (syscalls (v_log v_e)) = 1%nat
  /\ lmap_beq (layers_on_disk cfg_e (wo_fs (v_after v_e))) (layers_on_disk cfg_e (wo_fs w_e)) = false
  /\ v_res v_e2 = ROk
  /\ mount_targets (syscalls (v_log v_e2)) = [bs "/b/layers/d1/build/mnt"].
Proof. exact C01_idempotent_refuted_config_rewritten. Qed.
Print Assumptions C01_refuted_idempotent_config_rewritten.
