(* C02 -- the layer hierarchy stays a well-formed forest and every command terminates.
   Statements only.  They are about the MODEL's own step: [view_of_model cfg w e cmd um] is what
   running command [cmd] in environment [e] (pretend / fault plan / Go map order oracle) does to
   world [w].  Hypotheses are decidable predicates on the world BEFORE the step:
     names_distinct c w   the names directly under the layers directory are pairwise distinct
     paths_distinct w     the file tree has one entry per path (LC.wf)
     cfg_ok c             layers / exports directories are clean absolute paths, neither inside the
                          other; the base directory is clean absolute and not inside the layers directory; buildroot, workdir, upperdir, export sub-directories are relative
                          paths of plain components
     fs_ok c f            every path is clean absolute, every entry's parent is a directory entry,
                          no <layers>/<x>/layerconfig is a symbolic link
   Proofs/C02ExP.v shows a two-layer world satisfying all of them, and worlds violating each. *)
From LC Require Import Lib.Bytes Lib.Lex Lib.Fields Lib.PathM Model.Config Gen.Consts
  Model.MountInfo Model.FsTree Model.Kernel Model.Layers Cases.Verdict Cases.LC Cases.C02
  Proofs.C02KernelP Proofs.RoundtripP Proofs.C02cP Proofs.C02dP Proofs.C02eP Proofs.C02P Proofs.C02ExP.
Import LC LCS.

(* (a) on a forest no command diverges or panics: the fuelled walks (normalizeOrder, checkInheritance,
   getAncestorsAndSelf) never run out, the "cannot happen" branches are not reached, ProbeMounts
   cannot panic on ANY table the kernel model renders (C02_probe_total) *)
Theorem C02_no_diverge : forall cfg w e cmd um,
  C02.forest_ok cfg (wo_fs w) = true -> names_distinct cfg w = true ->
  match v_res (view_of_model cfg w e cmd um) with RDiverge | RPanic => false | _ => true end = true.
Proof. exact no_diverge. Qed.
Print Assumptions C02_no_diverge.

(* every rendered mountinfo line has at least three fields after its first "-": the parser's panic
   branches are unreachable, for well-formed and ill-formed tables alike *)
Theorem C02_probe_total : forall k, exists ms ds, probe_of k = POk ms ds.
Proof. exact C02KernelP.probe_of_total. Qed.
Print Assumptions C02_probe_total.

(* (b) requests that would break the forest (duplicate / illegal / empty name, missing parent, rebase
   onto itself or a descendant, remove of a layer with children) are refused and nothing changes --
   in every environment, faults and pretend included *)
Theorem C02_breaking_refused : forall cfg w e cmd um,
  let v := view_of_model cfg w e cmd um in
  (negb (C02.forest_ok cfg (wo_fs w) && base_set_up cfg (wo_fs w) && C02.breaking cfg (wo_fs w) (v_cmd v))
   || (rclass_beq (v_res v) RFail && unchanged w v)) = true.
Proof. exact breaking_refused_view. Qed.
Print Assumptions C02_breaking_refused.

(* (c) the forest stays a forest.  In scope ([in_scope e cmd res]):
     - init, add, rebase, remove, mkdirs, umount, shake, probe and the hand-made kernel mounts (not the
       hand-made file edit CEdit, which may rewrite a layerconfig): at EVERY exit
       (success, refusal, injected failure, crash at any operation) in every environment;
     - rename: when it reports success;
     - every layercake command in pretend mode.
   Out of scope: mount, chroot with operations carried out; rename that stops half way (refuted
   below).
   FULL STATEMENT (false of the model, see C02_forest_preserved_refuted):
     forall cfg w e cmd um, <hypotheses> ->
       (negb (forest_ok cfg (wo_fs w)) || forest_ok cfg (wo_fs (v_after (view_of_model cfg w e cmd um)))) = true *)
Theorem C02_forest_preserved_partial : forall cfg w e cmd um,
  cfg_ok cfg = true -> fs_ok cfg (wo_fs w) = true -> names_distinct cfg w = true ->
  let v := view_of_model cfg w e cmd um in
  in_scope e cmd (v_res v) = true ->
  (negb (C02.forest_ok cfg (wo_fs w)) || C02.forest_ok cfg (wo_fs (v_after v))) = true.
Proof. exact forest_preserved_view. Qed.
Print Assumptions C02_forest_preserved_partial.

(* rename is not atomic: with NO fault injected, in a world satisfying every hypothesis above, a
   rename of a layer with a child stops after the directory has been renamed (the child's
   layerconfig.tmp is taken by a directory) and leaves the child pointing at a parent that no
   longer exists.  The same happens with a fault or crash injected after the first operation
   (C02ExP.forest_refuted_fault / forest_refuted_crash). *)
Theorem C02_forest_preserved_refuted : exists cfg w e cmd um,
  (cfg_ok cfg && fs_ok cfg (wo_fs w) && kernel_wf w && names_distinct cfg w && paths_distinct w
   && C02.forest_ok cfg (wo_fs w)) = true /\
  e_pretend e = false /\ e_fault e = NoFault /\
  C02.forest_ok cfg (wo_fs (v_after (view_of_model cfg w e cmd um))) = false /\
  C02.step_spec cfg w (view_of_model cfg w e cmd um) = false.
Proof. exact forest_preserved_refuted. Qed.
Print Assumptions C02_forest_preserved_refuted.

(* mount is outside in_scope for a reason: an export line may name any absolute target, e.g.
   <layers>/z/layerconfig; `mount a` then succeeds and creates a "layer" z with a missing base *)
Theorem C02_forest_mount_refuted : exists cfg w e cmd um,
  (cfg_ok cfg && fs_ok cfg (wo_fs w) && kernel_wf w && names_distinct cfg w && paths_distinct w
   && C02.forest_ok cfg (wo_fs w)) = true /\
  e_pretend e = false /\ e_fault e = NoFault /\
  v_res (view_of_model cfg w e cmd um) = ROk /\
  C02.forest_ok cfg (wo_fs (v_after (view_of_model cfg w e cmd um))) = false.
Proof. exact forest_mount_refuted. Qed.
Print Assumptions C02_forest_mount_refuted.

(* the frame lemma: what a fresh FindLayers sees depends only on the names directly under the layers
   directory and on what stat / read of their layerconfig files return *)
Theorem C02_frame : forall c f f',
  (forall n, memb n (children f (c_layers c)) = memb n (children f' (c_layers c))) ->
  (forall n, legal_name n = true -> cfg_file c f n = cfg_file c f' n) ->
  (forall n, lm_get (read_layer_files c f) n = lm_get (read_layer_files c f') n)
  /\ C02.forest_ok c f = C02.forest_ok c f'.
Proof. exact frame_both. Qed.
Print Assumptions C02_frame.

(* pretend mode leaves the file tree exactly as it is, for every layercake command (CEdit, somebody
   editing a file by hand, is not layercake and ignores the flag) *)
Theorem C02_pretend_fs_unchanged : forall cfg w e cmd um,
  names_distinct cfg w = true -> e_pretend e = true -> is_edit cmd = false ->
  wo_fs (v_after (view_of_model cfg w e cmd um)) = wo_fs w.
Proof. exact pretend_fs_unchanged_view. Qed.
Print Assumptions C02_pretend_fs_unchanged.

(* (d) a successful rebase (operations carried out: any environment that is not pretend, in particular
   the plain one) changes exactly that layer's parent: every other entry of the tree is identical,
   nothing new appears, the layer's definition is the old one with the new base.
   Since round 2 rebase_exact ignores a left-over <layerconfig>.tmp (which the rewrite consumes), so
   the former hypothesis no_stale_tmp and the former witness C02_rebase_exact_refuted are gone; the
   remaining hypotheses are well-formedness of configuration and file tree. *)
Theorem C02_rebase_exact : forall cfg w e cmd um,
  cfg_ok cfg = true -> fs_ok cfg (wo_fs w) = true -> paths_distinct w = true ->
  e_pretend e = false ->
  let v := view_of_model cfg w e cmd um in
  match v_cmd v, v_res v with
  | CRebase a b0, ROk => C02.rebase_exact cfg (wo_fs w) (wo_fs (v_after v)) a b0
  | _, _ => true
  end = true.
Proof. exact rebase_exact_view. Qed.
Print Assumptions C02_rebase_exact.

(* the former counterexample, now an example of correct behaviour: with a left-over
   b/layerconfig.tmp, `rebase b ""` succeeds, the stale file is gone, rebase_exact and step_spec hold *)
Theorem C02_rebase_stale_tmp_example :
  let w := MkWO fs_stale ks0 in
  let v := view_of_model cfg0 w env_plain (CRebase nb_ []) [] in
  (fs_ok cfg0 fs_stale, v_res v, exists_ (wo_fs (v_after v)) (bs "/lc/layers/b/layerconfig.tmp"),
   C02.rebase_exact cfg0 fs_stale (wo_fs (v_after v)) nb_ [], C02.step_spec cfg0 w v)
  = (true, ROk, false, true, true).
Proof. exact rebase_consumes_stale_tmp. Qed.
Print Assumptions C02_rebase_stale_tmp_example.

(* the round trip the exactness proofs rest on: writing a definition that was itself read from a
   layerconfig and reading it back gives the same definition (own proof; C11 states the same) *)
Theorem C02_layerfile_roundtrip : forall b ms es,
  (b = [] \/ tok_ok b) -> Forall canon_m ms -> Forall canon_e es ->
  read_layerfile (concat (layerfile_chunks b ms es)) = MkLF b ms es 0.
Proof. exact layerfile_roundtrip. Qed.
Print Assumptions C02_layerfile_roundtrip.
Theorem C02_read_is_canonical : forall content, canon_lf (read_layerfile content).
Proof. exact read_layerfile_canon. Qed.
Print Assumptions C02_read_is_canonical.

(* (d) a successful rename (operations carried out): nothing is left under the old name, the old
   subtree other than its layerconfig is identical under the new name and nothing else is there, the
   layer's own definition is unchanged, every other layer has the same definition with its base
   retargeted iff it was a child, everything else under the layers directory is untouched.
   Left-over layerconfig.tmp files are exempt in rename_exact (follow-up of round 2) and are consumed
   by the rewrites; the former hypothesis no_stale_tmp is gone. *)
Theorem C02_rename_exact : forall cfg w e cmd um,
  cfg_ok cfg = true -> fs_ok cfg (wo_fs w) = true -> paths_distinct w = true ->
  e_pretend e = false ->
  let v := view_of_model cfg w e cmd um in
  match v_cmd v, v_res v with
  | CRename a n, ROk => C02.rename_exact cfg (wo_fs w) (wo_fs (v_after v)) a n
  | _, _ => true
  end = true.
Proof. exact rename_exact_view. Qed.
Print Assumptions C02_rename_exact.

(* the former counterexample, now an example of accepted behaviour: a left-over b/layerconfig.tmp in
   a child is consumed by `rename a c`; the forest is fine, rename_exact and step_spec hold *)
Theorem C02_rename_stale_tmp_example :
  let w := MkWO fs_stale ks0 in
  let v := view_of_model cfg0 w env_plain (CRename na nc) [] in
  (fs_ok cfg0 fs_stale, v_res v, exists_ (wo_fs (v_after v)) (bs "/lc/layers/b/layerconfig.tmp"),
   C02.forest_ok cfg0 (wo_fs (v_after v)),
   C02.rename_exact cfg0 fs_stale (wo_fs (v_after v)) na nc, C02.step_spec cfg0 w v)
  = (true, ROk, false, true, true, true).
Proof. exact rename_consumes_stale_tmp. Qed.
Print Assumptions C02_rename_stale_tmp_example.

(* "... so the installation can always be listed": on a forest with the base directory set up the
   listing command (CProbe = FindLayers + ProbeAllLayerstate, what `layercake list` / `status` run)
   returns -- in every environment (it performs no operation), whatever the kernel table and the
   users map are *)
Theorem C02_listable : forall cfg w e um,
  C02.forest_ok cfg (wo_fs w) = true -> base_set_up cfg (wo_fs w) = true ->
  v_res (view_of_model cfg w e CProbe um) = ROk.
Proof. exact listable. Qed.
Print Assumptions C02_listable.

(* all five conjuncts of C02.step_spec together *)
Theorem C02_step_spec_partial : forall cfg w e cmd um,
  cfg_ok cfg = true -> fs_ok cfg (wo_fs w) = true -> names_distinct cfg w = true ->
  paths_distinct w = true ->
  C02.forest_ok cfg (wo_fs w) = true ->
  in_scope e cmd (v_res (view_of_model cfg w e cmd um)) = true ->
  C02.step_spec cfg w (view_of_model cfg w e cmd um) = true.
Proof. exact step_spec_view. Qed.
Print Assumptions C02_step_spec_partial.

(* the hypotheses are satisfiable by a non-trivial world (two layers, one on top of the other), on
   which add / rebase / remove / rename / mkdirs run and succeed *)
Theorem C02_hypotheses_satisfiable :
  (cfg_ok cfg0 && fs_ok cfg0 fs0 && kernel_wf wld0 && names_distinct cfg0 wld0 && paths_distinct wld0
   && C02.forest_ok cfg0 fs0 && base_set_up cfg0 fs0
   && (2 <=? length (read_layer_files cfg0 fs0))%nat) = true.
Proof. exact hyps_satisfiable. Qed.
Print Assumptions C02_hypotheses_satisfiable.

(* ---- the regenerated constants this property's predicate / model rest on, against literals.
   Gen/Consts.v is rewritten from the source of /repo on every run, so without this theorem an
   edit of one of these constants would move model, predicate and code together and nothing
   would be reported.  Used by: the predicate C02.spec (layerconfig, skeleton file) and the init/add/remove/state parts of Model/Layers.v whose values the manual fixes.
   "frozen" = no manual text gives the value; it is the value of the reviewed tree. *)
From LC Require Import Gen.Consts Proofs.C02PinsP.
Local Open Scope string_scope.
Theorem C02_constants_pinned :
  (* doc/layercake_directories.adoc, manual page LAYER DIRECTORY: "layerconfig" *)
  D_LayerconfigFile = bs "layerconfig" /\
  (* manual page / doc/layercake_layerconfig.adoc: "default_layerconfig.skel" in the base directory *)
  D_SkeletonLayerconfigFile = bs "default_layerconfig.skel" /\
  (* frozen from the reviewed tree (the extension of the documented skeleton name; `add` appends it to a skeleton name without a dot) *)
  D_SkeletonLayerconfigFileExt = bs ".skel" /\
  (* doc/layercake_layerconfig.adoc prints these six lines (with {pkgdir} already replaced by the default "packages") *)
  D_SkeletonLayerconfig = bs "import rbind /dev /dev
import proc /proc /proc
import rbind /sys /sys
import rbind /var/db/repos /var/db/repos
import rbind /var/cache/distfiles /var/cache/distfiles
import rbind $$base/{pkgdir} /var/cache/binpkgs" /\
  (* property C09 text "<name>~removed"; manual page, remove: "append ~removed to the layer name" *)
  D_RemovedLayerSuffix = bs "~removed" /\
  (* manual page, status, "not yet populated": bin, etc, lib, opt, root, sbin, usr *)
  D_MinimalBuildDirs = bs "bin etc lib opt root sbin usr" /\
  (* manual page EXPORT DIRECTORY / doc/layercake_directories.adoc: "index.html" *)
  D_ExportIndexHtmlName = bs "index.html" /\
  (* frozen from the reviewed tree (the stub page `init` writes; the manual only says "dummy index file") *)
  D_ExportIndexHtml = bs "<!DOCTYPE html>
<html>
   <head>
      <title>binpackager</title>
   </head>
   <body>
      <h1>binpackager</h1>
      <div>Serves prebuilt Gentoo packages</div>
   </body>
</html>

" /\
  (* frozen from the reviewed tree (what `add` writes to build/root/.bashrc of a base layer; not documented) *)
  D_BaseLayerRootBashrc = bs "#!/bin/bash

source /etc/profile
msg=chroot
if [ -n ""$LAYERCAKE_LAYER"" ]; then
        msg=""chroot $LAYERCAKE_LAYER""
fi
export PS1=""($msg) \[\033]0;\u@\h:\w\007\]\[\033[01;31m\]\h\[\033[01;34m\] \w \$\[\033[00m\] ""

".
Proof. exact c02_constants_pinned. Qed.
Print Assumptions C02_constants_pinned.
