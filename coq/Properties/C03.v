(* C03 -- unmount removes all of a layer's mounts, deepest first, and nothing else: the model's
   own step satisfies the property predicate.  Statements only. *)
From LC Require Import Lib.Bytes Model.MountInfo Model.FsTree Model.Kernel Model.Layers
  Proofs.KernelP Proofs.KernelInvP Proofs.ForestP Proofs.UmountAllP Proofs.C03P Proofs.C03AllP Proofs.BuildPathP
  Cases.LC Cases.C03.
Import LC LCS.

(* (a) umount with neither a layer nor -all fails, changes nothing, issues no call *)
Theorem C03_noargs : forall c w e um, plain_env e = true -> wf_table (ks_tab (wo_ks w)) = true ->
  C03.step_spec c w (view_of_model c w e (CUmount [] false) um) = true.
Proof. exact C03_noargs_proof. Qed.
Print Assumptions C03_noargs.

(* (b) umount L: every call hits a current mountpoint at or below L's build root with nothing
   mounted beneath it, mounts outside the build root are untouched, on success nothing is left *)
Theorem C03_single : forall c w e um a r, plain_env e = true ->
  wf_kernel (wo_ks w) = true -> wf_layers c (layers_on_disk c (wo_fs w)) = true ->
  C03.step_spec c w (view_of_model c w e (CUmount (a :: r) false) um) = true.
Proof. exact C03_single_proof. Qed.
Print Assumptions C03_single.

(* without an installation (base directories / skeleton missing, layers not a forest) every form
   of the command fails and leaves everything unchanged: the precondition of the predicate *)
Theorem C03_not_set_up : forall c w e um n all, plain_env e = true -> set_up c w = false ->
  C03.step_spec c w (view_of_model c w e (CUmount n all) um) = true.
Proof. exact C03P.C03_not_set_up. Qed.
Print Assumptions C03_not_set_up.

(* (c) umount -all.  For this command, a plain environment and an installation the predicate is
   the conjunction [all_safe && all_outcome] (C03_all_split).
   Safety -- every call legal inside the build roots, mounts outside them untouched, layers
   processed descendants first, no layer touched that is still overlain at the end -- holds for every world with a well-formed table, unique layer
   names and build roots that are proper, pairwise unrelated directories. *)
Theorem C03_all_split : forall c w v, v_cmd v = CUmount [] true -> plain_env (v_env v) = true ->
  set_up c w = true ->
  C03.step_spec c w v = C03AllP.all_safe c w v && C03AllP.all_outcome c w v.
Proof. exact C03AllP.step_spec_all. Qed.
Print Assumptions C03_all_split.

Theorem C03_all_safety : forall c w e um, plain_env e = true -> C03AllP.C03_all_safe_hyp c w = true ->
  C03AllP.all_safe c w (view_of_model c w e (CUmount [] true) um) = true.
Proof. exact C03AllP.C03_all_safety_proof. Qed.
Print Assumptions C03_all_safety.

(* the whole predicate, ROk / RFail clauses included, under the further decidable hypotheses of
   [C03_all_hyp] (well-formed parent ids, no trailing slash in the directory settings, overlays
   placed on descendants); docs/proofs-C03-C04.md gives for each of them the world that refutes the
   predicate without it *)
Theorem C03_all_partial : forall c w e um, plain_env e = true -> C03AllP.C03_all_hyp c w = true ->
  C03.step_spec c w (view_of_model c w e (CUmount [] true) um) = true.
Proof. exact C03AllP.C03_all_proof. Qed.
Print Assumptions C03_all_partial.

(* the reversed normalised order visits descendants before ancestors *)
Theorem C03_order_descendants_first : forall m o, NoDup (map l_name m) -> normalize_order m = Some o ->
  Sorted.StronglySorted (ForestP.not_anc m) (rev o).
Proof. exact ForestP.order_descendants_first. Qed.
Print Assumptions C03_order_descendants_first.

(* the kernel-level core: a descending list that is, as a multiset, the mountpoints at or below
   d is unmounted call by call, every call legal, only lines at or below d disappear, nothing is
   left on success, and with well-formed parent ids no call fails *)
Theorem C03_umount_sequence_core : forall d region, good_root d = true ->
  (forall t, at_or_below d t = true -> region t = true) ->
  forall ts ks, desc ts ->
  Permutation.Permutation ts (filter (at_or_below d) (map k_mp (ks_tab ks))) ->
  NoDup (kids (ks_tab ks)) ->
  exists ok ks' iss, ku_seq ks ts = (ok, ks', iss)
    /\ legal_seq (um_legal region) ks iss = true
    /\ dels (fun k => at_or_below d (k_mp k)) (ks_tab ks) (ks_tab ks')
    /\ ks_nextid ks' = ks_nextid ks /\ ks_nextdev ks' = ks_nextdev ks
    /\ (ok = true -> iss = ts /\ forall m, In m (ks_tab ks') -> at_or_below d (k_mp m) = false)
    /\ (ok = false -> iss <> [])
    /\ (pwf (ks_tab ks) = true -> ok = true).
Proof. exact ku_seq_core. Qed.
Print Assumptions C03_umount_sequence_core.

(* all forms of the command, every environment (for a pretend / faulty environment the predicate
   is true by definition) *)
Theorem C03_model_partial : forall cfg w e um n all, C03AllP.C03_hyp cfg w n all = true ->
  C03.step_spec cfg w (view_of_model cfg w e (CUmount n all) um) = true.
Proof. exact C03AllP.C03_model_any_env. Qed.
Print Assumptions C03_model_partial.

(* the kernel well-formedness assumed above (unique mount ids; a line's parent id is never a
   later line, and a later line naming k as parent lies at or under k) is an invariant of the
   kernel model: kept by umount(2) and by mount(2) *)
Theorem C03_kernel_inv_umount : forall ks t fl ks', kumount ks t fl = KOk ks' ->
  KernelInvP.kinv (ks_tab ks) ->
  KernelInvP.kinv (ks_tab ks') /\ (wf_table (ks_tab ks) = true -> wf_table (ks_tab ks') = true).
Proof. exact KernelInvP.kumount_preserves. Qed.
Print Assumptions C03_kernel_inv_umount.

(* every successful mount(2) of the kernel model -- bind, recursive bind with all its submount
   copies, overlay, any other file system, remount, propagation change -- keeps unique ids,
   well-formed parent ids and the numbering ([numbered]: ids and parent ids are decimals of numbers
   below the next id, ids from 2 on), as long as the next id still has at most 24 digits *)
Theorem C03_kernel_inv_mount : forall fs ks src tgt fstype flags data ks',
  kmount fs ks src tgt fstype flags data = KOk ks' ->
  KernelInvP.kinv2 ks -> (ks_nextid ks' <= KernelInvP.idmax)%N -> KernelInvP.kinv2 ks'.
Proof. exact KernelInvP.kmount_preserves_all. Qed.
Print Assumptions C03_kernel_inv_mount.

(* ... and the table stays printable, provided the file-system type given to mount(2) has no blank *)
Theorem C03_kernel_wf_table_mount : forall fs ks src tgt fstype flags data ks',
  kmount fs ks src tgt fstype flags data = KOk ks' ->
  wf_table (ks_tab ks) = true -> nospace fstype = true -> wf_table (ks_tab ks') = true.
Proof. exact KernelInvP.kmount_wf_table. Qed.
Print Assumptions C03_kernel_wf_table_mount.

(* where the build-root hypotheses come from: LAYERS clean and absolute, the build-root setting a
   non-empty relative path of plain components; then every build root is
   "/" ++ join "/" (components of LAYERS ++ [name] ++ components of the setting) *)
Theorem C03_sane_configuration : forall c, BuildPathP.cfg_sane c = true -> forall f,
  nodup_paths (map l_name (read_layer_files c f)) = true ->
  wf_layers c (read_layer_files c f) = true /\ UmountAllP.roots_apart c (read_layer_files c f) = true.
Proof. exact BuildPathP.sane_layers. Qed.
Print Assumptions C03_sane_configuration.
