(* C03 -- unmount removes all of a layer's mounts, deepest first, and nothing else: the model's
   own step satisfies the property predicate.  Statements only. *)
From LC Require Import Lib.Bytes Model.MountInfo Model.FsTree Model.Kernel Model.Layers
  Proofs.KernelP Proofs.KernelInvP Proofs.ForestP Proofs.UmountAllP Proofs.C03P Proofs.C03AllP Proofs.BuildPathP
  Proofs.KrnWitnessP Cases.LC Cases.C03.
Import LC LCS.

(* (a) umount with neither a layer nor -all fails, changes nothing, issues no call *)
Theorem C03_noargs : forall c w e um, plain_env e = true -> wf_table (ks_tab (wo_ks w)) = true ->
  C03.step_spec c w (view_of_model c w e (CUmount [] false) um) = true.
Proof. exact C03_noargs_proof. Qed.
Print Assumptions C03_noargs.

(* (b) umount L: every call hits a current mountpoint at or below L's build root with nothing
   mounted beneath it, mounts outside the build root are untouched, on success nothing is left --
   in every mount state, covered (hidden) mounts included: there a call fails, the command fails
   and promises nothing *)
Theorem C03_single : forall c w e um a r, plain_env e = true ->
  wf_kernel (wo_ks w) = true -> wf_layers c (layers_on_disk c (wo_fs w)) = true ->
  C03.step_spec c w (view_of_model c w e (CUmount (a :: r) false) um) = true.
Proof. exact C03_single_proof. Qed.
Print Assumptions C03_single.

(* without an installation (base directories / skeleton missing, layers not a forest) every form
   of the command fails and leaves everything unchanged: the precondition of the predicate *)
Theorem C03_not_set_up : forall c w e um n all, plain_env e = true -> set_up c w = false ->
  C03.step_spec c w (view_of_model c w e (CUmount n all) um) = true.
Proof. exact C03P.C03_not_set_up. Qed.
Print Assumptions C03_not_set_up.

(* (c) umount -all.  For this command, a plain environment and an installation the predicate is
   the conjunction [all_safe && all_outcome] (C03_all_split).
   Safety -- every call legal inside the build roots, mounts outside them untouched, layers
   processed descendants first, no layer touched that is still overlain at the end -- holds for every world with a well-formed table, unique layer
   names and build roots that are proper, pairwise unrelated directories. *)
Theorem C03_all_split : forall c w v, v_cmd v = CUmount [] true -> plain_env (v_env v) = true ->
  set_up c w = true ->
  C03.step_spec c w v = C03AllP.all_safe c w v && C03AllP.all_outcome c w v.
Proof. exact C03AllP.step_spec_all. Qed.
Print Assumptions C03_all_split.

Theorem C03_all_safety : forall c w e um, plain_env e = true -> C03AllP.C03_all_safe_hyp c w = true ->
  C03AllP.all_safe c w (view_of_model c w e (CUmount [] true) um) = true.
Proof. exact C03AllP.C03_all_safety_proof. Qed.
Print Assumptions C03_all_safety.

(* the whole predicate, ROk / RFail clauses included, under the further decidable hypotheses of
   [C03_all_hyp] (well-formed parent ids, no mount at or below a build root covered by a later mount
   on an ancestor directory -- [uok] --, no trailing slash in the directory settings, overlays
   placed on descendants); docs/proofs-C03-C04.md gives for each of them the world that refutes the
   predicate without it; the covered-mount world is known finding 1 (C03_refuted_1 below) *)
Theorem C03_all_partial : forall c w e um, plain_env e = true -> C03AllP.C03_all_hyp c w = true ->
  C03.step_spec c w (view_of_model c w e (CUmount [] true) um) = true.
Proof. exact C03AllP.C03_all_proof. Qed.
Print Assumptions C03_all_partial.

(* the reversed normalised order visits descendants before ancestors *)
Theorem C03_order_descendants_first : forall m o, NoDup (map l_name m) -> normalize_order m = Some o ->
  Sorted.StronglySorted (ForestP.not_anc m) (rev o).
Proof. exact ForestP.order_descendants_first. Qed.
Print Assumptions C03_order_descendants_first.

(* the kernel-level core: a descending list that is, as a multiset, the mountpoints at or below
   d is unmounted call by call, every call legal, only lines at or below d disappear, nothing is
   left on success, and with well-formed parent ids and no covered line at or below d no call fails *)
Theorem C03_umount_sequence_core : forall d region, good_root d = true ->
  (forall t, at_or_below d t = true -> region t = true) ->
  forall ts ks, desc ts ->
  Permutation.Permutation ts (filter (at_or_below d) (map k_mp (ks_tab ks))) ->
  NoDup (kids (ks_tab ks)) ->
  exists ok ks' iss, ku_seq ks ts = (ok, ks', iss)
    /\ legal_seq (um_legal region) ks iss = true
    /\ dels (fun k => at_or_below d (k_mp k)) (ks_tab ks) (ks_tab ks')
    /\ ks_nextid ks' = ks_nextid ks /\ ks_nextdev ks' = ks_nextdev ks
    /\ (ok = true -> iss = ts /\ forall m, In m (ks_tab ks') -> at_or_below d (k_mp m) = false)
    /\ (ok = false -> iss <> [])
    /\ (pwf (ks_tab ks) = true -> nocov (fun k => at_or_below d (k_mp k)) (ks_tab ks) = true -> ok = true).
Proof. exact ku_seq_core. Qed.
Print Assumptions C03_umount_sequence_core.

(* all forms of the command, every environment (for a pretend / faulty environment the predicate
   is true by definition) *)
Theorem C03_model_partial : forall cfg w e um n all, C03AllP.C03_hyp cfg w n all = true ->
  C03.step_spec cfg w (view_of_model cfg w e (CUmount n all) um) = true.
Proof. exact C03AllP.C03_model_any_env. Qed.
Print Assumptions C03_model_partial.

(* umount(2) of the kernel model on a hidden mountpoint: after the topmost line at t only later
   lines decide; it fails exactly if one of them is mounted on a strict ancestor directory of t
   (or the mount has children); a table without covered lines has no hidden mountpoint *)
Theorem C03_kernel_hidden_split : forall l1 k l2 t, k_mp k = t ->
  (forall m, In m l2 -> beq (k_mp m) t = false) ->
  hidden_at (l1 ++ k :: l2) t = existsb (fun m => FsTree.under (k_mp m) t) l2.
Proof. exact hidden_at_split. Qed.
Print Assumptions C03_kernel_hidden_split.

Theorem C03_kernel_umount_spec : forall ks t fl,
  kumount ks t fl =
  match top_at (ks_tab ks) t with
  | None => KErr
  | Some k => if negb (hidden_at (ks_tab ks) t) && no_children (ks_tab ks) k
              then KOk (MkKS (remove_id (ks_tab ks) (k_id k)) (ks_nextid ks) (ks_nextdev ks)) else KErr
  end.
Proof. exact kumount_spec. Qed.
Print Assumptions C03_kernel_umount_spec.

Theorem C03_kernel_nocov_not_hidden : forall P tab t k, nocov P tab = true -> top_at tab t = Some k ->
  P k = true -> hidden_at tab t = false.
Proof. exact nocov_not_hidden. Qed.
Print Assumptions C03_kernel_nocov_not_hidden.

(* known finding 1: a case of class kf = 1 on which the predicate fails.  The import of base layer
   a at build/var/db/repos is covered by a tmpfs mounted later on build/var/db; umount -all calls
   umount(2) on the covered mountpoint first (descending path order), the call fails, the command
   fails with the idle layer still mounted and the table unchanged.  Safety still holds, every
   other hypothesis of C03_all_partial holds, and in the other order (cover first) both calls
   succeed.  Outside the class: the same world with umount a (fails, predicate true, kf 0), and a
   reported success that leaves the covered mount behind is rejected with kf 0. *)
Theorem C03_refuted_1 :
  let v := view_of_model cfg0 w_cov e0 (CUmount [] true) [] in
  C03.wf c_cov = true /\ LC.corr c_cov = true /\ C03.kf c_cov = 1%N /\ C03.spec c_cov = false
  /\ c03 cfg0 w_cov (CUmount [] true) [] = false
  /\ v_res v = RFail
  /\ umount_targets (syscalls (v_log v)) = [bs "/b/layers/a/build/var/db/repos"]
  /\ ktab_beq (ks_tab (wo_ks (v_after v))) (ks_tab (wo_ks w_cov)) = true
  /\ C03AllP.all_safe cfg0 w_cov v = true
  /\ C03AllP.C03_all_safe_hyp cfg0 w_cov = true /\ pwf (ks_tab (wo_ks w_cov)) = true
  /\ C03AllP.uok cfg0 (layers_on_disk cfg0 (wo_fs w_cov)) (ks_tab (wo_ks w_cov)) = false
  /\ (let '(ok, ks', _) := ku_seq (wo_ks w_cov) [bs "/b/layers/a/build/var/db"; bs "/b/layers/a/build/var/db/repos"]
      in ok && ktab_beq (ks_tab ks') [rootline]) = true.
Proof. exact C03_refuted_1_witness. Qed.
Print Assumptions C03_refuted_1.

Theorem C03_covered_outside_class :
  (C03.wf c_cov_single = true /\ LC.corr c_cov_single = true /\ C03.kf c_cov_single = 0%N
   /\ C03.spec c_cov_single = true)
  /\ (C03.wf c_cov_bad = true /\ C03.kf c_cov_bad = 0%N /\ C03.spec c_cov_bad = false).
Proof.
  split; [destruct covered_single_umount_fails_and_holds as (A & B & C & D & _); auto|exact covered_left_behind_rejected].
Qed.
Print Assumptions C03_covered_outside_class.

(* outside the class the covered-line hypothesis of C03_all_partial holds: a failing umount -all in
   a plain environment with kf = 0 runs in a world without covered lines below build roots *)
Theorem C03_kf_class : forall c w v, v_cmd v = CUmount [] true -> plain_env (v_env v) = true ->
  v_res v = RFail -> C03.step_kf c w v = 0%N ->
  nocov (fun k => UmountP.in_roots (C03AllP.roots c (layers_on_disk c (wo_fs w))) (k_mp k)) (ks_tab (wo_ks w)) = true.
Proof. exact C03AllP.kf_class. Qed.
Print Assumptions C03_kf_class.

(* the kernel well-formedness assumed above (unique mount ids; a line's parent id is never a
   later line, and a later line naming k as parent lies at or under k) is an invariant of the
   kernel model: kept by umount(2) and by mount(2) *)
Theorem C03_kernel_inv_umount : forall ks t fl ks', kumount ks t fl = KOk ks' ->
  KernelInvP.kinv (ks_tab ks) ->
  KernelInvP.kinv (ks_tab ks') /\ (wf_table (ks_tab ks) = true -> wf_table (ks_tab ks') = true).
Proof. exact KernelInvP.kumount_preserves. Qed.
Print Assumptions C03_kernel_inv_umount.

(* every successful mount(2) of the kernel model -- bind, recursive bind with all its submount
   copies, overlay, any other file system, remount, propagation change -- keeps unique ids,
   well-formed parent ids and the numbering ([numbered]: ids and parent ids are decimals of numbers
   below the next id, ids from 2 on), as long as the next id still has at most 24 digits *)
Theorem C03_kernel_inv_mount : forall fs ks src tgt fstype flags data ks',
  kmount fs ks src tgt fstype flags data = KOk ks' ->
  KernelInvP.kinv2 ks -> (ks_nextid ks' <= KernelInvP.idmax)%N -> KernelInvP.kinv2 ks'.
Proof. exact KernelInvP.kmount_preserves_all. Qed.
Print Assumptions C03_kernel_inv_mount.

(* ... and the table stays printable, provided the file-system type given to mount(2) has no blank *)
Theorem C03_kernel_wf_table_mount : forall fs ks src tgt fstype flags data ks',
  kmount fs ks src tgt fstype flags data = KOk ks' ->
  wf_table (ks_tab ks) = true -> nospace fstype = true -> wf_table (ks_tab ks') = true.
Proof. exact KernelInvP.kmount_wf_table. Qed.
Print Assumptions C03_kernel_wf_table_mount.

(* where the build-root hypotheses come from: LAYERS clean and absolute, the build-root setting a
   non-empty relative path of plain components; then every build root is
   "/" ++ join "/" (components of LAYERS ++ [name] ++ components of the setting) *)
Theorem C03_sane_configuration : forall c, BuildPathP.cfg_sane c = true -> forall f,
  nodup_paths (map l_name (read_layer_files c f)) = true ->
  wf_layers c (read_layer_files c f) = true /\ UmountAllP.roots_apart c (read_layer_files c f) = true.
Proof. exact BuildPathP.sane_layers. Qed.
Print Assumptions C03_sane_configuration.

(* ---- the regenerated constants this property's predicate / model rest on, against literals.
   Gen/Consts.v is rewritten from the source of /repo on every run, so without this theorem an
   edit of one of these constants would move model, predicate and code together and nothing
   would be reported.  Used by: the predicate C03.spec / C03.kf (through the helpers of Cases/C02.v and Model/Layers.v).
   "frozen" = no manual text gives the value; it is the value of the reviewed tree. *)
From LC Require Import Gen.Consts Proofs.C03PinsP.
Local Open Scope string_scope.
Theorem C03_constants_pinned :
  (* doc/layercake_directories.adoc, manual page LAYER DIRECTORY: "layerconfig" *)
  D_LayerconfigFile = bs "layerconfig" /\
  (* manual page / doc/layercake_layerconfig.adoc: "default_layerconfig.skel" in the base directory *)
  D_SkeletonLayerconfigFile = bs "default_layerconfig.skel".
Proof. exact c03_constants_pinned. Qed.
Print Assumptions C03_constants_pinned.
