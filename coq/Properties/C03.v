(* C03 -- unmount removes all of a layer's mounts, deepest first, and nothing else: the model's
   own step satisfies the property predicate.  Statements only. *)
From LC Require Import Lib.Bytes Model.MountInfo Model.FsTree Model.Kernel Model.Layers
  Proofs.KernelP Proofs.C03P Cases.LC Cases.C03.
Import LC LCS.

(* (a) umount with neither a layer nor -all fails, changes nothing, issues no call *)
Theorem C03_noargs : forall c w e um, plain_env e = true -> wf_table (ks_tab (wo_ks w)) = true ->
  C03.step_spec c w (view_of_model c w e (CUmount [] false) um) = true.
Proof. exact C03_noargs_proof. Qed.
Print Assumptions C03_noargs.

(* (b) umount L: every call hits a current mountpoint at or below L's build root with nothing
   mounted beneath it, mounts outside the build root are untouched, on success nothing is left *)
Theorem C03_single : forall c w e um a r, plain_env e = true ->
  wf_kernel (wo_ks w) = true -> wf_layers c (layers_on_disk c (wo_fs w)) = true ->
  C03.step_spec c w (view_of_model c w e (CUmount (a :: r) false) um) = true.
Proof. exact C03_single_proof. Qed.
Print Assumptions C03_single.
