(* C04 -- busy layers are protected: the model's own step satisfies the property predicate for
   every world, configuration, command and user map.  Statements only.
   Hypotheses are decidable: [plain_env] (no pretend, no fault), [wf_table] (mountinfo lines as
   the kernel writes them), [wf_layers] (unique layer names, build roots neither "" nor "/"),
   and per command what Proofs/C04P.v names [C04_hyp] (see docs/proofs-C03-C04.md). *)
From LC Require Import Lib.Bytes Model.MountInfo Model.FsTree Model.Kernel Model.Layers
  Proofs.KernelP Proofs.UmountAllP Proofs.C03P Proofs.C04P Cases.LC Cases.C04.
Import LC LCS.

(* remove: a target with a mount at/below its build root, any user, or overlain is refused;
   world and log unchanged *)
Theorem C04_remove : forall c w e um, plain_env e = true -> wf_table (ks_tab (wo_ks w)) = true ->
  wf_layers c (layers_on_disk c (wo_fs w)) = true ->
  forall n fl, C04.step_spec c w (view_of_model c w e (CRemove n fl) um) = true.
Proof. exact C04_remove_proof. Qed.
Print Assumptions C04_remove.

(* rename / rebase: the same for the target and for every direct child *)
Theorem C04_rename : forall c w e um, plain_env e = true -> wf_table (ks_tab (wo_ks w)) = true ->
  wf_layers c (layers_on_disk c (wo_fs w)) = true ->
  forall n n2, C04.step_spec c w (view_of_model c w e (CRename n n2) um) = true.
Proof. exact C04_rename_proof. Qed.
Print Assumptions C04_rename.

Theorem C04_rebase : forall c w e um, plain_env e = true -> wf_table (ks_tab (wo_ks w)) = true ->
  wf_layers c (layers_on_disk c (wo_fs w)) = true ->
  forall n n2, C04.step_spec c w (view_of_model c w e (CRebase n n2) um) = true.
Proof. exact C04_rebase_proof. Qed.
Print Assumptions C04_rebase.

(* the same three facts in direct form: the run returns Fail and the machine state is the
   initial one -- world untouched, nothing counted, nothing logged; this needs no assumption on
   the environment (pretend mode, fault plan) because the refusal precedes every mutation *)
Theorem C04_protect_target_remove : forall c w e um, wf_table (ks_tab (wo_ks w)) = true ->
  wf_layers c (layers_on_disk c (wo_fs w)) = true ->
  forall n fl x, lm_get (layers_on_disk c (wo_fs w)) n = Some x ->
  C04.protected c (ks_tab (wo_ks w)) um x = true ->
  run e c um (CRemove n fl) (world_of w) = (Fail, MkSt (world_of w) 0 []).
Proof. exact remove_protected. Qed.
Print Assumptions C04_protect_target_remove.

Theorem C04_protect_rename : forall c w e um, wf_table (ks_tab (wo_ks w)) = true ->
  wf_layers c (layers_on_disk c (wo_fs w)) = true ->
  forall n n2 x, lm_get (layers_on_disk c (wo_fs w)) n = Some x ->
  (C04.protected c (ks_tab (wo_ks w)) um x
   || existsb (fun k => beq (l_base k) n && C04.protected c (ks_tab (wo_ks w)) um k) (layers_on_disk c (wo_fs w))) = true ->
  run e c um (CRename n n2) (world_of w) = (Fail, MkSt (world_of w) 0 []).
Proof. exact rename_protected. Qed.
Print Assumptions C04_protect_rename.

Theorem C04_protect_rebase : forall c w e um, wf_table (ks_tab (wo_ks w)) = true ->
  wf_layers c (layers_on_disk c (wo_fs w)) = true ->
  forall n n2 x, lm_get (layers_on_disk c (wo_fs w)) n = Some x ->
  (C04.protected c (ks_tab (wo_ks w)) um x
   || existsb (fun k => beq (l_base k) n && C04.protected c (ks_tab (wo_ks w)) um k) (layers_on_disk c (wo_fs w))) = true ->
  run e c um (CRebase n n2) (world_of w) = (Fail, MkSt (world_of w) 0 []).
Proof. exact rebase_protected. Qed.
Print Assumptions C04_protect_rebase.

(* umount L: refused without a call when a user sits in build/upper/work or the layer is
   overlain; otherwise a mounted layer is not refused without a call *)
Theorem C04_umount_single_partial : forall c w e um, plain_env e = true -> wf_table (ks_tab (wo_ks w)) = true ->
  wf_layers c (layers_on_disk c (wo_fs w)) = true ->
  forall n, dirs_noslash c = true ->
  C04.step_spec c w (view_of_model c w e (CUmount n false) um) = true.
Proof. exact C04_umount1_proof. Qed.
Print Assumptions C04_umount_single_partial.

(* umount -all: no layer with a user in build/upper/work is touched *)
Theorem C04_umount_all : forall c w e um, plain_env e = true -> wf_table (ks_tab (wo_ks w)) = true ->
  wf_layers c (layers_on_disk c (wo_fs w)) = true -> roots_apart c (layers_on_disk c (wo_fs w)) = true ->
  C04.step_spec c w (view_of_model c w e (CUmount [] true) um) = true.
Proof. exact C04_umount_all_proof. Qed.
Print Assumptions C04_umount_all.

(* every command, every environment (for a pretend / faulty environment the predicate is true by
   definition) *)
Theorem C04_model_partial : forall cfg w e cmd um, C04_hyp cfg w cmd = true ->
  C04.step_spec cfg w (view_of_model cfg w e cmd um) = true.
Proof. exact C04_model_any_env. Qed.
Print Assumptions C04_model_partial.

(* ---- the regenerated constants this property's predicate / model rest on, against literals.
   Gen/Consts.v is rewritten from the source of /repo on every run, so without this theorem an
   edit of one of these constants would move model, predicate and code together and nothing
   would be reported.  Used by: the predicate C04.spec (through the helpers of Cases/C02.v and Model/Layers.v).
   "frozen" = no manual text gives the value; it is the value of the reviewed tree. *)
From LC Require Import Gen.Consts Proofs.C04PinsP.
Local Open Scope string_scope.
Theorem C04_constants_pinned :
  (* doc/layercake_directories.adoc, manual page LAYER DIRECTORY: "layerconfig" *)
  D_LayerconfigFile = bs "layerconfig" /\
  (* manual page / doc/layercake_layerconfig.adoc: "default_layerconfig.skel" in the base directory *)
  D_SkeletonLayerconfigFile = bs "default_layerconfig.skel".
Proof. exact c04_constants_pinned. Qed.
Print Assumptions C04_constants_pinned.
