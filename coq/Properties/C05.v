(* C05 -- the stage package set is exactly the dependency closure of the requested set.
   Statements only.  Model: Model/Resolve.v (AtomSet, GetInstalledPackageList, ResolveUserDeps,
   ResolveAtom/ResolveEach/ResolveSomeOf, Resolver.Resolve, findDependencies) and Model/Profile.v
   (ReadSystemSet, UserEnteredDependencies).  Specification: Cases/C05.v (valid = Roots, Closed,
   Justified, Unblocked; spec_stage; spec_sys).
   wf_vdb: distinct (name, slot) and category/name-version, category "/" name form of the names, USE words
   declared and unsigned, no dependency file on which DecodeDependencies panics.
   no_compound (known finding 1 otherwise): in the packages that can be selected no active any-of /
   exactly-one-of / at-most-one-of group has a group as an alternative. *)
From LC Require Import Lib.Bytes Model.Resolve Model.Profile Cases.C05
  Proofs.ResolveP Proofs.ClosureP Proofs.StageP Proofs.ProfileP Proofs.OrderP Proofs.TerminateP Proofs.C05P Proofs.C05W Proofs.C05T Proofs.C05L.
From LC Require Model.PMSGrammar.
Import C05.

(* the per-case statement evaluated on implementation output by the correspondence check *)
Theorem C05_holds : forall c, wf c = true -> kf c = 0%N -> spec c (model c) = true.
Proof. exact C05_holds_proof. Qed.
Print Assumptions C05_holds.

(* resolve_valid = resolve_roots + resolve_closed + resolve_justified ("nothing else is selected") +
   resolve_unblocked, and the listing is in (category/name, slot) order: for every VDB, enumeration
   order, -nobdeps flag and request *)
Theorem C05_resolve_valid : forall vdb bdeps enum us, wf_vdb vdb bdeps -> is_perm_ids (length vdb) enum = true ->
  (forall rq, requested vdb us = Some rq -> no_compound vdb bdeps rq) ->
  forall L, stage_set vdb enum bdeps us = ROk L ->
  exists rq X, requested vdb us = Some rq /\ ids_of vdb L = Some X /\
    v_roots vdb rq X = true /\ v_closed vdb bdeps X = true /\ v_justified vdb bdeps rq X = true /\
    v_unblocked vdb bdeps rq X = true /\ sorted_by (key_lt vdb) X = true.
Proof. exact resolve_valid. Qed.
Print Assumptions C05_resolve_valid.

(* Justified is reachability by a finite chain: the decidable closure used by the specification is
   exactly the inductive predicate (so a dependency cycle cannot justify itself) *)
Theorem C05_closure_is_reachability : forall vdb bdeps rq inS i,
  In i (closure vdb bdeps inS rq) <-> ReachIn vdb bdeps rq inS i.
Proof. exact closure_spec. Qed.
Print Assumptions C05_closure_is_reachability.

(* a successful run has omitted nothing: every requested atom and every mandatory active atom of a
   selected package has installed matches, all of them selected; no selected package is matched by a
   requested or active blocker *)
Theorem C05_no_silent_omission : forall vdb bdeps enum us, wf_vdb vdb bdeps -> is_perm_ids (length vdb) enum = true ->
  (forall rq, requested vdb us = Some rq -> no_compound vdb bdeps rq) ->
  forall L, stage_set vdb enum bdeps us = ROk L ->
  exists rq X, requested vdb us = Some rq /\ ids_of vdb L = Some X /\
    (forall a, In a rq -> a_blk a = false -> amatch vdb a <> [] /\ incl (amatch vdb a) X) /\
    (forall i p d a, In i X -> pkg_at vdb i = Some p -> In d (top_deps bdeps p) ->
       In a (mandatory (spec_use p) d) -> a_blk a = false -> amatch vdb a <> [] /\ incl (amatch vdb a) X) /\
    (forall b q, In b rq -> a_blk b = true -> In q (amatch vdb b) -> ~ In q X) /\
    (forall i p b q, In i X -> pkg_at vdb i = Some p -> In b (active_of bdeps p) -> a_blk b = true ->
       In q (amatch vdb b) -> ~ In q X).
Proof. exact no_silent_omission. Qed.
Print Assumptions C05_no_silent_omission.

(* resolve_fails_when_it_must: when no selection is valid the run does not succeed *)
Theorem C05_resolve_fails_when_it_must : forall vdb bdeps enum us, wf_vdb vdb bdeps ->
  is_perm_ids (length vdb) enum = true ->
  (forall rq, requested vdb us = Some rq -> no_compound vdb bdeps rq) ->
  (forall rq, requested vdb us = Some rq -> forall X, valid vdb bdeps rq X = false) ->
  forall L, stage_set vdb enum bdeps us <> ROk L.
Proof. exact fails_when_it_must. Qed.
Print Assumptions C05_resolve_fails_when_it_must.

(* ... and a failure always has one of the stated reasons, located in the full closure *)
Theorem C05_failure_has_reason : forall vdb bdeps enum us, wf_vdb vdb bdeps -> is_perm_ids (length vdb) enum = true ->
  (forall rq, requested vdb us = Some rq -> no_compound vdb bdeps rq) ->
  stage_set vdb enum bdeps us = RFailed ->
  forall rq, requested vdb us = Some rq -> valid vdb bdeps rq (maxclosure vdb bdeps rq) = false.
Proof. exact failure_has_reason. Qed.
Print Assumptions C05_failure_has_reason.

(* resolve_terminates: fuel = number of installed packages + 1 suffices, dependency cycles included --
   for EVERY input (no well-formedness, no known-finding exclusion) *)
Theorem C05_resolve_terminates : forall vdb enum bdeps us, stage_set vdb enum bdeps us <> RDiverge.
Proof. exact stage_terminates. Qed.
Print Assumptions C05_resolve_terminates.

(* neither out of fuel nor a Go panic on well-formed input *)
Theorem C05_no_crash : forall vdb bdeps enum us, wf_vdb vdb bdeps -> is_perm_ids (length vdb) enum = true ->
  (forall rq, requested vdb us = Some rq -> no_compound vdb bdeps rq) ->
  stage_set vdb enum bdeps us <> RDiverge /\ stage_set vdb enum bdeps us <> RPanic.
Proof. exact no_crash. Qed.
Print Assumptions C05_no_crash.

(* resolve_order_independent: the installed set, hence the selection and the printed order, is the same
   for any two directory-enumeration orders *)
Theorem C05_installed_order_independent : forall vdb,
  (forall i j p q, pkg_at vdb i = Some p -> pkg_at vdb j = Some q -> p_pn p = p_pn q -> p_slot p = p_slot q -> i = j) ->
  forall enum1 enum2, is_perm_ids (length vdb) enum1 = true -> is_perm_ids (length vdb) enum2 = true ->
  installed vdb enum1 = installed vdb enum2.
Proof. exact installed_order_independent. Qed.
Print Assumptions C05_installed_order_independent.
Theorem C05_resolve_order_independent : forall vdb,
  (forall i j p q, pkg_at vdb i = Some p -> pkg_at vdb j = Some q -> p_pn p = p_pn q -> p_slot p = p_slot q -> i = j) ->
  forall enum1 enum2 bdeps us, is_perm_ids (length vdb) enum1 = true -> is_perm_ids (length vdb) enum2 = true ->
  stage_set vdb enum1 bdeps us = stage_set vdb enum2 bdeps us.
Proof. exact stage_order_independent. Qed.
Print Assumptions C05_resolve_order_independent.

(* system_set: the requested strings are the "*" atoms of the profile chain, parents first, "-*atom"
   removing an inherited atom, a profile reached twice and an atom listed twice harmless, plus the user's
   atoms; the run fails exactly when a profile directory is missing or something entered is not an atom *)
Theorem C05_system_set : forall c, wf c = true ->
  (model_sys c = RFailed /\ all_parse c = false) \/
  (exists u, model_sys c = ROk u /\ ued_ok (c_dict c) u /\ all_parse c = true /\
             req_strings c = Some (map fst u) /\ NoDup (map fst u)).
Proof. exact sys_cases. Qed.
Print Assumptions C05_system_set.

(* known finding 1: || ( ( a b c ) d ), everything installed: a and b are selected, c is not *)
Theorem C05_refuted_1 : exists c, wf c = true /\ kf c = 1%N /\ spec c (model c) = false.
Proof. exists witness_kf1. destruct refuted_1_proof as (H1 & H2 & H3 & _). auto. Qed.
Print Assumptions C05_refuted_1.

(* ---- round 5: the trees of a case are the PMS readings of the dependency files, and empty groups ----
   wf c contains texts_ok c: for every dependency file that is a PMS dependency string the token sequence
   of its tree equals the (classified) token sequence of the text on disk (tie).  The grammar is uniquely
   readable: two trees tied to one text have the same skeleton -- the same groups of the same kinds and
   flags, nested the same way, with the same number of atoms (and blocker marks) in every group.  In
   particular which items a USE-conditional group governs is fixed by the text: its parenthesised body. *)
Theorem C05_reading_unique : forall text l1 l2,
  tie text l1 = true -> tie text l2 = true -> map skel l1 = map skel l2.
Proof. exact tie_unique. Qed.
Print Assumptions C05_reading_unique.

(* an empty all-of / USE-conditional / at-most-one-of group contributes nothing (PMS 8.2): for every
   database, request and candidate selection, validity (Roots, Closed, Justified, Unblocked) and the full
   closure are the same with and without such groups, at any depth, in any position -- hence the verdict
   of the specification on any observed result.  (An empty any-of / exactly-one-of group is not inert:
   the property asks for at least one satisfied alternative and there is none.) *)
Theorem C05_empty_groups_contribute_nothing : forall vdb bdeps rq X,
  valid (strip_vdb vdb) bdeps rq X = valid vdb bdeps rq X /\
  maxclosure (strip_vdb vdb) bdeps rq = maxclosure vdb bdeps rq.
Proof. intros. split; [apply valid_strip|apply maxclosure_strip]. Qed.
Print Assumptions C05_empty_groups_contribute_nothing.
Theorem C05_empty_groups_same_verdict : forall vdb bdeps rq o,
  spec_stage (strip_vdb vdb) bdeps rq o = spec_stage vdb bdeps rq o.
Proof. exact spec_stage_strip. Qed.
Print Assumptions C05_empty_groups_same_verdict.

(* inside the hypotheses of C05_holds: "liba ssl? ( ) libb" with ssl off -- the tree is tied to the text,
   libb and its own dependency libc are selected; the reading that lets the empty conditional swallow libb
   is not tied to that text, and the stage set without libb and libc is refused by the specification *)
Theorem C05_empty_group_example :
  wf (witness_empty no_obs) = true /\ kf (witness_empty no_obs) = 0%N /\
  o_stage (model (witness_empty no_obs))
    = ROk [bs "app-misc/top-1"; bs "sys-libs/liba-1"; bs "sys-libs/libb-2"; bs "sys-libs/libc-3"] /\
  spec (witness_empty no_obs)
       (MkObs (ROk [bs "app-misc/top"]) (ROk [bs "app-misc/top-1"; bs "sys-libs/liba-1"]) (ROk [bs "app-misc/top"])
              (ROk [bs "app-misc/top-1"; bs "sys-libs/liba-1"]) (ROk [bs "app-misc/top-1"; bs "sys-libs/liba-1"])
              (o_listed (model (witness_empty no_obs))) (o_loaded (model (witness_empty no_obs)))) = false.
Proof.
  vm_compute. repeat split; reflexivity.
Qed.
Print Assumptions C05_empty_group_example.

(* ---- round 5b: the installed packages are the generator's database, the loader's reading of it is observed ----
   c_vdb (directories, package names, slot keys) is what the harness wrote, read by the harness: db_tied in wf
   ties every name to PF (PF = name "-" version, version of the PMS 3.2 syntax) and every slot key to the SLOT
   text (before "/").  What vdb.GetInstalledPackageList returned is the observation o_loaded, what
   fs.Readdirnames listed is o_listed; spec demands both to be exactly the database (spec_loader).
   Model side: for EVERY database with distinct (name, slot) and every enumeration order the AtomSet built by
   AtomSet.Add holds every directory, each under its own name and slot key: nothing lost, nothing renamed. *)
Theorem C05_loader_view : forall vdb enum,
  (forall i j p q, pkg_at vdb i = Some p -> pkg_at vdb j = Some q -> p_pn p = p_pn q -> p_slot p = p_slot q -> i = j) ->
  is_perm_ids (length vdb) enum = true ->
  loaded_view vdb (installed vdb enum) = db_view vdb /\
  listing vdb (filter (fun i => memN i enum) (ids vdb)) = map pkg_str vdb.
Proof. intros vdb enum H1 H2. split; [now apply loaded_view_db|now apply listed_db]. Qed.
Print Assumptions C05_loader_view.

(* a directory name has at most one reading as name "-" version (PMS 3.2 version syntax): so the name the
   harness hands over, once name_tied holds, is THE package name of that directory *)
Theorem C05_pf_split_unique : forall n1 v1 n2 v2 : bytes,
  (n1 ++ nb 45 :: v1 = n2 ++ nb 45 :: v2)%list ->
  PMSGrammar.is_pms_version v1 = true -> PMSGrammar.is_pms_version v2 = true -> n1 = n2 /\ v1 = v2.
Proof. exact pf_split_unique. Qed.
Print Assumptions C05_pf_split_unique.

(* inside the hypotheses (witness_ok: wf, kf = 0): the model's observation passes; the same observation with
   one unneeded package missing from the loader's result, or one package under another slot key, is refused *)
Theorem C05_loader_loss_refused :
  let m := model witness_ok in
  spec witness_ok m = true
  /\ spec witness_ok (with_loaded m (removelast (o_loaded m))) = false
  /\ spec witness_ok (with_loaded m ((bs "app-misc/a-1", (bs "app-misc/a", bs "00001")) :: tl (o_loaded m))) = false.
Proof. destruct loader_view_witness as (H1 & _ & H2 & H3). auto. Qed.
Print Assumptions C05_loader_loss_refused.
