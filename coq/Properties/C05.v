(* C05 -- the stage package set is exactly the dependency closure of the requested set.  Statements only. *)
From LC Require Import Lib.Bytes Model.Resolve Model.Profile Cases.C05.
