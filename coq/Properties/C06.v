(* C06 -- the stage tarball contains exactly the right paths, in an extractable order.
   Statements only; the proofs are in Proofs/.  [stage_map i] is the member map of
   getStageFileList before Finalize, [stage_list i] the finalized member list (Model/StageList.v);
   Cases/C06.v holds [wf], [spec] and [model]. *)
From LC Require Import Lib.Bytes Model.StageList Proofs.StageListP Proofs.StagePathP Proofs.StagePipeP
  Proofs.StageContentP Proofs.StageContentsFmtP Proofs.C06TopP Proofs.C06P Proofs.C06Example Cases.C06.

(* the property predicate (all conjuncts of Cases/C06.v [spec_ok], evaluated by the check on
   what the stagemaker binary wrote) holds of the model for every well-formed input: every build-root
   tree, package database, selection, add-files script and switch combination *)
Theorem C06_holds : forall c, C06.wf c = true -> C06.kf c = 0%N -> C06.spec c (C06.model c) = true.
Proof. exact C06_holds_proof. Qed.
Print Assumptions C06_holds.

(* a run ends with a list or with a refusal, never with a crash *)
Theorem C06_never_crashes : forall i, stage_list i <> Panic.
Proof. exact stage_list_nopanic. Qed.
Print Assumptions C06_never_crashes.

(* every member name is a clean absolute path below the root (MakeTar writes "." ++ name) and
   appears once *)
Theorem C06_names_relative_unique : forall i ms, good_input i -> stage_list i = Ok ms ->
  NoDup (map m_name ms) /\ forall x, In x ms -> good (m_name x).
Proof. exact names_relative_unique. Qed.
Print Assumptions C06_names_relative_unique.

(* every member is preceded in the list by all of its parent directories *)
Theorem C06_parents_precede : forall i ms, good_input i -> stage_list i = Ok ms ->
  forall n x p, nth_error ms n = Some x -> In p (nrparents (m_name x)) ->
  exists j y, (j < n)%nat /\ nth_error ms j = Some y /\ m_name y = p.
Proof. exact parents_precede. Qed.
Print Assumptions C06_parents_precede.

(* every hard-link member refers to an earlier regular-file member of the same inode *)
Theorem C06_hardlink_wellformed : forall i ms, stage_list i = Ok ms ->
  forall a x b, ms = a ++ x :: b -> m_kind x = KLink ->
  exists y g, In y a /\ m_name y = m_link x /\ m_kind y = KReg
              /\ lstat (i_tree i) (m_name x) = Some (NFile (Some g))
              /\ lstat (i_tree i) (m_name y) = Some (NFile (Some g)).
Proof. exact hardlink_wellformed. Qed.
Print Assumptions C06_hardlink_wellformed.

(* ... and an entry whose contents come from a src= file (inside or outside the build root, of any
   link count) is a regular-file member of its own name: not a hard link, and no hard link refers
   to it -- unless a later line names the path again *)
Theorem C06_src_entry_regular : forall i ms, stage_list i = Ok ms ->
  forall pre li s post, user_script i = pre ++ OAdd li :: post -> li_src li = Some s ->
  omits_none post (li_name li) -> ~ ops_name (i_tree i) post (li_name li) ->
  (exists x, In x ms /\ m_name x = li_name li) /\
  forall x, In x ms -> (m_name x = li_name li -> m_kind x = KReg) /\ (m_kind x = KLink -> m_link x <> li_name li).
Proof. exact src_entry_regular. Qed.
Print Assumptions C06_src_entry_regular.
Example C06_src_example :
  map parse_line [bs "file /etc/motd src=$$stageroot/usr/share/skel/motd mod=0600"; bs "file /etc/vimrc src=/etc/vim/vimrc";
                  bs "file /etc/x src=/a src=/b"; bs "file /etc/* src=/a"; bs "symlink /etc/l src=/a"]
  = [OAdd (MkLI TFile (bs "/etc/motd") false false false false (Some (SRoot (bs "/usr/share/skel/motd"))));
     OAdd (MkLI TFile (bs "/etc/vimrc") false false false false (Some (SAbs (bs "/etc/vim/vimrc") None)));
     OErr; OErr; OErr]
  /\ resolve_op [(bs "/etc/vim/vimrc", NFile (Some 3))]
       (OAdd (MkLI TFile (bs "/etc/vimrc") false false false false (Some (SAbs (bs "/etc/vim/vimrc") None))))
     = OAdd (MkLI TFile (bs "/etc/vimrc") false false false false (Some (SAbs (bs "/etc/vim/vimrc") (Some (NFile (Some 3)))))).
Proof. exact src_parse_facts. Qed.

(* omit lines, plain or wildcard, remove the matching members *)
Theorem C06_omit_removes : forall i mf, good_input i -> stage_map i = Ok mf ->
  forall pre nm w post k, user_script i = pre ++ OOmit nm w :: post ->
  omit_hit nm w k = true -> mem k mf = true ->
  ops_name (i_tree i) post k \/ (exists k0, mem k0 mf = true /\ In k (nrparents k0)) \/ k = root_path.
Proof. exact omit_removes. Qed.
Print Assumptions C06_omit_removes.
Theorem C06_omit_removes_now : forall t pre nm w m m', run_ops t (pre ++ [OOmit nm w]) m = Ok m' ->
  forall k, omit_hit nm w k = true -> mem k m' = false.
Proof. exact omit_removes_now. Qed.
Print Assumptions C06_omit_removes_now.

(* member_iff, "if": every existing object recorded for a selected package, and everything a user
   line names, is a member unless an omit line matches it *)
Theorem C06_member_if_recorded : forall i mf sel, stage_map i = Ok mf ->
  all_contents (selected (i_pkgs i)) = Ok sel ->
  forall n, In n sel -> lstat (i_tree i) n <> None -> omits_none (user_script i) n -> mem n mf = true.
Proof. exact member_if_recorded. Qed.
Print Assumptions C06_member_if_recorded.
Theorem C06_member_if_user : forall i mf, stage_map i = Ok mf ->
  forall pre li post n, user_script i = pre ++ OAdd li :: post ->
  In n (op_targets (i_tree i) li) -> (li_skip li = true -> lstat (i_tree i) n <> None) ->
  omits_none post n -> mem n mf = true.
Proof. exact member_if_user. Qed.
Print Assumptions C06_member_if_user.

(* member_iff, "only if": nothing is a member without a source *)
Theorem C06_member_only_if : forall i mf sel, good_input i -> stage_map i = Ok mf ->
  all_contents (selected (i_pkgs i)) = Ok sel ->
  forall k, mem k mf = true ->
  sourced_by i sel k \/ k = root_path \/ exists k0, sourced_by i sel k0 /\ In k (nrparents k0).
Proof. exact member_only_if. Qed.
Print Assumptions C06_member_only_if.

(* vdb/contents.go: every well-formed CONTENTS file (names with blanks, quotes, "->" inside
   obj names, ...) is read back into exactly the recorded names *)
Theorem C06_contents_roundtrip : forall es, es <> [] -> forallb wf_centry es = true ->
  parse_contents (render_contents es) = Ok (map centry_name es).
Proof. exact contents_roundtrip. Qed.
Print Assumptions C06_contents_roundtrip.
Example C06_contents_example :
  let es := [CDir (bs "/usr/share/odd dir"); CObj (bs "/usr/bin/a b -> c") (bs "d3b07384d113edec49eaa6238ad5ff00") (bs "1600000000");
             CSym (bs "/usr/lib/it's ""x""") (bs "../lib64/x y") (bs "-5")] in
  es <> [] /\ forallb wf_centry es = true.
Proof. exact contents_example. Qed.

(* the hypotheses are satisfiable by a non-trivial input on which the pipeline succeeds *)
Example C06_wf_example : C06.wf ex_case = true /\ C06.kf ex_case = 0%N
  /\ good_input (C06.c_in ex_case)
  /\ exists ms, stage_list (C06.c_in ex_case) = Ok ms /\ (60 <= length ms)%nat.
Proof. exact ex_case_facts. Qed.
Example C06_omit_example :
  script_ops [bs "dir /opt/x mod=0755"; bs "# c"; bs "omit ""/usr/bin/ba*"""; bs "tbd /usr/bin/bar absent=skip"]
  = ([OAdd (MkLI TDir (bs "/opt/x") false false false false None)] ++ OOmit (bs "/usr/bin/ba*") true
    :: [OAdd (MkLI TTbd (bs "/usr/bin/bar") false false false true None)])%list
  /\ omit_hit (bs "/usr/bin/ba*") true (bs "/usr/bin/bar") = true
  /\ omit_hit (bs "/usr/bin/ba*") true (bs "/usr/bin/sub/bar") = false.
Proof. exact ex_omit_facts. Qed.

(* ---- the regenerated constants this property's predicate / model rest on, against literals.
   Gen/Consts.v is rewritten from the source of /repo on every run, so without this theorem an
   edit of one of these constants would move model, predicate and code together and nothing
   would be reported.  Used by: the predicate C06.spec (standard stage directories, static /dev names, built-in lines as member sources), C06.wf (symlink chain bound) and Model/StageList.v.
   "frozen" = no manual text gives the value; it is the value of the reviewed tree. *)
From LC Require Import Gen.Consts Proofs.C06PinsP.
Local Open Scope string_scope.
Theorem C06_constants_pinned :
  (* frozen from the reviewed tree (the manual names no list; "the standard stage directories" of the property text) *)
  D_StandardStageDirs = bs "dir /boot
dir /dev
dir /home
dir /media
dir /mnt
dir /opt
dir /proc
dir /root
dir /run
dir /sys
dir /tmp
dir /usr/src
tbd /usr/tmp absent=skip
dir /var/db/repos
dir /var/empty
dir /var/lock
symlink /var/run
dir /var/spool
dir /var/tmp
" /\
  (* frozen from the reviewed tree (built-in add-files lines read before the user's) *)
  D_StageMagic = bs "file /etc/csh.env
dir /etc/env.d/*
file /etc/fstab
file /etc/group
file /etc/gshadow
file /etc/ld.so.cache
file /etc/ld.so.conf
dir /etc/ld.so.conf.d/*
tbd /etc/localtime
symlink /etc/mtab targ=/proc/self/mounts
file /etc/passwd
dir /etc/portage/*
file /etc/profile.env
file /etc/shadow
file /etc/udev/hwdb.bin
dir /etc/xml/*
file /usr/bin/c89
file /usr/bin/c99
file /usr/lib64/gconv/gconv-modules.cache
dir /usr/local/*
file /usr/sbin/fix_libtool_files.sh absent=skip
dir /usr/share/binutils-data/*
dir /usr/share/gcc-data/*
file /usr/share/info/dir
file /var/cache/*
dir /var/lib/gentoo/*
dir /var/lib/portage/*
" /\
  (* frozen from the reviewed tree (directories whose recorded symlinks are not followed when missing links are recovered) *)
  D_DoNotTraverse = bs "/boot /dev /home /media /mnt /proc /run /usr/portage /sys /var/db cache tmp" /\
  (* frozen from the reviewed tree ("static /dev nodes" of the property text: names, types, major:minor, gid, mode) *)
  D_DevDirSetup = bs "node /dev/console dev=c5:1 mod=0600
node /dev/core dev=c1:6 mod=0600
symlink /dev/fd targ=../proc/self/fd
node /dev/full dev=c1:7 mod=0666
node /dev/hda dev=b3:0 gid=6 mod=0640
dir /dev/input mod=0755
node /dev/input/event0 dev=c13:64 mod=0600
node /dev/input/js0 dev=c13:0 mod=0600
node /dev/input/keyboard dev=c10:150 mod=0600
node /dev/input/mice dev=c13:63 mod=0600
node /dev/input/mouse dev=c10:149 mod=0600
node /dev/input/mouse0 dev=c13:32 mod=0600
node /dev/input/uinput dev=c10:223 mod=0600
node /dev/mem dev=c1:1 gid=9 mod=0640
node /dev/null dev=c1:3 mod=0666
node /dev/port dev=c1:4 gid=9 mod=0640
node /dev/ptmx dev=c5:2 gid=0 mod=0666
node /dev/random dev=c1:8 mod=0644
node /dev/sda dev=b8:0 gid=6 mod=0640
node /dev/sdb dev=b8:16 gid=6 mod=0640
node /dev/sdc dev=b8:32 gid=6 mod=0640
node /dev/sdd dev=b8:48 gid=6 mod=0640
symlink /dev/stderr targ=../proc/self/fd/2
symlink /dev/stdin targ=../proc/self/fd/0
symlink /dev/stdout targ=../proc/self/fd/1
node /dev/tty dev=c5:0 gid=0 mod=0666
node /dev/tty0 dev=c4:0 gid=5 mod=0620
node /dev/urandom dev=c1:9 mod=0644
node /dev/zero dev=c1:5 mod=0666
" /\
  (* frozen from the reviewed tree (numbered siblings of the static nodes: /dev/sda 15 = sda1..sda15) *)
  D_DevDirExtend = bs "/dev/hda 32
/dev/input/event0 31
/dev/input/js0 31
/dev/input/mouse0 30
/dev/sda 15
/dev/sdb 15
/dev/sdc 15
/dev/sdd 15
/dev/tty0 63
" /\
  (* frozen from the reviewed tree *)
  D_MaxSymlinkChain = 5%N.
Proof. exact c06_constants_pinned. Qed.
Print Assumptions C06_constants_pinned.
