(* C06 -- the stage tarball contains exactly the right paths, in an extractable order.  Statements only. *)
From LC Require Import Lib.Bytes Model.StageList Cases.C06.
