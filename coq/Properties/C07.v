(* C07 -- tarball members reproduce the build root faithfully.  Statements only.
   The model (Model/TarMeta.v) is tied to the Go code by the correspondence check; what no
   theorem covers: the byte level of archive/tar, the compressor programs, the kernel's
   lstat/readlink/xattr calls (validated by read-back only). *)
From LC Require Import Lib.Bytes Lib.Fields Gen.Consts Model.TarMeta Model.OutFile Proofs.TarMetaP Proofs.OutFileP Cases.C07 Proofs.C07P.
From Coq Require Import ZArith.
Import C07.
Open Scope N_scope.

(* the per-case statement evaluated on implementation output by the correspondence check:
   whatever build root, member list, options and clock -- the run of the model satisfies the
   property predicate *)
Theorem C07_holds : forall c, C07.wf c = true -> C07.kf c = 0%N -> C07.spec c (C07.model c) = true.
Proof. exact C07_holds_proof. Qed.
Print Assumptions C07_holds.

(* known finding 1 (KNOWN_FINDINGS): /a and /b are two names of one inode of mode 0655 and the
   line for /a says mod=o-r: /b is written as a hard link to /a, whose header says 0651, so the
   extracted /b has mode 0651 although nothing overrides /b *)
Theorem C07_refuted_1 : exists c, C07.wf c = true /\ C07.kf c = 1%N /\ C07.spec c (C07.model c) = false.
Proof. exact refuted_1. Qed.
Print Assumptions C07_refuted_1.

(* the hypotheses of C07_holds are satisfiable by a non-trivial case (absent directory with a
   symbolic mod=, block device 8:300 with an xattr, 300-byte symlink) *)
Theorem C07_domain_inhabited : C07.wf example_case = true /\ C07.kf example_case = 0
  /\ (exists hs, C07.o_run (C07.model example_case) = ROutput hs /\ length hs = 3%nat).
Proof. exact example_wf. Qed.
Print Assumptions C07_domain_inhabited.

(* header_faithful: an entry without overriding options, taken from an object of the build
   root: every header field is the lstat / readlink / listxattr field.  mtime: whole seconds
   (the granularity the tool records); link targets and xattr sets of any size *)
Theorem C07_header_faithful : forall m o now e,
  member_wf m = true -> m_src (mc_member m) = SPresent o ->
  p_mod (m_opts (mc_member m)) = None -> p_uid (m_opts (mc_member m)) = None ->
  p_gid (m_opts (mc_member m)) = None -> p_dev (m_opts (mc_member m)) = None ->
  p_target (m_opts (mc_member m)) = [] ->
  add_single (m_opts (mc_member m)) (SPresent o) now = ROk e ->
  exists h, mk_header e = TOk h
    /\ h_name h = dot :: p_name (m_opts (mc_member m))
    /\ h_type h = obj_type (st_mode (o_st o))
    /\ N.land (h_mode h) 4095 = N.land (st_mode (o_st o)) 4095
    /\ h_uid h = st_uid (o_st o) /\ h_gid h = st_gid (o_st o)
    /\ h_mtime h = st_mtime (o_st o)
    /\ h_xattrs h = o_xattrs o
    /\ (h_type h = TypeReg -> h_size h = st_size (o_st o) /\ h_data h = o_data o)
    /\ (h_type h = TypeSymlink -> h_link h = o_link o)
    /\ (h_type h = TypeChar \/ h_type h = TypeBlock ->
         h_major h = ref_major (st_rdev (o_st o)) /\ h_minor h = ref_minor (st_rdev (o_st o))).
Proof. exact header_faithful. Qed.
Print Assumptions C07_header_faithful.

(* an entry the manual allows, whose source is there (or need not be), is not refused *)
Theorem C07_accepts : forall m now, member_wf m = true -> acceptable m = true ->
  (exists e, add_single (m_opts (mc_member m)) (m_src (mc_member m)) now = ROk e)
  \/ add_single (m_opts (mc_member m)) (m_src (mc_member m)) now = RSkip.
Proof. exact accept_ok. Qed.
Print Assumptions C07_accepts.

(* dev_roundtrip: decoding st_rdev inverts the Linux (glibc) makedev for all 32-bit majors and
   minors, and the shift-and-mask decoding equals the arithmetic definition for EVERY st_rdev *)
Theorem C07_dev_roundtrip : forall ma mi, ma < 4294967296 -> mi < 4294967296 ->
  dev_major (makedev ma mi) = ma /\ dev_minor (makedev ma mi) = mi.
Proof. exact dev_roundtrip. Qed.
Print Assumptions C07_dev_roundtrip.

Theorem C07_dev_decode : forall d,
  dev_major d = ref_major d /\ dev_minor d = ref_minor d.
Proof. exact dev_decode. Qed.
Print Assumptions C07_dev_decode.

(* fs.Readlink returns the whole target, of any length, and its loop terminates *)
Theorem C07_readlink_complete : forall target, fs_readlink target = LDone target.
Proof. exact readlink_complete. Qed.
Print Assumptions C07_readlink_complete.

(* getXattrs returns every attribute with its whole value, whatever the sizes *)
Theorem C07_xattrs_complete : forall xs, xattrs_wf xs -> get_xattrs xs = LDone (Some xs).
Proof. exact xattrs_complete. Qed.
Print Assumptions C07_xattrs_complete.

(* no input makes the buffer loops spin: every run of the model ends *)
Theorem C07_terminates : forall ms, run ms <> RDiverged.
Proof. exact run_terminates. Qed.
Print Assumptions C07_terminates.

(* override_exact: each add-files option changes exactly its field, relative to the same line
   without the option *)
Theorem C07_override_uid : forall p s now e0 u, u < 2147483648 ->
  add_single (set_uid p None) s now = ROk e0 ->
  add_single (set_uid p (Some u)) s now = ROk (e_with_uid e0 u).
Proof. exact override_uid. Qed.
Print Assumptions C07_override_uid.

Theorem C07_override_gid : forall p s now e0 g, g < 2147483648 ->
  add_single (set_gid p None) s now = ROk e0 ->
  add_single (set_gid p (Some g)) s now = ROk (e_with_gid e0 g).
Proof. exact override_gid. Qed.
Print Assumptions C07_override_gid.

(* mod=: only the permission bits change; an octal value is taken as it is, a symbolic one acts
   on the bits the entry would have had exactly as chmod(1) does, clause by clause *)
Theorem C07_override_mod : forall p s now e0 ms, modspec_ok ms = true ->
  add_single (set_mod p None) s now = ROk e0 ->
  exists pm, add_single (set_mod p (render_mod ms)) s now = ROk (e_with_perms e0 pm)
    /\ N.land pm 4095 = apply_mod ms (N.land (e_perms e0) 4095).
Proof. exact override_mod. Qed.
Print Assumptions C07_override_mod.

Theorem C07_mod_is_chmod : forall cs, cs <> [] -> forallb clause_ok cs = true ->
  exists A Om, parse_mod (join (nb 44) (map render_clause cs)) = Some (A, Om)
    /\ sub12 A /\ sub12 Om /\ forall p, N.lor (N.land p A) Om = chmod_ref cs (N.land p 4095).
Proof. exact parse_mod_chmod. Qed.
Print Assumptions C07_mod_is_chmod.

Theorem C07_override_dev : forall p o now e0 isc ma mi,
  p_ltype p = LDev -> p_hassrc p = false -> ma < 4294967296 -> mi < 4294967296 ->
  add_single (set_dev p None) (SPresent o) now = ROk e0 ->
  add_single (set_dev p (Some (isc, ma, mi))) (SPresent o) now = ROk (e_with_dev e0 isc ma mi).
Proof. exact override_dev. Qed.
Print Assumptions C07_override_dev.

Theorem C07_override_targ : forall p o now e0 tg, p_ltype p = LSym -> tg <> [] ->
  add_single (set_targ p []) (SPresent o) now = ROk e0 ->
  add_single (set_targ p tg) (SPresent o) now = ROk (e_with_target e0 tg).
Proof. exact override_targ. Qed.
Print Assumptions C07_override_targ.

(* src=: the fields come from the object found at the source path exactly as they would from
   the named path; only the by-name hard-link bookkeeping is off *)
Theorem C07_override_src : forall p s now e0,
  p_ltype p = LFile \/ p_ltype p = LDir \/ (p_ltype p = LDev /\ p_dev p = None) ->
  add_single (set_src p false) s now = ROk e0 ->
  add_single (set_src p true) s now = ROk (e_with_devino e0 None).
Proof. exact override_src. Qed.
Print Assumptions C07_override_src.

(* absent_defaults: a member synthesised for an absent path is owned by root unless uid=/gid=
   say otherwise, carries the clock as its time, no xattrs, and -- without mod= -- the creation
   mode under the tool's umask: 0755 directories, 0777 symlinks, 0644 device nodes *)
Theorem C07_absent_defaults : forall p now e, add_single p SAbsent now = ROk e ->
  e_uid e = optN (p_uid p) 0 /\ e_gid e = optN (p_gid p) 0 /\ e_mtime e = now /\ e_xattrs e = None
  /\ e_fsize e = 0 /\ e_devino e = None
  /\ (p_mod p = None ->
      e_perms e = match e_ltype e with LDir => 493 | LSym => 511 | _ => 420 end
      /\ usable_outside 0 (match e_ltype e with LDir => TypeDir | LSym => TypeSymlink | _ => TypeChar end)
                        (e_perms e) = true).
Proof. exact absent_defaults. Qed.
Print Assumptions C07_absent_defaults.

(* compress_same: output piped through an external filter decompresses to the same archive as
   -compress none, for every filter/unfilter pair obeying unfilter (filter b) = b *)
Theorem C07_compress_same : forall (filter unfilter : N -> bytes -> bytes),
  (forall m b, unfilter m (filter m b) = b) ->
  forall m archive, m <> 0 -> unfilter m (write_tar_file filter m archive) = write_tar_file filter 0 archive.
Proof. exact compress_same. Qed.
Print Assumptions C07_compress_same.

(* output_exact: the file named by -o after a run is exactly the bytes the run wrote (the
   archive, or what the compressor made of it) -- for EVERY previous content of the path (none,
   shorter, longer, an earlier stage), every archive and every way the output is cut into
   write(2) calls.  This is the clause [out_ok] of the predicate on the model side; the file of a
   run to an existing path is the file of the run to a fresh path *)
Theorem C07_output_exact : forall (p : prior) (chunks : list bytes), out_file p chunks = concat chunks.
Proof. exact out_file_exact. Qed.
Print Assumptions C07_output_exact.

Theorem C07_output_independent : forall (p p' : prior) (chunks chunks' : list bytes),
  concat chunks = concat chunks' -> out_file p chunks = out_file p' chunks'.
Proof. exact out_file_chunking. Qed.
Print Assumptions C07_output_independent.

(* with the compressor of the Section law: whatever the path held, the file decompresses to the
   archive that -compress none writes to a fresh path *)
Theorem C07_output_compress_same : forall (filter unfilter : N -> bytes -> bytes),
  (forall m b, unfilter m (filter m b) = b) ->
  forall (p : prior) m archive, m <> 0 ->
    unfilter m (out_file p [write_tar_file filter m archive]) = out_file None [write_tar_file filter 0 archive].
Proof. exact output_compress_same. Qed.
Print Assumptions C07_output_compress_same.

(* what the truncating open buys: opened without O_TRUNC an existing file keeps everything it had
   beyond the new output, so the result is the new output iff the old file was not longer *)
Theorem C07_output_needs_trunc : forall (old : bytes) (chunks : list bytes),
  write_out OCreateKeep (Some old) chunks = concat chunks ++ skipn (length (concat chunks)) old
  /\ (write_out OCreateKeep (Some old) chunks = concat chunks <-> (length old <= length (concat chunks))%nat).
Proof. exact output_needs_trunc. Qed.
Print Assumptions C07_output_needs_trunc.

(* the lengths the cases carry are the lengths of that byte-level model *)
Theorem C07_output_len : forall (p : prior) (chunks : list bytes),
  N.of_nat (length (out_file p chunks)) = out_len (plen p) (N.of_nat (length (concat chunks)))
  /\ out_len (plen p) (N.of_nat (length (concat chunks))) = N.of_nat (length (concat chunks)).
Proof. exact output_len. Qed.
Print Assumptions C07_output_len.

(* ---- the regenerated constants this property's predicate / model rest on, against literals.
   Gen/Consts.v is rewritten from the source of /repo on every run, so without this theorem an
   edit of one of these constants would move model, predicate and code together and nothing
   would be reported.  Used by: the predicate C07.spec ("usable default permissions": nothing the declared umask forbids) and Model/TarMeta.v (members synthesised for absent paths).
   "frozen" = no manual text gives the value; it is the value of the reviewed tree. *)
From LC Require Import Gen.Consts Proofs.C07PinsP.
Local Open Scope string_scope.
Theorem C07_constants_pinned :
  (* frozen from the reviewed tree: 0022 octal (no manual text; fix 84bb1a7 in KNOWN_FINDINGS is about this value) *)
  D_Umask = 18%N /\
  (* property text: "members synthesised for absent paths get root ownership" *)
  D_StageFileUID = 0%N /\
  (* property text: root ownership *)
  D_StageFileGID = 0%N.
Proof. exact c07_constants_pinned. Qed.
Print Assumptions C07_constants_pinned.
