(* C07 -- tarball members reproduce the build root faithfully.  Statements only. *)
From LC Require Import Lib.Bytes Lib.Fields Model.TarMeta Proofs.TarMetaP Cases.C07.
Open Scope N_scope.

(* output piped through an external filter decompresses to the same archive as -compress none,
   for every filter/unfilter pair obeying unfilter (filter b) = b *)
Theorem C07_compress_same : forall (filter unfilter : N -> bytes -> bytes),
  (forall m b, unfilter m (filter m b) = b) ->
  forall m archive, m <> 0 -> unfilter m (write_tar_file filter m archive) = write_tar_file filter 0 archive.
Proof. exact compress_same. Qed.
Print Assumptions C07_compress_same.
