(* C08 -- a layer's reported state is the documented function of disk and mount table.
   Statements only.  Proofs: Proofs/C08P.v (a, d), C08MountedP.v (c), C08DocP.v + C08ProbeP.v (b),
   SourcesP.v + C08SourcesP.v (GetMountSources against the kernel identity of a mount),
   LayerDirP.v + C08ShallowP.v (inAnyLayerDirectory), C08ThmP.v; examples and refutations:
   C08ExamplesP.v, C08SourcesP.v.  Write-up: docs/proofs-C08.md. *)
From LC Require Import Lib.Bytes Lib.Lex Lib.Fields Lib.PathM Gen.Consts
  Model.MountInfo Model.FsTree Model.Kernel Model.Layers Cases.Verdict Cases.LC Cases.C08
  Proofs.C08DocP Proofs.C08P Proofs.C08ProbeP Proofs.C08MountedP Proofs.C08ShallowP
  Proofs.SourcesP Proofs.C08SourcesP Proofs.C08ThmP Proofs.C08ExamplesP Proofs.LayerNamesDistinctP.
Open Scope N_scope.

(* ---------------------------------------------------------------- (a) mkdirs recreates *)
(* after a successful `mkdirs L` the build directory and, for a derived layer, both overlayfs
   directories exist: every world with a root directory, every configuration with clean absolute
   paths, every environment (fault plans included), every users map *)
Theorem C08_mkdirs_recreates : forall cfg w e n um,
  LC.wf_cfg cfg = true -> is_dir (LC.wo_fs w) [sl] = true ->
  C08.step_spec cfg w (LC.view_of_model cfg w e (CMkdirs n) um) = true.
Proof. exact mkdirs_recreates. Qed.
Print Assumptions C08_mkdirs_recreates.

(* ---------------------------------------------------------------- (d) own mounts never error *)
(* after a successful `mount L` no layer of L's chain is reported in error: no hypothesis *)
Theorem C08_own_mounts_never_error : forall cfg w e n um,
  C08.step_spec cfg w (LC.view_of_model cfg w e (CMount n) um) = true.
Proof. exact own_mounts_never_error. Qed.
Print Assumptions C08_own_mounts_never_error.

(* ---------------------------------------------------------------- (c) mounted means complete *)
(* a layer that status/list report as mounted or mounted-busy has every expected mount (overlay
   and imports) in the kernel table, all imports resolved, its directories, the FHS directories,
   every import mountpoint, every import source (or a place for it under the layers directory)
   and every export source present *)
Theorem C08_mounted_means_complete : forall cfg w e um,
  LC.wf_cfg cfg = true -> wf_table (ks_tab (LC.wo_ks w)) = true -> sources_shallow cfg w = true ->
  mounted_complete_spec cfg w (LC.view_of_model cfg w e CProbe um) = true.
Proof. exact mounted_means_complete_shallow. Qed.
Print Assumptions C08_mounted_means_complete.

(* ---------------------------------------------------------------- (b) the state is the documented one *)
(* Full statement, FALSE of the model (C08_refuted_2, 3, 4, 7, 8 below):
     forall cfg w e um, C08.step_spec cfg w (LC.view_of_model cfg w e CProbe um) = true.
   Proved under decidable hypotheses; [sources_agree] is the one named in the task. *)
Theorem C08_state_is_documented_partial : forall cfg w e um,
  wf_table (ks_tab (LC.wo_ks w)) = true ->
  cfg_dirs_ok cfg = true ->
  layer_names_distinct cfg w = true ->
  sources_agree cfg w = true ->
  dir_test_agrees cfg w = true ->
  no_shown_on_missing_source cfg w = true ->
  C08.step_spec cfg w (LC.view_of_model cfg w e CProbe um) = true.
Proof. exact state_is_documented_partial. Qed.
Print Assumptions C08_state_is_documented_partial.

(* the same with [dir_test_agrees] and [sources_agree] replaced by sufficient conditions *)
Theorem C08_state_is_documented_syntactic_partial : forall cfg w e um,
  LC.wf_cfg cfg = true -> cfg_dirs_ok cfg = true ->
  wf_table (ks_tab (LC.wo_ks w)) = true -> regular_table (ks_tab (LC.wo_ks w)) = true ->
  fs_paths_ok (LC.wo_fs w) = true -> sources_shallow cfg w = true ->
  own_mounts_shown cfg w = true -> no_shown_on_missing_source cfg w = true ->
  C08.step_spec cfg w (LC.view_of_model cfg w e CProbe um) = true.
Proof. exact state_is_documented_syntactic. Qed.
Print Assumptions C08_state_is_documented_syntactic_partial.

(* ---------------------------------------------------------------- sources_agree, second part *)
(* whenever the kernel table shows mount k to be a bind of src, GetMountSources offers src *)
Theorem C08_shown_bind_expected : forall T k src ty,
  regular_table T = true -> In k T -> LCS.is_bind_type ty = true ->
  ovl_root k = false ->
  is_abs src = true -> beq (clean src) src = true -> beq src (k_mp k) = false ->
  LCS.shows_source T k src ty = true ->
  source_is_expected (ViewP.devs_of T []) (mount_of_k k) src = true.
Proof. exact shown_bind_expected. Qed.
Print Assumptions C08_shown_bind_expected.

Theorem C08_shown_fs_expected : forall T k src ty,
  In k T -> LCS.is_bind_type ty = false -> ovl_root k = false ->
  beq (k_root k) [slash] = true -> dev_named T k = true ->
  LCS.shows_source T k src ty = true ->
  source_is_expected (ViewP.devs_of T []) (mount_of_k k) src = true.
Proof. exact shown_fs_expected. Qed.
Print Assumptions C08_shown_fs_expected.

(* a bind made by mount(2) (the kernel model) is shown as a bind of its source, in the table it
   produces and in every table that extends it *)
Theorem C08_kmount_bind_shown : forall f ks src tgt ty fl d ks',
  has_flag fl MS_REMOUNT = false -> has_flag fl MS_SLAVE = false -> has_flag fl MS_BIND = true ->
  (forall m, In m (ks_tab ks) -> beq (k_id m) (dec (ks_nextid ks)) = false) ->
  kmount f ks src tgt ty fl d = KOk ks' ->
  exists k more, ks_tab ks' = ks_tab ks ++ k :: more /\ k_mp k = tgt
  /\ forall later ty', LCS.is_bind_type ty' = true -> LCS.shows_source (ks_tab ks' ++ later) k src ty' = true.
Proof. exact kmount_bind_shown. Qed.
Print Assumptions C08_kmount_bind_shown.

Theorem C08_sources_agree_of_shown : forall c w,
  regular_table (ks_tab (LC.wo_ks w)) = true -> own_mounts_shown c w = true -> sources_agree c w = true.
Proof. exact sources_agree_of_shown. Qed.
Print Assumptions C08_sources_agree_of_shown.

Theorem C08_layer_names_distinct_of_paths : forall c w,
  is_abs (c_layers c) = true -> fs_paths_ok (LC.wo_fs w) = true -> layer_names_distinct c w = true.
Proof. exact layer_names_distinct_of_paths. Qed.
Print Assumptions C08_layer_names_distinct_of_paths.

Theorem C08_dir_test_agrees_of_shallow : forall c w,
  LC.wf_cfg c = true -> sources_shallow c w = true -> dir_test_agrees c w = true.
Proof. exact dir_test_agrees_of_shallow. Qed.
Print Assumptions C08_dir_test_agrees_of_shallow.

(* ---------------------------------------------------------------- all clauses, every command *)
Theorem C08_model_step_partial : forall cfg w e cmd um,
  LC.wf_cfg cfg = true -> is_dir (LC.wo_fs w) [sl] = true ->
  wf_table (ks_tab (LC.wo_ks w)) = true -> cfg_dirs_ok cfg = true -> layer_names_distinct cfg w = true ->
  sources_agree cfg w = true -> dir_test_agrees cfg w = true -> no_shown_on_missing_source cfg w = true ->
  C08.step_spec cfg w (LC.view_of_model cfg w e cmd um) = true.
Proof. exact model_step_partial. Qed.
Print Assumptions C08_model_step_partial.

(* ---------------------------------------------------------------- hypotheses are satisfiable *)
(* a world with a mounted two-layer stack, made by the model's own `mount dev` *)
Theorem C08_hyps_satisfiable :
  LC.wf_cfg ex_cfg = true /\ is_dir (LC.wo_fs ex_w1) [sl] = true
  /\ wf_table (ks_tab (LC.wo_ks ex_w1)) = true /\ regular_table (ks_tab (LC.wo_ks ex_w1)) = true
  /\ cfg_dirs_ok ex_cfg = true /\ layer_names_distinct ex_cfg ex_w1 = true /\ fs_paths_ok (LC.wo_fs ex_w1) = true
  /\ sources_agree ex_cfg ex_w1 = true /\ own_mounts_shown ex_cfg ex_w1 = true
  /\ dir_test_agrees ex_cfg ex_w1 = true /\ sources_shallow ex_cfg ex_w1 = true
  /\ no_shown_on_missing_source ex_cfg ex_w1 = true
  /\ states ex_cfg ex_w1 [] = Some [(bs "base", st_mounted_busy); (bs "dev", st_mounted)].
Proof. vm_compute. repeat split; reflexivity. Qed.
Print Assumptions C08_hyps_satisfiable.

(* ---------------------------------------------------------------- repaired in round 2 *)
(* the worlds that refuted the CProbe clause in round 1 and whose cause was repaired in the Go
   code and the model now satisfy it, with all hypotheses true *)
Theorem C08_foreign_on_missing_source_is_error : probe_spec ex_cfg w_foreign [] = true.
Proof. vm_compute. reflexivity. Qed.
Theorem C08_right_name_wrong_type_is_error : probe_spec ex_cfg w_type [] = true.
Proof. vm_compute. reflexivity. Qed.
(* `mount dev` with an import out of dev's own overlay-mounted build root succeeds, and status
   afterwards reports the documented states *)
Theorem C08_bind_out_of_overlay_is_mounted :
  LC.v_res (LC.view_of_model ex_cfg w_ovl0 ex_env (CMount (bs "dev")) []) = ROk
  /\ own_mounts_shown ex_cfg w_ovl1 = true
  /\ states ex_cfg w_ovl1 [] = Some [(bs "base", st_mounted_busy); (bs "dev", st_mounted)]
  /\ probe_spec ex_cfg w_ovl1 [] = true.
Proof. vm_compute. repeat split; reflexivity. Qed.

(* ---------------------------------------------------------------- refutations without the hypotheses *)
Theorem C08_refuted_2 : probe_spec cfg_slash w_mounted um_slash = false.   (* BuildRoot "build/" *)
Proof. vm_compute. reflexivity. Qed.
Theorem C08_refuted_3 : probe_spec ex_cfg w_deep [] = false.               (* source 70 levels deep *)
Proof. vm_compute. reflexivity. Qed.
Theorem C08_refuted_4 : probe_spec ex_cfg w_dup [] = false.                (* duplicate layer name *)
Proof. vm_compute. reflexivity. Qed.
Theorem C08_refuted_7 : probe_spec ex_cfg w_gone [] = false.               (* own bind, source removed later *)
Proof. vm_compute. reflexivity. Qed.
Theorem C08_refuted_8 : probe_spec ex_cfg w_devname [] = false.            (* device name taken for a bind source *)
Proof. vm_compute. reflexivity. Qed.

(* ---- the regenerated constants this property's predicate / model rest on, against literals.
   Gen/Consts.v is rewritten from the source of /repo on every run, so without this theorem an
   edit of one of these constants would move model, predicate and code together and nothing
   would be reported.  Used by: the predicate C08.spec (layerconfig) and the state classification of Model/Layers.v / Model/MountInfo.v.
   "frozen" = no manual text gives the value; it is the value of the reviewed tree. *)
From LC Require Import Gen.Consts Proofs.C08PinsP.
Local Open Scope string_scope.
Theorem C08_constants_pinned :
  (* doc/layercake_directories.adoc, manual page LAYER DIRECTORY: "layerconfig" *)
  D_LayerconfigFile = bs "layerconfig" /\
  (* manual page, status, "not yet populated": bin, etc, lib, opt, root, sbin, usr *)
  D_MinimalBuildDirs = bs "bin etc lib opt root sbin usr" /\
  (* frozen from the reviewed tree; property C12 text: "mounts below a /dev or /sys style tree are recognised as shadowed submounts" *)
  D_ShadowingFsTypes = bs "devtmpfs sysfs".
Proof. exact c08_constants_pinned. Qed.
Print Assumptions C08_constants_pinned.
