(* C08 -- a layer's reported state is the documented function of disk and mount table.
   Statements only; the proofs are in Proofs/C08P.v, C08ProbeP.v, C08MountedP.v, C08ThmP.v, the
   satisfiability of the hypotheses and the refutations without them in Proofs/C08ExamplesP.v. *)
From LC Require Import Lib.Bytes Lib.Lex Lib.Fields Lib.PathM Gen.Consts
  Model.MountInfo Model.FsTree Model.Kernel Model.Layers Cases.Verdict Cases.LC Cases.C08
  Proofs.C08DocP Proofs.C08P Proofs.C08ProbeP Proofs.C08MountedP Proofs.C08ThmP Proofs.C08ExamplesP.
Open Scope N_scope.

(* (a) after a successful `mkdirs L` the build directory and, for a derived layer, both overlayfs
   directories exist -- every world with a root directory, every configuration with clean
   absolute paths, every environment, every users map *)
Theorem C08_mkdirs_recreates : forall cfg w e n um,
  LC.wf_cfg cfg = true -> is_dir (LC.wo_fs w) [sl] = true ->
  C08.step_spec cfg w (LC.view_of_model cfg w e (CMkdirs n) um) = true.
Proof. exact mkdirs_recreates. Qed.
Print Assumptions C08_mkdirs_recreates.

(* (d) after a successful `mount L` no layer of L's chain is reported in error -- no hypothesis *)
Theorem C08_own_mounts_never_error : forall cfg w e n um,
  C08.step_spec cfg w (LC.view_of_model cfg w e (CMount n) um) = true.
Proof. exact own_mounts_never_error. Qed.
Print Assumptions C08_own_mounts_never_error.

(* (c) a layer that status/list report as mounted or mounted-busy has every expected mount
   (overlay and imports) in the kernel table, all imports resolved, its directories, the FHS
   directories, every import mountpoint, every import source (or a place for it under the layers
   directory) and every export source present *)
Theorem C08_mounted_means_complete : forall cfg w e um,
  wf_table (ks_tab (LC.wo_ks w)) = true ->
  dir_test_agrees cfg w = true ->
  mounted_complete_spec cfg w (LC.view_of_model cfg w e CProbe um) = true.
Proof. exact mounted_means_complete. Qed.
Print Assumptions C08_mounted_means_complete.

(* (b) the state status/list report for every layer is the documented one.
   Full statement (FALSE of the model, see C08_refuted_* below):
     forall cfg w e um, C08.step_spec cfg w (LC.view_of_model cfg w e CProbe um) = true.
   Proved under five decidable hypotheses besides the well-formed kernel table. *)
Theorem C08_state_is_documented_partial : forall cfg w e um,
  wf_table (ks_tab (LC.wo_ks w)) = true ->
  cfg_dirs_ok cfg = true ->
  layer_names_distinct cfg w = true ->
  sources_agree cfg w = true ->
  dir_test_agrees cfg w = true ->
  no_foreign_on_missing_source cfg w = true ->
  C08.step_spec cfg w (LC.view_of_model cfg w e CProbe um) = true.
Proof. exact state_is_documented_partial. Qed.
Print Assumptions C08_state_is_documented_partial.

(* all clauses of C08.step_spec, every command *)
Theorem C08_model_step_partial : forall cfg w e cmd um,
  LC.wf_cfg cfg = true -> is_dir (LC.wo_fs w) [sl] = true ->
  wf_table (ks_tab (LC.wo_ks w)) = true -> cfg_dirs_ok cfg = true -> layer_names_distinct cfg w = true ->
  sources_agree cfg w = true -> dir_test_agrees cfg w = true -> no_foreign_on_missing_source cfg w = true ->
  C08.step_spec cfg w (LC.view_of_model cfg w e cmd um) = true.
Proof. exact model_step_partial. Qed.
Print Assumptions C08_model_step_partial.

(* the hypotheses hold in a world with a mounted two-layer stack *)
Theorem C08_hyps_satisfiable :
  LC.wf_cfg ex_cfg = true /\ is_dir (LC.wo_fs ex_w1) [sl] = true
  /\ wf_table (ks_tab (LC.wo_ks ex_w1)) = true /\ cfg_dirs_ok ex_cfg = true
  /\ layer_names_distinct ex_cfg ex_w1 = true /\ sources_agree ex_cfg ex_w1 = true
  /\ dir_test_agrees ex_cfg ex_w1 = true /\ no_foreign_on_missing_source ex_cfg ex_w1 = true
  /\ states ex_cfg ex_w1 [] = Some [(bs "base", st_mounted_busy); (bs "dev", st_mounted)].
Proof. vm_compute. repeat split; reflexivity. Qed.
Print Assumptions C08_hyps_satisfiable.

(* without them the CProbe clause is false of the model: witnesses *)
Theorem C08_refuted_1 : probe_spec ex_cfg w_foreign [] = false.      (* foreign mount, missing source *)
Proof. vm_compute. reflexivity. Qed.
Theorem C08_refuted_2 : probe_spec cfg_slash w_mounted um_slash = false.   (* "build/" *)
Proof. vm_compute. reflexivity. Qed.
Theorem C08_refuted_3 : probe_spec ex_cfg w_deep [] = false.         (* source 70 levels deep *)
Proof. vm_compute. reflexivity. Qed.
Theorem C08_refuted_4 : probe_spec ex_cfg w_dup [] = false.          (* duplicate layer name *)
Proof. vm_compute. reflexivity. Qed.
Theorem C08_refuted_5 : probe_spec ex_cfg w_type [] = false.         (* right name, wrong type *)
Proof. vm_compute. reflexivity. Qed.
