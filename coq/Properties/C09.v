(* C09 -- remove without -files never destroys user data.  Statements only.
   wf_remove (Proofs/C09P.v) = unique paths && (for the layer named) links_apart &&
   removed_closed && dirs_agree; see Proofs/WitnessP.v for a world satisfying it and for the
   configuration on which the unrestricted statement fails (C09_refuted_deep_workdir). *)
From LC Require Import Lib.Bytes Model.FsTree Model.Kernel Model.Layers
  Cases.LC Cases.C09 Proofs.C09P Proofs.C09cP Proofs.WitnessP.
Import LC LCS.

(* Full statement (false for configurations whose buildroot / workdir / upperdir nest deeper
   than the defaults, C09_refuted_deep_workdir):
     forall cfg w e um n, plain_env e = true ->
       C09.step_spec cfg w (view_of_model cfg w e (CRemove n false) um) = true *)
Theorem C09_model_partial : forall cfg w e um n,
  plain_env e = true -> wf_remove cfg (wo_fs w) n = true ->
  C09.step_spec cfg w (view_of_model cfg w e (CRemove n false) um) = true.
Proof. exact C09_model_proof. Qed.
Print Assumptions C09_model_partial.

(* the same with the disjointness of export links and layer directory as a condition on the
   configuration alone (cfg_apart: no link is nested with <layers>/<n> or <layers>/<n>~removed) *)
Theorem C09_model_cfg_partial : forall cfg w e um n,
  plain_env e = true -> wf_remove_cfg cfg (wo_fs w) n = true ->
  C09.step_spec cfg w (view_of_model cfg w e (CRemove n false) um) = true.
Proof. exact C09_model_cfg_proof. Qed.
Print Assumptions C09_model_cfg_partial.

Theorem C09_refuted_1 :
  C09.step_spec cfg1 w1 (view_of_model cfg1 w1 (env0 NoFault) (CRemove (bs "dev1") false) []) = false.
Proof. exact C09_refuted_deep_workdir. Qed.
Print Assumptions C09_refuted_1.
