(* C09 -- remove without -files never destroys user data.  Statements only.
   wf_remove (Proofs/C09P.v) = the layers directory is absolute && unique paths && (for the
   layer named) links_apart && removed_closed; see Proofs/WitnessP.v for worlds satisfying it
   (wf_remove_sat, C09_deep_workdir_hyp). *)
From LC Require Import Lib.Bytes Model.FsTree Model.Kernel Model.Layers
  Cases.LC Cases.C09 Proofs.C09P Proofs.C09cP Proofs.WitnessP.
Import LC LCS.

(* the property predicate holds on the model's step of `remove n` (without -files), whatever
   the world, the layer population, the users and the order oracle *)
Theorem C09_model : forall cfg w e um n,
  plain_env e = true -> wf_remove cfg (wo_fs w) n = true ->
  C09.step_spec cfg w (view_of_model cfg w e (CRemove n false) um) = true.
Proof. exact C09_model_proof. Qed.
Print Assumptions C09_model.

(* the same with the disjointness of export links and layer directory as a condition on the
   configuration alone (cfg_apart: no link is nested with <layers>/<n> or <layers>/<n>~removed) *)
Theorem C09_model_cfg : forall cfg w e um n,
  plain_env e = true -> wf_remove_cfg cfg (wo_fs w) n = true ->
  C09.step_spec cfg w (view_of_model cfg w e (CRemove n false) um) = true.
Proof. exact C09_model_cfg_proof. Qed.
Print Assumptions C09_model_cfg.

(* the world on which the first version of the predicate failed (work directory three levels
   deep) now satisfies it *)
Theorem C09_deep_workdir :
  C09.step_spec cfg1 w1 (view_of_model cfg1 w1 (env0 NoFault) (CRemove (bs "dev1") false) []) = true.
Proof. exact (proj2 (proj2 C09_deep_workdir_holds)). Qed.
Print Assumptions C09_deep_workdir.

(* command-line level (Model/Dispatch.v): `remove` reaches the removal that deletes files only
   when its own switch -files is on the command line; no global switch (-force, -v, -p, -debug),
   wherever it stands, turns a gentle removal into a destructive one *)
From LC Require Import Model.Args Model.Dispatch Proofs.ArgsP Proofs.DispatchP.
Theorem C09_remove_dispatch : forall pre post locals lo hi o n fl,
  forallb pre_ok pre = true ->
  command_info (bs "remove") = Some (locals, lo, hi) ->
  forallb (local_ok locals) post = true ->
  dispatch (render_toks pre ++ [bs "remove"] ++ render_toks post) = Some (o, CRemove n fl) ->
  fl = local_bool (toks_asg post) (bs "files").
Proof. exact dispatch_remove_gentle. Qed.
Print Assumptions C09_remove_dispatch.

(* ---- the regenerated constants this property's predicate / model rest on, against literals.
   Gen/Consts.v is rewritten from the source of /repo on every run, so without this theorem an
   edit of one of these constants would move model, predicate and code together and nothing
   would be reported.  Used by: what `add` itself creates (C09.created_by_add) and the remove branch of Model/Layers.v; the predicate spells "layerconfig" and "~removed" out itself.
   "frozen" = no manual text gives the value; it is the value of the reviewed tree. *)
From LC Require Import Gen.Consts Proofs.C09PinsP.
Local Open Scope string_scope.
Theorem C09_constants_pinned :
  (* property C09 text "<name>~removed"; manual page, remove: "append ~removed to the layer name" *)
  D_RemovedLayerSuffix = bs "~removed" /\
  (* doc/layercake_directories.adoc, manual page LAYER DIRECTORY: "layerconfig" *)
  D_LayerconfigFile = bs "layerconfig" /\
  (* frozen from the reviewed tree (what `add` writes to build/root/.bashrc of a base layer; not documented) *)
  D_BaseLayerRootBashrc = bs "#!/bin/bash

source /etc/profile
msg=chroot
if [ -n ""$LAYERCAKE_LAYER"" ]; then
        msg=""chroot $LAYERCAKE_LAYER""
fi
export PS1=""($msg) \[\033]0;\u@\h:\w\007\]\[\033[01;31m\]\h\[\033[01;34m\] \w \$\[\033[00m\] ""

".
Proof. exact c09_constants_pinned. Qed.
Print Assumptions C09_constants_pinned.
