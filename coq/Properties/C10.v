(* C10 -- a command reports success only if all of its effects were applied.  Statements only. *)
From LC Require Import Lib.Bytes Model.FsTree Model.Kernel Model.Layers Cases.LC Cases.C10
  Proofs.MonadP Proofs.C10P.

(* the operation counter of a run is the length of its log, whatever the outcome *)
Theorem C10_count_is_length : forall e c um cmd w,
  s_n (snd (run e c um cmd w)) = length (s_log (snd (run e c um cmd w))).
Proof. exact count_is_length. Qed.
Print Assumptions C10_count_is_length.

(* model level: the k-th operation was reached (it is in the log) => not Ok *)
Theorem C10_fault_reported : forall e k c um cmd w,
  e_fault e = FailAt k ->
  (k < length (s_log (snd (run e c um cmd w))))%nat ->
  rclass_of (fst (run e c um cmd w)) <> ROk.
Proof. exact fault_reported. Qed.
Print Assumptions C10_fault_reported.

(* the form of DESIGN section 6: the fault-free run has more than k operations => not Ok *)
Theorem C10_fault_reported_nofault : forall e k c um cmd w,
  e_fault e = FailAt k ->
  (k < length (s_log (snd (run (nofault e) c um cmd w))))%nat ->
  rclass_of (fst (run e c um cmd w)) <> ROk.
Proof. exact fault_reported_nofault. Qed.
Print Assumptions C10_fault_reported_nofault.

(* the model's own step always satisfies the property predicate: every world, configuration,
   command (manual ones included), fault plan, pretend or not *)
Theorem C10_model : forall cfg w e cmd um,
  C10.step_spec cfg w (LC.view_of_model cfg w e cmd um) = true.
Proof. exact C10_model_proof. Qed.
Print Assumptions C10_model.

(* converse companion: a success under FailAt k is the fault-free run -- same log, same world
   afterwards, same layer table, and the fault-free run succeeds too *)
Theorem C10_ok_means_all_applied : forall cfg w e k cmd um,
  e_fault e = FailAt k ->
  LC.v_res (LC.view_of_model cfg w e cmd um) = ROk ->
  LC.v_log (LC.view_of_model cfg w e cmd um) = LC.v_log (LC.view_of_model cfg w (nofault e) cmd um)
  /\ LC.v_after (LC.view_of_model cfg w e cmd um) = LC.v_after (LC.view_of_model cfg w (nofault e) cmd um)
  /\ LC.v_layers (LC.view_of_model cfg w e cmd um) = LC.v_layers (LC.view_of_model cfg w (nofault e) cmd um)
  /\ LC.v_res (LC.view_of_model cfg w (nofault e) cmd um) = ROk.
Proof. exact C10_ok_means_all_applied_proof. Qed.
Print Assumptions C10_ok_means_all_applied.

(* crash plan: the log is the first k operations of the fault-free run (reused by C11) *)
Theorem C10_crash_prefix : forall cfg w e k cmd um,
  e_fault e = CrashAt k ->
  LC.v_log (LC.view_of_model cfg w e cmd um)
  = firstn k (LC.v_log (LC.view_of_model cfg w (nofault e) cmd um)).
Proof. exact C10_crash_prefix_proof. Qed.
Print Assumptions C10_crash_prefix.

(* and a run that does not crash under CrashAt k is the fault-free run *)
Theorem C10_no_crash_means_same : forall e k c um cmd w,
  e_fault e = CrashAt k ->
  rclass_of (fst (run e c um cmd w)) <> RCrash ->
  run e c um cmd w = run (nofault e) c um cmd w.
Proof. exact no_crash_means_same. Qed.
Print Assumptions C10_no_crash_means_same.

(* ---- stagemaker half (model: coq/Model/StageOut.v; partial by nature: archive/tar, the
   compressors and the kernel's write(2) are represented by the chunk/sink abstraction) ---- *)
From LC Require Import Model.StageOut Proofs.StageOutP.
Open Scope N_scope.

Theorem C10_stage_fault_reported : forall k chunks, k < total chunks -> exit_ok (SLimit k) chunks = false.
Proof. exact stage_fault_reported. Qed.
Print Assumptions C10_stage_fault_reported.

Theorem C10_stage_always_failing_reported : forall chunks, 0 < total chunks -> exit_ok SAlwaysFail chunks = false.
Proof. exact stage_always_failing_reported. Qed.
Print Assumptions C10_stage_always_failing_reported.

Theorem C10_stage_compressor_failure_reported : forall chunks, exit_ok SBadCompressor chunks = false.
Proof. exact stage_compressor_failure_reported. Qed.
Print Assumptions C10_stage_compressor_failure_reported.

Theorem C10_stage_ok_means_all_written : forall s chunks, exit_ok s chunks = true -> write_all s 0 chunks = Some (total chunks).
Proof. exact stage_ok_means_all_written. Qed.
Print Assumptions C10_stage_ok_means_all_written.

Theorem C10_stage_exit_by_size : forall s chunks, exit_ok s chunks = exit_ok_by_size s (total chunks).
Proof. exact exit_ok_is_by_size. Qed.
Print Assumptions C10_stage_exit_by_size.

(* the file named by -o (model: coq/Model/OutFile.v, os.Create then sequential writes): when the
   command succeeds the file is exactly the complete output, whatever the path held before *)
Theorem C10_stage_ok_file_is_output : forall s chunks (p : OutFile.prior),
  exit_ok s chunks = true -> OutFile.out_file p chunks = concat chunks
  /\ N.of_nat (length (OutFile.out_file p chunks)) = total chunks.
Proof. exact stage_ok_file_is_output. Qed.
Print Assumptions C10_stage_ok_file_is_output.

(* the model of the stagemaker half satisfies the predicate of the cases (exit status and file) *)
Theorem C10_stage_model : forall c : C10.scase, C10.s_spec c (C10.s_model c) (C10.s_model_len c) = true.
Proof. exact stage_model_holds. Qed.
Print Assumptions C10_stage_model.
