(* C11 -- a layer's mount configuration survives rewrites and crashes.  Statements only.
   Hypotheses are decidable predicates defined in Proofs/LayerFileP.v (lf_wf), Proofs/C11P.v
   (wf_world = files_ok && lc_regular && cmd_ok), Proofs/C11cP.v (wf_rebase) and Proofs/C11rP.v
   (wf_rename, wf_rewrite); examples that
   satisfy them, and witnesses of what fails without them, are in Proofs/WitnessP.v. *)
From LC Require Import Lib.Bytes Lib.Fields Lib.PathM Model.FsTree Model.Kernel Model.Layers
  Cases.LC Cases.C11 Proofs.LayerFileP Proofs.C11P Proofs.C11cP Proofs.C11rP Proofs.C11sP.
Import LC.

(* (a) read (write cfg) = cfg: same base, imports, exports, same order, no error *)
Theorem C11_layerfile_roundtrip : forall base mounts exports, lf_wf base mounts exports = true ->
  read_layerfile (concat (layerfile_chunks base mounts exports)) = MkLF base mounts exports 0.
Proof. exact layerfile_roundtrip. Qed.
Print Assumptions C11_layerfile_roundtrip.

(* (a') every configuration that was read satisfies lf_wf: read (write (read bytes)) = read bytes *)
Theorem C11_layerfile_reread : forall content,
  let lf := read_layerfile content in
  read_layerfile (concat (layerfile_chunks (lf_base lf) (lf_mounts lf) (lf_exports lf)))
  = MkLF (lf_base lf) (lf_mounts lf) (lf_exports lf) 0.
Proof. exact layerfile_reread. Qed.
Print Assumptions C11_layerfile_reread.

(* the property predicate is the conjunction of its two parts *)
Theorem C11_step_spec_parts : forall c w v,
  C11.step_spec c w v = if e_pretend (v_env v) then true else conj1 c w v && conj2 c w v.
Proof. exact step_spec_eq. Qed.
Print Assumptions C11_step_spec_parts.

(* (b) whatever command, whatever crash point: every layerconfig below the layers directory in
   the model's final tree is a complete version.
   Full statement (false, see C11_refuted_* in Proofs/WitnessP.v):
     forall cfg w e cmd um k, e_fault e = CrashAt k -> e_pretend e = false ->
       conj1 cfg w (view_of_model cfg w e cmd um) = true *)
Theorem C11_crash_atomic_partial : forall cfg w e cmd um k,
  e_fault e = CrashAt k -> e_pretend e = false -> wf_world cfg (wo_fs w) cmd = true ->
  conj1 cfg w (view_of_model cfg w e cmd um) = true.
Proof. exact crash_atomic_crash. Qed.
Print Assumptions C11_crash_atomic_partial.

(* the same for every fault plan (none, failure of the k-th operation, crash before it) *)
Theorem C11_no_partial_config_partial : forall cfg w e cmd um,
  e_pretend e = false -> wf_world cfg (wo_fs w) cmd = true ->
  conj1 cfg w (view_of_model cfg w e cmd um) = true.
Proof. exact crash_atomic_gen. Qed.
Print Assumptions C11_no_partial_config_partial.

(* (b) crash after crash: the same from worlds that hold stale layerconfig.tmp files left by
   earlier crashes.  wf_world2 (Proofs/C11sP.v) = clean absolute configuration && no regular
   file's path ends in a slash && lc_regular && cmd_ok && unique paths && tmp_ok (nothing
   strictly below the temporary file names the command uses; for rename the new name is free
   on disk) *)
Theorem C11_crash_atomic_stale_partial : forall cfg w e cmd um k,
  e_fault e = CrashAt k -> e_pretend e = false -> wf_world2 cfg (wo_fs w) cmd = true ->
  conj1 cfg w (view_of_model cfg w e cmd um) = true.
Proof. exact crash_atomic_stale_crash. Qed.
Print Assumptions C11_crash_atomic_stale_partial.

Theorem C11_no_partial_config_stale_partial : forall cfg w e cmd um,
  e_pretend e = false -> wf_world2 cfg (wo_fs w) cmd = true ->
  conj1 cfg w (view_of_model cfg w e cmd um) = true.
Proof. exact crash_atomic_stale. Qed.
Print Assumptions C11_no_partial_config_stale_partial.

(* (c) a successful rebase keeps base / imports / exports of every layer that loaded, up to
   the new base of the rebased layer *)
Theorem C11_rewrite_preserves_rebase : forall cfg w e um name newbase,
  e_pretend e = false -> wf_rebase cfg (wo_fs w) name = true ->
  conj2 cfg w (view_of_model cfg w e (CRebase name newbase) um) = true.
Proof. exact rebase_preserves. Qed.
Print Assumptions C11_rewrite_preserves_rebase.

(* the whole predicate on the model's rebase step, any fault plan, pretend or not *)
Theorem C11_rebase_step_spec : forall cfg w e um name newbase,
  wf_world cfg (wo_fs w) (CRebase name newbase) = true -> wf_rebase cfg (wo_fs w) name = true ->
  C11.step_spec cfg w (view_of_model cfg w e (CRebase name newbase) um) = true.
Proof. exact rebase_step_spec. Qed.
Print Assumptions C11_rebase_step_spec.

(* (c) a successful rename: the renamed layer is found under its new name, its children have
   the new name as base, every other layer is unchanged; imports and exports are all kept *)
Theorem C11_rewrite_preserves_rename : forall cfg w e um oldname newname,
  e_pretend e = false -> wf_rename cfg (wo_fs w) oldname newname = true ->
  conj2 cfg w (view_of_model cfg w e (CRename oldname newname) um) = true.
Proof. exact rename_preserves. Qed.
Print Assumptions C11_rewrite_preserves_rename.

Theorem C11_rename_step_spec : forall cfg w e um oldname newname,
  wf_world cfg (wo_fs w) (CRename oldname newname) = true -> wf_rename cfg (wo_fs w) oldname newname = true ->
  C11.step_spec cfg w (view_of_model cfg w e (CRename oldname newname) um) = true.
Proof. exact rename_step_spec. Qed.
Print Assumptions C11_rename_step_spec.

(* (c) for the two rewriting commands treated; the full statement would quantify over every
   command (add and the commands that rewrite nothing are not covered) and carry no hypothesis
   on the world *)
Theorem C11_rewrite_preserves_partial : forall cfg w e cmd um,
  e_pretend e = false -> wf_rewrite cfg (wo_fs w) cmd = true ->
  conj2 cfg w (view_of_model cfg w e cmd um) = true.
Proof. exact rewrite_preserves. Qed.
Print Assumptions C11_rewrite_preserves_partial.

(* ---- the regenerated constants this property's predicate / model rest on, against literals.
   Gen/Consts.v is rewritten from the source of /repo on every run, so without this theorem an
   edit of one of these constants would move model, predicate and code together and nothing
   would be reported.  Used by: the predicate C11.spec (which files are layerconfigs; it spells the name out itself and reads layers through Model/Layers.v) and the skeleton a base layer is added from.
   "frozen" = no manual text gives the value; it is the value of the reviewed tree. *)
From LC Require Import Gen.Consts Proofs.C11PinsP.
Local Open Scope string_scope.
Theorem C11_constants_pinned :
  (* doc/layercake_directories.adoc, manual page LAYER DIRECTORY: "layerconfig" *)
  D_LayerconfigFile = bs "layerconfig" /\
  (* manual page / doc/layercake_layerconfig.adoc: "default_layerconfig.skel" in the base directory *)
  D_SkeletonLayerconfigFile = bs "default_layerconfig.skel" /\
  (* doc/layercake_layerconfig.adoc prints these six lines (with {pkgdir} already replaced by the default "packages") *)
  D_SkeletonLayerconfig = bs "import rbind /dev /dev
import proc /proc /proc
import rbind /sys /sys
import rbind /var/db/repos /var/db/repos
import rbind /var/cache/distfiles /var/cache/distfiles
import rbind $$base/{pkgdir} /var/cache/binpkgs".
Proof. exact c11_constants_pinned. Qed.
Print Assumptions C11_constants_pinned.
