(* C12 -- the kernel mount table is read back exactly.  Statements only. *)
From LC Require Import Lib.Bytes Lib.Fields Model.MountInfo Proofs.MountInfoP Proofs.C12P Cases.C12.

(* every octal-escaped string the kernel writes decodes to the original bytes *)
Theorem C12_unescape_mangle : forall esc s, esc bsl = true -> unescape (mangle esc s) = s.
Proof. exact unescape_mangle. Qed.
Print Assumptions C12_unescape_mangle.

(* every well-formed line is parsed into exactly its content *)
Theorem C12_parse_render_line : forall k, wf_kline k = true -> parse_line (render_line k) = LOk (view_line k).
Proof. exact parse_render_line. Qed.
Print Assumptions C12_parse_render_line.

(* every well-formed table (any length, any bytes, any optional fields) is read back exactly *)
Theorem C12_probe_render : forall T, wf_table T = true -> probe (render T) = view T.
Proof. exact probe_render. Qed.
Print Assumptions C12_probe_render.

(* the per-case statement evaluated on implementation output by the correspondence check *)
Theorem C12_holds : forall c, C12.wf c = true -> C12.kf c = 0%N -> C12.spec c (C12.model c) = true.
Proof. exact C12_holds_proof. Qed.
Print Assumptions C12_holds.

(* ---- the regenerated constants this property's predicate / model rest on, against literals.
   Gen/Consts.v is rewritten from the source of /repo on every run, so without this theorem an
   edit of one of these constants would move model, predicate and code together and nothing
   would be reported.  Used by: the shadowing file-system types of Model/MountInfo.v (C12.spec / C12.model: shadowed submounts).
   "frozen" = no manual text gives the value; it is the value of the reviewed tree. *)
From LC Require Import Gen.Consts Proofs.C12PinsP.
Local Open Scope string_scope.
Theorem C12_constants_pinned :
  (* frozen from the reviewed tree; property C12 text: "mounts below a /dev or /sys style tree are recognised as shadowed submounts" *)
  D_ShadowingFsTypes = bs "devtmpfs sysfs".
Proof. exact c12_constants_pinned. Qed.
Print Assumptions C12_constants_pinned.
