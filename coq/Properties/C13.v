(* C13 -- atom matching agrees with the Package Manager Specification.  Statements only. *)
From LC Require Import Lib.Bytes Model.PMS Model.AtomMatch Cases.C13 Proofs.C13P.

Theorem C13_obs_beq_refl : forall o, C13.obs_beq o o = true.
Proof. exact obs_beq_refl. Qed.
Print Assumptions C13_obs_beq_refl.
