(* C13 -- atom matching agrees with the Package Manager Specification.  Statements only.
   Model: Model/AtomMatch.v (from the Go code).  Reference: Model/PMS.v (from the specification).
   [cmpstr relop v] is the comparison string RawParseAtomAtCursor builds for version v;
   [in_domain a v] says that none of the known-finding classes 1-4 applies to the pair:
   numeric parts at the same position pad to the same width (both at most 5 digits, or
   equally long), no number component after the first has a leading zero, at most one
   suffix each, and no bare suffix stands against the same suffix with integer part 0. *)
From LC Require Import Lib.Bytes Lib.Lex Model.PMS Model.AtomMatch Cases.C13
  Proofs.C13Lex Proofs.AtomMatchP Proofs.C13P Proofs.C13Range Proofs.C13Holds Proofs.C13Thm Proofs.C13Vdb.
Import PMS C13.
Open Scope N_scope.

(* the lexicographic order of the normalised strings is the PMS version order (Algorithms 3.1-3.7):
   any number of components, letters, suffix, revision; for every non-range operator context *)
Theorem C13_version_order : forall r1 r2 a v,
  (r1 =? Relop_range) = false -> (r2 =? Relop_range) = false ->
  wf_ver a = true -> wf_ver v = true -> in_domain a v = true ->
  (ltb (cmpstr r1 a) (cmpstr r2 v) = true <-> vercmp a v = Lt)
  /\ (cmpstr r1 a = cmpstr r2 v <-> vercmp a v = Eq)
  /\ (ltb (cmpstr r2 v) (cmpstr r1 a) = true <-> vercmp a v = Gt).
Proof. exact version_order_thm. Qed.
Print Assumptions C13_version_order.

(* operator table: <, <=, =, >=, > *)
Theorem C13_operators : forall op a v, plain_op op = true ->
  wf_ver a = true -> wf_ver v = true -> in_domain a v = true ->
  ver_compare (relop_of op) (cmpstr (relop_of op) a) (cmpstr Relop_none v) = Val (ver_match op a v).
Proof. exact operators_thm. Qed.
Print Assumptions C13_operators.

(* "=...*": the range [string, MakeNextVer string) holds exactly the versions whose components
   continue the given ones; carries through all-nines components, letter z, suffix and revision
   numbers included.  Excluded: class 8 (revision without suffix is ignored). *)
Theorem C13_glob : forall a v, wf_ver a = true -> wf_ver v = true -> in_domain a v = true ->
  last_suffix_numbered a = true ->
  match v_rev a, v_sufs a with Some _, [] => true | _, _ => false end = false ->
  ver_compare Relop_range (cmpstr Relop_range a) (cmpstr Relop_none v) = Val (glob_match a v).
Proof. exact glob_thm. Qed.
Print Assumptions C13_glob.

(* "~": outside class 5 (candidates that continue the atom's version) the range test is
   "any revision of exactly that version" *)
Theorem C13_tilde : forall a v, wf_ver a = true -> wf_ver v = true -> in_domain a v = true ->
  v_rev a = None -> continues a v && negb (ver_match OpTilde a v) = false ->
  ver_compare Relop_range (cmpstr Relop_range a) (cmpstr Relop_none v) = Val (ver_match OpTilde a v).
Proof. exact tilde_thm. Qed.
Print Assumptions C13_tilde.

(* MakeNextVer terminates on every byte string (after the repair of the overflow loop) *)
Theorem C13_next_ver_total : forall s, exists u, make_next_ver s = Val u.
Proof. exact next_ver_total. Qed.
Print Assumptions C13_next_ver_total.

(* constructing a dependency atom and matching it never hangs or panics in the model *)
Theorem C13_never_hangs : forall c, model c <> OTimeout /\ model c <> OPanic.
Proof. exact never_hangs. Qed.
Print Assumptions C13_never_hangs.

(* slots and slot operators, outside classes 6 and 9 *)
Theorem C13_slots : forall c d, wf c = true -> kf_subslot c = false -> kf_slotzero c = false ->
  make_da (parse_atom (c_atom c)) = Val d ->
  da_slotc d (pa_slot (parse_pkg (c_pkg c)))
  = slot_match (a_slot (c_atom c)) (p_slot (c_pkg c)) (p_subslot (c_pkg c)).
Proof. exact slot_thm. Qed.
Print Assumptions C13_slots.

(* the finite USE-dependency table: 6 forms x 3 defaults x candidate {on, off, absent} x parent
   {on, off}; every row agrees with PMS except those of [!flag?] with the candidate's flag on *)
Theorem C13_use_dep_table :
  forallb (fun f => forallb (fun d => forallb (fun st => forallb (fun ctx => table_row f d st ctx)
     [true; false]) all_cand) all_defs) all_forms = true.
Proof. exact use_dep_table. Qed.
Print Assumptions C13_use_dep_table.

(* the candidate's flag states read through the IUSE and USE lines are its IUSE_EFFECTIVE states *)
Theorem C13_flag_lines : forall p m, wf_pkg p = true -> flag_state m (pkg_flags p) = lookup m (cand_flags p).
Proof. exact pkg_flags_state. Qed.
Print Assumptions C13_flag_lines.

(* USE dependencies of any length, outside class 7 *)
Theorem C13_use_deps : forall c, wf c = true -> kf_ifnot c = false ->
  flags_match (usedeps_of (a_use (c_atom c))) (pkg_flags (c_pkg c)) (c_parent c)
  = use_match (a_use (c_atom c)) (cand_flags (c_pkg c)) (c_parent c).
Proof. exact use_thm. Qed.
Print Assumptions C13_use_deps.

(* the per-case statement evaluated on implementation output by the correspondence check *)
Theorem C13_holds : forall c, C13.wf c = true -> C13.kf c = 0 -> C13.spec c (C13.model c) = true.
Proof. exact holds. Qed.
Print Assumptions C13_holds.

(* ---- installed packages as /var/db/pkg records them (files IUSE, IUSE_EFFECTIVE, USE) ---- *)
(* the reference: an installed package has a flag enabled iff the flag is declared (IUSE_EFFECTIVE, or
   IUSE where that file is not recorded) and listed in USE; disabled iff declared and not listed *)
Theorem C13_installed_on : forall f iuse eff use,
  lookup f (installed_flags iuse eff use) = Some true <->
  In f (declared_flags iuse eff) /\ In f (match use with Some l => l | None => [] end).
Proof. exact installed_on. Qed.
Print Assumptions C13_installed_on.
Theorem C13_installed_off : forall f iuse eff use,
  lookup f (installed_flags iuse eff use) = Some false <->
  In f (declared_flags iuse eff) /\ ~ In f (match use with Some l => l | None => [] end).
Proof. exact installed_off. Qed.
Print Assumptions C13_installed_off.
(* the "+" / "-" prefixes of IUSE (defaults for building) say nothing about the installed package *)
Theorem C13_installed_prefix_independent : forall i1 i2 eff use,
  map snd i1 = map snd i2 -> installed_flags (Some i1) eff use = installed_flags (Some i2) eff use.
Proof. exact installed_prefix_independent. Qed.
Print Assumptions C13_installed_prefix_independent.

(* the loader (vdb/get_list.go setAtom: first of IUSE_EFFECTIVE / IUSE, TrimSpace, NewUseFlagSetFromIUSE,
   SetFlagsFromUSE) builds exactly that flag set from the files of any well-formed entry ... *)
Theorem C13_vdb_flags : forall e m, wf_ent e = true -> flag_state m (ent_flags e) = lookup m (ent_pms e).
Proof. exact ent_flags_state. Qed.
Print Assumptions C13_vdb_flags.
(* ... the depending package's loaded flags (ParentUseFlags = GetMap) are its PMS flags ... *)
Theorem C13_vdb_parent : forall e m, wf_ent e = true ->
  ctx_lookup m (get_map (ent_flags e)) = match lookup m (ent_pms e) with Some b => b | None => false end.
Proof. exact ent_parent_flags. Qed.
Print Assumptions C13_vdb_parent.
(* ... and the loaded package compares by its version and the slot part of its SLOT file *)
Theorem C13_vdb_slot : forall p, wf_pkg p = true ->
  pa_compver (parse_vdb_pkg p) = pa_compver (parse_pkg p) /\ pa_slot (parse_vdb_pkg p) = pa_slot (parse_pkg p).
Proof. exact vdb_pkg_compares. Qed.
Print Assumptions C13_vdb_slot.

(* the per-case statement for extended cases (candidate and/or depending package loaded from a VDB entry) *)
Theorem C13_holds_vdb : forall x, C13.xwf x = true -> C13.xkf x = 0 -> C13.xspec x (C13.xmodel x) = true.
Proof. exact xholds. Qed.
Print Assumptions C13_holds_vdb.

(* the known-finding classes are genuine: a well-formed witness on which the model (= the code) disagrees with PMS *)
Theorem C13_refuted_1 : exists c, wf c = true /\ kf c = 1 /\ spec c (model c) = false.
Proof. exact refuted_1. Qed.
Print Assumptions C13_refuted_1.
Theorem C13_refuted_2 : exists c, wf c = true /\ kf c = 2 /\ spec c (model c) = false.
Proof. exact refuted_2. Qed.
Print Assumptions C13_refuted_2.
Theorem C13_refuted_3 : exists c, wf c = true /\ kf c = 3 /\ spec c (model c) = false.
Proof. exact refuted_3. Qed.
Print Assumptions C13_refuted_3.
Theorem C13_refuted_4 : exists c, wf c = true /\ kf c = 4 /\ spec c (model c) = false.
Proof. exact refuted_4. Qed.
Print Assumptions C13_refuted_4.
Theorem C13_refuted_5 : exists c, wf c = true /\ kf c = 5 /\ spec c (model c) = false.
Proof. exact refuted_5. Qed.
Print Assumptions C13_refuted_5.
Theorem C13_refuted_6 : exists c, wf c = true /\ kf c = 6 /\ spec c (model c) = false.
Proof. exact refuted_6. Qed.
Print Assumptions C13_refuted_6.
Theorem C13_refuted_7 : exists c, wf c = true /\ kf c = 7 /\ spec c (model c) = false.
Proof. exact refuted_7. Qed.
Print Assumptions C13_refuted_7.
Theorem C13_refuted_8 : exists c, wf c = true /\ kf c = 8 /\ spec c (model c) = false.
Proof. exact refuted_8. Qed.
Print Assumptions C13_refuted_8.
Theorem C13_refuted_9 : exists c, wf c = true /\ kf c = 9 /\ spec c (model c) = false.
Proof. exact refuted_9. Qed.
Print Assumptions C13_refuted_9.
