(* C14 -- package atoms and dependency strings parse into the structure they denote.  Statements only. *)
From LC Require Import Lib.Bytes Gen.Consts Model.AtomParse Model.DepParse Model.PMSGrammar Cases.C14.

(* the hand-written matchers are for exactly these regular expressions *)
Theorem C14_regex_pinned :
  PA_pkgVerRE = bs "^(.*?)-(\d+(?:\.\d+)*[a-z]?)((?:_(?:alpha|beta|pre|rc|p)\d*)+)?(?:-(r\d+))?(\*?)$" /\
  PA_pkgCatNameRE = bs "^(?:(\w[\w+.-]*)/)?(\w[\w+-]*)$".
Proof. split; reflexivity. Qed.
Print Assumptions C14_regex_pinned.
