(* C14 -- package atoms and dependency strings parse into the structure they denote.
   Statements only; proofs live in Proofs/{AtomParseP,VersionP,AtomRoundtripP,DepParseP,DepRoundtripP,C14P}.v.
   Model: Model/AtomParse.v (portage/parse/atomCursor.go, portage/atom/parse.go, the two regular
   expressions as hand matchers), Model/DepParse.v (portage/depend/{tokenizer,depend}.go).
   Reference: Model/PMSGrammar.v (PMS 3.1, 3.2, 8.2, 8.3 as abstract syntax, printer, denotation). *)
From LC Require Import Lib.Bytes Lib.Fields Gen.Consts Model.AtomParse Model.DepParse Model.PMSGrammar
  Proofs.AtomParseP Proofs.VersionP Proofs.AtomRoundtripP Proofs.DepParseP Proofs.DepRoundtripP Proofs.C14P
  Cases.C14.

(* the hand-written matchers are for exactly these regular expressions (regenerated from
   portage/atom/parse.go on every run) *)
Theorem C14_regex_pinned :
  PA_pkgVerRE = bs "^(.*?)-(\d+(?:\.\d+)*[a-z]?)((?:_(?:alpha|beta|pre|rc|p)\d*)+)?(?:-(r\d+))?(\*?)$" /\
  PA_pkgCatNameRE = bs "^(?:(\w[\w+.-]*)/)?(\w[\w+-]*)$".
Proof. exact regex_pinned. Qed.
Print Assumptions C14_regex_pinned.

(* no character class of portage/parse/chartype.go contains byte 0: the end of input (Peek
   returns 0) stops every scanning loop, so the cursor never runs away *)
Theorem C14_classes_no_nul :
  is_namever (nb 0) = false /\ is_slot_start (nb 0) = false /\ is_slot_mid (nb 0) = false /\
  is_repo_char (nb 0) = false /\ is_usedep_char (nb 0) = false /\ is_useflag_char (nb 0) = false.
Proof. exact classes_no_nul. Qed.
Print Assumptions C14_classes_no_nul.

(* parser totality, atoms: no byte string and no flag combination makes RawParseAtom crash or loop *)
Theorem C14_atom_total : forall s vnr asdep,
  fst (raw_parse_at s vnr asdep) <> APanic /\ fst (raw_parse_at s vnr asdep) <> ADiverge.
Proof. exact atom_total. Qed.
Print Assumptions C14_atom_total.

(* parser totality, dependency strings: no byte string makes DecodeDependencies crash or loop
   (the fuel 2|s|+4 of the model is never exhausted) *)
Theorem C14_decode_total : forall s, decode s <> RPanic /\ decode s <> RDiverge.
Proof. exact decode_total. Qed.
Print Assumptions C14_decode_total.

(* the version part of pkgVerRE accepts exactly the printed PMS versions (plus an optional star)
   and cuts them into numbers+letter, suffixes, revision as written *)
Theorem C14_version_matcher_complete : forall v g, wf_version v = true ->
  ver_tail (print_version v ++ globtxt g) = Some (MkVT (print_ver_main v) (print_sufs v) (print_rev v) g).
Proof. exact version_matcher_complete. Qed.
Print Assumptions C14_version_matcher_complete.

Theorem C14_version_matcher_sound : forall x t, ver_tail x = Some t ->
  exists v g, wfv v /\ x = print_version v ++ globtxt g /\ t = MkVT (print_ver_main v) (print_sufs v) (print_rev v) g.
Proof. exact ver_tail_sound. Qed.
Print Assumptions C14_version_matcher_sound.

(* the reference recogniser of PMS 3.2 used in wf_name accepts every printed version *)
Theorem C14_reference_version_syntax : forall v, wf_version v = true -> is_pms_version (print_version v) = true.
Proof. exact reference_version_syntax. Qed.
Print Assumptions C14_reference_version_syntax.

(* the name/version boundary: whatever digits and hyphens category and name contain, the split
   is at the hyphen before the version; without a version nothing is split off *)
Theorem C14_name_version_boundary : forall a, wfcn a ->
  (forall v g, wfv v ->
     ver_split (print_catname a ++ nb 45 :: print_version v ++ globtxt g) =
     Some (print_catname a, MkVT (print_ver_main v) (print_sufs v) (print_rev v) g)) /\
  ver_split (print_catname a) = None.
Proof. exact name_version_boundary. Qed.
Print Assumptions C14_name_version_boundary.

(* atom_roundtrip: every well-formed PMS atom -- blocker, operator, category, name with digits and
   hyphens, version with letter / several suffixes / revision / glob, slot, sub-slot, slot
   operator, repository, 2- and 4-style USE dependencies -- is decomposed into exactly what
   was written; at a cursor (dependency strings) the rest of the input is left untouched *)
Theorem C14_atom_roundtrip : forall vnr asdep a r,
  wf_atom vnr asdep a = true -> (asdep = false -> r = []) -> tail_ok r ->
  raw_parse_at (print_atom a ++ r) vnr asdep = (AOk (denote a), r).
Proof. exact atom_roundtrip. Qed.
Print Assumptions C14_atom_roundtrip.

(* an accepted atom is exactly the consumed text (all of the input when a whole string is
   parsed), non-empty, free of white space, with the blocker strength that was written *)
Theorem C14_atom_accept_exact : forall s vnr asdep p r, raw_parse_at s vnr asdep = (AOk p, r) ->
  s = p_atom p ++ r /\ p_atom p <> [] /\ forallb not_ws (p_atom p) = true /\
  p_blocker p = is 33 (peek s) /\ p_hardblock p = (is 33 (peek s) && is 33 (peek1 s)) /\
  (asdep = false -> r = []).
Proof. exact raw_parse_ok. Qed.
Print Assumptions C14_atom_accept_exact.

(* dep_roundtrip: every string whose white-space separated tokens are the tokens of well-formed
   trees of all-of, ||, ^^, ??, flag?, !flag? groups -- any depth, any white space between the
   tokens, before and after -- decodes to exactly those trees with their atoms in order *)
Theorem C14_dep_roundtrip : forall ts s, forallb wf_dast ts = true -> ptokens s = flat_map print_toks ts ->
  decode s = ROk (map denote_dast ts).
Proof. exact dep_roundtrip. Qed.
Print Assumptions C14_dep_roundtrip.

(* no mis-parse: whatever is accepted reads back, as PMS text, token for token as the input
   (inputs of the two known-finding classes excepted) *)
Theorem C14_no_misparse : forall s l, existsb ctrl_byte s = false -> bare_use (ptokens s) = false ->
  decode s = ROk l -> ptokens s = flat_map dep_toks l.
Proof. exact decode_no_misparse. Qed.
Print Assumptions C14_no_misparse.

(* reject_unbalanced: a stray ")" or a missing ")" is an error, never a truncated tree -- for
   every byte string, known-finding classes included (tokens as the scanner sees them) *)
Theorem C14_reject_unbalanced : forall s, balanced 0 (wtoks s) = false -> decode s = RErr.
Proof. exact decode_reject_unbalanced. Qed.
Print Assumptions C14_reject_unbalanced.

(* String() of every decoded item is its PMS text *)
Theorem C14_string_prints_tree : forall s l, decode s = ROk l ->
  map dep_string l = map (fun d => DepParseP.sp_join (dep_toks d)) l.
Proof. exact string_prints_tree. Qed.
Print Assumptions C14_string_prints_tree.

(* an accepted atom has the version operator it was written with: where a version needs an operator
   (versionNeedsRelop), a text without one is never accepted as if "=" had been written *)
Theorem C14_operator_as_written : forall input vnr asdep p r,
  raw_parse_at input vnr asdep = (AOk p, r) -> C14.op_written vnr input p = true.
Proof. exact raw_parse_op_written. Qed.
Print Assumptions C14_operator_as_written.

(* the per-case statement evaluated on implementation output by the correspondence check *)
Theorem C14_holds : forall c, C14.wf c = true -> C14.kf c = 0%N -> C14.spec c (C14.model c) = true.
Proof. exact C14_holds_proof. Qed.
Print Assumptions C14_holds.

(* known finding 1: "flag? cat/pkg" (no parentheses) is accepted as "flag? ( cat/pkg )" *)
Theorem C14_refuted_1 : exists c, C14.wf c = true /\ C14.kf c = 1%N /\ C14.spec c (C14.model c) = false.
Proof. exact refuted_1. Qed.
Print Assumptions C14_refuted_1.

(* known finding 2: a control byte separates tokens like white space ("a/b" 0x01 "c/d") *)
Theorem C14_refuted_2 : exists c, C14.wf c = true /\ C14.kf c = 2%N /\ C14.spec c (C14.model c) = false.
Proof. exact refuted_2. Qed.
Print Assumptions C14_refuted_2.

(* ---- the regenerated constants this property's predicate / model rest on, against literals.
   Gen/Consts.v is rewritten from the source of /repo on every run, so without this theorem an
   edit of one of these constants would move model, predicate and code together and nothing
   would be reported.  Used by: Model/AtomParse.v and the reference Model/PMSGrammar.v share the comparable-version encoding and the character classes (the two regular expressions are pinned by C14_regex_pinned).
   "frozen" = no manual text gives the value; it is the value of the reviewed tree. *)
From LC Require Import Gen.Consts Proofs.C14PinsP.
Local Open Scope string_scope.
Theorem C14_constants_pinned :
  (* frozen from the reviewed tree (portage/parse/chartype.go) *)
  PP_isNameVerChar = bs "a-zA-Z0-9/_+*.-" /\
  (* PMS 3.1.3: a slot name starts with [A-Za-z0-9_] *)
  PP_isSlotNameStartChar = bs "a-zA-Z0-9_" /\
  (* PMS 3.1.3: [A-Za-z0-9+_.-] *)
  PP_isSlotNameMidChar = bs "a-zA-Z0-9+_.-" /\
  (* PMS 3.1.5: [A-Za-z0-9_-] *)
  PP_isRepoNameChar = bs "a-zA-Z0-9_-" /\
  (* frozen from the reviewed tree (characters of a bracketed USE-dependency list) *)
  PP_isUseDepChar = bs "a-zA-Z0-9+_@!?=(),-" /\
  (* PMS 3.1.4: [A-Za-z0-9+_@-] *)
  PP_IsUseFlagChar = bs "a-zA-Z0-9+_@-" /\
  (* frozen from the reviewed tree (width pinned by portage/atom/decode_test.go; known finding C13 id=1) *)
  PA_numericVersionSegmentWidth = 5%N /\
  (* frozen from the reviewed tree (comparable form: _alpha < _beta < _pre < _rc < none < _p as _a.._d, _n, _p) *)
  PA_releaseSuffixAlpha = bs "_a" /\
  (* frozen from the reviewed tree *)
  PA_releaseSuffixBeta = bs "_b" /\
  (* frozen from the reviewed tree *)
  PA_releaseSuffixPre = bs "_c" /\
  (* frozen from the reviewed tree *)
  PA_releaseSuffixRc = bs "_d" /\
  (* frozen from the reviewed tree *)
  PA_releaseSuffixNormal = bs "_n" /\
  (* frozen from the reviewed tree *)
  PA_releaseSuffixPatch = bs "_p" /\
  (* frozen from the reviewed tree (-r0 at width 5) *)
  PA_defaultRevision = bs "r00000" /\
  (* frozen from the reviewed tree *)
  PA_maxAlphaVersion = bs "zzzzz".
Proof. exact c14_constants_pinned. Qed.
Print Assumptions C14_constants_pinned.
