(* C15 -- pretend mode changes nothing.  Statements only. *)
From LC Require Import Lib.Bytes Model.FsTree Model.Kernel Model.Layers Cases.LC Cases.C15
  Proofs.MonadP Proofs.C15P.

(* model level: under -p the final state of every layercake command (init, add, remove, rename,
   rebase, mkdirs, mount, umount, shake, chroot, probe), from every world and under every fault
   plan, is the initial state: same world, empty log, operation count 0 *)
Theorem C15_pretend_no_effect : forall e c um cmd w,
  e_pretend e = true -> is_manual cmd = false ->
  snd (run e c um cmd w) = MkSt w 0 [].
Proof. exact pretend_no_effect. Qed.
Print Assumptions C15_pretend_no_effect.

(* the model's own step always satisfies the property predicate *)
Theorem C15_model : forall cfg w e cmd um,
  e_pretend e = true -> is_manual cmd = false ->
  C15.step_spec cfg w (LC.view_of_model cfg w e cmd um) = true.
Proof. exact C15_model_proof. Qed.
Print Assumptions C15_model.

(* ---- command-line part: the -p switch is honoured wherever it stands (Model/Args.v) ---- *)
From LC Require Import Model.Args Proofs.ArgsP.

(* (a) structured command line  pre ++ [cmd] ++ post:  pre = switches of the global flag set
   (-v -p -debug -force, -config X, -basepath X), cmd a command of the command table, post =
   words, -v -p -debug -force, the command's own boolean switches, the command's own string
   switches with their value.  If -p occurs anywhere among them and the command is run, the
   pretender is installed. *)
Theorem C15_pretend_installed : forall pre cmd post locals lo hi o c a l,
  forallb pre_ok pre = true ->
  command_info cmd = Some (locals, lo, hi) ->
  forallb (local_ok locals) post = true ->
  existsb is_p (pre ++ post) = true ->
  parse_main (render_toks pre ++ [cmd] ++ render_toks post) = MRun o c a l ->
  o_p o = true.
Proof. exact pretend_installed. Qed.
Print Assumptions C15_pretend_installed.

(* the same for any switches the merged flag sets know (plain names) *)
Theorem C15_pretend_installed_gen : forall pre cmd post locals lo hi o c a l,
  forallb (flag_ok global_flags) pre = true ->
  command_info cmd = Some (locals, lo, hi) ->
  forallb (post_ok (common_switches ++ locals)) post = true ->
  existsb is_p (pre ++ post) = true ->
  parse_main (render_toks pre ++ [cmd] ++ render_toks post) = MRun o c a l ->
  o_p o = true.
Proof. exact pretend_installed_gen. Qed.
Print Assumptions C15_pretend_installed_gen.

(* in the vocabulary of the process-level cases (Cases/C15.v: p_wf, has_p) *)
Theorem C15_pretend_installed_pcase : forall p o c a l,
  C15.p_wf p = true -> p_known p = true -> C15.has_p p = true ->
  parse_main (C15.p_argv p) = MRun o c a l -> o_p o = true.
Proof. exact pretend_installed_pcase. Qed.
Print Assumptions C15_pretend_installed_pcase.

(* what is run is what was written: command word, words in order, local assignments in order,
   options = all assignments folded left to right *)
Theorem C15_structured_run : forall pre cmd post locals lo hi o c a l,
  forallb pre_ok pre = true ->
  command_info cmd = Some (locals, lo, hi) ->
  forallb (local_ok locals) post = true ->
  parse_main (render_toks pre ++ [cmd] ++ render_toks post) = MRun o c a l ->
  c = cmd /\ a = toks_words post /\ l = toks_asg post
  /\ o = fold_left apply_assign (toks_asg (pre ++ post)) (MkO false false false false).
Proof. exact structured_run. Qed.
Print Assumptions C15_structured_run.

(* (b) parse_main gives parse_cmd_args fuel S (length rest); with that fuel the result None
   can only come from a failing FlagSet.Parse on some remainder of the arguments, for every
   flag set, argument list and accumulator *)
Theorem C15_args_total : forall fs rest first words asg,
  parse_cmd_args (S (length rest)) fs rest first words asg = None ->
  exists pre w rest', rest = pre ++ w :: rest' /\ fparse fs rest' [] = PErr.
Proof. exact args_total. Qed.
Print Assumptions C15_args_total.

Theorem C15_args_total_contra : forall fs rest first words asg,
  (forall pre w rest', rest = pre ++ w :: rest' -> fparse fs rest' [] <> PErr) ->
  parse_cmd_args (S (length rest)) fs rest first words asg <> None.
Proof. exact args_total_contra. Qed.
Print Assumptions C15_args_total_contra.

(* more fuel changes nothing; one unit per argument is enough *)
Theorem C15_args_fuel_irrelevant : forall fs rest first words asg extra,
  parse_cmd_args (S (length rest) + extra) fs rest first words asg
  = parse_cmd_args (length rest) fs rest first words asg.
Proof. exact args_fuel_irrelevant. Qed.
Print Assumptions C15_args_fuel_irrelevant.

(* (c) whatever the argv: a command that is run is in the command table and the number of its
   arguments is within its arity *)
Theorem C15_run_means_wellformed : forall argv o c words l,
  parse_main argv = MRun o c words l ->
  exists locals lo hi, command_info c = Some (locals, lo, hi)
                       /\ (lo <= length words)%nat /\ (length words <= hi)%nat.
Proof. exact run_means_wellformed. Qed.
Print Assumptions C15_run_means_wellformed.

Theorem C15_run_command_word : forall argv o c words l,
  parse_main argv = MRun o c words l ->
  exists g rest, fparse global_flags argv [] = POk g rest
                 /\ c = match rest with c :: _ => c | [] => bs "status" end
                 /\ In c command_names.
Proof. exact run_command_word. Qed.
Print Assumptions C15_run_command_word.

(* ---- which command a command line reaches (Model/Dispatch.v; every process-level step of a
   history is compared with it: LC.argv_ok) ---- *)
From LC Require Import Model.Dispatch Proofs.DispatchP.
(* (d) a structured command line dispatches to the command built from the command word, the
   words and the command's OWN switches, under options that are the disjunction of the global
   switches written anywhere on it *)
Theorem C15_dispatch_structured : forall pre cmd post locals lo hi o c,
  forallb pre_ok pre = true ->
  command_info cmd = Some (locals, lo, hi) ->
  forallb (local_ok locals) post = true ->
  dispatch (render_toks pre ++ [cmd] ++ render_toks post) = Some (o, c) ->
  command_of cmd (toks_words post) (toks_asg post) = Some c
  /\ o = flags_of (toks_asg (pre ++ post)) o0.
Proof. exact dispatch_structured. Qed.
Print Assumptions C15_dispatch_structured.

Theorem C15_dispatch_options : forall pre cmd post locals lo hi o c,
  forallb pre_ok pre = true ->
  command_info cmd = Some (locals, lo, hi) ->
  forallb (local_ok locals) post = true ->
  dispatch (render_toks pre ++ [cmd] ++ render_toks post) = Some (o, c) ->
  o_p o = has_true (toks_asg (pre ++ post)) (bs "p")
  /\ o_force o = has_true (toks_asg (pre ++ post)) (bs "force")
  /\ o_v o = has_true (toks_asg (pre ++ post)) (bs "v").
Proof. exact dispatch_options. Qed.
Print Assumptions C15_dispatch_options.

(* (e) "global options may be specified anywhere in the command line": the same switch in front
   of the command word or at any position behind it -- same command, same options *)
Theorem C15_dispatch_switch_anywhere : forall pre cmd post1 post2 locals lo hi sw o1 c1 o2 c2,
  forallb pre_ok pre = true ->
  command_info cmd = Some (locals, lo, hi) ->
  forallb (local_ok locals) (post1 ++ post2) = true ->
  In sw common_bools ->
  dispatch (render_toks (pre ++ [TBool sw]) ++ [cmd] ++ render_toks (post1 ++ post2)) = Some (o1, c1) ->
  dispatch (render_toks pre ++ [cmd] ++ render_toks (post1 ++ TBool sw :: post2)) = Some (o2, c2) ->
  c1 = c2 /\ o1 = o2.
Proof. exact dispatch_switch_anywhere. Qed.
Print Assumptions C15_dispatch_switch_anywhere.

(* (f) no global switch changes WHICH command is reached or with which arguments *)
Theorem C15_command_ignores_global : forall cmd args l1 l2 sw v,
  In sw common_bools ->
  command_of cmd args (l1 ++ (sw, v) :: l2) = command_of cmd args (l1 ++ l2).
Proof. exact command_of_ignores_global. Qed.
Print Assumptions C15_command_ignores_global.

(* (g) the whole binary as one function (Model/Whole.v: config.Load, argument parsing, dispatch,
   command): a process-level step that passes the correspondence's command-line check is one
   invocation of it -- the model step it is compared with is [run_binary] on the step's own
   command line, fault plan and iteration oracle, in the configuration config.Load yields *)
From LC Require Import Model.Whole Proofs.WholeP.
Theorem C15_whole_step : forall c w s a argv,
  LC.s_argv s = a :: argv -> LC.argv_ok c w s = true ->
  run_binary (a :: argv) (e_fault (LC.s_env s)) (e_order (LC.s_env s)) (LC.s_users s) (LC.world_of w)
  = Some (c, LC.s_env s, LC.s_cmd s, run (LC.s_env s) c (LC.s_users s) (LC.s_cmd s) (LC.world_of w)).
Proof. exact whole_step. Qed.
Print Assumptions C15_whole_step.

(* (h) end to end: -p written anywhere on a structured command line -- among the global options or
   among the command's words -- makes the whole binary (configuration loading, dispatch, command;
   every modelled command, every configuration the files yield, every world, every fault plan)
   leave the world as it is: no operation counted, none logged *)
From LC Require Import Proofs.WholePretendP.
Theorem C15_binary_pretend : forall pre cmd post locals lo hi flt order um w c e k r,
  forallb pre_ok pre = true ->
  command_info cmd = Some (locals, lo, hi) ->
  forallb (local_ok locals) post = true ->
  existsb is_p (pre ++ post) = true ->
  run_binary (render_toks pre ++ [cmd] ++ render_toks post) flt order um w = Some (c, e, k, r) ->
  e_pretend e = true /\ snd r = MkSt w 0 [].
Proof. exact binary_pretend. Qed.
Print Assumptions C15_binary_pretend.

(* (i) a boolean switch written with a value (Go's flag package: -name=v): every spelling
   strconv.ParseBool accepts as true is the bare switch, every spelling it accepts as false switches
   it off, anything else is a usage error -- for every flag set, name, value and position *)
From LC Require Import Proofs.BoolFormsP.
Theorem C15_switch_value_forms : forall fs n v rest acc,
  plain_name n = true -> fs_lookup fs n = Some FBool ->
  fparse fs ((dashc :: n ++ eqch :: v) :: rest) acc =
  match parse_bool v with
  | Some b0 => fparse fs rest ((n, if b0 then bs "true" else bs "false") :: acc)
  | None => PErr
  end.
Proof. exact fparse_bool_value. Qed.
Print Assumptions C15_switch_value_forms.

Theorem C15_switch_on_forms : forall fs n v rest acc,
  plain_name n = true -> fs_lookup fs n = Some FBool -> parse_bool v = Some true ->
  fparse fs ((dashc :: n ++ eqch :: v) :: rest) acc = fparse fs ((dashc :: n) :: rest) acc.
Proof. exact fparse_bool_on. Qed.
Print Assumptions C15_switch_on_forms.
