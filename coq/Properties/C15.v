(* C15 -- pretend mode changes nothing.  Statements only. *)
From LC Require Import Lib.Bytes Model.FsTree Model.Kernel Model.Layers Cases.LC Cases.C15
  Proofs.MonadP Proofs.C15P.

(* model level: under -p the final state of every layercake command (init, add, remove, rename,
   rebase, mkdirs, mount, umount, shake, chroot, probe), from every world and under every fault
   plan, is the initial state: same world, empty log, operation count 0 *)
Theorem C15_pretend_no_effect : forall e c um cmd w,
  e_pretend e = true -> is_manual cmd = false ->
  snd (run e c um cmd w) = MkSt w 0 [].
Proof. exact pretend_no_effect. Qed.
Print Assumptions C15_pretend_no_effect.

(* the model's own step always satisfies the property predicate *)
Theorem C15_model : forall cfg w e cmd um,
  e_pretend e = true -> is_manual cmd = false ->
  C15.step_spec cfg w (LC.view_of_model cfg w e cmd um) = true.
Proof. exact C15_model_proof. Qed.
Print Assumptions C15_model.
