(* C16 -- export links always point at live layers and never clobber foreign entries.
   Statements only.  The model's own step (LC.view_of_model) satisfies the property predicate
   C16.step_spec for every world, configuration, command and users map under the decidable
   hypotheses named below; step_spec is split into its named conjuncts first. *)
From LC Require Import Lib.Bytes Lib.PathM Model.FsTree Model.Kernel Model.Layers Cases.LC Cases.C16
  Proofs.C15P Proofs.C16FsP Proofs.C16ClobberP Proofs.C16RenameP Proofs.C16MountP Proofs.C16P Proofs.C16ExamplesP.
Import LC LCS.

(* C16.step_spec = (plain environment ->) never-clobbers conjunct && per-command conjunct;
   the per-command conjunct is rr_spec after an Ok rename / remove and mount_spec after an Ok mount *)
Theorem C16_step_spec_split : forall c w v,
  C16.step_spec c w v =
  if negb (plain_env (v_env v)) then true
  else clobber_spec c (wo_fs w) (wo_fs (v_after v)) && cmd_spec c w v.
Proof. exact step_spec_split. Qed.
Print Assumptions C16_step_spec_split.

Theorem C16_cmd_spec_rename_remove : forall c w v n,
  rr_of (v_cmd v) = Some n -> v_res v = ROk ->
  cmd_spec c w v = rr_spec c n (wo_fs w) (wo_fs (v_after v)).
Proof. exact cmd_spec_rr. Qed.
Print Assumptions C16_cmd_spec_rename_remove.

Theorem C16_cmd_spec_mount : forall c w v n,
  v_cmd v = CMount n -> v_res v = ROk ->
  cmd_spec c w v = mount_spec c n (wo_fs w) (wo_fs (v_after v)).
Proof. exact cmd_spec_mount. Qed.
Print Assumptions C16_cmd_spec_mount.

(* (a) whatever the command (init, add, remove, rename, rebase, mkdirs, mount, umount, shake,
   chroot, probe, and the two manual kernel commands) and whatever its outcome: every entry of
   the export tree that is not a symlink is still there, unchanged, afterwards.
   cfg_ok: layers and exports directories are clean absolute paths, neither at or under the
   other; the build root is a relative path of plain components.
   world_ok: unique paths; every export-tree entry has all its ancestors as directory entries.
   edit_ok: the manual command CEdit p x (somebody overwrites a file by hand; not layercake)
   does not edit inside the export tree; true for every other command, the two manual kernel
   commands included. *)
Theorem C16_never_clobbers : forall cfg w e cmd um,
  plain_env e = true -> cfg_ok cfg = true -> world_ok cfg w = true -> edit_ok cfg cmd = true ->
  clobber_spec cfg (wo_fs w) (wo_fs (v_after (view_of_model cfg w e cmd um))) = true.
Proof. exact C16_never_clobbers_proof. Qed.
Print Assumptions C16_never_clobbers.

(* (b) after an Ok rename / remove of layer n: no entry export/<packages>/n or
   export/<generated>/n is left and every other export entry is unchanged.
   cfg_ok_links: the two export sub-directories are relative paths of plain components. *)
Theorem C16_rename_remove : forall cfg w e cmd um n,
  plain_env e = true -> cfg_ok cfg = true -> cfg_ok_links cfg = true -> world_ok cfg w = true ->
  rr_of cmd = Some n -> v_res (view_of_model cfg w e cmd um) = ROk ->
  rr_spec cfg n (wo_fs w) (wo_fs (v_after (view_of_model cfg w e cmd um))) = true.
Proof. exact C16_rename_remove_proof. Qed.
Print Assumptions C16_rename_remove.

(* (c) after an Ok mount of n: for every layer of the chain, C16.link_ok holds for both links.
   Full statement (false of the model, see C16_after_mount_refuted): the same without chain_own.
   chain_own: every expanded export directive of every chain layer targets one of that
   layer's own two links -- spelled $$package_export / $$file_export or written out, any
   number of directives per link.
   cfg_ok_mount: the two export sub-directories are distinct plain names; the per-layer
   packages / generated directories are relative paths of plain components. *)
Theorem C16_after_mount_partial : forall cfg w e n um,
  plain_env e = true -> cfg_ok cfg = true -> cfg_ok_mount cfg = true ->
  chain_own cfg (wo_fs w) n = true ->
  v_res (view_of_model cfg w e (CMount n) um) = ROk ->
  mount_spec cfg n (wo_fs w) (wo_fs (v_after (view_of_model cfg w e (CMount n) um))) = true.
Proof. exact C16_after_mount_partial_proof. Qed.
Print Assumptions C16_after_mount_partial.

(* the whole predicate, every environment (under -p or a fault plan it is vacuous) *)
Theorem C16_model_partial : forall cfg w e cmd um,
  cfg_ok cfg = true -> cfg_ok_mount cfg = true -> world_ok cfg w = true -> mount_ok cfg w cmd = true ->
  edit_ok cfg cmd = true ->
  C16.step_spec cfg w (view_of_model cfg w e cmd um) = true.
Proof. exact C16_model_partial_proof. Qed.
Print Assumptions C16_model_partial.

(* (c) without chain_own is false of the model: closed witness (a directive targeting the
   parent directory of the link; the model's textual remove_all below a symlink entry) *)
Theorem C16_after_mount_refuted :
  plain_env e0 = true /\ cfg_ok ex_cfg = true /\ cfg_ok_mount ex_cfg = true /\ world_ok ex_cfg (w3 conf_par) = true
  /\ mount_ok ex_cfg (w3 conf_par) (CMount (bs "a")) = false
  /\ v_res v3 = ROk /\ length (v_log v3) = 4%nat
  /\ exists_ (wo_fs (v_after v3)) (bs "/b/export/packages/a") = false
  /\ C16.step_spec ex_cfg (w3 conf_par) v3 = false.
Proof. exact C16_after_mount_refuted_foreign_target. Qed.
Print Assumptions C16_after_mount_refuted.

(* ---- the regenerated constants this property's predicate / model rest on, against literals.
   Gen/Consts.v is rewritten from the source of /repo on every run, so without this theorem an
   edit of one of these constants would move model, predicate and code together and nothing
   would be reported.  Used by: the predicate C16.spec reads layers from disk through Model/Layers.v (layerconfig_path).
   "frozen" = no manual text gives the value; it is the value of the reviewed tree. *)
From LC Require Import Gen.Consts Proofs.C16PinsP.
Local Open Scope string_scope.
Theorem C16_constants_pinned :
  (* doc/layercake_directories.adoc, manual page LAYER DIRECTORY: "layerconfig" *)
  D_LayerconfigFile = bs "layerconfig".
Proof. exact c16_constants_pinned. Qed.
Print Assumptions C16_constants_pinned.
