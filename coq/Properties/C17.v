(* C17 -- add-files and recipe lines mean what the manual says or are rejected.  Statements only. *)
From LC Require Import Lib.Bytes Lib.Lex Lib.Fields Lib.PathM Gen.Consts Model.StageLine Model.StageDoc
  Model.StageWild Model.StageWildDoc Model.Recipe Model.RecipeDoc Model.Compress
  Proofs.StageFieldsP Proofs.StageModeP Proofs.C17LineP Proofs.StageWildP Proofs.C17MiscP
  Proofs.C17RecipeP Proofs.CompressP Proofs.C17ListP Proofs.C17P Cases.C17.
Open Scope N_scope.

(* ---- no line can crash the tool: every byte string ---- *)
Theorem C17_fields_total : forall line, parse_fields line <> PFPanic.
Proof. exact parse_fields_total. Qed.
Print Assumptions C17_fields_total.

Theorem C17_line_total : forall line, parse_line line <> LPanic.
Proof. exact parse_line_total. Qed.
Print Assumptions C17_line_total.

(* GenerateFileList + ReadUserFileList + Finalize over any build root, list and script *)
Theorem C17_list_total : forall t pre init lines, fst (run_list t pre init lines) <> LsPanic.
Proof. exact run_list_no_panic. Qed.
Print Assumptions C17_list_total.

(* the stagemaker pipeline from the user lists on (with AddMissingStageDirs) *)
Theorem C17_proc_total : forall t pre lines, fst (run_proc t pre lines) <> LsPanic.
Proof. exact run_proc_no_panic. Qed.
Print Assumptions C17_proc_total.

(* ---- names and option values survive quoting and backslash escaping unchanged ---- *)
(* for every list of fields (tokens: any byte but NUL, escaped and wildcard asterisks), each
   written bare with backslashes, in single or in double quotes, separated by any blank runs *)
Theorem C17_fields_roundtrip : forall sl, sline_ok sl = true ->
  parse_fields (render_line sl) = PFOk (map (fun f => fvalue (f_toks f)) (sl_fields sl)) false.
Proof. exact fields_roundtrip. Qed.
Print Assumptions C17_fields_roundtrip.

(* ---- type/option combinations are accepted or refused as documented ---- *)
Theorem C17_options_by_type : forall ty name opts adding e,
  line_of_fields (ty :: name :: opts) = LRes adding true e ->
  memb ty doc_types = true /\
  Forall (fun o => exists k v, split2 c_eq o = (k, Some v) /\ doc_allowed ty k = true) opts.
Proof. exact options_by_type. Qed.
Print Assumptions C17_options_by_type.

(* ---- mod= values have the effect chmod(1) would have ---- *)
Theorem C17_mode_is_chmod : forall s a o, parse_mod s = Some (a, o) ->
  forall m, m < 4096 -> chmod_ref s m = Some (apply_perm a o m).
Proof. exact mode_is_chmod. Qed.
Print Assumptions C17_mode_is_chmod.

Theorem C17_simple_mode_accepted : forall s, simple_mode s = true -> parse_mod s <> None.
Proof. exact simple_mode_accepted. Qed.
Print Assumptions C17_simple_mode_accepted.

(* ---- uid/gid/dev values are range-checked ---- *)
Theorem C17_uint_is_decimal : forall max s v, parse_uint max s = Some v <-> (dec_of s = Some v /\ v <= max).
Proof. exact parse_uint_spec. Qed.
Print Assumptions C17_uint_is_decimal.

Theorem C17_uid_digits : forall s v, dec_of s = Some v ->
  parse_uid s = (if v <=? 2147483647 then Some (v, None) else None).
Proof. exact parse_uid_digits. Qed.
Print Assumptions C17_uid_digits.

Theorem C17_uid_range : forall s v1 v2, parse_uid s = Some (v1, v2) ->
  v1 <= 2147483647 /\ match v2 with Some w => w <= 2147483647 | None => True end.
Proof.
  intros s v1 [w|] H.
  - exact (parse_uid_pair_range s v1 w H).
  - split; [exact (parse_uid_single_range s v1 H)|exact I].
Qed.
Print Assumptions C17_uid_range.

Theorem C17_dev_range : forall s t mj mn, parse_dev s = Some (t, mj, mn) ->
  (t = 98 \/ t = 99) /\ mj <= 4294967295 /\ mn <= 4294967295.
Proof. exact parse_dev_range. Qed.
Print Assumptions C17_dev_range.

(* ---- every structured line: accepted with the documented meaning or rejected ---- *)
Theorem C17_line_spec : forall sl, sline_ok sl = true -> kf_line sl = 0 ->
  line_spec sl (parse_line (render_line sl)) = true.
Proof. exact line_spec_holds. Qed.
Print Assumptions C17_line_spec.

(* ---- a wildcard in the last path element expands to the matching entries, add and omit ---- *)
Theorem C17_gmatch_spec : forall p s, gmatch p s = true <-> gm p s.
Proof. exact gmatch_spec. Qed.
Print Assumptions C17_gmatch_spec.

(* omit: the matching entries are the MEMBERS of the list whose name matches the pattern as
   written (path.Match: a star stands for any run of bytes without a slash) *)
Theorem C17_pmatch_spec : forall p s, pmatch p s = true <-> gmp p s.
Proof. exact pmatch_spec. Qed.
Print Assumptions C17_pmatch_spec.

Theorem C17_wildcard_omit : forall t l e p, e_wild e = true -> gtokens (e_name e) = GPat p ->
  exists l', remove_files t l e = AOk l' /\
             forall x, In x (names l') <-> (In x (names l) /\ pmatch p x = false).
Proof. exact wildcard_omit. Qed.
Print Assumptions C17_wildcard_omit.

Theorem C17_wildcard_add : forall t l e ms, tree_ok t = true -> e_wild e = true -> e_source e = [] ->
  glob t (e_name e) = GOk ms ->
  let ms' := if e_ltype e =? V_FileType_dir then expand t ms else ms in
  ms' <> [] ->
  exists l', add_files t l e = AOk l' /\
             forall x, In x (names l') <-> (In x (names l) \/ In x ms').
Proof. exact wildcard_add. Qed.
Print Assumptions C17_wildcard_add.

(* round 6: a wildcard in the last element of src= (below the build root): exactly the matches of the
   source pattern (for type dir with everything below them) become members, each under the line's name
   at its path RELATIVE to the globbed source directory; the other members stay *)
Theorem C17_wildcard_src : forall t l e tail ms, tree_ok t = true ->
  stageroot_tail (e_source e) = Some tail ->
  existsb (fun c => Ascii.eqb c c_bsl) (fst (pathsplit (clean tail))) = false ->
  glob t tail = GOk ms ->
  let ms' := if e_ltype e =? V_FileType_dir then expand t ms else ms in
  let d := clean (fst (pathsplit (clean tail))) in
  let chop := if beq d [c_slash] then O else length d in
  ms' <> [] ->
  exists l', add_src_wild t l e = AOk l' /\
    forall x, In x (names l') <->
              (In x (names l) \/ exists m, In m ms' /\ x = clean (e_name e ++ c_slash :: skipn chop m)).
Proof. exact wildcard_src. Qed.
Print Assumptions C17_wildcard_src.

(* the whole script against the manual, on every well-formed build-root listing *)
Theorem C17_list_spec : forall t init its,
  tree_ok t = true -> forallb item_ok its = true -> no_kf its = true ->
  snd (run_list t [] init (map item_render its)) = false ->
  list_spec t init its (fst (run_list t [] init (map item_render its))) = true.
Proof. exact list_spec_holds. Qed.
Print Assumptions C17_list_spec.

(* ---- recipe files ---- *)
Theorem C17_recipe_reports : forall env cmd lines,
  existsb raw_bad lines = true -> list_system env cmd lines = RRRecipeErr.
Proof. exact recipe_reports. Qed.
Print Assumptions C17_recipe_reports.

Theorem C17_recipe_spec : forall env cmd its, forallb ritem_ok its = true ->
  recipe_spec env cmd its (list_system env cmd (map ritem_render its)) = true.
Proof. exact recipe_spec_holds. Qed.
Print Assumptions C17_recipe_spec.

Theorem C17_compress_spec : forall sw out recipe, Compress.gen_spec sw out recipe (gen_method sw out recipe) = true.
Proof. exact gen_spec_holds. Qed.
Print Assumptions C17_compress_spec.

(* ---- the scripts compiled into stagemaker are accepted (finite: 78 lines of package defaults) ---- *)
Theorem C17_builtin_scripts_accepted : forallb line_accepted builtin_lines = true.
Proof. exact builtin_scripts_accepted. Qed.
Print Assumptions C17_builtin_scripts_accepted.

(* ---- known finding 1 is real: a witness on which the property fails ---- *)
Theorem C17_refuted_1 : exists sl, sline_ok sl = true /\ kf_line sl = 1 /\
  line_spec sl (parse_line (render_line sl)) = false.
Proof. exact refuted_1. Qed.
Print Assumptions C17_refuted_1.

(* ---- the per-case statement evaluated on implementation output by the correspondence check ---- *)
Theorem C17_holds : forall c, C17.wf c = true -> C17.kf c = 0 -> C17.spec c (C17.model c) = true.
Proof. exact C17_holds_proof. Qed.
Print Assumptions C17_holds.

(* ---- the regenerated constants this property's predicate / model rest on, against literals.
   Gen/Consts.v is rewritten from the source of /repo on every run, so without this theorem an
   edit of one of these constants would move model, predicate and code together and nothing
   would be reported.  Used by: the documented method choice Compress.doc_gen (C17.spec) reads the extension table; C17.wf and Model/StageLine.v / StageWild.v use the chmod masks and the vdb type codes.
   "frozen" = no manual text gives the value; it is the value of the reviewed tree. *)
From LC Require Import Gen.Consts Proofs.C17PinsP.
Local Open Scope string_scope.
Theorem C17_constants_pinned :
  (* frozen from the reviewed tree (the manual: "the filename extension determines the file-compression mode", no list) *)
  D_GzipExtensions = bs ".tar.gz .tgz" /\
  (* frozen from the reviewed tree *)
  D_BzipExtensions = bs ".tar.bz2 .tbz2" /\
  (* frozen from the reviewed tree -- NO leading dot and no .txz, unlike the two rows above: see NOTES-r5.md "XzExtensions" (out.txz is not recognised, outtar.xz is) *)
  D_XzExtensions = bs "tar.xz" /\
  (* frozen from the reviewed tree *)
  D_NoCompressExtension = bs ".tar" /\
  (* chmod(1): u = 04700, g = 02070, o = 01007, a = 07777 (keys are the bytes u g o a) *)
  S_groupMasks = [(117, 2496); (103, 1080); (111, 519); (97, 4095)]%N /\
  (* chmod(1): r = 0444, w = 0222, x = 0111, s = 06000, t = 01000 *)
  S_settingMasks = [(114, 292); (119, 146); (120, 73); (115, 3072); (116, 512)]%N /\
  (* 07777 *)
  V_PermBits = 4095%N /\
  (* frozen from the reviewed tree (portage/vdb/contents.go iota block) *)
  V_FileType_none = 0%N /\
  (* frozen from the reviewed tree *)
  V_FileType_dir = 1%N /\
  (* frozen from the reviewed tree *)
  V_FileType_file = 2%N /\
  (* frozen from the reviewed tree *)
  V_FileType_symlink = 3%N /\
  (* frozen from the reviewed tree *)
  V_FileType_hardlink = 4%N /\
  (* frozen from the reviewed tree *)
  V_FileType_device = 5%N.
Proof. exact c17_constants_pinned. Qed.
Print Assumptions C17_constants_pinned.
