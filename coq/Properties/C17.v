(* C17 -- add-files and recipe lines mean what the manual says or are rejected.  Statements only. *)
From LC Require Import Lib.Bytes Model.StageLine Model.StageDoc Cases.C17.
