(* C18 -- configuration resolves by documented precedence for every file chain.  Statements only.
   [load] is the model of config.Load (Model/Config.v); [reference] is the documented resolution
   (Cases/C18.v); an [env] is switches + environment + working directory + file system. *)
From LC Require Import Lib.Bytes Lib.Fields Lib.PathM Gen.Consts Model.Config Proofs.PathP Proofs.ConfigP Proofs.C18P Cases.C18.
Import C18.

(* Load never hangs and never panics: for every file system, every chain shape (cycles, self
   loops, other spellings of a visited file) the CONFIGFILE loop ends within files+2 rounds *)
Theorem C18_load_terminates : forall e, load e <> OTimeout /\ load e <> OPanic.
Proof. exact load_total. Qed.
Print Assumptions C18_load_terminates.

(* every successful Load returns Basepath, Layerdirs and Exportdirs as clean absolute paths *)
Theorem C18_paths_clean_abs : forall e vals, load e = OOk vals ->
  is_clean_abs (nth 0 vals []) = true /\ is_clean_abs (nth 1 vals []) = true /\ is_clean_abs (nth 7 vals []) = true.
Proof. exact load_paths_clean_abs. Qed.
Print Assumptions C18_paths_clean_abs.

(* -basepath, else LAYERROOT, beats every configuration file, whatever the files contain *)
Theorem C18_base_override : forall e vals, load e = OOk vals ->
  (if isempty (sw_base e) then layerroot e else sw_base e) <> [] ->
  nth 0 vals [] = clean (if isempty (sw_base e) then layerroot e else sw_base e).
Proof. exact load_base_override. Qed.
Print Assumptions C18_base_override.

(* the reference resolution is total: its walk along CONFIGFILE never runs out of fuel *)
Theorem C18_reference_total : forall e, snd (ref_chain e (ref_fuel e) [] (ref_start e)) <> EndFuel.
Proof. exact ref_chain_top_total. Qed.
Print Assumptions C18_reference_total.

(* wherever the documentation determines the result, Load computes exactly it: first non-empty of
   switch, environment, the chain files in order, default; LAYERS / EXPORTS against the effective
   base path; loop, unknown key, unreadable file and "no absolute base path" as errors *)
Theorem C18_load_is_reference : forall e r, kf_env e = 0%N -> reference e = RRes r -> load e = r.
Proof. exact load_is_reference. Qed.
Print Assumptions C18_load_is_reference.

(* a chain that revisits a file -- under any spelling of its name -- is reported as a loop, and
   only such a chain; the same for unknown keys (EUnknown) and unreadable files (EIO) *)
Theorem C18_chain_error_iff : forall e x, kf_env e = 0%N -> in_scope e = true -> x <> ENoAbs ->
  (snd (ref_walk e) = EndErr x <-> load e = OErr x).
Proof. exact chain_error_iff. Qed.
Print Assumptions C18_chain_error_iff.

(* a line whose key is not a known one makes readConfigFile fail, whatever its value (also none) *)
Theorem C18_unknown_key_rejected : forall content raw,
  In raw (lines_of content) -> isempty (utrim raw) || is_comment (utrim raw) = false ->
  key_lookup CF_settingSetup (upper_key (utrim (fst (split2 (nb 61) (utrim raw))))) = None ->
  parse_file CF_settingSetup content = None.
Proof. exact unknown_key_rejected. Qed.
Print Assumptions C18_unknown_key_rejected.

(* path.Clean facts the resolution rests on *)
Theorem C18_clean_join_clean : forall b v, b <> [] -> is_rooted b = true -> v <> [] -> is_rooted v = false ->
  clean (b ++ sl :: clean v) = clean (b ++ sl :: v).
Proof. exact clean_join_clean. Qed.
Print Assumptions C18_clean_join_clean.

(* known finding 1 (documented spellings WORKDIR / UPPERDIR / CHROOTEXEC are rejected) *)
Theorem C18_refuted_1 : exists c, wf c = true /\ kf c = 1%N /\ spec c (model c) = false.
Proof. exact refuted_1. Qed.
Print Assumptions C18_refuted_1.

(* the per-case statement evaluated on implementation output by the correspondence check *)
Theorem C18_holds : forall c, wf c = true -> kf c = 0%N -> spec c (model c) = true.
Proof. exact C18_holds_proof. Qed.
Print Assumptions C18_holds.

(* carried to the binary (Model/Whole.v): whatever the configuration files in the file tree and
   the -config / -basepath switches say, the configuration the commands of cmd/layercake work
   with has clean absolute base, layers and exports directories *)
From LC Require Import Model.FsTree Model.Layers Model.Whole Proofs.WholeP.
Theorem C18_binary_cfg_clean : forall argv f c, loaded_cfg argv f = Some c ->
  is_clean_abs (c_base c) = true /\ is_clean_abs (c_layers c) = true /\ is_clean_abs (c_exports c) = true.
Proof. exact whole_cfg_clean. Qed.
Print Assumptions C18_binary_cfg_clean.

(* ---- the regenerated constants this property's predicate / model rest on, against literals.
   Gen/Consts.v is rewritten from the source of /repo on every run, so without this theorem an
   edit of one of these constants would move model, predicate and code together and nothing
   would be reported.  Used by: Model/Config.v runs on this table (C18.spec has its own table written from the manual, Cases/C18.v doc_keys / doc_default, so a changed default or key is a concrete failing input already; this theorem reports the edit even where no generated file reaches it).
   "frozen" = no manual text gives the value; it is the value of the reviewed tree. *)
From LC Require Import Gen.Consts Proofs.C18PinsP.
Local Open Scope string_scope.
Theorem C18_constants_pinned :
  (* doc/layercake_config.adoc "Default configuration" *)
  D_BasePath = bs "/var/lib/layercake" /\
  (* doc/layercake_config.adoc "Default configuration" *)
  D_Layerdirs = bs "layers" /\
  (* doc/layercake_config.adoc "Default configuration" *)
  D_Builddir = bs "build" /\
  (* doc/layercake_config.adoc "Default configuration" *)
  D_Pkgdir = bs "packages" /\
  (* doc/layercake_config.adoc "Default configuration" *)
  D_Generateddir = bs "generated" /\
  (* doc/layercake_config.adoc "Default configuration" (the manual page's LAYER DIRECTORY section says overlay/workdir: NOTES-r5.md) *)
  D_Workdir = bs "overlayfs/workdir" /\
  (* doc/layercake_config.adoc "Default configuration" *)
  D_Upperdir = bs "overlayfs/upperdir" /\
  (* doc/layercake_config.adoc "Default configuration" *)
  D_Exportdirs = bs "export" /\
  (* doc/layercake_config.adoc "Default configuration" *)
  D_ChrootExec = bs "/usr/bin/chroot" /\
  (* frozen from the reviewed tree *)
  CF_ss_value = 0%N /\
  (* frozen from the reviewed tree *)
  CF_ss_file = 1%N /\
  (* frozen from the reviewed tree *)
  CF_ss_dir = 2%N /\
  (* frozen from the reviewed tree (iota block) *)
  (CF_cfKey_none, CF_cfKey_basepath, CF_cfKey_configfile, CF_cfKey_layerdirs, CF_cfKey_buildroot, CF_cfKey_binpkgdir, CF_cfKey_gendir) = (0, 1, 2, 3, 4, 5, 6)%N /\
  (* frozen from the reviewed tree *)
  (CF_cfKey_workdir, CF_cfKey_upperdir, CF_cfKey_exportroot, CF_cfKey_exportpkgdir, CF_cfKey_exportgendir, CF_cfKey_chrootexec) = (7, 8, 9, 10, 11, 12)%N /\
  (* (key, kind: 0 value 1 file 2 directory, resolved against key, default, name in a configuration file): keys, kinds and defaults as in doc/layercake_config.adoc "Default configuration" and the manual page CONFIGURATION FILE; the spellings OVERFS_WORKDIR / OVERFS_UPPERDIR / CHROOT_EXEC differ from the manual's WORKDIR / UPPERDIR / CHROOTEXEC (known finding C18 id=1) *)
  CF_settingSetup = [
    (1, 2, 0, bs "/var/lib/layercake", bs "BASEPATH");
    (2, 1, 0, bs "", bs "CONFIGFILE");
    (3, 2, 1, bs "layers", bs "LAYERS");
    (4, 0, 0, bs "build", bs "BUILDROOT");
    (5, 0, 0, bs "packages", bs "BINPKGS");
    (6, 0, 0, bs "generated", bs "GENERATED_FILES");
    (7, 0, 0, bs "overlayfs/workdir", bs "OVERFS_WORKDIR");
    (8, 0, 0, bs "overlayfs/upperdir", bs "OVERFS_UPPERDIR");
    (9, 2, 1, bs "export", bs "EXPORTS");
    (10, 0, 0, bs "packages", bs "EXPORT_BINPKGS");
    (11, 0, 0, bs "generated", bs "EXPORT_GENERATED_FILES");
    (12, 1, 0, bs "/usr/bin/chroot", bs "CHROOT_EXEC")]%N.
Proof. exact c18_constants_pinned. Qed.
Print Assumptions C18_constants_pinned.
