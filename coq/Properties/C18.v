(* C18 -- configuration resolves by documented precedence.  Statements only. (provisional) *)
From LC Require Import Lib.Bytes Model.Config Cases.C18.

Theorem C18_merge_first_wins : forall t s k, merge t s k = if isempty (t k) then s k else t k.
Proof. reflexivity. Qed.
Print Assumptions C18_merge_first_wins.
