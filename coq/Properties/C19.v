(* C19 -- processes are attributed to the right layer and only that layer.  Statements only. *)
From LC Require Import Lib.Bytes Model.InUse Cases.C19.
