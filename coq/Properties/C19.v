(* C19 -- processes are attributed to the right layer and only that layer.  Statements only.

   Vocabulary (Model/InUse.v, Cases/C19.v):
   [find_layer_users d orc ps] is fs.FindLayerUsers on the layers directory d, a /proc snapshot
   ps (entries in readdir order: name, is-directory, exe/cwd/root link, fd links) and an oracle
   orc that may fail any single system call of the scan (entry index, call site) with an errno --
   a process that vanishes, or is inaccessible, while the scan runs.  [links p] are the true
   links of an entry, [is_process p] = numeric directory, [inside D t = Some tl] = "t is D or
   D/tl", [uses D p] the (pid, kind, relative path) triples of p's links inside D. *)
From LC Require Import Lib.Bytes Lib.Lex Lib.Fields Model.InUse Cases.C19 Proofs.InUseP Proofs.C19P.
Import C19.

(* isLinkToLayer: a link target is attributed to layer K with relative path tl exactly when K is
   one path component and the target is layers/K (tl empty) or layers/K/tl *)
Theorem C19_link_to_layer_spec : forall d t K tl,
  link_to_layer (d ++ [slc]) t = Some (Some (K, tl))
  <-> no_slash K = true /\ inside (d ++ slc :: K) t = Some tl.
Proof. exact link_to_layer_spec. Qed.
Print Assumptions C19_link_to_layer_spec.

(* attribution_iff: on an undisturbed scan, (pid, kind, tl) is reported for K iff that link of
   that process equals layers/K or starts with layers/K/, tl being the remainder -- for every
   snapshot, every set of names, any depth *)
Theorem C19_attribution_iff : forall d ps K pid k tl, wf_layersdir d = true -> no_slash K = true ->
  exists m, find_layer_users d no_faults ps = SOk m /\
   (In (pid, k, tl) (map proj (get m K))
    <-> exists p t, In p ps /\ is_process p = true /\ pid = pid_of (p_name p) /\ In (k, t) (links p)
          /\ ((t = d ++ slc :: K /\ tl = []) \/ t = (d ++ slc :: K) ++ slc :: tl)).
Proof. exact attribution_iff. Qed.
Print Assumptions C19_attribution_iff.

(* the same as an equation: the list reported for K is, in scan order, the uses of layers/K *)
Theorem C19_attribution_exact : forall d ps K, wf_layersdir d = true -> no_slash K = true ->
  exists m, find_layer_users d no_faults ps = SOk m
    /\ map proj (get m K) = flat_map (uses (d ++ slc :: K)) ps.
Proof. exact attribution_exact. Qed.
Print Assumptions C19_attribution_exact.

(* "only that layer", under every oracle: whatever is reported for K is a link of a process of the
   snapshot that really lies inside layers/K, with the right kind and relative path *)
Theorem C19_reported_only_if_inside : forall d orc ps m K x, wf_layersdir d = true -> no_slash K = true ->
  find_layer_users d orc ps = SOk m -> In x (map proj (get m K)) ->
  exists p, In p ps /\ In x (uses (d ++ slc :: K) p).
Proof. exact reported_only_if_inside. Qed.
Print Assumptions C19_reported_only_if_inside.

(* no_prefix_confusion: a directory whose name merely extends K (K~removed, Kx, K (deleted) ...)
   is not inside K ... *)
Theorem C19_no_prefix_confusion : forall d K s t a, no_slash (K ++ s) = true -> s <> [] ->
  inside (d ++ slc :: K ++ s) t = Some a -> inside (d ++ slc :: K) t = None.
Proof. exact no_prefix_confusion. Qed.
Print Assumptions C19_no_prefix_confusion.

(* ... and a link lies inside at most one layer directory *)
Theorem C19_inside_unique_layer : forall d t K K' a b, no_slash K = true -> no_slash K' = true ->
  inside (d ++ slc :: K) t = Some a -> inside (d ++ slc :: K') t = Some b -> K = K' /\ a = b.
Proof. exact inside_unique_layer. Qed.
Print Assumptions C19_inside_unique_layer.

(* so a layer none of whose directories holds a link is reported unused, under every oracle *)
Theorem C19_never_reported_for_prefix : forall d orc ps m K, wf_layersdir d = true -> no_slash K = true ->
  find_layer_users d orc ps = SOk m ->
  (forall p k t, In p ps -> In (k, t) (links p) -> inside (d ++ slc :: K) t = None) ->
  get m K = [].
Proof. exact never_reported_for_prefix. Qed.
Print Assumptions C19_never_reported_for_prefix.

(* frame: the entries of /proc none of whose links starts with layers/ -- every other process of
   the host -- do not change what is reported for any layer (this is what allows the live runs
   of the correspondence check to hand the model only the related processes) *)
Theorem C19_unrelated_irrelevant : forall d ps K, wf_layersdir d = true -> no_slash K = true ->
  exists m m', find_layer_users d no_faults ps = SOk m
    /\ find_layer_users d no_faults (filter (related d) ps) = SOk m'
    /\ map proj (get m K) = map proj (get m' K).
Proof. exact unrelated_irrelevant. Qed.
Print Assumptions C19_unrelated_irrelevant.

(* classification: MountBusy iff some user's path is at or below the build, work or upper
   directory; Chroot iff some user is a root link; any user makes the layer busy in one of the
   two ways; no user, no flag *)
Theorem C19_classification : forall dirs us, forallb wf_dir dirs = true -> dirs <> [] ->
  exists f, classify dirs us = Some f
    /\ (fl_mb f = true <-> exists u d, In u us /\ In d dirs /\ inside d (u_file u) <> None)
    /\ (fl_chroot f = true <-> exists u, In u us /\ u_kind u = K_root)
    /\ (us <> [] -> fl_mb f || fl_nmb f = true)
    /\ (us = [] -> f = no_flags).
Proof. exact classification. Qed.
Print Assumptions C19_classification.

(* scan_survives_vanish: whatever processes vanish at whatever call, as long as the kernel
   answers as it does for an exited task (C19.vanish_ok), the scan succeeds.  No restriction to
   "unrelated" processes is needed *)
Theorem C19_scan_survives_vanish : forall d orc ps, wf_layersdir d = true ->
  (forall i r e, orc i r = Some e -> vanish_ok r e = true) ->
  exists m, find_layer_users d orc ps = SOk m.
Proof. exact scan_survives_vanish. Qed.
Print Assumptions C19_scan_survives_vanish.

(* the only ways the scan can fail at all, and it never panics *)
Theorem C19_scan_fails_only_if : forall d orc ps, wf_layersdir d = true ->
  find_layer_users d orc ps <> SPanic /\
  (find_layer_users d orc ps = SErr ->
    (exists e, orc 0%nat RTopOpen = Some e) \/ (exists e, orc 0%nat RTopReaddir = Some e)
    \/ (exists j e, orc j RLstat = Some e /\ e <> ENOENT)
    \/ (exists j e, orc j RExe = Some e /\ e <> ENOENT /\ e <> EACCES /\ e <> ESRCH)).
Proof. exact scan_fails_only_if. Qed.
Print Assumptions C19_scan_fails_only_if.

(* manage.DescribeUsers: one row per process id (never two), a row for every process id >= 1
   among the entries; the row says "chroot" iff that process has a root entry, else "in layer
   directory" iff it has a cwd entry, else "opened files"; the directory shown is that of a cwd
   entry of the process; the files listed are its open entries, sorted *)
Theorem C19_describe_rows : forall us r, In r (describe us) ->
  let g := grp (usort us) (r_pid r) in
  (1 <= r_pid r)%N /\ g <> []
  /\ r_mode r = (if existsb (fun u => (u_kind u =? K_root)%N) g then 1
                 else if existsb (fun u => (u_kind u =? K_cwd)%N) g then 2 else 3)%N
  /\ r_cwd r = g_cwd g []
  /\ r_files r = Lex.sort (g_files g).
Proof. exact describe_rows. Qed.
Print Assumptions C19_describe_rows.

Theorem C19_describe_one_row_per_process : forall us,
  NoDup (map r_pid (describe us))
  /\ forall u, In u us -> (1 <= u_pid u)%N -> exists r, In r (describe us) /\ r_pid r = u_pid u.
Proof. intros us. split; [apply describe_nodup|apply describe_complete]. Qed.
Print Assumptions C19_describe_one_row_per_process.

(* the per-case statement evaluated on implementation output by the correspondence check *)
Theorem C19_holds : forall c, C19.wf c = true -> C19.kf c = 0%N -> C19.spec c (C19.model c) = true.
Proof. exact C19_holds_proof. Qed.
Print Assumptions C19_holds.
