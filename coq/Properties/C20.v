(* C20 -- concurrent layercake invocations leave a serially explainable mount table.
   Statements only.  The machine is Model/Conc.v; [run_final]/[run_trace] project the result of
   [run_sched]; [run_events], [stack_event], [serial_of_picks], [pm_code], [mshape], [targets],
   [exposed] are defined in Proofs/ConcP.v, the witnesses in Proofs/C20P.v. *)
From LC Require Import Lib.Bytes Lib.Lex Model.FsTree Model.Layers Model.Conc Cases.C20 Proofs.ConcP Proofs.C20P
  Proofs.C20LaterP.

(* (a) the property is false: known finding 1 (two stacked mounts) ... *)
Theorem C20_refuted_1 : C20.wf witness1 = true /\ C20.kf witness1 = 1%N /\
  C20.spec witness1 (C20.o_final (C20.model witness1)) = false.
Proof. exact refuted_1. Qed.
Print Assumptions C20_refuted_1.

(* ... and known finding 2 (a mount and an umount truly interleave) *)
Theorem C20_refuted_2 : C20.wf witness2 = true /\ C20.kf witness2 = 2%N /\
  C20.spec witness2 (C20.o_final (C20.model witness2)) = false.
Proof. exact refuted_2. Qed.
Print Assumptions C20_refuted_2.

(* [run_sched] runs both invocations to completion under every schedule (its fuel suffices) *)
Theorem C20_run_completes : forall s k ca cb,
  finished (snd (fst (fst (run_sched s k ca cb)))) && finished (snd (fst (run_sched s k ca cb))) = true.
Proof. exact run_completes. Qed.
Print Assumptions C20_run_completes.

(* (b) the instrumented run ([run_events], Proofs/ConcP.v) carries per process the table as it
   last read it ([se_seen]; None = not read yet) and the mount(2) calls (who, target) made by
   either process since that read ([se_since]); it records an event for exactly the mounts that
   [tr_stacked] flags ... *)
Theorem C20_stack_events_faithful : forall s k ca cb,
  tr_stacked (run_trace (run_sched s k ca cb)) = negb (match run_events s k ca cb with [] => true | _ => false end).
Proof. exact run_events_stacked. Qed.
Print Assumptions C20_stack_events_faithful.

(* ... and in every run (any schedule, any two codes, any initial table) a mount(2) that lands
   on a mounted mountpoint was decided on a table read that did not show it, and a mount(2) of
   that mountpoint has been made after that read *)
Theorem C20_stack_only_if_stale : forall s k ca cb e, In e (run_events s k ca cb) ->
  mem_path (se_target e) (se_table e) = true /\
  forall kr, se_seen e = Some kr ->
    mem_path (se_target e) kr = false /\ exists w, In (w, se_target e) (se_since e).
Proof. exact stack_only_if_stale. Qed.
Print Assumptions C20_stack_only_if_stale.

(* when no code names a mount target twice, that mount was made by the OTHER process *)
Theorem C20_stack_only_if_stale_other : forall s k ca cb e,
  NoDup (targets ca) -> NoDup (targets cb) -> In e (run_events s k ca cb) ->
  forall kr, se_seen e = Some kr ->
    mem_path (se_target e) (se_table e) = true /\ mem_path (se_target e) kr = false /\
    In (negb (se_first e), se_target e) (se_since e).
Proof. exact stack_only_if_stale_other. Qed.
Print Assumptions C20_stack_only_if_stale_other.

(* when both codes start by reading the table, there always is such a last read *)
Theorem C20_stack_only_if_stale_read : forall s k ca cb e,
  In e (run_events s k (IProbe :: ca) (IProbe :: cb)) -> exists kr, se_seen e = Some kr.
Proof. exact stack_only_if_stale_read. Qed.
Print Assumptions C20_stack_only_if_stale_read.

(* (c) serial picks: the final table is that of the serial run in the order of the picks *)
Theorem C20_serial_picks_serial : forall s k ca cb,
  serial_picks (tr_picks (run_trace (run_sched s k ca cb))) = true ->
  ktab_eq (run_final (run_sched s k ca cb))
          (match tr_picks (run_trace (run_sched s k ca cb)) with
           | false :: _ => serial_ab k cb ca
           | _ => serial_ab k ca cb
           end) = true.
Proof. exact serial_picks_serial. Qed.
Print Assumptions C20_serial_picks_serial.

(* (d) mount/mount: no stacking implies the outcome of either serial order *)
Theorem C20_mount_mount_no_stack_serial : forall s k ca cb,
  pm_code (IProbe :: ca) = true -> pm_code (IProbe :: cb) = true ->
  NoDup k -> NoDup (targets (IProbe :: ca)) -> NoDup (targets (IProbe :: cb)) ->
  tr_stacked (run_trace (run_sched s k (IProbe :: ca) (IProbe :: cb))) = false ->
  ktab_eq (run_final (run_sched s k (IProbe :: ca) (IProbe :: cb))) (serial_ab k (IProbe :: ca) (IProbe :: cb)) = true /\
  ktab_eq (run_final (run_sched s k (IProbe :: ca) (IProbe :: cb))) (serial_ab k (IProbe :: cb) (IProbe :: ca)) = true.
Proof. exact mount_mount_no_stack_serial. Qed.
Print Assumptions C20_mount_mount_no_stack_serial.

(* the same for codes that may also give up (IFail), decided on a fresh read at the start *)
Theorem C20_mount_mount_no_stack_serial_gen : forall s k ca cb,
  mshape ca = true -> mshape cb = true -> exposed ca = [] -> exposed cb = [] ->
  NoDup k -> NoDup (targets ca) -> NoDup (targets cb) ->
  tr_stacked (run_trace (run_sched s k ca cb)) = false ->
  ktab_eq (run_final (run_sched s k ca cb)) (serial_ab k ca cb) = true /\
  ktab_eq (run_final (run_sched s k ca cb)) (serial_ab k cb ca) = true.
Proof. exact mount_mount_no_stack_serial_gen. Qed.
Print Assumptions C20_mount_mount_no_stack_serial_gen.

(* (e) the per-case statement evaluated on implementation output by the correspondence check *)
Theorem C20_holds : forall c, C20.wf c = true -> C20.kf c = 0%N ->
  C20.spec c (C20.o_final (C20.model c)) = true.
Proof. exact C20_holds_proof. Qed.
Print Assumptions C20_holds.

(* (f) "... so one later umount fully unmounts the layer".  [later_umount_all] /
   [later_umount_layer] (Model/Conc.v) are the later, undisturbed umount on a freshly read table:
   its mount lines (all of them / those at or below the build directory) deepest first, one
   umount(2) each, the first failure ends the command.  [ncov k] (Proofs/C20LaterP.v): no line of
   the table has a LATER line mounted on one of its ancestor directories, i.e. no mountpoint is
   hidden (Model/Conc.v: hidden_abs = Model/Kernel.v: hidden_at; round 5).  For every such table
   without a stacked mountpoint nothing is left ... *)
Theorem C20_later_umount_all_empties : forall k, has_dup k = false -> ncov k = true -> later_umount_all k = [].
Proof. exact later_umount_all_empties. Qed.
Print Assumptions C20_later_umount_all_empties.

(* ... the umount of one layer leaves nothing at or below its build directory and does not touch
   (or reorder) any other entry ... *)
Theorem C20_later_umount_layer_clears : forall bld k, has_dup k = false -> ncov k = true ->
  filter (at_or_below bld) (later_umount_layer bld k) = [] /\
  filter (fun q => negb (at_or_below bld q)) (later_umount_layer bld k) = filter (fun q => negb (at_or_below bld q)) k.
Proof. exact later_umount_layer_clears. Qed.
Print Assumptions C20_later_umount_layer_clears.

(* ... and the clause [later_ok] of the case predicate holds of the machine's later umount *)
Theorem C20_later_ok_model : forall k, ncov k = true -> C20.later_ok k (later_umount_all k) = true.
Proof. exact later_ok_model. Qed.
Print Assumptions C20_later_ok_model.

(* The hypothesis [has_dup k = false] is not used: the command lists EVERY mount line (a stacked
   mountpoint twice, fs.Mounts.GetMountAndSubmounts), so both mounts of a stacked mountpoint are
   removed as well.  The same two statements for all tables without a covered line: *)
Theorem C20_later_umount_all_empties_any : forall k, ncov k = true -> later_umount_all k = [].
Proof. exact later_umount_all_empties_any. Qed.
Print Assumptions C20_later_umount_all_empties_any.

Theorem C20_later_umount_layer_clears_any : forall bld k, ncov k = true ->
  filter (at_or_below bld) (later_umount_layer bld k) = [] /\
  filter (fun q => negb (at_or_below bld q)) (later_umount_layer bld k) = filter (fun q => negb (at_or_below bld q)) k.
Proof. exact later_umount_layer_clears_any. Qed.
Print Assumptions C20_later_umount_layer_clears_any.

(* [ncov] is needed: with a covered line the deepest-first order calls umount(2) on the hidden
   mountpoint first, the call fails and everything stays (known finding 1 of C03); the clause
   [later_ok] is then false of the machine *)
Theorem C20_later_covered_not_cleared : exists k, has_dup k = false /\ ncov k = false /\ later_umount_all k = k
  /\ C20.later_ok k (later_umount_all k) = false.
Proof. exact covered_not_cleared_ex. Qed.
Print Assumptions C20_later_covered_not_cleared.

(* So "a stacked mountpoint survives the later umount" is false of this machine (witness: the
   stacked final table of the known-finding run witness1) ... *)
Theorem C20_later_stacked_also_cleared : exists k, has_dup k = true /\ later_umount_all k = [].
Proof. exact stacked_also_cleared. Qed.
Print Assumptions C20_later_stacked_also_cleared.

(* ... what absence of stacking decides is whether ONE umount(2) per distinct mountpoint
   ([umount_once_each], Proofs/C20LaterP.v: the same sequence over the table with one line kept
   per mountpoint) suffices: it does exactly when no mountpoint is stacked *)
Theorem C20_later_once_each_iff : forall k, ncov k = true -> (umount_once_each k = [] <-> has_dup k = false).
Proof. exact once_each_iff. Qed.
Print Assumptions C20_later_once_each_iff.

(* ---- the regenerated constants this property's predicate / model rest on, against literals.
   Gen/Consts.v is rewritten from the source of /repo on every run, so without this theorem an
   edit of one of these constants would move model, predicate and code together and nothing
   would be reported.  Used by: the predicate C20.spec / wf / kf read layers from disk through Model/Layers.v (layerconfig_path).
   "frozen" = no manual text gives the value; it is the value of the reviewed tree. *)
From LC Require Import Gen.Consts Proofs.C20PinsP.
Local Open Scope string_scope.
Theorem C20_constants_pinned :
  (* doc/layercake_directories.adoc, manual page LAYER DIRECTORY: "layerconfig" *)
  D_LayerconfigFile = bs "layerconfig".
Proof. exact c20_constants_pinned. Qed.
Print Assumptions C20_constants_pinned.
