(* C20 -- concurrent layercake invocations leave a serially explainable mount table.
   Statements only.  The machine is Model/Conc.v; [run_final]/[run_trace] project the result of
   [run_sched]; [run_events], [stack_event], [serial_of_picks], [pm_code], [mshape], [targets],
   [exposed] are defined in Proofs/ConcP.v, the witnesses in Proofs/C20P.v. *)
From LC Require Import Lib.Bytes Lib.Lex Model.Layers Model.Conc Cases.C20 Proofs.ConcP Proofs.C20P.

(* (a) the property is false: known finding 1 (two stacked mounts) ... *)
Theorem C20_refuted_1 : C20.wf witness1 = true /\ C20.kf witness1 = 1%N /\
  C20.spec witness1 (C20.o_final (C20.model witness1)) = false.
Proof. exact refuted_1. Qed.
Print Assumptions C20_refuted_1.

(* ... and known finding 2 (a mount and an umount truly interleave) *)
Theorem C20_refuted_2 : C20.wf witness2 = true /\ C20.kf witness2 = 2%N /\
  C20.spec witness2 (C20.o_final (C20.model witness2)) = false.
Proof. exact refuted_2. Qed.
Print Assumptions C20_refuted_2.

(* [run_sched] runs both invocations to completion under every schedule (its fuel suffices) *)
Theorem C20_run_completes : forall s k ca cb,
  finished (snd (fst (fst (run_sched s k ca cb)))) && finished (snd (fst (run_sched s k ca cb))) = true.
Proof. exact run_completes. Qed.
Print Assumptions C20_run_completes.

(* (b) the instrumented run ([run_events], Proofs/ConcP.v) carries per process the table as it
   last read it ([se_seen]; None = not read yet) and the mount(2) calls (who, target) made by
   either process since that read ([se_since]); it records an event for exactly the mounts that
   [tr_stacked] flags ... *)
Theorem C20_stack_events_faithful : forall s k ca cb,
  tr_stacked (run_trace (run_sched s k ca cb)) = negb (match run_events s k ca cb with [] => true | _ => false end).
Proof. exact run_events_stacked. Qed.
Print Assumptions C20_stack_events_faithful.

(* ... and in every run (any schedule, any two codes, any initial table) a mount(2) that lands
   on a mounted mountpoint was decided on a table read that did not show it, and a mount(2) of
   that mountpoint has been made after that read *)
Theorem C20_stack_only_if_stale : forall s k ca cb e, In e (run_events s k ca cb) ->
  mem_path (se_target e) (se_table e) = true /\
  forall kr, se_seen e = Some kr ->
    mem_path (se_target e) kr = false /\ exists w, In (w, se_target e) (se_since e).
Proof. exact stack_only_if_stale. Qed.
Print Assumptions C20_stack_only_if_stale.

(* when no code names a mount target twice, that mount was made by the OTHER process *)
Theorem C20_stack_only_if_stale_other : forall s k ca cb e,
  NoDup (targets ca) -> NoDup (targets cb) -> In e (run_events s k ca cb) ->
  forall kr, se_seen e = Some kr ->
    mem_path (se_target e) (se_table e) = true /\ mem_path (se_target e) kr = false /\
    In (negb (se_first e), se_target e) (se_since e).
Proof. exact stack_only_if_stale_other. Qed.
Print Assumptions C20_stack_only_if_stale_other.

(* when both codes start by reading the table, there always is such a last read *)
Theorem C20_stack_only_if_stale_read : forall s k ca cb e,
  In e (run_events s k (IProbe :: ca) (IProbe :: cb)) -> exists kr, se_seen e = Some kr.
Proof. exact stack_only_if_stale_read. Qed.
Print Assumptions C20_stack_only_if_stale_read.

(* (c) serial picks: the final table is that of the serial run in the order of the picks *)
Theorem C20_serial_picks_serial : forall s k ca cb,
  serial_picks (tr_picks (run_trace (run_sched s k ca cb))) = true ->
  ktab_eq (run_final (run_sched s k ca cb))
          (match tr_picks (run_trace (run_sched s k ca cb)) with
           | false :: _ => serial_ab k cb ca
           | _ => serial_ab k ca cb
           end) = true.
Proof. exact serial_picks_serial. Qed.
Print Assumptions C20_serial_picks_serial.

(* (d) mount/mount: no stacking implies the outcome of either serial order *)
Theorem C20_mount_mount_no_stack_serial : forall s k ca cb,
  pm_code (IProbe :: ca) = true -> pm_code (IProbe :: cb) = true ->
  NoDup k -> NoDup (targets (IProbe :: ca)) -> NoDup (targets (IProbe :: cb)) ->
  tr_stacked (run_trace (run_sched s k (IProbe :: ca) (IProbe :: cb))) = false ->
  ktab_eq (run_final (run_sched s k (IProbe :: ca) (IProbe :: cb))) (serial_ab k (IProbe :: ca) (IProbe :: cb)) = true /\
  ktab_eq (run_final (run_sched s k (IProbe :: ca) (IProbe :: cb))) (serial_ab k (IProbe :: cb) (IProbe :: ca)) = true.
Proof. exact mount_mount_no_stack_serial. Qed.
Print Assumptions C20_mount_mount_no_stack_serial.

(* the same for codes that may also give up (IFail), decided on a fresh read at the start *)
Theorem C20_mount_mount_no_stack_serial_gen : forall s k ca cb,
  mshape ca = true -> mshape cb = true -> exposed ca = [] -> exposed cb = [] ->
  NoDup k -> NoDup (targets ca) -> NoDup (targets cb) ->
  tr_stacked (run_trace (run_sched s k ca cb)) = false ->
  ktab_eq (run_final (run_sched s k ca cb)) (serial_ab k ca cb) = true /\
  ktab_eq (run_final (run_sched s k ca cb)) (serial_ab k cb ca) = true.
Proof. exact mount_mount_no_stack_serial_gen. Qed.
Print Assumptions C20_mount_mount_no_stack_serial_gen.

(* (e) the per-case statement evaluated on implementation output by the correspondence check *)
Theorem C20_holds : forall c, C20.wf c = true -> C20.kf c = 0%N ->
  C20.spec c (C20.o_final (C20.model c)) = true.
Proof. exact C20_holds_proof. Qed.
Print Assumptions C20_holds.
