// Package c02: histories of structural commands (property C02).
package c02

import (
	"encoding/json"
	"fmt"
	"strings"

	"lcverif/common"
	"lcverif/lcw"
	"lcverif/rng"
)

func init() {
	common.Register("c02", common.Prop{
		Generate: func(r common.Rand, tier string, n int, emit func(*common.Case)) {
			Generate(rng.New(r.U64()), tier, n, emit)
		},
		Replay: Replay,
	})
}

func genCmd(r *rng.R, names []string) lcw.Cmd {
	pick := func() string {
		if len(names) > 0 && r.Chance(3, 4) {
			return names[r.Intn(len(names))]
		}
		return lcw.PickName(r)
	}
	switch r.Intn(12) {
	case 0, 1, 2:
		c := lcw.Cmd{Kind: "add", A: lcw.PickName(r)}
		if r.Chance(2, 3) {
			c.B = pick()
		}
		if r.Chance(1, 8) {
			c.C = r.Pick([]string{"default_layerconfig", "nosuchfile", "default_layerconfig.skel"})
		}
		return c
	case 3, 4:
		return lcw.Cmd{Kind: "rename", A: pick(), B: lcw.PickName(r)}
	case 5, 6, 7:
		c := lcw.Cmd{Kind: "rebase", A: pick()}
		if r.Chance(4, 5) {
			c.B = pick()
		}
		return c
	case 8, 9:
		return lcw.Cmd{Kind: "remove", A: pick(), Flag: r.Chance(1, 3)}
	case 10:
		return lcw.Cmd{Kind: "mkdirs", A: pick()}
	}
	return lcw.Cmd{Kind: "list"}
}

func Generate(r *rng.R, tier string, n int, emit func(*common.Case)) {
	for i := 0; i < n && !lcw.Diverged; i++ {
		sub := r.U64()
		cr := rng.New(sub)
		// every sixth case or so: a history around `add -configfile` (r5_c02.go); drawn from a fork of
		// the case seed so that the other cases stay what they were
		// one history in four is executed by the real binary cmd/layercake (lcw/cli.go)
		cli := 0
		if xr := rng.New(sub ^ 0xc11c11c11); xr.Chance(1, 4) {
			cli = 1 + xr.Intn(6)
		}
		if tr := rng.New(sub ^ 0x5c02); tr.Chance(1, 6) {
			th := templateHistory(tr)
			th.CLI = cli
			c, err := run(th)
			if err != nil {
				panic(err)
			}
			c.Sub = sub
			emit(c)
			continue
		}
		var in lcw.Input
		if cr.Chance(1, 6) {
			ws := lcw.WorldSpec{BaseName: "b", NoSkeleton: true, HostLayout: "plain"}
			in = lcw.BuildInput(ws)
			in.FS = in.FS[:1] // just the base directory
			in.Steps = append(in.Steps, lcw.StepIn{Cmd: lcw.Cmd{Kind: "init"}})
		} else {
			in = lcw.BuildInput(lcw.GenWorld(cr, 6, cr.Chance(3, 4)))
		}
		names := []string{}
		for _, e := range in.FS {
			p := string(e.Path)
			if e.Kind == "d" && strings.HasPrefix(p, in.Cfg.Layers+"/") && !strings.Contains(p[len(in.Cfg.Layers)+1:], "/") {
				names = append(names, p[len(in.Cfg.Layers)+1:])
			}
		}
		// a parent whose name is the beginning of a sibling's ("dev", "dev-x"): aim at it
		for _, n := range names {
			if i := strings.LastIndexByte(n, '-'); i > 0 && cr.Chance(2, 3) {
				p := n[:i]
				for _, m := range names {
					if m == p {
						switch cr.Intn(3) {
						case 0:
							in.Steps = append(in.Steps, lcw.StepIn{Cmd: lcw.Cmd{Kind: "remove", A: p, Flag: cr.Bool()}})
						case 1:
							in.Steps = append(in.Steps, lcw.StepIn{Cmd: lcw.Cmd{Kind: "rename", A: p, B: "renamedp"}})
							names = append(names, "renamedp")
						default:
							in.Steps = append(in.Steps, lcw.StepIn{Cmd: lcw.Cmd{Kind: "rebase", A: p, B: names[cr.Intn(len(names))]}})
						}
						break
					}
				}
				break
			}
		}
		for k := 1 + cr.Heavy(7); k > 0; k-- {
			c := genCmd(cr, names)
			if c.Kind == "add" || c.Kind == "rename" {
				nn := c.A
				if c.Kind == "rename" {
					nn = c.B
				}
				names = append(names, nn)
			}
			in.Steps = append(in.Steps, lcw.StepIn{Cmd: c})
		}
		// "... so the installation can always be listed": every history ends with a listing
		if k := len(in.Steps); k == 0 || in.Steps[k-1].Cmd.Kind != "list" {
			in.Steps = append(in.Steps, lcw.StepIn{Cmd: lcw.Cmd{Kind: "list"}})
		}
		in.CLI = cli
		c, err := run(in)
		if err != nil {
			panic(err)
		}
		c.Sub = sub
		emit(c)
	}
}

func run(in lcw.Input) (*common.Case, error) {
	c, obs, err := lcw.RunCase(in)
	if err != nil {
		return nil, err
	}
	c.Classes = lcw.Classes(in, obs)
	raw, _ := json.Marshal(in)
	c.Key = string(raw)
	for i, o := range obs {
		k := in.Steps[i].Cmd.Kind
		if k != "list" && k != "probe" && (len(o.Upsert) > 0 || len(o.Removed) > 0 || o.Res == "fail") {
			c.Nontrivial = true
		}
	}
	_ = fmt.Sprint
	return c, nil
}

func Replay(raw json.RawMessage) (*common.Case, error) {
	var in lcw.Input
	if err := json.Unmarshal(raw, &in); err != nil {
		return nil, err
	}
	return run(in)
}
