package c02

// Histories around `add -configfile <file>`: the new layer is created from a layer-configuration
// file that is NOT the default skeleton -- the layerconfig of a layer that was removed earlier
// (`<name>~removed/layerconfig`), the layerconfig of another live layer, a template somebody wrote
// by hand -- and that file may carry a `base` line naming a layer that exists, has been removed or
// renamed since, never existed, is the new layer itself, or is no legal name at all.  AddLayer takes
// the import/export lines of such a file and nothing else; the parent of the new layer is what the
// command line says.  Every history ends with a listing.

import (
	"fmt"
	"strings"

	"lcverif/lcw"
	"lcverif/rng"
)

var tmplNames = []string{"tp", "p1", "kid", "c", "n3", "work", "w-1", "dev_2", "Q", "voilà", "Жук", "stage-4", "k9", "old_gcc", "t", "mm"}

func cmdStep(c lcw.Cmd) lcw.StepIn { return lcw.StepIn{Cmd: c} }

// templateText writes a layer-configuration file by hand: import/export lines as a layerconfig has
// them, comments, odd spacing, and (mostly) a base line for `base` somewhere in it.
func templateText(r *rng.R, cfg lcw.Cfg, base string) string {
	var lines []string
	for _, m := range lcw.GenImports(r, cfg, r.Chance(1, 3)) {
		if r.Chance(1, 5) {
			lines = append(lines, fmt.Sprintf("import   %s\t%s   %s", m.Fstype, m.Source, m.Mount))
		} else {
			lines = append(lines, fmt.Sprintf("import %s %s %s", m.Fstype, m.Source, m.Mount))
		}
	}
	if r.Chance(1, 3) {
		lines = append(lines, "", "export symlink /var/cache/binpkgs $$package_export")
		if r.Chance(1, 2) {
			lines = append(lines, "export symlink /out $$file_export")
		}
	}
	if base != "" {
		bl := "base " + base
		switch r.Intn(5) {
		case 0:
			bl = "  base\t" + base + "  \r"
		case 1:
			bl = "base " + base + " trailing words"
		}
		pos := 0 // where WriteLayerfile puts it
		if r.Chance(1, 3) {
			pos = r.Intn(len(lines) + 1)
		}
		lines = append(lines[:pos], append([]string{bl, ""}, lines[pos:]...)...)
		if r.Chance(1, 8) { // said twice: the same again is accepted, another one is an error
			lines = append(lines, "base "+r.Pick([]string{base, base, "another"}))
		}
	}
	if r.Chance(1, 4) {
		lines = append([]string{"# template kept from an earlier installation", "// " + r.Pick([]string{"base ghost", "do not edit"})}, lines...)
	}
	if r.Chance(1, 12) {
		lines = append(lines, "bogus keyword")
	}
	text := strings.Join(lines, "\n")
	if r.Chance(4, 5) {
		text += "\n"
	}
	return text
}

func templateHistory(r *rng.R) lcw.Input {
	var ws lcw.WorldSpec
	if r.Chance(1, 3) { // an installation without layers so far
		ws = lcw.WorldSpec{BaseName: r.Pick([]string{"b", "b", "lc root"}), HostLayout: "plain"}
	} else {
		ws = lcw.GenWorld(r, 4, r.Chance(5, 6))
	}
	cfg := lcw.StdCfg(ws.BaseName)
	used := map[string]bool{}
	live := []string{} // names believed to be layers now
	for _, l := range ws.Layers {
		used[l.Name] = true
		live = append(live, l.Name)
	}
	fresh := func() string {
		for i := 0; i < 40; i++ {
			n := r.Pick(tmplNames)
			if !used[n] {
				used[n] = true
				return n
			}
		}
		n := fmt.Sprintf("n%d", 100+len(used))
		used[n] = true
		return n
	}
	drop := func(n string) {
		for i, x := range live {
			if x == n {
				live = append(live[:i], live[i+1:]...)
				return
			}
		}
	}
	var steps []lcw.StepIn
	var gone []string // names that were layers and are not any more
	template := ""    // absolute path of the file handed to add
	nn := fresh()     // the layer to be made from it

	// a fresh parent with a fresh child that holds user data (so that remove only sets it aside)
	family := func() (p, ch string) {
		if len(live) > 0 && r.Chance(1, 3) {
			p = live[r.Intn(len(live))]
		} else {
			p = fresh()
			pb := ""
			if len(live) > 0 && r.Chance(1, 3) {
				pb = live[r.Intn(len(live))]
			}
			steps = append(steps, cmdStep(lcw.Cmd{Kind: "add", A: p, B: pb}))
			live = append(live, p)
		}
		ch = fresh()
		steps = append(steps, cmdStep(lcw.Cmd{Kind: "add", A: ch, B: p}))
		live = append(live, ch)
		return
	}

	switch k := r.Intn(10); {
	case k < 4: // the layerconfig of a layer removed earlier; its parent may be gone by now
		p, ch := family()
		for n := 1 + r.Intn(2); n > 0; n-- {
			steps = append(steps, cmdStep(lcw.Cmd{Kind: "edit", A: cfg.Layers + "/" + ch + "/" + r.Pick([]string{"notes.txt",
				cfg.BuildRoot + "/home-data", cfg.Upper + "/etc-conf", cfg.Work + "/leftover"}), B: "user data\n"}))
		}
		steps = append(steps, cmdStep(lcw.Cmd{Kind: "remove", A: ch}))
		drop(ch)
		gone = append(gone, ch)
		template = cfg.Layers + "/" + ch + "~removed/layerconfig"
		switch r.Intn(6) {
		case 0, 1, 2:
			steps = append(steps, cmdStep(lcw.Cmd{Kind: "remove", A: p}))
			drop(p)
			gone = append(gone, p)
		case 3:
			steps = append(steps, cmdStep(lcw.Cmd{Kind: "remove", A: p, Flag: true}))
			drop(p)
			gone = append(gone, p)
		case 4:
			p2 := fresh()
			steps = append(steps, cmdStep(lcw.Cmd{Kind: "rename", A: p, B: p2}))
			drop(p)
			gone = append(gone, p)
			live = append(live, p2)
		default: // the parent is still there
		}
	case k < 6: // the layerconfig of a live layer (its base exists, or it has none)
		if len(live) > 0 && r.Chance(1, 2) {
			template = cfg.Layers + "/" + live[r.Intn(len(live))] + "/layerconfig"
		} else {
			_, ch := family()
			template = cfg.Layers + "/" + ch + "/layerconfig"
		}
	case k < 9: // a template written by hand
		base := ""
		switch b := r.Intn(8); {
		case b < 3:
			base = r.Pick([]string{"ghost", "nosuch-1", "retired", "x9"})
		case b < 5 && len(live) > 0:
			base = live[r.Intn(len(live))]
		case b == 5:
			base = r.Pick([]string{"-lead", "dot.name", "tilde~", "sl/ash"})
		case b == 6:
			base = nn // the new layer itself
		}
		name := r.Pick([]string{"site.skel", "site-template", "mine.skel", "layerconfig.old"})
		template = cfg.Base + "/" + name
		text := templateText(r, cfg, base)
		if r.Chance(1, 3) { // it has been there from the start
			ws.Foreign = append(ws.Foreign, lcw.Entry{Path: lcw.B(template), Kind: "f", Data: lcw.B(text)})
		} else {
			steps = append(steps, cmdStep(lcw.Cmd{Kind: "edit", A: template, B: text}))
		}
	default: // what an earlier installation left behind: a removed layer whose parent nobody knows
		old := fresh()
		d := cfg.Layers + "/" + old + "~removed"
		ws.Foreign = append(ws.Foreign,
			lcw.Entry{Path: lcw.B(d + "/layerconfig"), Kind: "f", Data: lcw.B(templateText(r, cfg, r.Pick([]string{"ghost", "retired", "base0"})))},
			lcw.Entry{Path: lcw.B(d + "/notes.txt"), Kind: "f", Data: "kept\n"})
		template = d + "/layerconfig"
		gone = append(gone, old)
	}

	// the new layer
	if len(gone) > 0 && r.Chance(1, 6) {
		nn = gone[r.Intn(len(gone))] // a name that was in use before
	} else if r.Chance(1, 12) {
		nn = lcw.PickName(r)
	}
	arg := template
	if r.Chance(1, 3) { // as one would type it: relative to the base path
		arg = strings.TrimPrefix(template, cfg.Base+"/")
		if strings.HasSuffix(arg, ".skel") && !strings.Contains(arg, "/") && r.Chance(1, 2) {
			arg = strings.TrimSuffix(arg, ".skel") // the extension is optional
		}
	}
	cbase := ""
	if r.Chance(1, 4) {
		cbase = r.Pick(append(append([]string{"ghost"}, live...), gone...))
	}
	add := cmdStep(lcw.Cmd{Kind: "add", A: nn, B: cbase, C: arg})
	add.Env.Pretend = r.Chance(1, 12)
	steps = append(steps, add)
	live = append(live, nn)

	// what the user does with the new layer afterwards
	for n := r.Intn(4); n > 0; n-- {
		switch r.Intn(7) {
		case 0:
			steps = append(steps, cmdStep(lcw.Cmd{Kind: "mkdirs", A: nn}))
		case 1:
			steps = append(steps, cmdStep(lcw.Cmd{Kind: "add", A: fresh(), B: nn}))
		case 2:
			steps = append(steps, cmdStep(lcw.Cmd{Kind: "add", A: fresh(), C: arg}))
		case 3:
			steps = append(steps, cmdStep(lcw.Cmd{Kind: "rebase", A: nn, B: r.Pick(append([]string{""}, live...))}))
		case 4:
			steps = append(steps, cmdStep(lcw.Cmd{Kind: "rename", A: nn, B: fresh()}))
		case 5:
			steps = append(steps, cmdStep(lcw.Cmd{Kind: "remove", A: nn, Flag: r.Bool()}))
		default:
			steps = append(steps, cmdStep(lcw.Cmd{Kind: "list"}))
		}
	}
	steps = append(steps, cmdStep(lcw.Cmd{Kind: "list"}))

	in := lcw.BuildInput(ws)
	in.Steps = steps
	return in
}
