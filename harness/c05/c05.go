// Package c05: generated build roots (VDB + profile tree) -> profile.ReadSystemSet,
// vdb.GetInstalledPackageList, vdb.StartSolution/ResolveUserDeps and the stagemaker binary
// (property C05: the stage package set is the dependency closure of the requested set).
package c05

import (
	"bytes"
	"context"
	"encoding/json"
	"fmt"
	"os"
	"os/exec"
	"path"
	"path/filepath"
	"sort"
	"strings"
	"time"

	"lcverif/common"
	q "lcverif/coqfmt"
	"lcverif/rng"

	"potano.layercake/fs"
	"potano.layercake/portage/atom"
	"potano.layercake/portage/depend"
	"potano.layercake/portage/profile"
	"potano.layercake/portage/vdb"
)

type B = common.B

// ---------------------------------------------------------------- input (replayable)

// PkgIn is one directory var/db/pkg/<Cat>/<PF>.  Has* say whether the file exists.
type PkgIn struct {
	Cat        B    `json:"cat"`
	PF         B    `json:"pf"`
	Slot       B    `json:"slot"` // content of SLOT (always written)
	HasIuseEff bool `json:"has_iuse_eff"`
	IuseEff    B    `json:"iuse_eff"`
	HasIuse    bool `json:"has_iuse"`
	Iuse       B    `json:"iuse"`
	HasUse     bool `json:"has_use"`
	Use        B    `json:"use"`
	HasDep     [4]bool `json:"has_dep"` // BDEPEND DEPEND RDEPEND PDEPEND
	Dep        [4]B    `json:"dep"`
}

// ProfNode is one entry of the profile tree, path relative to the build root.
type ProfNode struct {
	Path        B    `json:"path"`
	Link        bool `json:"link"`
	Target      B    `json:"target"` // symlink target (relative to the link's directory, or "/"+path relative to the build root when AbsTarget)
	AbsTarget   bool `json:"abs_target"`
	HasPackages bool `json:"has_packages"`
	Packages    []B  `json:"packages"` // lines
	HasParent   bool `json:"has_parent"`
	Parent      []B  `json:"parent"` // lines
}

type Input struct {
	Pkgs       []PkgIn    `json:"pkgs"`
	Order      []int      `json:"order"` // directory creation order (indices into Pkgs)
	Prof       []ProfNode `json:"prof"`
	ProfileArg B          `json:"profile_arg"` // relative to the build root; "" = default etc/portage/make.profile
	Atoms      []B        `json:"atoms"`       // -atoms words
	NoBdeps    bool       `json:"nobdeps"`
}

var depNames = [4]string{"BDEPEND", "DEPEND", "RDEPEND", "PDEPEND"}

// ---------------------------------------------------------------- building the tree

func writeFile(p string, content string) error {
	if err := os.MkdirAll(filepath.Dir(p), 0755); err != nil {
		return err
	}
	return os.WriteFile(p, []byte(content), 0644)
}

func linesText(ls []B) string {
	var b strings.Builder
	for _, l := range ls {
		b.WriteString(string(l))
		b.WriteByte('\n')
	}
	return b.String()
}

func build(root string, in *Input) error {
	if err := os.MkdirAll(filepath.Join(root, "var/db/pkg"), 0755); err != nil {
		return err
	}
	order := in.Order
	if len(order) != len(in.Pkgs) {
		order = make([]int, len(in.Pkgs))
		for i := range order {
			order[i] = i
		}
	}
	for _, i := range order {
		if i < 0 || i >= len(in.Pkgs) {
			return fmt.Errorf("bad order index")
		}
		p := in.Pkgs[i]
		d := filepath.Join(root, "var/db/pkg", string(p.Cat), string(p.PF))
		if err := os.MkdirAll(d, 0755); err != nil {
			return err
		}
		if err := writeFile(filepath.Join(d, "SLOT"), string(p.Slot)); err != nil {
			return err
		}
		if p.HasIuseEff {
			writeFile(filepath.Join(d, "IUSE_EFFECTIVE"), string(p.IuseEff))
		}
		if p.HasIuse {
			writeFile(filepath.Join(d, "IUSE"), string(p.Iuse))
		}
		if p.HasUse {
			writeFile(filepath.Join(d, "USE"), string(p.Use))
		}
		for k := 0; k < 4; k++ {
			if p.HasDep[k] {
				writeFile(filepath.Join(d, depNames[k]), string(p.Dep[k]))
			}
		}
		writeFile(filepath.Join(d, "CONTENTS"), "")
	}
	for _, n := range in.Prof {
		p := filepath.Join(root, string(n.Path))
		if n.Link {
			if err := os.MkdirAll(filepath.Dir(p), 0755); err != nil {
				return err
			}
			t := string(n.Target)
			if n.AbsTarget {
				t = filepath.Join(root, t)
			}
			if err := os.Symlink(t, p); err != nil {
				return err
			}
			continue
		}
		if err := os.MkdirAll(p, 0755); err != nil {
			return err
		}
		if n.HasPackages {
			writeFile(filepath.Join(p, "packages"), linesText(n.Packages))
		}
		if n.HasParent {
			writeFile(filepath.Join(p, "parent"), linesText(n.Parent))
		}
	}
	return nil
}

// ---------------------------------------------------------------- observation helpers

type result struct {
	Class string   `json:"class"` // ok | failed | panic | timeout
	List  []string `json:"list,omitempty"`
	Msg   string   `json:"msg,omitempty"`
}

func resTerm(r result) string {
	switch r.Class {
	case "ok":
		return q.App("ROk", q.HxList(r.List))
	case "failed":
		return "RFailed"
	case "panic":
		return "RPanic"
	default:
		return "RDiverge"
	}
}

func runBin(args ...string) result {
	bin := filepath.Join(os.Getenv("LCV_RUN"), "stagemaker")
	ctx, cancel := context.WithTimeout(context.Background(), 20*time.Second)
	defer cancel()
	cmd := exec.CommandContext(ctx, bin, args...)
	var so, se bytes.Buffer
	cmd.Stdout = &so
	cmd.Stderr = &se
	err := cmd.Run()
	if ctx.Err() != nil {
		return result{Class: "timeout"}
	}
	msg := strings.TrimSpace(se.String())
	if len(msg) > 300 {
		msg = msg[:300]
	}
	if err != nil {
		if ee, ok := err.(*exec.ExitError); ok {
			if ee.ExitCode() == 1 {
				return result{Class: "failed", Msg: msg}
			}
			return result{Class: "panic", Msg: fmt.Sprintf("exit %d: %s", ee.ExitCode(), msg)}
		}
		return result{Class: "panic", Msg: err.Error()}
	}
	out := so.String()
	lines := []string{}
	if len(out) > 0 {
		lines = strings.Split(strings.TrimSuffix(out, "\n"), "\n")
	}
	return result{Class: "ok", List: lines}
}

// guarded: run f with recover and a wall-clock limit.
func guarded(f func() result) (r result) {
	ch := make(chan result, 1)
	go func() {
		defer func() {
			if e := recover(); e != nil {
				ch <- result{Class: "panic", Msg: fmt.Sprint(e)}
			}
		}()
		ch <- f()
	}()
	select {
	case r = <-ch:
		return r
	case <-time.After(20 * time.Second):
		return result{Class: "timeout"}
	}
}

// ---------------------------------------------------------------- oracles computed with the real code

type pkgRec struct {
	in   *PkgIn
	av   *vdb.AvailableVersion // object of the real code for the match oracle (the loader's, else a substitute; may be nil)
	id   int
	name string // PF without its PMS version (harness's own cut)
	pn   string // category "/" name
	slot string // comparable key of the SLOT text before "/" (harness's own reading)
}

// atom term for a dependency atom of package ctx (nil = the "requested" context)
func matchIDs(da *depend.DependAtom, ctxUse atom.UseFlagMap, pkgs []*pkgRec, byName func(p *pkgRec) bool) []string {
	ids := []string{}
	for _, p := range pkgs {
		if !byName(p) || p.av == nil {
			continue
		}
		if len(da.FilterAtoms([]atom.Atom{p.av}, ctxUse)) == 1 {
			ids = append(ids, q.N(uint64(p.id)))
		}
	}
	return ids
}

type counter struct {
	atoms, groups, compoundAlt, blockers, conds, depth int
	emptyGroups, tied, misread                         int // r5: empty groups; files tied to their text; files the decoder read differently from the reference reading
	byText map[string]map[string]bool // atom text -> the distinct match lists seen for it
}

func depTerm(d depend.PackageDependency, ctxUse atom.UseFlagMap, pkgs []*pkgRec, cnt *counter, depth int, inGroup bool) string {
	if depth > cnt.depth {
		cnt.depth = depth
	}
	switch x := d.(type) {
	case *depend.DependAtom:
		cnt.atoms++
		if x.Blocker {
			cnt.blockers++
		}
		pn := x.PackageName()
		ids := matchIDs(x, ctxUse, pkgs, func(p *pkgRec) bool { return p.pn == pn })
		if cnt.byText != nil {
			if cnt.byText[x.String()] == nil {
				cnt.byText[x.String()] = map[string]bool{}
			}
			cnt.byText[x.String()][strings.Join(ids, ",")] = true
		}
		return q.App("DAtom", q.App("MkAtom", q.Hx(pn), q.Bool(x.Blocker), q.List(ids)))
	case *depend.ConditionalPackageDependency:
		var k string
		grp := false
		switch x.Type {
		case depend.Pkg_dep_all:
			k = "GAll"
		case depend.Pkg_dep_any_of:
			k, grp = "GAny", true
		case depend.Pkg_dep_exactly_one_of:
			k, grp = "GOne", true
		case depend.Pkg_dep_at_most_one_of:
			k, grp = "GMost", true
		case depend.Pkg_dep_when_use_set:
			k = q.App("GUse", q.Hx(x.UseFlag()))
			cnt.conds++
		case depend.Pkg_dep_when_use_unset:
			k = q.App("GNuse", q.Hx(x.UseFlag()))
			cnt.conds++
		default:
			k = "GAll"
		}
		if grp {
			cnt.groups++
		}
		if inGroup {
			cnt.compoundAlt++
		}
		items := make([]string, len(x.Deps))
		for i, c := range x.Deps {
			items[i] = depTerm(c, ctxUse, pkgs, cnt, depth+1, grp)
		}
		return q.App("DGrp", k, q.List(items))
	}
	return "(DGrp GAll [])"
}

// ---------------------------------------------------------------- running one case

func optB(has bool, s B) string {
	if !has {
		return q.None()
	}
	return q.Some(q.Hx(string(s)))
}

func Run(in Input) (c *common.Case) {
	desc := map[string]interface{}{"input": in}
	c = &common.Case{Desc: desc}
	tmp, err := os.MkdirTemp("/var/tmp", "lcv-c05-")
	if err != nil {
		panic(err)
	}
	defer os.RemoveAll(tmp)
	root := filepath.Join(tmp, "r")
	if err := build(root, &in); err != nil {
		panic(fmt.Sprintf("cannot build the case tree: %v", err))
	}
	profileDir := path.Join(root, "/etc/portage/make.profile")
	if len(in.ProfileArg) > 0 {
		profileDir = path.Join(root, string(in.ProfileArg))
	}
	atoms := common.Ss(in.Atoms)

	// ---- the implementation, in process (mirrors cmd/stagemaker main/setUpStageData/generateStageSet)
	var sysSet *depend.UserEnteredDependencies
	sysRes := guarded(func() result {
		if !fs.IsDir(profileDir) {
			return result{Class: "failed", Msg: "profile directory does not exist"}
		}
		s, err := profile.ReadSystemSet(profileDir)
		if err != nil {
			return result{Class: "failed", Msg: err.Error()}
		}
		for _, a := range atoms {
			if err := s.Add(a); err != nil {
				return result{Class: "failed", Msg: err.Error()}
			}
		}
		sysSet = s
		out := make([]string, len(s.Atoms))
		for i, a := range s.Atoms {
			out[i] = a.String()
		}
		return result{Class: "ok", List: out}
	})
	var stageRes result
	if sysRes.Class != "ok" {
		stageRes = result{Class: sysRes.Class, Msg: sysRes.Msg}
	} else {
		stageRes = guarded(func() result {
			installed, err := vdb.GetInstalledPackageList(root)
			if err != nil {
				return result{Class: "failed", Msg: err.Error()}
			}
			sol, err := vdb.StartSolution(installed, !in.NoBdeps)
			if err != nil {
				return result{Class: "failed", Msg: err.Error()}
			}
			if err := sol.ResolveUserDeps(sysSet); err != nil {
				return result{Class: "failed", Msg: err.Error()}
			}
			sa := sol.Resolution.SortedAtoms()
			out := make([]string, len(sa))
			for i, a := range sa {
				out[i] = a.String()
			}
			return result{Class: "ok", List: out}
		})
	}

	// ---- the implementation, at process level
	args := []string{"-root", root}
	if len(in.ProfileArg) > 0 {
		args = append(args, "-profile", profileDir)
	}
	if len(atoms) > 0 {
		args = append(args, "-atoms", strings.Join(atoms, " "))
	}
	if in.NoBdeps {
		args = append(args, "-nobdeps")
	}
	binSys := runBin(append([]string{"-list", "system"}, args...)...)
	binStage := runBin(append([]string{"-list", "stage"}, args...)...)
	// the same tree once more, directories created in the reverse order on a tmpfs (where readdir
	// follows the creation order): another enumeration order for the same database
	binStage2 := binStage
	if tmp2, err := os.MkdirTemp("/dev/shm", "lcv-c05-"); err == nil {
		root2 := filepath.Join(tmp2, "r")
		in2 := in
		in2.Order = make([]int, len(in.Order))
		for i, v := range in.Order {
			in2.Order[len(in.Order)-1-i] = v
		}
		if len(in.Order) != len(in.Pkgs) {
			in2.Order = nil
		}
		if err := build(root2, &in2); err == nil {
			args2 := []string{"-list", "stage", "-root", root2}
			if len(in.ProfileArg) > 0 {
				args2 = append(args2, "-profile", path.Join(root2, string(in.ProfileArg)))
			}
			if len(atoms) > 0 {
				args2 = append(args2, "-atoms", strings.Join(atoms, " "))
			}
			if in.NoBdeps {
				args2 = append(args2, "-nobdeps")
			}
			binStage2 = runBin(args2...)
		}
		os.RemoveAll(tmp2)
	}

	// ---- observation: what the loader under test makes of the database (r5b_db.go)
	loaded := []loadedRec{}
	byStr := map[string]*vdb.AvailableVersion{}
	loaderErr := ""
	func() {
		defer func() {
			if e := recover(); e != nil {
				loaderErr = fmt.Sprint("panic: ", e)
			}
		}()
		set, err := vdb.GetInstalledPackageList(root)
		if err != nil {
			loaderErr = err.Error()
			return
		}
		loaded, byStr = loaderView(set)
	}()
	// ---- the database of the case: the generator's own directories, read by the harness itself
	// canonical package order: sorted by cat/pf
	idx := make([]int, len(in.Pkgs))
	for i := range idx {
		idx[i] = i
	}
	sort.SliceStable(idx, func(a, b int) bool {
		x, y := in.Pkgs[idx[a]], in.Pkgs[idx[b]]
		return string(x.Cat)+"/"+string(x.PF) < string(y.Cat)+"/"+string(y.PF)
	})
	pkgs := make([]*pkgRec, 0, len(idx))
	idOf := map[string]int{}
	complete := true
	seenKey := map[string]bool{}
	unsplit := 0
	for _, i := range idx {
		p := &in.Pkgs[i]
		s := string(p.Cat) + "/" + string(p.PF)
		name, _, ok := pfSplit(string(p.PF))
		if !ok { // no PMS reading of the directory name: outside wf (name_tied)
			name = string(p.PF)
			unsplit++
		}
		slot := slotOf(string(p.Slot))
		rec := &pkgRec{in: p, id: len(pkgs), name: name, pn: string(p.Cat) + "/" + name, slot: slotKey(slot)}
		if _, dup := idOf[s]; dup || seenKey[rec.pn+"\x00"+rec.slot] { // one directory written twice, or two with one name and slot
			complete = false
		}
		seenKey[rec.pn+"\x00"+rec.slot] = true
		if _, dup := idOf[s]; !dup {
			idOf[s] = rec.id
		}
		// the object of the real code the match oracle needs: the loader's, else a substitute
		if rec.av = byStr[s]; rec.av == nil {
			rec.av = substituteAV(path.Join(root, "var/db/pkg", s), p, slot)
		}
		pkgs = append(pkgs, rec)
	}
	// the harness's own directory listing must be what it wrote
	own := ownListing(root)
	{
		want := make([]string, 0, len(idOf))
		for s := range idOf {
			want = append(want, s)
		}
		sort.Strings(want)
		if strings.Join(want, "\n") != strings.Join(own, "\n") {
			panic(fmt.Sprintf("the generated VDB is not what was written: %q vs %q", own, want))
		}
	}
	// enumeration as the implementation saw it: its membership is an observation (o_listed), its
	// ORDER the oracle c_enum -- taken over only if it is a permutation of the harness's own listing
	listed := []string{}
	enumReal := []string{}
	pkgdb := path.Join(root, "/var/db/pkg")
	cats, _ := fs.Readdirnames(pkgdb)
	for _, cat := range cats {
		names, _ := fs.Readdirnames(path.Join(pkgdb, cat))
		for _, nv := range names {
			listed = append(listed, cat+"/"+nv)
			if id, ok := idOf[cat+"/"+nv]; ok {
				enumReal = append(enumReal, q.N(uint64(id)))
			}
		}
	}
	sort.Strings(listed)
	enum := enumReal
	enumIsPerm := strings.Join(listed, "\n") == strings.Join(own, "\n")
	if !enumIsPerm || len(enumReal) != len(pkgs) {
		// not a permutation (or a directory written twice): the case keeps a well-formed order oracle and
		// the discrepancy shows in o_listed
		enum = make([]string, len(pkgs))
		for i := range enum {
			enum[i] = q.N(uint64(i))
		}
	}
	cnt := &counter{byText: map[string]map[string]bool{}}
	badFiles := 0
	pkgTerms := make([]string, len(pkgs))
	textTerms := make([]string, len(pkgs))
	misreads := []string{}
	lenient := 0
	for i, p := range pkgs {
		ctxUse := atom.UseFlagMap{} // oracle: the owning package's flag map, consulted by FilterAtoms for USE dependencies
		if p.av != nil {
			ctxUse = p.av.GetUseFlagMap()
		}
		files := make([]string, 4)
		texts := make([]string, 4)
		for k := 0; k < 4; k++ {
			if !p.in.HasDep[k] {
				files[k] = "FNone"
				texts[k] = q.None()
				continue
			}
			var term string
			texts[k] = q.None()
			// the decoder under test (its answer is the tree only where the text is not PMS)
			var realDeps []depend.PackageDependency
			var realErr error
			realPanic := false
			func() {
				defer func() {
					if e := recover(); e != nil {
						realPanic = true
					}
				}()
				realDeps, realErr = depend.DecodeDependencies([]byte(strings.TrimSpace(string(p.in.Dep[k]))))
			}()
			if ref, ok := refParse(string(p.in.Dep[k])); ok {
				// the PMS reading, tied to the text inside Coq (C05.texts_ok)
				items := make([]string, len(ref))
				for j, d := range ref {
					items[j] = refTerm(d, ctxUse, pkgs, cnt, 1, false)
				}
				term = q.App("FDeps", q.List(items))
				texts[k] = q.Some(q.Hx(string(p.in.Dep[k])))
				cnt.tied++
				if realPanic || realErr != nil || realShape(realDeps) != refShape(ref) {
					cnt.misread++
					how := "other tree: " + realShape(realDeps)
					if realPanic {
						how = "panic"
					} else if realErr != nil {
						how = "error: " + realErr.Error()
					}
					misreads = append(misreads, fmt.Sprintf("%s/%s %s %q: reference %s, decoder %s", p.in.Cat, p.in.PF, depNames[k],
						string(p.in.Dep[k]), refShape(ref), how))
				}
			} else if realPanic {
				term = "FPanic"
			} else if realErr != nil {
				term = "FBad"
				badFiles++
			} else {
				items := make([]string, len(realDeps))
				for j, d := range realDeps {
					items[j] = depTerm(d, ctxUse, pkgs, cnt, 1, false)
				}
				term = q.App("FDeps", q.List(items))
				lenient++
			}
			files[k] = term
		}
		pkgTerms[i] = q.App("MkPkg", q.Hx(string(p.in.Cat)), q.Hx(string(p.in.PF)), q.Hx(p.pn), q.Hx(p.slot),
			optB(p.in.HasIuseEff, p.in.IuseEff), optB(p.in.HasIuse, p.in.Iuse), optB(p.in.HasUse, p.in.Use),
			files[0], files[1], files[2], files[3])
		textTerms[i] = q.List(texts)
	}
	// dictionary of requested atom strings: every "*x" / "-*x" payload of the tree and every user atom
	dictKeys := []string{}
	seen := map[string]bool{}
	addKey := func(s string) {
		if !seen[s] {
			seen[s] = true
			dictKeys = append(dictKeys, s)
		}
	}
	for _, n := range in.Prof {
		for _, l := range n.Packages {
			s := string(l)
			if len(s) > 1 && s[0] == '*' {
				addKey(s[1:])
			}
			if len(s) > 2 && s[0] == '-' && s[1] == '*' {
				addKey(s[2:])
			}
		}
	}
	for _, a := range atoms {
		addKey(a)
	}
	dict := make([]string, len(dictKeys))
	for i, s := range dictKeys {
		var term string
		func() {
			defer func() {
				if e := recover(); e != nil {
					term = q.None()
				}
			}()
			da, err := depend.NewDependencyAtom(s)
			if err != nil {
				term = q.None()
				return
			}
			ids := matchIDs(da, atom.UseFlagMap{}, pkgs, func(p *pkgRec) bool {
				if p.name != da.Name {
					return false
				}
				return len(da.Category) == 0 || string(p.in.Cat) == da.Category
			})
			term = q.Some(q.App("MkU", q.Hx(da.Category), q.Hx(da.Name), q.Bool(da.Blocker), q.List(ids)))
		}()
		dict[i] = q.Pair(q.Hx(s), term)
	}
	// profile tree with absolute paths
	fsTerms := make([]string, len(in.Prof))
	for i, n := range in.Prof {
		p := path.Join(root, string(n.Path))
		if n.Link {
			t := string(n.Target)
			if n.AbsTarget {
				t = path.Join(root, t)
			}
			fsTerms[i] = q.Pair(q.Hx(p), q.App("PLink", q.Hx(t)))
			continue
		}
		pk, pa := q.None(), q.None()
		if n.HasPackages {
			pk = q.Some(q.HxList(common.Ss(n.Packages)))
		}
		if n.HasParent {
			pa = q.Some(q.HxList(common.Ss(n.Parent)))
		}
		fsTerms[i] = q.Pair(q.Hx(p), q.App("PDir", pk, pa))
	}

	loadedTerms := make([]string, len(loaded))
	for i, l := range loaded {
		loadedTerms[i] = q.Pair(q.Hx(l.Str), q.Pair(q.Hx(l.Name), q.Hx(l.Slot)))
	}
	slotTerms := make([]string, len(pkgs))
	for i, p := range pkgs {
		slotTerms[i] = q.Hx(string(p.in.Slot))
	}
	obsTerm := q.App("C05.MkObs", resTerm(sysRes), resTerm(stageRes), resTerm(binSys), resTerm(binStage), resTerm(binStage2),
		q.HxList(listed), q.List(loadedTerms))
	c.Coq = q.App("C05.MkCase", q.Hx(root), q.List(fsTerms), q.Hx(profileDir), q.List(dict), q.HxList(atoms),
		q.List(pkgTerms), q.List(enum), q.Bool(!in.NoBdeps), q.Bool(complete), q.List(textTerms), q.List(slotTerms), obsTerm)
	obsDesc := map[string]interface{}{"system": sysRes, "stage": stageRes, "bin_system": binSys, "bin_stage": binStage, "bin_stage_reordered": binStage2,
		"readdir_listed": listed, "loader_returned": loaded}
	if loaderErr != "" {
		obsDesc["loader_error"] = loaderErr
	}
	desc["obs"] = obsDesc
	// the database the verdict is stated against (for the reader of a replay)
	dbDesc := make([]loadedRec, len(pkgs))
	for i, p := range pkgs {
		dbDesc[i] = loadedRec{string(p.in.Cat) + "/" + string(p.in.PF), p.pn, p.slot}
	}
	desc["database"] = dbDesc

	// distinctness key: the input without the temporary directory
	kb, _ := json.Marshal(in)
	c.Key = string(kb)
	classes := []string{"stage=" + stageRes.Class, "system=" + sysRes.Class, fmt.Sprintf("pkgs=%d", len(in.Pkgs))}
	if stageRes.Class == "ok" {
		classes = append(classes, fmt.Sprintf("selected=%d", bucket(len(stageRes.List))))
	}
	if cnt.groups > 0 {
		classes = append(classes, "has-groups")
	}
	if cnt.compoundAlt > 0 {
		classes = append(classes, "compound-alternative")
	}
	if cnt.blockers > 0 {
		classes = append(classes, "has-blockers")
	}
	for _, m := range cnt.byText {
		if len(m) > 1 { // the installed matches of one atom text depend on which package asks
			classes = append(classes, "same-atom-text-different-matches")
			break
		}
	}
	if cnt.conds > 0 {
		classes = append(classes, "has-use-conditionals")
	}
	if badFiles > 0 {
		classes = append(classes, "bad-dep-file")
	}
	if cnt.emptyGroups > 0 {
		classes = append(classes, "empty-group")
	}
	if lenient > 0 {
		classes = append(classes, "non-pms-text-accepted")
	}
	if cnt.misread > 0 { // the decoder under test did not read a PMS text as the grammar does
		classes = append(classes, "decoder-misread")
		desc["decoder_misreads"] = misreads
	}
	if len(atoms) > 0 {
		classes = append(classes, "user-atoms")
	}
	if in.NoBdeps {
		classes = append(classes, "nobdeps")
	}
	nlink := 0
	for _, n := range in.Prof {
		if n.Link {
			nlink++
		}
	}
	if nlink > 0 {
		classes = append(classes, "profile-symlink")
	}
	classes = append(classes, fmt.Sprintf("profile-nodes=%d", len(in.Prof)))
	if !complete {
		classes = append(classes, "slot-collision")
	}
	if unsplit > 0 {
		classes = append(classes, "pf-without-pms-version")
	}
	if !enumIsPerm { // fs.Readdirnames did not list exactly the directories the harness sees
		classes = append(classes, "readdir-not-a-permutation")
	}
	{ // input-distribution statistics of the loader-view class
		hy, sub, diff := false, false, len(loaded) != len(pkgs)
		for i, p := range pkgs {
			for k := 0; k+1 < len(p.name); k++ {
				if p.name[k] == '-' && isDigitByte(p.name[k+1]) {
					hy = true
				}
			}
			if strings.Contains(string(p.in.Slot), "/") {
				sub = true
			}
			if !diff && (loaded[i].Str != string(p.in.Cat)+"/"+string(p.in.PF) || loaded[i].Name != p.pn || loaded[i].Slot != p.slot) {
				diff = true
			}
		}
		if hy {
			classes = append(classes, "name-with-hyphen-digit")
		}
		if sub {
			classes = append(classes, "sub-slot")
		}
		if diff && complete {
			classes = append(classes, "loader-differs")
		}
	}
	c.Classes = classes
	// non-trivial: the closure has >= 2 members beyond the roots, or the run must fail
	c.Nontrivial = stageRes.Class != "ok" || len(stageRes.List) >= 2+rootCount(sysRes)
	return c
}

func rootCount(sys result) int { return len(sys.List) }

func bucket(n int) int {
	switch {
	case n <= 3:
		return n
	case n <= 6:
		return 6
	case n <= 10:
		return 10
	default:
		return 99
	}
}

func RunJSON(raw json.RawMessage) (*common.Case, error) {
	var in Input
	if err := json.Unmarshal(raw, &in); err != nil {
		return nil, err
	}
	return Run(in), nil
}

func init() {
	common.Register("c05", common.Prop{
		Generate: func(r common.Rand, tier string, n int, emit func(*common.Case)) {
			Generate(rng.New(r.U64()), tier, n, emit)
		},
		Replay: RunJSON,
	})
}
