package c05

import (
	"fmt"
	"strings"

	"lcverif/common"
	"lcverif/rng"
)

// ---------------------------------------------------------------- generators
//
// Structured, mostly-valid stream: a universe of package names in a few categories, some in
// several slots, USE/IUSE settings, dependency expressions (plain, versioned, slotted, USE
// dependencies, blockers, any-of / exactly-one / at-most-one groups, USE conditionals, nested
// groups, cycles), a profile tree (parents, diamonds, symlinked make.profile, "*atom" and
// "-*atom" lines, repeated atoms) and extra user atoms.  A per-case "chaos" level decides how
// often an atom is aimed at nothing / a blocker hits / a file is undecodable, so that most runs
// succeed with a non-trivial closure and a good share must fail.

var cats = []string{"sys-apps", "dev-libs", "app-misc", "virtual", "dev-lang", "net-misc"}
var names = []string{"alpha", "beta", "gamma", "delta", "eps", "zeta", "eta", "theta", "iota", "kappa"}
var flags = []string{"ssl", "nls", "X", "static", "python", "doc"}
var versions = []string{"1.0", "1.2.3", "2.0-r1", "0.9_rc1", "3", "10.1", "1.10", "1.9", "2.4b", "4.0_p2-r3"}

// round 5b: package names that themselves contain hyphens followed by digits, plus signs, underscores,
// an "-r<n>" piece (none of them ends in a hyphen followed by a PMS version, PMS 3.1.2), and versions
// using every part of the PMS 3.2 syntax: the cut between name and version is where a loader can go wrong
var hardNames = []string{"font-adobe-100dpi", "lib-2to3", "gtk+-3x11", "x-r6-compat", "mod_ssl-2utils", "alpha-0ad", "e2fs-1plus2-libs", "iso-8859-15xx", "r-1-base"}
var hardVersions = []string{"0", "20240101", "1.2.3.4.5", "7z", "1.0_alpha", "1.0_beta2_p1", "2_pre20200101-r1", "1.0b_rc3_p4-r10", "3.1_p-r0"}

var slotPool = []string{"0", "1", "2", "3", "3.10", "3.9", "1.0", "10", "stable", "5", "7"}

type gpkg struct {
	cat, name, ver, slot, subslot string
	iuse                         []string // declared flags
	use                          map[string]bool
}

func (p *gpkg) pn() string { return p.cat + "/" + p.name }
func (p *gpkg) pf() string { return p.name + "-" + p.ver }

type universe struct {
	pkgs  []*gpkg
	chaos int // 0 calm, 1 some trouble, 2 wild
	deep  bool
}

func (u *universe) trouble(r *rng.R, calm, some, wild int) bool {
	d := []int{calm, some, wild}[u.chaos]
	return d > 0 && r.Chance(1, d)
}

func genUniverse(r *rng.R, n int, multiSlot int) *universe {
	u := &universe{}
	taken := map[string]bool{} // pn:slot and cat/pf
	for len(u.pkgs) < n {
		var p gpkg
		if len(u.pkgs) > 0 && r.Chance(multiSlot, 12) { // another slot of an existing package
			o := u.pkgs[r.Intn(len(u.pkgs))]
			p.cat, p.name = o.cat, o.name
		} else {
			p.cat, p.name = r.Pick(cats), r.Pick(names)
			if r.Chance(1, 5) {
				p.name = r.Pick(hardNames)
			}
			if r.Chance(1, 14) && len(u.pkgs) > 0 { // same base name in another category (bare-name ambiguity)
				p.name = u.pkgs[r.Intn(len(u.pkgs))].name
			}
		}
		p.ver = r.Pick(versions)
		if r.Chance(1, 5) {
			p.ver = r.Pick(hardVersions)
		}
		p.slot = r.Pick(slotPool)
		if r.Chance(1, 2) {
			p.slot = r.Pick(slotPool[:4])
		}
		if r.Chance(1, 5) {
			p.subslot = r.Pick([]string{"1.2", "5", "0"})
		}
		if taken[p.pn()+":"+p.slot] || taken[p.cat+"/"+p.pf()] {
			continue
		}
		taken[p.pn()+":"+p.slot] = true
		taken[p.cat+"/"+p.pf()] = true
		p.use = map[string]bool{}
		for _, f := range flags {
			if r.Chance(1, 2) {
				p.iuse = append(p.iuse, f)
				if r.Chance(1, 2) {
					p.use[f] = true
				}
			}
		}
		u.pkgs = append(u.pkgs, &p)
	}
	return u
}

// an atom aimed at an installed package so that it (most likely) matches
func goodAtom(r *rng.R, u *universe, t *gpkg, useDepOK bool) string {
	base := t.pn()
	s := base
	switch r.Intn(14) {
	case 0:
		s = ">=" + base + "-" + t.ver
	case 1:
		s = "=" + base + "-" + t.ver
	case 2:
		if !strings.Contains(t.ver, "-r") {
			s = "~" + base + "-" + t.ver
		}
	case 3:
		s = "<=" + base + "-" + t.ver
	case 4:
		s = ">=" + base + "-0.1"
	case 5:
		s = "<" + base + "-99"
	}
	switch r.Intn(10) {
	case 0:
		s += ":" + t.slot
	case 1:
		s += ":="
	case 2:
		s += ":*"
	case 3:
		s += ":" + t.slot + "="
	}
	if useDepOK && r.Chance(1, 7) {
		f := r.Pick(flags)
		declared := false
		for _, x := range t.iuse {
			if x == f {
				declared = true
			}
		}
		switch {
		case declared && t.use[f]:
			s += "[" + r.Pick([]string{f, f + "(+)", f + "(-)"}) + "]"
		case declared:
			s += "[" + r.Pick([]string{"-" + f, "-" + f + "(+)"}) + "]"
		default:
			s += "[" + r.Pick([]string{f + "(+)", "-" + f + "(-)"}) + "]"
		}
	}
	return s
}

// an atom of any shape, possibly aimed at nothing
func wildAtom(r *rng.R, u *universe, useDepOK bool) string {
	if r.Chance(1, 3) {
		return r.Pick(cats) + "/" + r.Pick([]string{"missing", "nosuch", "absent"})
	}
	t := u.pkgs[r.Intn(len(u.pkgs))]
	base := t.pn()
	s := base
	switch r.Intn(8) {
	case 0:
		s = ">=" + base + "-" + r.Pick(versions)
	case 1:
		s = "<" + base + "-" + r.Pick(versions)
	case 2:
		s = "=" + base + "-" + r.Pick(versions)
	case 3:
		s = "~" + base + "-" + strings.Split(r.Pick(versions), "-r")[0]
	case 4:
		s = ">" + base + "-" + t.ver
	case 5:
		s = "=" + base + "-" + strings.Split(t.ver, ".")[0] + "*"
	}
	switch r.Intn(6) {
	case 0:
		s += ":" + r.Pick(slotPool)
	case 1:
		s += ":" + r.Pick(slotPool) + "="
	}
	if useDepOK && r.Chance(1, 3) {
		f := r.Pick(flags)
		s += "[" + r.Pick([]string{f, "-" + f, f + "?", f + "=", "!" + f + "?", "!" + f + "=", f + "(+)", f + "(-)", "-" + f + "(-)"}) + "]"
	}
	return s
}

func genAtom(r *rng.R, u *universe, blockerOK bool, useDepOK bool) string {
	if u.trouble(r, 0, 25, 6) {
		return wildAtom(r, u, useDepOK)
	}
	if blockerOK && r.Chance(1, 10) {
		// a blocker: harmless in calm cases (aimed at nothing installed), a hit otherwise
		if u.trouble(r, 0, 4, 2) {
			return r.Pick([]string{"!", "!!"}) + goodAtom(r, u, u.pkgs[r.Intn(len(u.pkgs))], false)
		}
		t := u.pkgs[r.Intn(len(u.pkgs))]
		return r.Pick([]string{"!", "!!"}) + r.Pick([]string{"<" + t.pn() + "-0.0.1", r.Pick(cats) + "/obsolete", ">" + t.pn() + "-999"})
	}
	return goodAtom(r, u, u.pkgs[r.Intn(len(u.pkgs))], useDepOK)
}

func genDepItems(r *rng.R, u *universe, depth int, n int, inGroup bool) []string {
	out := []string{}
	for i := 0; i < n; i++ {
		k := r.Intn(100)
		if depth <= 0 {
			k = 0
		}
		if inGroup && !r.Chance(1, 7) { // alternatives are plain atoms, mostly
			k = 0
		}
		sub := func(lo, hi int, grp bool) string {
			return strings.Join(genDepItems(r, u, depth-1, r.Range(lo, hi), grp), " ")
		}
		switch {
		case k < 64:
			out = append(out, genAtom(r, u, true, true))
		case k < 78:
			out = append(out, "|| ( "+sub(1, 3, true)+" )")
		case k < 88:
			out = append(out, r.Pick(flags)+"? ( "+sub(1, 3, false)+" )")
		case k < 92:
			out = append(out, "!"+r.Pick(flags)+"? ( "+sub(1, 2, false)+" )")
		case k < 94:
			out = append(out, "( "+sub(1, 3, false)+" )")
		case k < 96:
			out = append(out, "^^ ( "+sub(1, 3, true)+" )")
		case k < 97:
			out = append(out, "?? ( "+sub(1, 3, true)+" )")
		default:
			if u.chaos > 0 {
				out = append(out, r.Pick([]string{"|| ( )", "( )", "^^ ( " + r.Pick(cats) + "/missing )", "|| ( " + r.Pick(cats) + "/nosuch )",
					"^^ ( " + r.Pick(cats) + "/missing " + r.Pick(cats) + "/absent )"}))
			} else {
				out = append(out, genAtom(r, u, true, true))
			}
		}
	}
	return out
}

// traps: expressions that are inert under the right semantics and fatal (or visible) under a wrong one
func genTrap(r *rng.R, u *universe, owner *gpkg) string {
	missing := r.Pick(cats) + "/" + r.Pick([]string{"missing", "nosuch", "absent"})
	on, off := []string{}, []string{}
	for _, f := range flags {
		if owner != nil && owner.use[f] {
			on = append(on, f)
		} else {
			off = append(off, f)
		}
	}
	off = append(off, "undeclared")
	switch r.Intn(6) {
	case 0, 1: // a conditional on a flag that is off
		return r.Pick(off) + "? ( " + missing + " )"
	case 2: // a negated conditional on a flag that is on
		if len(on) > 0 {
			return "!" + r.Pick(on) + "? ( " + missing + " )"
		}
		return r.Pick(off) + "? ( " + missing + " " + missing + " )"
	case 3: // at-most-one-of nothing installed
		return "?? ( " + missing + " )"
	case 4: // any-of with one alternative installed
		return "|| ( " + missing + " " + u.pkgs[r.Intn(len(u.pkgs))].pn() + " )"
	default: // active conditionals around something installed
		t := u.pkgs[r.Intn(len(u.pkgs))].pn()
		if len(on) > 0 && r.Bool() {
			return r.Pick(on) + "? ( " + t + " )"
		}
		return "!" + r.Pick(off) + "? ( " + t + " )"
	}
}

func genDepString(r *rng.R, u *universe) string {
	return genDepStringFor(r, u, nil)
}

func genDepStringFor(r *rng.R, u *universe, owner *gpkg) string {
	n := r.Heavy(4)
	items := genDepItems(r, u, 3, n, false)
	if owner != nil && r.Chance(1, 3) {
		items = append(items, genTrap(r, u, owner))
	}
	s := strings.Join(items, " ")
	if u.trouble(r, 0, 60, 12) { // an undecodable file (unknown token): the run has to fail, not crash
		s += r.Pick([]string{" [bad", " a/b/c/?", " =x"})
	}
	if r.Chance(1, 3) {
		s += "\n"
	}
	return s
}

func (p *gpkg) toIn(r *rng.R, u *universe) PkgIn {
	var in PkgIn
	in.Cat, in.PF = B(p.cat), B(p.pf())
	// the generator knows name and version separately: the harness's reference cut must agree
	if n, v, ok := pfSplit(p.pf()); !ok || n != p.name || v != p.ver {
		panic(fmt.Sprintf("pfSplit(%q) = %q, %q, %v; generated from name %q version %q", p.pf(), n, v, ok, p.name, p.ver))
	}
	slot := p.slot
	if p.subslot != "" {
		slot += "/" + p.subslot
	}
	if slotOf(slot+"\n") != p.slot {
		panic(fmt.Sprintf("slotOf(%q) = %q, generated from slot %q", slot, slotOf(slot+"\n"), p.slot))
	}
	in.Slot = B(slot + r.Pick([]string{"\n", "\n", "\n", "\n", "", " \n", "\n\n"}))
	iuse := []string{}
	for _, f := range p.iuse {
		switch r.Intn(4) {
		case 0:
			iuse = append(iuse, "+"+f)
		case 1:
			iuse = append(iuse, "-"+f)
		default:
			iuse = append(iuse, f)
		}
	}
	use := []string{}
	for _, f := range p.iuse {
		if p.use[f] {
			use = append(use, f)
		}
	}
	switch r.Intn(8) {
	case 0: // only IUSE
		in.HasIuse, in.Iuse = true, B(strings.Join(iuse, " ")+"\n")
	case 1: // neither file: no declared flags
		if !r.Chance(1, 30) { // (rarely keep USE words that are not declared: outside wf)
			use = nil
		}
		p.iuse, p.use = nil, map[string]bool{}
	default:
		in.HasIuseEff, in.IuseEff = true, B(strings.Join(p.iuse, " ")+"\n")
		if r.Chance(1, 2) {
			in.HasIuse, in.Iuse = true, B(strings.Join(iuse, " ")+"\n")
		}
	}
	if len(use) > 0 || r.Chance(1, 2) {
		in.HasUse, in.Use = true, B(strings.Join(use, " ")+"\n")
	}
	return in
}

func (u *universe) fillDeps(r *rng.R, in *PkgIn, owner *gpkg, nobdeps bool) {
	for k := 0; k < 4; k++ {
		pr := []int{2, 2, 1, 2}[k] // RDEPEND most often present
		if k == 2 || r.Chance(1, pr) {
			in.HasDep[k] = true
			in.Dep[k] = B(genDepStringFor(r, u, owner))
		}
	}
	if nobdeps && r.Chance(1, 2) { // build dependencies do not count with -nobdeps
		k := r.Intn(2)
		in.HasDep[k] = true
		in.Dep[k] = B(strings.TrimSpace(string(in.Dep[k]) + " " + r.Pick(cats) + "/buildonly"))
	}
}

// profile tree
func genProfile(r *rng.R, u *universe, in *Input) {
	nprof := 1 + r.Heavy(4)
	diamond := r.Chance(1, 5) // a shared ancestor whose atom one branch removes and the other inherits again
	if diamond && nprof < 4 {
		nprof = 4 + r.Intn(2)
	}
	dirs := make([]string, nprof)
	pool := []string{"repo/profiles/base", "repo/profiles/arch/amd64", "repo/profiles/default/linux",
		"repo/profiles/releases/23.0", "repo/profiles/features/musl", "repo/profiles/targets/desktop", "repo/profiles/default/linux/amd64"}
	used := map[string]bool{}
	for i := range dirs {
		for {
			d := pool[r.Intn(len(pool))]
			if !used[d] {
				used[d] = true
				dirs[i] = d
				break
			}
		}
	}
	// dirs[0] is the leaf; a profile may name any later one as a parent (acyclic), which yields diamonds
	allAtoms := []string{}
	nodes := make([]ProfNode, nprof)
	for i, d := range dirs {
		n := ProfNode{Path: B(d)}
		if i == nprof-1 || r.Chance(3, 4) {
			n.HasPackages = true
			for k := r.Heavy(3); k >= 0; k-- {
				switch r.Intn(14) {
				case 0:
					n.Packages = append(n.Packages, B("# comment"))
				case 1:
					n.Packages = append(n.Packages, B(""))
				case 2:
					n.Packages = append(n.Packages, B(u.pkgs[r.Intn(len(u.pkgs))].pn())) // non-system line
				case 3:
					if len(allAtoms) > 0 && r.Chance(2, 3) {
						n.Packages = append(n.Packages, B("-*"+allAtoms[r.Intn(len(allAtoms))]))
					} else {
						n.Packages = append(n.Packages, B("-*"+u.pkgs[r.Intn(len(u.pkgs))].pn()))
					}
				case 4, 5:
					if len(allAtoms) > 0 { // an atom listed twice
						n.Packages = append(n.Packages, B("*"+allAtoms[r.Intn(len(allAtoms))]))
						break
					}
					fallthrough
				default:
					a := u.pkgs[r.Intn(len(u.pkgs))].pn()
					if r.Chance(1, 4) {
						a = genAtom(r, u, false, false)
					}
					if u.trouble(r, 0, 12, 5) { // not an atom: the run has to fail, not crash or ignore it
						a = r.Pick([]string{"=x", "a/b/c", ">=sys-apps/alpha", "sys-apps/alpha-1.0", "sys-apps/", "/alpha", "sys-apps/alpha:", "~dev-libs/beta", "\xff\xfe", "sys-apps/alpha[", "%%"})
					}
					allAtoms = append(allAtoms, a)
					n.Packages = append(n.Packages, B("*"+a))
				}
			}
		}
		if i < nprof-1 {
			n.HasParent = true
			np := 1
			if r.Chance(1, 2) {
				np = 2
			}
			seen := map[int]bool{}
			for k := 0; k < np; k++ {
				j := i + 1 + r.Intn(nprof-1-i)
				if seen[j] && !r.Chance(1, 6) {
					continue
				}
				seen[j] = true
				n.Parent = append(n.Parent, B(relPath(d, dirs[j])))
			}
			if r.Chance(1, 8) {
				n.Parent = append(n.Parent, B(""))
			}
		}
		nodes[i] = n
	}
	if diamond {
		z := nprof - 1
		x := ""
		for _, l := range nodes[z].Packages {
			if strings.HasPrefix(string(l), "*") {
				x = string(l)[1:]
			}
		}
		if x == "" {
			x = u.pkgs[r.Intn(len(u.pkgs))].pn()
			nodes[z].HasPackages = true
			nodes[z].Packages = append(nodes[z].Packages, B("*"+x))
		}
		a, b := 1, 2
		if r.Chance(1, 2) {
			a, b = 2, 1
		}
		nodes[0].HasParent, nodes[0].Parent = true, []B{B(relPath(dirs[0], dirs[a])), B(relPath(dirs[0], dirs[b]))}
		nodes[a].HasParent, nodes[a].Parent = true, []B{B(relPath(dirs[a], dirs[z]))}
		nodes[b].HasParent, nodes[b].Parent = true, []B{B(relPath(dirs[b], dirs[z]))}
		rm := a // the branch read first removes the atom; the branch read second brings it back
		if r.Chance(1, 3) {
			rm = b
		}
		nodes[rm].HasPackages = true
		nodes[rm].Packages = append(nodes[rm].Packages, B("-*"+x))
	}
	in.Prof = nodes
	// make.profile: a symlink to the leaf (relative or absolute), or a real directory naming it as parent
	mp := "etc/portage/make.profile"
	switch r.Intn(5) {
	case 0, 1:
		in.Prof = append(in.Prof, ProfNode{Path: B(mp), Link: true, Target: B(relPath("etc/portage", dirs[0]))})
	case 2:
		in.Prof = append(in.Prof, ProfNode{Path: B(mp), Link: true, Target: B(dirs[0]), AbsTarget: true})
	case 3:
		n := ProfNode{Path: B(mp), HasParent: true, Parent: []B{B(relPath(mp, dirs[0]))}}
		if r.Chance(1, 2) {
			n.HasPackages = true
			n.Packages = []B{B("*" + u.pkgs[r.Intn(len(u.pkgs))].pn())}
			if r.Chance(1, 3) && len(allAtoms) > 0 {
				n.Packages = append(n.Packages, B("-*"+allAtoms[r.Intn(len(allAtoms))]))
			}
		}
		in.Prof = append(in.Prof, n)
	default:
		in.ProfileArg = B(dirs[0])
		if u.trouble(r, 0, 10, 6) {
			in.ProfileArg = B("repo/profiles/none")
		}
	}
	if r.Chance(1, 9) { // less tame symbolic links: a link to a link, a profile below a linked directory
		switch r.Intn(3) {
		case 0: // make.profile -> etc/portage/via -> leaf
			for k := range in.Prof {
				if string(in.Prof[k].Path) == mp && in.Prof[k].Link {
					in.Prof[k].Target, in.Prof[k].AbsTarget = B("via"), false
					in.Prof = append(in.Prof, ProfNode{Path: B("etc/portage/via"), Link: true, Target: B(relPath("etc/portage", dirs[0]))})
					break
				}
			}
		case 1: // -profile lnk/<leaf below repo/profiles>, lnk -> repo/profiles
			if len(in.ProfileArg) > 0 && strings.HasPrefix(string(in.ProfileArg), "repo/profiles/") {
				in.Prof = append(in.Prof, ProfNode{Path: B("lnk"), Link: true, Target: B("repo/profiles")})
				in.ProfileArg = B("lnk/" + strings.TrimPrefix(string(in.ProfileArg), "repo/profiles/"))
			}
		case 2: // a parent named through a linked directory
			in.Prof = append(in.Prof, ProfNode{Path: B("repo/alias"), Link: true, Target: B("profiles/default")})
			for k := range in.Prof {
				for j, l := range in.Prof[k].Parent {
					if strings.Contains(string(l), "default/linux") && !in.Prof[k].Link {
						in.Prof[k].Parent[j] = B(strings.Replace(string(l), "default/linux", "../alias/linux", 1))
					}
				}
			}
		}
	}
	if u.trouble(r, 0, 20, 8) { // a parent that does not exist
		k := r.Intn(len(in.Prof))
		if !in.Prof[k].Link {
			in.Prof[k].HasParent = true
			in.Prof[k].Parent = append(in.Prof[k].Parent, B("../gone"))
		}
	}
}

// relPath: "../.." style path from directory `from` to `to` (both relative to the build root)
func relPath(from, to string) string {
	f := strings.Split(from, "/")
	t := strings.Split(to, "/")
	i := 0
	for i < len(f) && i < len(t) && f[i] == t[i] {
		i++
	}
	parts := []string{}
	for k := i; k < len(f); k++ {
		parts = append(parts, "..")
	}
	parts = append(parts, t[i:]...)
	if len(parts) == 0 {
		return "."
	}
	return strings.Join(parts, "/")
}

func shuffleOrder(r *rng.R, n int) []int {
	o := make([]int, n)
	for i := range o {
		o[i] = i
	}
	for j := n - 1; j > 0; j-- {
		m := r.Intn(j + 1)
		o[j], o[m] = o[m], o[j]
	}
	return o
}

func genInput(r *rng.R, scenario int) Input {
	var in Input
	var u *universe
	chaos := 0
	switch k := r.Intn(20); {
	case k < 11:
		chaos = 0
	case k < 17:
		chaos = 1
	default:
		chaos = 2
	}
	if (scenario == 3 || scenario == 4) && !r.Chance(1, 5) {
		chaos = 0
	}
	switch scenario {
	case 3, 4: // a small neighbourhood; the shared atom / the holder of empty groups is added at the end
		u = genUniverse(r, 1+r.Intn(4), 2)
	case 1: // several slots of few names, requested by name: the order of the listing and of ^^ choices
		u = genUniverse(r, 3+r.Intn(6), 9)
	case 2: // a dependency chain / cycle through every package
		u = genUniverse(r, 3+r.Intn(8), 1)
		u.deep = true
	default:
		u = genUniverse(r, 2+r.Heavy(10), 3)
	}
	u.chaos = chaos
	in.NoBdeps = r.Chance(1, 4)
	for _, p := range u.pkgs {
		in.Pkgs = append(in.Pkgs, p.toIn(r, u))
	}
	for i := range in.Pkgs {
		u.fillDeps(r, &in.Pkgs[i], u.pkgs[i], in.NoBdeps)
	}
	if u.deep { // p[i] needs p[i+1], the last one needs the first
		for i := range in.Pkgs {
			j := (i + 1) % len(in.Pkgs)
			k := r.Pick([]string{"2", "2", "3", "1"})
			kk := int(k[0] - '0')
			if in.NoBdeps && kk < 2 {
				kk = 2
			}
			in.Pkgs[i].HasDep[kk] = true
			in.Pkgs[i].Dep[kk] = B(strings.TrimSpace(string(in.Pkgs[i].Dep[kk]) + " " + u.pkgs[j].pn()))
		}
	}
	in.Order = shuffleOrder(r, len(in.Pkgs))
	genProfile(r, u, &in)
	if r.Chance(1, 3) {
		for k := 1 + r.Intn(2); k > 0; k-- {
			a := genAtom(r, u, true, false)
			if r.Chance(1, 4) { // bare name
				a = u.pkgs[r.Intn(len(u.pkgs))].name
			}
			if r.Chance(1, 8) { // a requested blocker of something installed
				a = "!" + u.pkgs[r.Intn(len(u.pkgs))].pn()
			}
			if u.trouble(r, 0, 10, 4) { // not an atom
				a = r.Pick([]string{"=x", "a/b/c", ">=sys-apps/alpha", "sys-apps/alpha-1.0", "!", "!!", "sys-apps/alpha::", "-foo"})
			}
			in.Atoms = append(in.Atoms, B(a))
		}
	}
	if scenario == 1 { // ask for every slot of one name
		in.Atoms = append(in.Atoms, B(u.pkgs[0].pn()))
	}
	if scenario == 3 {
		addSharedAtom(r, u, &in)
	}
	if scenario == 4 { // round 5: empty groups in every position (r5_gen.go)
		addEmptyGroups(r, &in)
	} else if r.Chance(1, 4) { // ... and sprinkled over the texts of the other scenarios
		sprinkleInput(r, &in)
	}
	return in
}

// mkPkg: a hand-made VDB directory (declared flags, enabled flags, RDEPEND / PDEPEND text)
func mkPkg(cat, pf, slot string, declared, enabled []string, rdep, pdep string, useIuseOnly bool) PkgIn {
	var in PkgIn
	in.Cat, in.PF, in.Slot = B(cat), B(pf), B(slot+"\n")
	if useIuseOnly {
		in.HasIuse, in.Iuse = true, B(strings.Join(declared, " ")+"\n")
	} else {
		in.HasIuseEff, in.IuseEff = true, B(strings.Join(declared, " ")+"\n")
	}
	in.HasUse, in.Use = true, B(strings.Join(enabled, " ")+"\n")
	in.HasDep[2], in.Dep[2] = true, B(rdep)
	if pdep != "" {
		in.HasDep[3], in.Dep[3] = true, B(pdep)
	}
	return in
}

// addSharedAtom: several selected packages carry the TEXTUALLY IDENTICAL dependency atom with a
// parent-relative USE dependency ([f=] [!f=] [f?] [!f?], with and without (+)/(-) defaults) while
// their own setting of f differs, and the installed candidates (one, or several slots) are built
// with different settings of f -- so the installed matches of one atom text depend on who asks.
func addSharedAtom(r *rng.R, u *universe, in *Input) {
	f := r.Pick(flags)
	g := r.Pick(flags)
	// the candidates
	nlib := 1 + r.Intn(3)
	states := make([]int, nlib) // 0 off, 1 on, 2 not declared
	for i := range states {
		states[i] = r.Intn(3)
		if r.Chance(2, 3) {
			states[i] = r.Intn(2)
		}
	}
	if nlib >= 2 && r.Chance(3, 4) { // one built with the flag, one without
		states[0], states[1] = 1, 0
		if r.Bool() {
			states[0], states[1] = 0, 1
		}
	}
	libSlots := []string{"1", "2", "3"}
	for i := 0; i < nlib; i++ {
		decl, en := []string{}, []string{}
		if states[i] != 2 {
			decl = append(decl, f)
		}
		if states[i] == 1 {
			en = append(en, f)
		}
		if g != f && r.Bool() {
			decl = append(decl, g)
			if r.Bool() {
				en = append(en, g)
			}
		}
		rdep := ""
		if r.Chance(1, 3) {
			rdep = u.pkgs[r.Intn(len(u.pkgs))].pn()
		}
		in.Pkgs = append(in.Pkgs, mkPkg("dev-libs", fmt.Sprintf("shared-%d.%d", i+1, r.Intn(4)), libSlots[i], decl, en, rdep, "", r.Chance(1, 5)))
	}
	// the one atom text
	form := r.Pick([]string{f + "=", "!" + f + "=", f + "?", "!" + f + "?"})
	switch r.Intn(10) {
	case 0, 1, 2:
		form += "(+)"
	case 3, 4, 5:
		form += "(-)"
	case 6: // the PMS order of default and operator (the parser wants the other one)
		form = strings.Replace(strings.Replace(form, "=", "(+)=", 1), "?", "(-)?", 1)
	}
	if g != f && r.Chance(1, 5) {
		form += "," + r.Pick([]string{g + "?", "!" + g + "=", g + "=(+)", "-" + g + "(-)"})
	}
	atomText := "dev-libs/shared" + r.Pick([]string{"", "", "", ":*", ":=", ":" + libSlots[r.Intn(nlib)], ":" + libSlots[r.Intn(nlib)] + "="}) + "[" + form + "]"
	switch r.Intn(8) {
	case 0:
		atomText = ">=" + strings.Replace(atomText, "dev-libs/shared", "dev-libs/shared-1", 1)
	case 1:
		atomText = "!" + atomText // the same blocker text under different parents
	}
	// the parents: the flag on, off, (sometimes) not declared -- in any order
	pstates := []int{1, 0}
	if r.Chance(1, 3) {
		pstates = append(pstates, r.Intn(3))
	}
	for j := len(pstates) - 1; j > 0; j-- {
		m := r.Intn(j + 1)
		pstates[j], pstates[m] = pstates[m], pstates[j]
	}
	wrapKind := r.Intn(6)
	names := []string{}
	for i, st := range pstates {
		decl, en := []string{}, []string{}
		if st != 2 {
			decl = append(decl, f)
		}
		if st == 1 {
			en = append(en, f)
		}
		if g != f {
			decl = append(decl, g)
			if r.Bool() {
				en = append(en, g)
			}
		}
		text := atomText
		switch wrapKind {
		case 0:
			text = "|| ( " + atomText + " )"
		case 1:
			text = "|| ( " + atomText + " " + r.Pick(cats) + "/missing )"
		case 2:
			if g != f {
				text = "!undeclared? ( " + atomText + " )"
			}
		}
		if r.Chance(1, 3) {
			text = u.pkgs[r.Intn(len(u.pkgs))].pn() + " " + text
		}
		rdep, pdep := text, ""
		if r.Chance(1, 4) {
			rdep, pdep = "", text
		}
		name := fmt.Sprintf("asker%c", 'a'+i)
		names = append(names, "app-misc/"+name)
		in.Pkgs = append(in.Pkgs, mkPkg("app-misc", name+"-1."+fmt.Sprint(i), "0", decl, en, rdep, pdep, r.Chance(1, 6)))
	}
	// how the askers get selected: asked for directly, or one through the other / through a third package
	switch r.Intn(4) {
	case 0: // the first asker pulls the others in
		k := len(in.Pkgs) - len(names)
		in.Pkgs[k].HasDep[2] = true
		in.Pkgs[k].Dep[2] = B(strings.TrimSpace(string(in.Pkgs[k].Dep[2]) + " " + strings.Join(names[1:], " ")))
		in.Atoms = append(in.Atoms, B(names[0]))
	case 1: // a third package needs all of them
		in.Pkgs = append(in.Pkgs, mkPkg("app-misc", "needsall-2", "0", nil, nil, strings.Join(names, " "), "", false))
		in.Atoms = append(in.Atoms, B("app-misc/needsall"))
	default:
		for _, n := range names {
			in.Atoms = append(in.Atoms, B(n))
		}
	}
	in.Order = shuffleOrder(r, len(in.Pkgs))
}

func Generate(r *rng.R, tier string, n int, emit func(*common.Case)) {
	for i := 0; i < n; i++ {
		cr := r.Split()
		sub := cr.U64()
		cr = rng.New(sub)
		scenario := 0
		switch i % 6 {
		case 1:
			scenario = 1
		case 3:
			scenario = 2
		case 5, 2:
			if i%12 != 2 { // i%6 == 5, and every second i%6 == 2
				scenario = 3
			}
		case 4:
			if i%12 == 4 { // every second i%6 == 4: empty groups (round 5)
				scenario = 4
			}
		}
		in := genInput(cr, scenario)
		c := Run(in)
		c.Sub = sub
		c.Classes = append(c.Classes, fmt.Sprintf("scenario=%d", scenario))
		emit(c)
	}
}
