package c05

import (
	"fmt"
	"strings"

	"lcverif/common"
	"lcverif/rng"
)

// ---------------------------------------------------------------- generators
//
// Structured, mostly-valid stream: a universe of package names in a few categories, some in
// several slots, USE/IUSE settings, dependency expressions (plain, versioned, slotted, USE
// dependencies, blockers, any-of / exactly-one / at-most-one groups, USE conditionals, nested
// groups, cycles), a profile tree (parents, diamonds, symlinked make.profile, "*atom" and
// "-*atom" lines, repeated atoms) and extra user atoms.

var cats = []string{"sys-apps", "dev-libs", "app-misc", "virtual", "dev-lang", "net-misc"}
var names = []string{"alpha", "beta", "gamma", "delta", "eps", "zeta", "eta", "theta", "iota", "kappa"}
var flags = []string{"ssl", "nls", "X", "static", "python", "doc"}
var versions = []string{"1.0", "1.2.3", "2.0-r1", "0.9_rc1", "3", "10.1", "1.10", "1.9", "2.4b", "4.0_p2-r3"}
var slotPool = []string{"0", "1", "2", "3", "3.10", "3.9", "1.0", "10", "stable"}

type gpkg struct {
	cat, name, ver, slot, subslot string
	iuse                         []string // declared flags
	use                          map[string]bool
}

func (p *gpkg) pn() string { return p.cat + "/" + p.name }
func (p *gpkg) pf() string { return p.name + "-" + p.ver }

type universe struct {
	pkgs []*gpkg
}

func genUniverse(r *rng.R) *universe {
	u := &universe{}
	n := 2 + r.Heavy(10)
	taken := map[string]bool{} // pn:slot and cat/pf
	for len(u.pkgs) < n {
		var p gpkg
		if len(u.pkgs) > 0 && r.Chance(1, 4) { // another slot of an existing package
			o := u.pkgs[r.Intn(len(u.pkgs))]
			p.cat, p.name = o.cat, o.name
		} else {
			p.cat, p.name = r.Pick(cats), r.Pick(names)
			if r.Chance(1, 12) && len(u.pkgs) > 0 { // same base name in another category (bare-name ambiguity)
				p.name = u.pkgs[r.Intn(len(u.pkgs))].name
			}
		}
		p.ver = r.Pick(versions)
		p.slot = r.Pick(slotPool)
		if r.Chance(2, 3) {
			p.slot = r.Pick(slotPool[:4])
		}
		if r.Chance(1, 5) {
			p.subslot = r.Pick([]string{"1.2", "5", "0"})
		}
		if taken[p.pn()+":"+p.slot] || taken[p.cat+"/"+p.pf()] {
			continue
		}
		// slot keys are compared after normalisation: 1 and 1.0 differ, but 01 vs 1 would collide; the pool avoids that
		taken[p.pn()+":"+p.slot] = true
		taken[p.cat+"/"+p.pf()] = true
		p.use = map[string]bool{}
		for _, f := range flags {
			if r.Chance(1, 2) {
				p.iuse = append(p.iuse, f)
				if r.Chance(1, 2) {
					p.use[f] = true
				}
			}
		}
		u.pkgs = append(u.pkgs, &p)
	}
	return u
}

// an atom aimed at package t (or at a missing package)
func genAtom(r *rng.R, u *universe, blockerOK bool, useDepOK bool) string {
	if r.Chance(1, 14) {
		return r.Pick(cats) + "/" + r.Pick([]string{"missing", "nosuch", "absent"})
	}
	t := u.pkgs[r.Intn(len(u.pkgs))]
	base := t.pn()
	s := base
	switch r.Intn(12) {
	case 0:
		s = ">=" + base + "-" + t.ver
	case 1:
		s = "<" + base + "-" + r.Pick(versions)
	case 2:
		s = "=" + base + "-" + t.ver
	case 3:
		s = "~" + base + "-" + strings.Split(t.ver, "-r")[0]
	case 4:
		s = ">" + base + "-" + r.Pick(versions)
	case 5:
		s = "<=" + base + "-" + t.ver
	}
	switch r.Intn(10) {
	case 0:
		s += ":" + t.slot
	case 1:
		s += ":" + r.Pick(slotPool)
	case 2:
		s += ":="
	case 3:
		s += ":*"
	case 4:
		s += ":" + t.slot + "="
	}
	if useDepOK && r.Chance(1, 6) {
		f := r.Pick(flags)
		s += "[" + r.Pick([]string{f, "-" + f, f + "?", f + "=", "!" + f + "?", "!" + f + "=", f + "(+)", f + "(-)", "-" + f + "(-)"}) + "]"
	}
	if blockerOK && r.Chance(1, 12) {
		s = r.Pick([]string{"!", "!!"}) + s
	}
	return s
}

func genDepItems(r *rng.R, u *universe, depth int, n int, inGroup bool) []string {
	out := []string{}
	for i := 0; i < n; i++ {
		k := r.Intn(100)
		if depth <= 0 {
			k = 0
		}
		sub := func(lo, hi int, grp bool) string {
			return strings.Join(genDepItems(r, u, depth-1, r.Range(lo, hi), grp), " ")
		}
		switch {
		case k < 66:
			out = append(out, genAtom(r, u, true, true))
		case k < 78:
			out = append(out, "|| ( "+sub(1, 3, true)+" )")
		case k < 86:
			out = append(out, r.Pick(flags)+"? ( "+sub(1, 3, false)+" )")
		case k < 90:
			out = append(out, "!"+r.Pick(flags)+"? ( "+sub(1, 2, false)+" )")
		case k < 93:
			out = append(out, "( "+sub(0, 3, false)+" )")
		case k < 96:
			out = append(out, "^^ ( "+sub(1, 3, true)+" )")
		case k < 98:
			out = append(out, "?? ( "+sub(1, 3, true)+" )")
		default:
			out = append(out, "|| ( )")
		}
	}
	return out
}

func genDepString(r *rng.R, u *universe) string {
	n := r.Heavy(4)
	s := strings.Join(genDepItems(r, u, 3, n, false), " ")
	if r.Chance(1, 40) { // an undecodable file (unbalanced or unknown token): the run has to fail, not crash
		s += r.Pick([]string{" [bad", " a/b/c/?", " =x"})
	}
	if r.Chance(1, 3) {
		s += "\n"
	}
	return s
}

func (p *gpkg) toIn(r *rng.R, u *universe) PkgIn {
	var in PkgIn
	in.Cat, in.PF = B(p.cat), B(p.pf())
	slot := p.slot
	if p.subslot != "" {
		slot += "/" + p.subslot
	}
	in.Slot = B(slot + "\n")
	iuse := []string{}
	for _, f := range p.iuse {
		switch r.Intn(4) {
		case 0:
			iuse = append(iuse, "+"+f)
		case 1:
			iuse = append(iuse, "-"+f)
		default:
			iuse = append(iuse, f)
		}
	}
	use := []string{}
	for _, f := range p.iuse {
		if p.use[f] {
			use = append(use, f)
		}
	}
	switch r.Intn(8) {
	case 0: // only IUSE
		in.HasIuse, in.Iuse = true, B(strings.Join(iuse, " ")+"\n")
	case 1: // neither file: no declared flags
		if !r.Chance(1, 8) { // (rarely keep USE words that are not declared: outside wf)
			use = nil
		}
	default:
		in.HasIuseEff, in.IuseEff = true, B(strings.Join(p.iuse, " ")+"\n")
		if r.Chance(1, 2) {
			in.HasIuse, in.Iuse = true, B(strings.Join(iuse, " ")+"\n")
		}
	}
	if len(use) > 0 || r.Chance(1, 2) {
		in.HasUse, in.Use = true, B(strings.Join(use, " ")+"\n")
	}
	for k := 0; k < 4; k++ {
		pr := []int{3, 3, 1, 4}[k] // RDEPEND most often present
		if r.Chance(pr-1+1, pr+1) || k == 2 {
			in.HasDep[k] = true
			in.Dep[k] = B(genDepString(r, u))
		}
	}
	return in
}

// profile tree
func genProfile(r *rng.R, u *universe, in *Input) {
	nprof := 1 + r.Heavy(4)
	dirs := make([]string, nprof)
	pool := []string{"repo/profiles/base", "repo/profiles/arch/amd64", "repo/profiles/default/linux",
		"repo/profiles/releases/23.0", "repo/profiles/features/musl", "repo/profiles/targets/desktop", "repo/profiles/default/linux/amd64"}
	used := map[string]bool{}
	for i := range dirs {
		for {
			d := pool[r.Intn(len(pool))]
			if !used[d] {
				used[d] = true
				dirs[i] = d
				break
			}
		}
	}
	// dirs[0] is the leaf; a profile may name any later one as a parent (acyclic), which yields diamonds
	allAtoms := []string{}
	nodes := make([]ProfNode, nprof)
	for i, d := range dirs {
		n := ProfNode{Path: B(d)}
		if i == nprof-1 || r.Chance(3, 4) {
			n.HasPackages = true
			for k := r.Heavy(4); k >= 0; k-- {
				switch r.Intn(12) {
				case 0:
					n.Packages = append(n.Packages, B("# comment"))
				case 1:
					n.Packages = append(n.Packages, B(""))
				case 2:
					n.Packages = append(n.Packages, B(u.pkgs[r.Intn(len(u.pkgs))].pn())) // non-system line
				case 3:
					if len(allAtoms) > 0 && r.Chance(1, 2) {
						n.Packages = append(n.Packages, B("-*"+allAtoms[r.Intn(len(allAtoms))]))
					} else {
						n.Packages = append(n.Packages, B("-*"+u.pkgs[r.Intn(len(u.pkgs))].pn()))
					}
				case 4:
					if len(allAtoms) > 0 { // an atom listed twice
						n.Packages = append(n.Packages, B("*"+allAtoms[r.Intn(len(allAtoms))]))
						break
					}
					fallthrough
				default:
					a := genAtom(r, u, false, false)
					if r.Chance(4, 5) {
						a = u.pkgs[r.Intn(len(u.pkgs))].pn()
					}
					allAtoms = append(allAtoms, a)
					n.Packages = append(n.Packages, B("*"+a))
				}
			}
		}
		if i < nprof-1 {
			n.HasParent = true
			np := 1
			if r.Chance(1, 3) {
				np = 2
			}
			seen := map[int]bool{}
			for k := 0; k < np; k++ {
				j := i + 1 + r.Intn(nprof-1-i)
				if seen[j] && !r.Chance(1, 6) {
					continue
				}
				seen[j] = true
				n.Parent = append(n.Parent, B(relPath(d, dirs[j])))
			}
			if r.Chance(1, 8) {
				n.Parent = append(n.Parent, B(""))
			}
		}
		nodes[i] = n
	}
	in.Prof = nodes
	// make.profile: a symlink to the leaf (relative or absolute), or a real directory naming it as parent
	mp := "etc/portage/make.profile"
	switch r.Intn(5) {
	case 0, 1:
		in.Prof = append(in.Prof, ProfNode{Path: B(mp), Link: true, Target: B(relPath("etc/portage", dirs[0]))})
	case 2:
		in.Prof = append(in.Prof, ProfNode{Path: B(mp), Link: true, Target: B(dirs[0]), AbsTarget: true})
	case 3:
		n := ProfNode{Path: B(mp), HasParent: true, Parent: []B{B(relPath(mp, dirs[0]))}}
		if r.Chance(1, 2) {
			n.HasPackages = true
			n.Packages = []B{B("*" + u.pkgs[r.Intn(len(u.pkgs))].pn())}
		}
		in.Prof = append(in.Prof, n)
	default:
		in.ProfileArg = B(dirs[0])
		if r.Chance(1, 10) {
			in.ProfileArg = B("repo/profiles/none")
		}
	}
}

// relPath: "../.." style path from directory `from` to `to` (both relative to the build root)
func relPath(from, to string) string {
	f := strings.Split(from, "/")
	t := strings.Split(to, "/")
	i := 0
	for i < len(f) && i < len(t) && f[i] == t[i] {
		i++
	}
	parts := []string{}
	for k := i; k < len(f); k++ {
		parts = append(parts, "..")
	}
	parts = append(parts, t[i:]...)
	if len(parts) == 0 {
		return "."
	}
	return strings.Join(parts, "/")
}

func genInput(r *rng.R) Input {
	var in Input
	u := genUniverse(r)
	for _, p := range u.pkgs {
		in.Pkgs = append(in.Pkgs, p.toIn(r, u))
	}
	in.Order = make([]int, len(in.Pkgs))
	for i := range in.Order {
		in.Order[i] = i
	}
	for j := len(in.Order) - 1; j > 0; j-- {
		m := r.Intn(j + 1)
		in.Order[j], in.Order[m] = in.Order[m], in.Order[j]
	}
	genProfile(r, u, &in)
	if r.Chance(1, 3) {
		for k := 1 + r.Intn(2); k > 0; k-- {
			a := genAtom(r, u, true, false)
			if r.Chance(1, 4) { // bare name
				a = u.pkgs[r.Intn(len(u.pkgs))].name
			}
			in.Atoms = append(in.Atoms, B(a))
		}
	}
	in.NoBdeps = r.Chance(1, 4)
	return in
}

func Generate(r *rng.R, tier string, n int, emit func(*common.Case)) {
	for i := 0; i < n; i++ {
		cr := r.Split()
		sub := cr.U64()
		cr = rng.New(sub)
		in := genInput(cr)
		c := Run(in)
		c.Sub = sub
		c.Classes = append(c.Classes, fmt.Sprintf("stream=%s", "structured"))
		emit(c)
	}
}
