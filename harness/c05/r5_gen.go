package c05

// Round 5: EMPTY GROUPS in dependency strings (PMS 8.2: "( )", "flag? ( )", "!flag? ( )", "|| ( )" ...
// are what eclass variable expansion leaves behind; an empty group contributes nothing, and a
// USE-conditional group governs its own parenthesised body only).
//
//   * addEmptyGroups (scenario 4): a selected package ("holder") whose dependency file has empty
//     groups in every position -- first / middle / last item of the whole string or of a group,
//     nested ("a? ( b? ( ) )", "( ( ) )"), several in a row -- each immediately followed by a plain
//     atom, a blocker, an all-of group, an any-of group or another conditional, with the holder's
//     own flag on, off or undeclared.  Every follower names a target that has a dependency of its
//     own (a sub-closure), so an item that is attached to the wrong group shows in the stage set.
//   * sprinkleEmptyGroups: in every other scenario, now and then, empty groups are inserted at item
//     boundaries of the dependency texts the ordinary generators made.

import (
	"fmt"
	"strings"

	"lcverif/rng"
)

var emptyWS = []string{" ", " ", " ", "  ", "\t", "\n", " \n "}

// emptyGroupText: one empty group; cond = a flag name to use for conditional forms
func emptyGroupText(r *rng.R, cond []string, risky bool) string {
	ws := r.Pick(emptyWS)
	f := r.Pick(cond)
	g := r.Pick(cond)
	body := "(" + ws + ")"
	k := r.Intn(20)
	switch {
	case k < 6:
		return f + "? " + body
	case k < 10:
		return "!" + f + "? " + body
	case k < 12:
		return body
	case k < 13:
		return "?? " + body
	case k < 15: // nested: the inner group is the only item of the outer one
		return r.Pick([]string{"", "!"}) + f + "? ( " + r.Pick([]string{"", "!"}) + g + "? " + body + " )"
	case k < 16:
		return r.Pick([]string{f + "? ", "!" + f + "? ", ""}) + "( " + body + " )"
	case k < 17: // two in a row inside a group
		return f + "? ( !" + g + "? " + body + " " + body + " )"
	case k < 18:
		return f + "? " + body + " !" + f + "? " + body
	default:
		if risky { // an any-of / exactly-one-of group without alternatives cannot be satisfied
			return r.Pick([]string{"|| ", "^^ "}) + body
		}
		return f + "? " + body
	}
}

type egTarget struct {
	pn   string
	leaf string
}

// addEmptyGroups appends the holder, its targets and their leaves to the input and requests the holder.
func addEmptyGroups(r *rng.R, in *Input) {
	tag := r.Pick([]string{"", "x", "q"})
	nt := 2 + r.Intn(3)
	targets := make([]egTarget, nt)
	for i := range targets {
		targets[i] = egTarget{pn: fmt.Sprintf("dev-libs/tgt%s%c", tag, 'a'+i), leaf: fmt.Sprintf("dev-libs/leaf%s%c", tag, 'a'+i)}
	}
	// the holder's flags
	pool := []string{"ssl", "nls", "X", "static", "python", "doc", "abi_x86_32", "python_targets_python3_11", "elibc_musl"}
	nf := 1 + r.Intn(3)
	decl, en, cond := []string{}, []string{}, []string{}
	for len(decl) < nf {
		f := r.Pick(pool)
		dup := false
		for _, d := range decl {
			dup = dup || d == f
		}
		if dup {
			continue
		}
		decl = append(decl, f)
		if r.Bool() {
			en = append(en, f)
		}
	}
	cond = append(cond, decl...)
	if r.Chance(1, 4) {
		cond = append(cond, "undeclared")
	}
	on := func(f string) bool {
		for _, e := range en {
			if e == f {
				return true
			}
		}
		return false
	}
	missing := "dev-libs/" + r.Pick([]string{"missing", "nosuch", "absent"})
	bystander := "app-misc/bystander" + tag // installed, needed by nobody
	used := map[int]bool{}
	tgt := func() string {
		i := r.Intn(nt)
		used[i] = true
		return targets[i].pn
	}
	// what stands right behind an empty group
	follower := func() string {
		k := r.Intn(20)
		switch {
		case k < 8:
			return tgt()
		case k < 10:
			return r.Pick([]string{"!", "!!"}) + r.Pick([]string{missing, bystander, bystander})
		case k < 11: // a blocker of something that is selected: the run has to fail
			return "!" + tgt()
		case k < 14:
			return "( " + tgt() + " " + tgt() + " )"
		case k < 16:
			return "|| ( " + r.Pick([]string{missing + " " + tgt(), tgt() + " " + missing, tgt() + " " + tgt(), tgt()}) + " )"
		case k < 17:
			return r.Pick([]string{"^^", "??"}) + " ( " + tgt() + " )"
		default:
			f := r.Pick(cond)
			neg := r.Bool()
			body := tgt()
			if on(f) == neg && r.Chance(1, 3) { // an inactive conditional may hold anything
				body = missing
			}
			s := f + "? ( " + body + " )"
			if neg {
				s = "!" + s
			}
			return s
		}
	}
	risky := r.Chance(1, 8)
	seq := func(n int) []string { // n items, at least one empty group, each position equally likely
		items := []string{}
		at := r.Intn(n)
		for i := 0; i < n; i++ {
			if i == at || r.Chance(1, 4) {
				items = append(items, emptyGroupText(r, cond, risky))
			} else {
				items = append(items, follower())
			}
		}
		return items
	}
	var text string
	switch r.Intn(8) {
	case 0, 1, 2, 3: // in the whole string: first, middle or last; mostly with something right behind it
		text = strings.Join(seq(1+r.Intn(4)), " ")
		if r.Chance(2, 3) {
			text = emptyGroupText(r, cond, false) + " " + follower() + " " + text
		}
	case 4: // inside an all-of group
		text = "( " + strings.Join(seq(2+r.Intn(3)), " ") + " ) " + follower()
	case 5: // inside a conditional (active or not)
		f := r.Pick(cond)
		text = r.Pick([]string{"", "!"}) + f + "? ( " + strings.Join(seq(2+r.Intn(3)), " ") + " ) " + follower()
	case 6: // exactly the shape "cond ( ) item" and nothing else
		text = r.Pick([]string{"", "!"}) + r.Pick(cond) + "? (" + r.Pick(emptyWS) + ") " + follower()
	default: // the empty group closes the string
		text = follower() + " " + emptyGroupText(r, cond, false)
	}
	if r.Chance(1, 5) {
		text += "\n"
	}
	// which file carries it
	holder := mkPkg("app-misc", "holder"+tag+"-"+r.Pick([]string{"1", "2.1", "0.9-r2"}), "0", decl, en, "", "", r.Chance(1, 6))
	holder.HasDep[2] = false
	k := 2
	switch r.Intn(8) {
	case 0:
		k = 3
	case 1:
		k = 1
		in.NoBdeps = false
	case 2:
		k = 0
		in.NoBdeps = false
	}
	holder.HasDep[k], holder.Dep[k] = true, B(text)
	if k != 2 && r.Bool() {
		holder.HasDep[2], holder.Dep[2] = true, B(tgt())
	}
	in.Pkgs = append(in.Pkgs, holder)
	for i, t := range targets {
		if !used[i] && r.Bool() {
			continue // not every target is installed when nobody names it
		}
		name := strings.TrimPrefix(t.pn, "dev-libs/")
		leafName := strings.TrimPrefix(t.leaf, "dev-libs/")
		in.Pkgs = append(in.Pkgs, mkPkg("dev-libs", name+"-1."+fmt.Sprint(i), "0", nil, nil, t.leaf, "", false))
		in.Pkgs = append(in.Pkgs, mkPkg("dev-libs", leafName+"-3", r.Pick([]string{"0", "2"}), nil, nil, "", "", false))
	}
	in.Pkgs = append(in.Pkgs, mkPkg("app-misc", "bystander"+tag+"-4", "0", nil, nil, "", "", false))
	in.Atoms = append(in.Atoms, B("app-misc/holder"+tag))
	in.Order = shuffleOrder(r, len(in.Pkgs))
}

// sprinkleEmptyGroups inserts empty groups at item boundaries of an existing dependency text: before
// any token that does not belong to the head of a group (an operator or a condition and its opening
// parenthesis stay together), or at the end.  Inside any-of / exactly-one-of / at-most-one-of groups
// nothing is inserted (a group as an alternative is known finding 1).
func sprinkleEmptyGroups(r *rng.R, text string, cond []string) string {
	toks := refFields(text)
	if _, ok := refParse(text); !ok {
		return text
	}
	stack := []bool{false} // is the enclosing group a some-of group?
	pendingSome := false
	out := []string{}
	n := 1 + r.Intn(2)
	places := map[int]bool{}
	for ; n > 0; n-- {
		places[r.Intn(len(toks)+1)] = true
	}
	headOpen := false // the next token is the "(" of an operator / condition
	for i, t := range toks {
		if places[i] && !headOpen && !stack[len(stack)-1] {
			out = append(out, emptyGroupText(r, cond, false))
		}
		out = append(out, t)
		switch {
		case t == "(":
			stack = append(stack, pendingSome)
			pendingSome, headOpen = false, false
		case t == ")":
			if len(stack) > 1 {
				stack = stack[:len(stack)-1]
			}
		case t == "||" || t == "^^" || t == "??":
			pendingSome, headOpen = true, true
		default:
			if _, _, ok := condToken(t); ok {
				pendingSome, headOpen = false, true
			}
		}
	}
	if places[len(toks)] {
		out = append(out, emptyGroupText(r, cond, false))
	}
	s := strings.Join(out, " ")
	if strings.HasSuffix(text, "\n") {
		s += "\n"
	}
	return s
}

// sprinkleInput: one dependency file in six of an ordinary case gets empty groups.
func sprinkleInput(r *rng.R, in *Input) {
	for i := range in.Pkgs {
		for k := 0; k < 4; k++ {
			if in.Pkgs[i].HasDep[k] && r.Chance(1, 6) {
				cond := append([]string{}, flags...)
				in.Pkgs[i].Dep[k] = B(sprinkleEmptyGroups(r, string(in.Pkgs[i].Dep[k]), cond))
			}
		}
	}
}
