package c05

// Reference reading of a dependency string (PMS 8.2), independent of depend.DecodeDependencies.
//
// Until round 5 the parse tree handed to the Coq model was the one the decoder under test had
// built, so a decoder that attaches an item to the wrong group went unnoticed by this check: model,
// predicate and implementation all worked from the same wrong tree.  Now the tree of every
// dependency file that is a PMS dependency string is built HERE, from the grammar
//
//	items := item*
//	item  := atom | "(" items ")" | "||" "(" items ")" | "^^" "(" items ")" | "??" "(" items ")"
//	       | flag"?" "(" items ")" | "!"flag"?" "(" items ")"
//
// (tokens separated by white space; a group may be empty; a USE-conditional group owns exactly its
// parenthesised body), and the text goes to Coq beside the tree: C05.texts_ok re-derives the token
// sequence of the tree and compares it with the tokens of the text, so the tie between the tree the
// theorems speak about and the file on disk is checked inside Coq for every case.  Only the atoms
// stay an oracle of the real code (one word -> name, blocker, installed matches; properties C13/C14).
//
// A text that is not a PMS dependency string (unbalanced, an operator without its group, a word
// that is no atom, control bytes as separators ...) is outside the grammar: there the decoder's own
// answer (an error, or the tree of one of its recorded leniencies) is handed over as before and no
// tie is claimed.

import (
	"strings"

	q "lcverif/coqfmt"

	"potano.layercake/portage/atom"
	"potano.layercake/portage/depend"
)

type refKind int

const (
	rkAtom refKind = iota
	rkAll
	rkAny
	rkOne
	rkMost
	rkUse
	rkNuse
)

type refDep struct {
	kind refKind
	flag string
	word string             // atom text
	atom *depend.DependAtom // the real parser's reading of that one word
	deps []*refDep
}

func isSpaceByte(c byte) bool {
	return c == ' ' || c == '\t' || c == '\n' || c == '\v' || c == '\f' || c == '\r'
}

// refFields: strings.Fields restricted to the six ASCII white-space bytes (= Lib/Fields.fields).
func refFields(s string) []string {
	out := []string{}
	i := 0
	for i < len(s) {
		for i < len(s) && isSpaceByte(s[i]) {
			i++
		}
		j := i
		for j < len(s) && !isSpaceByte(s[j]) {
			j++
		}
		if j > i {
			out = append(out, s[i:j])
		}
		i = j
	}
	return out
}

func isAlnum(c byte) bool {
	return c >= '0' && c <= '9' || c >= 'a' && c <= 'z' || c >= 'A' && c <= 'Z'
}

// PMS 3.1.4: a USE flag name is [A-Za-z0-9+_@-]+ and begins with an alphanumeric character.
func flagNameOK(f string) bool {
	if len(f) == 0 || !isAlnum(f[0]) {
		return false
	}
	for i := 0; i < len(f); i++ {
		c := f[i]
		if !(isAlnum(c) || c == '+' || c == '_' || c == '@' || c == '-') {
			return false
		}
	}
	return true
}

// condToken: "flag?" / "!flag?" -> (flag, negated, true)
func condToken(t string) (string, bool, bool) {
	if len(t) < 2 || t[len(t)-1] != '?' {
		return "", false, false
	}
	f := t[:len(t)-1]
	neg := false
	if f[0] == '!' {
		neg = true
		f = f[1:]
	}
	if !flagNameOK(f) {
		return "", false, false
	}
	return f, neg, true
}

// atomWord asks the real atom parser about ONE word (a single-atom dependency string goes through
// no group logic of the decoder).
func atomWord(w string) (da *depend.DependAtom) {
	defer func() {
		if recover() != nil {
			da = nil
		}
	}()
	for i := 0; i < len(w); i++ {
		if w[i] < ' ' || w[i] == 0x7f {
			return nil
		}
	}
	deps, err := depend.DecodeDependencies([]byte(w))
	if err != nil || len(deps) != 1 {
		return nil
	}
	a, ok := deps[0].(*depend.DependAtom)
	if !ok {
		return nil
	}
	return a
}

type refParser struct {
	toks []string
	pos  int
}

// items reads items up to the closing parenthesis of the current group (nested) or the end of the
// text (top level).
func (p *refParser) items(nested bool) ([]*refDep, bool) {
	out := []*refDep{}
	for {
		if p.pos >= len(p.toks) {
			return out, !nested
		}
		t := p.toks[p.pos]
		if t == ")" {
			if !nested {
				return nil, false
			}
			p.pos++
			return out, true
		}
		p.pos++
		kind := rkAtom
		flag := ""
		switch t {
		case "(":
			kind = rkAll
			p.pos-- // the parenthesis is consumed below
		case "||":
			kind = rkAny
		case "^^":
			kind = rkOne
		case "??":
			kind = rkMost
		default:
			if f, neg, ok := condToken(t); ok {
				kind, flag = rkUse, f
				if neg {
					kind = rkNuse
				}
			}
		}
		if kind == rkAtom {
			da := atomWord(t)
			if da == nil {
				return nil, false
			}
			out = append(out, &refDep{kind: rkAtom, word: t, atom: da})
			continue
		}
		if p.pos >= len(p.toks) || p.toks[p.pos] != "(" {
			return nil, false // an operator or a condition owns a parenthesised group, nothing else
		}
		p.pos++
		body, ok := p.items(true)
		if !ok {
			return nil, false
		}
		out = append(out, &refDep{kind: kind, flag: flag, deps: body})
	}
}

// refParse: the PMS reading of a dependency string, or ok=false when the text is not one.
func refParse(text string) ([]*refDep, bool) {
	for i := 0; i < len(text); i++ {
		if c := text[i]; (c < ' ' && !isSpaceByte(c)) || c >= 0x7f {
			return nil, false
		}
	}
	p := &refParser{toks: refFields(text)}
	return p.items(false)
}

// realShape / refShape: a canonical text of the tree (kinds, flags, atom texts) -- used only to tag
// cases on which the decoder under test read the text differently (input-distribution statistics
// and the replay description; the verdict is Coq's).
func refShape(ds []*refDep) string {
	var b strings.Builder
	for _, d := range ds {
		switch d.kind {
		case rkAtom:
			b.WriteString("A<" + d.atom.String() + ">")
		default:
			b.WriteString([]string{"", "all", "any", "one", "most", "use:", "nuse:"}[d.kind] + d.flag + "(" + refShape(d.deps) + ")")
		}
	}
	return b.String()
}

func realShape(ds []depend.PackageDependency) string {
	var b strings.Builder
	for _, d := range ds {
		switch x := d.(type) {
		case *depend.DependAtom:
			b.WriteString("A<" + x.String() + ">")
		case *depend.ConditionalPackageDependency:
			k := "?"
			switch x.Type {
			case depend.Pkg_dep_all:
				k = "all"
			case depend.Pkg_dep_any_of:
				k = "any"
			case depend.Pkg_dep_exactly_one_of:
				k = "one"
			case depend.Pkg_dep_at_most_one_of:
				k = "most"
			case depend.Pkg_dep_when_use_set:
				k = "use:" + x.UseFlag()
			case depend.Pkg_dep_when_use_unset:
				k = "nuse:" + x.UseFlag()
			}
			b.WriteString(k + "(" + realShape(x.Deps) + ")")
		}
	}
	return b.String()
}

// refTerm: the Gallina term (type Resolve.dep) of a reference tree; the installed matches of every
// atom are asked of the real matcher in the owning package's USE context, as depTerm does.
func refTerm(d *refDep, ctxUse atom.UseFlagMap, pkgs []*pkgRec, cnt *counter, depth int, inGroup bool) string {
	if depth > cnt.depth {
		cnt.depth = depth
	}
	if d.kind == rkAtom {
		x := d.atom
		cnt.atoms++
		if x.Blocker {
			cnt.blockers++
		}
		pn := x.PackageName()
		ids := matchIDs(x, ctxUse, pkgs, func(p *pkgRec) bool { return p.pn == pn })
		if cnt.byText != nil {
			if cnt.byText[x.String()] == nil {
				cnt.byText[x.String()] = map[string]bool{}
			}
			cnt.byText[x.String()][strings.Join(ids, ",")] = true
		}
		return q.App("DAtom", q.App("MkAtom", q.Hx(pn), q.Bool(x.Blocker), q.List(ids)))
	}
	var k string
	grp := false
	switch d.kind {
	case rkAll:
		k = "GAll"
	case rkAny:
		k, grp = "GAny", true
	case rkOne:
		k, grp = "GOne", true
	case rkMost:
		k, grp = "GMost", true
	case rkUse:
		k = q.App("GUse", q.Hx(d.flag))
		cnt.conds++
	case rkNuse:
		k = q.App("GNuse", q.Hx(d.flag))
		cnt.conds++
	}
	if grp {
		cnt.groups++
	}
	if inGroup {
		cnt.compoundAlt++
	}
	if len(d.deps) == 0 {
		cnt.emptyGroups++
	}
	items := make([]string, len(d.deps))
	for i, c := range d.deps {
		items[i] = refTerm(c, ctxUse, pkgs, cnt, depth+1, grp)
	}
	return q.App("DGrp", k, q.List(items))
}
