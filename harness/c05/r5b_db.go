package c05

// The package database of a case, read by the harness from its OWN input (round 5b).
//
// Until now the database handed to the Coq model and predicate -- which directories exist, each
// directory's package name and slot key, whether the set is collision-free -- came out of a second
// call of vdb.GetInstalledPackageList and of av.PackageName()/av.GetSlot(), i.e. out of the code under
// test: a loader that loses a directory, cuts PF at the wrong hyphen or reads "0/1.2" as slot "1.2"
// moved model, predicate and implementation together, or pushed the case outside wf.  Now
//
//   - the directories are in.Pkgs (cross-checked with the harness's own os.ReadDir of what it wrote);
//   - the package name is PF without its version, cut by pfSplit below (PMS 3.2: the version is the
//     suffix num(.num)*[a-z]?(_(alpha|beta|pre|rc|p)num?)*(-rnum)? behind a hyphen; Coq re-checks the cut:
//     C05.name_tied, unique by C05_pf_split_unique; the generator, which knows name and version
//     separately, cross-checks it too);
//   - the slot is the SLOT text the harness wrote, white space trimmed, before the first "/"; its
//     comparable key (digit runs zero-padded to five) is re-derived inside Coq (C05.slot_key);
//   - "complete" is the harness's own collision check on (name, slot key) and on directory names;
//   - what the loader returned is an OBSERVATION (o_loaded), what fs.Readdirnames listed is an
//     OBSERVATION (o_listed); only the ORDER of that listing stays an oracle (c_enum).
//
// The loader's objects are still used where a declared oracle needs an object of the real code: atom
// matching of single words (DependAtom.FilterAtoms wants an atom.Atom; C13) and the owning package's
// flag map (ctxUse = av.GetUseFlagMap(), which FilterAtoms consults for [flag=]-style USE dependencies;
// C13).  A directory the loader lost gets a substitute built with the exported constructors of package
// atom from the harness's own reading.

import (
	"os"
	"path/filepath"
	"sort"
	"strings"

	"potano.layercake/portage/atom"
	"potano.layercake/portage/vdb"
)

func isDigitByte(c byte) bool { return c >= '0' && c <= '9' }

func allDigits(s string) bool {
	for i := 0; i < len(s); i++ {
		if !isDigitByte(s[i]) {
			return false
		}
	}
	return true
}

// isPMSVersion: PMS 3.2 version syntax, revision included.
func isPMSVersion(v string) bool {
	body := v
	if i := strings.IndexByte(v, '-'); i >= 0 { // -r<digits>, nothing after it
		rev := v[i+1:]
		if len(rev) < 2 || rev[0] != 'r' || !allDigits(rev[1:]) {
			return false
		}
		body = v[:i]
	}
	parts := strings.Split(body, "_")
	nums := strings.Split(parts[0], ".")
	for i, n := range nums {
		if i == len(nums)-1 && len(n) > 1 && n[len(n)-1] >= 'a' && n[len(n)-1] <= 'z' {
			n = n[:len(n)-1] // one trailing lower-case letter
		}
		if len(n) == 0 || !allDigits(n) {
			return false
		}
	}
	for _, suf := range parts[1:] {
		ok := false
		for _, k := range []string{"alpha", "beta", "pre", "rc", "p"} {
			if strings.HasPrefix(suf, k) && allDigits(suf[len(k):]) {
				ok = true
			}
		}
		if !ok {
			return false
		}
	}
	return true
}

// pfSplit cuts a directory name into package name and version: the version is what follows the hyphen
// whose remainder is a PMS version.  At most one hyphen qualifies (C05_pf_split_unique); the candidates
// are tried from the left all the same, and a second qualifying hyphen would be reported as !ok.
func pfSplit(pf string) (name, ver string, ok bool) {
	for i := 0; i < len(pf); i++ {
		if pf[i] == '-' && i > 0 && isPMSVersion(pf[i+1:]) {
			if ok {
				return "", "", false
			}
			name, ver, ok = pf[:i], pf[i+1:], true
		}
	}
	return
}

func trimASCII(s string) string {
	i, j := 0, len(s)
	for i < j && isSpaceByte(s[i]) {
		i++
	}
	for j > i && isSpaceByte(s[j-1]) {
		j--
	}
	return s[i:j]
}

// slotOf: SLOT = slot[/sub-slot]; an empty slot counts as "0".
func slotOf(slotFile string) string {
	t := trimASCII(slotFile)
	if i := strings.IndexByte(t, '/'); i >= 0 {
		t = t[:i]
	}
	if t == "" {
		t = "0"
	}
	return t
}

// slotKey: the key slots are compared by -- every maximal digit run zero-padded to five places (so that
// byte order is numeric order per run), everything else copied.
func slotKey(slot string) string {
	var b strings.Builder
	for i := 0; i < len(slot); {
		j := i
		if isDigitByte(slot[i]) {
			for j < len(slot) && isDigitByte(slot[j]) {
				j++
			}
			for k := j - i; k < 5; k++ {
				b.WriteByte('0')
			}
		} else {
			for j < len(slot) && !isDigitByte(slot[j]) {
				j++
			}
		}
		b.WriteString(slot[i:j])
		i = j
	}
	return b.String()
}

// ownListing: the directories below var/db/pkg as the harness's own os.ReadDir sees them ("cat/entry",
// sorted).
func ownListing(root string) []string {
	out := []string{}
	pkgdb := filepath.Join(root, "var/db/pkg")
	cats, err := os.ReadDir(pkgdb)
	if err != nil {
		return out
	}
	for _, c := range cats {
		es, err := os.ReadDir(filepath.Join(pkgdb, c.Name()))
		if err != nil {
			continue
		}
		for _, e := range es {
			out = append(out, c.Name()+"/"+e.Name())
		}
	}
	sort.Strings(out)
	return out
}

type loadedRec struct {
	Str  string `json:"str"`
	Name string `json:"name"`
	Slot string `json:"slot"`
}

// loaderView: what GetInstalledPackageList returned, as (String(), PackageName() = the key of the set's map,
// GetSlot() = the grouping key) of every member,
// canonically sorted; byStr: its objects by String() (for the match oracle).
func loaderView(set *atom.AtomSet) ([]loadedRec, map[string]*vdb.AvailableVersion) {
	out := []loadedRec{}
	byStr := map[string]*vdb.AvailableVersion{}
	for nm, sl := range set.Atoms { // the name and the grouping key each member is held under
		for _, a := range *sl {
			out = append(out, loadedRec{a.String(), nm, a.GetGroupingKey(set.Grouping)})
			if av, ok := a.(*vdb.AvailableVersion); ok {
				if _, dup := byStr[av.String()]; !dup {
					byStr[av.String()] = av
				}
			}
		}
	}
	sort.Slice(out, func(i, j int) bool {
		a, b := out[i], out[j]
		if a.Str != b.Str {
			return a.Str < b.Str
		}
		if a.Name != b.Name {
			return a.Name < b.Name
		}
		return a.Slot < b.Slot
	})
	return out, byStr
}

// substituteAV: an object of the real code for a directory the loader did not return, built from the
// harness's own reading with the exported constructors of package atom (the C13/C14 oracle: one word).
func substituteAV(dir string, p *PkgIn, slot string) (av *vdb.AvailableVersion) {
	defer func() {
		if recover() != nil {
			av = nil
		}
	}()
	ca, err := atom.NewUnprefixedConcreteAtom(string(p.Cat) + "/" + string(p.PF))
	if err != nil {
		return nil
	}
	line := ""
	if p.HasIuseEff {
		line = trimASCII(string(p.IuseEff))
	} else if p.HasIuse {
		line = trimASCII(string(p.Iuse))
	}
	ca.UseFlags = atom.NewUseFlagSetFromIUSE(line)
	if p.HasUse {
		ca.UseFlags.SetFlagsFromUSE(trimASCII(string(p.Use)))
	}
	ca.SetSlotAndSubslot(slot, "")
	return &vdb.AvailableVersion{ConcreteAtom: *ca, Directory: dir}
}
