package c06

import (
	"fmt"
	"sort"
	"strings"

	"lcverif/common"
	"lcverif/rng"
)

// ---- tree builder ----
type tb struct {
	nodes map[string]*Node
	group int
}

func newTB() *tb {
	t := &tb{nodes: map[string]*Node{}}
	t.nodes["/"] = &Node{Path: "/", Kind: "dir"}
	return t
}
func parentOf(p string) string {
	i := strings.LastIndexByte(p, '/')
	if i <= 0 {
		return "/"
	}
	return p[:i]
}
func (t *tb) mkdirs(p string) bool { // false when something that is not a directory is in the way
	if p == "/" {
		return true
	}
	if n, ok := t.nodes[p]; ok {
		return n.Kind == "dir"
	}
	if !t.mkdirs(parentOf(p)) {
		return false
	}
	t.nodes[p] = &Node{Path: B(p), Kind: "dir"}
	return true
}
func (t *tb) add(n Node) bool {
	p := string(n.Path)
	if _, ok := t.nodes[p]; ok {
		return false
	}
	if !t.mkdirs(parentOf(p)) {
		return false
	}
	t.nodes[p] = &n
	return true
}
func (t *tb) file(p string) bool            { return t.add(Node{Path: B(p), Kind: "file"}) }
func (t *tb) fileC(p, content string) bool  { return t.add(Node{Path: B(p), Kind: "file", Content: B(content)}) }
func (t *tb) link(p, target string) bool    { return t.add(Node{Path: B(p), Kind: "link", Target: B(target)}) }
func (t *tb) kind(p string) string {
	if n, ok := t.nodes[p]; ok {
		return n.Kind
	}
	return ""
}
func (t *tb) list() []Node {
	out := make([]Node, 0, len(t.nodes))
	for _, n := range t.nodes {
		out = append(out, *n)
	}
	sort.Slice(out, func(i, j int) bool { return out[i].Path < out[j].Path })
	return out
}

// the stage skeleton the built-in scripts demand (DESIGN Appendix C)
func skeleton(r *rng.R, t *tb) {
	for _, f := range []string{"/etc/csh.env", "/etc/env.d/00basic", "/etc/fstab", "/etc/group", "/etc/gshadow",
		"/etc/ld.so.cache", "/etc/ld.so.conf", "/etc/ld.so.conf.d/05gcc.conf", "/etc/passwd",
		"/etc/portage/make.conf", "/etc/profile.env", "/etc/shadow", "/etc/udev/hwdb.bin", "/etc/xml/catalog",
		"/usr/bin/c89", "/usr/bin/c99", "/usr/lib64/gconv/gconv-modules.cache", "/usr/local/bin/.keep",
		"/usr/share/binutils-data/x86_64/.keep", "/usr/share/gcc-data/x86_64/.keep", "/usr/share/info/dir",
		"/var/cache/edb/.keep", "/var/lib/gentoo/news/.keep", "/var/lib/portage/world"} {
		t.file(f)
	}
	t.mkdirs("/etc/portage/make.profile")
	t.mkdirs("/var/db/pkg")
	switch r.Intn(4) {
	case 0:
		t.link("/etc/localtime", "../usr/share/zoneinfo/UTC")
	default:
		t.file("/etc/localtime")
	}
	t.link("/var/run", r.Pick([]string{"../run", "/run"}))
	switch r.Intn(5) {
	case 0:
		t.link("/usr/tmp", "../var/tmp")
	case 1:
		t.mkdirs("/usr/tmp")
	}
	if r.Chance(1, 3) {
		t.file("/usr/sbin/fix_libtool_files.sh")
	}
	if r.Chance(1, 3) {
		t.mkdirs(r.Pick([]string{"/boot", "/home", "/proc", "/dev", "/usr/src", "/var/tmp", "/run"}))
	}
}

var plainNames = []string{"foo", "bar", "baz", "qux", "lib.so", "lib.so.1", "README", "conf.d", "x", "y", "tool",
	"data.bin", "a", "b1", "z9", "foo2", "fo", "food", "sub", "cache", "tmp", "tty9", "sda"}
var oddNames = []string{"a b", "it's", `q"t`, "st*r", "d$l", "s;c", "a&b", `b\s`, "t\tb", "ü", "(p)", "#h", "~t",
	"-d", ".hid", "...", "[br]", "q?m", "  lead", "trail ", "x=y", "`bt`", "%s", "%d%n", "{a,b}", "!", "^", "|p",
	"<lt>", "ünï-中", "a -> b", "*", "a  b", "'", `"`, `\`, "fo*", "$$stageroot", "~", "#"}
var dirPool = []string{"/usr/bin", "/usr/lib64", "/usr/share/doc/pkgA", "/opt/app", "/opt/app/sub", "/etc/conf.d",
	"/var/lib/misc", "/bin", "/usr/share/odd dir", "/srv/www", "/usr/local/share", "/etc/env.d", "/var/cache/x",
	"/home/u", "/usr/lib64/cache", "/usr/libexec/tmp", "/etc/portage", "/usr/share/st*r", "/lib64", "/etc/xml",
	"/usr/share/gcc-data/x86_64", "/opt", "/usr/src/linux", "/var/lib/portage", "/usr/share/a -> b",
	"/opt/a*b", "/srv/*", "/opt/a*b"}

func genName(r *rng.R) string {
	if r.Chance(1, 4) {
		return r.Pick(oddNames)
	}
	n := r.Pick(plainNames)
	if r.Chance(1, 6) {
		n += r.Pick([]string{"-1", ".so", " (copy)", "~", ".d"})
	}
	return n
}

type extra struct {
	path string
	kind string // as created
}

func genExtras(r *rng.R, t *tb) []extra {
	var out []extra
	ndirs := 2 + r.Intn(4)
	dirs := []string{}
	for i := 0; i < ndirs; i++ {
		d := r.Pick(dirPool)
		if r.Chance(1, 8) {
			d += "/" + genName(r)
		}
		if t.mkdirs(d) {
			dirs = append(dirs, d)
		}
	}
	if len(dirs) == 0 {
		return nil
	}
	var files []string
	n := 4 + r.Heavy(20)
	for i := 0; i < n; i++ {
		d := r.Pick(dirs)
		p := d + "/" + genName(r)
		switch x := r.Intn(20); {
		case x < 10:
			if t.file(p) {
				out = append(out, extra{p, "file"})
				files = append(files, p)
			}
		case x < 12:
			if t.mkdirs(p) {
				out = append(out, extra{p, "dir"})
				dirs = append(dirs, p)
			}
		case x < 17: // symlink
			var target string
			switch r.Intn(7) {
			case 0, 1: // sibling or other existing file, relative
				if len(files) > 0 {
					f := r.Pick(files)
					if parentOf(f) == d {
						target = f[len(d)+1:]
					} else {
						target = relTo(d, f)
					}
				} else {
					target = "nowhere"
				}
			case 2: // absolute
				if len(files) > 0 {
					target = r.Pick(files)
				} else {
					target = "/usr/bin/c89"
				}
			case 3: // to another extra (possibly a link: chains)
				if len(out) > 0 {
					e := out[r.Intn(len(out))]
					if r.Bool() {
						target = e.path
					} else {
						target = relTo(d, e.path)
					}
				} else {
					target = "dangling"
				}
			case 4:
				target = r.Pick([]string{"nowhere", "../missing/x", "/no/such", "."})
			case 5: // a directory
				target = r.Pick(dirs)
			case 6: // skeleton file
				target = r.Pick([]string{"/etc/passwd", "../../etc/fstab", "/usr/bin/c99"})
			}
			if t.link(p, target) {
				out = append(out, extra{p, "link"})
			}
		case x < 18:
			k := r.Pick([]string{"chr", "blk"})
			if t.add(Node{Path: B(p), Kind: k}) {
				out = append(out, extra{p, "dev"})
			}
		case x < 19:
			if r.Chance(1, 3) {
				k := r.Pick([]string{"fifo", "sock"})
				if t.add(Node{Path: B(p), Kind: k}) {
					out = append(out, extra{p, k})
				}
			}
		default: // a longer chain of links ending at a file
			if len(files) > 0 {
				tgt := r.Pick(files)
				ln := 2 + r.Intn(3)
				if r.Chance(1, 8) {
					ln = 5 + r.Intn(3)
				}
				prev := tgt
				for j := 0; j < ln; j++ {
					q := fmt.Sprintf("%s/chain%d_%d", d, i, j)
					if t.link(q, prev) {
						out = append(out, extra{q, "link"})
						prev = q
					}
				}
			}
		}
	}
	// hard-link groups
	if len(files) >= 2 && r.Chance(1, 2) {
		ng := 1 + r.Intn(2)
		for g := 0; g < ng; g++ {
			t.group++
			k := 2 + r.Intn(2)
			for j := 0; j < k; j++ {
				f := r.Pick(files)
				if t.nodes[f].Group == 0 {
					t.nodes[f].Group = t.group
				}
			}
		}
	}
	if r.Chance(1, 40) { // a symlink cycle
		d := r.Pick(dirs)
		if t.link(d+"/cyc1", "cyc2") && t.link(d+"/cyc2", "cyc1") {
			out = append(out, extra{d + "/cyc1", "link"}, extra{d + "/cyc2", "link"})
		}
	}
	return out
}

func relTo(dir, target string) string {
	ds := strings.Split(strings.Trim(dir, "/"), "/")
	ts := strings.Split(strings.Trim(target, "/"), "/")
	i := 0
	for i < len(ds) && i < len(ts)-1 && ds[i] == ts[i] {
		i++
	}
	up := strings.Repeat("../", len(ds)-i)
	return up + strings.Join(ts[i:], "/")
}

const md5 = "d3b07384d113edec49eaa6238ad5ff00"

func contentsLine(r *rng.R, path, kind string) string {
	switch kind {
	case "dir":
		return "dir " + path
	case "link":
		return "sym " + path + " -> " + r.Pick([]string{"foo", "../lib64/x y", "/usr/bin/z"}) + " 1600000000"
	default:
		return "obj " + path + " " + md5 + " 1600000000"
	}
}

var cats = []string{"app-misc", "sys-apps", "dev-libs", "app-editors"}
var pns = []string{"foo", "bar", "baz", "qux", "libx", "ytool", "ed", "nano2"}
var vers = []string{"1", "1.2", "2.0-r1", "0.9_p3", "10"}

// GenInput draws one input.
func GenInput(r *rng.R, hostile bool) Input {
	t := newTB()
	skeleton(r, t)
	extras := genExtras(r, t)
	npk := 2 + r.Intn(4)
	pkgs := make([]Pkg, 0, npk)
	used := map[string]bool{}
	for len(pkgs) < npk {
		pn := r.Pick(pns)
		if used[pn] {
			continue
		}
		used[pn] = true
		pkgs = append(pkgs, Pkg{Cat: r.Pick(cats), PN: pn, PF: pn + "-" + r.Pick(vers)})
	}
	// two packages of one category whose database directories are prefix-related as strings
	// ("ed-1" and "ed-1x1-2.0"): the shorter one is requested, the longer one is not
	prefixPair := -1
	if !used["ed"] && r.Chance(1, 5) {
		c := r.Pick(cats)
		prefixPair = len(pkgs)
		pkgs = append(pkgs, Pkg{Cat: c, PN: "ed", PF: "ed-1"}, Pkg{Cat: c, PN: "ed-1x1", PF: "ed-1x1-2.0"})
		npk += 2
	}
	// ownership
	lines := make([][]string, npk)
	seenLine := make([]map[string]bool, npk)
	for i := range seenLine {
		seenLine[i] = map[string]bool{}
	}
	owners := map[string][]int{}
	record := func(i int, path, kind string) {
		if seenLine[i][path] {
			return
		}
		seenLine[i][path] = true
		owners[path] = append(owners[path], i)
		// ancestors first, most of the time
		if r.Chance(4, 5) {
			var anc []string
			for p := parentOf(path); p != "/"; p = parentOf(p) {
				anc = append([]string{p}, anc...)
			}
			for _, a := range anc {
				if !seenLine[i][a] && r.Chance(9, 10) {
					seenLine[i][a] = true
					lines[i] = append(lines[i], "dir "+a)
				}
			}
		}
		lines[i] = append(lines[i], contentsLine(r, path, kind))
	}
	for _, e := range extras {
		if strings.Contains(e.path, "\n") {
			continue
		}
		if r.Chance(1, 4) {
			continue // orphan: owned by no package
		}
		i := r.Intn(npk)
		k := e.kind
		if r.Chance(1, 12) {
			k = r.Pick([]string{"file", "dir", "link"})
		}
		record(i, e.path, k)
		if r.Chance(1, 6) {
			record(r.Intn(npk), e.path, k)
		}
	}
	// things recorded but no longer there; skeleton entries owned by packages
	for i := 0; i < npk; i++ {
		for j := r.Heavy(2); j > 0; j-- {
			record(i, r.Pick(dirPool)+"/"+genName(r)+".gone", r.Pick([]string{"file", "link", "dir"}))
		}
		if r.Chance(1, 4) {
			p := r.Pick([]string{"/etc/env.d/00basic", "/etc/portage/make.conf", "/usr/bin/c89", "/var/run", "/etc/mtab",
				"/usr/tmp", "/etc/localtime", "/opt", "/usr/src", "/var/db/repos", "/var/lib/portage/world",
				"/usr/local/bin/.keep", "/var/cache/edb/.keep", "/etc/xml/catalog", "/var/empty", "/home", "/root"})
			k := t.kind(p)
			if k == "" {
				k = r.Pick([]string{"file", "dir", "link"})
			}
			record(i, p, k)
		}
	}
	// dependencies and requests
	want := map[int]bool{}
	switch r.Intn(6) {
	case 0:
		for i := range pkgs {
			want[i] = true
		}
	default:
		for i := range pkgs {
			if r.Chance(2, 5) {
				want[i] = true
			}
		}
	}
	if len(want) == 0 || len(want) == npk && r.Chance(2, 3) {
		want = map[int]bool{r.Intn(npk): true}
	}
	if prefixPair >= 0 {
		want[prefixPair] = true
		delete(want, prefixPair+1)
	}
	for i := range pkgs {
		pkgs[i].Want = want[i]
	}
	// round 5: src= lines whose source is a multiply linked inode (r5_src.go)
	var plan srcPlan
	if r.Chance(1, 5) {
		plan = genSrcClass(r, t, npk, want, record)
	}
	for i, p := range pkgs {
		d := p.Dir()
		blob := strings.Join(lines[i], "\n")
		if len(lines[i]) > 0 && r.Chance(9, 10) {
			blob += "\n"
		}
		if hostile && i == 0 {
			blob = corrupt(r, lines[i])
		}
		t.fileC(d+"/CONTENTS", blob)
		t.fileC(d+"/SLOT", r.Pick([]string{"0\n", "0/2\n", "1.2\n"}))
		if r.Chance(1, 2) {
			t.fileC(d+"/PF", p.PF+"\n")
		}
		if r.Chance(1, 4) {
			t.fileC(d+"/environment.bz2", "BZh")
		}
		if r.Chance(1, 10) {
			t.file(d + "/extra dir/" + genName(r))
		}
		if r.Chance(1, 5) && npk > 1 {
			j := r.Intn(npk)
			if j != i {
				t.fileC(d+"/RDEPEND", pkgs[j].Cat+"/"+pkgs[j].PN+"\n")
			}
		}
		if r.Chance(1, 5) && npk > 1 {
			j := r.Intn(npk)
			if j != i {
				t.fileC(d+"/BDEPEND", pkgs[j].Cat+"/"+pkgs[j].PN+"\n")
			}
		}
	}
	in := Input{Pkgs: pkgs, NoVDB: r.Chance(3, 10), EmptyDev: !r.Chance(1, 7), NoBdeps: r.Chance(3, 10)}
	if r.Chance(13, 20) {
		in.UseFile = true
		var likely []string
		for _, e := range extras {
			for _, o := range owners[e.path] {
				if want[o] && e.kind != "fifo" && e.kind != "sock" {
					likely = append(likely, e.path)
					break
				}
			}
		}
		in.Script = common.Bs(genScript(r, t, extras, likely, pkgs, in))
	}
	if len(plan.lines) > 0 {
		in.UseFile = true
		if r.Bool() {
			in.Script = nil // only the src= lines
		}
		in.Script = mergeSrcLines(r, in.Script, plan.lines)
		in.Ext = plan.ext
	}
	in.Tree = t.list()
	return in
}

func corrupt(r *rng.R, lines []string) string {
	ls := append([]string{}, lines...)
	if len(ls) == 0 {
		ls = []string{"dir /usr"}
	}
	i := r.Intn(len(ls))
	switch r.Intn(8) {
	case 0:
		ls = append(ls[:i:i], append([]string{""}, ls[i:]...)...) // blank line
	case 1:
		ls[i] = r.Pick([]string{"ob", "dir", "x", "sym"}) // short line
	case 2:
		ls[i] = "obj /usr/bin/foo " + md5 + " 16x"
	case 3:
		ls[i] = "obj /usr/bin/foo zz 1600000000"
	case 4:
		ls[i] = "sym /usr/bin/foo 1600000000"
	case 5:
		ls[i] = "fif /usr/bin/foo"
	case 6:
		ls[i] = "obj /usr/bin/foo"
	case 7:
		ls[i] = "obj " + md5 + " 1600000000"
	}
	return strings.Join(ls, "\n") + "\n"
}

// quote a name for an add-files line
func quoteName(r *rng.R, n string) string {
	special := strings.ContainsAny(n, " \t'\"\\")
	if !special {
		return n
	}
	if !strings.ContainsAny(n, "\"\\") && r.Bool() {
		return `"` + n + `"`
	}
	if !strings.ContainsAny(n, "'\\") && r.Bool() {
		return `'` + n + `'`
	}
	var b strings.Builder
	for i := 0; i < len(n); i++ {
		if strings.IndexByte(" \t'\"\\", n[i]) >= 0 {
			b.WriteByte('\\')
		}
		b.WriteByte(n[i])
	}
	return b.String()
}

func scriptable(n string) bool { // can be named literally on a line (no '*', see C17 for the escape)
	return !strings.ContainsAny(n, "*\n\r\x00") && n != "/" && !strings.HasSuffix(n, " ") &&
		!strings.Contains(n, "\\")
}

func genScript(r *rng.R, t *tb, extras []extra, likely []string, pkgs []Pkg, in Input) []string {
	var out []string
	var present, filesP, linksP, dirsP []string
	for _, e := range extras {
		if !scriptable(e.path) {
			continue
		}
		present = append(present, e.path)
		switch e.kind {
		case "file":
			filesP = append(filesP, e.path)
		case "link":
			linksP = append(linksP, e.path)
		case "dir":
			dirsP = append(dirsP, e.path)
		}
	}
	pick := func(l []string, dflt string) string {
		if len(l) == 0 {
			return dflt
		}
		return r.Pick(l)
	}
	std := []string{"/boot", "/dev", "/home", "/media", "/mnt", "/opt", "/proc", "/root", "/run", "/sys", "/tmp",
		"/usr/src", "/var/db/repos", "/var/empty", "/var/lock", "/var/run", "/var/spool", "/var/tmp"}
	dev := []string{"/dev/console", "/dev/null", "/dev/tty0", "/dev/tty12", "/dev/sda", "/dev/sda3", "/dev/input",
		"/dev/input/mice", "/dev/fd", "/dev/hda32", "/dev/input/event31"}
	magic := []string{"/etc/passwd", "/etc/env.d/00basic", "/etc/env.d", "/usr/local/bin", "/var/cache/edb", "/etc/mtab",
		"/usr/bin/c89", "/etc", "/usr", "/usr/bin", "/var/db/pkg"}
	wildDirs := []string{"/usr/bin", "/usr/lib64", "/opt/app", "/etc/conf.d", "/etc/env.d", "/dev", "/dev/input", "/usr/local",
		"/var/db/pkg/app-misc", "/etc", "/usr/share/doc/pkgA", "/bin", "/var", ""}
	pats := []string{"*", "f*", "*o", "fo*", "b*", "*.so*", "tty*", "sd*", "c*", "*a*", "foo*", "a*b", "*.gone", "l*.so.1", "**", "x*y*"}
	var members []string // names that are probably members of the list
	for _, p := range likely {
		if scriptable(p) {
			members = append(members, p, p)
		}
	}
	members = append(members, std...)
	members = append(members, magic...)
	if !in.EmptyDev {
		members = append(members, dev...)
		members = append(members, dev...)
	}
	if !in.NoVDB {
		for _, p := range pkgs {
			if p.Want {
				members = append(members, p.Dir()+"/CONTENTS", p.Dir()+"/SLOT", p.Dir())
			}
		}
	}
	// a pattern that matches the given name
	patFor := func(name string) string {
		d, b := parentOf(name), name[strings.LastIndexByte(name, '/')+1:]
		if d == "/" {
			d = ""
		}
		if strings.Contains(d, "*") && !strings.ContainsAny(d, "?[\\ \t'\"") && !strings.ContainsAny(b, "?[\\ \t'\"") {
			// a literal asterisk in the directory part is written escaped; the wildcard is in the last element
			ed := strings.ReplaceAll(d, "*", "\\*")
			if r.Bool() {
				return ed + "/*"
			}
			return ed + "/" + b[:r.Intn(len(b)+1)] + "*"
		}
		if strings.ContainsAny(d, "*?[\\ \t'\"") {
			return r.Pick(wildDirs) + "/" + r.Pick(pats)
		}
		if strings.ContainsAny(b, "?[\\ \t'\"") {
			return d + "/*"
		}
		switch r.Intn(5) {
		case 0:
			return d + "/*"
		case 1:
			return d + "/" + b[:1+r.Intn(len(b))] + "*"
		case 2:
			return d + "/*" + b[r.Intn(len(b)):]
		case 3:
			k := r.Intn(len(b))
			return d + "/" + b[:k] + "*" + b[k:]
		default:
			if len(b) >= 2 {
				return d + "/" + b[:1] + "*" + b[len(b)-1:]
			}
			return d + "/" + b + "*"
		}
	}
	{ // a wildcard omit below a directory whose own name contains an asterisk, whenever there is one
		var starred []string
		for _, m := range likely {
			if strings.Contains(parentOf(m), "*") {
				starred = append(starred, m)
			}
		}
		if len(starred) > 0 && r.Chance(2, 3) {
			out = append(out, "omit "+patFor(r.Pick(starred)))
		}
	}
	n := 1 + r.Heavy(6)
	for i := 0; i < n; i++ {
		var l string
		switch x := r.Intn(40); {
		case x < 5: // new directories, possibly deep
			d := r.Pick([]string{"/opt/new", "/opt/new/sub/dir", "/srv/a/b/c", "/usr/share/newdir", "/data", "/opt/app/plug ins/x",
				"/dev/pts", "/dev/shm", "/var/db/pkg/virtual/extra-0", "/usr/portage"})
			l = "dir " + quoteName(r, d)
			if r.Chance(1, 3) {
				l += r.Pick([]string{" mod=0755", " mod=1777", " uid=0 gid=0", " uid=250:250", " absent=skip"})
			}
		case x < 9:
			l = r.Pick([]string{"file", "tbd", "file"}) + " " + quoteName(r, pick(filesP, "/etc/passwd"))
			if r.Chance(1, 4) {
				l += r.Pick([]string{" mod=0600", " absent=skip", " uid=7"})
			}
		case x < 11:
			l = "tbd " + quoteName(r, pick(present, "/etc/fstab"))
		case x < 13:
			l = r.Pick([]string{"file", "tbd", "symlink", "node"}) + " " + r.Pick(dirPool) + "/" + r.Pick(plainNames) + ".absent absent=skip"
		case x < 15:
			l = "symlink " + quoteName(r, r.Pick([]string{"/usr/lnk", "/opt/new/link", "/usr/portage", "/etc/mtab2", "/lib", "/dev/core2"})) +
				" targ=" + r.Pick([]string{"/var/db/repos/gentoo", "../proc/self/fd", "bin", "/usr/lib64"})
		case x < 16:
			l = "symlink " + quoteName(r, pick(linksP, "/var/run"))
		case x < 18:
			l = "node " + r.Pick([]string{"/dev/tty7", "/dev/xyz", "/dev/input/ev9", "/dev/mapper/control", "/opt/nodes/n1", "/dev/null"}) +
				" dev=" + r.Pick([]string{"c4:7", "b8:1", "c10:236", "c1:3"}) + r.Pick([]string{"", " mod=0600", " gid=5"})
		case x < 21: // wildcard add
			if len(present) > 0 && r.Chance(3, 4) {
				l = r.Pick([]string{"file", "tbd", "dir", "dir", "tbd"}) + " " + patFor(r.Pick(present))
			} else {
				l = r.Pick([]string{"file", "tbd", "dir", "dir"}) + " " + r.Pick(wildDirs) + "/" + r.Pick(pats)
			}
		case x < 27: // omit a likely member
			if r.Chance(1, 12) {
				l = "omit " + quoteName(r, pick(present, "/nonmember"))
			} else {
				l = "omit " + quoteName(r, r.Pick(members))
			}
		case x < 34: // wildcard omit
			if r.Chance(1, 3) { // below a directory whose own name contains an asterisk
				var starred []string
				for _, m := range likely {
					if strings.Contains(parentOf(m), "*") {
						starred = append(starred, m)
					}
				}
				if len(starred) > 0 {
					l = "omit " + patFor(r.Pick(starred))
					break
				}
			}
			if r.Chance(3, 4) {
				l = "omit " + patFor(r.Pick(members))
				break
			}
			wd := r.Pick(wildDirs)
			if !in.EmptyDev && r.Bool() {
				wd = r.Pick([]string{"/dev", "/dev/input"})
			}
			if r.Chance(1, 5) && len(pkgs) > 0 {
				wd = pkgs[r.Intn(len(pkgs))].Dir()
			}
			l = "omit " + wd + "/" + r.Pick(pats)
		case x < 35:
			l = r.Pick([]string{"# a comment", "", "// another comment", "   ", "\t# indented"})
		case x < 36: // error lines
			l = r.Pick([]string{"file", "frob /usr/bin/foo", "file relative/name", "file /etc/passwd mod=0644 mod=0600",
				"symlink /x/y mod=0644", "omit /etc/passwd absent=skip", "dir /opt/x bogus=1", "file /a/*/b", "node /dev/zz dev=c1:256",
				"node /dev/zz dev=x1:2", "file \"/unclosed", "dir /opt/q absent=maybe", "file /usr/bin/nonexistent-file",
				"omit /no/such/member", "file /", "dir /opt =x", "symlink /usr/newlink", "node /dev/nonode", "file /etc/env.d",
				"dir /etc/passwd/*", "file /nonexistent-dir/*"})
		case x < 38: // re-add after omit
			p := pick(filesP, "/etc/passwd")
			out = append(out, "omit "+quoteName(r, p))
			l = "tbd " + quoteName(r, p)
		default: // file below a directory nobody owns
			l = "file " + quoteName(r, pick(filesP, "/usr/share/info/dir"))
		}
		out = append(out, l)
	}
	return out
}

func Generate(r *rng.R, tier string, n int, emit func(*common.Case)) {
	Thorough = tier == "thorough"
	for i := 0; i < n; i++ {
		cr := r.Split()
		sub := cr.U64()
		cr = rng.New(sub)
		in := GenInput(cr, i%12 == 11)
		c := Run(in)
		c.Sub = sub
		emit(c)
	}
}
